import BobModel.Proofs.C20Dfs
/-
C20: the naming phase of `sanitize` (longest prefix groups, numbering) and which hypotheses make the
final names unique.
-/
namespace Jenkins

/-! ### sorting is a permutation -/

theorem insertSorted_perm {α : Type} (le : α → α → Bool) (x : α) (l : List α) : (insertSorted le x l).Perm (x :: l) := by
  induction l with
  | nil => exact List.Perm.refl _
  | cons y ys ih =>
    simp only [insertSorted]
    split
    · exact List.Perm.refl _
    · exact (List.Perm.cons y ih).trans (List.Perm.swap x y ys)

theorem isort_perm {α : Type} (le : α → α → Bool) (l : List α) : (isort le l).Perm l := by
  induction l with
  | nil => exact List.Perm.refl _
  | cons x xs ih => exact (insertSorted_perm le x _).trans (List.Perm.cons x ih)

theorem allJobs_perm {L L' : NameMap} (h : L.Perm L') : (allJobs L).Perm (allJobs L') := by
  induction h with
  | nil => exact List.Perm.refl _
  | cons x _ ih =>
    obtain ⟨nm, l⟩ := x
    exact List.Perm.append_left l ih
  | swap x y l =>
    obtain ⟨nx, lx⟩ := x
    obtain ⟨ny, ly⟩ := y
    simp only [allJobs]
    rw [← List.append_assoc, ← List.append_assoc]
    exact List.Perm.append_right _ List.perm_append_comm
  | trans _ _ ih1 ih2 => exact ih1.trans ih2

/-! ### `finalNames` lists every live job exactly once -/

def fnStep (g : Graph) (s : St) (fin : NameMap) (p : Str × List Nat) : NameMap :=
  if p.2.length > 1 then p.2.foldl (fun fin j => extendName fin (longestPrefix g (s.job j).pkgs) [j]) fin
  else extendName fin p.1 p.2

theorem finalNames_eq (g : Graph) (s : St) : finalNames g s = (isort keyLe s.names).foldl (fnStep g s) [] := rfl

structure MapOk (M : NameMap) : Prop where
  keys : (keysOf M).Nodup
  nodup : (allJobs M).Nodup

theorem extend_ok {M : NameMap} {nm : Str} {js : List Nat} (h : MapOk M) (hjs : js.Nodup)
    (hd : ∀ k ∈ js, k ∉ allJobs M) : MapOk (extendName M nm js) :=
  ⟨nodup_keys_extendName h.keys, nodup_allJobs_extendName h.nodup hjs hd⟩

theorem foldExtend_ok (f : Nat → Str) : ∀ (js : List Nat) (M : NameMap), MapOk M → js.Nodup → (∀ k ∈ js, k ∉ allJobs M) →
    MapOk (js.foldl (fun fin j => extendName fin (f j) [j]) M) ∧
      ∀ k, k ∈ allJobs (js.foldl (fun fin j => extendName fin (f j) [j]) M) ↔ (k ∈ allJobs M ∨ k ∈ js) := by
  intro js
  induction js with
  | nil => intro M h _ _; exact ⟨h, fun k => by simp⟩
  | cons j js ih =>
    intro M h hnd hd
    simp only [List.foldl_cons]
    have hj : j ∉ js := (List.nodup_cons.mp hnd).1
    have h1 : MapOk (extendName M (f j) [j]) := extend_ok h (by simp) (fun k hk => by simp at hk; subst hk; exact hd k (by simp))
    have hd1 : ∀ k ∈ js, k ∉ allJobs (extendName M (f j) [j]) := by
      intro k hk hk2
      rcases mem_allJobs_extendName.mp hk2 with hk2 | hk2
      · exact hd k (List.mem_cons_of_mem _ hk) hk2
      · simp at hk2; subst hk2; exact hj hk
    obtain ⟨r1, r2⟩ := ih _ h1 (List.nodup_cons.mp hnd).2 hd1
    refine ⟨r1, fun k => ?_⟩
    rw [r2 k, mem_allJobs_extendName]
    simp only [List.mem_cons, List.not_mem_nil, or_false]
    constructor
    · rintro ((h' | h') | h')
      · exact Or.inl h'
      · exact Or.inr (Or.inl h')
      · exact Or.inr (Or.inr h')
    · rintro (h' | h' | h')
      · exact Or.inl (Or.inl h')
      · exact Or.inl (Or.inr h')
      · exact Or.inr h'

theorem fnStep_ok (g : Graph) (s : St) {M : NameMap} {p : Str × List Nat} (h : MapOk M) (hp : p.2.Nodup)
    (hd : ∀ k ∈ p.2, k ∉ allJobs M) :
    MapOk (fnStep g s M p) ∧ ∀ k, k ∈ allJobs (fnStep g s M p) ↔ (k ∈ allJobs M ∨ k ∈ p.2) := by
  unfold fnStep
  split
  · exact foldExtend_ok _ p.2 M h hp hd
  · exact ⟨extend_ok h hp hd, fun k => mem_allJobs_extendName⟩

theorem foldFn_ok (g : Graph) (s : St) : ∀ (L M : NameMap), MapOk M → (allJobs L).Nodup → (∀ k ∈ allJobs L, k ∉ allJobs M) →
    MapOk (L.foldl (fnStep g s) M) ∧ ∀ k, k ∈ allJobs (L.foldl (fnStep g s) M) ↔ (k ∈ allJobs M ∨ k ∈ allJobs L) := by
  intro L
  induction L with
  | nil => intro M h _ _; exact ⟨h, fun k => by simp [allJobs]⟩
  | cons p L ih =>
    intro M h hnd hd
    obtain ⟨nm, l⟩ := p
    simp only [allJobs, List.nodup_append] at hnd
    obtain ⟨hl, hL, hdis⟩ := hnd
    simp only [List.foldl_cons]
    obtain ⟨a1, a2⟩ := fnStep_ok g s (p := (nm, l)) h hl (fun k hk => hd k (by simp [allJobs, hk]))
    have hd1 : ∀ k ∈ allJobs L, k ∉ allJobs (fnStep g s M (nm, l)) := by
      intro k hk hk2
      rcases (a2 k).mp hk2 with hk2 | hk2
      · exact hd k (by simp [allJobs, hk]) hk2
      · exact hdis k hk2 k hk rfl
    obtain ⟨r1, r2⟩ := ih _ a1 hL hd1
    refine ⟨r1, fun k => ?_⟩
    rw [r2 k, a2 k]
    simp only [allJobs, List.mem_append]
    constructor
    · rintro ((h' | h') | h')
      · exact Or.inl h'
      · exact Or.inr (Or.inl h')
      · exact Or.inr (Or.inr h')
    · rintro (h' | h' | h')
      · exact Or.inl (Or.inl h')
      · exact Or.inl (Or.inr h')
      · exact Or.inr h'

theorem finalNames_ok {g : Graph} {s : St} (h : NamesOk s.names s) : NamesOk (finalNames g s) s := by
  rw [finalNames_eq]
  have hp := allJobs_perm (isort_perm keyLe s.names)
  obtain ⟨r1, r2⟩ := foldFn_ok g s (isort keyLe s.names) [] ⟨by simp [keysOf], by simp [allJobs]⟩
    (hp.nodup_iff.mpr h.nodup) (fun k _ hk => by simp [allJobs] at hk)
  refine ⟨r1.keys, r1.nodup, fun k => ?_⟩
  rw [r2 k, ← h.live k, hp.mem_iff]
  simp [allJobs]

/-! ### `assign`: which name a package step gets -/

/-- the name given to the job at position `idx` of the group `p` -/
def nameAt (p : Str × List Nat) (idx : Nat) : Str :=
  match p.2 with
  | [_] => p.1
  | _ => numbered p.1 idx

def asStep (s : St) (pn : PkgNames) (p : Str × List Nat) : PkgNames :=
  match p.2 with
  | [j] => setAll pn (s.job j).pkgs p.1
  | js => assignNumbered s p.1 0 js pn

theorem assign_eq (s : St) (fin : NameMap) : assign s fin = (isort keyLe fin).foldl (asStep s) (fun _ => none) := rfl

theorem setAll_val {s : St} {pn : PkgNames} {j : Nat} {nm : Str}
    (hpk : ∀ w, w ∈ (s.job j).pkgs ↔ s.v2j w = some j) {v k : Nat} (hv : s.v2j v = some k) :
    setAll pn (s.job j).pkgs nm v = if k = j then some nm else pn v := by
  unfold setAll
  by_cases hkj : k = j
  · subst hkj
    have : (s.job k).pkgs.contains v = true := by simpa using (hpk v).mpr hv
    rw [this]; simp
  · have : (s.job j).pkgs.contains v = false := by
      cases hc : (s.job j).pkgs.contains v with
      | false => rfl
      | true =>
        have := (hpk v).mp (by simpa using hc)
        rw [hv] at this; cases this; exact absurd rfl hkj
    rw [this]; simp [hkj]

theorem assignNumbered_spec {s : St} (name : Str) :
    ∀ (js : List Nat), (∀ j ∈ js, ∀ w, w ∈ (s.job j).pkgs ↔ s.v2j w = some j) → js.Nodup →
    ∀ (i0 : Nat) (pn : PkgNames) (v k : Nat), s.v2j v = some k →
      (k ∉ js → assignNumbered s name i0 js pn v = pn v) ∧
      (∀ idx, js[idx]? = some k → assignNumbered s name i0 js pn v = some (numbered name (i0 + idx))) := by
  intro js
  induction js with
  | nil =>
    intro _ _ i0 pn v k _
    exact ⟨fun _ => rfl, fun idx h => by simp at h⟩
  | cons j js ih =>
    intro hpk hnd i0 pn v k hv
    simp only [assignNumbered]
    have hj := hpk j (by simp)
    obtain ⟨i1, i2⟩ := ih (fun x hx => hpk x (List.mem_cons_of_mem _ hx)) (List.nodup_cons.mp hnd).2 (i0 + 1)
      (setAll pn (s.job j).pkgs (numbered name i0)) v k hv
    constructor
    · intro hk
      have hkj : k ≠ j := fun e => hk (by simp [e])
      rw [i1 (fun h => hk (List.mem_cons_of_mem _ h)), setAll_val hj hv, if_neg hkj]
    · intro idx hidx
      cases idx with
      | zero =>
        simp at hidx; subst hidx
        rw [i1 (List.nodup_cons.mp hnd).1, setAll_val hj hv, if_pos rfl]; rfl
      | succ idx =>
        rw [List.getElem?_cons_succ] at hidx
        rw [i2 idx hidx]
        congr 2; omega

/-- one group: a package step whose job is in the group gets the group's name for its position, every
other package step keeps what it had -/
theorem asStep_spec {s : St} {p : Str × List Nat} (hpk : ∀ j ∈ p.2, ∀ w, w ∈ (s.job j).pkgs ↔ s.v2j w = some j)
    (hnd : p.2.Nodup) (pn : PkgNames) {v k : Nat} (hv : s.v2j v = some k) :
    (k ∉ p.2 → asStep s pn p v = pn v) ∧ (∀ idx, p.2[idx]? = some k → asStep s pn p v = some (nameAt p idx)) := by
  obtain ⟨nm, l⟩ := p
  unfold asStep nameAt
  simp only
  match l, hpk, hnd with
  | [], _, _ => exact ⟨fun _ => rfl, fun idx h => by simp at h⟩
  | [j], hpk, _ =>
    simp only
    constructor
    · intro hk
      rw [setAll_val (hpk j (by simp)) hv, if_neg (fun e => hk (by simp [e]))]
    · intro idx hidx
      cases idx with
      | zero => simp at hidx; subst hidx; rw [setAll_val (hpk j (by simp)) hv, if_pos rfl]
      | succ idx => simp at hidx
  | a :: b :: l', hpk, hnd =>
    simp only
    have := assignNumbered_spec (s := s) nm (a :: b :: l') hpk hnd 0 pn v k hv
    refine ⟨this.1, fun idx hidx => ?_⟩
    rw [this.2 idx hidx]; simp

/-- all groups, in any order -/
theorem foldAs_spec {s : St} :
    ∀ (L : NameMap), (∀ e ∈ L, ∀ j ∈ e.2, ∀ w, w ∈ (s.job j).pkgs ↔ s.v2j w = some j) → (∀ e ∈ L, e.2.Nodup) →
    (∀ e1 ∈ L, ∀ e2 ∈ L, ∀ k, k ∈ e1.2 → k ∈ e2.2 → e1 = e2) →
    ∀ (pn : PkgNames) (v k : Nat), s.v2j v = some k →
      ((∀ e ∈ L, k ∉ e.2) → L.foldl (asStep s) pn v = pn v) ∧
      (∀ e ∈ L, ∀ idx, e.2[idx]? = some k → L.foldl (asStep s) pn v = some (nameAt e idx)) := by
  intro L
  induction L with
  | nil => intro _ _ _ pn v k _; exact ⟨fun _ => rfl, fun e he => by cases he⟩
  | cons p L ih =>
    intro hpk hnd hu pn v k hv
    simp only [List.foldl_cons]
    obtain ⟨a1, a2⟩ := asStep_spec (hpk p (by simp)) (hnd p (by simp)) pn hv
    obtain ⟨i1, i2⟩ := ih (fun e he => hpk e (List.mem_cons_of_mem _ he)) (fun e he => hnd e (List.mem_cons_of_mem _ he))
      (fun e1 h1 e2 h2 => hu e1 (List.mem_cons_of_mem _ h1) e2 (List.mem_cons_of_mem _ h2)) (asStep s pn p) v k hv
    constructor
    · intro hno
      rw [i1 (fun e he => hno e (List.mem_cons_of_mem _ he)), a1 (hno p (by simp))]
    · intro e he idx hidx
      have hke : k ∈ e.2 := List.mem_iff_getElem?.mpr ⟨idx, hidx⟩
      rcases List.mem_cons.mp he with he | he
      · subst he
        by_cases hex : ∃ e' ∈ L, k ∈ e'.2
        · obtain ⟨e', he', hk'⟩ := hex
          have := hu e (by simp) e' (List.mem_cons_of_mem _ he') k hke hk'
          subst this
          exact i2 e he' idx hidx
        · rw [i1 (fun e' he' hk' => hex ⟨e', he', hk'⟩), a2 idx hidx]
      · exact i2 e he idx hidx

/-! ### decimal numbers and numbered names -/

theorem digit_val : ∀ d, d < 10 → (digitChar d).toNat = 48 + d := by decide

theorem digit_ne_dash : ∀ d, d < 10 → digitChar d ≠ Consts.C20.sepChar := by decide

def dval (a : Nat) (c : Char) : Nat := a * 10 + (c.toNat - 48)

theorem decAux_val : ∀ (fuel n : Nat) (acc : Str), n < fuel → (decAux fuel n acc).foldl dval 0 = acc.foldl dval n := by
  intro fuel
  induction fuel with
  | zero => intro n acc h; omega
  | succ f ih =>
    intro n acc h
    simp only [decAux]
    split
    · rename_i hn
      simp only [List.foldl_cons, dval, digit_val n hn]
      congr 1; omega
    · rename_i hn
      have h10 : n / 10 < f := by omega
      rw [ih (n / 10) _ h10]
      simp only [List.foldl_cons, dval, digit_val (n % 10) (Nat.mod_lt _ (by omega))]
      congr 1; omega

theorem dec_inj {a b : Nat} (h : dec a = dec b) : a = b := by
  have ha := decAux_val (a + 1) a [] (Nat.lt_succ_self _)
  have hb := decAux_val (b + 1) b [] (Nat.lt_succ_self _)
  unfold dec at h
  rw [h] at ha
  simp only [List.foldl_nil] at ha hb
  omega

theorem decAux_nodash : ∀ (fuel n : Nat) (acc : Str), Consts.C20.sepChar ∉ acc → Consts.C20.sepChar ∉ decAux fuel n acc := by
  intro fuel
  induction fuel with
  | zero => intro n acc h; exact h
  | succ f ih =>
    intro n acc h
    simp only [decAux]
    split
    · rename_i hn
      intro hm
      rcases List.mem_cons.mp hm with hm | hm
      · exact digit_ne_dash n hn hm.symm
      · exact h hm
    · apply ih
      intro hm
      rcases List.mem_cons.mp hm with hm | hm
      · exact digit_ne_dash (n % 10) (Nat.mod_lt _ (by omega)) hm.symm
      · exact h hm

theorem split_last_dash (c : Char) : ∀ (a b x y : Str), a ++ c :: x = b ++ c :: y → c ∉ x → c ∉ y → a = b ∧ x = y := by
  intro a
  induction a with
  | nil =>
    intro b x y h hx hy
    cases b with
    | nil => simp at h; exact ⟨rfl, h⟩
    | cons c b' =>
      simp at h
      exact absurd (by rw [h.2]; simp) hx
  | cons c a' ih =>
    intro b x y h hx hy
    cases b with
    | nil =>
      simp at h
      exact absurd (by rw [← h.2]; simp) hy
    | cons c' b' =>
      simp at h
      obtain ⟨r1, r2⟩ := ih b' x y h.2 hx hy
      exact ⟨by rw [h.1, r1], r2⟩

theorem numbered_inj {a b : Str} {i j : Nat} (h : numbered a i = numbered b j) : a = b ∧ i = j := by
  unfold numbered at h
  obtain ⟨r1, r2⟩ := split_last_dash Consts.C20.sepChar a b _ _ h (decAux_nodash _ _ [] (by simp)) (decAux_nodash _ _ [] (by simp))
  exact ⟨r1, by have := dec_inj r2; omega⟩

/-! ### the names after `sanitize` -/

/-- no plain group name equals a numbered name of another group (what the numbering silently assumes) -/
def NumberingFresh (fin : NameMap) : Prop :=
  ∀ e ∈ fin, ∀ e' ∈ fin, e.2.length = 1 → e'.2.length ≠ 1 → ∀ idx, idx < e'.2.length → e.1 ≠ numbered e'.1 idx

theorem nameAt_one {p : Str × List Nat} (h : p.2.length = 1) (idx : Nat) : nameAt p idx = p.1 := by
  obtain ⟨nm, l⟩ := p
  unfold nameAt
  match l, h with
  | [_], _ => rfl

theorem nameAt_many {p : Str × List Nat} (h : p.2.length ≠ 1) (idx : Nat) : nameAt p idx = numbered p.1 idx := by
  obtain ⟨nm, l⟩ := p
  unfold nameAt
  match l, h with
  | [], _ => rfl
  | _ :: _ :: _, _ => rfl

theorem entry_key_unique {M : NameMap} (h : (keysOf M).Nodup) {e1 e2 : Str × List Nat} (h1 : e1 ∈ M) (h2 : e2 ∈ M)
    (hk : e1.1 = e2.1) : e1 = e2 := by
  induction M with
  | nil => cases h1
  | cons e M ih =>
    simp only [keysOf, List.map_cons, List.nodup_cons] at h
    rcases List.mem_cons.mp h1 with a1 | a1 <;> rcases List.mem_cons.mp h2 with a2 | a2
    · rw [a1, a2]
    · subst a1; exact absurd (show e1.1 ∈ List.map (fun x => x.1) M from List.mem_map.mpr ⟨e2, a2, hk.symm⟩) h.1
    · subst a2; exact absurd (show e2.1 ∈ List.map (fun x => x.1) M from List.mem_map.mpr ⟨e1, a1, hk⟩) h.1
    · exact ih h.2 a1 a2

section final
variable {g : Graph} {n : Nat} {s : St}

/-- the name of a package step is the name of the position of its job in `finalNames` -/
theorem assign_val (h : Inv g n s) (hN : NamesOk s.names s) {v k : Nat} (hv : s.v2j v = some k) :
    (∃ e : Str × List Nat, e ∈ finalNames g s ∧ ∃ idx : Nat, e.2[idx]? = some k) ∧
    (∀ e : Str × List Nat, e ∈ finalNames g s → ∀ idx : Nat, e.2[idx]? = some k →
      assign s (finalNames g s) v = some (nameAt e idx)) := by
  have hF := finalNames_ok (g := g) hN
  have hk : s.v2j k = some k := h.rep v k hv
  have hperm := isort_perm keyLe (finalNames g s)
  constructor
  · obtain ⟨e, he, hke⟩ := mem_allJobs.mp ((hF.live k).mpr hk)
    obtain ⟨idx, hidx⟩ := List.mem_iff_getElem?.mp hke
    exact ⟨e, he, idx, hidx⟩
  · intro e he idx hidx
    rw [assign_eq]
    refine (foldAs_spec (s := s) (isort keyLe (finalNames g s)) ?_ ?_ ?_ (fun _ => none) v k hv).2 e (hperm.mem_iff.mpr he) idx hidx
    · intro e' he' j hj
      have : s.v2j j = some j := (hF.live j).mp (mem_allJobs.mpr ⟨e', hperm.mem_iff.mp he', hj⟩)
      exact h.pkgs j this
    · intro e' he'; exact entry_nodup hF.nodup (hperm.mem_iff.mp he')
    · intro e1 h1 e2 h2 k' k1 k2
      exact entry_unique hF.nodup (hperm.mem_iff.mp h1) (hperm.mem_iff.mp h2) k1 k2

/-- every known package step gets a name (no `KeyError` in `getJobDisplayName`) -/
theorem names_total (h : Inv g n s) (hN : NamesOk s.names s) {v : Nat} (hv : s.v2j v ≠ none) :
    ∃ nm, assign s (finalNames g s) v = some nm := by
  obtain ⟨k, hk⟩ := Option.ne_none_iff_exists'.mp hv
  obtain ⟨⟨e, he, idx, hidx⟩, h2⟩ := assign_val h hN hk
  exact ⟨_, h2 e he idx hidx⟩

/-- package steps of one job have the same name -/
theorem names_welldefined (h : Inv g n s) (hN : NamesOk s.names s) {v w : Nat} (hvw : SameJobV s.v2j v w) :
    assign s (finalNames g s) v = assign s (finalNames g s) w := by
  obtain ⟨k, hv, hw⟩ := hvw
  obtain ⟨⟨e, he, idx, hidx⟩, h2⟩ := assign_val h hN hv
  rw [h2 e he idx hidx, (assign_val h hN hw).2 e he idx hidx]

/-- distinct jobs get distinct names, provided no plain name looks like a numbered name of another group -/
theorem names_injective (h : Inv g n s) (hN : NamesOk s.names s) (hfresh : NumberingFresh (finalNames g s))
    {v w : Nat} (hv : s.v2j v ≠ none) (hw : s.v2j w ≠ none)
    (heq : assign s (finalNames g s) v = assign s (finalNames g s) w) : SameJobV s.v2j v w := by
  have hF := finalNames_ok (g := g) hN
  obtain ⟨k, hk⟩ := Option.ne_none_iff_exists'.mp hv
  obtain ⟨k', hk'⟩ := Option.ne_none_iff_exists'.mp hw
  obtain ⟨⟨e, he, idx, hidx⟩, h2⟩ := assign_val h hN hk
  obtain ⟨⟨e', he', idx', hidx'⟩, h2'⟩ := assign_val h hN hk'
  rw [h2 e he idx hidx, h2' e' he' idx' hidx'] at heq
  have heq' : nameAt e idx = nameAt e' idx' := by injection heq
  have hlt : idx < e.2.length := by
    obtain ⟨hl, _⟩ := List.getElem?_eq_some_iff.mp hidx; exact hl
  have hlt' : idx' < e'.2.length := by
    obtain ⟨hl, _⟩ := List.getElem?_eq_some_iff.mp hidx'; exact hl
  have same : e = e' ∧ idx = idx' := by
    by_cases h1 : e.2.length = 1 <;> by_cases h1' : e'.2.length = 1
    · rw [nameAt_one h1, nameAt_one h1'] at heq'
      refine ⟨entry_key_unique hF.keys he he' heq', by omega⟩
    · rw [nameAt_one h1, nameAt_many h1'] at heq'
      exact absurd heq' (hfresh e he e' he' h1 h1' idx' hlt')
    · rw [nameAt_many h1, nameAt_one h1'] at heq'
      exact absurd heq'.symm (hfresh e' he' e he h1' h1 idx hlt)
    · rw [nameAt_many h1, nameAt_many h1'] at heq'
      obtain ⟨r1, r2⟩ := numbered_inj heq'
      exact ⟨entry_key_unique hF.keys he he' r1, r2⟩
  obtain ⟨rfl, rfl⟩ := same
  rw [hidx] at hidx'; cases hidx'
  exact ⟨k, hk, hk'⟩

end final

end Jenkins
