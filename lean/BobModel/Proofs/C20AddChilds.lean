import BobModel.Proofs.C20Sets
/-
C20: specification of `addChilds` (upward propagation of a set of reachable packages with early stop).
No invariant of the job graph is needed here; the fuel is shown to suffice by counting the jobs
that are not yet "full".
-/
namespace Jenkins

theorem filter_len_le (l : List Nat) (p q : Nat → Bool) (h : ∀ x ∈ l, q x = true → p x = true) :
    (l.filter q).length ≤ (l.filter p).length := by
  induction l with
  | nil => simp
  | cons a l ih =>
    have ih' := ih (fun x hx => h x (List.mem_cons_of_mem _ hx))
    have ha := h a (by simp)
    simp only [List.filter_cons]
    cases hq : q a <;> cases hp : p a <;> simp_all <;> omega

theorem filter_len_lt (l : List Nat) (p q : Nat → Bool) (h : ∀ x ∈ l, q x = true → p x = true)
    (a : Nat) (hal : a ∈ l) (hpa : p a = true) (hqa : q a = false) :
    (l.filter q).length < (l.filter p).length := by
  induction l with
  | nil => cases hal
  | cons b l ih =>
    have hle := filter_len_le l p q (fun x hx => h x (List.mem_cons_of_mem _ hx))
    have hb := h b (by simp)
    simp only [List.filter_cons]
    rcases List.mem_cons.mp hal with rfl | hal'
    · simp [hpa, hqa]; omega
    · have := ih (fun x hx => h x (List.mem_cons_of_mem _ hx)) hal'
      cases hq : q b <;> cases hp : p b <;> simp_all <;> omega

/-- all of `X` is in the `childs` of job `k` -/
def full (s : St) (X : List Nat) (k : Nat) : Prop := ∀ x ∈ X, x ∈ (s.job k).childs

theorem full_iff {s : St} {X : List Nat} {k : Nat} : subset X (s.job k).childs = true ↔ full s X k := subset_iff

/-- number of job ids below `n` that are not full -/
def cnt (n : Nat) (s : St) (X : List Nat) : Nat :=
  ((List.range n).filter (fun k => !subset X (s.job k).childs)).length

theorem cnt_le_n (n : Nat) (s : St) (X : List Nat) : cnt n s X ≤ n := by
  unfold cnt
  calc _ ≤ (List.range n).length := List.length_filter_le _ _
    _ = n := List.length_range

theorem cnt_mono {n : Nat} {s s' : St} {X : List Nat}
    (h : ∀ k w, w ∈ (s.job k).childs → w ∈ (s'.job k).childs) : cnt n s' X ≤ cnt n s X := by
  unfold cnt
  apply filter_len_le
  intro k _ hk
  simp only [Bool.not_eq_true'] at hk ⊢
  cases hs : subset X (s.job k).childs with
  | false => rfl
  | true =>
    have hf : full s' X k := fun x hx => h k x (full_iff.mp hs x hx)
    rw [full_iff.mpr hf] at hk; cases hk

theorem cnt_lt {n : Nat} {s s' : St} {X : List Nat} (j : Nat) (hj : j < n)
    (h : ∀ k w, w ∈ (s.job k).childs → w ∈ (s'.job k).childs)
    (hnot : subset X (s.job j).childs = false) (hfull : full s' X j) : cnt n s' X < cnt n s X := by
  unfold cnt
  apply filter_len_lt _ _ _ _ j (List.mem_range.mpr hj)
  · simp [hnot]
  · simp [full_iff.mpr hfull]
  · intro k _ hk
    simp only [Bool.not_eq_true'] at hk ⊢
    cases hs : subset X (s.job k).childs with
    | false => rfl
    | true =>
      have hf : full s' X k := fun x hx => h k x (full_iff.mp hs x hx)
      rw [full_iff.mpr hf] at hk; cases hk

/-- local closure: every live full job outside `S` has only full parents -/
def LC (s : St) (X : List Nat) (S : Nat → Prop) : Prop :=
  ∀ v k, s.v2j v = some k → full s X k → ¬ S k →
    ∀ p ∈ (s.job k).parents, ∀ k', s.v2j p = some k' → full s X k'

/-- what `addChilds fuel P X` does to a state -/
structure ACPost (n : Nat) (X : List Nat) (S Q : Nat → Prop) (P : List Nat) (s s' : St) : Prop where
  v2j : s'.v2j = s.v2j
  names : s'.names = s.names
  pkgs : ∀ k, (s'.job k).pkgs = (s.job k).pkgs
  parents : ∀ k, (s'.job k).parents = (s.job k).parents
  mono : ∀ k w, w ∈ (s.job k).childs → w ∈ (s'.job k).childs
  upper : ∀ k w, w ∈ (s'.job k).childs → w ∈ (s.job k).childs ∨ (w ∈ X ∧ ∃ p, Q p ∧ s.v2j p = some k)
  lc : LC s' X S
  startFull : ∀ p ∈ P, ∀ k, s.v2j p = some k → full s' X k
  cntLe : cnt n s' X ≤ cnt n s X

theorem ACPost.refl_nil {n : Nat} {X : List Nat} {S Q : Nat → Prop} {s : St} (h : LC s X S) :
    ACPost n X S Q [] s s :=
  { v2j := rfl, names := rfl, pkgs := fun _ => rfl, parents := fun _ => rfl, mono := fun _ _ h => h,
    upper := fun _ _ h => Or.inl h, lc := h, startFull := fun _ hp => (by cases hp), cntLe := Nat.le_refl _ }

theorem ACPost.comp {n : Nat} {X : List Nat} {S Q : Nat → Prop} {i : Nat} {P : List Nat} {s s1 s2 : St}
    (h1 : ACPost n X S Q [i] s s1) (h2 : ACPost n X S Q P s1 s2) : ACPost n X S Q (i :: P) s s2 :=
  { v2j := by rw [h2.v2j, h1.v2j]
    names := by rw [h2.names, h1.names]
    pkgs := fun k => by rw [h2.pkgs, h1.pkgs]
    parents := fun k => by rw [h2.parents, h1.parents]
    mono := fun k w h => h2.mono k w (h1.mono k w h)
    upper := fun k w h => by
      rcases h2.upper k w h with h | ⟨hx, p, hq, hp⟩
      · exact h1.upper k w h
      · exact Or.inr ⟨hx, p, hq, by rw [← h1.v2j]; exact hp⟩
    lc := h2.lc
    startFull := fun p hp k hk => by
      rcases List.mem_cons.mp hp with rfl | hp
      · exact fun x hx => h2.mono k x (h1.startFull p (by simp) k hk x hx)
      · exact h2.startFull p hp k (by rw [h1.v2j]; exact hk)
    cntLe := Nat.le_trans h2.cntLe h1.cntLe }

theorem addChilds_spec (n : Nat) (X : List Nat) (Q : Nat → Prop) :
    ∀ (fuel : Nat) (P : List Nat) (s : St) (S : Nat → Prop),
      (∀ v k, s.v2j v = some k → k < n) →
      cnt n s X < fuel →
      LC s X S →
      (∀ p ∈ P, Q p) →
      (∀ p k, Q p → s.v2j p = some k → ∀ q ∈ (s.job k).parents, Q q) →
      ACPost n X S Q P s (addChilds fuel P X s) := by
  intro fuel
  induction fuel with
  | zero => intro P s S _ h; omega
  | succ f ihf =>
    intro P
    induction P with
    | nil =>
      intro s S _ _ hlc _ _
      simp only [addChilds, List.foldl_nil]
      exact ACPost.refl_nil hlc
    | cons i P ihP =>
      intro s S hb hcnt hlc hQP hQc
      -- one step of the fold
      have hstep : ∃ s1, addChilds (f + 1) (i :: P) X s = addChilds (f + 1) P X s1 ∧ ACPost n X S Q [i] s s1 := by
        simp only [addChilds, List.foldl_cons]
        cases hv : s.v2j i with
        | none =>
          refine ⟨s, rfl, ?_⟩
          have := ACPost.refl_nil (n := n) (Q := Q) hlc
          exact { this with startFull := fun p hp k hk => (by
                    simp at hp; subst hp; rw [hv] at hk; cases hk) }
        | some j =>
          cases hsub : subset X (s.job j).childs with
          | true =>
            refine ⟨s, by simp [hsub], ?_⟩
            have := ACPost.refl_nil (n := n) (Q := Q) hlc
            exact { this with startFull := fun p hp k hk => (by
                      simp at hp; subst hp; rw [hv] at hk; cases hk; exact full_iff.mp hsub) }
          | false =>
            let sa := setChilds s j (union (s.job j).childs X)
            have hsa_v : sa.v2j = s.v2j := rfl
            have hsa_job : ∀ k, k ≠ j → sa.job k = s.job k := fun k hk => by simp [sa, setChilds, upd, hk]
            have hsa_j : sa.job j = { s.job j with childs := union (s.job j).childs X } := by simp [sa, setChilds]
            have hsa_par : ∀ k, (sa.job k).parents = (s.job k).parents := fun k => by
              by_cases hk : k = j
              · subst hk; rw [hsa_j]
              · rw [hsa_job k hk]
            have hsa_pk : ∀ k, (sa.job k).pkgs = (s.job k).pkgs := fun k => by
              by_cases hk : k = j
              · subst hk; rw [hsa_j]
              · rw [hsa_job k hk]
            have hsa_mono : ∀ k w, w ∈ (s.job k).childs → w ∈ (sa.job k).childs := fun k w hw => by
              by_cases hk : k = j
              · subst hk; rw [hsa_j]; exact mem_union.mpr (Or.inl hw)
              · rw [hsa_job k hk]; exact hw
            have hsa_full : full sa X j := fun x hx => by rw [hsa_j]; exact mem_union.mpr (Or.inr hx)
            have hjn : j < n := hb i j hv
            have hcnt' : cnt n sa X < f := by
              have := cnt_lt (n := n) (X := X) j hjn hsa_mono hsub hsa_full
              omega
            have hlc' : LC sa X (fun k => S k ∨ k = j) := by
              intro v k hvk hfk hS p hp k' hk'
              have hkj : k ≠ j := fun e => hS (Or.inr e)
              have hfk' : full s X k := by
                intro x hx; have := hfk x hx; rwa [hsa_job k hkj] at this
              rw [hsa_par] at hp
              have := hlc v k hvk hfk' (fun h => hS (Or.inl h)) p hp k' hk'
              exact fun x hx => hsa_mono k' x (this x hx)
            have hQpar : ∀ p ∈ (sa.job j).parents, Q p := by
              intro p hp; rw [hsa_par] at hp
              exact hQc i j (hQP i (by simp)) hv p hp
            have hQc' : ∀ p k, Q p → sa.v2j p = some k → ∀ q ∈ (sa.job k).parents, Q q := by
              intro p k hq hk q hqp; rw [hsa_par] at hqp; exact hQc p k hq hk q hqp
            have ih := ihf (sa.job j).parents sa (fun k => S k ∨ k = j) hb hcnt' hlc' hQpar hQc'
            refine ⟨addChilds f (sa.job j).parents X sa, by simp [hsub, sa], ?_⟩
            exact {
              v2j := ih.v2j
              names := ih.names
              pkgs := fun k => by rw [ih.pkgs, hsa_pk]
              parents := fun k => by rw [ih.parents, hsa_par]
              mono := fun k w h => ih.mono k w (hsa_mono k w h)
              upper := fun k w h => by
                rcases ih.upper k w h with h | h
                · by_cases hk : k = j
                  · subst hk
                    rw [hsa_j] at h
                    rcases mem_union.mp h with h | h
                    · exact Or.inl h
                    · exact Or.inr ⟨h, i, hQP i (by simp), hv⟩
                  · rw [hsa_job k hk] at h; exact Or.inl h
                · exact Or.inr h
              lc := by
                intro v k hvk hfk hS p hp k' hk'
                by_cases hkj : k = j
                · subst hkj
                  rw [ih.parents] at hp
                  exact ih.startFull p hp k' (by rw [← ih.v2j]; exact hk')
                · exact ih.lc v k hvk hfk (fun h => h.elim hS hkj) p hp k' hk'
              startFull := fun p hp k hk => by
                simp at hp; subst hp; rw [hv] at hk; cases hk
                exact fun x hx => ih.mono _ x (hsa_full x hx)
              cntLe := Nat.le_trans ih.cntLe (cnt_mono hsa_mono) }
      obtain ⟨s1, heq, h1⟩ := hstep
      rw [heq]
      have hb1 : ∀ v k, s1.v2j v = some k → k < n := by rw [h1.v2j]; exact hb
      have hcnt1 : cnt n s1 X < f + 1 := Nat.lt_of_le_of_lt h1.cntLe hcnt
      have hQc1 : ∀ p k, Q p → s1.v2j p = some k → ∀ q ∈ (s1.job k).parents, Q q := by
        intro p k hq hk q hqp; rw [h1.parents] at hqp; rw [h1.v2j] at hk; exact hQc p k hq hk q hqp
      have h2 := ihP s1 S hb1 hcnt1 h1.lc (fun p hp => hQP p (List.mem_cons_of_mem _ hp)) hQc1
      exact ACPost.comp h1 h2

end Jenkins
