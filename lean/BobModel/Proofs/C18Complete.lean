import BobModel.Proofs.C18Trim
/-
Helper lemmas for C18 (completeness): the forward loop keeps `valid` connected to the root and
keeps the context nodes inside `valid`, provided `__findIntermediateNodes` connects every result
of a descendant step (`IntermediateConn`, proved at the end from the specification of the memoised
search in C18Traverse.lean).
-/
namespace PathSpec

/-- what completeness needs from `__findIntermediateNodes`: together with the new nodes the
intermediate nodes connect every new node to an old one -/
def IntermediateConn (g : Graph) : Prop :=
  ∀ (old ns : List Node) (qi : Bool), (∀ a ∈ old, a < g.size) →
    (∀ t ∈ ns, t ∈ old ∨ ∃ a ∈ old, Relation.TransGen (edge g qi) a t) →
    ∀ y ∈ union (findIntermediateNodes g old ns qi) ns,
      ∃ o ∈ old, ∃ s, PathWithin g (union (findIntermediateNodes g old ns qi) ns) o s y

theorem stepForward_search (g : Graph) (ax : Axis) (test : Str) (op : OptPred) (old : List Node) :
    (stepForward g ax test op old).2.1 = (axisForward g ax old).2 := by
  simp [stepForward]

theorem search_none_rel {g : Graph} {ax : Axis} {old : List Node} (h : (axisForward g ax old).2 = none)
    {a y : Node} (hr : axisRel g ax a y) : a = y ∨ edge g true a y := by
  cases ax <;> simp [axisForward] at h <;> simp only [axisRel] at hr
  · exact Or.inl hr
  · exact Or.inr hr
  · exact Or.inr (edge_true_of_edge hr)

theorem search_some_rel {g : Graph} {ax : Axis} {old : List Node} {qi : Bool}
    (h : (axisForward g ax old).2 = some qi) {a y : Node} (hr : axisRel g ax a y) :
    a = y ∨ Relation.TransGen (edge g qi) a y := by
  cases ax <;> simp [axisForward] at h <;> simp only [axisRel] at hr <;> subst h
  · exact Or.inr hr
  · exact hr
  · exact Or.inr hr
  · exact hr

theorem reach_lt {g : Graph} (hwf : g.WF) {a b : Node} (ha : a < g.size) (h : Reach g a b) : b < g.size := by
  rcases h with rfl | h
  · exact ha
  · exact transGen_edge_lt hwf h

theorem forwardLoop_conn {g : Graph} (hwf : g.WF) (hI : IntermediateConn g) (mode : Mode) (r : Node) :
    ∀ (steps : Steps) (old valid : List Node) (wc : Bool) (nodes v : List Node),
      (∀ x ∈ valid, x < g.size) → (∀ a ∈ old, a ∈ valid) → RootConn g r valid →
      forwardLoop g mode steps old valid wc = .ok (nodes, v) →
      (∀ n ∈ nodes, n ∈ v) ∧ RootConn g r v
  | .nil, old, valid, wc, nodes, v, _, hold, hconn, h => by
    simp only [forwardLoop, Except.ok.injEq, Prod.mk.injEq] at h
    obtain ⟨rfl, rfl⟩ := h
    exact ⟨hold, hconn⟩
  | .cons ax test op rest, old, valid, wc, nodes, v, hvalid, hold, hconn, h => by
    rw [forwardLoop_cons] at h
    split at h
    · cases h
    · split at h
      · cases h
      · have holdlt : ∀ a ∈ old, a < g.size := fun a ha => hvalid a (hold a ha)
        have hnslt := stepForward_lt (ax := ax) (test := test) (op := op) hwf holdlt
        generalize hns : (stepForward g ax test op old).1 = ns at h hnslt
        have hrel : ∀ t ∈ ns, ∃ a ∈ old, axisRel g ax a t := by
          intro t ht
          rw [← hns] at ht
          obtain ⟨a, ha, hax, _⟩ := (mem_stepForward hwf holdlt).mp ht
          exact ⟨a, ha, hax⟩
        rw [stepForward_search] at h
        -- the set before trimming
        generalize hv1 : preValid g old valid ns (axisForward g ax old).2 = v1 at h
        have hnv : nextValid g old valid ns (axisForward g ax old).2 =
            inter (union v1 ns) (findReachableSubset g (union v1 ns) ns) := by
          simp only [nextValid, hv1]
        rw [hnv] at h
        -- v2 = v1 ∪ ns is in range and connected to the root
        have hv2 : (∀ x ∈ union v1 ns, x < g.size) ∧ RootConn g r (union v1 ns) := by
          cases hs : (axisForward g ax old).2 with
          | none =>
            rw [hs] at hv1
            simp only [preValid] at hv1
            subst hv1
            constructor
            · intro x hx
              simp only [mem_union] at hx
              rcases hx with (hx | hx) | hx
              · exact hvalid x hx
              · exact hnslt x hx
              · exact hnslt x hx
            · intro y hy
              have hsub : ∀ x ∈ valid, x ∈ union (union valid ns) ns := by
                intro x hx; simp only [mem_union]; exact Or.inl (Or.inl hx)
              by_cases hyv : y ∈ valid
              · obtain ⟨s, hs'⟩ := hconn y hyv
                exact ⟨s, pathWithin_mono hsub s r y hs'⟩
              · have hyn : y ∈ ns := by
                  simp only [mem_union] at hy
                  rcases hy with (hy | hy) | hy
                  · exact absurd hy hyv
                  · exact hy
                  · exact hy
                obtain ⟨a, ha, hax⟩ := hrel y hyn
                obtain ⟨s, hs'⟩ := hconn a (hold a ha)
                have hs'' := pathWithin_mono hsub s r a hs'
                rcases search_none_rel hs hax with rfl | ⟨e, he, hen, _⟩
                · exact ⟨s, hs''⟩
                · subst hen
                  exact ⟨s ++ [e.name], pathWithin_snoc s r a e hs'' he hy⟩
          | some qi =>
            rw [hs] at hv1
            simp only [preValid] at hv1
            subst hv1
            have hreach := findIntermediateNodes_reach g old ns qi
            have hxlt : ∀ y ∈ findIntermediateNodes g old ns qi, y < g.size := by
              intro y hy
              obtain ⟨o, ho, hr⟩ := hreach y hy
              exact reach_lt hwf (holdlt o ho) hr
            constructor
            · intro x hx
              simp only [mem_union] at hx
              rcases hx with (hx | hx) | hx
              · exact hvalid x hx
              · exact hxlt x hx
              · exact hnslt x hx
            · intro y hy
              have hsub : ∀ x ∈ valid, x ∈ union (union valid (findIntermediateNodes g old ns qi)) ns := by
                intro x hx; simp only [mem_union]; exact Or.inl (Or.inl hx)
              have hsub2 : ∀ x ∈ union (findIntermediateNodes g old ns qi) ns,
                  x ∈ union (union valid (findIntermediateNodes g old ns qi)) ns := by
                intro x hx
                simp only [mem_union] at hx ⊢
                rcases hx with hx | hx
                · exact Or.inl (Or.inr hx)
                · exact Or.inr hx
              by_cases hyv : y ∈ valid
              · obtain ⟨s, hs'⟩ := hconn y hyv
                exact ⟨s, pathWithin_mono hsub s r y hs'⟩
              · have hyx : y ∈ union (findIntermediateNodes g old ns qi) ns := by
                  simp only [mem_union] at hy ⊢
                  rcases hy with (hy | hy) | hy
                  · exact absurd hy hyv
                  · exact Or.inl hy
                  · exact Or.inr hy
                have hnsrel : ∀ t ∈ ns, t ∈ old ∨ ∃ a ∈ old, Relation.TransGen (edge g qi) a t := by
                  intro t ht
                  obtain ⟨a, ha, hax⟩ := hrel t ht
                  rcases search_some_rel hs hax with rfl | htg
                  · exact Or.inl ha
                  · exact Or.inr ⟨a, ha, htg⟩
                obtain ⟨o, ho, s2, hs2⟩ := hI old ns qi holdlt hnsrel y hyx
                obtain ⟨s1, hs1⟩ := hconn o (hold o ho)
                exact ⟨s1 ++ s2, pathWithin_append s1 r o y s2 (pathWithin_mono hsub s1 r o hs1)
                  (pathWithin_mono hsub2 s2 o y hs2)⟩
        obtain ⟨hspec1, _, _⟩ := findReachableSubset_spec hwf (union v1 ns) ns hv2.1
        apply forwardLoop_conn hwf hI mode r rest ns _ _ nodes v _ _ _ h
        · intro x hx; exact hv2.1 x (mem_inter.mp hx).1
        · intro a ha
          have : a ∈ union v1 ns := mem_union.mpr (Or.inr ha)
          exact mem_inter.mpr ⟨this, hspec1 a ha this⟩
        · exact rootConn_trim hwf r (union v1 ns) ns hv2.1 hv2.2

/-- every selected package is reported (given `IntermediateConn`) -/
theorem findResultNodes_complete {g : Graph} (hwf : g.WF) (hac : g.Acyclic) (hI : IntermediateConn g)
    (mode : Mode) (steps : Steps) (nodes valid : List Node)
    (h : evalForward g mode steps = .ok (nodes, valid)) (queryAll : Bool) :
    ∀ n ∈ nodes, ∃ s, (s, n) ∈
      (findResultNodes g queryAll (g.size + 1) g.root [] { out := [], result := nodes, valid := valid }).out := by
  intro n hn
  obtain ⟨hsub, hconn⟩ := forwardLoop_conn hwf hI mode g.root steps [g.root] [g.root] false nodes valid
    (by intro x hx; simp at hx; subst hx; exact hwf.root_lt) (fun _ h => h)
    (by intro v hv; simp at hv; subst hv; exact ⟨[], rfl⟩) h
  obtain ⟨s, hs⟩ := hconn n (hsub n hn)
  cases queryAll with
  | true =>
    obtain ⟨_, _, _, hp⟩ := findResultNodes_all g (g.size + 1) g.root [] { out := [], result := nodes, valid := valid }
    have := hp s n hs hn (by have := pathWithin_length_le hwf hac s g.root n hs; omega)
    exact ⟨s, by simpa using this⟩
  | false =>
    exact findResultNodes_first_complete g (g.size + 1) g.root nodes valid
      (by intro l hl; have := chain_length_le hwf hac l g.root hl; omega) s n hs hn


/-! ### `IntermediateConn` holds for the memoised search -/

theorem pathWithin_of_transGen {g : Graph} {qi : Bool} {S : List Node} {a y : Node}
    (t : Relation.TransGen (edge g qi) a y) :
    (∀ z, Relation.TransGen (edge g qi) a z → (z = y ∨ Relation.TransGen (edge g qi) z y) → z ∈ S) →
    ∃ s, PathWithin g S a s y := by
  induction t with
  | single he =>
    intro hS
    obtain ⟨e, hmem, hnode, _⟩ := he
    subst hnode
    exact ⟨[e.name], e, hmem, rfl, hS _ (.single ⟨e, hmem, rfl, by assumption⟩) (Or.inl rfl), rfl⟩
  | tail t he ih =>
    intro hS
    obtain ⟨s, hs⟩ := ih (by
      intro z hz hzu
      apply hS z hz
      rcases hzu with rfl | hzu
      · exact Or.inr (.single he)
      · exact Or.inr (.tail hzu he))
    have hy := hS _ (.tail t he) (Or.inl rfl)
    obtain ⟨e, hmem, hnode, _⟩ := he
    subst hnode
    exact ⟨s ++ [e.name], pathWithin_snoc s _ _ e hs hmem hy⟩

theorem intermediateConn {g : Graph} (hwf : g.WF) (hac : g.Acyclic) : IntermediateConn g := by
  intro old ns qi _ hns y hy
  by_cases hsup : superset old ns = true
  · have hX : findIntermediateNodes g old ns qi = [] := by simp [findIntermediateNodes, hsup]
    rw [hX] at hy
    have hyn : y ∈ ns := by simpa using hy
    exact ⟨y, superset_iff.mp hsup y hyn, [], rfl⟩
  · have hsup' : superset old ns = false := by simpa using hsup
    have spec := findIntermediateNodes_spec hwf hac old ns qi hsup'
    rcases mem_union.mp hy with hyx | hyn
    · obtain ⟨⟨o, ho, hr⟩, t, ht, hyt⟩ := (spec y).mp hyx
      rcases hr with rfl | hr
      · exact ⟨_, ho, [], rfl⟩
      · obtain ⟨s, hs⟩ := pathWithin_of_transGen (S := union (findIntermediateNodes g old ns qi) ns) hr (by
          intro z hz hzy
          apply mem_union.mpr; left
          apply (spec z).mpr
          refine ⟨⟨o, ho, Or.inr hz⟩, t, ht, ?_⟩
          rcases hzy with rfl | hzy
          · exact hyt
          · exact transGen_trans hzy hyt)
        exact ⟨o, ho, s, hs⟩
    · rcases hns y hyn with hyo | ⟨a, ha, hr⟩
      · exact ⟨y, hyo, [], rfl⟩
      · obtain ⟨s, hs⟩ := pathWithin_of_transGen (S := union (findIntermediateNodes g old ns qi) ns) hr (by
          intro z hz hzy
          apply mem_union.mpr
          rcases hzy with rfl | hzy
          · exact Or.inr hyn
          · left
            exact (spec z).mpr ⟨⟨a, ha, Or.inr hz⟩, y, hyn, hzy⟩)
        exact ⟨a, ha, s, hs⟩

end PathSpec
