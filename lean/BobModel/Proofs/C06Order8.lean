import BobModel.Proofs.C06Order7
/-
Ordering invariants of the scheduler model, part 8: the invariant `DepsInv` of **deps_first** and its generic
preservation lemmas.
-/
namespace Sched
open JobSem

/-- operations of the cook task of `s` (not checkout-only) that still lead to the script of `s` -/
def liveFor (s : Nat) : Op → Bool
  | .start | .startWait => true
  | .cookBody s' co => s' == s && !co
  | .lock s' co dl => s' == s && !co && !dl
  | .lockWait s' co dl => s' == s && !co && !dl
  | .underLock s' co => s' == s && !co
  | .run s' => s' == s
  | .runWait s' _ => s' == s
  | _ => false

/-- cook tasks are only spawned for valid steps -/
def SVop (P : Project) : Op → Prop
  | .spawn .cook todo _ => ∀ d ∈ todo, (P.info d).valid = true
  | .spawnSeq .cook todo _ _ => ∀ d ∈ todo, (P.info d).valid = true
  | _ => True

def setFinOK (P : Project) (tr : List Ev) (ops : List Op) : Prop :=
  ∀ s, Op.setRun s false ∈ ops → finishedOk P tr (P.info s).path = true ∨ Op.run s ∈ ops ∨ ∃ r, Op.runWait s r ∈ ops

def liveOK (P : Project) (tr : List Ev) (x : Task) : Prop :=
  ∀ s, x.kind = .cook s false → (P.info s).valid = true →
    x.err.isSome = true ∨ finishedOk P tr (P.info s).path = true ∨ ∃ o ∈ x.ops, liveFor s o = true

structure DepsInv (P : Project) (st : St) : Prop where
  ranFin : ∀ p, RanAt st.wasRun p → finishedOk P st.trace p = true
  setFin : ∀ i, setFinOK P st.trace (st.task i).ops
  live : ∀ i, liveOK P st.trace (st.task i)
  track : Track P st
  sv : ∀ i, ∀ o ∈ (st.task i).ops, SVop P o
  ord : ∀ i, chk P st (depsDone P st) (st.task i).ops
  first : depsFirstFrom P [] st.trace = true

theorem depsDone_mono {P : Project} {st g : St} (h : ∃ evs, g.trace = st.trace ++ evs) (s : Nat)
    (hd : depsDone P st s) : depsDone P g s := by
  obtain ⟨evs, he⟩ := h
  intro d hd1 hd2
  rw [he]; exact finishedOk_append _ _ _ (hd d hd1 hd2)

theorem covered_mono {P : Project} {st g : St} (h : ∃ evs, g.trace = st.trace ++ evs)
    (hk : ∀ k d, cooks P st k d → cooks P g k d) {s : Nat} {l ks : List Nat} (hc : covered P st s l ks) :
    covered P g s l ks := by
  obtain ⟨evs, he⟩ := h
  intro d hd1 hd2
  rcases hc d hd1 hd2 with h | h | ⟨k, hk1, hk2⟩
  · left; rw [he]; exact finishedOk_append _ _ _ h
  · exact Or.inr (Or.inl h)
  · exact Or.inr (Or.inr ⟨k, hk1, hk k d hk2⟩)

theorem covers_mono {P : Project} {st g : St} (h : ∃ evs, g.trace = st.trace ++ evs)
    (hk : ∀ k d, cooks P st k d → cooks P g k d) (o : Op) (s : Nat) (hc : covers P st o s) : covers P g o s := by
  cases o <;> simp only [covers] at hc ⊢
  case cook steps co => exact ⟨hc.1, covered_mono h hk hc.2⟩
  case spawn trk todo co => exact ⟨hc.1, hc.2.1, covered_mono h hk hc.2.2⟩
  case yieldRel ks rs => exact ⟨hc.1, covered_mono h hk hc.2⟩
  case gather ks => exact covered_mono h hk hc

theorem task_kind_setTask (g : St) (t : Nat) (x' : Task) (hk : x'.kind = (g.task t).kind) (k : Nat) :
    ((g.setTask t x').task k).kind = (g.task k).kind := by
  by_cases hkt : k = t
  · subst hkt
    by_cases hl : k < g.tasks.length
    · simp [St.task, St.setTask, List.getD, List.getElem?_set, hl] at hk ⊢
      exact hk
    · simp [St.task, St.setTask, List.getD, List.getElem?_set, hl]
  · simp [St.task, St.setTask, List.getD, List.getElem?_set, Ne.symm hkt]

theorem cooks_setTask {P : Project} (g : St) (t : Nat) (x' : Task) (hk : x'.kind = (g.task t).kind) (k d : Nat)
    (h : cooks P g k d) : cooks P (g.setTask t x') k d := by
  obtain ⟨d', h1, h2, h3⟩ := h
  exact ⟨d', by rw [task_kind_setTask g t x' hk]; exact h1, h2, h3⟩

theorem Initial.noneed {P : Project} {y : Task} (h : Initial y) : ∀ o ∈ y.ops, ∀ s, ¬ needs P o s := by
  intro o ho s hn
  rcases h.ops_mem o ho with e | e | ⟨a, e⟩ <;> subst e <;> simp [needs] at hn

/-- general form of a step of task `t` -/
theorem DepsInv.update {P : Project} {st g : St} {new : List Task} {t : Nat} (hi : DepsInv P st)
    (hg : GrowT st g new) (ht : t < st.tasks.length) (x' : Task) (hk : x'.kind = (st.task t).kind)
    (htr : ∃ evs, g.trace = st.trace ++ evs)
    (hran : ∀ p, RanAt g.wasRun p → finishedOk P g.trace p = true)
    (hset : setFinOK P g.trace x'.ops)
    (hlive : liveOK P g.trace x')
    (hT : Track P g)
    (hsv : ∀ o ∈ x'.ops, SVop P o)
    (hord : chk P g (depsDone P g) x'.ops)
    (hfirst : depsFirstFrom P [] g.trace = true) : DepsInv P (g.setTask t x') := by
  have hgt : g.task t = st.task t := task_append_left hg.tasks ht
  have hk' : x'.kind = (g.task t).kind := by rw [hgt]; exact hk
  have hcooks : ∀ k d, cooks P st k d → cooks P (g.setTask t x') k d :=
    fun k d h => cooks_setTask g t x' hk' k d (cooks_grow hg.tasks h)
  have hcov1 : ∀ o s, covers P st o s → covers P (g.setTask t x') o s :=
    fun o s h => covers_mono (g := g.setTask t x') htr hcooks o s h
  have hcov2 : ∀ o s, covers P g o s → covers P (g.setTask t x') o s :=
    fun o s h => covers_mono (g := g.setTask t x') ⟨[], by simp⟩ (cooks_setTask g t x' hk') o s h
  obtain ⟨evs, he⟩ := htr
  refine ⟨hran, ?_, ?_, ?_, ?_, ?_, hfirst⟩
  · intro i
    rcases task_cases x' hg ht i with h | h | h | h
    · rw [h.2]; exact hset
    · rw [h.2.2]
      intro s hs
      rcases hi.setFin i s hs with h1 | h1
      · left; simp only [setTask_trace, he]; exact finishedOk_append _ _ _ h1
      · exact Or.inr h1
    · intro s hs
      rcases h.2.2.ops_mem _ hs with e | e | ⟨a, e⟩ <;> cases e
    · rw [h.2.2]; intro s hs; cases hs
  · intro i
    rcases task_cases x' hg ht i with h | h | h | h
    · rw [h.2]; exact hlive
    · rw [h.2.2]
      intro s h1 h2
      rcases hi.live i s h1 h2 with h3 | h3 | h3
      · exact Or.inl h3
      · right; left; simp only [setTask_trace, he]; exact finishedOk_append _ _ _ h3
      · exact Or.inr (Or.inr h3)
    · intro s _ _
      right; right
      rcases h.2.2.2 with e | ⟨a, e⟩ <;> rw [e] <;> exact ⟨.start, by simp, rfl⟩
    · rw [h.2.2]; intro s h1; cases h1
  · intro key k hm
    obtain ⟨d, h1, h2, h3⟩ := hT key k hm
    exact ⟨d, by rw [task_kind_setTask g t x' hk']; exact h1, h2, h3⟩
  · intro i o ho
    rcases task_cases x' hg ht i with h | h | h | h
    · rw [h.2] at ho; exact hsv o ho
    · rw [h.2.2] at ho; exact hi.sv i o ho
    · rcases h.2.2.ops_mem _ ho with e | e | ⟨a, e⟩ <;> subst e <;> trivial
    · rw [h.2.2] at ho; cases ho
  · intro i
    rcases task_cases x' hg ht i with h | h | h | h
    · rw [h.2]
      exact chk_mono hcov2 _ _ _ (fun s hs => hs) hord
    · rw [h.2.2]
      refine chk_mono hcov1 _ _ _ ?_ (hi.ord i)
      intro s hs
      exact depsDone_mono (g := g.setTask t x') ⟨evs, by simp [he]⟩ s hs
    · exact chk_noneed _ _ h.2.2.noneed
    · rw [h.2.2]; trivial

/-- the head operation `op` is replaced by `body`; no script starts -/
theorem DepsInv.bodyStep {P : Project} {st g : St} {new : List Task} {t : Nat} {op : Op} {rest : List Op}
    (hi : DepsInv P st) (hops : (st.task t).ops = op :: rest) (hg : GrowT st g new)
    (hran : ∀ p, RanAt g.wasRun p → finishedOk P g.trace p = true) (htr' : ∃ evs, g.trace = st.trace ++ evs)
    (hfirst : depsFirstFrom P [] g.trace = true)
    (hT : Track P g) (body : List Op) (e : Option Err) (he : (st.task t).err.isSome = true → e.isSome = true)
    (b1 : chk P g (depsDone P g) body)
    (b2 : ∀ s, covers P st op s → depsDone P g s ∨ ∃ o ∈ body, covers P g o s)
    (b3 : ∀ s, Op.setRun s false ∈ body → finishedOk P g.trace (P.info s).path = true ∨ Op.run s ∈ body)
    (b4 : ∀ s, (op = .run s ∨ ∃ r, op = .runWait s r) →
      finishedOk P g.trace (P.info s).path = true ∨ Op.run s ∈ body ∨ ∃ r, Op.runWait s r ∈ body)
    (b5 : ∀ s, liveFor s op = true → (st.task t).kind = .cook s false → (P.info s).valid = true →
      finishedOk P g.trace (P.info s).path = true ∨ ∃ o ∈ body, liveFor s o = true)
    (b6 : ∀ o ∈ body, SVop P o) :
    DepsInv P (g.setTask t { kind := (st.task t).kind, ops := body ++ rest, err := e }) := by
  have ht := task_lt hops
  obtain ⟨evs, hev⟩ := htr'
  have htr' : ∃ evs, g.trace = st.trace ++ evs := ⟨evs, hev⟩
  have hcooks : ∀ k d, cooks P st k d → cooks P g k d := fun k d h => cooks_grow hg.tasks h
  refine hi.update hg ht _ rfl htr' hran ?_ ?_ hT ?_ ?_ hfirst
  · intro s hs
    simp only [List.mem_append] at hs ⊢
    rcases hs with hs | hs
    · rcases b3 s hs with h | h
      · exact Or.inl h
      · exact Or.inr (Or.inl (Or.inl h))
    · have hold := hi.setFin t s (by rw [hops]; exact List.mem_cons_of_mem _ hs)
      rw [hops] at hold
      rcases hold with h | h | ⟨r, h⟩
      · left; rw [hev]; exact finishedOk_append _ _ _ h
      · rcases List.mem_cons.mp h with e1 | e1
        · rcases b4 s (Or.inl e1.symm) with h' | h' | ⟨r, h'⟩
          · exact Or.inl h'
          · exact Or.inr (Or.inl (Or.inl h'))
          · exact Or.inr (Or.inr ⟨r, Or.inl h'⟩)
        · exact Or.inr (Or.inl (Or.inr e1))
      · rcases List.mem_cons.mp h with e1 | e1
        · rcases b4 s (Or.inr ⟨r, e1.symm⟩) with h' | h' | ⟨r', h'⟩
          · exact Or.inl h'
          · exact Or.inr (Or.inl (Or.inl h'))
          · exact Or.inr (Or.inr ⟨r', Or.inl h'⟩)
        · exact Or.inr (Or.inr ⟨r, Or.inr e1⟩)
  · intro s h1 h2
    rcases hi.live t s h1 h2 with h3 | h3 | ⟨o, ho, hl⟩
    · exact Or.inl (he h3)
    · right; left; rw [hev]; exact finishedOk_append _ _ _ h3
    · rw [hops] at ho
      rcases List.mem_cons.mp ho with e1 | e1
      · subst e1
        rcases b5 s hl h1 h2 with h' | ⟨o', ho', hl'⟩
        · exact Or.inr (Or.inl h')
        · exact Or.inr (Or.inr ⟨o', by simp [ho'], hl'⟩)
      · exact Or.inr (Or.inr ⟨o, by simp [e1], hl⟩)
  · intro o ho
    simp only [List.mem_append] at ho
    rcases ho with ho | ho
    · exact b6 o ho
    · exact hi.sv t o (by rw [hops]; exact List.mem_cons_of_mem _ ho)
  · have hord := hi.ord t
    rw [hops] at hord
    exact chk_replace (fun s hs => depsDone_mono htr' s hs) (fun o s h => covers_mono htr' hcooks o s h) hord b1 b2

/-- the `wasRun` table is kept and no script starts -/
theorem DepsInv.quiet {P : Project} {st g : St} (hi : DepsInv P st) (hwr : g.wasRun = st.wasRun)
    (htr : ∃ evs, g.trace = st.trace ++ evs ∧ ∀ e ∈ evs, e.isStart = false) :
    (∀ p, RanAt g.wasRun p → finishedOk P g.trace p = true) ∧ (∃ evs, g.trace = st.trace ++ evs) ∧
    depsFirstFrom P [] g.trace = true := by
  obtain ⟨evs, hev, hq⟩ := htr
  refine ⟨?_, ⟨evs, hev⟩, ?_⟩
  · intro p hp
    rw [hwr] at hp
    rw [hev]; exact finishedOk_append _ _ _ (hi.ranFin p hp)
  · rw [hev, depsFirstFrom_append, hi.first, depsFirstFrom_quiet _ _ hq]; rfl

/-- an exception starts to propagate -/
theorem DepsInv.raiseStep {P : Project} {st g : St} {t : Nat} {op : Op} {rest : List Op} (e : Err)
    (hi : DepsInv P st) (hops : (st.task t).ops = op :: rest) (hg : g.tasks = st.tasks) (hc : g.cookT = st.cookT)
    (hwr : g.wasRun = st.wasRun) (htr : ∃ evs, g.trace = st.trace ++ evs ∧ ∀ e ∈ evs, e.isStart = false) :
    DepsInv P (g.setTask t (raise (st.task t) e rest)) := by
  have ht := task_lt hops
  obtain ⟨evs, hev, hq⟩ := htr
  refine hi.update (GrowT.same hg) ht _ rfl ⟨evs, hev⟩ ?_ ?_ ?_ ?_ ?_ (chk_filter _ _) ?_
  · intro p hp
    rw [hwr] at hp
    rw [hev]; exact finishedOk_append _ _ _ (hi.ranFin p hp)
  · intro s hs
    have := (List.mem_filter.mp hs).2
    simp [Op.isFin] at this
  · intro s _ _
    exact Or.inl rfl
  · exact hi.track.grow (new := []) (by simp [hg]) (by rw [hc]; exact fun e he => he)
  · intro o ho
    have := (List.mem_filter.mp ho).2
    cases o <;> simp [Op.isFin] at this <;> trivial
  · rw [hev, depsFirstFrom_append, hi.first, depsFirstFrom_quiet _ _ hq]; rfl

end Sched
