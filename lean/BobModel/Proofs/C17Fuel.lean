import BobModel.Model.StringParser
/-
C17 helper lemmas about the fuel of the mutual parser functions:
monotonicity in the fuel, consumed-length bounds, and sufficiency of `2 * length + 1`.
-/
namespace C17
open StringParser

def remLen (r : Except PErr (Str × Str)) : Nat :=
  match r with
  | .ok (_, rest) => rest.length
  | .error _ => 0

@[simp, grind =] theorem remLen_ok (s rest : Str) : remLen (.ok (s, rest)) = rest.length := rfl
@[simp, grind =] theorem remLen_err (e : PErr) : remLen (.error e) = 0 := rfl

theorem scan_len (extra : List Char) (inp acc : Str) : remLen (scan extra inp acc) ≤ inp.length := by
  fun_induction scan extra inp acc <;> simp_all <;> omega

theorem scan_ne_oof (extra : List Char) (inp acc : Str) : scan extra inp acc ≠ .error .outOfFuel := by
  fun_induction scan extra inp acc <;> simp_all

theorem getSingleQuoted_len (inp : Str) : ∀ s r, getSingleQuoted inp = .ok (s, r) → r.length < inp.length := by
  fun_induction getSingleQuoted inp <;> simp_all <;> grind

theorem getSingleQuoted_ne_oof (inp : Str) : getSingleQuoted inp ≠ .error .outOfFuel := by
  fun_induction getSingleQuoted inp <;> simp_all

theorem getRestOfName_len (inp : Str) : (getRestOfName inp).2.length ≤ inp.length := by
  fun_induction getRestOfName inp <;> simp_all <;> omega

theorem callFun_ne_oof (cfg : Cfg) (name : Str) (args : List Str) : callFun cfg name args ≠ .error .outOfFuel := by
  unfold callFun
  split <;> (try simp) <;> (split <;> (try simp) <;> (split <;> simp))

theorem nextToken_ne_oof (extra : List Char) (inp : Str) : nextToken extra inp ≠ .error .outOfFuel := by
  unfold nextToken
  split
  · simp
  · split
    · simp
    · have := scan_ne_oof extra (‹Char› :: ‹Str›) []
      split <;> simp_all

theorem scan_len_lt (extra : List Char) (c : Char) (r acc : Str) (h : isDelim extra c = false) :
    remLen (scan extra (c :: r) acc) ≤ r.length := by
  rw [scan.eq_def]
  simp only [h, Bool.false_eq_true, if_false]
  split
  · cases r with
    | nil => simp
    | cons d r' => have := scan_len extra r' (d :: acc); simp at this ⊢; omega
  · exact scan_len extra r (c :: acc)

theorem nextToken_len (extra : List Char) (inp : Str) (t : Tok) (rest : Str)
    (h : nextToken extra inp = .ok (t, rest)) :
    rest.length ≤ inp.length ∧ (t ≠ .eos → rest.length < inp.length) := by
  unfold nextToken at h
  split at h
  · simp_all
  · rename_i c r
    split at h
    · simp_all
    · have h1 := scan_len_lt extra c r [] (by simp_all)
      split at h
      · rename_i s r' hs
        rw [hs] at h1
        simp_all
        omega
      · simp at h

theorem nextChar_len {r : Str} {d : Char} {r0 : Str} (h : nextChar r = .ok (d, r0)) : r.length = r0.length + 1 := by
  cases r <;> simp_all [nextChar]

theorem len_all (cfg : Cfg) : ∀ n,
  (∀ extra eosOk keep subst inp, remLen (getString cfg n extra eosOk keep subst inp) ≤ inp.length) ∧
  (∀ subst inp, remLen (getVariable cfg n subst inp) ≤ inp.length) ∧
  (∀ subst inp words, remLen (getCommand cfg n subst inp words) ≤ inp.length) := by
  intro n
  induction n with
  | zero => simp [getString, getVariable, getCommand]
  | succ n ih =>
    obtain ⟨ihS, ihV, ihC⟩ := ih
    refine ⟨?_, ?_, ?_⟩
    · intro extra eosOk keep subst inp
      rw [getString]
      repeat' split
      all_goals (try simp)
      all_goals grind [→ nextChar_len, → nextToken_len, → getSingleQuoted_len, getRestOfName_len]
    · intro subst inp
      rw [getVariable]
      repeat' (first | split | (dsimp only; split))
      all_goals (try simp)
      all_goals grind [→ nextChar_len]
    · intro subst inp words
      rw [getCommand]
      repeat' split
      all_goals (try simp)
      all_goals grind [→ nextChar_len]

theorem nextChar_ne_oof (r : Str) : nextChar r ≠ .error .outOfFuel := by
  cases r <;> simp [nextChar]

theorem total_all (cfg : Cfg) : ∀ n,
  (∀ extra eosOk keep subst inp, 2 * inp.length + 1 ≤ n →
      getString cfg n extra eosOk keep subst inp ≠ .error .outOfFuel) ∧
  (∀ subst inp, 2 * inp.length + 2 ≤ n → getVariable cfg n subst inp ≠ .error .outOfFuel) ∧
  (∀ subst inp words, 2 * inp.length + 2 ≤ n → getCommand cfg n subst inp words ≠ .error .outOfFuel) := by
  intro n
  induction n with
  | zero => simp
  | succ n ih =>
    obtain ⟨ihS, ihV, ihC⟩ := ih
    have lS := (len_all cfg n).1
    have lV := (len_all cfg n).2.1
    have lC := (len_all cfg n).2.2
    have := nextChar_ne_oof
    refine ⟨?_, ?_, ?_⟩
    · intro extra eosOk keep subst inp hn
      rw [getString]
      have := nextToken_ne_oof extra inp
      have := getSingleQuoted_ne_oof
      repeat' split
      all_goals (try simp)
      all_goals grind [→ nextChar_len, → nextToken_len, → getSingleQuoted_len, getRestOfName_len]
    · intro subst inp hn
      rw [getVariable]
      repeat' (first | split | (dsimp only; split))
      all_goals (try simp)
      all_goals grind [→ nextChar_len]
    · intro subst inp words hn
      rw [getCommand]
      have := callFun_ne_oof cfg
      repeat' split
      all_goals (try simp)
      all_goals grind [→ nextChar_len]

theorem mono_all (cfg : Cfg) : ∀ n,
  (∀ extra eosOk keep subst inp, getString cfg n extra eosOk keep subst inp ≠ .error .outOfFuel →
     getString cfg (n+1) extra eosOk keep subst inp = getString cfg n extra eosOk keep subst inp) ∧
  (∀ subst inp, getVariable cfg n subst inp ≠ .error .outOfFuel →
     getVariable cfg (n+1) subst inp = getVariable cfg n subst inp) ∧
  (∀ subst inp words, getCommand cfg n subst inp words ≠ .error .outOfFuel →
     getCommand cfg (n+1) subst inp words = getCommand cfg n subst inp words) := by
  intro n
  induction n with
  | zero => simp [getString, getVariable, getCommand]
  | succ n ih =>
    obtain ⟨ihS, ihV, ihC⟩ := ih
    refine ⟨?_, ?_, ?_⟩
    · intro extra eosOk keep subst inp h
      rw [getString] at h
      rw [getString, getString]
      repeat' (first | split at h | (dsimp only at h; split at h))
      all_goals (try simp only [List.contains_eq_mem, decide_eq_true_eq] at *)
      all_goals simp [*]
    · intro subst inp h
      rw [getVariable] at h
      rw [getVariable, getVariable]
      cases h1 : getString cfg n [':', '-', '+', '}'] false true subst inp with
      | error e =>
        rw [h1] at h
        rw [ihS _ _ _ _ _ (by rw [h1]; exact h), h1]
      | ok p =>
        obtain ⟨varName, r1⟩ := p
        rw [ihS _ _ _ _ _ (by rw [h1]; simp), h1]
        rw [h1] at h
        dsimp only at h ⊢
        cases h2 : nextChar r1 with
        | error e => rfl
        | ok q =>
          obtain ⟨op0, r2⟩ := q
          rw [h2] at h
          dsimp only at h ⊢
          generalize lookup cfg.env varName = val at h ⊢
          by_cases hc : op0 = ':'
          · simp only [hc, if_true] at h ⊢
            cases h3 : nextChar r2 with
            | error e => rfl
            | ok q =>
              obtain ⟨op, r3⟩ := q
              rw [h3] at h
              dsimp only at h ⊢
              generalize (val.isNone || decide (val = some [])) = u at h ⊢
              cases u <;>
                simp only [Bool.and_true, Bool.and_false, Bool.not_true, Bool.not_false, ↓reduceIte,
                  Bool.false_eq_true] at h ⊢ <;>
                (repeat' (split at h)) <;> simp [*]
          · simp only [hc, if_false] at h ⊢
            generalize val.isNone = u at h ⊢
            cases u <;>
              simp only [Bool.and_true, Bool.and_false, Bool.not_true, Bool.not_false, ↓reduceIte,
                Bool.false_eq_true] at h ⊢ <;>
              (repeat' (split at h)) <;> simp [*]
    · intro subst inp words h
      rw [getCommand] at h
      rw [getCommand, getCommand]
      repeat' (split at h)
      all_goals simp [*]

theorem mono_le (cfg : Cfg) {n m : Nat} (hnm : n ≤ m) :
  (∀ extra eosOk keep subst inp, getString cfg n extra eosOk keep subst inp ≠ .error .outOfFuel →
     getString cfg m extra eosOk keep subst inp = getString cfg n extra eosOk keep subst inp) := by
  induction hnm with
  | refl => intros; rfl
  | step _ ih =>
    intro extra eosOk keep subst inp h
    have h' := ih extra eosOk keep subst inp h
    rw [(mono_all cfg _).1 extra eosOk keep subst inp (by rw [h']; exact h), h']

/-- fuel `2 * length + 1` is enough for `getString` -/
theorem getString_total (cfg : Cfg) (n : Nat) (extra : List Char) (eosOk keep subst : Bool) (inp : Str)
    (h : 2 * inp.length + 1 ≤ n) : getString cfg n extra eosOk keep subst inp ≠ .error .outOfFuel :=
  (total_all cfg n).1 extra eosOk keep subst inp h

/-- consumed input never grows -/
theorem getString_rest_le (cfg : Cfg) (n : Nat) (extra : List Char) (eosOk keep subst : Bool) (inp s rest : Str)
    (h : getString cfg n extra eosOk keep subst inp = .ok (s, rest)) : rest.length ≤ inp.length := by
  have := (len_all cfg n).1 extra eosOk keep subst inp
  rw [h] at this; exact this

/-! ### the fast path of `parse` -/

theorem trigger_covers' :
    Consts.C17.trigger.contains Consts.C17.escapeChar = true ∧
    ∀ c ∈ Consts.C17.baseDelims, Consts.C17.trigger.contains c = true := by
  decide

theorem plain_not_delim' (c : Char) (hc : Consts.C17.trigger.contains c = false) :
    isDelim [] c = false ∧ c ≠ Consts.C17.escapeChar := by
  constructor
  · unfold isDelim
    cases hb : Consts.C17.baseDelims.contains c with
    | false => simp
    | true =>
      have := trigger_covers'.2 c (by simpa using hb)
      rw [this] at hc; cases hc
  · intro heq
    have := trigger_covers'.1
    rw [← heq, hc] at this; cases this

theorem scan_plain' (text acc : Str)
    (h : ∀ c ∈ text, Consts.C17.trigger.contains c = false) :
    scan [] text acc = .ok (acc.reverse ++ text, []) := by
  induction text generalizing acc with
  | nil => simp [scan]
  | cons c rest ih =>
    have ⟨hd, he⟩ := plain_not_delim' c (h c (by simp))
    rw [scan.eq_def]
    simp only [hd, he, Bool.false_eq_true, if_false]
    rw [ih (c :: acc) (fun d hd' => h d (by simp [hd']))]
    simp

theorem getString_plain (cfg : Cfg) (text : Str) (h : hasMeta text = false) :
    getString cfg (fuelFor text) [] true false true text = .ok (text, []) := by
  have hall : ∀ c ∈ text, Consts.C17.trigger.contains c = false := by
    intro c hc
    unfold hasMeta at h
    rw [List.any_eq_false] at h
    simpa using h c hc
  cases text with
  | nil => simp [fuelFor, getString, nextToken]
  | cons c rest =>
    have ⟨hd, _⟩ := plain_not_delim' c (hall c (by simp))
    have hs := scan_plain' (c :: rest) [] hall
    simp only [fuelFor, List.length_cons]
    rw [show 2 * (rest.length + 1) + 4 = (2 * rest.length + 4) + 1 + 1 by omega]
    simp only [getString, nextToken, hd, hs]
    simp

/-- the value of a top-level result (the rest is dropped by `parse`) -/
def valOf (R : Except PErr (Str × Str)) : Except PErr Str :=
  match R with
  | .error e => .error e
  | .ok (s, _) => .ok s

/-- `parse` is `getString` at top level with fuel `fuelFor`, fast path or not -/
theorem parse_eq (cfg : Cfg) (text : Str) :
    parse cfg text = valOf (getString cfg (fuelFor text) [] true false true text) := by
  unfold parse
  cases h : hasMeta text with
  | false => simp [getString_plain cfg text h, valOf]
  | true =>
    simp only [Bool.not_true, Bool.false_eq_true, if_false]
    cases getString cfg (fuelFor text) [] true false true text with
    | error e => rfl
    | ok p => cases p; rfl

/-- if `getString` at top level eventually returns `R`, `parse` returns it -/
theorem parse_of_eventually (cfg : Cfg) (text : Str) (R : Except PErr (Str × Str))
    (h : ∃ n, ∀ m, n ≤ m → getString cfg m [] true false true text = R) :
    parse cfg text = valOf R := by
  obtain ⟨n, hn⟩ := h
  have ht := getString_total cfg (fuelFor text) [] true false true text (by unfold fuelFor; omega)
  have hm := mono_le cfg (Nat.le_max_left (fuelFor text) n) [] true false true text ht
  rw [hn _ (Nat.le_max_right _ _)] at hm
  rw [parse_eq, ← hm]

end C17
