import BobModel.Proofs.C02Bytes
import BobModel.Proofs.C02Sort
/-
Helper lemmas for C02/C03: the recipe part of the digest is an injective encoding of `SemRecipe`,
the host part is injective once the positions of the host slices are known.
-/
namespace Digest

/-- generic: a concatenation of prefix-free encoded items of known count is prefix free -/
theorem flatMap_pf {α : Type} (enc : α → Bytes) (P : α → Prop)
    (pf : ∀ a a' r r', P a → P a' → enc a ++ r = enc a' ++ r' → a = a' ∧ r = r')
    {l l' : List α} {r r' : Bytes} (hlen : l.length = l'.length)
    (hl : ∀ a ∈ l, P a) (hl' : ∀ a ∈ l', P a)
    (h : l.flatMap enc ++ r = l'.flatMap enc ++ r') : l = l' ∧ r = r' := by
  induction l generalizing l' with
  | nil =>
    cases l' with
    | nil => simpa using h
    | cons a t => simp at hlen
  | cons a t ih =>
    cases l' with
    | nil => simp at hlen
    | cons a' t' =>
      simp only [List.flatMap_cons, List.append_assoc] at h
      have ⟨ha, h2⟩ := pf _ _ _ _ (hl a (by simp)) (hl' a' (by simp)) h
      have ⟨ht, hr⟩ := ih (by simpa using hlen) (fun s hs => hl s (by simp [hs]))
        (fun s hs => hl' s (by simp [hs])) h2
      exact ⟨by rw [ha, ht], hr⟩

def encSemTool (t : SemTool) : Bytes :=
  t.prov ++ (le4 t.path.length ++ (le4 t.libs.length ++ (utf8 t.path ++ t.libs.flatMap encStr)))

/-- the recipe part as a function of the meaning only -/
def encOfSem (s : SemRecipe) : Bytes :=
  pad ++ (encStr s.script ++ (le4 s.tools.length ++ (s.tools.flatMap encSemTool ++
    (le4 s.env.length ++ (s.env.flatMap encKV ++ (le4 s.args.length ++ (s.args.flatMap id ++ [])))))))

def hostOfSem (s : SemHost) : Bytes := s.hostPrefix ++ s.args.flatMap id

theorem encScript_eq (s : Option Str) : encScript s = encStr (s.getD []) := by
  cases s with
  | none => decide
  | some t =>
    cases t with
    | nil => decide
    | cons c cs => rfl

theorem encRecipe_eq_encOfSem (d : StepDesc) : encRecipe d = encOfSem (semRecipe d) := by
  simp only [encRecipe, encRecipeG, encOfSem, semRecipe, encScript_eq, List.length_map, sortBy_length,
    List.flatMap_map, List.nil_append, List.append_assoc, List.append_nil]
  congr 5
  funext t
  simp [encTool, encSemTool]

theorem encHost_eq_hostOfSem (d : StepDesc) : encHost d = hostOfSem (semHost d) := by
  simp [encHost, hostOfSem, semHost, List.flatMap]

structure SemWF (s : SemRecipe) : Prop where
  script : lenOk s.script
  ntools : s.tools.length < 2 ^ 32
  tools : ∀ t ∈ s.tools, lenOk t.path ∧ t.libs.length < 2 ^ 32 ∧ (∀ l ∈ t.libs, lenOk l) ∧ t.prov.length = 20
  nenv : s.env.length < 2 ^ 32
  env : ∀ kv ∈ s.env, lenOk kv.1 ∧ lenOk kv.2
  nargs : s.args.length < 2 ^ 32
  args : ∀ a ∈ s.args, a.length = 20

theorem sliceRecipes_length {d : Bytes} (h : d.length ≥ 20) : (sliceRecipes d).length = 20 := by
  simp only [sliceRecipes, List.length_take]
  have : Consts.C02.sliceLen = 20 := rfl
  omega

theorem semWF_of_WF {d : StepDesc} (wf : WF d) : SemWF (semRecipe d) where
  script := wf.script
  ntools := by simp [semRecipe, sortBy_length, wf.ntools]
  tools := by
    intro t ht
    simp only [semRecipe, List.mem_map] at ht
    obtain ⟨t0, ht0, rfl⟩ := ht
    have := wf.tools t0 ((mem_sortBy _ _ _).mp ht0)
    exact ⟨this.1, this.2.1, this.2.2.1, sliceRecipes_length this.2.2.2⟩
  nenv := by simp [semRecipe, sortBy_length, wf.nenv]
  env := by
    intro kv h
    exact wf.env kv ((mem_sortBy _ _ _).mp h)
  nargs := by simp [semRecipe, wf.nargs]
  args := by
    intro a ha
    simp only [semRecipe, List.mem_map] at ha
    obtain ⟨a0, ha0, rfl⟩ := ha
    exact sliceRecipes_length (wf.args a0 ha0)

def SemToolOk (t : SemTool) : Prop :=
  lenOk t.path ∧ t.libs.length < 2 ^ 32 ∧ (∀ l ∈ t.libs, lenOk l) ∧ t.prov.length = 20

theorem encSemTool_pf (t t' : SemTool) (r r' : Bytes) (h1 : SemToolOk t) (h2 : SemToolOk t')
    (h : encSemTool t ++ r = encSemTool t' ++ r') : t = t' ∧ r = r' := by
  obtain ⟨prov, path, libs⟩ := t
  obtain ⟨prov', path', libs'⟩ := t'
  simp only [encSemTool, List.append_assoc] at h
  have ⟨hp, h3⟩ := List.append_inj h (by rw [h1.2.2.2, h2.2.2.2])
  have ⟨hpl, h4⟩ := le4_split h1.1 h2.1 h3
  have ⟨hll, h5⟩ := le4_split h1.2.1 h2.2.1 h4
  have ⟨hpath, h6⟩ := utf8_take hpl h5
  have ⟨hlibs, hr⟩ := encStrs_pf hll h1.2.2.1 h2.2.2.1 h6
  simp only at hp hpath hlibs
  exact ⟨by rw [hp, hpath, hlibs], hr⟩

theorem slice_pf (a a' r r' : Bytes) (h1 : a.length = 20) (h2 : a'.length = 20)
    (h : id a ++ r = id a' ++ r') : a = a' ∧ r = r' :=
  List.append_inj h (by simp [h1, h2])

/-- **the recipe part is injective on the meaning** -/
theorem encOfSem_inj {s s' : SemRecipe} (w : SemWF s) (w' : SemWF s') (h : encOfSem s = encOfSem s') : s = s' := by
  obtain ⟨script, tools, env, args⟩ := s
  obtain ⟨script', tools', env', args'⟩ := s'
  simp only [encOfSem] at h
  have h1 := List.append_cancel_left h
  have ⟨e1, h2⟩ := encStr_pf w.script w'.script h1
  have ⟨n1, h3⟩ := le4_split w.ntools w'.ntools h2
  have ⟨e2, h4⟩ := flatMap_pf encSemTool SemToolOk encSemTool_pf n1 w.tools w'.tools h3
  have ⟨n2, h5⟩ := le4_split w.nenv w'.nenv h4
  have ⟨e3, h6⟩ := flatMap_pf encKV (fun kv => lenOk kv.1 ∧ lenOk kv.2)
    (fun a a' r r' p p' hh => encKV_pf p p' hh) n2 w.env w'.env h5
  have ⟨n3, h7⟩ := le4_split w.nargs w'.nargs h6
  have ⟨e4, _⟩ := flatMap_pf id (fun a => a.length = 20) slice_pf n3 w.args w'.args h7
  simp only at e1 e2 e3 e4
  rw [e1, e2, e3, e4]

/-- host part: with known slice sizes the concatenation determines the slices -/
theorem flatten_inj_of_lengths {l l' : List Bytes} (hl : l.map List.length = l'.map List.length)
    (h : l.flatMap id = l'.flatMap id) : l = l' := by
  induction l generalizing l' with
  | nil =>
    cases l' with
    | nil => rfl
    | cons a t => simp at hl
  | cons a t ih =>
    cases l' with
    | nil => simp at hl
    | cons a' t' =>
      simp only [List.map_cons, List.cons.injEq] at hl
      simp only [List.flatMap_cons, id] at h
      have ⟨ha, ht⟩ := List.append_inj h hl.1
      rw [ha, ih hl.2 ht]

theorem hostOfSem_inj {s s' : SemHost} (hp : s.hostPrefix.length = s'.hostPrefix.length)
    (hl : s.args.map List.length = s'.args.map List.length) (h : hostOfSem s = hostOfSem s') : s = s' := by
  obtain ⟨p, a⟩ := s
  obtain ⟨p', a'⟩ := s'
  simp only [hostOfSem] at h
  have ⟨e1, e2⟩ := List.append_inj h hp
  have e3 := flatten_inj_of_lengths hl e2
  simp only at e1 e3
  rw [e1, e3]

/-! ### the two-part digest -/

def HashLen (H : Bytes → Bytes) : Prop := ∀ b, (H b).length = 20

/-- no collision of `H` on the two inputs that are compared -/
def NoColl (H : Bytes → Bytes) (a b : Bytes) : Prop := H a = H b → a = b

theorem digest_eq_iff {H : Bytes → Bytes} (hl : HashLen H) (r h r' h' : Bytes) :
    digest H r h = digest H r' h' ↔
      H r = H r' ∧ ((h = [] ∧ h' = []) ∨ (h ≠ [] ∧ h' ≠ [] ∧ H h = H h')) := by
  unfold digest
  by_cases e : h = [] <;> by_cases e' : h' = []
  · rw [if_pos e, if_pos e']
    constructor
    · intro hh; exact ⟨hh, Or.inl ⟨e, e'⟩⟩
    · intro hh; exact hh.1
  · rw [if_pos e, if_neg e']
    constructor
    · intro hh
      have := congrArg List.length hh
      simp [hl r, hl r', hl h'] at this
    · rintro ⟨_, h2⟩
      rcases h2 with ⟨_, h3⟩ | ⟨h3, _⟩
      · exact absurd h3 e'
      · exact absurd e h3
  · rw [if_neg e, if_pos e']
    constructor
    · intro hh
      have := congrArg List.length hh
      simp [hl r, hl r', hl h] at this
    · rintro ⟨_, h2⟩
      rcases h2 with ⟨h3, _⟩ | ⟨_, h3, _⟩
      · exact absurd h3 e
      · exact absurd e' h3
  · rw [if_neg e, if_neg e']
    constructor
    · intro hh
      have ⟨a, b⟩ := List.append_inj hh (by rw [hl r, hl r'])
      exact ⟨a, Or.inr ⟨e, e', b⟩⟩
    · rintro ⟨a, h2⟩
      rcases h2 with ⟨h3, _⟩ | ⟨_, _, b⟩
      · exact absurd h3 e
      · rw [a, b]

theorem sliceRecipes_digest {H : Bytes → Bytes} (hl : HashLen H) (r h : Bytes) :
    sliceRecipes (digest H r h) = H r := by
  unfold digest sliceRecipes
  have e : Consts.C02.sliceLen = 20 := rfl
  split
  · rw [List.take_of_length_le (by rw [hl r, e]; exact Nat.le_refl _)]
  · exact List.take_left' (by rw [hl r, e])

end Digest
