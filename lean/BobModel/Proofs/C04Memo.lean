import BobModel.Model.Memo
/-
Helper lemmas for C04, part 1: tracked computations, the touched-set heap, the memoised evaluator.
-/
namespace Memo

/-! ### flat computations -/

theorem Comp.run_agree {K V R : Type} (c : Comp K V R) (e1 e2 : Envf K V)
    (h : ∀ k ∈ (c.run e1).2, e1 k = e2 k) : c.run e2 = c.run e1 := by
  induction c with
  | ret r => rfl
  | get k f ih =>
    have hk : e1 k = e2 k := h k (by simp [Comp.run])
    have := ih (e1 k) (fun k' hk' => h k' (by simp [Comp.run, hk']))
    simp only [Comp.run, ← hk, this]
  | has k f ih =>
    have hk : e1 k = e2 k := h k (by simp [Comp.run])
    have := ih (e1 k).isSome (fun k' hk' => h k' (by simp [Comp.run, hk']))
    simp only [Comp.run, ← hk, this]

/-! ### the heap of shared touched sets -/

section Heap
variable {K V : Type} [DecidableEq K]

theorem mem_insertKey (k a : K) (s : List K) : a ∈ insertKey k s ↔ a = k ∨ a ∈ s := by
  unfold insertKey
  split
  · constructor
    · intro h; exact Or.inr h
    · rintro (rfl | h)
      · assumption
      · exact h
  · simp [or_comm]

theorem mem_insertKeys (keys : List K) (a : K) (s : List K) : a ∈ insertKeys keys s ↔ a ∈ keys ∨ a ∈ s := by
  unfold insertKeys
  induction keys generalizing s with
  | nil => simp
  | cons k rest ih =>
    simp only [List.foldl_cons, ih, mem_insertKey, List.mem_cons]
    constructor
    · rintro (h | rfl | h)
      · exact Or.inl (Or.inr h)
      · exact Or.inl (Or.inl rfl)
      · exact Or.inr h
    · rintro ((rfl | h) | h)
      · exact Or.inr (Or.inl rfl)
      · exact Or.inl h
      · exact Or.inr (Or.inr h)

theorem addTo_length (h : Heap K) (ids : List Nat) (keys : List K) :
    (h.addTo ids keys).sets.length = h.sets.length := by
  simp [Heap.addTo]

theorem addTo_getD (h : Heap K) (ids : List Nat) (keys : List K) (i : Nat) (hi : i < h.sets.length) :
    (h.addTo ids keys).sets.getD i [] = if i ∈ ids then insertKeys keys (h.sets.getD i []) else h.sets.getD i [] := by
  simp [Heap.addTo, List.getD, hi]

/-- after a touch through `c`, every set of `c`'s stack contains the keys -/
theorem touch_mem (h : Heap K) (c : TEnv K V) (keys : List K) (i : Nat) (hi : i ∈ c.touched)
    (hv : i < h.sets.length) (k : K) (hk : k ∈ keys) : k ∈ (c.touch h keys).sets.getD i [] := by
  unfold TEnv.touch
  rw [addTo_getD h _ _ i hv]
  simp [hi, mem_insertKeys, hk]

/-- a touch never removes anything and never changes sets outside the stack -/
theorem touch_mono (h : Heap K) (c : TEnv K V) (keys : List K) (i : Nat) (hv : i < h.sets.length) (k : K)
    (hk : k ∈ h.sets.getD i []) : k ∈ (c.touch h keys).sets.getD i [] := by
  unfold TEnv.touch
  rw [addTo_getD h _ _ i hv]
  split
  · rw [mem_insertKeys]; exact Or.inr hk
  · exact hk

theorem touch_other (h : Heap K) (c : TEnv K V) (keys : List K) (i : Nat) (hv : i < h.sets.length)
    (hi : i ∉ c.touched) : (c.touch h keys).sets.getD i [] = h.sets.getD i [] := by
  unfold TEnv.touch
  rw [addTo_getD h _ _ i hv]
  simp [hi]

end Heap

/-! ### nested evaluation without memo -/

section EvalU
variable {K V X R : Type}

theorem evalU_mono (prog : Prog K V X R) : ∀ (n : Nat) (c : PComp K V X R) (e : Envf K V) (v : R × List K),
    evalU prog n c e = some v → evalU prog (n + 1) c e = some v := by
  intro n
  induction n with
  | zero => intro c e v h; simp [evalU] at h
  | succ n ih =>
    intro c e v h
    cases c with
    | ret r => simpa [evalU] using h
    | get k f =>
      rw [evalU] at h
      rw [evalU]
      cases h1 : evalU prog n (f (e k)) e with
      | none => rw [h1] at h; cases h
      | some p =>
        rw [h1] at h
        rw [ih _ _ _ h1]
        exact h
    | call rc x inh ov cont =>
      rw [evalU] at h
      rw [evalU]
      cases h1 : evalU prog n (prog rc x) (calleeEnv inh ov e) with
      | none => rw [h1] at h; cases h
      | some p =>
        rw [h1] at h
        rw [ih _ _ _ h1]
        obtain ⟨res, t⟩ := p
        simp only at h ⊢
        cases h2 : evalU prog n (cont res) e with
        | none => rw [h2] at h; cases h
        | some q =>
          rw [h2] at h
          rw [ih _ _ _ h2]
          exact h

theorem evalU_mono_le (prog : Prog K V X R) (n m : Nat) (hle : n ≤ m) (c : PComp K V X R) (e : Envf K V)
    (v : R × List K) (h : evalU prog n c e = some v) : evalU prog m c e = some v := by
  induction hle with
  | refl => exact h
  | step _ ih => exact evalU_mono prog _ c e v ih

/-- the unmemoised evaluator is deterministic in the fuel -/
theorem evalU_det (prog : Prog K V X R) (n m : Nat) (c : PComp K V X R) (e : Envf K V) (v w : R × List K)
    (h1 : evalU prog n c e = some v) (h2 : evalU prog m c e = some w) : v = w := by
  have a := evalU_mono_le prog n (max n m) (Nat.le_max_left _ _) c e v h1
  have b := evalU_mono_le prog m (max n m) (Nat.le_max_right _ _) c e w h2
  rw [a] at b
  exact Option.some.inj b

theorem overlay_agree (ov e1 e2 : Envf K V) (k : K) (h : e1 k = e2 k) : overlay ov e1 k = overlay ov e2 k := by
  unfold overlay
  cases ov k <;> simp [h]

/-- nested memo soundness: two inputs that agree on the touched keys give the same result and the same touched keys -/
theorem evalU_agree (prog : Prog K V X R) : ∀ (n : Nat) (c : PComp K V X R) (e1 e2 : Envf K V) (r : R) (t : List K),
    evalU prog n c e1 = some (r, t) → (∀ k ∈ t, e1 k = e2 k) → evalU prog n c e2 = some (r, t) := by
  intro n
  induction n with
  | zero => intro c e1 e2 r t h; simp [evalU] at h
  | succ n ih =>
    intro c e1 e2 r t h hag
    cases c with
    | ret r' => simpa [evalU] using h
    | get k f =>
      rw [evalU] at h
      rw [evalU]
      cases h1 : evalU prog n (f (e1 k)) e1 with
      | none => rw [h1] at h; cases h
      | some p =>
        rw [h1] at h
        obtain ⟨r1, t1⟩ := p
        simp only [Option.some.injEq, Prod.mk.injEq] at h
        obtain ⟨rfl, rfl⟩ := h
        have hk : e1 k = e2 k := hag k (by simp)
        rw [← hk, ih _ _ e2 _ _ h1 (fun k' hk' => hag k' (by simp [hk']))]
    | call rc x inh ov cont =>
      rw [evalU] at h
      rw [evalU]
      cases h1 : evalU prog n (prog rc x) (calleeEnv inh ov e1) with
      | none => rw [h1] at h; cases h
      | some p =>
        rw [h1] at h
        obtain ⟨res, t1⟩ := p
        simp only at h
        cases h2 : evalU prog n (cont res) e1 with
        | none => rw [h2] at h; cases h
        | some q =>
          rw [h2] at h
          obtain ⟨r2, t2⟩ := q
          simp only [Option.some.injEq, Prod.mk.injEq] at h
          obtain ⟨rfl, rfl⟩ := h
          have hc : evalU prog n (prog rc x) (calleeEnv inh ov e2) = some (res, t1) := by
            cases inh with
            | false => simpa [calleeEnv] using h1
            | true =>
              simp only [calleeEnv, if_true] at h1 ⊢
              exact ih _ _ _ _ _ h1 (fun k hk => overlay_agree ov e1 e2 k (hag k (by simp [hk])))
          rw [hc]
          simp only
          rw [ih _ _ e2 _ _ h2 (fun k hk => hag k (by simp [hk]))]

end EvalU

/-! ### the memo table invariant -/

section EvalM
variable {K V W X R I : Type} [DecidableEq K] [DecidableEq W] [DecidableEq X] [DecidableEq I]

/-- a memo entry of recipe `rc` is correct: whatever input it matches, a fresh computation on that input gives
the stored result and touches exactly the stored keys -/
def MatcherOK (prog : Prog K V X R) (proj : V → W) (rc : Nat) (m : Matcher K W X R) : Prop :=
  ∀ e : Envf K V, m.matches proj e m.x = true →
    ∃ n t, evalU prog n (prog rc m.x) e = some (m.result, t) ∧ ∀ k, k ∈ t ↔ k ∈ m.touchKeys

def TblOK (prog : Prog K V X R) (proj : V → W) (rid : R → I) (tb : Tbl K W X R I) : Prop :=
  (∀ rc, ∀ m ∈ tb.byMatch rc, MatcherOK prog proj rc m) ∧ (∀ rc i r, (i, r) ∈ tb.byId rc → rid r = i)

theorem TblOK_empty (prog : Prog K V X R) (proj : V → W) (rid : R → I) : TblOK prog proj rid Tbl.empty := by
  constructor
  · intro rc m hm; simp [Tbl.empty] at hm
  · intro rc i r h; simp [Tbl.empty] at h

theorem matches_iff (proj : V → W) (m : Matcher K W X R) (e : Envf K V) (x : X) :
    m.matches proj e x = true ↔ (∀ p ∈ m.keys, (e p.1).map proj = p.2) ∧ m.x = x := by
  simp [Matcher.matches, List.all_eq_true]

theorem make_touchKeys (proj : V → W) (e : Envf K V) (t : List K) (x : X) (r : R) :
    (Matcher.make proj e t x r).touchKeys = t := by
  simp [Matcher.make, Matcher.touchKeys, List.map_map, Function.comp_def]

theorem make_matches (proj : V → W) (hproj : Function.Injective proj) (e0 e : Envf K V) (t : List K) (x x' : X)
    (r : R) (h : (Matcher.make proj e0 t x r).matches proj e x' = true) : (∀ k ∈ t, e0 k = e k) ∧ x = x' := by
  rw [matches_iff] at h
  refine ⟨fun k hk => ?_, h.2⟩
  have := h.1 (k, (e0 k).map proj) (by simp only [Matcher.make, List.mem_map]; exact ⟨k, hk, rfl⟩)
  exact (Option.map_injective hproj this).symm

theorem lookupId_mem {i : I} {r : R} : ∀ (l : List (I × R)), lookupId l i = some r → (i, r) ∈ l := by
  intro l
  induction l with
  | nil => intro h; simp [lookupId] at h
  | cons p rest ih =>
    intro h
    obtain ⟨j, q⟩ := p
    unfold lookupId at h
    split at h
    · next hj => cases h; subst hj; simp
    · exact List.mem_cons_of_mem _ (ih h)

/-- under an injective result id, `setdefault(resultId, p)` returns `p`, and remembering a correct entry keeps the
table correct -/
theorem remember_ok (prog : Prog K V X R) (proj : V → W) (rid : R → I) (hrid : Function.Injective rid)
    (tb : Tbl K W X R I) (htb : TblOK prog proj rid tb) (rc : Nat) (e : Envf K V) (t : List K) (x : X) (res : R)
    (hm : MatcherOK prog proj rc (Matcher.make proj e t x res)) :
    (tb.remember proj rid rc e t x res).1 = res ∧ TblOK prog proj rid (tb.remember proj rid rc e t x res).2 := by
  have hres' : setdefaultGet (tb.byId rc) (rid res) res = res := by
    unfold setdefaultGet
    cases hl : lookupId (tb.byId rc) (rid res) with
    | none => rfl
    | some p => exact hrid (htb.2 rc _ _ (lookupId_mem _ hl))
  refine ⟨hres', ?_, ?_⟩
  · intro rc' m hmem
    simp only [Tbl.remember] at hmem
    by_cases hrc : rc' = rc
    · subst hrc
      simp only [if_true, List.mem_cons] at hmem
      rcases hmem with rfl | hmem
      · rw [hres']; exact hm
      · exact htb.1 _ m hmem
    · simp only [hrc, if_false] at hmem
      exact htb.1 _ m hmem
  · intro rc' i r hmem
    simp only [Tbl.remember] at hmem
    by_cases hrc : rc' = rc
    · subst hrc
      simp only [if_true, setdefaultPut] at hmem
      split at hmem
      · exact htb.2 _ _ _ hmem
      · simp only [List.mem_cons, Prod.mk.injEq] at hmem
        rcases hmem with ⟨rfl, rfl⟩ | hmem
        · rfl
        · exact htb.2 _ _ _ hmem
    · simp only [hrc, if_false] at hmem
      exact htb.2 _ _ _ hmem

theorem keys_equiv_append {t1 t1' t2 t2' : List K} (inh : Bool) (h1 : ∀ k, k ∈ t1 ↔ k ∈ t1')
    (h2 : ∀ k, k ∈ t2 ↔ k ∈ t2') :
    ∀ k, k ∈ (if inh then t1 else []) ++ t2 ↔ k ∈ (if inh then t1' else []) ++ t2' := by
  intro k
  cases inh <;> simp [h1 k, h2 k]

/-- the head of `prepare` is sound as soon as the computation of a miss is -/
theorem callSub_sound (prog : Prog K V X R) (proj : V → W) (rid : R → I) (hproj : Function.Injective proj)
    (hrid : Function.Injective rid) (tb : Tbl K W X R I) (htb : TblOK prog proj rid tb) (rc : Nat) (x : X)
    (e' : Envf K V) (compute : Unit → Option (R × List K × Tbl K W X R I))
    (hcomp : ∀ res t tb1, compute () = some (res, t, tb1) →
      (∃ m t', evalU prog m (prog rc x) e' = some (res, t') ∧ ∀ k, k ∈ t ↔ k ∈ t') ∧ TblOK prog proj rid tb1)
    (res : R) (t1 : List K) (tb2 : Tbl K W X R I) (hs : callSub proj rid tb rc x e' compute = some (res, t1, tb2)) :
    (∃ m t1', evalU prog m (prog rc x) e' = some (res, t1') ∧ ∀ k, k ∈ t1 ↔ k ∈ t1') ∧ TblOK prog proj rid tb2 := by
  unfold callSub at hs
  cases hf : findHit proj (tb.byMatch rc) e' x with
  | some m =>
    rw [hf] at hs
    simp only [Option.some.injEq, Prod.mk.injEq] at hs
    obtain ⟨rfl, rfl, rfl⟩ := hs
    have hmem : m ∈ tb.byMatch rc := List.mem_of_find?_eq_some hf
    have hmatch : m.matches proj e' x = true := by
      have := List.find?_some hf
      simpa using this
    have hx : m.x = x := ((matches_iff proj m _ x).1 hmatch).2
    obtain ⟨n1, t1', hu, heq⟩ := htb.1 rc m hmem e' (by rw [hx]; exact hmatch)
    rw [hx] at hu
    exact ⟨⟨n1, t1', hu, fun k => (heq k).symm⟩, htb⟩
  | none =>
    rw [hf] at hs
    simp only at hs
    cases hc : compute () with
    | none => rw [hc] at hs; cases hs
    | some p =>
      rw [hc] at hs
      obtain ⟨res0, t0, tb1⟩ := p
      simp only [Option.some.injEq, Prod.mk.injEq] at hs
      obtain ⟨hres, rfl, rfl⟩ := hs
      obtain ⟨⟨m1, t1', hu, heq⟩, hok1⟩ := hcomp _ _ _ hc
      have hmok : MatcherOK prog proj rc (Matcher.make proj e' t0 x res0) := by
        intro e2 hm2
        obtain ⟨hag, _⟩ := make_matches proj hproj _ e2 t0 x _ res0 hm2
        refine ⟨m1, t1', ?_, fun k => ?_⟩
        · exact evalU_agree prog m1 _ _ e2 _ _ hu (fun k hk => hag k ((heq k).2 hk))
        · rw [make_touchKeys]; exact (heq k).symm
      obtain ⟨hr, hok2⟩ := remember_ok prog proj rid hrid tb1 hok1 rc e' t0 x res0 hmok
      rw [hr] at hres
      subst hres
      exact ⟨⟨m1, t1', hu, heq⟩, hok2⟩

/-- **soundness of the memoised evaluator**: whatever it returns, the unmemoised evaluator returns the same result
and the same set of touched keys; and the table stays correct. -/
theorem evalM_sound (prog : Prog K V X R) (proj : V → W) (rid : R → I) (hproj : Function.Injective proj)
    (hrid : Function.Injective rid) :
    ∀ (n : Nat) (tb : Tbl K W X R I) (c : PComp K V X R) (e : Envf K V) (r : R) (t : List K) (tb' : Tbl K W X R I),
      TblOK prog proj rid tb → evalM prog proj rid n tb c e = some (r, t, tb') →
      (∃ m t', evalU prog m c e = some (r, t') ∧ ∀ k, k ∈ t ↔ k ∈ t') ∧ TblOK prog proj rid tb' := by
  intro n
  induction n with
  | zero => intro tb c e r t tb' _ h; simp [evalM] at h
  | succ n ih =>
    intro tb c e r t tb' htb h
    cases c with
    | ret r' =>
      simp only [evalM, Option.some.injEq, Prod.mk.injEq] at h
      obtain ⟨rfl, rfl, rfl⟩ := h
      exact ⟨⟨1, [], by simp [evalU], fun k => Iff.rfl⟩, htb⟩
    | get k f =>
      rw [evalM] at h
      cases h1 : evalM prog proj rid n tb (f (e k)) e with
      | none => rw [h1] at h; cases h
      | some p =>
        rw [h1] at h
        obtain ⟨r1, t1, tb1⟩ := p
        simp only [Option.some.injEq, Prod.mk.injEq] at h
        obtain ⟨rfl, rfl, rfl⟩ := h
        obtain ⟨⟨m, t', hu, heq⟩, hok⟩ := ih _ _ _ _ _ _ htb h1
        refine ⟨⟨m + 1, k :: t', by simp [evalU, hu], fun k' => by simp [heq k']⟩, hok⟩
    | call rc x inh ov cont =>
      rw [evalM] at h
      cases hs : callSub proj rid tb rc x (calleeEnv inh ov e)
          (fun _ => evalM prog proj rid n tb (prog rc x) (calleeEnv inh ov e)) with
      | none => rw [hs] at h; cases h
      | some p =>
        rw [hs] at h
        obtain ⟨res, t1, tb2⟩ := p
        simp only at h
        obtain ⟨⟨m1, t1', hu1, heq1⟩, hok2⟩ := callSub_sound prog proj rid hproj hrid tb htb rc x _ _
          (fun res t tb1 hc => ih _ _ _ _ _ _ htb hc) res t1 tb2 hs
        cases h2 : evalM prog proj rid n tb2 (cont res) e with
        | none => rw [h2] at h; cases h
        | some q =>
          rw [h2] at h
          obtain ⟨r2, t2, tb3⟩ := q
          simp only [Option.some.injEq, Prod.mk.injEq] at h
          obtain ⟨rfl, rfl, rfl⟩ := h
          obtain ⟨⟨m2, t2', hu2, heq2⟩, hok3⟩ := ih _ _ _ _ _ _ hok2 h2
          refine ⟨⟨max m1 m2 + 1, (if inh then t1' else []) ++ t2', ?_, keys_equiv_append inh heq1 heq2⟩, hok3⟩
          rw [evalU]
          rw [evalU_mono_le prog m1 (max m1 m2) (Nat.le_max_left _ _) _ _ _ hu1]
          simp only
          rw [evalU_mono_le prog m2 (max m1 m2) (Nat.le_max_right _ _) _ _ _ hu2]

theorem runCallsU_mono_le (prog : Prog K V X R) (n m : Nat) (hle : n ≤ m) :
    ∀ (calls : List (Nat × X × Envf K V)) (rs : List R), runCallsU prog n calls = some rs →
      runCallsU prog m calls = some rs := by
  intro calls
  induction calls with
  | nil => intro rs h; simpa [runCallsU] using h
  | cons c rest ih =>
    intro rs h
    obtain ⟨rc, x, e⟩ := c
    rw [runCallsU] at h ⊢
    cases h1 : evalU prog n (.call rc x true (fun _ => none) .ret) e with
    | none => rw [h1] at h; cases h
    | some p =>
      rw [h1] at h
      rw [evalU_mono_le prog n m hle _ _ _ h1]
      obtain ⟨r, t⟩ := p
      simp only at h ⊢
      cases h2 : runCallsU prog n rest with
      | none => rw [h2] at h; cases h
      | some rs' =>
        rw [h2] at h
        rw [ih _ h2]
        exact h

end EvalM

end Memo

namespace Memo

section Complete
variable {K V W X R I : Type} [DecidableEq K] [DecidableEq W] [DecidableEq X] [DecidableEq I]

theorem callSub_mono (proj : V → W) (rid : R → I) (tb : Tbl K W X R I) (rc : Nat) (x : X) (e' : Envf K V)
    (c1 c2 : Unit → Option (R × List K × Tbl K W X R I)) (hc : ∀ v, c1 () = some v → c2 () = some v)
    (v : R × List K × Tbl K W X R I) (h : callSub proj rid tb rc x e' c1 = some v) :
    callSub proj rid tb rc x e' c2 = some v := by
  unfold callSub at h ⊢
  cases hf : findHit proj (tb.byMatch rc) e' x with
  | some m => rw [hf] at h; exact h
  | none =>
    rw [hf] at h
    simp only at h ⊢
    cases h1 : c1 () with
    | none => rw [h1] at h; cases h
    | some p => rw [h1] at h; rw [hc p h1]; exact h

theorem evalM_mono (prog : Prog K V X R) (proj : V → W) (rid : R → I) :
    ∀ (n : Nat) (tb : Tbl K W X R I) (c : PComp K V X R) (e : Envf K V) (v : R × List K × Tbl K W X R I),
      evalM prog proj rid n tb c e = some v → evalM prog proj rid (n + 1) tb c e = some v := by
  intro n
  induction n with
  | zero => intro tb c e v h; simp [evalM] at h
  | succ n ih =>
    intro tb c e v h
    cases c with
    | ret r => simpa [evalM] using h
    | get k f =>
      rw [evalM] at h
      rw [evalM]
      cases h1 : evalM prog proj rid n tb (f (e k)) e with
      | none => rw [h1] at h; cases h
      | some p => rw [h1] at h; rw [ih _ _ _ _ h1]; exact h
    | call rc x inh ov cont =>
      rw [evalM] at h
      rw [evalM]
      cases h1 : callSub proj rid tb rc x (calleeEnv inh ov e)
          (fun _ => evalM prog proj rid n tb (prog rc x) (calleeEnv inh ov e)) with
      | none => rw [h1] at h; cases h
      | some p =>
        rw [h1] at h
        rw [callSub_mono proj rid tb rc x _ _ (fun _ => evalM prog proj rid (n + 1) tb (prog rc x) (calleeEnv inh ov e))
          (fun v hv => ih _ _ _ _ hv) p h1]
        obtain ⟨res, t, tb2⟩ := p
        simp only at h ⊢
        cases h2 : evalM prog proj rid n tb2 (cont res) e with
        | none => rw [h2] at h; cases h
        | some q => rw [h2] at h; rw [ih _ _ _ _ h2]; exact h

theorem evalM_mono_le (prog : Prog K V X R) (proj : V → W) (rid : R → I) (n m : Nat) (hle : n ≤ m)
    (tb : Tbl K W X R I) (c : PComp K V X R) (e : Envf K V) (v : R × List K × Tbl K W X R I)
    (h : evalM prog proj rid n tb c e = some v) : evalM prog proj rid m tb c e = some v := by
  induction hle with
  | refl => exact h
  | step _ ih => exact evalM_mono prog proj rid _ tb c e v ih

/-- **completeness of the memoised evaluator**: whenever the evaluator without memo returns, the memoised one returns
the same result (given enough fuel), from any correct table -/
theorem evalM_complete (prog : Prog K V X R) (proj : V → W) (rid : R → I) (hproj : Function.Injective proj)
    (hrid : Function.Injective rid) :
    ∀ (m : Nat) (c : PComp K V X R) (e : Envf K V) (r : R) (t : List K) (tb : Tbl K W X R I),
      TblOK prog proj rid tb → evalU prog m c e = some (r, t) →
      ∃ n t' tb', evalM prog proj rid n tb c e = some (r, t', tb') := by
  intro m
  induction m with
  | zero => intro c e r t tb _ h; simp [evalU] at h
  | succ m ih =>
    intro c e r t tb htb h
    cases c with
    | ret r' =>
      simp only [evalU, Option.some.injEq, Prod.mk.injEq] at h
      exact ⟨1, [], tb, by simp [evalM, h.1]⟩
    | get k f =>
      rw [evalU] at h
      cases h1 : evalU prog m (f (e k)) e with
      | none => rw [h1] at h; cases h
      | some p =>
        rw [h1] at h
        obtain ⟨r1, t1⟩ := p
        simp only [Option.some.injEq, Prod.mk.injEq] at h
        obtain ⟨rfl, _⟩ := h
        obtain ⟨n, t', tb', hm⟩ := ih _ _ _ _ tb htb h1
        exact ⟨n + 1, k :: t', tb', by simp [evalM, hm]⟩
    | call rc x inh ov cont =>
      rw [evalU] at h
      cases h1 : evalU prog m (prog rc x) (calleeEnv inh ov e) with
      | none => rw [h1] at h; cases h
      | some p =>
        rw [h1] at h
        obtain ⟨res, t1⟩ := p
        simp only at h
        cases h2 : evalU prog m (cont res) e with
        | none => rw [h2] at h; cases h
        | some q =>
          rw [h2] at h
          obtain ⟨r2, t2⟩ := q
          simp only [Option.some.injEq, Prod.mk.injEq] at h
          obtain ⟨rfl, _⟩ := h
          -- the head of prepare returns `res` and a correct table, with some fuel n1 for the computation of a miss
          have hsub : ∃ n1 t1' tb2, callSub proj rid tb rc x (calleeEnv inh ov e)
              (fun _ => evalM prog proj rid n1 tb (prog rc x) (calleeEnv inh ov e)) = some (res, t1', tb2) ∧
              TblOK prog proj rid tb2 := by
            cases hf : findHit proj (tb.byMatch rc) (calleeEnv inh ov e) x with
            | some mt =>
              have hmem : mt ∈ tb.byMatch rc := List.mem_of_find?_eq_some hf
              have hmatch : mt.matches proj (calleeEnv inh ov e) x = true := by
                have := List.find?_some hf
                simpa using this
              have hx : mt.x = x := ((matches_iff proj mt _ x).1 hmatch).2
              obtain ⟨n0, t0, hu, _⟩ := htb.1 rc mt hmem (calleeEnv inh ov e) (by rw [hx]; exact hmatch)
              rw [hx] at hu
              have := evalU_det prog n0 m _ _ _ _ hu h1
              simp only [Prod.mk.injEq] at this
              refine ⟨0, mt.touchKeys, tb, ?_, htb⟩
              simp [callSub, hf, this.1]
            | none =>
              obtain ⟨n1, t1', tb1, hm1⟩ := ih _ _ _ _ tb htb h1
              obtain ⟨⟨m1, t1'', hu1, heq1⟩, hok1⟩ := evalM_sound prog proj rid hproj hrid n1 tb _ _ _ _ _ htb hm1
              have hmok : MatcherOK prog proj rc (Matcher.make proj (calleeEnv inh ov e) t1' x res) := by
                intro e2 hm2
                obtain ⟨hag, _⟩ := make_matches proj hproj _ e2 t1' x _ res hm2
                refine ⟨m1, t1'', ?_, fun k => ?_⟩
                · exact evalU_agree prog m1 _ _ e2 _ _ hu1 (fun k hk => hag k ((heq1 k).2 hk))
                · rw [make_touchKeys]; exact (heq1 k).symm
              obtain ⟨hr, hok2⟩ := remember_ok prog proj rid hrid tb1 hok1 rc (calleeEnv inh ov e) t1' x res hmok
              refine ⟨n1, t1', _, ?_, hok2⟩
              simp only [callSub, hf, hm1]
              rw [hr]
          obtain ⟨n1, t1', tb2, hs, hok2⟩ := hsub
          obtain ⟨n2, t2', tb3, hm2⟩ := ih _ _ _ _ tb2 hok2 h2
          refine ⟨max n1 n2 + 1, (if inh then t1' else []) ++ t2', tb3, ?_⟩
          rw [evalM]
          rw [callSub_mono proj rid tb rc x _ _
            (fun _ => evalM prog proj rid (max n1 n2) tb (prog rc x) (calleeEnv inh ov e))
            (fun v hv => evalM_mono_le prog proj rid n1 _ (Nat.le_max_left _ _) _ _ _ _ hv) _ hs]
          simp only
          rw [evalM_mono_le prog proj rid n2 _ (Nat.le_max_right _ _) _ _ _ _ hm2]

end Complete

end Memo

namespace Memo

theorem runCallsM_mono_le {K V W X R I : Type} [DecidableEq K] [DecidableEq W] [DecidableEq X] [DecidableEq I]
    (prog : Prog K V X R) (proj : V → W) (rid : R → I) (n m : Nat) (hle : n ≤ m) :
    ∀ (calls : List (Nat × X × Envf K V)) (tb : Tbl K W X R I) (v : List R × Tbl K W X R I),
      runCallsM prog proj rid n tb calls = some v → runCallsM prog proj rid m tb calls = some v := by
  intro calls
  induction calls with
  | nil => intro tb v h; simpa [runCallsM] using h
  | cons c rest ih =>
    intro tb v h
    obtain ⟨rc, x, e⟩ := c
    rw [runCallsM] at h ⊢
    cases h1 : evalM prog proj rid n tb (.call rc x true (fun _ => none) .ret) e with
    | none => rw [h1] at h; cases h
    | some p =>
      rw [h1] at h
      rw [evalM_mono_le prog proj rid n m hle _ _ _ _ h1]
      obtain ⟨r, t, tb1⟩ := p
      simp only at h ⊢
      cases h2 : runCallsM prog proj rid n tb1 rest with
      | none => rw [h2] at h; cases h
      | some q => rw [h2] at h; rw [ih _ _ h2]; exact h

end Memo
