import BobModel.Model.StringParser
/-
C17 helper lemmas about conditions: boolean strings, string-valued `IfExpr` operands.
-/
namespace C17
open StringParser

theorem isTrue_boolStr (b : Bool) : isTrue (boolStr b) = b := by
  cases b <;> decide

theorem isFalse_boolStr (b : Bool) : isFalse (boolStr b) = !b := by
  cases b <;> decide

/-- an operand that has a string value is a literal or a call, and its truth value is `isTrue` of
that string -/
theorem eval_of_evalStr (cfg : Cfg) (e : IfExpr) (a : Str) (h : e.evalStr cfg = .ok a) :
    e.eval cfg = .ok (isTrue a) := by
  cases e with
  | lit s sb => rw [IfExpr.eval, h]
  | call f args => rw [IfExpr.eval, h]
  | not e => simp [IfExpr.evalStr] at h
  | strOp op l r => simp [IfExpr.evalStr] at h
  | boolOp op l r => simp [IfExpr.evalStr] at h

theorem falsy_table : Consts.C17.falsy.map String.toList = [[], ['0'], ['f', 'a', 'l', 's', 'e']] := by
  decide

end C17
