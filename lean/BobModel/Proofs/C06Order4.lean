import BobModel.Proofs.C06Order3
/-
Ordering invariants of the scheduler model, part 4: the steps that enter a lock section, start / end a
script or record a run preserve `OnceInv`; `OnceInv` holds in every reachable configuration.
-/
namespace Sched
open JobSem

/-! ### what one more event does to the status of a workspace -/

section status
variable (P : Project) (p : Nat) (tr : List Ev) (t s : Nat)

theorem status_start_eq (hp : (P.info s).path = p) : statusOf P p .idle (tr ++ [Ev.start t s]) = .running := by
  simp [statusOf_append, statusOf, hp]
theorem status_start_ne (hp : (P.info s).path ≠ p) :
    statusOf P p .idle (tr ++ [Ev.start t s]) = statusOf P p .idle tr := by
  simp [statusOf_append, statusOf, hp]
theorem legal_start_eq (hp : (P.info s).path = p) :
    legalFrom P p .idle (tr ++ [Ev.start t s]) =
      (legalFrom P p .idle tr && (statusOf P p .idle tr == .idle || statusOf P p .idle tr == .failed)) := by
  simp [legalFrom_append, legalFrom, hp]
theorem legal_start_ne (hp : (P.info s).path ≠ p) :
    legalFrom P p .idle (tr ++ [Ev.start t s]) = legalFrom P p .idle tr := by
  simp [legalFrom_append, legalFrom, hp]
theorem status_fin_eq (ok : Bool) (hp : (P.info s).path = p) :
    statusOf P p .idle (tr ++ [Ev.fin t s ok]) = if ok then .ok else .failed := by
  simp [statusOf_append, statusOf, hp]
theorem status_fin_ne (ok : Bool) (hp : (P.info s).path ≠ p) :
    statusOf P p .idle (tr ++ [Ev.fin t s ok]) = statusOf P p .idle tr := by
  simp [statusOf_append, statusOf, hp]
theorem legal_fin_eq (ok : Bool) (hp : (P.info s).path = p) :
    legalFrom P p .idle (tr ++ [Ev.fin t s ok]) = (legalFrom P p .idle tr && (statusOf P p .idle tr == .running)) := by
  simp [legalFrom_append, legalFrom, hp]
theorem legal_fin_ne (ok : Bool) (hp : (P.info s).path ≠ p) :
    legalFrom P p .idle (tr ++ [Ev.fin t s ok]) = legalFrom P p .idle tr := by
  simp [legalFrom_append, legalFrom, hp]
end status

theorem RanAt_insert_ne {wr : WasRun} {p q : Nat} (v : Nat × Bool) (h : q ≠ p) :
    RanAt (Sched.insert p v wr) q ↔ RanAt wr q := by
  unfold RanAt
  rw [lookup_insert_ne _ _ _ _ h]

theorem rest_no_runWait {P : Project} {st : St} (hl : LockInv P st) {t : Nat} {op : Op} {rest : List Op}
    (hops : (st.task t).ops = op :: rest) (s : Nat) (r : Option Bool) : Op.runWait s r ∉ rest := by
  have hnw := hl.nowait _ (task_mem (task_lt hops))
  rw [hops] at hnw
  simp only [List.tail_cons] at hnw
  intro hm
  have := (List.all_eq_true.mp hnw) _ hm
  simp [Op.isWait] at this

/-! ### entering the lock -/

theorem OnceInv.afterLockStep {P : Project} {st g : St} {t : Nat} {op : Op} {rest : List Op} {s : Nat} {co dl : Bool}
    (hi : OnceInv P st) (hl : LockInv P st) (hops : (st.task t).ops = op :: rest)
    (hop : op = .lock s co dl ∨ op = .lockWait s co dl)
    (hg : g.tasks = st.tasks) (hwr : g.wasRun = st.wasRun) (htr : g.trace = st.trace) :
    OnceInv P (g.setTask t (afterLock P (st.task t) s co dl rest)) := by
  have hSr := secShape_tail (by rw [← hops]; exact hi.shape t : secShape P (op :: rest) = true)
  have hval : (P.info s).valid = true :=
    hi.valid t op (by rw [hops]; simp) s (by rcases hop with e | e <;> subst e <;> rfl)
  refine hi.quietStep hl hops (GrowT.same hg) _ hwr ⟨[], by simp [htr], by simp⟩ ?_ ?_ ?_ ?_
  · intro s' r e; subst e; rcases hop with e | e <;> cases e
  · intro s' sk e; subst e; rcases hop with e | e <;> cases e
  · intro o ho
    simp only [afterLock, List.mem_cons] at ho
    rcases ho with e | e | e
    · right
      subst e
      cases dl <;> simp [Op.relStep, hval]
    · right
      subst e
      simp [Op.relStep]
    · exact Or.inl e
  · cases dl <;> simp [afterLock, secShape, hSr]

theorem OnceInv.lockStep {P : Project} {cfg : Cfg} {st st' : St} {t s : Nat} {co dl : Bool} {rest : List Op}
    (hi : OnceInv P st) (hl : LockInv P st) (hops : (st.task t).ops = .lock s co dl :: rest)
    (h : stepTask P cfg st t = some st') : OnceInv P st' := by
  unfold Sched.stepTask at h
  simp only at h
  rw [hops] at h
  simp only at h
  split at h <;> cases h
  · exact hi.afterLockStep hl hops (Or.inl rfl) rfl rfl rfl
  · have hSr := secShape_tail (by rw [← hops]; exact hi.shape t : secShape P (_ :: rest) = true)
    have hval : (P.info s).valid = true := hi.valid t (.lock s co dl) (by rw [hops]; simp) s rfl
    refine hi.quietStep (g := { st with locks := insert (P.info s).path _ st.locks }) hl hops (GrowT.same rfl) _ rfl
      ⟨[], by simp, by simp⟩ (by simp) (by simp) ?_ ?_
    · intro o ho
      simp only [List.mem_cons] at ho
      rcases ho with e | e
      · right; subst e; simp [Op.relStep, hval]
      · exact Or.inl e
    · simpa [secShape] using hSr

theorem OnceInv.lockWaitStep {P : Project} {cfg : Cfg} {st st' : St} {t s : Nat} {co dl : Bool} {rest : List Op}
    (hi : OnceInv P st) (hl : LockInv P st) (hops : (st.task t).ops = .lockWait s co dl :: rest)
    (h : stepTask P cfg st t = some st') : OnceInv P st' := by
  unfold Sched.stepTask at h
  simp only at h
  rw [hops] at h
  simp only at h
  split at h <;> cases h
  exact hi.afterLockStep hl hops (Or.inr rfl) rfl rfl rfl

/-! ### the check under the lock -/

theorem OnceInv.underLockStep {P : Project} {cfg : Cfg} {st st' : St} {t s : Nat} {co : Bool} {rest : List Op}
    (hpv : PathVid P) (hi : OnceInv P st) (hl : LockInv P st) (hops : (st.task t).ops = .underLock s co :: rest)
    (h : stepTask P cfg st t = some st') : OnceInv P st' := by
  have hshape := hi.shape t
  rw [hops] at hshape
  have hSr := secShape_tail hshape
  have hval : (P.info s).valid = true := hi.valid t (.underLock s co) (by rw [hops]; simp) s rfl
  obtain ⟨hw, hran⟩ := wasAlreadyRun_spec hpv hi.wv s co
  unfold Sched.stepTask at h
  simp only at h
  rw [hops] at h
  simp only at h
  split at h <;> cases h
  · refine hi.quietStep (g := { st with wasRun := (wasAlreadyRun P st.wasRun s co).2 }) hl hops (GrowT.same rfl) _ hw
      ⟨[], by simp, by simp⟩ (by simp) (by simp) ?_ hSr
    intro o ho; exact Or.inl ho
  · rename_i hnr
    have hnot : ¬ RanAt st.wasRun (P.info s).path := by
      intro hc
      exact hnr (hran.mpr (RanAt_WasOk hpv hi.wv co hc))
    obtain ⟨r', hr'⟩ : ∃ r', rest = .unlock (P.info s).path :: r' := by
      cases rest with
      | nil => simp [secShape] at hshape
      | cons a r' =>
        simp only [secShape, List.head?_cons, Bool.and_eq_true, beq_iff_eq, Option.some.injEq] at hshape
        exact ⟨r', by rw [hshape.1]⟩
    subst hr'
    refine hi.quietStep (g := { st with wasRun := (wasAlreadyRun P st.wasRun s co).2 }) hl hops (GrowT.same rfl) _ hw
      ⟨[], by simp, by simp⟩ (by simp) (by simp) ?_ ?_
    · intro o ho
      simp only [List.mem_append] at ho
      rcases ho with ho | ho
      · right
        generalize (P.info s).kind = k at ho
        cases k <;> cases co <;> simp at ho <;> (try rcases ho with e | e | e) <;> (try rcases ho with e | e) <;>
          (try subst e) <;> (try subst ho) <;> simp [Op.relStep, hval, hnot]
      · exact Or.inl ho
    · generalize (P.info s).kind = k
      cases k <;> cases co <;> simp [secShape] <;> simpa [secShape] using hSr

end Sched
