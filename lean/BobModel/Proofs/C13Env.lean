import BobModel.Proofs.C13Eval
/-
Helper lemmas for C13: the environment after the export block, independent of the sort order.
-/
namespace ShellEnv

theorem lookup_append (a b : Env) (k : Str) : lookup (a ++ b) k = (lookup a k).or (lookup b k) := by
  induction a with
  | nil => simp [lookup]
  | cons x r ih =>
    obtain ⟨k', v⟩ := x
    by_cases h : k' = k <;> simp [lookup, h, ih]

theorem lookup_none_iff (e : Env) (k : Str) : lookup e k = none ↔ k ∉ keys e := by
  induction e with
  | nil => simp [lookup, keys]
  | cons x r ih =>
    obtain ⟨k', v⟩ := x
    by_cases h : k' = k
    · simp [lookup, keys, h]
    · simp only [lookup, h, if_false, keys, List.map_cons, List.mem_cons, not_or] at *
      rw [ih]
      constructor
      · intro h'; exact ⟨fun e => h e.symm, h'⟩
      · intro h'; exact h'.2

theorem lookup_of_mem (e : Env) (k v : Str) (hn : (keys e).Nodup) (hm : (k, v) ∈ e) : lookup e k = some v := by
  induction e with
  | nil => simp at hm
  | cons x r ih =>
    obtain ⟨k', v'⟩ := x
    simp only [keys, List.map_cons, List.nodup_cons] at hn
    simp only [List.mem_cons, Prod.mk.injEq] at hm
    rcases hm with ⟨h1, h2⟩ | hm
    · subst h1 h2; simp [lookup]
    · have : k' ≠ k := by
        intro e; subst e
        exact hn.1 (List.mem_map.mpr ⟨(k', v), hm, rfl⟩)
      simp only [lookup, this, if_false]
      exact ih hn.2 hm

theorem mem_of_lookup (e : Env) (k v : Str) (h : lookup e k = some v) : (k, v) ∈ e := by
  induction e with
  | nil => simp [lookup] at h
  | cons x r ih =>
    obtain ⟨k', v'⟩ := x
    by_cases hk : k' = k
    · simp only [lookup, hk, if_true, Option.some.injEq] at h
      simp [hk, h]
    · simp only [lookup, hk, if_false] at h
      simp [ih h]

theorem lookup_filter (e : Env) (p : Str → Bool) (k : Str) :
    lookup (e.filter fun kv => p kv.1) k = if p k then lookup e k else none := by
  induction e with
  | nil => simp [lookup]
  | cons x r ih =>
    obtain ⟨k', v⟩ := x
    by_cases hp : p k' = true
    · by_cases hk : k' = k
      · subst hk; simp [List.filter, hp, lookup]
      · simp [List.filter, hp, lookup, hk, ih]
    · by_cases hk : k' = k
      · subst hk
        simp only [Bool.not_eq_true] at hp
        simp [List.filter, hp, lookup, ih]
      · simp only [Bool.not_eq_true] at hp
        simp [List.filter, hp, lookup, hk, ih]

/-- the environment after a sequence of `export` commands -/
def exportsEnv (E : Env) (xs : List Export) : Env := xs.foldl (fun E x => (x.name, x.value E) :: E) E

theorem foldl_export_cmds (xs : List Export) (sh : Sh) :
    (xs.map Cmd.export).foldl Cmd.eval sh = { sh with env := exportsEnv sh.env xs } := by
  induction xs generalizing sh with
  | nil => simp [exportsEnv]
  | cons x xs ih => simp [List.foldl, ih, Cmd.eval, exportsEnv]

theorem exportsEnv_notin (xs : List Export) (E : Env) (k : Str) (h : ∀ x ∈ xs, x.name ≠ k) :
    lookup (exportsEnv E xs) k = lookup E k := by
  induction xs generalizing E with
  | nil => simp [exportsEnv]
  | cons x xs ih =>
    have hx : x.name ≠ k := h x (by simp)
    have := ih ((x.name, x.value E) :: E) (fun y hy => h y (by simp [hy]))
    simp only [exportsEnv, List.foldl] at this ⊢
    rw [this]
    simp [lookup, hx]

theorem value_congr (x : Export) (E E' : Env)
    (h : x.withPath = true → lookup E' Consts.C13.varPath = lookup E Consts.C13.varPath) :
    x.value E' = x.value E := by
  unfold Export.value
  cases hw : x.withPath with
  | false => simp
  | true => simp [h hw]

theorem exportsEnv_mem (xs : List Export) (E : Env) (x : Export)
    (hn : (xs.map Export.name).Nodup) (hm : x ∈ xs)
    (hp : ∀ y ∈ xs, y.withPath = true → y.name = Consts.C13.varPath) :
    lookup (exportsEnv E xs) x.name = some (x.value E) := by
  induction xs generalizing E with
  | nil => simp at hm
  | cons y ys ih =>
    simp only [List.map_cons, List.nodup_cons] at hn
    simp only [List.mem_cons] at hm
    simp only [exportsEnv, List.foldl]
    rcases hm with h | h
    · subst h
      have hnot : ∀ z ∈ ys, z.name ≠ x.name := by
        intro z hz e
        exact hn.1 (List.mem_map.mpr ⟨z, hz, e⟩)
      have := exportsEnv_notin ys ((x.name, x.value E) :: E) x.name hnot
      simp only [exportsEnv] at this
      rw [this]
      simp [lookup]
    · have hne : y.name ≠ x.name := by
        intro e
        exact hn.1 (List.mem_map.mpr ⟨x, h, e.symm⟩)
      have := ih ((y.name, y.value E) :: E) hn.2 h (fun z hz => hp z (by simp [hz]))
      simp only [exportsEnv] at this
      rw [this]
      congr 1
      apply value_congr
      intro hw
      have : x.name = Consts.C13.varPath := hp x (by simp [h]) hw
      simp [lookup, ← this, hne]

theorem foldl_eval_env (cs : List Cmd) (sh : Sh) (h : ∀ c ∈ cs, ∀ e, c ≠ .export e) :
    (cs.foldl Cmd.eval sh).env = sh.env := by
  induction cs generalizing sh with
  | nil => rfl
  | cons c cs ih =>
    simp only [List.foldl]
    rw [ih _ (fun d hd => h d (by simp [hd]))]
    cases c with
    | «export» e => exact absurd rfl (h _ (by simp) e)
    | _ => rfl

end ShellEnv
