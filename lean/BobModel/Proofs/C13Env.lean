import BobModel.Proofs.C13Eval
/-
Helper lemmas for C13: the environment after the export block, independent of the sort order.
-/
namespace ShellEnv

theorem lookup_append (a b : Env) (k : Str) : lookup (a ++ b) k = (lookup a k).or (lookup b k) := by
  induction a with
  | nil => simp [lookup]
  | cons x r ih =>
    obtain ⟨k', v⟩ := x
    by_cases h : k' = k <;> simp [lookup, h, ih]

theorem lookup_none_iff (e : Env) (k : Str) : lookup e k = none ↔ k ∉ keys e := by
  induction e with
  | nil => simp [lookup, keys]
  | cons x r ih =>
    obtain ⟨k', v⟩ := x
    by_cases h : k' = k
    · simp [lookup, keys, h]
    · have hk : ¬ k = k' := fun e => h e.symm
      simp only [lookup, h, if_false, keys, List.map_cons, List.mem_cons, not_or, hk, not_false_eq_true, true_and]
      simpa [keys] using ih

theorem lookup_of_mem (e : Env) (k v : Str) (hn : (keys e).Nodup) (hm : (k, v) ∈ e) : lookup e k = some v := by
  induction e with
  | nil => simp at hm
  | cons x r ih =>
    obtain ⟨k', v'⟩ := x
    simp only [keys, List.map_cons, List.nodup_cons] at hn
    simp only [List.mem_cons, Prod.mk.injEq] at hm
    rcases hm with ⟨h1, h2⟩ | hm
    · subst h1 h2; simp [lookup]
    · have : k' ≠ k := by
        intro e; subst e
        exact hn.1 (List.mem_map.mpr ⟨(k', v), hm, rfl⟩)
      simp only [lookup, this, if_false]
      exact ih hn.2 hm

theorem mem_of_lookup (e : Env) (k v : Str) (h : lookup e k = some v) : (k, v) ∈ e := by
  induction e with
  | nil => simp [lookup] at h
  | cons x r ih =>
    obtain ⟨k', v'⟩ := x
    by_cases hk : k' = k
    · simp only [lookup, hk, if_true, Option.some.injEq] at h
      simp [hk, h]
    · simp only [lookup, hk, if_false] at h
      simp [ih h]

theorem lookup_filter (e : Env) (p : Str → Bool) (k : Str) :
    lookup (e.filter fun kv => p kv.1) k = if p k then lookup e k else none := by
  induction e with
  | nil => simp [lookup]
  | cons x r ih =>
    obtain ⟨k', v⟩ := x
    by_cases hp : p k' = true
    · by_cases hk : k' = k
      · subst hk; simp [List.filter, hp, lookup]
      · simp [List.filter, hp, lookup, hk, ih]
    · by_cases hk : k' = k
      · subst hk
        simp only [Bool.not_eq_true] at hp
        simp [List.filter, hp, ih]
      · simp only [Bool.not_eq_true] at hp
        simp [List.filter, hp, lookup, hk, ih]

/-- the environment after a sequence of `export` commands -/
def exportsEnv (E : Env) (xs : List Export) : Env := xs.foldl (fun E x => (x.name, x.value E) :: E) E

theorem foldl_export_cmds (xs : List Export) (sh : Sh) :
    (xs.map Cmd.export).foldl Cmd.eval sh = { sh with env := exportsEnv sh.env xs } := by
  induction xs generalizing sh with
  | nil => simp [exportsEnv]
  | cons x xs ih => simp [List.foldl, ih, Cmd.eval, exportsEnv]

theorem exportsEnv_notin (xs : List Export) (E : Env) (k : Str) (h : ∀ x ∈ xs, x.name ≠ k) :
    lookup (exportsEnv E xs) k = lookup E k := by
  induction xs generalizing E with
  | nil => simp [exportsEnv]
  | cons x xs ih =>
    have hx : x.name ≠ k := h x (by simp)
    have := ih ((x.name, x.value E) :: E) (fun y hy => h y (by simp [hy]))
    simp only [exportsEnv, List.foldl] at this ⊢
    rw [this]
    simp [lookup, hx]

theorem value_congr (x : Export) (E E' : Env)
    (h : x.withPath = true → lookup E' Consts.C13.varPath = lookup E Consts.C13.varPath) :
    x.value E' = x.value E := by
  unfold Export.value
  cases hw : x.withPath with
  | false => simp
  | true => simp [h hw]

theorem exportsEnv_mem (xs : List Export) (E : Env) (x : Export)
    (hn : (xs.map Export.name).Nodup) (hm : x ∈ xs)
    (hp : ∀ y ∈ xs, y.withPath = true → y.name = Consts.C13.varPath) :
    lookup (exportsEnv E xs) x.name = some (x.value E) := by
  induction xs generalizing E with
  | nil => simp at hm
  | cons y ys ih =>
    simp only [List.map_cons, List.nodup_cons] at hn
    simp only [List.mem_cons] at hm
    simp only [exportsEnv, List.foldl]
    rcases hm with h | h
    · subst h
      have hnot : ∀ z ∈ ys, z.name ≠ x.name := by
        intro z hz e
        exact hn.1 (List.mem_map.mpr ⟨z, hz, e⟩)
      have := exportsEnv_notin ys ((x.name, x.value E) :: E) x.name hnot
      simp only [exportsEnv] at this
      rw [this]
      simp [lookup]
    · have hne : y.name ≠ x.name := by
        intro e
        exact hn.1 (List.mem_map.mpr ⟨x, h, e.symm⟩)
      have := ih ((y.name, y.value E) :: E) hn.2 h (fun z hz => hp z (by simp [hz]))
      simp only [exportsEnv] at this
      rw [this]
      congr 1
      apply value_congr
      intro hw
      have : x.name = Consts.C13.varPath := hp x (by simp [h]) hw
      simp [lookup, ← this, hne]

theorem foldl_eval_env (cs : List Cmd) (sh : Sh) (h : ∀ c ∈ cs, ∀ e, c ≠ .export e) :
    (cs.foldl Cmd.eval sh).env = sh.env := by
  induction cs generalizing sh with
  | nil => rfl
  | cons c cs ih =>
    simp only [List.foldl]
    rw [ih _ (fun d hd => h d (by simp [hd]))]
    cases c with
    | «export» e => exact absurd rfl (h _ (by simp) e)
    | _ => rfl

/-! ### the prolog is inside the evaluated fragment -/

theorem lineOk_wf {t : Str} (h : lineOk t = true) : (Cmd.line t).WF := by
  simp only [lineOk, Bool.and_eq_true, Bool.or_eq_true, Bool.not_eq_true', List.contains_eq_mem,
    decide_eq_false_iff_not] at h
  refine ⟨?_, h.2⟩
  cases t with
  | nil => exact Or.inl rfl
  | cons c r =>
    right
    have : c = '#' := by simpa [headIs] using h.1
    exact ⟨r, by rw [this]⟩

theorem const_lines_ok :
    Consts.C13.prologHeader.all lineOk = true ∧ lineOk Consts.C13.prologArraysComment = true ∧
    lineOk Consts.C13.prologEnvComment = true ∧ lineOk [] = true := by decide

theorem const_names_ident :
    isIdent Consts.C13.arrayAll = true ∧ isIdent Consts.C13.arrayDep = true ∧ isIdent Consts.C13.arrayTool = true ∧
    isIdent Consts.C13.varPath = true ∧ isIdent Consts.C13.varLdLibraryPath = true ∧
    isIdent Consts.C13.varBobCwd = true := by decide

theorem const_names_distinct :
    Consts.C13.varPath ≠ Consts.C13.varLdLibraryPath ∧ Consts.C13.varPath ≠ Consts.C13.varBobCwd ∧
    Consts.C13.varLdLibraryPath ≠ Consts.C13.varBobCwd := by decide

theorem mem_sortElems {e : Str × Str} {es : List (Str × Str)} : e ∈ sortElems es ↔ e ∈ es :=
  (List.mergeSort_perm es _).mem_iff

theorem mem_sortExports {e : Export} {xs : List Export} : e ∈ sortExports xs ↔ e ∈ xs :=
  (List.mergeSort_perm xs _).mem_iff

theorem sortExports_perm (xs : List Export) : (sortExports xs).Perm xs := List.mergeSort_perm xs _

theorem arrayCmds_wf (abs : Str → Str) (s : Spec) (h : Spec.WF abs s) : ∀ c ∈ arrayCmds abs s, c.WF := by
  have hn := h.names
  have key : ∀ (ps : List (Str × Str)), (∀ np ∈ ps, np ∈ s.allPaths ++ s.depPaths ++ s.toolPaths) →
      ∀ kv ∈ sortElems (absPairs abs ps), kv.1 ≠ [] ∧ NoNul kv.1 ∧ NoNul kv.2 := by
    intro ps hps kv hkv
    rw [mem_sortElems] at hkv
    simp only [absPairs, List.mem_map] at hkv
    obtain ⟨np, hnp, rfl⟩ := hkv
    exact hn np (hps np hnp)
  intro c hc
  simp only [arrayCmds, List.mem_cons, List.mem_nil_iff, or_false] at hc
  rcases hc with rfl | rfl | rfl
  · exact ⟨const_names_ident.1, key _ (fun np h => by simp [h])⟩
  · exact ⟨const_names_ident.2.1, key _ (fun np h => by simp [h])⟩
  · exact ⟨const_names_ident.2.2.1, key _ (fun np h => by simp [h])⟩

theorem exportEntries_wf (abs : Str → Str) (s : Spec) (h : Spec.WF abs s) :
    ∀ e ∈ exportEntries abs s, (Cmd.export e).WF := by
  intro e he
  simp only [exportEntries, bobExports, List.mem_append, List.mem_cons, List.mem_nil_iff, or_false, List.mem_map,
    List.mem_filter] at he
  rcases he with (rfl | rfl | rfl) | ⟨kv, ⟨hkv, _⟩, rfl⟩
  · exact ⟨const_names_ident.2.2.2.1, fun p hp => by
      obtain ⟨q, hq, rfl⟩ := List.mem_map.mp hp; exact h.paths q hq⟩
  · exact ⟨const_names_ident.2.2.2.2.1, fun p hp => by
      obtain ⟨q, hq, rfl⟩ := List.mem_map.mp hp; exact h.libs q hq⟩
  · exact ⟨const_names_ident.2.2.2.2.2, fun p hp => by
      have : p = abs s.cwd := by simpa using hp
      rw [this]; exact h.cwd⟩
  · exact ⟨(h.envIdent kv hkv).1, fun p hp => by
      have : p = kv.2 := by simpa using hp
      rw [this]; exact (h.envIdent kv hkv).2⟩

theorem prologCmds_wf (abs : Str → Str) (s : Spec) (h : Spec.WF abs s) : ∀ c ∈ prologCmds abs s false, c.WF := by
  intro c hc
  simp only [prologCmds, prologHead, Bool.false_eq_true, if_false, List.append_nil, List.mem_append, List.mem_map,
    List.mem_cons, List.mem_nil_iff, or_false] at hc
  rcases hc with (((⟨t, ht, rfl⟩ | rfl) | hc) | (rfl | rfl)) | ⟨e, he, rfl⟩
  · exact lineOk_wf (List.all_eq_true.mp const_lines_ok.1 t ht)
  · exact lineOk_wf const_lines_ok.2.1
  · exact arrayCmds_wf abs s h c hc
  · exact lineOk_wf const_lines_ok.2.2.2
  · exact lineOk_wf const_lines_ok.2.2.1
  · exact exportEntries_wf abs s h e (mem_sortExports.mp he)

theorem prologHead_noexport (abs : Str → Str) (s : Spec) : ∀ c ∈ prologHead abs s false, ∀ e, c ≠ .export e := by
  intro c hc e
  simp only [prologHead, arrayCmds, Bool.false_eq_true, if_false, List.append_nil, List.mem_append, List.mem_map,
    List.mem_cons, List.mem_nil_iff, or_false] at hc
  rcases hc with (((⟨t, _, rfl⟩ | rfl) | (rfl | rfl | rfl)) | (rfl | rfl)) <;> simp

theorem prolog_fold_env (abs : Str → Str) (s : Spec) (sh : Sh) :
    ((prologCmds abs s false).foldl Cmd.eval sh).env = exportsEnv sh.env (sortExports (exportEntries abs s)) := by
  simp only [prologCmds, List.foldl_append, foldl_export_cmds]
  rw [foldl_eval_env _ _ (prologHead_noexport abs s)]

/-! ### the entries of the export block -/

theorem exportEntries_names (abs : Str → Str) (s : Spec) :
    (exportEntries abs s).map Export.name =
      [Consts.C13.varPath, Consts.C13.varLdLibraryPath, Consts.C13.varBobCwd] ++
        keys (s.env.filter fun kv => !isBobVar kv.1) := by
  simp [exportEntries, bobExports, keys, List.map_map, Function.comp_def]

theorem filter_keys_nodup (e : Env) (p : Str × Str → Bool) (h : (keys e).Nodup) : (keys (e.filter p)).Nodup := by
  induction e with
  | nil => simp [keys]
  | cons x r ih =>
    simp only [keys, List.map_cons, List.nodup_cons] at h
    by_cases hp : p x = true
    · simp only [List.filter, hp, keys, List.map_cons, List.nodup_cons]
      refine ⟨?_, ih h.2⟩
      intro hm
      obtain ⟨y, hy, e⟩ := List.mem_map.mp hm
      exact h.1 (List.mem_map.mpr ⟨y, (List.mem_filter.mp hy).1, e⟩)
    · simp only [Bool.not_eq_true] at hp
      simp only [List.filter, hp]
      exact ih h.2

theorem exportEntries_nodup (abs : Str → Str) (s : Spec) (h : (keys s.env).Nodup) :
    ((exportEntries abs s).map Export.name).Nodup := by
  rw [exportEntries_names, List.nodup_append]
  refine ⟨?_, filter_keys_nodup _ _ h, ?_⟩
  · have := const_names_distinct
    simp [this.1, this.2.1, this.2.2]
  · intro a ha b hb e
    subst e
    obtain ⟨kv, hkv, rfl⟩ := List.mem_map.mp hb
    have hnb := (List.mem_filter.mp hkv).2
    simp only [List.mem_cons, List.mem_nil_iff, or_false] at ha
    simp only [isBobVar, Bool.not_eq_true', Bool.or_eq_false_iff, decide_eq_false_iff_not] at hnb
    rcases ha with ha | ha | ha
    · exact hnb.1.1 ha
    · exact hnb.1.2 ha
    · exact hnb.2 ha

theorem sortExports_nodup (abs : Str → Str) (s : Spec) (h : (keys s.env).Nodup) :
    ((sortExports (exportEntries abs s)).map Export.name).Nodup :=
  (((List.mergeSort_perm (exportEntries abs s) _).map Export.name).nodup_iff).mpr (exportEntries_nodup abs s h)

theorem exportEntries_withPath (abs : Str → Str) (s : Spec) :
    ∀ y ∈ sortExports (exportEntries abs s), y.withPath = true → y.name = Consts.C13.varPath := by
  intro y hy hw
  rw [mem_sortExports] at hy
  simp only [exportEntries, bobExports, List.mem_append, List.mem_cons, List.mem_nil_iff, or_false, List.mem_map] at hy
  rcases hy with (rfl | rfl | rfl) | ⟨kv, _, rfl⟩ <;> simp_all

/-! ### lemmas used directly by the statements in Props/C13.lean -/

theorem lookup_stepEnvOf (full : Env) (strong weak : List Str) (k : Str) :
    lookup (stepEnvOf full strong weak) k = if k ∈ strong ∨ k ∈ weak then lookup full k else none := by
  unfold stepEnvOf prune
  split
  · rename_i h
    have : weak = [] := by simpa using h
    subst this
    rw [lookup_filter full (fun k => strong.contains k) k]
    simp
  · rw [lookup_filter full (fun k => (strong ++ weak).contains k) k]
    simp

theorem lookup_hostFilter (preserve : Bool) (wl : List Str) (host : Env) (k : Str) :
    lookup (hostFilter preserve wl host) k = if preserve = true ∨ k ∈ wl then lookup host k else none := by
  unfold hostFilter
  cases preserve with
  | true => simp
  | false =>
    simp only [Bool.false_eq_true, if_false, false_or]
    rw [lookup_filter host (fun k => wl.contains k) k]
    simp

/-- `p` is one of the `:`-separated components of `v` -/
def IsComponent (p v : Str) : Prop :=
  ∃ pre post, v = pre ++ p ++ post ∧ (pre = [] ∨ ∃ q, pre = q ++ [':']) ∧ (post = [] ∨ ∃ q, post = ':' :: q)

theorem isComponent_join : ∀ (l : List Str) (x : Str), x ∈ l → IsComponent x (joinWith [':'] l)
  | [], _, h => by simp at h
  | [y], x, h => by
    have : x = y := by simpa using h
    subst this
    exact ⟨[], [], by simp [joinWith], Or.inl rfl, Or.inl rfl⟩
  | y :: z :: r, x, h => by
    rcases List.mem_cons.mp h with rfl | h
    · exact ⟨[], ':' :: joinWith [':'] (z :: r), by simp [joinWith], Or.inl rfl, Or.inr ⟨_, rfl⟩⟩
    · obtain ⟨pre, post, e, _, hpost⟩ := isComponent_join (z :: r) x h
      refine ⟨y ++ ':' :: pre, post, by simp [joinWith, e], Or.inr ?_, hpost⟩
      rcases ‹pre = [] ∨ ∃ q, pre = q ++ [':']› with rfl | ⟨q, rfl⟩
      · exact ⟨y, by simp⟩
      · exact ⟨y ++ ':' :: q, by simp⟩

theorem setO_ok : ∀ t ∈ Consts.C13.fingerprintSetO, (stripPrefix kwSetO t).isSome = true ∧ t.contains '\n' = false := by
  decide

theorem stripPrefix_some : ∀ (p t r : Str), stripPrefix p t = some r → t = p ++ r
  | [], t, r, h => by simp [stripPrefix] at h; simp [h]
  | _ :: _, [], r, h => by simp [stripPrefix] at h
  | a :: p, c :: t, r, h => by
    simp only [stripPrefix] at h
    split at h
    · rename_i hac
      rw [hac, stripPrefix_some p t r h]; rfl
    · exact absurd h (by simp)


end ShellEnv
