import BobModel.Proofs.C01Truthful
/-
The depth-first driver (`_cook`, `_cookStep`, `_getBuildId`) preserves `Truthful` at every cut:
structural induction over the step tree.
-/
namespace Builder

variable {E : Env} {dev : Bool} {Γ : Path → List (Dir × Digest)}

/-! ## frames -/

/-- only the paths in `S` may differ between `st` and `st'` -/
def Touch (S : List Path) (st st' : St) : Prop :=
  ∀ q, q ∉ S → st'.results q = st.results q ∧ st'.inputs q = st.inputs q ∧ st'.dirStates q = st.dirStates q
    ∧ st'.disk q = st.disk q ∧ st'.variantIds q = st.variantIds q

theorem Touch.refl (S : List Path) (st : St) : Touch S st st := fun _ _ => ⟨rfl, rfl, rfl, rfl, rfl⟩

theorem Touch.trans {S : List Path} {a b c : St} (h1 : Touch S a b) (h2 : Touch S b c) : Touch S a c := by
  intro q hq
  obtain ⟨a1, a2, a3, a4, a5⟩ := h1 q hq
  obtain ⟨b1, b2, b3, b4, b5⟩ := h2 q hq
  exact ⟨b1.trans a1, b2.trans a2, b3.trans a3, b4.trans a4, b5.trans a5⟩

theorem Touch.mono {S S' : List Path} {a b : St} (hs : ∀ q, q ∈ S → q ∈ S') (h : Touch S a b) : Touch S' a b :=
  fun q hq => h q (fun hm => hq (hs q hm))

theorem touch_of_agree {p : Path} {S : List Path} {a b : St} (hp : p ∈ S) (h : AgreeOff p a b) : Touch S a b :=
  fun q hq => h q (fun he => hq (he ▸ hp))

def paths (t : Step) : List Path := (subtrees t).map Step.path
def pathsL (ds : List Step) : List Path := (subtreesL ds).map Step.path

theorem paths_mk (i : Info) (pre ds : List Step) :
    paths (.mk i pre ds) = i.path :: (pathsL pre ++ pathsL ds) := by
  simp [paths, pathsL, subtrees, Step.path, Step.info]

theorem pathsL_cons (d : Step) (ds : List Step) : pathsL (d :: ds) = paths d ++ pathsL ds := by
  simp [paths, pathsL, subtreesL]

theorem self_mem_subtrees (t : Step) : t ∈ subtrees t := by
  cases t with
  | mk i pre ds => simp [subtrees]

theorem mem_subtreesL {d : Step} {ds : List Step} (h : d ∈ ds) : d ∈ subtreesL ds := by
  induction ds with
  | nil => cases h
  | cons x xs ih =>
    simp only [subtreesL, List.mem_append]
    rcases List.mem_cons.mp h with h | h
    · left; rw [h]; exact self_mem_subtrees _
    · right; exact ih h

theorem path_mem_pathsL {d : Step} {ds : List Step} (h : d ∈ ds) : d.path ∈ pathsL ds :=
  List.mem_map.mpr ⟨d, mem_subtreesL h, rfl⟩

/-! ## well-formedness needed by the invariant -/

/-- local conditions of one step -/
structure StepWF (Γ : Path → List (Dir × Digest)) (t : Step) : Prop where
  co : t.kind = .checkout → CoWF Γ t.info t.deps
  /-- a workspace is not shared with one of the step's own dependencies -/
  acyc : t.path ∉ pathsL t.deps

def AllWF (Γ : Path → List (Dir × Digest)) (t : Step) : Prop := ∀ u ∈ subtrees t, StepWF Γ u
def AllWFL (Γ : Path → List (Dir × Digest)) (ds : List Step) : Prop := ∀ u ∈ subtreesL ds, StepWF Γ u

theorem allWF_mk {i : Info} {pre ds : List Step} (h : AllWF Γ (.mk i pre ds)) :
    StepWF Γ (.mk i pre ds) ∧ AllWFL Γ pre ∧ AllWFL Γ ds := by
  refine ⟨h _ (self_mem_subtrees _), ?_, ?_⟩
  · intro u hu; exact h u (by simp [subtrees, hu])
  · intro u hu; exact h u (by simp [subtrees, hu])

theorem allWFL_cons {d : Step} {ds : List Step} (h : AllWFL Γ (d :: ds)) : AllWF Γ d ∧ AllWFL Γ ds := by
  constructor
  · intro u hu; exact h u (by simp [subtreesL, hu])
  · intro u hu; exact h u (by simp [subtreesL, hu])

/-! ## bookkeeping operations do not touch the state -/

theorem wp_wasAlreadyRun (t : Step) (so : Bool) (Q : Bool → Run → Prop) (A : Run → Prop) (r : Run)
    (h : ∀ b m, Q b { r with mem := m }) : wp (wasAlreadyRun t so) Q A r := by
  unfold wasAlreadyRun
  simp only [wp_bind, wp_getMem]
  cases hw : r.mem.wasRun t.path with
  | none => simp only [wp_pure]; exact h false r.mem
  | some x =>
    obtain ⟨v, c⟩ := x
    simp only []
    split
    · simp only [wp_bind, wp_setMem, wp_pure]; exact h _ _
    · split
      · simp only [wp_pure]; exact h false r.mem
      · simp only [wp_pure]; exact h true r.mem

theorem wp_setAlreadyRun (t : Step) (c s : Bool) (Q : Unit → Run → Prop) (A : Run → Prop) (r : Run)
    (h : ∀ m, Q () { r with mem := m }) : wp (setAlreadyRun t c s) Q A r := by
  unfold setAlreadyRun
  simp only [wp_bind, wp_getMem, wp_setMem]
  exact h _

/-! ## the induction -/

/-- what the induction shows for a program `m` that cooks (parts of) the steps whose paths are `S` -/
def Keeps (E : Env) (dev : Bool) (Γ : Path → List (Dir × Digest)) (S : List Path) (m : M Unit) : Prop :=
  ∀ r, Truthful E dev Γ r.st →
    wp m (fun _ r' => Truthful E dev Γ r'.st ∧ Touch S r.st r'.st) (fun r' => Truthful E dev Γ r'.st) r

theorem keeps_pure (S : List Path) : Keeps E dev Γ S (pure ()) := by
  intro r h; simp only [wp_pure]; exact ⟨h, Touch.refl _ _⟩

theorem keeps_mono {S S' : List Path} {m : M Unit} (hs : ∀ q, q ∈ S → q ∈ S') (h : Keeps E dev Γ S m) :
    Keeps E dev Γ S' m := by
  intro r hr
  refine wp_mono _ _ _ _ _ _ ?_ (fun _ hx => hx) (h r hr)
  intro _ r' ⟨h1, h2⟩
  exact ⟨h1, h2.mono hs⟩

theorem keeps_seq {S : List Path} {m1 m2 : M Unit} (h1 : Keeps E dev Γ S m1) (h2 : Keeps E dev Γ S m2) :
    Keeps E dev Γ S (do m1; m2) := by
  intro r hr
  simp only [wp_bind]
  refine wp_mono _ _ _ _ _ _ ?_ (fun _ hx => hx) (h1 r hr)
  intro _ r1 ⟨ht1, hf1⟩
  refine wp_mono _ _ _ _ _ _ ?_ (fun _ hx => hx) (h2 r1 ht1)
  intro _ r2 ⟨ht2, hf2⟩
  exact ⟨ht2, hf1.trans hf2⟩

theorem keeps_wasAlreadyRun {S : List Path} (t : Step) (so : Bool) {f : Bool → M Unit}
    (h : ∀ b, Keeps E dev Γ S (f b)) : Keeps E dev Γ S (wasAlreadyRun t so >>= f) := by
  intro r hr
  simp only [wp_bind]
  apply wp_wasAlreadyRun
  intro b m
  exact h b { r with mem := m } hr

theorem keeps_setAlreadyRun (S : List Path) (t : Step) (c s : Bool) : Keeps E dev Γ S (setAlreadyRun t c s) := by
  intro r hr
  apply wp_setAlreadyRun
  intro m
  exact ⟨hr, Touch.refl _ _⟩

theorem keeps_ite {S : List Path} (c : Prop) [Decidable c] {m1 m2 : M Unit} (h1 : Keeps E dev Γ S m1)
    (h2 : Keeps E dev Γ S m2) : Keeps E dev Γ S (if c then m1 else m2) := by
  split
  · exact h1
  · exact h2

/-- hypotheses of the preservation theorem that do not depend on the step -/
structure Hyp (E : Env) (dev : Bool) (cfg : Cfg) : Prop where
  fixB : Consts.C01.buildPruneInvalidatesFirst = true
  fixP : Consts.C01.packagePruneInvalidatesFirst = true
  inj : Function.Injective E.H
  devMode : cfg.cleanBuild = false → dev = true

theorem cookBuild_keeps {cfg : Cfg} (hy : Hyp E dev cfg) (i : Info) (ds : List Step) (hk : i.sig.kind = .build)
    (hacyc : ∀ d ∈ ds, d.path ≠ i.path)
    (S : List Path) (hp : i.path ∈ S) : Keeps E dev Γ S (cookBuild E cfg i ds) := by
  intro r hr
  refine wp_mono _ _ _ _ _ _ ?_ (fun _ hx => hx) (cookBuild_truthful hy.fixB hy.inj cfg hy.devMode i ds hk hacyc r hr)
  intro _ r' ⟨h1, _, h3, _⟩
  exact ⟨h1, touch_of_agree hp h3⟩

theorem cookCheckout_keeps {cfg : Cfg} (hy : Hyp E dev cfg) (i : Info) (ds : List Step) (hwf : CoWF Γ i ds)
    (hk : i.sig.kind = .checkout) (hacyc : ∀ d ∈ ds, d.path ≠ i.path)
    (S : List Path) (hp : i.path ∈ S) : Keeps E dev Γ S (cookCheckout E cfg i ds) := by
  intro r hr
  refine wp_mono _ _ _ _ _ _ ?_ (fun _ hx => hx) (cookCheckout_truthful hy.inj cfg i ds hwf hk hacyc r hr)
  intro _ r' ⟨h1, _, h3, _⟩
  exact ⟨h1, touch_of_agree hp h3⟩

/-- the statements proved simultaneously by induction over the step tree -/
def KStep (E : Env) (dev : Bool) (Γ : Path → List (Dir × Digest)) (cfg : Cfg) (t : Step) : Prop :=
  AllWF Γ t → (∀ co, Keeps E dev Γ (paths t) (cookStep E cfg co t)) ∧
    Keeps E dev Γ (paths t) (bidDeps E cfg t.deps)

def KList (E : Env) (dev : Bool) (Γ : Path → List (Dir × Digest)) (cfg : Cfg) (ds : List Step) : Prop :=
  AllWFL Γ ds → (∀ co parent, Keeps E dev Γ (pathsL ds) (cookList E cfg co parent ds)) ∧
    Keeps E dev Γ (pathsL ds) (bidDeps E cfg ds)

theorem klist_nil (cfg : Cfg) : KList E dev Γ cfg [] := by
  intro _
  constructor
  · intro co parent; simp only [cookList]; exact keeps_pure _
  · simp only [bidDeps]; exact keeps_pure _

theorem klist_cons (cfg : Cfg) (d : Step) (ds : List Step) (hd : KStep E dev Γ cfg d) (hds : KList E dev Γ cfg ds) :
    KList E dev Γ cfg (d :: ds) := by
  intro hwf
  obtain ⟨wd, wds⟩ := allWFL_cons hwf
  obtain ⟨hd1, hd2⟩ := hd wd
  obtain ⟨hl1, hl2⟩ := hds wds
  have sub1 : ∀ q, q ∈ paths d → q ∈ pathsL (d :: ds) := by intro q hq; rw [pathsL_cons]; simp [hq]
  have sub2 : ∀ q, q ∈ pathsL ds → q ∈ pathsL (d :: ds) := by intro q hq; rw [pathsL_cons]; simp [hq]
  constructor
  · intro co parent
    simp only [cookList]
    apply keeps_ite
    · exact keeps_mono sub2 (hl1 co parent)
    · exact keeps_seq (keeps_mono sub1 (hd1 co)) (keeps_mono sub2 (hl1 co parent))
  · cases d with
    | mk i pre dd =>
      simp only [bidDeps]
      apply keeps_ite
      · exact keeps_seq (keeps_mono sub1 (hd1 false)) (keeps_mono sub2 hl2)
      · exact keeps_seq (keeps_mono sub1 hd2) (keeps_mono sub2 hl2)

theorem kstep_mk {cfg : Cfg} (hy : Hyp E dev cfg) (i : Info) (pre ds : List Step) (_hpre : KList E dev Γ cfg pre)
    (hds : KList E dev Γ cfg ds) : KStep E dev Γ cfg (.mk i pre ds) := by
  intro hwf
  obtain ⟨wt, _, wds⟩ := allWF_mk hwf
  obtain ⟨hl1, hl2⟩ := hds wds
  have hself : i.path ∈ paths (.mk i pre ds) := by rw [paths_mk]; simp
  have subds : ∀ q, q ∈ pathsL ds → q ∈ paths (.mk i pre ds) := by intro q hq; rw [paths_mk]; simp [hq]
  have hacyc : ∀ d ∈ ds, d.path ≠ i.path := by
    intro d hd heq
    have h1 : i.path ∉ pathsL ds := by simpa [Step.path, Step.info, Step.deps] using wt.acyc
    exact h1 (heq ▸ path_mem_pathsL hd)
  have hprep : Keeps E dev Γ (paths (.mk i pre ds)) (preparePackage i ds) := by
    intro r hr
    refine wp_mono _ _ _ _ _ _ ?_ (fun _ hx => hx) (preparePackage_truthful (E := E) (dev := dev) (Γ := Γ) hy.fixP i ds r hr)
    intro _ r1 hp1
    exact ⟨hp1.truthful, touch_of_agree hself hp1.agree⟩
  have hcook : ∀ co, Keeps E dev Γ (paths (.mk i pre ds)) (cookStep E cfg co (.mk i pre ds)) := by
    intro co
    simp only [cookStep]
    apply keeps_wasAlreadyRun
    intro b
    cases b with
    | true => simp only [if_true]; exact keeps_pure _
    | false =>
      simp only [Bool.false_eq_true, if_false]
      cases hk : i.sig.kind with
      | checkout =>
        simp only []
        apply keeps_seq
        · exact keeps_mono subds (hl1 false i.pkg)
        · apply keeps_wasAlreadyRun
          intro b2
          cases b2 with
          | true => simp only [if_true]; exact keeps_pure _
          | false =>
            simp only [Bool.false_eq_true, if_false]
            apply keeps_seq
            · exact cookCheckout_keeps hy i ds (wt.co (by simp [Step.kind, Step.info, hk])) hk hacyc _ hself
            · exact keeps_setAlreadyRun _ _ _ _
      | build =>
        simp only []
        apply keeps_seq
        · exact keeps_mono subds (hl1 co i.pkg)
        · apply keeps_wasAlreadyRun
          intro b2
          cases b2 with
          | true => simp only [if_true]; exact keeps_pure _
          | false =>
            simp only [Bool.false_eq_true, if_false]
            cases co with
            | true => simp only [Bool.not_true, Bool.false_eq_true, if_false]; exact keeps_setAlreadyRun _ _ _ _
            | false =>
              simp only [Bool.not_false, if_true]
              exact keeps_seq (keeps_mono subds hl2)
                (keeps_seq (cookBuild_keeps hy i ds hk hacyc _ hself) (keeps_setAlreadyRun _ _ _ _))
      | package =>
        simp only []
        cases co with
        | true =>
          simp only [Bool.not_true, Bool.false_eq_true, if_false]
          apply keeps_seq hprep
          apply keeps_seq (keeps_mono subds (hl1 true i.pkg))
          apply keeps_wasAlreadyRun
          intro b2
          cases b2 with
          | true => simp only [if_true]; exact keeps_pure _
          | false => simp only [Bool.false_eq_true, if_false]; exact keeps_setAlreadyRun _ _ _ _
        | false =>
          simp only [Bool.not_false, if_true]
          -- `_preparePackageStep` fixes the directory state; the dependencies do not touch this path
          intro r hr
          simp only [wp_bind]
          refine wp_mono _ _ _ _ _ _ ?_ (fun _ hx => hx) (preparePackage_truthful (E := E) (dev := dev) (Γ := Γ) hy.fixP i ds r hr)
          intro _ r1 hp1
          refine wp_mono _ _ _ _ _ _ ?_ (fun _ hx => hx) (hl2 r1 hp1.truthful)
          intro _ r2 ⟨ht2, hf2⟩
          refine wp_mono _ _ _ _ _ _ ?_ (fun _ hx => hx) (hl1 false i.pkg r2 ht2)
          intro _ r3 ⟨ht3, hf3⟩
          have hnot : i.path ∉ pathsL ds := by simpa [Step.path, Step.info, Step.deps] using wt.acyc
          obtain ⟨_, _, e3, e4, _⟩ := (hf2.trans hf3) i.path hnot
          have hfr : Touch (paths (.mk i pre ds)) r.st r3.st :=
            (touch_of_agree hself hp1.agree).trans ((hf2.trans hf3).mono subds)
          apply wp_wasAlreadyRun
          intro b2 m
          cases b2 with
          | true => simp only [if_true, wp_pure]; exact ⟨ht3, hfr⟩
          | false =>
            simp only [Bool.false_eq_true, if_false, wp_bind]
            have := cookPackage_truthful (E := E) (dev := dev) (Γ := Γ) hy.inj cfg i pre ds
              { r3 with mem := m } ht3
              (by intro hq; have := hp1.dir (by rw [← e4]; exact hq); rw [← e3] at this; exact this)
              (by
                rcases hp1.shape with hq | hq
                · left; show r3.st.disk i.path = none; rw [e4]; exact hq
                · right; show r3.st.dirStates i.path = _; rw [e3]; exact hq)
            refine wp_mono _ _ _ _ _ _ ?_ (fun _ hx => hx) this
            intro _ r4 ⟨ht4, _, ha4, _⟩
            apply wp_setAlreadyRun
            intro m'
            exact ⟨ht4, hfr.trans (touch_of_agree hself ha4)⟩
  exact ⟨hcook, keeps_mono subds hl2⟩

/-- **every cook program preserves `Truthful`, also when it is cut at an arbitrary micro-operation** -/
theorem kstep_all {cfg : Cfg} (hy : Hyp E dev cfg) (t : Step) : KStep E dev Γ cfg t :=
  Step.rec (motive_1 := fun t => KStep E dev Γ cfg t) (motive_2 := fun ds => KList E dev Γ cfg ds)
    (fun i pre ds hpre hds => kstep_mk hy i pre ds hpre hds)
    (klist_nil cfg)
    (fun d ds hd hds => klist_cons cfg d ds hd hds)
    t

end Builder
