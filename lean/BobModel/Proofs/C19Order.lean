import BobModel.Model.Retention
/-
C19 helper lemmas: `strLe` (Python's `<=` on `str`) is a total order on `List Char`.
-/
namespace Retention

theorem strLe_refl (a : Str) : strLe a a = true := by
  induction a with
  | nil => simp [strLe]
  | cons c cs ih => simp [strLe, ih]

theorem strLe_total (a b : Str) : strLe a b = true ∨ strLe b a = true := by
  induction a generalizing b with
  | nil => simp [strLe]
  | cons c cs ih =>
    cases b with
    | nil => simp [strLe]
    | cons d ds =>
      simp only [strLe]
      by_cases h1 : c.toNat < d.toNat
      · simp [h1]
      · by_cases h2 : d.toNat < c.toNat
        · simp [h2]
        · have heq : c = d := Char.toNat_inj.mp (by omega)
          subst heq
          simp [h1]
          exact ih ds

theorem strLe_trans {a b c : Str} (h1 : strLe a b = true) (h2 : strLe b c = true) : strLe a c = true := by
  induction a generalizing b c with
  | nil => simp [strLe]
  | cons x xs ih =>
    cases b with
    | nil => simp [strLe] at h1
    | cons y ys =>
      cases c with
      | nil => simp [strLe] at h2
      | cons z zs =>
        simp only [strLe] at h1 h2 ⊢
        by_cases hxy : x.toNat < y.toNat
        · by_cases hyz : y.toNat < z.toNat
          · have : x.toNat < z.toNat := by omega
            simp [this]
          · simp only [hyz, if_false] at h2
            by_cases hyz' : y = z
            · subst hyz'; simp [hxy]
            · simp [hyz'] at h2
        · simp only [hxy, if_false] at h1
          by_cases hxy' : x = y
          · subst hxy'
            simp only [if_true] at h1
            by_cases hyz : x.toNat < z.toNat
            · simp [hyz]
            · simp only [hyz, if_false] at h2 ⊢
              by_cases hxz : x = z
              · subst hxz
                simp only [if_true] at h2 ⊢
                exact ih h1 h2
              · simp [hxz] at h2
          · simp [hxy'] at h1

theorem strLe_antisymm {a b : Str} (h1 : strLe a b = true) (h2 : strLe b a = true) : a = b := by
  induction a generalizing b with
  | nil =>
    cases b with
    | nil => rfl
    | cons d ds => simp [strLe] at h2
  | cons c cs ih =>
    cases b with
    | nil => simp [strLe] at h1
    | cons d ds =>
      simp only [strLe] at h1 h2
      by_cases hcd : c.toNat < d.toNat
      · have hdc : ¬ d.toNat < c.toNat := by omega
        simp only [hdc, if_false] at h2
        by_cases hd : d = c
        · subst hd; omega
        · simp [hd] at h2
      · simp only [hcd, if_false] at h1
        by_cases hc : c = d
        · subst hc
          simp only [if_true, Nat.lt_irrefl, if_false] at h1 h2
          rw [ih h1 h2]
        · simp [hc] at h1

end Retention
