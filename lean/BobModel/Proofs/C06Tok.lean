import BobModel.Proofs.C06Base
/-
Job slot accounting of the scheduler model: the brackets of every continuation are balanced, the
semaphore's owner count equals the number of tasks inside a bracket (plus hand-overs in flight), its
waiter list has one entry per task suspended in `acquire`; hence `release` never raises, at most
`capacity` scripts run, and a finished build has given every token back.
-/
namespace Sched
open JobSem

def b2n (b : Bool) : Nat := if b then 1 else 0

/-- the semaphore agrees with `h` owners among the tasks and `w` tasks suspended in `acquire` -/
def RunnersOK (n : Nat) (r : Runners) (h w : Nat) : Prop :=
  match r with
  | .job s => SemInv n s ∧ s.acquired = h + inflight s.sem.waiters ∧ s.sem.waiters.length = w
  | .bounded s b => b = n ∧ BInv b h s ∧ s.waiters.length = w

theorem RunnersOK.acquire_got {n : Nat} {r : Runners} {h w t : Nat} (hi : RunnersOK n r h w)
    (e : (r.acquire t).2 = .got) : RunnersOK n (r.acquire t).1 (h + 1) w := by
  cases r with
  | job s =>
    obtain ⟨h1, h2, h3⟩ := hi
    have := SemInv.acquire t h1
    simp only [Runners.acquire] at e ⊢
    obtain ⟨a1, a2, _⟩ := this
    have := a2 e
    refine ⟨a1, ?_, ?_⟩
    · rw [this.1, this.2]; omega
    · rw [this.2]; exact h3
  | bounded s b =>
    obtain ⟨h1, h2, h3⟩ := hi
    simp only [Runners.acquire] at e ⊢
    have := (BInv.acquire t h2).1 e
    exact ⟨h1, this.1, by rw [this.2]; exact h3⟩

theorem RunnersOK.acquire_blocked {n : Nat} {r : Runners} {h w t : Nat} (hi : RunnersOK n r h w)
    (e : (r.acquire t).2 = .blocked) : RunnersOK n (r.acquire t).1 h (w + 1) := by
  cases r with
  | job s =>
    obtain ⟨h1, h2, h3⟩ := hi
    have := SemInv.acquire t h1
    simp only [Runners.acquire] at e ⊢
    obtain ⟨a1, _, a3⟩ := this
    have := a3 e
    refine ⟨a1, ?_, ?_⟩
    · rw [this.1, this.2, inflight_append]; simp; exact h2
    · rw [this.2]; simp; exact h3
  | bounded s b =>
    obtain ⟨h1, h2, h3⟩ := hi
    simp only [Runners.acquire] at e ⊢
    have := (BInv.acquire t h2).2 e
    exact ⟨h1, this.1, by rw [this.2]; simp; exact h3⟩

theorem RunnersOK.resume {n : Nat} {r : Runners} {h w t : Nat} (hi : RunnersOK n r h w)
    (hw : r.woken t = true) : RunnersOK n (r.resume t) (h + 1) (w - 1) ∧ 0 < w := by
  cases r with
  | job s =>
    obtain ⟨h1, h2, h3⟩ := hi
    simp only [Runners.woken] at hw
    obtain ⟨a1, a2, a3, a4⟩ := SemInv.resume t h1 hw
    simp only [Runners.resume]
    exact ⟨⟨a1, by omega, by omega⟩, by omega⟩
  | bounded s b =>
    obtain ⟨h1, h2, h3⟩ := hi
    simp only [Runners.woken] at hw
    obtain ⟨a1, a2⟩ := BInv.resume t h2 hw
    simp only [Runners.resume]
    exact ⟨⟨h1, a1, by omega⟩, by omega⟩

theorem RunnersOK.release {n : Nat} {r : Runners} {h w : Nat} (hi : RunnersOK n r (h + 1) w) :
    ∃ r', r.release = .ok r' ∧ RunnersOK n r' h w := by
  cases r with
  | job s =>
    obtain ⟨h1, h2, h3⟩ := hi
    obtain ⟨s', e, a1, a2, a3⟩ := SemInv.release h1 (by omega)
    refine ⟨.job s', by simp [Runners.release, e, Except.map], a1, by omega, by omega⟩
  | bounded s b =>
    obtain ⟨h1, h2, h3⟩ := hi
    obtain ⟨s', e, a1, a2⟩ := BInv.release h2
    refine ⟨.bounded s' b, by simp [Runners.release, e, Except.map], h1, a1, by omega⟩

/-- the part of `Grow` the accounting needs -/
structure GrowT (st g : St) (new : List Task) : Prop where
  tasks : g.tasks = st.tasks ++ new
  init : ∀ y ∈ new, Initial y

theorem Grow.toT {st g : St} {new : List Task} (h : Grow st g new) : GrowT st g new := ⟨h.tasks, h.init⟩

theorem GrowT.same {st g : St} (h : g.tasks = st.tasks) : GrowT st g [] := ⟨by simp [h], by simp⟩

/-- job slot accounting of a configuration -/
structure TokInv (n : Nat) (st : St) : Prop where
  wf : ∀ x ∈ st.tasks, x.wf = true
  run : RunnersOK n st.runners (holders st) (waiting st)

theorem holds_eq {h : Bool} {x : Task} (hw : Sched.wf h x.ops = true) : x.holds = b2n h := by
  simp [Task.holds, wf_holds hw, b2n]

/-- general form of a step of task `t`: its continuation is replaced, new (initial) tasks are appended,
and the semaphore changes in step with the continuation -/
theorem TokInv.update {n : Nat} {st g : St} {t : Nat} {x' : Task} {new : List Task} {h h' : Bool}
    (hi : TokInv n st) (ht : t < st.tasks.length)
    (hold : Sched.wf h (st.task t).ops = true) (hnew : Sched.wf h' x'.ops = true) (hnw : noWait x'.ops.tail = true)
    (hg : GrowT st g new)
    (hr : RunnersOK n g.runners (holders st - b2n h + b2n h') (waiting st - (st.task t).waitingTok + x'.waitingTok)) :
    TokInv n (g.setTask t x') := by
  have hsum0 : ∀ f : Task → Nat, (∀ y ∈ new, f y = 0) → (new.map f).sum = 0 := by
    intro f hf
    clear hg hr
    induction new with
    | nil => rfl
    | cons a l ih =>
      simp only [List.map_cons, List.sum_cons]
      rw [hf a (by simp), ih (fun y hy => hf y (by simp [hy]))]
  have e1 := tsum_update Task.holds st g t x' new ht hg.tasks
  have e2 := tsum_update Task.waitingTok st g t x' new ht hg.tasks
  rw [hsum0 Task.holds (fun y hy => (hg.init y hy).wf.2.1)] at e1
  rw [hsum0 Task.waitingTok (fun y hy => (hg.init y hy).wf.2.2)] at e2
  have g1 := tsum_ge Task.holds st t ht
  have g2 := tsum_ge Task.waitingTok st t ht
  rw [holds_eq hold] at e1 g1
  rw [holds_eq hnew] at e1
  constructor
  · intro y hy
    simp only [setTask_tasks, hg.tasks] at hy
    rcases List.mem_or_eq_of_mem_set hy with hy | hy
    · rcases List.mem_append.mp hy with hy | hy
      · exact hi.wf y hy
      · exact (hg.init y hy).wf.1
    · subst hy
      exact Task.wf_iff.mpr ⟨by rw [wf_holds hnew]; exact hnew, hnw⟩
  · have h1 : holders (g.setTask t x') = holders st - b2n h + b2n h' := by
      unfold holders; omega
    have h2 : waiting (g.setTask t x') = waiting st - (st.task t).waitingTok + x'.waitingTok := by
      unfold waiting; omega
    rw [setTask_runners, h1, h2]
    exact hr

/-! ### per shape of step -/

theorem waitingTok_plain_cons {o : Op} {r : List Op} (hp : o.plain = true) :
    (List.filter Op.isTokWait (o :: r)).length = (List.filter Op.isTokWait r).length := by
  cases o <;> simp_all [Op.plain, Op.isTok, Op.isTokWait]

theorem waitingTok_plain_append {body r : List Op} (hb : ∀ o ∈ body, o.plain = true) :
    (List.filter Op.isTokWait (body ++ r)).length = (List.filter Op.isTokWait r).length := by
  induction body with
  | nil => rfl
  | cons o b ih =>
    rw [List.cons_append, waitingTok_plain_cons (hb o (by simp))]
    exact ih (fun o' ho' => hb o' (by simp [ho']))

theorem waitingTok_noWait {r : List Op} (h : noWait r = true) : (List.filter Op.isTokWait r).length = 0 := by
  induction r with
  | nil => rfl
  | cons o r ih =>
    simp only [noWait, List.all_cons, Bool.and_eq_true, Bool.not_eq_true'] at h
    have : o.isTokWait = false := by
      cases o <;> simp_all [Op.isWait, Op.isTokWait]
    simp only [List.filter_cons, this, Bool.false_eq_true, ↓reduceIte]
    exact ih (by simpa [noWait] using h.2)

/-- the continuation changes but neither the ownership of a slot nor the semaphore -/
theorem TokInv.keepStep {n : Nat} {st g : St} {t : Nat} {x' : Task} {new : List Task} {h : Bool}
    (hi : TokInv n st) (ht : t < st.tasks.length)
    (hold : Sched.wf h (st.task t).ops = true) (hnew : Sched.wf h x'.ops = true) (hnw : noWait x'.ops.tail = true)
    (hwt : x'.waitingTok = (st.task t).waitingTok) (hg : GrowT st g new) (hgr : g.runners = st.runners) :
    TokInv n (g.setTask t x') := by
  refine TokInv.update hi ht hold hnew hnw hg ?_
  have g1 := tsum_ge Task.holds st t ht
  have g2 := tsum_ge Task.waitingTok st t ht
  rw [holds_eq hold] at g1
  rw [hgr, hwt]
  have a1 : holders st - b2n h + b2n h = holders st := by unfold holders; omega
  have a2 : waiting st - (st.task t).waitingTok + (st.task t).waitingTok = waiting st := by unfold waiting; omega
  rw [a1, a2]
  exact hi.run

/-- a plain operation is replaced by plain operations (no effect on the semaphore) -/
theorem TokInv.plainStep {n : Nat} {st g : St} {t : Nat} {op : Op} {rest body : List Op} {new : List Task}
    {kind : TKind} {err : Option Err}
    (hi : TokInv n st) (hops : (st.task t).ops = op :: rest) (hop : op.plain = true)
    (hb : ∀ o ∈ body, o.plain = true ∧ (o.needsTok = true → op.needsTok = true))
    (hbw : noWait body.tail = true) (hg : GrowT st g new) (hgr : g.runners = st.runners) :
    TokInv n (g.setTask t { kind := kind, ops := body ++ rest, err := err }) := by
  have ht := task_lt hops
  obtain ⟨w1, w2⟩ := Task.wf_iff.mp (hi.wf _ (task_mem ht))
  rw [hops] at w1 w2
  simp only [List.tail_cons] at w2
  refine TokInv.update (h := holdsTok (op :: rest)) (h' := holdsTok (op :: rest)) hi ht (by rw [hops]; exact w1)
    (wf_expand w1 hop hb) ?_ hg ?_
  · simp only
    cases body with
    | nil => simpa using noWait_tail_of w2
    | cons b bs =>
      simp only [List.cons_append, List.tail_cons, noWait_append, Bool.and_eq_true]
      exact ⟨by simpa using hbw, w2⟩
  · have e : ({ kind := kind, ops := body ++ rest, err := err } : Task).waitingTok = (st.task t).waitingTok := by
      simp only [Task.waitingTok, hops]
      rw [waitingTok_plain_cons hop, waitingTok_plain_append (fun o ho => (hb o ho).1)]
    have g1 := tsum_ge Task.holds st t ht
    have g2 := tsum_ge Task.waitingTok st t ht
    rw [holds_eq (h := holdsTok (op :: rest)) (by rw [hops]; exact w1)] at g1
    rw [hgr, e]
    have a1 : holders st - b2n (holdsTok (op :: rest)) + b2n (holdsTok (op :: rest)) = holders st := by
      unfold holders; omega
    have a2 : waiting st - (st.task t).waitingTok + (st.task t).waitingTok = waiting st := by
      unfold waiting; omega
    rw [a1, a2]
    exact hi.run

/-- an exception starts to propagate at a plain operation -/
theorem TokInv.raiseStep {n : Nat} {st g : St} {t : Nat} {op : Op} {rest : List Op} {new : List Task} {e : Err}
    (hi : TokInv n st) (hops : (st.task t).ops = op :: rest) (hop : op.plain = true) (hg : GrowT st g new)
    (hgr : g.runners = st.runners) :
    TokInv n (g.setTask t (raise (st.task t) e rest)) := by
  have ht := task_lt hops
  obtain ⟨w1, w2⟩ := Task.wf_iff.mp (hi.wf _ (task_mem ht))
  rw [hops] at w1 w2
  simp only [List.tail_cons] at w2
  have w3 := wf_tail w1 hop
  refine TokInv.update (h := holdsTok (op :: rest)) (h' := holdsTok (op :: rest)) hi ht (by rw [hops]; exact w1)
    (by simpa [raise] using wf_filter w3) (by simpa [raise] using noWait_tail_of (noWait_filter w2)) hg ?_
  have e1 : (st.task t).waitingTok = 0 := by
    simp only [Task.waitingTok, hops]
    rw [waitingTok_plain_cons hop]; exact waitingTok_noWait w2
  have e2 : (raise (st.task t) e rest).waitingTok = 0 := by
    simp only [Task.waitingTok, raise]
    exact waitingTok_noWait (noWait_filter w2)
  have g1 := tsum_ge Task.holds st t ht
  rw [holds_eq (h := holdsTok (op :: rest)) (by rw [hops]; exact w1)] at g1
  rw [hgr, e1, e2]
  have : holders st - b2n (holdsTok (op :: rest)) + b2n (holdsTok (op :: rest)) = holders st := by
    unfold holders; omega
  simp only [this, Nat.sub_zero, Nat.add_zero]
  exact hi.run

@[simp] theorem noWait_nil : noWait [] = true := rfl
@[simp] theorem noWait_cons (o : Op) (r : List Op) : noWait (o :: r) = (!o.isWait && noWait r) := rfl

/-- number of pending `acquire`s in a continuation -/
def twc (ops : List Op) : Nat := (ops.filter Op.isTokWait).length
@[simp] theorem twc_nil : twc [] = 0 := rfl
@[simp] theorem twc_cons (o : Op) (r : List Op) : twc (o :: r) = (if o.isTokWait then 1 else 0) + twc r := by
  unfold twc; rw [List.filter_cons]; split <;> simp <;> omega
theorem waitingTok_eq (x : Task) : x.waitingTok = twc x.ops := rfl
theorem twc_noWait {r : List Op} (h : noWait r = true) : twc r = 0 := waitingTok_noWait h

theorem wf_prog (cfg : Cfg) (k : TKind) {rest : List Op} (h : Sched.wf false rest = true) :
    Sched.wf true (prog cfg k ++ [Op.release] ++ rest) = true := by
  cases k <;> simp [prog, Sched.wf, Op.needsTok, h]

theorem noWait_prog (cfg : Cfg) (k : TKind) {rest : List Op} (h : noWait rest = true) :
    noWait (prog cfg k ++ [Op.release] ++ rest).tail = true := by
  cases k <;> simp [prog, Op.isWait, h]

theorem twc_prog (cfg : Cfg) (k : TKind) {rest : List Op} (h : noWait rest = true) :
    twc (prog cfg k ++ [Op.release] ++ rest) = 0 := by
  cases k <;> simp [prog, Op.isTokWait, twc_noWait h]

/-- every step of a task preserves the job slot accounting -/
theorem TokInv.stepTask {n : Nat} {P : Project} {cfg : Cfg} {st st' : St} {t : Nat}
    (hi : TokInv n st) (h : stepTask P cfg st t = some st') : TokInv n st' := by
  unfold Sched.stepTask at h
  simp only at h
  split at h
  · cases h
  · rename_i op rest hops
    have ht := task_lt hops
    obtain ⟨w1, w2⟩ := Task.wf_iff.mp (hi.wf _ (task_mem ht))
    rw [hops] at w1 w2
    simp only [List.tail_cons] at w2
    have hw0 : twc rest = 0 := twc_noWait w2
    have hH := tsum_ge Task.holds st t ht
    have hW := tsum_ge Task.waitingTok st t ht
    have hrun := hi.run
    cases op <;> simp only at h
    case fence k =>
      split at h
      · split at h <;> cases h
        · exact hi.raiseStep hops rfl (GrowT.same rfl) rfl
        · exact hi.plainStep (body := []) hops rfl (by simp) rfl (GrowT.same rfl) rfl
      · cases h
    case start =>
      have hwt : (st.task t).waitingTok = 0 := by simp [waitingTok_eq, hops, Op.isTokWait, hw0]
      have hf : Sched.wf false rest = true := by simpa [Sched.wf, holdsTok] using w1
      split at h
      · rename_i r heq
        cases h
        have hr := hrun.acquire_got (t := t) (by rw [heq])
        rw [heq] at hr
        refine TokInv.update (h := false) (h' := true) hi ht (by rw [hops]; exact w1)
          (by simpa [afterStart] using wf_prog cfg _ hf) (by simpa [afterStart] using noWait_prog cfg _ w2)
          (GrowT.same rfl) ?_
        simp only [emit_runners, hwt, b2n, waitingTok_eq, afterStart, twc_prog cfg _ w2]
        simpa using hr
      · rename_i r heq
        cases h
        have hr := hrun.acquire_blocked (t := t) (by rw [heq])
        rw [heq] at hr
        refine TokInv.update (h := false) (h' := false) hi ht (by rw [hops]; exact w1)
          (by simpa [Sched.wf] using hf) (by simpa using w2) (GrowT.same rfl) ?_
        simp only [emit_runners, hwt, b2n, waitingTok_eq, twc_cons, Op.isTokWait, hw0]
        simpa using hr
    case startWait =>
      have hwt : (st.task t).waitingTok = 1 := by simp [waitingTok_eq, hops, Op.isTokWait, hw0]
      have hf : Sched.wf false rest = true := by simpa [Sched.wf, holdsTok] using w1
      split at h
      · rename_i hwk
        cases h
        obtain ⟨hr, hpos⟩ := hrun.resume hwk
        refine TokInv.update (h := false) (h' := true) hi ht (by rw [hops]; exact w1)
          (by simpa [afterStart] using wf_prog cfg _ hf) (by simpa [afterStart] using noWait_prog cfg _ w2)
          (GrowT.same rfl) ?_
        simp only [emit_runners, hwt, b2n, waitingTok_eq, afterStart, twc_prog cfg _ w2]
        simpa using hr
      · cases h
    case release =>
      have hwt : (st.task t).waitingTok = 0 := by simp [waitingTok_eq, hops, Op.isTokWait, hw0]
      have hh : holdsTok (Op.release :: rest) = true := rfl
      have hf : Sched.wf false rest = true := by simpa [Sched.wf, holdsTok] using w1
      have hpos : 1 ≤ holders st := by
        have := holds_eq (x := st.task t) (h := true) (by rw [hops]; exact w1)
        rw [this] at hH; simpa [b2n, holders] using hH
      obtain ⟨r', e, hr⟩ := RunnersOK.release (h := holders st - 1) (by
        have : holders st - 1 + 1 = holders st := by omega
        rw [this]; exact hrun)
      rw [e] at h
      simp only at h
      cases h
      refine TokInv.update (h := true) (h' := false) hi ht (by rw [hops]; exact w1) hf (noWait_tail_of w2)
        (GrowT.same rfl) ?_
      simp only [emit_runners, hwt, b2n, waitingTok_eq, hw0]
      simpa using hr
    case checkRunning =>
      split at h <;> cases h
      · exact hi.plainStep (body := []) hops rfl (by simp) rfl (GrowT.same rfl) rfl
      · exact hi.raiseStep hops rfl (GrowT.same rfl) rfl
    case cook steps co =>
      split at h <;> cases h
      · exact hi.plainStep (body := []) hops rfl (by simp) rfl (GrowT.same rfl) rfl
      · exact hi.plainStep (body := [_]) hops rfl (by simp [Op.plain, Op.isTok, Op.needsTok]) rfl (GrowT.same rfl) rfl
    case spawn trk steps co =>
      split at h <;> cases h
      · obtain ⟨new, hg⟩ := createTasks_grow P trk co steps st
        have hh : holdsTok (Op.spawn trk steps co :: rest) = true := by
          cases hx : holdsTok (Op.spawn trk steps co :: rest) <;> simp [hx, Sched.wf, Op.needsTok] at w1 ⊢
        rw [hh] at w1
        refine hi.keepStep (h := true) ht (by rw [hops]; exact w1) (by simpa [Sched.wf, Op.needsTok] using w1)
          (by simpa using w2) ?_ hg.toT hg.runners
        simp [waitingTok_eq, hops, Op.isTokWait]
      · exact hi.plainStep (body := [_]) hops rfl (by simp [Op.plain, Op.isTok, Op.needsTok]) rfl (GrowT.same rfl) rfl
    case spawnSeq trk todo co made =>
      split at h
      · cases h
        exact hi.plainStep (body := [_]) hops rfl (by simp [Op.plain, Op.isTok, Op.needsTok]) rfl (GrowT.same rfl) rfl
      · rename_i s todo'
        cases h
        obtain ⟨new, hg⟩ := createTask_grow P st trk s co
        have hh : holdsTok (Op.spawnSeq trk (s :: todo') co made :: rest) = true := by
          cases hx : holdsTok (Op.spawnSeq trk (s :: todo') co made :: rest) <;> simp [hx, Sched.wf, Op.needsTok] at w1 ⊢
        rw [hh] at w1
        refine hi.keepStep (h := true) ht (by rw [hops]; exact w1) (by simpa [Sched.wf, Op.needsTok] using w1)
          (by simpa [Op.isWait] using w2) ?_ hg.toT hg.runners
        simp [waitingTok_eq, hops, Op.isTokWait]
    case yieldRel ks rs =>
      have hwt : (st.task t).waitingTok = 0 := by simp [waitingTok_eq, hops, Op.isTokWait, hw0]
      have hf : Sched.wf true rest = true := by simpa [Sched.wf, holdsTok] using w1
      have hpos : 1 ≤ holders st := by
        have := holds_eq (x := st.task t) (h := true) (by rw [hops]; exact w1)
        rw [this] at hH; simpa [b2n, holders] using hH
      obtain ⟨r', e, hr⟩ := RunnersOK.release (h := holders st - 1) (by
        have : holders st - 1 + 1 = holders st := by omega
        rw [this]; exact hrun)
      rw [e] at h
      simp only at h
      cases h
      refine TokInv.update (h := true) (h' := false) hi ht (by rw [hops]; exact w1) ?_ ?_ (GrowT.same rfl) ?_
      · cases rs <;> simpa [Sched.wf, Op.needsTok] using hf
      · simpa [Op.isWait] using w2
      · simp only [emit_runners, hwt, b2n, waitingTok_eq]
        cases rs <;> simp [Op.isTokWait, hw0] <;> simpa using hr
    case gather ks =>
      split at h
      · split at h <;> cases h
        · exact hi.raiseStep hops rfl (GrowT.same rfl) rfl
        · exact hi.plainStep (body := []) hops rfl (by simp) rfl (GrowT.same rfl) rfl
      · cases h
    case waitOnly ks =>
      split at h <;> cases h
      exact hi.plainStep (body := []) hops rfl (by simp) rfl (GrowT.same rfl) rfl
    case results ks =>
      split at h <;> cases h
      · exact hi.raiseStep hops rfl (GrowT.same rfl) rfl
      · exact hi.plainStep (body := []) hops rfl (by simp) rfl (GrowT.same rfl) rfl
    case reacq =>
      have hwt : (st.task t).waitingTok = 0 := by simp [waitingTok_eq, hops, Op.isTokWait, hw0]
      have hf : Sched.wf true rest = true := by simpa [Sched.wf, holdsTok] using w1
      split at h
      · rename_i r heq
        cases h
        have hr := hrun.acquire_got (t := t) (by rw [heq])
        rw [heq] at hr
        refine TokInv.update (h := false) (h' := true) hi ht (by rw [hops]; exact w1) hf (noWait_tail_of w2)
          (GrowT.same rfl) ?_
        simp only [emit_runners, hwt, b2n, waitingTok_eq, hw0]
        simpa using hr
      · rename_i r heq
        cases h
        have hr := hrun.acquire_blocked (t := t) (by rw [heq])
        rw [heq] at hr
        refine TokInv.update (h := false) (h' := false) hi ht (by rw [hops]; exact w1)
          (by simpa [Sched.wf] using hf) (by simpa using w2) (GrowT.same rfl) ?_
        simp only [emit_runners, hwt, b2n, waitingTok_eq, twc_cons, Op.isTokWait, hw0]
        simpa using hr
    case reacqWait =>
      have hwt : (st.task t).waitingTok = 1 := by simp [waitingTok_eq, hops, Op.isTokWait, hw0]
      have hf : Sched.wf true rest = true := by simpa [Sched.wf, holdsTok] using w1
      split at h
      · rename_i hwk
        cases h
        obtain ⟨hr, hpos⟩ := hrun.resume hwk
        refine TokInv.update (h := false) (h' := true) hi ht (by rw [hops]; exact w1) hf (noWait_tail_of w2)
          (GrowT.same rfl) ?_
        simp only [emit_runners, hwt, b2n, waitingTok_eq, hw0]
        simpa using hr
      · cases h
    case cookBody s co =>
      split at h
      · cases h; exact hi.raiseStep hops rfl (GrowT.same rfl) rfl
      · split at h
        · cases h; exact hi.plainStep (body := []) hops rfl (by simp) rfl (GrowT.same rfl) rfl
        · split at h <;> cases h
          · exact hi.plainStep (body := []) hops rfl (by simp) rfl (GrowT.same rfl) rfl
          · refine hi.plainStep hops rfl ?_ ?_ (GrowT.same rfl) rfl
            · generalize (P.info s).kind = k
              cases k <;> cases co <;> simp [Op.plain, Op.isTok, Op.needsTok]
            · generalize (P.info s).kind = k
              cases k <;> cases co <;> simp [Op.isWait]
    case lock s co dl =>
      split at h <;> cases h
      · refine hi.plainStep (body := [_, _]) hops rfl ?_ ?_ (GrowT.same rfl) rfl
        · cases dl <;> simp [Op.plain, Op.isTok, Op.needsTok]
        · simp [Op.isWait]
      · exact hi.plainStep (body := [_]) hops rfl (by simp [Op.plain, Op.isTok, Op.needsTok]) rfl (GrowT.same rfl) rfl
    case lockWait s co dl =>
      split at h
      · cases h
        refine hi.plainStep (body := [_, _]) hops rfl ?_ ?_ (GrowT.same rfl) rfl
        · cases dl <;> simp [Op.plain, Op.isTok, Op.needsTok]
        · simp [Op.isWait]
      · cases h
    case underLock s co =>
      split at h <;> cases h
      · exact hi.plainStep (body := []) hops rfl (by simp) rfl (GrowT.same rfl) rfl
      · refine hi.plainStep hops rfl ?_ ?_ (GrowT.same rfl) rfl
        · generalize (P.info s).kind = k
          cases k <;> cases co <;> simp [Op.plain, Op.isTok, Op.needsTok]
        · generalize (P.info s).kind = k
          cases k <;> cases co <;> simp [Op.isWait]
    case download s =>
      cases h
      refine hi.plainStep (body := []) hops rfl (by simp) rfl (GrowT.same ?_) ?_ <;> split <;> rfl
    case unlock p =>
      split at h <;> cases h
      · exact hi.plainStep (body := []) hops rfl (by simp) rfl (GrowT.same rfl) rfl
      · exact hi.raiseStep hops rfl (GrowT.same rfl) rfl
    case bidSingle s =>
      split at h
      · split at h <;> cases h
        · exact hi.plainStep (body := []) hops rfl (by simp) rfl (GrowT.same rfl) rfl
        · exact hi.plainStep (body := [_, _]) hops rfl (by simp [Op.plain, Op.isTok, Op.needsTok]) (by simp [Op.isWait]) (GrowT.same rfl) rfl
      · split at h <;> cases h
        · exact hi.plainStep (body := []) hops rfl (by simp) rfl (GrowT.same rfl) rfl
        · exact hi.plainStep (body := [_, _]) hops rfl (by simp [Op.plain, Op.isTok, Op.needsTok]) (by simp [Op.isWait]) (GrowT.same rfl) rfl
    case cacheSrc s =>
      cases h; exact hi.plainStep (body := []) hops rfl (by simp) rfl (GrowT.same rfl) rfl
    case cacheDist s =>
      cases h; exact hi.plainStep (body := []) hops rfl (by simp) rfl (GrowT.same rfl) rfl
    case run s =>
      cases h
      exact hi.plainStep (body := [_]) hops rfl (by simp [Op.plain, Op.isTok, Op.needsTok]) rfl (GrowT.same rfl) rfl
    case runWait s res =>
      split at h
      · cases h
      · cases h; exact hi.plainStep (body := []) hops rfl (by simp) rfl (GrowT.same rfl) rfl
      · cases h; exact hi.raiseStep hops rfl (GrowT.same rfl) rfl
    case setRun s sk =>
      cases h; exact hi.plainStep (body := []) hops rfl (by simp) rfl (GrowT.same rfl) rfl
    case spawnTop targets =>
      split at h <;> cases h
      · obtain ⟨new, hg⟩ := createTops_grow targets st
        exact hi.plainStep (body := [_]) hops rfl (by simp [Op.plain, Op.isTok, Op.needsTok]) rfl hg.toT hg.runners
      · exact hi.plainStep (body := [_]) hops rfl (by simp [Op.plain, Op.isTok, Op.needsTok]) rfl (GrowT.same rfl) rfl
    case spawnTopSeq todo made =>
      split at h
      · cases h
        exact hi.plainStep (body := [_]) hops rfl (by simp [Op.plain, Op.isTok, Op.needsTok]) rfl (GrowT.same rfl) rfl
      · rename_i s todo'
        cases h
        obtain ⟨new, hg⟩ := createTop_grow st s
        exact hi.plainStep (body := [_, _]) hops rfl (by simp [Op.plain, Op.isTok, Op.needsTok]) (by simp [Op.isWait]) hg.toT hg.runners
    case wrapEnd =>
      have hr0 : rest = [] ∧ holdsTok (Op.wrapEnd :: rest) = false := by
        cases hx : holdsTok (Op.wrapEnd :: rest) <;> simp [hx, Sched.wf] at w1 ⊢
        exact w1
      obtain ⟨hr1, hr2⟩ := hr0
      rw [hr2] at w1
      have key : ∀ (g : St) (k : TKind) (e : Option Err), g.tasks = st.tasks → g.runners = st.runners →
          TokInv n (g.setTask t { kind := k, ops := [], err := e }) := by
        intro g k e hg1 hg2
        refine hi.keepStep (h := false) ht (by rw [hops]; exact w1) (by simp [Sched.wf]) (by simp) ?_ (GrowT.same hg1) hg2
        simp [waitingTok_eq, hops, hr1, Op.isTokWait]
      split at h
      · cases h
        apply key
        · split <;> rfl
        · split <;> rfl
      · cases h; exact key _ _ _ rfl rfl
      · cases h; exact key _ _ _ rfl rfl
      · cases h; exact key _ _ _ rfl rfl

theorem RunnersOK.jobStep {n : Nat} {s s' : JobSem.St} {h w : Nat} (hi : RunnersOK n (.job s) h w)
    (h1 : SemInv n s') (h2 : s'.acquired + inflight s.sem.waiters = s.acquired + inflight s'.sem.waiters)
    (h3 : s'.sem.waiters.length = s.sem.waiters.length) : RunnersOK n (.job s') h w := by
  obtain ⟨a1, a2, a3⟩ := hi
  exact ⟨h1, by omega, by omega⟩

/-- every transition (task step, script end, reader callback, child make) preserves the accounting -/
theorem TokInv.step {n : Nat} {P : Project} {cfg : Cfg} {st st' : St} {c : Choice}
    (hi : TokInv n st) (h : step P cfg st c = some st') : TokInv n st' := by
  cases c with
  | task t => exact hi.stepTask h
  | finish t ok =>
    simp only [Sched.step, finishScript] at h
    split at h
    · rename_i s rest hops
      cases h
      exact hi.plainStep (body := [_]) hops rfl (by simp [Op.plain, Op.isTok, Op.needsTok]) rfl (GrowT.same rfl) rfl
    · cases h
  | callback =>
    simp only [Sched.step] at h
    split at h
    · rename_i s hs
      split at h
      · cases h
        have hr := hi.run
        rw [hs] at hr
        obtain ⟨c1, c2, c3⟩ := SemInv.callback hr.1
        exact ⟨hi.wf, RunnersOK.jobStep hr c1 c2 c3⟩
      · cases h
    · cases h
  | envTake =>
    simp only [Sched.step] at h
    split at h
    · rename_i s hs
      cases he : s.envTake with
      | none => simp [he] at h
      | some s' =>
        simp only [he, Option.map_some, Option.some.injEq] at h
        subst h
        have hr := hi.run
        rw [hs] at hr
        obtain ⟨c1, c2, c3⟩ := SemInv.envTake hr.1 he
        exact ⟨hi.wf, RunnersOK.jobStep hr c1 (by rw [c2, c3]) (by rw [c3])⟩
    · cases h
  | envReturn =>
    simp only [Sched.step] at h
    split at h
    · rename_i s hs
      cases he : s.envReturn with
      | none => simp [he] at h
      | some s' =>
        simp only [he, Option.map_some, Option.some.injEq] at h
        subst h
        have hr := hi.run
        rw [hs] at hr
        obtain ⟨c1, c2, c3⟩ := SemInv.envReturn hr.1 he
        exact ⟨hi.wf, RunnersOK.jobStep hr c1 (by rw [c2, c3]) (by rw [c3])⟩
    · cases h

/-- the job slot semaphores a build starts with: the internal job server (`-jN`, N tokens), an external
one (`make -j(N+1)`, N tokens in the pipe plus the implicit slot) or `BoundedSemaphore(n)` -/
inductive GoodRunners (n : Nat) : Runners → Prop
  | job (recursive : Bool) : GoodRunners n (.job (JobSem.St.init recursive n))
  | bounded : GoodRunners n (.bounded { value := n, waiters := [] } n)

theorem TokInv.init {n : Nat} {cfg : Cfg} {r0 : Runners} (hr : GoodRunners n r0) : TokInv n (init cfg r0) := by
  constructor
  · intro x hx
    simp only [Sched.init, List.mem_singleton] at hx
    subst hx
    simp [Task.wf, Sched.wf, holdsTok, noWait, Op.needsTok, Op.isWait]
  · have h0 : holders (Sched.init cfg r0) = 0 := by simp [holders, tsum, Sched.init, Task.holds, holdsTok]
    have w0 : waiting (Sched.init cfg r0) = 0 := by simp [waiting, tsum, Sched.init, Task.waitingTok, Op.isTokWait]
    rw [h0, w0]
    cases hr with
    | job r => exact ⟨SemInv.init r n, by simp [Sched.init, JobSem.St.init], by simp [Sched.init, JobSem.St.init]⟩
    | bounded => exact ⟨rfl, by simp [Sched.init, BInv], by simp [Sched.init]⟩

theorem TokInv.reach {n : Nat} {P : Project} {cfg : Cfg} {r0 : Runners} {st : St} (hr : GoodRunners n r0)
    (h : Reach P cfg r0 st) : TokInv n st := by
  induction h with
  | init => exact TokInv.init hr
  | step c _ hs ih => exact ih.step hs

/-! ### consequences -/

theorem tsum_le_tsum {f g : Task → Nat} {st : St} (h : ∀ x ∈ st.tasks, f x ≤ g x) : tsum f st ≤ tsum g st := by
  unfold tsum
  generalize st.tasks = l at h
  induction l with
  | nil => simp
  | cons a l ih =>
    simp only [List.map_cons, List.sum_cons]
    have := h a (by simp)
    have := ih (fun x hx => h x (by simp [hx]))
    omega

theorem rw_noWait {r : List Op} (h : noWait r = true) : (List.filter Op.isRunWait r).length = 0 := by
  induction r with
  | nil => rfl
  | cons o r ih =>
    simp only [noWait_cons, Bool.and_eq_true, Bool.not_eq_true'] at h
    have : o.isRunWait = false := by cases o <;> simp_all [Op.isWait, Op.isRunWait]
    simp only [List.filter_cons, this, Bool.false_eq_true, ↓reduceIte]
    exact ih h.2

/-- a task whose script runs owns a job slot -/
theorem scriptRunning_le_holds {x : Task} (h : x.wf = true) : x.scriptRunning ≤ x.holds := by
  obtain ⟨w1, w2⟩ := Task.wf_iff.mp h
  unfold Task.scriptRunning
  cases hops : x.ops with
  | nil => simp
  | cons o r =>
    rw [hops] at w1 w2
    simp only [List.tail_cons] at w2
    rw [List.filter_cons]
    split
    · rename_i hrw
      have hh : holdsTok (o :: r) = true := by
        cases hx : holdsTok (o :: r) <;> cases o <;> simp_all [Op.isRunWait, Sched.wf, Op.needsTok]
      simp [Task.holds, hops, hh, rw_noWait w2]
    · simp [rw_noWait w2]

theorem TokInv.holders_le {n : Nat} {st : St} (hi : TokInv n st) : holders st ≤ capacity n st := by
  have hr := hi.run
  unfold capacity
  cases hs : st.runners with
  | job s =>
    rw [hs] at hr
    have h1 := SemInv.acquired_le hr.1
    have h2 := hr.2.1
    simp only
    split <;> simp_all <;> omega
  | bounded s b =>
    rw [hs] at hr
    obtain ⟨h1, h2, _⟩ := hr
    simp only [BInv] at h2
    simp only; omega

/-- never more scripts running than job slots -/
theorem TokInv.running_le {n : Nat} {st : St} (hi : TokInv n st) : scriptsRunning st ≤ capacity n st :=
  Nat.le_trans (tsum_le_tsum (fun x hx => scriptRunning_le_holds (hi.wf x hx))) hi.holders_le

/-- a task that is about to give its slot back does own one: `release` does not raise -/
theorem TokInv.release_ok {n : Nat} {st : St} {t : Nat} {rest : List Op} {o : Op} (hi : TokInv n st)
    (hops : (st.task t).ops = o :: rest) (ho : o = .release ∨ ∃ ks rs, o = .yieldRel ks rs) :
    ∃ r', st.runners.release = .ok r' := by
  have ht := task_lt hops
  obtain ⟨w1, _⟩ := Task.wf_iff.mp (hi.wf _ (task_mem ht))
  rw [hops] at w1
  have hh : holdsTok (o :: rest) = true := by
    rcases ho with e | ⟨ks, rs, e⟩ <;> subst e <;> rfl
  have hH := tsum_ge Task.holds st t ht
  rw [hh] at w1
  have := holds_eq (x := st.task t) (h := true) (by rw [hops]; exact w1)
  rw [this] at hH
  have hpos : 1 ≤ holders st := by simpa [b2n, holders] using hH
  obtain ⟨r', e, _⟩ := RunnersOK.release (h := holders st - 1) (by
    have : holders st - 1 + 1 = holders st := by omega
    rw [this]; exact hi.run)
  exact ⟨r', e⟩

theorem sum_map_zero (l : List Task) (f : Task → Nat) (h : ∀ x ∈ l, f x = 0) : (l.map f).sum = 0 := by
  induction l with
  | nil => rfl
  | cons a l ih =>
    simp only [List.map_cons, List.sum_cons]
    rw [h a (by simp), ih (fun x hx => h x (by simp [hx]))]

theorem allDone_holders {st : St} (h : allDone st = true) : holders st = 0 ∧ waiting st = 0 := by
  simp only [allDone, List.all_eq_true, Task.done, List.isEmpty_iff] at h
  constructor
  · unfold holders tsum
    apply sum_map_zero
    intro x hx
    simp [Task.holds, h x hx, holdsTok]
  · unfold waiting tsum
    apply sum_map_zero
    intro x hx
    simp [Task.waitingTok, h x hx]

end Sched
