import BobModel.Model.GitSwitch
/-
Helper lemmas for C12 about the abstract git model: reachability, the `Safe` relation
("nothing the user made is lost") and its preservation by every action of Bob's git logic
under `GitContract`.
-/
namespace GitSwitch

/-! ### reachability -/

theorem Reach.trans {D : Dag} {a b c : Commit} (h1 : Reach D a b) (h2 : Reach D b c) : Reach D a c := by
  induction h1 with
  | refl _ => exact h2
  | step hp _ ih => exact Reach.step hp (ih h2)

theorem reachB_sound (D : Dag) : ∀ (n : Nat) (a c : Commit), reachB D n a c = true → Reach D a c := by
  intro n
  induction n with
  | zero =>
    intro a c h
    simp [reachB] at h
    subst h; exact Reach.refl _
  | succ n ih =>
    intro a c h
    simp only [reachB, Bool.or_eq_true, List.any_eq_true] at h
    rcases h with h | ⟨b, hb, hr⟩
    · have : a = c := by simpa using h
      subst this; exact Reach.refl _
    · exact Reach.step hb (ih b c hr)

/-- upstream commits have upstream ancestors only -/
def UpClosed (D : Dag) (U : Commit → Prop) : Prop := ∀ a b, ¬ U a → b ∈ D.par a → ¬ U b

theorem up_reach {D : Dag} {U : Commit → Prop} (hU : UpClosed D U) {a c : Commit}
    (h : Reach D a c) (ha : ¬ U a) : ¬ U c := by
  induction h with
  | refl _ => exact ha
  | step hp _ ih => exact ih (hU _ _ ha hp)

/-! ### association lists -/

theorem assoc_setAssoc_same {β : Type} (l : List (String × β)) (a : String) (b : β) :
    assoc (setAssoc l a b) a = some b := by
  induction l with
  | nil => simp [setAssoc, assoc]
  | cons e rest ih =>
    obtain ⟨k, v⟩ := e
    by_cases h : (k == a) = true
    · simp [setAssoc, assoc, h]
    · simp [setAssoc, assoc, h, ih]

theorem assoc_setAssoc_other {β : Type} (l : List (String × β)) (a m : String) (b : β) (hm : m ≠ a) :
    assoc (setAssoc l a b) m = assoc l m := by
  induction l with
  | nil =>
    have : (a == m) = false := by simpa using fun h => hm h.symm
    simp [setAssoc, assoc, this]
  | cons e rest ih =>
    obtain ⟨k, v⟩ := e
    by_cases h : (k == a) = true
    · have hk : k = a := by simpa using h
      have : (k == m) = false := by simpa [hk] using fun h' => hm h'.symm
      simp [setAssoc, assoc, h, this]
    · by_cases h2 : (k == m) = true
      · simp [setAssoc, assoc, h, h2]
      · simp [setAssoc, assoc, h, h2, ih]

theorem assoc_append_none {β : Type} (l : List (String × β)) (a m : String) (b : β) (hm : m ≠ a) :
    assoc (l ++ [(a, b)]) m = assoc l m := by
  induction l with
  | nil =>
    have : (a == m) = false := by simpa using fun h => hm h.symm
    simp [assoc, this]
  | cons e rest ih =>
    obtain ⟨k, v⟩ := e
    by_cases h2 : (k == m) = true
    · simp [assoc, h2]
    · simp [assoc, h2, ih]

theorem assoc_append_new {β : Type} (l : List (String × β)) (a : String) (b : β) (hn : assoc l a = none) :
    assoc (l ++ [(a, b)]) a = some b := by
  induction l with
  | nil => simp [assoc]
  | cons e rest ih =>
    obtain ⟨k, v⟩ := e
    by_cases h2 : (k == a) = true
    · simp [assoc, h2] at hn
    · simp [assoc, h2] at hn ⊢
      exact ih hn

theorem assoc_mem {β : Type} (l : List (String × β)) (a : String) (b : β) (h : assoc l a = some b) :
    (a, b) ∈ l := by
  induction l with
  | nil => simp [assoc] at h
  | cons e rest ih =>
    obtain ⟨k, v⟩ := e
    by_cases h2 : (k == a) = true
    · have hk : k = a := by simpa using h2
      simp [assoc, h2] at h
      simp [hk, h]
    · simp [assoc, h2] at h
      exact List.mem_cons_of_mem _ (ih h)

/-! ### the safety relation -/

/-- nothing the user made is lost going from `r` to `r'`: dirty and untracked paths are the same
and every user-created commit that a local ref held is still held by a local ref -/
def Safe (D : Dag) (U : Commit → Prop) (r r' : Repo) : Prop :=
  r'.dirty = r.dirty ∧ r'.untracked = r.untracked ∧ ∀ c, U c → LocalHeld D r c → LocalHeld D r' c

/-- safety together with the invariant that remote refs and tags name upstream commits -/
def Good (D : Dag) (U : Commit → Prop) (r r' : Repo) : Prop :=
  Safe D U r r' ∧ (RefsUpstream U r → RefsUpstream U r')

theorem Safe.refl (D : Dag) (U : Commit → Prop) (r : Repo) : Safe D U r r := ⟨rfl, rfl, fun _ _ h => h⟩

theorem Safe.trans {D : Dag} {U : Commit → Prop} {a b c : Repo} (h1 : Safe D U a b) (h2 : Safe D U b c) :
    Safe D U a c :=
  ⟨h2.1.trans h1.1, h2.2.1.trans h1.2.1, fun x hx hh => h2.2.2 x hx (h1.2.2 x hx hh)⟩

theorem Good.refl (D : Dag) (U : Commit → Prop) (r : Repo) : Good D U r r := ⟨Safe.refl D U r, id⟩

theorem Good.trans {D : Dag} {U : Commit → Prop} {a b c : Repo} (h1 : Good D U a b) (h2 : Good D U b c) :
    Good D U a c := ⟨h1.1.trans h2.1, fun h => h2.2 (h1.2 h)⟩

/-- the detached HEAD, if any, is an upstream commit -/
def HeadUp (U : Commit → Prop) (r : Repo) : Prop := ∀ d, r.head = .detached d → ¬ U d

/-- heads unchanged and the old detached HEAD was upstream: nothing is lost whatever HEAD becomes -/
theorem safe_of_heads_eq {D : Dag} {U : Commit → Prop} (hU : UpClosed D U) {r r' : Repo}
    (hh : r'.heads = r.heads) (ht : SameTree r r') (hd : HeadUp U r ∨ r'.head = r.head) : Safe D U r r' := by
  refine ⟨ht.1, ht.2, ?_⟩
  intro c hc hl
  rcases hl with ⟨n, t, hn, hr⟩ | ⟨d, hd', hr⟩
  · exact Or.inl ⟨n, t, by rw [hh]; exact hn, hr⟩
  · rcases hd with hd | hd
    · exact absurd hc (up_reach hU hr (hd d hd'))
    · exact Or.inr ⟨d, by rw [hd]; exact hd', hr⟩

variable {D : Dag} {U : Commit → Prop} {ops : GitOps}

theorem refs_of_eq {r r' : Repo} (h1 : r'.remotes = r.remotes) (h2 : r'.tags = r.tags) :
    RefsUpstream U r → RefsUpstream U r' := by
  intro h
  unfold RefsUpstream at *
  rw [h1, h2]; exact h

/-! ### single commands -/

theorem good_fetch (hc : GitContract D U ops) (hU : UpClosed D U) (t : Option Name) (r : Repo) :
    Good D U r ((lift (ops.fetch t)) r).1 ∧ ((lift (ops.fetch t)) r).1.head = r.head ∧
      ((lift (ops.fetch t)) r).1.heads = r.heads := by
  unfold lift
  cases h : ops.fetch t r with
  | error e => exact ⟨Good.refl D U r, rfl, rfl⟩
  | ok r' =>
    have h1 := hc.fetch_local t r r' h
    exact ⟨⟨safe_of_heads_eq hU h1.1 h1.2.2.1 (Or.inr h1.2.1), hc.fetch_upstream t r r' h⟩, h1.2.1, h1.1⟩

theorem good_detach (hc : GitContract D U ops) (hU : UpClosed D U) (c : Commit) (r : Repo) (hh : HeadUp U r) :
    Good D U r ((lift (ops.checkoutDetach c)) r).1 := by
  unfold lift
  cases h : ops.checkoutDetach c r with
  | error e => exact Good.refl D U r
  | ok r' =>
    have h1 := hc.detach c r r' h
    exact ⟨safe_of_heads_eq hU h1.1 h1.2.2.1 (Or.inl hh), refs_of_eq h1.2.2.2.1 h1.2.2.2.2⟩

theorem good_branch (hc : GitContract D U ops) (hU : UpClosed D U) (n : Name) (r : Repo) (hh : HeadUp U r) :
    Good D U r ((lift (ops.checkoutBranch n)) r).1 ∧
    (((lift (ops.checkoutBranch n)) r).2 = true → ((lift (ops.checkoutBranch n)) r).1.head = .branch n) := by
  unfold lift
  cases h : ops.checkoutBranch n r with
  | error e => exact ⟨Good.refl D U r, by simp⟩
  | ok r' =>
    have h1 := hc.branch n r r' h
    exact ⟨⟨safe_of_heads_eq hU h1.1 h1.2.2.1 (Or.inl hh), refs_of_eq h1.2.2.2.1 h1.2.2.2.2⟩, fun _ => h1.2.1⟩

theorem good_new (hc : GitContract D U ops) (hU : UpClosed D U) (n : Name) (c : Commit) (r : Repo)
    (hh : HeadUp U r) : Good D U r ((lift (ops.checkoutNew n c)) r).1 := by
  unfold lift
  cases h : ops.checkoutNew n c r with
  | error e => exact Good.refl D U r
  | ok r' =>
    obtain ⟨hnone, hoth, _, _, ht, hrem, htag⟩ := hc.new n c r r' h
    refine ⟨⟨ht.1, ht.2, ?_⟩, refs_of_eq hrem htag⟩
    intro x hx hl
    rcases hl with ⟨m, t, hm, hr⟩ | ⟨d, hd', hr⟩
    · have hmn : m ≠ n := by
        intro e; subst e; rw [hnone] at hm; cases hm
      exact Or.inl ⟨m, t, by rw [hoth m hmn]; exact hm, hr⟩
    · exact absurd hx (up_reach hU hr (hh d hd'))

theorem good_mergeFF (hc : GitContract D U ops) (n : Name) (r : Repo) :
    Good D U r ((lift (ops.mergeFF n)) r).1 := by
  unfold lift
  cases h : ops.mergeFF n r with
  | error e => exact Good.refl D U r
  | ok r' =>
    obtain ⟨hhead, ht, hrem, htag, hcase⟩ := hc.mergeFF n r r' h
    refine ⟨⟨ht.1, ht.2, ?_⟩, refs_of_eq hrem htag⟩
    intro x hx hl
    rcases hl with ⟨m, t, hm, hr⟩ | ⟨d, hd', hr⟩
    · rcases hcase with he | ⟨b, t0, t', _, hb, hreach, hb', hoth⟩
      · exact Or.inl ⟨m, t, by rw [he]; exact hm, hr⟩
      · by_cases hmb : m = b
        · subst hmb
          rw [hb] at hm; cases hm
          exact Or.inl ⟨m, t', hb', hreach.trans hr⟩
        · exact Or.inl ⟨m, t, by rw [hoth m hmb]; exact hm, hr⟩
    · exact Or.inr ⟨d, by rw [hhead]; exact hd', hr⟩

/-- `reset --keep` after the "would be lost" guard -/
theorem good_reset (hc : GitContract D U ops) (hU : UpClosed D U) (b : Name) (c : Commit) (r : Repo)
    (hb : r.head = .branch b) (hup : RefsUpstream U r) (hg : guardOk ops b r = true) :
    Good D U r ((lift (ops.resetKeep c)) r).1 := by
  unfold lift
  cases h : ops.resetKeep c r with
  | error e => exact Good.refl D U r
  | ok r' =>
    obtain ⟨ht, hrem, htag, hcase⟩ := hc.reset c r r' h
    refine ⟨⟨ht.1, ht.2, ?_⟩, refs_of_eq hrem htag⟩
    intro x hx hl
    rcases hcase with ⟨b', hb1, _, _, hoth⟩ | ⟨d, hd, _, _⟩
    · rw [hb] at hb1
      have hbb : b' = b := by cases hb1; rfl
      subst hbb
      rcases hl with ⟨m, t, hm, hr⟩ | ⟨d, hd', _⟩
      · by_cases hmb : m = b'
        · subst hmb
          -- the tip of the current branch: the guard found another holder
          have hhc : r.headCommit = some t := by simp [Repo.headCommit, hb, hm]
          unfold guardOk at hg
          rw [List.any_eq_true] at hg
          obtain ⟨y, hy, hne⟩ := hg
          have hne' : y ≠ m := by simpa using hne
          rcases hc.contains_sound r y t hy hhc with ⟨ty, hty, hry⟩ | ⟨ny, ty, hty, hry⟩
          · exact Or.inl ⟨y, ty, by rw [hoth y hne']; exact hty, hry.trans hr⟩
          · exact absurd hx (up_reach hU (hry.trans hr) (hup.1 ny ty (assoc_mem _ _ _ hty)))
        · exact Or.inl ⟨m, t, by rw [hoth m hmb]; exact hm, hr⟩
      · rw [hb] at hd'; cases hd'
    · rw [hb] at hd; cases hd

/-! ### composition -/

theorem andThen_good {a b : Act} {P Q : Repo → Prop}
    (ha : ∀ r, P r → Good D U r (a r).1 ∧ ((a r).2 = true → Q (a r).1))
    (hb : ∀ r, Q r → Good D U r (b r).1) : ∀ r, P r → Good D U r ((a.andThen b) r).1 := by
  intro r hp
  unfold Act.andThen
  obtain ⟨h1, h2⟩ := ha r hp
  cases h : a r with
  | mk r' ok =>
    rw [h] at h1 h2
    cases ok with
    | true => exact h1.trans (hb r' (h2 rfl))
    | false => exact h1

/-! ### Bob's actions -/

theorem headUp_of_unborn {r : Repo} (h : r.headCommit.isNone = true) : HeadUp U r := by
  intro d hd
  simp [Repo.headCommit, hd] at h

theorem headUp_of_branch {r : Repo} {b : Name} (h : r.head = .branch b) : HeadUp U r := by
  intro d hd
  rw [h] at hd; cases hd

theorem good_withRemote_new (hc : GitContract D U ops) (hU : UpClosed D U) (b : Name) (r : Repo)
    (hh : HeadUp U r) : Good D U r ((withRemote b (fun c => lift (ops.checkoutNew b c))) r).1 := by
  unfold withRemote
  cases assoc r.remotes b with
  | none => exact Good.refl D U r
  | some c => exact good_new hc hU b c r hh

theorem good_branch_then_ff (hc : GitContract D U ops) (hU : UpClosed D U) (b : Name) (r : Repo)
    (hh : HeadUp U r) :
    Good D U r (((lift (ops.checkoutBranch b)).andThen (forwardBranch ops b)) r).1 :=
  andThen_good (P := fun r => HeadUp U r) (Q := fun _ => True)
    (fun r hr => ⟨(good_branch hc hU b r hr).1, fun _ => trivial⟩)
    (fun r _ => good_mergeFF hc b r) r hh

theorem good_checkoutBranchAct (hc : GitContract D U ops) (hU : UpClosed D U) (s : GitSpec) (b : Name)
    (switch : Bool) (r : Repo) (hh : switch = true → HeadUp U r) :
    Good D U r (checkoutBranchAct ops s b switch r).1 := by
  unfold checkoutBranchAct
  refine andThen_good (P := fun r => switch = true → HeadUp U r)
    (Q := fun r => switch = true → HeadUp U r) ?_ ?_ r hh
  · intro r hr
    obtain ⟨hg, hhead, _⟩ := good_fetch hc hU s.tag r
    refine ⟨hg, fun _ hsw => ?_⟩
    intro d hd
    unfold fetchAct at hd
    rw [hhead] at hd
    exact hr hsw d hd
  · intro r hr
    by_cases h1 : r.headCommit.isNone = true
    · simp only [h1, if_true]
      exact good_withRemote_new hc hU b r (headUp_of_unborn h1)
    · simp only [h1]
      cases switch with
      | true =>
        simp only [if_true, Bool.false_eq_true, if_false]
        by_cases h2 : (assoc r.heads b).isNone = true
        · simp only [h2, if_true]
          exact good_withRemote_new hc hU b r (hr rfl)
        · simp only [h2]
          exact good_branch_then_ff hc hU b r (hr rfl)
      | false =>
        simp only [Bool.false_eq_true, if_false]
        by_cases h3 : r.head = .branch b
        · simp only [h3, if_true]
          exact good_mergeFF hc b r
        · simp only [h3, if_false]
          exact Good.refl D U r

theorem good_checkoutTagAct (hc : GitContract D U ops) (hU : UpClosed D U) (s : GitSpec)
    (switch : Bool) (r : Repo) (hh : switch = true → HeadUp U r) :
    Good D U r (checkoutTagAct ops s switch r).1 := by
  unfold checkoutTagAct
  by_cases h1 : (r.headCommit.isNone || switch) = true
  · simp only [h1, if_true]
    have hup : HeadUp U r := by
      rcases Bool.or_eq_true _ _ |>.mp h1 with h | h
      · exact headUp_of_unborn h
      · exact hh h
    refine andThen_good (P := fun r => HeadUp U r) (Q := fun r => HeadUp U r) ?_ ?_ r hup
    · intro r hr
      obtain ⟨hg, hhead, _⟩ := good_fetch hc hU s.tag r
      refine ⟨hg, fun _ => ?_⟩
      intro d hd
      unfold fetchAct at hd
      rw [hhead] at hd
      exact hr d hd
    · intro r hr
      cases resolveTarget s r with
      | none => exact Good.refl D U r
      | some c => exact good_detach hc hU c r hr
  · simp only [h1]
    exact Good.refl D U r

theorem good_guarded_reset (hc : GitContract D U ops) (hU : UpClosed D U) (b : Name) (c : Commit) (r : Repo)
    (hh : HeadUp U r) (hup : RefsUpstream U r) :
    Good D U r (((lift (ops.checkoutBranch b)).andThen fun r2 =>
            if guardOk ops b r2 then lift (ops.resetKeep c) r2 else (r2, false)) r).1 := by
  unfold Act.andThen
  obtain ⟨hg, hhead⟩ := good_branch hc hU b r hh
  cases h : lift (ops.checkoutBranch b) r with
  | mk r2 ok =>
    rw [h] at hg hhead
    cases ok with
    | false => exact hg
    | true =>
      simp only
      by_cases hgd : guardOk ops b r2 = true
      · simp only [hgd, if_true]
        exact hg.trans (good_reset hc hU b c r2 (hhead rfl) (hg.2 hup) hgd)
      · simp only [hgd]
        exact hg

theorem good_tagOnBranchCont (hc : GitContract D U ops) (hU : UpClosed D U) (s : GitSpec) (b : Name)
    (hv : Bool) (r1 : Repo) (hup1 : HeadUp U r1) (hrefs : RefsUpstream U r1) :
    Good D U r1 (tagOnBranchCont ops s b hv r1).1 := by
  unfold tagOnBranchCont
  cases resolveTarget s r1 with
  | none => exact Good.refl D U r1
  | some c =>
    simp only
    cases assoc r1.remotes b with
    | none => exact Good.refl D U r1
    | some ob =>
      simp only
      by_cases h1 : (!ops.isAncestor c ob) = true
      · simp only [h1, if_true]; exact Good.refl D U r1
      · simp only [h1]
        by_cases h2 : (!hv || !(hv && (assoc r1.heads b).isSome)) = true
        · simp only [h2, if_true]; exact good_new hc hU b c r1 hup1
        · simp only [h2]; exact good_guarded_reset hc hU b c r1 hup1 hrefs

theorem good_checkoutTagOnBranchAct (hc : GitContract D U ops) (hU : UpClosed D U) (s : GitSpec) (b : Name)
    (switch : Bool) (r : Repo) (hh : switch = true → HeadUp U r) (hup : RefsUpstream U r) :
    Good D U r (checkoutTagOnBranchAct ops s b switch r).1 := by
  unfold checkoutTagOnBranchAct
  by_cases hal : alreadyAt s switch r = true
  · simp only [hal, if_true]; exact Good.refl D U r
  · simp only [hal]
    have hup0 : HeadUp U r := by
      by_cases hv : r.headCommit.isSome = true
      · cases switch with
        | true => exact hh rfl
        | false => simp [alreadyAt, hv] at hal
      · exact headUp_of_unborn (by simpa using hv)
    refine andThen_good (P := fun r => HeadUp U r ∧ RefsUpstream U r)
      (Q := fun r => HeadUp U r ∧ RefsUpstream U r) ?_ ?_ r ⟨hup0, hup⟩
    · intro r ⟨hr, hrefs⟩
      obtain ⟨hg, hhead, _⟩ := good_fetch hc hU s.tag r
      refine ⟨hg, fun _ => ⟨?_, hg.2 hrefs⟩⟩
      intro d hd
      unfold fetchAct at hd
      rw [hhead] at hd
      exact hr d hd
    · intro r1 ⟨h1, h2⟩
      exact good_tagOnBranchCont hc hU s b _ r1 h1 h2

/-- recipes name upstream commits only -/
def SpecUp (U : Commit → Prop) (s : GitSpec) : Prop := ∀ c, s.commit = some c → ¬ U c

theorem refs_setUrl {r : Repo} {u : Option String} (h : RefsUpstream U r) : RefsUpstream U { r with url := u } := h

theorem good_setUrl (r : Repo) (u : Option String) : Good D U r { r with url := u } :=
  ⟨⟨rfl, rfl, fun _ _ h => h⟩, fun h => h⟩

theorem good_invokeAct (hc : GitContract D U ops) (hU : UpClosed D U) (s : GitSpec) (switch : Bool) (r : Repo)
    (hh : switch = true → HeadUp U r) (hup : RefsUpstream U r) :
    Good D U r (invokeAct ops s switch r).1 := by
  unfold invokeAct
  simp only
  refine (good_setUrl r (some s.url)).trans ?_
  have hh' : switch = true → HeadUp U { r with url := some s.url } := hh
  have hup' : RefsUpstream U { r with url := some s.url } := hup
  generalize ({ r with url := some s.url } : Repo) = r0 at hh' hup'
  split
  · split
    · split
      · exact good_checkoutTagOnBranchAct hc hU s _ switch r0 hh' hup'
      · exact good_checkoutTagAct hc hU s switch r0 hh'
    · exact good_checkoutTagAct hc hU s switch r0 hh'
  · exact good_checkoutBranchAct hc hU s _ switch r0 hh'

theorem headUp_of_switchOk (old new : GitSpec) (r : Repo) (ho : SpecUp U old) (hn : SpecUp U new)
    (hup : RefsUpstream U r) (h : switchDetachedOk old new r = true) : HeadUp U r := by
  intro d hd
  unfold switchDetachedOk at h
  rw [hd] at h
  simp only at h
  cases hoc : old.commit with
  | some c =>
    simp only [hoc] at h
    by_cases h1 : d = c
    · subst h1; exact ho d hoc
    · have : new.commit = some d := by
        cases hnc : new.commit with
        | none => simp [hnc, h1] at h
        | some c' =>
          by_cases h2 : d = c'
          · subst h2; rfl
          · simp [hnc, h1, h2] at h
      exact hn d this
  | none =>
    simp only [hoc] at h
    cases hot : old.tag with
    | none => simp [hot] at h
    | some t =>
      simp only [hot] at h
      cases htc : assoc r.tags t with
      | none => simp [htc] at h
      | some c =>
        simp only [htc, Option.map_some] at h
        by_cases h1 : d = c
        · subst h1; exact hup.2 t d (assoc_mem _ _ _ htc)
        · have : new.commit = some d := by
            cases hnc : new.commit with
            | none => simp [hnc, h1] at h
            | some c' =>
              by_cases h2 : d = c'
              · subst h2; rfl
              · simp [hnc, h1, h2] at h
          exact hn d this

/-- **`GitScm.switch` never loses user work**, whether it succeeds or fails half way -/
theorem good_switchAct (hc : GitContract D U ops) (hU : UpClosed D U) (old new : GitSpec) (r : Repo)
    (ho : SpecUp U old) (hn : SpecUp U new) (hup : RefsUpstream U r) :
    Good D U r (switchAct ops old new r).1 := by
  unfold switchAct
  by_cases h : switchDetachedOk old new r = true
  · simp only [h, if_true]
    exact good_invokeAct hc hU new true r (fun _ => headUp_of_switchOk old new r ho hn hup h) hup
  · simp only [h]
    exact Good.refl D U r

/-- `GitScm.invoke` on an existing clone (no switch) never loses user work -/
theorem good_updateAct (hc : GitContract D U ops) (hU : UpClosed D U) (s : GitSpec) (r : Repo)
    (hup : RefsUpstream U r) : Good D U r (invokeAct ops s false r).1 :=
  good_invokeAct hc hU s false r (fun h => by cases h) hup

/-! ### status -/

theorem covered_sound (tips : List Commit) (c : Commit) (h : covered D tips c = true) :
    ∃ t ∈ tips, Reach D t c := by
  unfold covered at h
  rw [List.any_eq_true] at h
  obtain ⟨t, ht, hr⟩ := h
  exact ⟨t, ht, reachB_sound D _ t c hr⟩

theorem mem_map_snd_of_assoc {l : List (String × Commit)} {c : Commit} (h : c ∈ l.map (·.2)) :
    ∃ n, (n, c) ∈ l := by
  rw [List.mem_map] at h
  obtain ⟨⟨n, c'⟩, hm, he⟩ := h
  simp at he; subst he
  exact ⟨n, hm⟩

theorem refState_on (s : GitSpec) (r : Repo) (h : Commit)
    (h1 : (refState D s r h).onBranch = true) (h2 : (refState D s r h).unpushedMain = false) :
    ∃ ob, assoc r.remotes (s.branch.getD "master") = some ob ∧ reachB D D.fuel ob h = true := by
  unfold refState at h1 h2
  cases hcm : s.commit with
  | some c => simp [hcm] at h1
  | none =>
    cases htg : s.tag with
    | some t => simp [hcm, htg] at h1
    | none =>
      simp only [hcm, htg] at h1 h2
      by_cases hb : (r.head != .branch (s.branch.getD "master")) = true
      · simp [hb] at h1
      · simp only [hb] at h1 h2
        cases hrem : assoc r.remotes (s.branch.getD "master") with
        | none => simp [hrem] at h1
        | some ob =>
          simp only [hrem] at h2
          exact ⟨ob, rfl, by simpa using h2⟩

theorem expendable_fields (t : Taints) (h : t.expendable = true) :
    t.modified = false ∧ t.error = false ∧ t.switched = false ∧ t.unpushedMain = false ∧
      t.unpushedLocal = false ∧ t.unknown = false := by
  cases t with
  | mk m e s um ul uk =>
    cases m <;> cases e <;> cases s <;> cases um <;> cases ul <;> cases uk <;>
      simp [Taints.expendable, Taints.dirty, Taints.has, Consts.C12.dirtyTaints, Consts.C12.notExpendableTaints] at h ⊢

/-- **an expendable git checkout holds no user work**: no dirty or untracked path, and every
commit held by a local branch or the detached HEAD is an upstream commit -/
theorem expendable_no_work (hU : UpClosed D U) (s : GitSpec) (extra : Bool) (r : Repo)
    (hup : RefsUpstream U r) (h : (status D s extra r).expendable = true) :
    r.dirty = [] ∧ r.untracked = [] ∧ ∀ c, LocalHeld D r c → ¬ U c := by
  unfold status at h
  cases hh : r.headCommit with
  | none => simp [hh, Taints.expendable, Taints.dirty, Taints.has, Consts.C12.dirtyTaints] at h
  | some hc =>
    simp only [hh] at h
    by_cases herr : (refState D s r hc).err = true
    · simp [herr, Taints.expendable, Taints.dirty, Taints.has, Consts.C12.dirtyTaints] at h
    · have herr' : (refState D s r hc).err = false := by simpa using herr
      simp only [herr', Bool.false_eq_true, if_false] at h
      obtain ⟨hmod, _, _, hum, hcov, _⟩ := expendable_fields _ h
      simp only at hmod hum hcov
      have hd : r.dirty = [] ∧ r.untracked = [] := by
        simp only [Bool.or_eq_false_iff, Bool.not_eq_false'] at hmod
        exact ⟨by simpa using hmod.1.1, by simpa using hmod.1.2⟩
      refine ⟨hd.1, hd.2, ?_⟩
      rw [List.any_eq_false] at hcov
      -- every tip is covered by an upstream tip (or by HEAD, which then is covered by origin/b)
      have htip : ∀ t, t ∈ r.heads.map (·.2) ++ [hc] → ¬ U t := by
        intro t ht
        have hcv := hcov t ht
        obtain ⟨x, hx, hr⟩ := covered_sound (D := D) _ t (by simpa using hcv)
        unfold exclTips at hx
        rw [List.mem_append, List.mem_append] at hx
        rcases hx with (hx | hx) | hx
        · obtain ⟨n, hn⟩ := mem_map_snd_of_assoc hx
          exact up_reach hU hr (hup.1 n x hn)
        · obtain ⟨n, hn⟩ := mem_map_snd_of_assoc hx
          exact up_reach hU hr (hup.2 n x hn)
        · by_cases hon : (refState D s r hc).onBranch = true
          · simp only [hon, if_true, List.mem_singleton] at hx
            subst hx
            obtain ⟨ob, hrem, hreach⟩ := refState_on s r x hon hum
            have hob : ¬ U ob := hup.1 _ ob (assoc_mem _ _ _ hrem)
            exact up_reach hU hr (up_reach hU (reachB_sound D _ ob x hreach) hob)
          · simp [hon] at hx
      intro c hl
      rcases hl with ⟨n, t, hn, hr⟩ | ⟨d, hd', hr⟩
      · have : t ∈ r.heads.map (·.2) ++ [hc] := by
          rw [List.mem_append]; left
          rw [List.mem_map]; exact ⟨(n, t), assoc_mem _ _ _ hn, rfl⟩
        exact up_reach hU hr (htip t this)
      · have : d = hc := by simp [Repo.headCommit, hd'] at hh; exact hh
        subst this
        exact up_reach hU hr (htip d (by simp))

end GitSwitch
