import BobModel.Proofs.C05Emit
/-
C05, "no false up-to-date", structural facts about the cook functions that hold for every state,
flag set and environment (no `Truthful`, no hypotheses on the scripts):
* `FrameAt p m`: the program `m` writes only the components of workspace path `p` (and clock / attic
  list) and leaves the in-memory bookkeeping alone - shown for `_cookCheckoutStep`,
  `_cookBuildStep`, `_preparePackageStep`, `_cookPackageStep` with `p` the step's own path;
* `LogMono` of the same four programs (the log only grows).
-/
namespace Builder

set_option linter.unusedSimpArgs false

variable {E : Env}

/-! ## a cook function writes only the components of its own path -/

def FrameAt (p : Path) {α : Type} (m : M α) : Prop :=
  ∀ r, wp m (fun _ r' => AgreeOff p r.st r'.st ∧ r'.mem = r.mem) (fun _ => True) r

theorem frame_pure {α : Type} (p : Path) (a : α) : FrameAt p (pure a : M α) := by
  intro r; exact (wp_pure _ _ _ _).mpr ⟨AgreeOff.refl _ _, rfl⟩

theorem frame_bind {p : Path} {α β : Type} {m : M α} {f : α → M β} (h1 : FrameAt p m) (h2 : ∀ a, FrameAt p (f a)) :
    FrameAt p (m >>= f) := by
  intro r
  simp only [wp_bind]
  refine wp_mono _ _ _ _ _ _ ?_ (fun _ hx => hx) (h1 r)
  intro a r1 ⟨a1, m1⟩
  refine wp_mono _ _ _ _ _ _ ?_ (fun _ hx => hx) (h2 a r1)
  intro b r2 ⟨a2, m2⟩
  exact ⟨a1.trans a2, m2.trans m1⟩

theorem frame_getSt (p : Path) : FrameAt p getSt := by
  intro r; exact (wp_getSt _ _ _).mpr ⟨AgreeOff.refl _ _, rfl⟩

theorem frame_abort {α : Type} (p : Path) : FrameAt p (abort : M α) := by
  intro r; simp only [wp_abort]

theorem frame_prim (p : Path) (op : Op) (f : St → St) (hf : ∀ s, AgreeOff p s (f s)) : FrameAt p (prim op f) := by
  intro r
  rw [wp_prim]
  exact ⟨fun _ => trivial, fun k _ => ⟨hf _, rfl⟩⟩

theorem frame_whenM {p : Path} (b : Bool) {m : M Unit} (h : FrameAt p m) : FrameAt p (whenM b m) := by
  cases b
  · exact frame_pure _ ()
  · exact h

/-- every state update of the cook functions is confined to one path -/
macro "frame_agree" : tactic => `(tactic| (
  intro s q hq
  first
  | (simp [St.setResult, St.forge, St.setInputs, St.delInputs, St.setDir, St.setVid, St.setDisk, St.reset, upd, hq]; done)
  | (split <;> simp [St.setResult, St.forge, St.setInputs, St.delInputs, St.setDir, St.setVid, St.setDisk, St.reset, upd, hq])))

macro "frame_step" : tactic => `(tactic| first
  | exact frame_pure _ _
  | exact frame_getSt _
  | exact frame_abort _
  | exact frame_prim _ _ _ (by frame_agree)
  | assumption
  | (with_reducible split)
  | (with_reducible refine frame_whenM _ ?_)
  | (with_reducible refine frame_bind ?_ (fun _ => ?_)))

theorem frame_constructDir (p : Path) : FrameAt p (constructDir p) := by
  unfold constructDir
  repeat frame_step

theorem frame_runScript (i : Info) (clean : Bool) (ins : List Content) : FrameAt i.path (runScript E i clean ins) := by
  unfold runScript
  dsimp only
  repeat frame_step

theorem frame_runRecord (i : Info) (clean : Bool) (st : St) (ins : List Step) (inH : Inputs) (iv : St → Vid) :
    FrameAt i.path (runRecord E i clean st ins inH iv) := by
  have h := frame_runScript (E := E) i clean (contentsOf st ins)
  unfold runRecord
  dsimp only
  repeat frame_step

theorem frame_atticLoop (cfg : Cfg) (p : Path) (new : List (Dir × Digest)) (ov : Option Vid) (ob : Option BoState)
    (old keep : List (Dir × Digest)) : FrameAt p (atticLoop E cfg p new ov ob old keep) := by
  induction old generalizing keep with
  | nil => simp only [atticLoop]; exact frame_pure _ _
  | cons x rest ih =>
    obtain ⟨d, g⟩ := x
    have ih' : ∀ k, FrameAt p (atticLoop E cfg p new ov ob rest k) := ih
    simp only [atticLoop]
    repeat (first | exact ih' _ | frame_step)

theorem frame_checkoutRun (cfg : Cfg) (i : Info) (ds : List Step) (old : OldCo) (oldHash : Option RH) (inH : Inputs) :
    FrameAt i.path (checkoutRun E cfg i ds old oldHash inH) := by
  have h1 : ∀ ov ob o k, FrameAt i.path (atticLoop E cfg i.path i.scms ov ob o k) :=
    fun _ _ _ _ => frame_atticLoop _ _ _ _ _ _ _
  have h2 : ∀ c ins, FrameAt i.path (runScript E i c ins) := fun _ _ => frame_runScript _ _ _
  unfold checkoutRun
  dsimp only
  repeat (first | exact h1 _ _ _ _ | exact h2 _ _ | frame_step)

theorem frame_cookCheckout (cfg : Cfg) (i : Info) (ds : List Step) : FrameAt i.path (cookCheckout E cfg i ds) := by
  have h1 := frame_constructDir (i.path)
  have h2 : ∀ old oh inH, FrameAt i.path (checkoutRun E cfg i ds old oh inH) := fun _ _ _ => frame_checkoutRun _ _ _ _ _ _
  unfold cookCheckout
  dsimp only
  repeat (first | exact h2 _ _ _ | frame_step)

theorem frame_cookBuild (cfg : Cfg) (i : Info) (ds : List Step) : FrameAt i.path (cookBuild E cfg i ds) := by
  have h1 := frame_constructDir (i.path)
  have h2 : ∀ st inH iv, FrameAt i.path (runRecord E i cfg.cleanBuild st ds inH iv) := fun _ _ _ => frame_runRecord _ _ _ _ _ _
  unfold cookBuild
  dsimp only
  repeat (first | exact h2 _ _ _ | frame_step)

theorem frame_preparePackage (i : Info) (ds : List Step) : FrameAt i.path (preparePackage i ds) := by
  unfold preparePackage
  dsimp only
  repeat frame_step

theorem frame_cookPackage (cfg : Cfg) (i : Info) (pre ds : List Step) : FrameAt i.path (cookPackage E cfg i pre ds) := by
  have h1 := frame_constructDir (i.path)
  have h2 : ∀ st inH iv, FrameAt i.path (runRecord E i true st (pre ++ ds) inH iv) := fun _ _ _ => frame_runRecord _ _ _ _ _ _
  unfold cookPackage
  dsimp only
  repeat (first | exact h2 _ _ _ | frame_step)

/-! ## the log only grows (cook functions) -/

theorem logmono_checkoutRun (cfg : Cfg) (i : Info) (ds : List Step) (old : OldCo) (oldHash : Option RH) (inH : Inputs) :
    LogMono (checkoutRun E cfg i ds old oldHash inH) := by
  have h1 : ∀ ov ob o k, LogMono (atticLoop E cfg i.path i.scms ov ob o k) :=
    fun _ _ _ _ => logmono_atticLoop _ _ _ _ _ _ _
  have h2 : ∀ c ins, LogMono (runScript E i c ins) := fun _ _ => logmono_runScript _ _ _
  unfold checkoutRun
  dsimp only
  repeat (first | exact h1 _ _ _ _ | exact h2 _ _ | logmono_step)

theorem logmono_cookCheckout (cfg : Cfg) (i : Info) (ds : List Step) : LogMono (cookCheckout E cfg i ds) := by
  have h1 := logmono_constructDir (i.path)
  have h2 : ∀ old oh inH, LogMono (checkoutRun E cfg i ds old oh inH) := fun _ _ _ => logmono_checkoutRun _ _ _ _ _ _
  unfold cookCheckout
  dsimp only
  repeat (first | exact h2 _ _ _ | logmono_step)

theorem logmono_cookBuild (cfg : Cfg) (i : Info) (ds : List Step) : LogMono (cookBuild E cfg i ds) := by
  have h1 := logmono_constructDir (i.path)
  have h2 : ∀ st inH iv, LogMono (runRecord E i cfg.cleanBuild st ds inH iv) := fun _ _ _ => logmono_runRecord _ _ _ _ _ _
  unfold cookBuild
  dsimp only
  repeat (first | exact h2 _ _ _ | logmono_step)

theorem logmono_preparePackage (i : Info) (ds : List Step) : LogMono (preparePackage i ds) := by
  unfold preparePackage
  dsimp only
  repeat logmono_step

theorem logmono_cookPackage (cfg : Cfg) (i : Info) (pre ds : List Step) : LogMono (cookPackage E cfg i pre ds) := by
  have h1 := logmono_constructDir (i.path)
  have h2 : ∀ st inH iv, LogMono (runRecord E i true st (pre ++ ds) inH iv) := fun _ _ _ => logmono_runRecord _ _ _ _ _ _
  unfold cookPackage
  dsimp only
  repeat (first | exact h2 _ _ _ | logmono_step)

end Builder
