import BobModel.Proofs.C06Tok
/-
Workspace locks of the scheduler model: per workspace at most one task is inside `async with lock`
(has an `unlock` pending), the waiter list of the asyncio.Lock has one entry per task suspended in
`lock.acquire()`, `lock.release()` never raises, and a script is started / runs / is recorded as run only
inside the lock of its workspace.  Hence two scripts never run in the same workspace at the same time.
-/
namespace Sched
open JobSem

/-! ### association lists -/

theorem lookup_insert_self {β : Type} (k : Nat) (v : β) (l : List (Nat × β)) : lookup k (insert k v l) = some v := by
  induction l with
  | nil => simp [insert, lookup]
  | cons a l ih =>
    obtain ⟨k', v'⟩ := a
    by_cases h : k' = k
    · simp [insert, lookup, h]
    · simp [insert, lookup, h, ih]

theorem lookup_insert_ne {β : Type} (k k2 : Nat) (v : β) (l : List (Nat × β)) (h : k2 ≠ k) :
    lookup k2 (insert k v l) = lookup k2 l := by
  induction l with
  | nil => simp [insert, lookup, Ne.symm h]
  | cons a l ih =>
    obtain ⟨k', v'⟩ := a
    by_cases h1 : k' = k
    · subst h1
      simp [insert, lookup, Ne.symm h]
    · by_cases h2 : k' = k2
      · subst h2
        simp [insert, lookup, h1]
      · simp [insert, lookup, h1, h2, ih]

theorem lockOf_insert_self (st : St) (p : Nat) (l : ALock) :
    ({ st with locks := insert p l st.locks } : St).lockOf p = l := by
  simp [St.lockOf, lookup_insert_self]

theorem lockOf_insert_ne (st : St) (p q : Nat) (l : ALock) (h : q ≠ p) :
    ({ st with locks := insert p l st.locks } : St).lockOf q = st.lockOf q := by
  simp [St.lockOf, lookup_insert_ne _ _ _ _ h]

/-! ### counted operations -/

/-- `unlock p` operations of a continuation -/
def ulc (p : Nat) (ops : List Op) : Nat := (ops.filter (Op.isUnlock p)).length

/-- `lockWait` operations for workspace `p` -/
def lwc (P : Project) (p : Nat) (ops : List Op) : Nat := (ops.filter (Op.isLockWait P p)).length

theorem unlocks_eq (p : Nat) (x : Task) : x.unlocks p = ulc p x.ops := rfl

theorem waitingLock_eq (P : Project) (p : Nat) (x : Task) : x.waitingLock P p = lwc P p x.ops := rfl

@[simp] theorem ulc_nil (p : Nat) : ulc p [] = 0 := rfl
@[simp] theorem lwc_nil (P : Project) (p : Nat) : lwc P p [] = 0 := rfl
@[simp] theorem ulc_cons (p : Nat) (o : Op) (r : List Op) : ulc p (o :: r) = (if o.isUnlock p then 1 else 0) + ulc p r := by
  unfold ulc; rw [List.filter_cons]; split <;> simp <;> omega
@[simp] theorem lwc_cons (P : Project) (p : Nat) (o : Op) (r : List Op) :
    lwc P p (o :: r) = (if o.isLockWait P p then 1 else 0) + lwc P p r := by
  unfold lwc; rw [List.filter_cons]; split <;> simp <;> omega
theorem ulc_append (p : Nat) (a b : List Op) : ulc p (a ++ b) = ulc p a + ulc p b := by
  simp [ulc, List.filter_append]
theorem lwc_append (P : Project) (p : Nat) (a b : List Op) : lwc P p (a ++ b) = lwc P p a + lwc P p b := by
  simp [lwc, List.filter_append]

theorem lwc_noWait (P : Project) (p : Nat) {r : List Op} (h : noWait r = true) : lwc P p r = 0 := by
  induction r with
  | nil => rfl
  | cons o r ih =>
    simp only [noWait_cons, Bool.and_eq_true, Bool.not_eq_true'] at h
    have : o.isLockWait P p = false := by cases o <;> simp_all [Op.isWait, Op.isLockWait]
    simp [this, ih h.2]

theorem ulc_filter (p : Nat) (r : List Op) : ulc p (r.filter Op.isFin) = ulc p r := by
  induction r with
  | nil => rfl
  | cons o r ih =>
    rw [List.filter_cons]
    split
    · simp [ih]
    · rename_i hf
      have : o.isUnlock p = false := by cases o <;> simp_all [Op.isFin, Op.isUnlock]
      simp [this, ih]

/-- operations that are neither `unlock` nor `lockWait` -/
def Op.lkFree : Op → Bool
  | .unlock _ | .lockWait _ _ _ => false
  | _ => true

theorem lkFree_counts {o : Op} (h : o.lkFree = true) (P : Project) (p : Nat) :
    o.isUnlock p = false ∧ o.isLockWait P p = false := by
  cases o <;> simp_all [Op.lkFree, Op.isUnlock, Op.isLockWait]

theorem ulc_lkFree (p : Nat) {body : List Op} (h : ∀ o ∈ body, o.lkFree = true) : ulc p body = 0 := by
  induction body with
  | nil => rfl
  | cons o b ih =>
    have := (lkFree_counts (h o (by simp)) ⟨[], fun _ _ => 0, fun _ => 0⟩ p).1
    simp [this, ih (fun o' ho' => h o' (by simp [ho']))]

theorem lwc_lkFree (P : Project) (p : Nat) {body : List Op} (h : ∀ o ∈ body, o.lkFree = true) : lwc P p body = 0 := by
  induction body with
  | nil => rfl
  | cons o b ih =>
    have := (lkFree_counts (h o (by simp)) P p).2
    simp [this, ih (fun o' ho' => h o' (by simp [ho']))]

/-! ### scripts only under the workspace lock -/

theorem underLockOK_tail {P : Project} {o : Op} {r : List Op} (h : underLockOK P (o :: r) = true) : underLockOK P r = true := by
  simp only [underLockOK, Bool.and_eq_true] at h; exact h.2

theorem underLockOK_filter {P : Project} {r : List Op} : underLockOK P (r.filter Op.isFin) = true := by
  induction r with
  | nil => rfl
  | cons o r ih =>
    rw [List.filter_cons]
    split
    · rename_i hf
      have : o.section? P = none := by cases o <;> simp_all [Op.isFin, Op.section?]
      simp [underLockOK, this, ih]
    · exact ih

theorem underLockOK_plain {P : Project} {o : Op} {r : List Op} (hs : o.section? P = none) (h : underLockOK P r = true) :
    underLockOK P (o :: r) = true := by
  simp [underLockOK, hs, h]

/-! ### the invariant -/

/-- the asyncio.Lock of workspace `p` agrees with the continuations -/
structure LockAt (P : Project) (st : St) (p : Nat) : Prop where
  locked : (st.lockOf p).locked = true → lockHolders p st = 1 ∧ inflight (st.lockOf p).waiters = 0
  free : (st.lockOf p).locked = false → lockHolders p st = 0 ∧ inflight (st.lockOf p).waiters ≤ 1
  waiters : (st.lockOf p).waiters.length = tsum (Task.waitingLock P p) st

structure LockInv (P : Project) (st : St) : Prop where
  at_ : ∀ p, LockAt P st p
  sect : ∀ x ∈ st.tasks, underLockOK P x.ops = true
  nowait : ∀ x ∈ st.tasks, noWait x.ops.tail = true

theorem lockOf_congr {a b : St} (h : a.locks = b.locks) (p : Nat) : a.lockOf p = b.lockOf p := by
  simp [St.lockOf, h]

theorem Initial.lock {P : Project} {y : Task} (h : Initial y) :
    (∀ p, y.unlocks p = 0) ∧ (∀ p, y.waitingLock P p = 0) ∧ underLockOK P y.ops = true ∧ noWait y.ops.tail = true := by
  rcases h.2 with e | ⟨a, e⟩ <;>
    simp [unlocks_eq, waitingLock_eq, e, Op.isUnlock, Op.isLockWait, underLockOK, Op.section?, Op.isWait]

/-- general form of a step of task `t` for the lock accounting -/
theorem LockInv.update {P : Project} {st g : St} {t : Nat} {x' : Task} {new : List Task}
    (hi : LockInv P st) (ht : t < st.tasks.length)
    (hs : underLockOK P x'.ops = true) (hnw : noWait x'.ops.tail = true) (hg : GrowT st g new)
    (hat : ∀ p, ∀ H W, H + ulc p (st.task t).ops = lockHolders p st + ulc p x'.ops →
        W + lwc P p (st.task t).ops = tsum (Task.waitingLock P p) st + lwc P p x'.ops →
        (((g.lockOf p).locked = true → H = 1 ∧ inflight (g.lockOf p).waiters = 0) ∧
         ((g.lockOf p).locked = false → H = 0 ∧ inflight (g.lockOf p).waiters ≤ 1) ∧
         (g.lockOf p).waiters.length = W)) :
    LockInv P (g.setTask t x') := by
  have hH : ∀ p, lockHolders p (g.setTask t x') + ulc p (st.task t).ops = lockHolders p st + ulc p x'.ops := by
    intro p
    have e := tsum_update (Task.unlocks p) st g t x' new ht hg.tasks
    rw [sum_map_zero new _ (fun y hy => (hg.init y hy).lock (P := P) |>.1 p)] at e
    rw [unlocks_eq, unlocks_eq] at e
    unfold lockHolders; omega
  have hW : ∀ p, tsum (Task.waitingLock P p) (g.setTask t x') + lwc P p (st.task t).ops =
      tsum (Task.waitingLock P p) st + lwc P p x'.ops := by
    intro p
    have e := tsum_update (Task.waitingLock P p) st g t x' new ht hg.tasks
    rw [sum_map_zero new _ (fun y hy => (hg.init y hy).lock (P := P) |>.2.1 p)] at e
    rw [waitingLock_eq, waitingLock_eq] at e
    omega
  have hL : ∀ p, (g.setTask t x').lockOf p = g.lockOf p := fun p => lockOf_congr (by simp) p
  refine ⟨fun p => ?_, ?_, ?_⟩
  · obtain ⟨a1, a2, a3⟩ := hat p _ _ (hH p) (hW p)
    exact ⟨by rw [hL]; exact a1, by rw [hL]; exact a2, by rw [hL]; exact a3⟩
  · intro y hy
    simp only [setTask_tasks, hg.tasks] at hy
    rcases List.mem_or_eq_of_mem_set hy with hy | hy
    · rcases List.mem_append.mp hy with hy | hy
      · exact hi.sect y hy
      · exact ((hg.init y hy).lock (P := P)).2.2.1
    · subst hy; exact hs
  · intro y hy
    simp only [setTask_tasks, hg.tasks] at hy
    rcases List.mem_or_eq_of_mem_set hy with hy | hy
    · rcases List.mem_append.mp hy with hy | hy
      · exact hi.nowait y hy
      · exact ((hg.init y hy).lock (P := P)).2.2.2
    · subst hy; exact hnw

/-- a step that keeps the lock tables and the counted operations of task `t` -/
theorem LockInv.keep {P : Project} {st g : St} {t : Nat} {x' : Task} {new : List Task}
    (hi : LockInv P st) (ht : t < st.tasks.length)
    (hu : ∀ p, ulc p x'.ops = ulc p (st.task t).ops) (hw : ∀ p, lwc P p x'.ops = lwc P p (st.task t).ops)
    (hs : underLockOK P x'.ops = true) (hnw : noWait x'.ops.tail = true)
    (hg : GrowT st g new) (hl : g.locks = st.locks) : LockInv P (g.setTask t x') := by
  have hH : ∀ p, lockHolders p (g.setTask t x') = lockHolders p st := by
    intro p
    have e := tsum_update (Task.unlocks p) st g t x' new ht hg.tasks
    rw [sum_map_zero new _ (fun y hy => (hg.init y hy).lock (P := P) |>.1 p)] at e
    rw [unlocks_eq, unlocks_eq, hu p] at e
    unfold lockHolders; omega
  have hW : ∀ p, tsum (Task.waitingLock P p) (g.setTask t x') = tsum (Task.waitingLock P p) st := by
    intro p
    have e := tsum_update (Task.waitingLock P p) st g t x' new ht hg.tasks
    rw [sum_map_zero new _ (fun y hy => (hg.init y hy).lock (P := P) |>.2.1 p)] at e
    rw [waitingLock_eq, waitingLock_eq, hw p] at e
    omega
  have hL : ∀ p, (g.setTask t x').lockOf p = st.lockOf p := fun p => lockOf_congr (by simp [hl]) p
  refine ⟨fun p => ?_, ?_, ?_⟩
  · have := hi.at_ p
    exact ⟨by rw [hL, hH]; exact this.locked, by rw [hL, hH]; exact this.free, by rw [hL, hW]; exact this.waiters⟩
  · intro y hy
    simp only [setTask_tasks, hg.tasks] at hy
    rcases List.mem_or_eq_of_mem_set hy with hy | hy
    · rcases List.mem_append.mp hy with hy | hy
      · exact hi.sect y hy
      · exact ((hg.init y hy).lock (P := P)).2.2.1
    · subst hy; exact hs
  · intro y hy
    simp only [setTask_tasks, hg.tasks] at hy
    rcases List.mem_or_eq_of_mem_set hy with hy | hy
    · rcases List.mem_append.mp hy with hy | hy
      · exact hi.nowait y hy
      · exact ((hg.init y hy).lock (P := P)).2.2.2
    · subst hy; exact hnw

theorem underLockOK_append {P : Project} {body rest : List Op} (hb : ∀ o ∈ body, o.section? P = none)
    (h : underLockOK P rest = true) : underLockOK P (body ++ rest) = true := by
  induction body with
  | nil => exact h
  | cons o b ih =>
    exact underLockOK_plain (hb o (by simp)) (ih (fun o' ho' => hb o' (by simp [ho'])))

/-- a lock-free operation is replaced by lock-free operations outside of lock sections -/
theorem LockInv.plainStep {P : Project} {st g : St} {t : Nat} {op : Op} {rest body : List Op} {new : List Task}
    {kind : TKind} {err : Option Err}
    (hi : LockInv P st) (hops : (st.task t).ops = op :: rest) (hop : op.lkFree = true)
    (hb : ∀ o ∈ body, o.lkFree = true) (hsec : underLockOK P (body ++ rest) = true)
    (hbw : noWait body.tail = true) (hg : GrowT st g new) (hl : g.locks = st.locks) :
    LockInv P (g.setTask t { kind := kind, ops := body ++ rest, err := err }) := by
  have ht := task_lt hops
  have w2 := hi.nowait _ (task_mem ht)
  rw [hops] at w2
  simp only [List.tail_cons] at w2
  refine hi.keep ht ?_ ?_ hsec ?_ hg hl
  · intro p
    simp only [hops, ulc_append, ulc_cons, ulc_lkFree p hb, (lkFree_counts hop P p).1]
    simp
  · intro p
    simp only [hops, lwc_append, lwc_cons, lwc_lkFree P p hb, (lkFree_counts hop P p).2]
    simp
  · simp only
    cases body with
    | nil => simpa using noWait_tail_of w2
    | cons b bs =>
      simp only [List.cons_append, List.tail_cons, noWait_append, Bool.and_eq_true]
      exact ⟨by simpa using hbw, w2⟩

/-- an exception starts to propagate at a lock-free operation -/
theorem LockInv.raiseStep {P : Project} {st g : St} {t : Nat} {op : Op} {rest : List Op} {new : List Task} {e : Err}
    (hi : LockInv P st) (hops : (st.task t).ops = op :: rest) (hop : op.lkFree = true)
    (hg : GrowT st g new) (hl : g.locks = st.locks) :
    LockInv P (g.setTask t (raise (st.task t) e rest)) := by
  have ht := task_lt hops
  have w2 := hi.nowait _ (task_mem ht)
  rw [hops] at w2
  simp only [List.tail_cons] at w2
  refine hi.keep ht ?_ ?_ (by simpa [raise] using underLockOK_filter) (by simpa [raise] using noWait_tail_of (noWait_filter w2)) hg hl
  · intro p
    simp only [raise, hops, ulc_cons, ulc_filter, (lkFree_counts hop P p).1]
    simp
  · intro p
    simp only [raise, hops, lwc_cons, (lkFree_counts hop P p).2, lwc_noWait P p w2, lwc_noWait P p (noWait_filter w2)]
    simp

theorem inflight_wakeHead (w : List (Nat × Bool)) (h : inflight w = 0) :
    inflight (wakeHead w) ≤ 1 ∧ (wakeHead w).length = w.length := by
  cases w with
  | nil => simp [wakeHead]
  | cons a r =>
    obtain ⟨t, d⟩ := a
    cases d <;> simp_all [wakeHead]

theorem tsum_pos_of {f : Task → Nat} {st : St} {t : Nat} (ht : t < st.tasks.length) (h : 0 < f (st.task t)) :
    0 < tsum f st := Nat.lt_of_lt_of_le h (tsum_ge f st t ht)

/-- every step of a task preserves the lock invariant -/
theorem LockInv.stepTask {P : Project} {cfg : Cfg} {st st' : St} {t : Nat}
    (hi : LockInv P st) (hwf : ∀ x ∈ st.tasks, x.wf = true) (h : stepTask P cfg st t = some st') : LockInv P st' := by
  unfold Sched.stepTask at h
  simp only at h
  split at h
  · cases h
  · rename_i op rest hops
    have ht := task_lt hops
    have w2 := hi.nowait _ (task_mem ht)
    have hsec := hi.sect _ (task_mem ht)
    rw [hops] at w2 hsec
    simp only [List.tail_cons] at w2
    have hsr := underLockOK_tail hsec
    -- the ordinary case: `body` has no lock-section operations
    have plain : ∀ (g : St) (body : List Op) (new : List Task) (k : TKind) (e : Option Err),
        op.lkFree = true → (∀ o ∈ body, o.lkFree = true ∧ o.section? P = none) → noWait body.tail = true →
        GrowT st g new → g.locks = st.locks →
        LockInv P (g.setTask t { kind := k, ops := body ++ rest, err := e }) := by
      intro g body new k e hop hb hbw hg hl
      exact hi.plainStep hops hop (fun o ho => (hb o ho).1) (underLockOK_append (fun o ho => (hb o ho).2) hsr) hbw hg hl
    cases op <;> simp only at h
    case fence k =>
      split at h
      · split at h <;> cases h
        · exact hi.raiseStep hops rfl (GrowT.same rfl) rfl
        · exact plain _ [] [] _ _ rfl (by simp) rfl (GrowT.same rfl) rfl
      · cases h
    case start =>
      split at h <;> cases h
      · have e : afterStart cfg (st.task t) rest = { kind := (st.task t).kind, ops := (prog cfg (st.task t).kind ++ [Op.release]) ++ rest, err := (st.task t).err } := by
          simp [afterStart]
        rw [e]
        refine plain _ _ [] _ _ rfl ?_ ?_ (GrowT.same rfl) rfl
        · generalize (st.task t).kind = k
          cases k <;> simp [prog, Op.lkFree, Op.section?]
        · generalize (st.task t).kind = k
          cases k <;> simp [prog, Op.isWait]
      · exact plain _ [_] [] _ _ rfl (by simp [Op.lkFree, Op.section?]) rfl (GrowT.same rfl) rfl
    case startWait =>
      split at h <;> cases h
      have e : afterStart cfg (st.task t) rest = { kind := (st.task t).kind, ops := (prog cfg (st.task t).kind ++ [Op.release]) ++ rest, err := (st.task t).err } := by
        simp [afterStart]
      rw [e]
      refine plain _ _ [] _ _ rfl ?_ ?_ (GrowT.same rfl) rfl
      · generalize (st.task t).kind = k
        cases k <;> simp [prog, Op.lkFree, Op.section?]
      · generalize (st.task t).kind = k
        cases k <;> simp [prog, Op.isWait]
    case release =>
      split at h <;> cases h
      · exact plain _ [] [] _ _ rfl (by simp) rfl (GrowT.same rfl) rfl
      · exact hi.raiseStep hops rfl (GrowT.same rfl) rfl
    case checkRunning =>
      split at h <;> cases h
      · exact plain _ [] [] _ _ rfl (by simp) rfl (GrowT.same rfl) rfl
      · exact hi.raiseStep hops rfl (GrowT.same rfl) rfl
    case cook steps co =>
      split at h <;> cases h
      · exact plain _ [] [] _ _ rfl (by simp) rfl (GrowT.same rfl) rfl
      · exact plain _ [_] [] _ _ rfl (by simp [Op.lkFree, Op.section?]) rfl (GrowT.same rfl) rfl
    case spawn trk steps co =>
      split at h <;> cases h
      · obtain ⟨new, hg⟩ := createTasks_grow P trk co steps st
        exact plain _ [_] new _ _ rfl (by simp [Op.lkFree, Op.section?]) rfl hg.toT hg.locks
      · exact plain _ [_] [] _ _ rfl (by simp [Op.lkFree, Op.section?]) rfl (GrowT.same rfl) rfl
    case spawnSeq trk todo co made =>
      split at h
      · cases h
        exact plain _ [_] [] _ _ rfl (by simp [Op.lkFree, Op.section?]) rfl (GrowT.same rfl) rfl
      · rename_i s todo'
        cases h
        obtain ⟨new, hg⟩ := createTask_grow P st trk s co
        exact plain _ [_, _] new _ _ rfl (by simp [Op.lkFree, Op.section?]) (by simp [Op.isWait]) hg.toT hg.locks
    case yieldRel ks rs =>
      split at h <;> cases h
      · refine plain _ [_, _, _] [] _ _ rfl ?_ (by simp [Op.isWait]) (GrowT.same rfl) rfl
        cases rs <;> simp [Op.lkFree, Op.section?]
      · exact hi.raiseStep hops rfl (GrowT.same rfl) rfl
    case gather ks =>
      split at h
      · split at h <;> cases h
        · exact hi.raiseStep hops rfl (GrowT.same rfl) rfl
        · exact plain _ [] [] _ _ rfl (by simp) rfl (GrowT.same rfl) rfl
      · cases h
    case waitOnly ks =>
      split at h <;> cases h
      exact plain _ [] [] _ _ rfl (by simp) rfl (GrowT.same rfl) rfl
    case results ks =>
      split at h <;> cases h
      · exact hi.raiseStep hops rfl (GrowT.same rfl) rfl
      · exact plain _ [] [] _ _ rfl (by simp) rfl (GrowT.same rfl) rfl
    case reacq =>
      split at h <;> cases h
      · exact plain _ [] [] _ _ rfl (by simp) rfl (GrowT.same rfl) rfl
      · exact plain _ [_] [] _ _ rfl (by simp [Op.lkFree, Op.section?]) rfl (GrowT.same rfl) rfl
    case reacqWait =>
      split at h <;> cases h
      exact plain _ [] [] _ _ rfl (by simp) rfl (GrowT.same rfl) rfl
    case cookBody s co =>
      split at h
      · cases h; exact hi.raiseStep hops rfl (GrowT.same rfl) rfl
      · split at h
        · cases h; exact plain _ [] [] _ _ rfl (by simp) rfl (GrowT.same rfl) rfl
        · split at h <;> cases h
          · exact plain _ [] [] _ _ rfl (by simp) rfl (GrowT.same rfl) rfl
          · refine plain _ _ [] _ _ rfl ?_ ?_ (GrowT.same rfl) rfl
            · generalize (P.info s).kind = k
              cases k <;> cases co <;> simp [Op.lkFree, Op.section?]
            · generalize (P.info s).kind = k
              cases k <;> cases co <;> simp [Op.isWait]
    case lock s co dl =>
      have hsecX : ∀ X : Op, (X = Op.download s ∨ X = Op.underLock s co) →
          underLockOK P ([X, Op.unlock (P.info s).path] ++ rest) = true := by
        intro X hX
        rcases hX with e | e <;> subst e <;> simp [underLockOK, Op.section?, hsr]
      split at h
      · rename_i l heq
        cases h
        have hacq : (st.lockOf (P.info s).path).locked = false ∧ (st.lockOf (P.info s).path).waiters = [] ∧
            l = { locked := true, waiters := [] } := by
          unfold ALock.acquire at heq
          split at heq
          · rename_i hc
            simp only [Bool.and_eq_true, Bool.not_eq_true', List.isEmpty_iff] at hc
            cases heq
            exact ⟨hc.1, hc.2, by rw [hc.2]⟩
          · cases heq
        obtain ⟨hq1, hq2, hq3⟩ := hacq
        subst hq3
        refine LockInv.update hi ht ?_ ?_ (GrowT.same rfl) ?_
        · cases dl <;> exact hsecX _ (by simp)
        · cases dl <;> simpa [afterLock, Op.isWait] using w2
        · intro q H W hH hW
          by_cases hq : q = (P.info s).path
          · subst hq
            rw [lockOf_insert_self]
            have hf := (hi.at_ (P.info s).path).free hq1
            have hwt := (hi.at_ (P.info s).path).waiters
            rw [hq2] at hwt
            have hwt' : tsum (Task.waitingLock P (P.info s).path) st = 0 := by simpa using hwt.symm
            cases dl <;> simp [hops, afterLock, Op.isUnlock, Op.isLockWait] at hH hW <;>
              exact ⟨fun _ => ⟨by omega, rfl⟩, fun hc => by simp at hc, by simp only [List.length_nil]; omega⟩
          · rw [lockOf_insert_ne _ _ _ _ hq]
            have hA := hi.at_ q
            have hne : ((P.info s).path == q) = false := by
              apply beq_false_of_ne; exact fun hc => hq hc.symm
            simp only [hops, afterLock, ulc_cons, lwc_cons, Op.isUnlock, Op.isLockWait] at hH hW
            have e1 : H = lockHolders q st := by cases dl <;> simp [Op.isUnlock, hne] at hH <;> omega
            have e2 : W = tsum (Task.waitingLock P q) st := by cases dl <;> simp [Op.isLockWait] at hW <;> omega
            rw [e1, e2]
            exact ⟨hA.locked, hA.free, hA.waiters⟩
      · rename_i l heq
        cases h
        have hacq : l = { (st.lockOf (P.info s).path) with waiters := (st.lockOf (P.info s).path).waiters ++ [(t, false)] } := by
          unfold ALock.acquire at heq
          split at heq <;> cases heq
          rfl
        subst hacq
        refine LockInv.update hi ht ?_ ?_ (GrowT.same rfl) ?_
        · exact underLockOK_plain rfl hsr
        · simpa using w2
        · intro q H W hH hW
          by_cases hq : q = (P.info s).path
          · subst hq
            rw [lockOf_insert_self]
            have hA := hi.at_ (P.info s).path
            simp only [hops, ulc_cons, lwc_cons, Op.isUnlock, Op.isLockWait, beq_self_eq_true] at hH hW
            have e1 : H = lockHolders (P.info s).path st := by simp at hH; omega
            have e2 : W = tsum (Task.waitingLock P (P.info s).path) st + 1 := by simp at hW; omega
            rw [e1, e2]
            refine ⟨?_, ?_, ?_⟩
            · intro hc; simpa [inflight_append] using hA.locked hc
            · intro hc; simpa [inflight_append] using hA.free hc
            · simp [hA.waiters]
          · rw [lockOf_insert_ne _ _ _ _ hq]
            have hA := hi.at_ q
            have hne : ((P.info s).path == q) = false := by
              apply beq_false_of_ne; exact fun hc => hq hc.symm
            simp only [hops, ulc_cons, lwc_cons, Op.isUnlock, Op.isLockWait, hne] at hH hW
            have e1 : H = lockHolders q st := by simp at hH; omega
            have e2 : W = tsum (Task.waitingLock P q) st := by simp at hW; omega
            rw [e1, e2]
            exact ⟨hA.locked, hA.free, hA.waiters⟩
    case lockWait s co dl =>
      have hsecX : ∀ X : Op, (X = Op.download s ∨ X = Op.underLock s co) →
          underLockOK P ([X, Op.unlock (P.info s).path] ++ rest) = true := by
        intro X hX
        rcases hX with e | e <;> subst e <;> simp [underLockOK, Op.section?, hsr]
      split at h
      · rename_i hwk
        cases h
        have hA := hi.at_ (P.info s).path
        obtain ⟨e1, e2, e3⟩ := erase_done _ t hwk
        have hnl : (st.lockOf (P.info s).path).locked = false := by
          cases hl : (st.lockOf (P.info s).path).locked
          · rfl
          · have := (hA.locked hl).2; omega
        have hf := hA.free hnl
        refine LockInv.update hi ht ?_ ?_ (GrowT.same rfl) ?_
        · cases dl <;> exact hsecX _ (by simp)
        · cases dl <;> simpa [afterLock, Op.isWait] using w2
        · intro q H W hH hW
          by_cases hq : q = (P.info s).path
          · subst hq
            rw [lockOf_insert_self]
            have hwt := hA.waiters
            cases dl <;> simp [hops, afterLock, Op.isUnlock, Op.isLockWait] at hH hW <;>
              exact ⟨fun _ => ⟨by omega, by simp only [ALock.resume]; omega⟩, fun hc => by simp [ALock.resume] at hc,
                by simp only [ALock.resume]; omega⟩
          · rw [lockOf_insert_ne _ _ _ _ hq]
            have hB := hi.at_ q
            have hne : ((P.info s).path == q) = false := by
              apply beq_false_of_ne; exact fun hc => hq hc.symm
            simp only [hops, afterLock, ulc_cons, lwc_cons, Op.isUnlock, Op.isLockWait, hne] at hH hW
            have e1 : H = lockHolders q st := by cases dl <;> simp [Op.isUnlock, hne] at hH <;> omega
            have e2 : W = tsum (Task.waitingLock P q) st := by cases dl <;> simp [Op.isLockWait] at hW <;> omega
            rw [e1, e2]
            exact ⟨hB.locked, hB.free, hB.waiters⟩
      · cases h
    case underLock s co =>
      have hul : Op.unlock (P.info s).path ∈ rest := by
        have := hsec
        simp [underLockOK, Op.section?] at this
        exact this.1
      split at h <;> cases h
      · exact plain _ [] [] _ _ rfl (by simp) rfl (GrowT.same rfl) rfl
      · refine hi.plainStep hops rfl ?_ ?_ ?_ (GrowT.same rfl) rfl
        · generalize (P.info s).kind = k
          cases k <;> cases co <;> simp [Op.lkFree]
        · generalize (P.info s).kind = k
          cases k <;> cases co <;> simp [underLockOK, Op.section?, hsr, hul]
        · generalize (P.info s).kind = k
          cases k <;> cases co <;> simp [Op.isWait]
    case download s =>
      cases h
      refine plain _ [] [] _ _ rfl (by simp) rfl (GrowT.same ?_) ?_ <;> split <;> rfl
    case unlock p =>
      have hA := hi.at_ p
      have hpos : 0 < lockHolders p st := by
        apply tsum_pos_of ht
        simp [unlocks_eq, hops, Op.isUnlock]
        omega
      have hlk : (st.lockOf p).locked = true := by
        cases hl : (st.lockOf p).locked
        · have := (hA.free hl).1; omega
        · rfl
      have hrel : (st.lockOf p).release = .ok { locked := false, waiters := wakeHead (st.lockOf p).waiters } := by
        simp [ALock.release, hlk]
      rw [hrel] at h
      simp only at h
      cases h
      have hL := hA.locked hlk
      obtain ⟨k1, k2⟩ := inflight_wakeHead _ hL.2
      refine LockInv.update hi ht hsr (noWait_tail_of w2) (GrowT.same rfl) ?_
      intro q H W hH hW
      by_cases hq : q = p
      · subst hq
        rw [lockOf_insert_self]
        simp [hops, Op.isUnlock, Op.isLockWait] at hH hW
        refine ⟨fun hc => by simp at hc, fun _ => ⟨by omega, k1⟩, ?_⟩
        simp only [k2]; have := hA.waiters; omega
      · rw [lockOf_insert_ne _ _ _ _ hq]
        have hB := hi.at_ q
        have hne : (p == q) = false := by
          apply beq_false_of_ne; exact fun hc => hq hc.symm
        simp [hops, Op.isUnlock, Op.isLockWait, hne] at hH hW
        have e1 : H = lockHolders q st := by omega
        have e2 : W = tsum (Task.waitingLock P q) st := by omega
        rw [e1, e2]
        exact ⟨hB.locked, hB.free, hB.waiters⟩
    case bidSingle s =>
      split at h
      · split at h <;> cases h
        · exact plain _ [] [] _ _ rfl (by simp) rfl (GrowT.same rfl) rfl
        · exact plain _ [_, _] [] _ _ rfl (by simp [Op.lkFree, Op.section?]) (by simp [Op.isWait]) (GrowT.same rfl) rfl
      · split at h <;> cases h
        · exact plain _ [] [] _ _ rfl (by simp) rfl (GrowT.same rfl) rfl
        · exact plain _ [_, _] [] _ _ rfl (by simp [Op.lkFree, Op.section?]) (by simp [Op.isWait]) (GrowT.same rfl) rfl
    case cacheSrc s =>
      cases h; exact plain _ [] [] _ _ rfl (by simp) rfl (GrowT.same rfl) rfl
    case cacheDist s =>
      cases h; exact plain _ [] [] _ _ rfl (by simp) rfl (GrowT.same rfl) rfl
    case run s =>
      have hul : Op.unlock (P.info s).path ∈ rest := by
        have := hsec
        simp [underLockOK, Op.section?] at this
        exact this.1
      cases h
      exact hi.plainStep (body := [_]) hops rfl (by simp [Op.lkFree]) (by simp [underLockOK, Op.section?, hsr, hul]) rfl (GrowT.same rfl) rfl
    case runWait s res =>
      split at h
      · cases h
      · cases h; exact plain _ [] [] _ _ rfl (by simp) rfl (GrowT.same rfl) rfl
      · cases h; exact hi.raiseStep hops rfl (GrowT.same rfl) rfl
    case setRun s sk =>
      cases h; exact plain _ [] [] _ _ rfl (by simp) rfl (GrowT.same rfl) rfl
    case spawnTop targets =>
      split at h <;> cases h
      · obtain ⟨new, hg⟩ := createTops_grow targets st
        exact plain _ [_] new _ _ rfl (by simp [Op.lkFree, Op.section?]) rfl hg.toT hg.locks
      · exact plain _ [_] [] _ _ rfl (by simp [Op.lkFree, Op.section?]) rfl (GrowT.same rfl) rfl
    case spawnTopSeq todo made =>
      split at h
      · cases h
        exact plain _ [_] [] _ _ rfl (by simp [Op.lkFree, Op.section?]) rfl (GrowT.same rfl) rfl
      · rename_i s todo'
        cases h
        obtain ⟨new, hg⟩ := createTop_grow st s
        exact plain _ [_, _] new _ _ rfl (by simp [Op.lkFree, Op.section?]) (by simp [Op.isWait]) hg.toT hg.locks
    case wrapEnd =>
      have key : ∀ (g : St) (k : TKind) (e : Option Err), g.tasks = st.tasks → g.locks = st.locks →
          LockInv P (g.setTask t { kind := k, ops := [], err := e }) := by
        intro g k e hg1 hg2
        have hr0 : rest = [] := by
          obtain ⟨w1, _⟩ := Task.wf_iff.mp (hwf _ (task_mem ht))
          rw [hops] at w1
          cases hx : holdsTok (Op.wrapEnd :: rest) <;> simp [hx, Sched.wf] at w1
          exact w1
        subst hr0
        have := plain g [] [] k e rfl (by simp) rfl (GrowT.same hg1) hg2
        simpa using this
      split at h
      · cases h
        apply key
        · split <;> rfl
        · split <;> rfl
      · cases h; exact key _ _ _ rfl rfl
      · cases h; exact key _ _ _ rfl rfl
      · cases h; exact key _ _ _ rfl rfl

theorem LockAt.of_eq {P : Project} {st st' : St} {p : Nat} (ht : st'.tasks = st.tasks) (hl : st'.locks = st.locks)
    (h : LockAt P st p) : LockAt P st' p := by
  have e1 : lockHolders p st' = lockHolders p st := by simp [lockHolders, tsum, ht]
  have e2 : tsum (Task.waitingLock P p) st' = tsum (Task.waitingLock P p) st := by simp [tsum, ht]
  have e3 : st'.lockOf p = st.lockOf p := lockOf_congr hl p
  exact ⟨by rw [e3, e1]; exact h.locked, by rw [e3, e1]; exact h.free, by rw [e3, e2]; exact h.waiters⟩

theorem LockInv.step {P : Project} {cfg : Cfg} {st st' : St} {c : Choice}
    (hi : LockInv P st) (hwf : ∀ x ∈ st.tasks, x.wf = true) (h : step P cfg st c = some st') : LockInv P st' := by
  cases c with
  | task t => exact hi.stepTask hwf h
  | finish t ok =>
    simp only [Sched.step, finishScript] at h
    split at h
    · rename_i s rest hops
      cases h
      have ht := task_lt hops
      have hsec := hi.sect _ (task_mem ht)
      rw [hops] at hsec
      exact hi.plainStep (body := [_]) hops rfl (by simp [Op.lkFree])
        (by simpa [underLockOK, Op.section?] using hsec) rfl (GrowT.same rfl) rfl
    · cases h
  | callback =>
    simp only [Sched.step] at h
    split at h
    · split at h <;> cases h
      exact ⟨fun p => LockAt.of_eq (st := st) rfl rfl (hi.at_ p), hi.sect, hi.nowait⟩
    · cases h
  | envTake =>
    simp only [Sched.step] at h
    split at h
    · rename_i s hs
      cases he : s.envTake with
      | none => simp [he] at h
      | some s' =>
        simp only [he, Option.map_some, Option.some.injEq] at h
        subst h
        exact ⟨fun p => LockAt.of_eq (st := st) rfl rfl (hi.at_ p), hi.sect, hi.nowait⟩
    · cases h
  | envReturn =>
    simp only [Sched.step] at h
    split at h
    · rename_i s hs
      cases he : s.envReturn with
      | none => simp [he] at h
      | some s' =>
        simp only [he, Option.map_some, Option.some.injEq] at h
        subst h
        exact ⟨fun p => LockAt.of_eq (st := st) rfl rfl (hi.at_ p), hi.sect, hi.nowait⟩
    · cases h

theorem LockInv.init (P : Project) (cfg : Cfg) (r0 : Runners) : LockInv P (init cfg r0) := by
  refine ⟨fun p => ?_, ?_, ?_⟩
  · have hH : lockHolders p (Sched.init cfg r0) = 0 := by
      simp [lockHolders, tsum, Sched.init, Task.unlocks, Op.isUnlock]
    have hW : tsum (Task.waitingLock P p) (Sched.init cfg r0) = 0 := by
      simp [tsum, Sched.init, Task.waitingLock, Op.isLockWait]
    have hL : (Sched.init cfg r0).lockOf p = ALock.init := by simp [St.lockOf, Sched.init, lookup]
    exact ⟨by rw [hL]; intro hc; simp [ALock.init] at hc, by rw [hL, hH]; intro _; simp [ALock.init],
      by rw [hL, hW]; rfl⟩
  · intro x hx
    simp only [Sched.init, List.mem_singleton] at hx
    subst hx
    simp [underLockOK, Op.section?]
  · intro x hx
    simp only [Sched.init, List.mem_singleton] at hx
    subst hx
    simp [Op.isWait]

theorem LockInv.reach {n : Nat} {P : Project} {cfg : Cfg} {r0 : Runners} {st : St} (hr : GoodRunners n r0)
    (h : Reach P cfg r0 st) : LockInv P st := by
  induction h with
  | init => exact LockInv.init P cfg r0
  | step c hprev hs ih => exact ih.step (TokInv.reach hr hprev).wf hs

/-! ### consequences -/

/-- per workspace at most one task is inside the lock -/
theorem LockInv.holders_le_one {P : Project} {st : St} (hi : LockInv P st) (p : Nat) : lockHolders p st ≤ 1 := by
  have hA := hi.at_ p
  cases hl : (st.lockOf p).locked
  · have := (hA.free hl).1; omega
  · have := (hA.locked hl).1; omega

/-- a task that leaves `async with lock` finds the lock locked: `release()` does not raise -/
theorem LockInv.unlock_ok {P : Project} {st : St} {t p : Nat} {rest : List Op} (hi : LockInv P st)
    (hops : (st.task t).ops = .unlock p :: rest) : ∃ l, (st.lockOf p).release = .ok l := by
  have ht := task_lt hops
  have hA := hi.at_ p
  have hpos : 0 < lockHolders p st := by
    apply tsum_pos_of ht
    simp [unlocks_eq, hops, Op.isUnlock]
    omega
  have hlk : (st.lockOf p).locked = true := by
    cases hl : (st.lockOf p).locked
    · have := (hA.free hl).1; omega
    · rfl
  exact ⟨{ locked := false, waiters := wakeHead (st.lockOf p).waiters }, by simp [ALock.release, hlk]⟩

/-- scripts of workspace `p` that are between start and noticed end -/
def Op.isRunIn (P : Project) (p : Nat) : Op → Bool
  | .runWait s _ => (P.info s).path == p
  | _ => false

def Task.runningIn (P : Project) (p : Nat) (x : Task) : Nat := (x.ops.filter (Op.isRunIn P p)).length

theorem runIn_noWait (P : Project) (p : Nat) {r : List Op} (h : noWait r = true) : (r.filter (Op.isRunIn P p)).length = 0 := by
  induction r with
  | nil => rfl
  | cons o r ih =>
    simp only [noWait_cons, Bool.and_eq_true, Bool.not_eq_true'] at h
    have : o.isRunIn P p = false := by cases o <;> simp_all [Op.isWait, Op.isRunIn]
    simp only [List.filter_cons, this, Bool.false_eq_true, ↓reduceIte]
    exact ih h.2

theorem runningIn_le_unlocks {P : Project} {x : Task} (p : Nat) (hs : underLockOK P x.ops = true)
    (hn : noWait x.ops.tail = true) : x.runningIn P p ≤ x.unlocks p := by
  unfold Task.runningIn
  rw [unlocks_eq]
  cases hops : x.ops with
  | nil => simp
  | cons o r =>
    rw [hops] at hs hn
    simp only [List.tail_cons] at hn
    rw [List.filter_cons]
    split
    · rename_i hr
      have hmem : Op.unlock p ∈ r := by
        cases o <;> simp [Op.isRunIn] at hr
        rename_i s res
        have := hs
        simp [underLockOK, Op.section?] at this
        rw [← hr]; exact this.1
      have hpos : 0 < ulc p r := by
        unfold ulc
        apply List.length_pos_of_mem (a := Op.unlock p)
        exact List.mem_filter.mpr ⟨hmem, by simp [Op.isUnlock]⟩
      simp only [List.length_cons, runIn_noWait P p hn, ulc_cons]
      omega
    · simp [runIn_noWait P p hn]

/-- **exclusive**: in no reachable configuration two scripts run in the same workspace -/
theorem LockInv.exclusive {P : Project} {st : St} (hi : LockInv P st) (p : Nat) :
    tsum (Task.runningIn P p) st ≤ 1 :=
  Nat.le_trans (tsum_le_tsum (fun x hx => runningIn_le_unlocks p (hi.sect x hx) (hi.nowait x hx))) (hi.holders_le_one p)

end Sched
