import BobModel.Proofs.C20Merge
/-
C20: the dict `nameToJobs`, and the merge loops of `sanitize` keep the invariant for every order
in which names and jobs are processed.
-/
namespace Jenkins

/-! ### name maps -/

def allJobs : NameMap → List Nat
  | [] => []
  | (_, l) :: rest => l ++ allJobs rest

def keysOf (M : NameMap) : List Str := M.map (·.1)

theorem mem_allJobs {M : NameMap} {k : Nat} : k ∈ allJobs M ↔ ∃ e ∈ M, k ∈ e.2 := by
  induction M with
  | nil => simp [allJobs]
  | cons e M ih =>
    obtain ⟨nm, l⟩ := e
    simp only [allJobs, List.mem_append, ih, List.mem_cons, exists_eq_or_imp]

theorem mem_keys_extendName {M : NameMap} {nm : Str} {js : List Nat} {x : Str} :
    x ∈ keysOf (extendName M nm js) ↔ x ∈ keysOf M ∨ x = nm := by
  induction M with
  | nil => simp [extendName, keysOf]
  | cons e M ih =>
    obtain ⟨k, l⟩ := e
    simp only [extendName]
    split
    · rename_i hk; subst hk
      simp only [keysOf, List.map_cons, List.mem_cons]
      constructor
      · rintro (h | h)
        · exact Or.inl (Or.inl h)
        · exact Or.inl (Or.inr h)
      · rintro ((h | h) | h)
        · exact Or.inl h
        · exact Or.inr h
        · exact Or.inl h
    · simp only [keysOf, List.map_cons, List.mem_cons] at ih ⊢
      rw [ih]
      constructor
      · rintro (h | h | h)
        · exact Or.inl (Or.inl h)
        · exact Or.inl (Or.inr h)
        · exact Or.inr h
      · rintro ((h | h) | h)
        · exact Or.inl h
        · exact Or.inr (Or.inl h)
        · exact Or.inr (Or.inr h)

theorem nodup_keys_extendName {M : NameMap} {nm : Str} {js : List Nat} (h : (keysOf M).Nodup) :
    (keysOf (extendName M nm js)).Nodup := by
  induction M with
  | nil => simp [extendName, keysOf]
  | cons e M ih =>
    obtain ⟨k, l⟩ := e
    simp only [keysOf, List.map_cons, List.nodup_cons] at h
    simp only [extendName]
    split
    · simp only [keysOf, List.map_cons, List.nodup_cons]; exact h
    · rename_i hk
      simp only [keysOf, List.map_cons, List.nodup_cons]
      refine ⟨?_, ih h.2⟩
      intro hm
      rcases mem_keys_extendName.mp hm with hm | hm
      · exact h.1 hm
      · exact hk hm

theorem mem_allJobs_extendName {M : NameMap} {nm : Str} {js : List Nat} {k : Nat} :
    k ∈ allJobs (extendName M nm js) ↔ k ∈ allJobs M ∨ k ∈ js := by
  induction M with
  | nil => simp [extendName, allJobs]
  | cons e M ih =>
    obtain ⟨x, l⟩ := e
    simp only [extendName]
    split
    · simp only [allJobs, List.mem_append]
      constructor
      · rintro ((h | h) | h)
        · exact Or.inl (Or.inl h)
        · exact Or.inr h
        · exact Or.inl (Or.inr h)
      · rintro ((h | h) | h)
        · exact Or.inl (Or.inl h)
        · exact Or.inr h
        · exact Or.inl (Or.inr h)
    · simp only [allJobs, List.mem_append, ih]
      constructor
      · rintro (h | h | h)
        · exact Or.inl (Or.inl h)
        · exact Or.inl (Or.inr h)
        · exact Or.inr h
      · rintro ((h | h) | h)
        · exact Or.inl h
        · exact Or.inr (Or.inl h)
        · exact Or.inr (Or.inr h)

theorem nodup_allJobs_extendName {M : NameMap} {nm : Str} {js : List Nat} (h : (allJobs M).Nodup)
    (hjs : js.Nodup) (hd : ∀ k ∈ js, k ∉ allJobs M) : (allJobs (extendName M nm js)).Nodup := by
  induction M with
  | nil => simpa [extendName, allJobs] using hjs
  | cons e M ih =>
    obtain ⟨x, l⟩ := e
    simp only [allJobs, List.nodup_append] at h
    obtain ⟨hl, hM, hdis⟩ := h
    have hd1 : ∀ k ∈ js, k ∉ l := fun k hk hkl => hd k hk (by simp [allJobs, hkl])
    have hd2 : ∀ k ∈ js, k ∉ allJobs M := fun k hk hkM => hd k hk (by simp [allJobs, hkM])
    simp only [extendName]
    split
    · simp only [allJobs, List.nodup_append]
      refine ⟨⟨hl, hjs, ?_⟩, hM, ?_⟩
      · intro a ha b hb e; subst e; exact hd1 a hb ha
      · intro a ha b hb e; subst e
        rcases List.mem_append.mp ha with ha | ha
        · exact hdis a ha a hb rfl
        · exact hd2 a ha hb
    · simp only [allJobs, List.nodup_append]
      refine ⟨hl, ih hM hd2, ?_⟩
      intro a ha b hb e; subst e
      rcases mem_allJobs_extendName.mp hb with hb | hb
      · exact hdis a ha a hb rfl
      · exact hd1 a hb ha

theorem lookup_of_not_key {M : NameMap} {nm : Str} (h : nm ∉ keysOf M) : lookup M nm = [] := by
  induction M with
  | nil => rfl
  | cons e M ih =>
    obtain ⟨x, l⟩ := e
    simp only [keysOf, List.map_cons, List.mem_cons, not_or] at h
    simp only [lookup]
    rw [if_neg (fun e => h.1 e.symm)]
    exact ih h.2

theorem setName_of_not_key {M : NameMap} {nm : Str} {js : List Nat} (h : nm ∉ keysOf M) : setName M nm js = M := by
  induction M with
  | nil => rfl
  | cons e M ih =>
    obtain ⟨x, l⟩ := e
    simp only [keysOf, List.map_cons, List.mem_cons, not_or] at h
    simp only [setName]
    rw [if_neg (fun e => h.1 e.symm), ih h.2]

theorem keys_setName {M : NameMap} {nm : Str} {js : List Nat} : keysOf (setName M nm js) = keysOf M := by
  induction M with
  | nil => rfl
  | cons e M ih =>
    obtain ⟨x, l⟩ := e
    simp only [setName]
    split
    · simp [keysOf]
    · simp only [keysOf, List.map_cons] at ih ⊢; rw [ih]

theorem lookup_sub_allJobs {M : NameMap} {nm : Str} {k : Nat} (h : k ∈ lookup M nm) : k ∈ allJobs M := by
  induction M with
  | nil => cases h
  | cons e M ih =>
    obtain ⟨x, l⟩ := e
    simp only [lookup] at h
    simp only [allJobs, List.mem_append]
    split at h
    · exact Or.inl h
    · exact Or.inr (ih h)

theorem lookup_of_mem {M : NameMap} {nm : Str} {l : List Nat} (hk : (keysOf M).Nodup) (h : (nm, l) ∈ M) :
    lookup M nm = l := by
  induction M with
  | nil => cases h
  | cons e M ih =>
    obtain ⟨x, l'⟩ := e
    simp only [keysOf, List.map_cons, List.nodup_cons] at hk
    simp only [lookup]
    rcases List.mem_cons.mp h with h | h
    · cases h; simp
    · have : x ≠ nm := by
        intro e; subst e
        exact hk.1 (List.mem_map.mpr ⟨(x, l), h, rfl⟩)
      rw [if_neg this]; exact ih hk.2 h

theorem mem_allJobs_setName_sub {M : NameMap} {nm : Str} {js : List Nat} {k : Nat}
    (h : k ∈ allJobs (setName M nm js)) : k ∈ allJobs M ∨ k ∈ js := by
  induction M with
  | nil => cases h
  | cons e M ih =>
    obtain ⟨x, l⟩ := e
    simp only [setName] at h
    split at h
    · simp only [allJobs, List.mem_append] at h ⊢
      rcases h with h | h
      · exact Or.inr h
      · exact Or.inl (Or.inr h)
    · simp only [allJobs, List.mem_append] at h ⊢
      rcases h with h | h
      · exact Or.inl (Or.inl h)
      · exact (ih h).imp Or.inr id

/-- replacing the list of one key: membership -/
theorem mem_allJobs_setName {M : NameMap} {nm : Str} {js : List Nat} {k : Nat} (hk : (keysOf M).Nodup) :
    k ∈ allJobs (setName M nm js) ↔ (∃ e ∈ M, e.1 ≠ nm ∧ k ∈ e.2) ∨ (nm ∈ keysOf M ∧ k ∈ js) := by
  induction M with
  | nil => simp [setName, allJobs, keysOf]
  | cons e M ih =>
    obtain ⟨x, l⟩ := e
    simp only [keysOf, List.map_cons, List.nodup_cons] at hk
    simp only [setName]
    by_cases hx : x = nm
    · subst hx
      rw [if_pos rfl]
      simp only [allJobs, List.mem_append, mem_allJobs]
      constructor
      · rintro (h | ⟨e, he, hke⟩)
        · exact Or.inr ⟨by simp [keysOf], h⟩
        · refine Or.inl ⟨e, List.mem_cons_of_mem _ he, ?_, hke⟩
          intro e1
          exact hk.1 (List.mem_map.mpr ⟨e, he, e1⟩)
      · rintro (⟨e, he, hne, hke⟩ | ⟨_, h⟩)
        · rcases List.mem_cons.mp he with he | he
          · subst he; exact absurd rfl hne
          · exact Or.inr ⟨e, he, hke⟩
        · exact Or.inl h
    · rw [if_neg hx]
      simp only [allJobs, List.mem_append]
      rw [ih hk.2]
      constructor
      · rintro (h | ⟨e, he, hne, hke⟩ | ⟨h1, h2⟩)
        · exact Or.inl ⟨(x, l), by simp, hx, h⟩
        · exact Or.inl ⟨e, List.mem_cons_of_mem _ he, hne, hke⟩
        · exact Or.inr ⟨by simp only [keysOf, List.map_cons, List.mem_cons]; exact Or.inr h1, h2⟩
      · rintro (⟨e, he, hne, hke⟩ | ⟨h1, h2⟩)
        · rcases List.mem_cons.mp he with he | he
          · subst he; exact Or.inl hke
          · exact Or.inr (Or.inl ⟨e, he, hne, hke⟩)
        · simp only [keysOf, List.map_cons, List.mem_cons] at h1
          rcases h1 with h1 | h1
          · exact absurd h1.symm hx
          · exact Or.inr (Or.inr ⟨h1, h2⟩)

theorem nodup_allJobs_setName {M : NameMap} {nm : Str} {js : List Nat} (h : (allJobs M).Nodup)
    (hjs : js.Nodup) (hsub : ∀ k ∈ js, k ∈ lookup M nm) : (allJobs (setName M nm js)).Nodup := by
  induction M with
  | nil => simp [setName, allJobs]
  | cons e M ih =>
    obtain ⟨x, l⟩ := e
    simp only [allJobs, List.nodup_append] at h
    obtain ⟨hl, hM, hdis⟩ := h
    simp only [setName, lookup] at hsub ⊢
    by_cases hx : x = nm
    · subst hx
      rw [if_pos rfl] at hsub ⊢
      simp only [allJobs, List.nodup_append]
      exact ⟨hjs, hM, fun a ha b hb e => hdis a (hsub a ha) b hb e⟩
    · rw [if_neg hx] at hsub ⊢
      simp only [allJobs, List.nodup_append]
      refine ⟨hl, ih hM hsub, ?_⟩
      intro a ha b hb e; subst e
      rcases mem_allJobs_setName_sub hb with hb | hb
      · exact hdis a ha a hb rfl
      · exact hdis a ha a (lookup_sub_allJobs (hsub a hb)) rfl

/-- entries of a map with duplicate free `allJobs` do not share jobs -/
theorem entry_unique {M : NameMap} (h : (allJobs M).Nodup) {e1 e2 : Str × List Nat} (h1 : e1 ∈ M) (h2 : e2 ∈ M)
    {k : Nat} (k1 : k ∈ e1.2) (k2 : k ∈ e2.2) : e1 = e2 := by
  induction M with
  | nil => cases h1
  | cons e M ih =>
    obtain ⟨x, l⟩ := e
    simp only [allJobs, List.nodup_append] at h
    obtain ⟨_, hM, hdis⟩ := h
    rcases List.mem_cons.mp h1 with h1 | h1 <;> rcases List.mem_cons.mp h2 with h2 | h2
    · rw [h1, h2]
    · subst h1
      exact absurd rfl (hdis k k1 k (mem_allJobs.mpr ⟨e2, h2, k2⟩))
    · subst h2
      exact absurd rfl (hdis k k2 k (mem_allJobs.mpr ⟨e1, h1, k1⟩))
    · exact ih hM h1 h2

theorem entry_nodup {M : NameMap} (h : (allJobs M).Nodup) {e : Str × List Nat} (he : e ∈ M) : e.2.Nodup := by
  induction M with
  | nil => cases he
  | cons e' M ih =>
    obtain ⟨x, l⟩ := e'
    simp only [allJobs, List.nodup_append] at h
    rcases List.mem_cons.mp he with he | he
    · subst he; exact h.1
    · exact ih h.2.1 he

theorem lookup_mem {M : NameMap} {nm : Str} {k : Nat} (h : k ∈ lookup M nm) : (nm, lookup M nm) ∈ M := by
  induction M with
  | nil => cases h
  | cons e M ih =>
    obtain ⟨x, l⟩ := e
    simp only [lookup] at h ⊢
    by_cases hx : x = nm
    · subst hx; rw [if_pos rfl]; simp
    · rw [if_neg hx] at h ⊢; exact List.mem_cons_of_mem _ (ih h)

/-! ### the loops -/

/-- the name map lists every live job exactly once -/
structure NamesOk (M : NameMap) (s : St) : Prop where
  keys : (keysOf M).Nodup
  nodup : (allJobs M).Nodup
  live : ∀ k, k ∈ allJobs M ↔ s.v2j k = some k

theorem live_mrg {m : Nat → Option Nat} {i j : Nat} (hi : m i = some i) (hj : m j = some j) (hij : i ≠ j) (k : Nat) :
    mrg m i j k = some k ↔ (m k = some k ∧ k ≠ j) := by
  rw [mrg_eq_some]
  constructor
  · rintro (⟨hkj, hki⟩ | ⟨hkj, hkk⟩)
    · subst hki; rw [hi] at hkj; cases hkj; exact absurd rfl hij
    · exact ⟨hkk, fun e => hkj (by rw [e]; exact hj)⟩
  · rintro ⟨hkk, hkj⟩
    exact Or.inr ⟨by rw [hkk]; simpa using hkj, hkk⟩

theorem Inv.with_names {g : Graph} {n : Nat} {s : St} (h : Inv g n s) (M : NameMap) :
    Inv g n { s with names := M } :=
  { lt := h.lt, rep := h.rep, closed := h.closed, pkgs := h.pkgs, parents := h.parents, childs := h.childs,
    acyclic := h.acyclic }

theorem inner_spec {g : Graph} {n : Nat} (i : Nat) :
    ∀ (rem todo : List Nat) (s : St),
      Inv g n s → s.v2j i = some i → (∀ k ∈ rem ++ todo, s.v2j k = some k) → i ∉ rem ++ todo →
      (rem ++ todo).Nodup →
      Inv g n (inner n i rem todo s).1 ∧ (inner n i rem todo s).1.v2j i = some i ∧
      (inner n i rem todo s).1.names = s.names ∧ (inner n i rem todo s).2.Nodup ∧ i ∉ (inner n i rem todo s).2 ∧
      (∀ k ∈ (inner n i rem todo s).2, k ∈ rem ++ todo) ∧ (∀ k ∈ todo, k ∈ (inner n i rem todo s).2) ∧
      (∀ k, (inner n i rem todo s).1.v2j k = some k ↔ (s.v2j k = some k ∧ (k ∈ rem → k ∈ (inner n i rem todo s).2))) ∧
      (inner n i rem todo s).2.length ≤ rem.length + todo.length := by
  intro rem
  induction rem with
  | nil =>
    intro todo s h hi hl hni hnd
    simp only [inner, List.nil_append] at *
    refine ⟨h, hi, by first | rfl | trivial, hnd, hni, fun k hk => hk, fun k hk => hk, fun k => ?_, by simp⟩
    simp
  | cons j rem ih =>
    intro todo s h hi hl hni hnd
    have hj : s.v2j j = some j := hl j (by simp)
    have hij : i ≠ j := fun e => hni (by simp [e])
    have hnd' : (j :: (rem ++ todo)).Nodup := by simpa using hnd
    have hjn : j ∉ rem ++ todo := (List.nodup_cons.mp hnd').1
    have hnd2 : (rem ++ todo).Nodup := (List.nodup_cons.mp hnd').2
    simp only [inner]
    cases hc : comparable s i j with
    | true =>
      simp only [if_true]
      have hl' : ∀ k ∈ rem ++ (todo ++ [j]), s.v2j k = some k := by
        intro k hk; apply hl; simp only [List.mem_append, List.mem_cons, List.mem_singleton, List.not_mem_nil, or_false] at hk ⊢
        rcases hk with hk | hk | hk
        · exact Or.inl (Or.inr hk)
        · exact Or.inr hk
        · exact Or.inl (Or.inl hk)
      have hni' : i ∉ rem ++ (todo ++ [j]) := by
        intro hk; apply hni; simp only [List.mem_append, List.mem_cons, List.mem_singleton, List.not_mem_nil, or_false] at hk ⊢
        rcases hk with hk | hk | hk
        · exact Or.inl (Or.inr hk)
        · exact Or.inr hk
        · exact absurd hk hij
      have hnd'' : (rem ++ (todo ++ [j])).Nodup := by
        rw [← List.append_assoc, List.nodup_append]
        refine ⟨hnd2, by simp, ?_⟩
        intro a ha b hb e; simp at hb; subst hb; subst e; exact hjn ha
      obtain ⟨r1, r2, r3, r4, r5, r6, r7, r8, r9⟩ := ih (todo ++ [j]) s h hi hl' hni' hnd''
      refine ⟨r1, r2, r3, r4, r5, ?_, ?_, ?_, ?_⟩
      · intro k hk
        have := r6 k hk
        simp only [List.mem_append, List.mem_cons, List.mem_singleton, List.not_mem_nil, or_false] at this ⊢
        rcases this with h1 | h1 | h1
        · exact Or.inl (Or.inr h1)
        · exact Or.inr h1
        · exact Or.inl (Or.inl h1)
      · intro k hk; exact r7 k (by simp [hk])
      · intro k; rw [r8 k]
        constructor
        · rintro ⟨h1, h2⟩
          refine ⟨h1, fun hk => ?_⟩
          rcases List.mem_cons.mp hk with hk | hk
          · subst hk; exact r7 k (by simp)
          · exact h2 hk
        · rintro ⟨h1, h2⟩; exact ⟨h1, fun hk => h2 (List.mem_cons_of_mem _ hk)⟩
      · simp only [List.length_append, List.length_cons, List.length_nil] at r9 ⊢; omega
    | false =>
      simp only [Bool.false_eq_true, if_false]
      obtain ⟨hI, hv, hn⟩ := inv_mergeInto h hi hj hij hc
      have hlive := live_mrg (m := s.v2j) hi hj hij
      have hl' : ∀ k ∈ rem ++ todo, (mergeInto n i j s).v2j k = some k := by
        intro k hk; rw [hv]
        exact (hlive k).mpr ⟨hl k (List.mem_cons_of_mem _ hk), fun e => hjn (e ▸ hk)⟩
      have hi' : (mergeInto n i j s).v2j i = some i := by rw [hv]; exact (hlive i).mpr ⟨hi, hij⟩
      have hni' : i ∉ rem ++ todo := fun hk => hni (List.mem_cons_of_mem _ hk)
      obtain ⟨r1, r2, r3, r4, r5, r6, r7, r8, r9⟩ := ih todo (mergeInto n i j s) hI hi' hl' hni' hnd2
      refine ⟨r1, r2, by rw [r3, hn], r4, r5, fun k hk => List.mem_cons_of_mem _ (r6 k hk), r7, ?_, ?_⟩
      · intro k; rw [r8 k, hv, hlive k]
        have hjr : j ∉ (inner n i rem todo (mergeInto n i j s)).2 := fun hk => hjn (r6 j hk)
        constructor
        · rintro ⟨⟨h1, h2⟩, h3⟩
          refine ⟨h1, fun hk => ?_⟩
          rcases List.mem_cons.mp hk with hk | hk
          · exact absurd hk h2
          · exact h3 hk
        · rintro ⟨h1, h2⟩
          refine ⟨⟨h1, ?_⟩, fun hk => h2 (List.mem_cons_of_mem _ hk)⟩
          intro e; subst e; exact hjr (h2 (by simp))
      · simp only [List.length_cons] at r9 ⊢; omega

theorem mergeLoop_spec {g : Graph} {n : Nat} :
    ∀ (fuel : Nat) (todo jobs : List Nat) (s : St),
      Inv g n s → (∀ k ∈ todo ++ jobs, s.v2j k = some k) → (todo ++ jobs).Nodup → todo.length < fuel →
      Inv g n (mergeLoop n fuel todo jobs s).1 ∧ (mergeLoop n fuel todo jobs s).1.names = s.names ∧
      (mergeLoop n fuel todo jobs s).2.Nodup ∧
      (∀ k ∈ (mergeLoop n fuel todo jobs s).2, k ∈ todo ++ jobs) ∧ (∀ k ∈ jobs, k ∈ (mergeLoop n fuel todo jobs s).2) ∧
      (∀ k, (mergeLoop n fuel todo jobs s).1.v2j k = some k ↔
        (s.v2j k = some k ∧ (k ∈ todo → k ∈ (mergeLoop n fuel todo jobs s).2))) := by
  intro fuel
  induction fuel with
  | zero => intro todo jobs s _ _ _ hf; omega
  | succ f ih =>
    intro todo jobs s h hl hnd hf
    cases todo with
    | nil =>
      simp only [mergeLoop, List.nil_append] at *
      exact ⟨h, by first | rfl | trivial, hnd, fun k hk => hk, fun k hk => hk, fun k => by simp⟩
    | cons i rest =>
      simp only [mergeLoop]
      have hi : s.v2j i = some i := hl i (by simp)
      have hnd' : (i :: (rest ++ jobs)).Nodup := by simpa using hnd
      have hin : i ∉ rest ++ jobs := (List.nodup_cons.mp hnd').1
      have hnd2 : (rest ++ jobs).Nodup := (List.nodup_cons.mp hnd').2
      have hnd3 : rest.Nodup := (List.nodup_append.mp hnd2).1
      obtain ⟨q1, q2, q3, q4, q5, q6, _, q8, q9⟩ := inner_spec (g := g) (n := n) i rest [] s h hi
        (fun k hk => hl k (by simp at hk; simp [hk])) (fun hk => hin (by simp at hk; simp [hk])) (by simpa using hnd3)
      -- abbreviations
      have hsub : ∀ k ∈ (inner n i rest [] s).2, k ∈ rest := fun k hk => by simpa using q6 k hk
      have hl' : ∀ k ∈ (inner n i rest [] s).2 ++ (jobs ++ [i]), (inner n i rest [] s).1.v2j k = some k := by
        intro k hk
        simp only [List.mem_append, List.mem_singleton] at hk
        rcases hk with hk | hk | hk
        · exact (q8 k).mpr ⟨hl k (by simp [hsub k hk]), fun _ => hk⟩
        · refine (q8 k).mpr ⟨hl k (by simp [hk]), fun hr => ?_⟩
          exact absurd hk (fun hk => (List.nodup_append.mp hnd2).2.2 k hr k hk rfl)
        · subst hk; exact q2
      have hndn : ((inner n i rest [] s).2 ++ (jobs ++ [i])).Nodup := by
        rw [List.nodup_append]
        refine ⟨q4, ?_, ?_⟩
        · rw [List.nodup_append]
          refine ⟨(List.nodup_append.mp hnd2).2.1, by simp, ?_⟩
          intro a ha b hb e; simp at hb; subst hb; subst e; exact hin (by simp [ha])
        · intro a ha b hb e; subst e
          simp only [List.mem_append, List.mem_singleton] at hb
          rcases hb with hb | hb
          · exact (List.nodup_append.mp hnd2).2.2 a (hsub a ha) a hb rfl
          · subst hb; exact q5 ha
      have hlen : (inner n i rest [] s).2.length < f := by
        simp only [List.length_cons, List.length_nil] at hf q9; omega
      obtain ⟨r1, r2, r3, r4, r5, r6⟩ := ih (inner n i rest [] s).2 (jobs ++ [i]) (inner n i rest [] s).1 q1 hl' hndn hlen
      refine ⟨r1, by rw [r2, q3], r3, ?_, fun k hk => r5 k (by simp [hk]), ?_⟩
      · intro k hk
        have := r4 k hk
        simp only [List.mem_append, List.mem_cons, List.not_mem_nil, or_false] at this ⊢
        rcases this with h1 | h1 | h1
        · exact Or.inl (Or.inr (hsub k h1))
        · exact Or.inr h1
        · exact Or.inl (Or.inl h1)
      · intro k; rw [r6 k, q8 k]
        constructor
        · rintro ⟨⟨h1, h2⟩, h3⟩
          refine ⟨h1, fun hk => ?_⟩
          rcases List.mem_cons.mp hk with hk | hk
          · subst hk; exact r5 k (by simp)
          · exact h3 (h2 hk)
        · rintro ⟨h1, h2⟩
          refine ⟨⟨h1, fun hk => ?_⟩, fun hk => h2 (List.mem_cons_of_mem _ (hsub k hk))⟩
          have := r4 k (h2 (List.mem_cons_of_mem _ hk))
          simp only [List.mem_append, List.mem_singleton] at this
          rcases this with h3 | h3 | h3
          · exact h3
          · exact absurd h3 (fun h3 => (List.nodup_append.mp hnd2).2.2 k hk k h3 rfl)
          · subst h3; exact absurd (by simp [hk]) hin

theorem mergeName_spec {g : Graph} {n : Nat} {s : St} (nm : Str) (h : Inv g n s) (hN : NamesOk s.names s) :
    Inv g n (mergeName n s nm) ∧ NamesOk (mergeName n s nm).names (mergeName n s nm) := by
  have hl : ∀ k ∈ lookup s.names nm ++ [], s.v2j k = some k := by
    intro k hk; simp only [List.append_nil] at hk
    exact (hN.live k).mp (lookup_sub_allJobs hk)
  have hnd : (lookup s.names nm ++ []).Nodup := by
    simp only [List.append_nil]
    cases hlk : lookup s.names nm with
    | nil => simp
    | cons a l =>
      have : a ∈ lookup s.names nm := by rw [hlk]; simp
      have := entry_nodup hN.nodup (lookup_mem this)
      rwa [hlk] at this
  obtain ⟨r1, r2, r3, r4, _, r6⟩ := mergeLoop_spec (g := g) (n := n) ((lookup s.names nm).length + 1)
    (lookup s.names nm) [] s h hl hnd (Nat.lt_succ_self _)
  have hsub : ∀ k ∈ (mergeLoop n ((lookup s.names nm).length + 1) (lookup s.names nm) [] s).2, k ∈ lookup s.names nm :=
    fun k hk => by simpa using r4 k hk
  refine ⟨?_, ?_⟩
  · exact (Inv.with_names r1 _)
  · show NamesOk (setName (mergeLoop n _ _ [] s).1.names nm (mergeLoop n _ _ [] s).2) _
    rw [r2]
    refine ⟨by rw [keys_setName]; exact hN.keys, nodup_allJobs_setName hN.nodup r3 hsub, ?_⟩
    intro k
    show _ ↔ (mergeLoop n _ _ [] s).1.v2j k = some k
    rw [r6 k, mem_allJobs_setName hN.keys]
    constructor
    · rintro (⟨e, he, hne, hke⟩ | ⟨_, hk⟩)
      · refine ⟨(hN.live k).mp (mem_allJobs.mpr ⟨e, he, hke⟩), fun hk => ?_⟩
        have := entry_unique hN.nodup he (lookup_mem hk) hke hk
        rw [this] at hne; exact absurd rfl hne
      · exact ⟨(hN.live k).mp (lookup_sub_allJobs (hsub k hk)), fun _ => hk⟩
    · rintro ⟨h1, h2⟩
      obtain ⟨e, he, hke⟩ := mem_allJobs.mp ((hN.live k).mpr h1)
      by_cases hne : e.1 = nm
      · have hl := lookup_of_mem hN.keys (show (nm, e.2) ∈ s.names by rw [← hne]; exact he)
        exact Or.inr ⟨List.mem_map.mpr ⟨e, he, hne⟩, h2 (by rw [hl]; exact hke)⟩
      · exact Or.inl ⟨e, he, hne, hke⟩

theorem mergeAll_spec {g : Graph} {n : Nat} (L : List Str) :
    ∀ (s : St), Inv g n s → NamesOk s.names s →
      Inv g n (L.foldl (mergeName n) s) ∧ NamesOk (L.foldl (mergeName n) s).names (L.foldl (mergeName n) s) := by
  induction L with
  | nil => intro s h hN; exact ⟨h, hN⟩
  | cons nm L ih =>
    intro s h hN
    obtain ⟨h1, h2⟩ := mergeName_spec nm h hN
    exact ih _ h1 h2

end Jenkins
