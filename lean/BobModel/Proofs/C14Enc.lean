import BobModel.Model.Audit
/-
Helper lemmas for C14, part 1: the digest encoding is uniquely decodable.

`enc` (plain tagged encoding) is prefix-free on values that `struct.pack` accepts, and
`digest = enc ∘ canon`.
-/
namespace Audit
open Consts.C14

/-! ### little endian fixed width integers -/

theorem le_length (k n : Nat) : (Bytes.le k n).length = k := by
  induction k generalizing n with
  | zero => simp [Bytes.le]
  | succ k ih => simp [Bytes.le, ih]

theorem u8_ofNat_inj {a b : Nat} (ha : a < 256) (hb : b < 256) (h : UInt8.ofNat a = UInt8.ofNat b) : a = b := by
  have := congrArg UInt8.toNat h
  simp [UInt8.toNat_ofNat'] at this
  omega

theorem le_inj (k : Nat) : ∀ n m : Nat, n < 256 ^ k → m < 256 ^ k → Bytes.le k n = Bytes.le k m → n = m := by
  induction k with
  | zero => intro n m hn hm _; simp at hn hm; omega
  | succ k ih =>
    intro n m hn hm h
    simp only [Bytes.le, List.cons.injEq] at h
    have h1 := u8_ofNat_inj (Nat.mod_lt _ (by decide)) (Nat.mod_lt _ (by decide)) h.1
    have hn' : n / 256 < 256 ^ k := by
      rw [Nat.div_lt_iff_lt_mul (by decide)]; rw [Nat.pow_succ] at hn; exact hn
    have hm' : m / 256 < 256 ^ k := by
      rw [Nat.div_lt_iff_lt_mul (by decide)]; rw [Nat.pow_succ] at hm; exact hm
    have h2 := ih _ _ hn' hm' h.2
    omega

theorem le_append_inj {k n m : Nat} {r r' : Bytes} (hn : n < 256 ^ k) (hm : m < 256 ^ k)
    (h : Bytes.le k n ++ r = Bytes.le k m ++ r') : n = m ∧ r = r' := by
  have := List.append_inj h (by simp [le_length])
  exact ⟨le_inj k n m hn hm this.1, this.2⟩

/-! ### UTF-8 is a prefix code -/

theorem utf8Char_append_inj {c c' : Char} {r r' : Bytes}
    (h : String.utf8EncodeChar c ++ r = String.utf8EncodeChar c' ++ r') : c = c' ∧ r = r' := by
  have h1 : ((String.utf8EncodeChar c ++ r).toByteArray).utf8DecodeChar? 0 = some c := by
    rw [List.toByteArray_append]; exact ByteArray.utf8DecodeChar?_utf8EncodeChar_append
  have h2 : ((String.utf8EncodeChar c' ++ r').toByteArray).utf8DecodeChar? 0 = some c' := by
    rw [List.toByteArray_append]; exact ByteArray.utf8DecodeChar?_utf8EncodeChar_append
  rw [h, h2] at h1
  have hc : c = c' := (Option.some.inj h1).symm
  subst hc
  exact ⟨rfl, List.append_cancel_left h⟩

theorem utf8_append_inj : ∀ (s s' : Str) (r r' : Bytes), s.length = s'.length →
    utf8 s ++ r = utf8 s' ++ r' → s = s' ∧ r = r'
  | [], [], r, r', _, h => by simpa [utf8] using h
  | [], _ :: _, _, _, hl, _ => by simp at hl
  | _ :: _, [], _, _, hl, _ => by simp at hl
  | c :: s, c' :: s', r, r', hl, h => by
    simp only [utf8, List.flatMap_cons, List.append_assoc] at h
    have ⟨hc, ht⟩ := utf8Char_append_inj h
    have ⟨hs, hr⟩ := utf8_append_inj s s' r r' (by simpa using hl) (by simpa [utf8] using ht)
    exact ⟨by rw [hc, hs], hr⟩

/-! ### headers -/

theorem lenOk_lt {n : Nat} (h : lenOk n = true) : n < 256 ^ 4 := by
  simp [lenOk] at h; omega

theorem hdr_append_inj {t n m : Nat} {r r' : Bytes} (hn : lenOk n = true) (hm : lenOk m = true)
    (h : hdr t n ++ r = hdr t m ++ r') : n = m ∧ r = r' := by
  simp only [hdr, List.cons_append, List.cons.injEq, true_and] at h
  exact le_append_inj (lenOk_lt hn) (lenOk_lt hm) h

theorem encStr_append_inj {s s' : Str} {r r' : Bytes} (hs : lenOk s.length = true) (hs' : lenOk s'.length = true)
    (h : encStr s ++ r = encStr s' ++ r') : s = s' ∧ r = r' := by
  simp only [encStr, List.append_assoc] at h
  have ⟨hl, ht⟩ := hdr_append_inj hs hs' h
  exact utf8_append_inj s s' r r' hl ht

theorem encInt_append_inj {i j : Int} {r r' : Bytes}
    (hi : -9223372036854775808 ≤ i ∧ i < 9223372036854775808)
    (hj : -9223372036854775808 ≤ j ∧ j < 9223372036854775808)
    (h : encInt i ++ r = encInt j ++ r') : i = j ∧ r = r' := by
  simp only [encInt, List.cons_append, List.cons.injEq, true_and] at h
  have ⟨hn, hr⟩ := le_append_inj (k := 8) (by omega) (by omega) h
  exact ⟨by omega, hr⟩

/-! ### tags -/

def tagOf : Data → Nat
  | .str _ => tagStr | .map _ => tagMap | .list _ => tagList | .int _ => tagInt
  | .bool _ => tagBool | .bytes _ => tagBytes | .null => tagNone

/-- the seven tags are pairwise different bytes (checked on the constants extracted from the source) -/
theorem tags_distinct :
    [tagMap, tagStr, tagList, tagInt, tagBool, tagBytes, tagNone].Nodup ∧
    ∀ t ∈ [tagMap, tagStr, tagList, tagInt, tagBool, tagBytes, tagNone], t < 256 := by decide

theorem tagOf_lt (d : Data) : tagOf d < 256 := by
  cases d <;> simp [tagOf, tagStr, tagMap, tagList, tagInt, tagBool, tagBytes, tagNone]

theorem enc_head (d : Data) : ∃ body, enc d = UInt8.ofNat (tagOf d) :: body := by
  cases d <;> simp [enc, encStr, encInt, hdr, tagOf]

theorem enc_tag_eq {d d' : Data} {r r' : Bytes} (h : enc d ++ r = enc d' ++ r') : tagOf d = tagOf d' := by
  obtain ⟨b, hb⟩ := enc_head d
  obtain ⟨b', hb'⟩ := enc_head d'
  rw [hb, hb'] at h
  simp only [List.cons_append, List.cons.injEq] at h
  exact u8_ofNat_inj (tagOf_lt d) (tagOf_lt d') h.1

/-! ### unique decodability of `enc` -/

theorem enc_inj_all :
    (∀ d : Data, ∀ d' r r', fits d = true → fits d' = true → enc d ++ r = enc d' ++ r' → d = d' ∧ r = r') ∧
    (∀ xs : List Data, ∀ xs' r r', xs.length = xs'.length → fitsList xs = true → fitsList xs' = true →
        encList xs ++ r = encList xs' ++ r' → xs = xs' ∧ r = r') ∧
    (∀ kvs : List (Str × Data), ∀ kvs' r r', kvs.length = kvs'.length → fitsKVs kvs = true → fitsKVs kvs' = true →
        encKVs kvs ++ r = encKVs kvs' ++ r' → kvs = kvs' ∧ r = r') := by
  apply enc.mutual_induct
  · -- str
    intro s d' r r' hf hf' h
    have ht := enc_tag_eq h
    cases d' <;> simp [tagOf, tagStr, tagMap, tagList, tagInt, tagBool, tagBytes, tagNone] at ht
    simp only [fits] at hf hf'
    simp only [enc] at h
    have := encStr_append_inj hf hf' h
    exact ⟨by rw [this.1], this.2⟩
  · -- map
    intro kvs ih d' r r' hf hf' h
    have ht := enc_tag_eq h
    cases d' <;> simp [tagOf, tagStr, tagMap, tagList, tagInt, tagBool, tagBytes, tagNone] at ht
    rename_i kvs'
    simp only [fits, Bool.and_eq_true] at hf hf'
    simp only [enc, List.append_assoc] at h
    have ⟨hl, ht⟩ := hdr_append_inj hf.1 hf'.1 h
    have := ih kvs' r r' hl hf.2 hf'.2 ht
    exact ⟨by rw [this.1], this.2⟩
  · -- list
    intro xs ih d' r r' hf hf' h
    have ht := enc_tag_eq h
    cases d' <;> simp [tagOf, tagStr, tagMap, tagList, tagInt, tagBool, tagBytes, tagNone] at ht
    rename_i xs'
    simp only [fits, Bool.and_eq_true] at hf hf'
    simp only [enc, List.append_assoc] at h
    have ⟨hl, ht⟩ := hdr_append_inj hf.1 hf'.1 h
    have := ih xs' r r' hl hf.2 hf'.2 ht
    exact ⟨by rw [this.1], this.2⟩
  · -- int
    intro i d' r r' hf hf' h
    have ht := enc_tag_eq h
    cases d' <;> simp [tagOf, tagStr, tagMap, tagList, tagInt, tagBool, tagBytes, tagNone] at ht
    simp only [fits, Bool.and_eq_true, decide_eq_true_eq] at hf hf'
    simp only [enc] at h
    have := encInt_append_inj hf hf' h
    exact ⟨by rw [this.1], this.2⟩
  · -- bool
    intro b d' r r' _ _ h
    have ht := enc_tag_eq h
    cases d' <;> simp [tagOf, tagStr, tagMap, tagList, tagInt, tagBool, tagBytes, tagNone] at ht
    rename_i b'
    simp only [enc, List.cons_append, List.cons.injEq, true_and, List.nil_append] at h
    refine ⟨?_, h.2⟩
    have h1 := h.1
    cases b <;> cases b' <;> simp_all
  · -- bytes
    intro b d' r r' hf hf' h
    have ht := enc_tag_eq h
    cases d' <;> simp [tagOf, tagStr, tagMap, tagList, tagInt, tagBool, tagBytes, tagNone] at ht
    rename_i b'
    simp only [fits] at hf hf'
    simp only [enc, List.append_assoc] at h
    have ⟨hl, ht⟩ := hdr_append_inj hf hf' h
    have := List.append_inj ht hl
    exact ⟨by rw [this.1], this.2⟩
  · -- null
    intro d' r r' _ _ h
    have ht := enc_tag_eq h
    cases d' <;> simp [tagOf, tagStr, tagMap, tagList, tagInt, tagBool, tagBytes, tagNone] at ht
    simp only [enc, List.cons_append, List.cons.injEq, true_and, List.nil_append] at h
    exact ⟨rfl, h⟩
  · -- kvs nil
    intro kvs' r r' hl _ _ h
    cases kvs' with
    | nil => simpa [encKVs] using h
    | cons _ _ => simp at hl
  · -- kvs cons
    intro k v rest ihv ihr kvs' r r' hl hf hf' h
    cases kvs' with
    | nil => simp at hl
    | cons p rest' =>
      obtain ⟨k', v'⟩ := p
      simp only [fitsKVs, Bool.and_eq_true] at hf hf'
      simp only [encKVs, List.append_assoc] at h
      have ⟨hk, h1⟩ := encStr_append_inj hf.1.1 hf'.1.1 h
      have ⟨hv, h2⟩ := ihv v' _ _ hf.1.2 hf'.1.2 h1
      have ⟨hr, h3⟩ := ihr rest' r r' (by simpa using hl) hf.2 hf'.2 h2
      exact ⟨by rw [hk, hv, hr], h3⟩
  · -- list nil
    intro xs' r r' hl _ _ h
    cases xs' with
    | nil => simpa [encList] using h
    | cons _ _ => simp at hl
  · -- list cons
    intro x xs ihx ihxs xs' r r' hl hf hf' h
    cases xs' with
    | nil => simp at hl
    | cons x' rest' =>
      simp only [fitsList, Bool.and_eq_true] at hf hf'
      simp only [encList, List.append_assoc] at h
      have ⟨hx, h1⟩ := ihx x' _ _ hf.1 hf'.1 h
      have ⟨hr, h2⟩ := ihxs rest' r r' (by simpa using hl) hf.2 hf'.2 h1
      exact ⟨by rw [hx, hr], h2⟩

theorem enc_inj {d d' : Data} (hf : fits d = true) (hf' : fits d' = true) (h : enc d = enc d') : d = d' := by
  have := enc_inj_all.1 d d' [] [] hf hf' (by simpa using h)
  exact this.1

/-! ### `digest = enc ∘ canon` -/

def mapVals {α β : Type} (f : α → β) : List (Str × α) → List (Str × β)
  | [] => []
  | (k, v) :: rest => (k, f v) :: mapVals f rest

theorem insertKV_mapVals {α β : Type} (f : α → β) (k : Str) (v : α) (l : List (Str × α)) :
    insertKV k (f v) (mapVals f l) = mapVals f (insertKV k v l) := by
  induction l with
  | nil => simp [insertKV, mapVals]
  | cons p rest ih =>
    obtain ⟨k', v'⟩ := p
    simp only [mapVals, insertKV]
    split
    · simp [mapVals]
    · simp [mapVals, ih]

theorem sortKV_mapVals {α β : Type} (f : α → β) (l : List (Str × α)) :
    sortKV (mapVals f l) = mapVals f (sortKV l) := by
  induction l with
  | nil => simp [sortKV, mapVals]
  | cons p rest ih =>
    obtain ⟨k, v⟩ := p
    simp only [mapVals, sortKV, ih, insertKV_mapVals]

theorem joinKV_mapVals_enc (l : List (Str × Data)) : joinKV (mapVals enc l) = encKVs l := by
  induction l with
  | nil => simp [joinKV, mapVals, encKVs]
  | cons p rest ih =>
    obtain ⟨k, v⟩ := p
    simp [joinKV, mapVals, encKVs, ih]

theorem length_insertKV {α : Type} (k : Str) (v : α) (l : List (Str × α)) : (insertKV k v l).length = l.length + 1 := by
  induction l with
  | nil => simp [insertKV]
  | cons p rest ih =>
    obtain ⟨k', v'⟩ := p
    simp only [insertKV]
    split <;> simp [ih]

theorem length_sortKV {α : Type} (l : List (Str × α)) : (sortKV l).length = l.length := by
  induction l with
  | nil => simp [sortKV]
  | cons p rest ih =>
    obtain ⟨k, v⟩ := p
    simp [sortKV, length_insertKV, ih]

theorem digest_eq_all :
    (∀ d : Data, digest d = enc (canon d)) ∧
    (∀ xs : List Data, digestList xs = encList (canonList xs) ∧ (canonList xs).length = xs.length) ∧
    (∀ kvs : List (Str × Data), digestKVs kvs = mapVals enc (canonKVs kvs) ∧ (canonKVs kvs).length = kvs.length) := by
  apply enc.mutual_induct
  · intro s; simp [digest, canon, enc]
  · intro kvs ih
    simp only [digest, canon, enc, ih.1, sortKV_mapVals, joinKV_mapVals_enc, length_sortKV, ih.2]
  · intro xs ih
    simp only [digest, canon, enc, ih.1, ih.2]
  · intro i; simp [digest, canon, enc]
  · intro b
    simp only [digest, canon]
    split <;> simp [enc]
  · intro b; simp [digest, canon, enc]
  · simp [digest, canon, enc]
  · simp [digestKVs, canonKVs, mapVals]
  · intro k v rest ihv ihr
    simp [digestKVs, canonKVs, mapVals, ihv, ihr.1, ihr.2]
  · simp [digestList, canonList, encList]
  · intro x xs ihx ihxs
    simp [digestList, canonList, encList, ihx, ihxs.1, ihxs.2]

theorem digest_eq_enc_canon (d : Data) : digest d = enc (canon d) := digest_eq_all.1 d

/-! ### `canon` keeps values encodable -/

theorem fitsKVs_insertKV (k : Str) (v : Data) (l : List (Str × Data)) :
    fitsKVs (insertKV k v l) = (lenOk k.length && fits v && fitsKVs l) := by
  induction l with
  | nil => simp [insertKV, fitsKVs]
  | cons p rest ih =>
    obtain ⟨k', v'⟩ := p
    simp only [insertKV]
    split
    · simp [fitsKVs]
    · simp only [fitsKVs, ih]
      cases lenOk k.length <;> cases fits v <;> cases lenOk k'.length <;> cases fits v' <;> simp

theorem fitsKVs_sortKV (l : List (Str × Data)) : fitsKVs (sortKV l) = fitsKVs l := by
  induction l with
  | nil => simp [sortKV]
  | cons p rest ih =>
    obtain ⟨k, v⟩ := p
    simp [sortKV, fitsKVs_insertKV, ih, fitsKVs]

theorem fits_canon_all :
    (∀ d : Data, fits d = true → fits (canon d) = true) ∧
    (∀ xs : List Data, fitsList xs = true → fitsList (canonList xs) = true) ∧
    (∀ kvs : List (Str × Data), fitsKVs kvs = true → fitsKVs (canonKVs kvs) = true) := by
  apply enc.mutual_induct
  · intro s h; simpa [canon] using h
  · intro kvs ih h
    simp only [fits, Bool.and_eq_true] at h
    simp only [canon, fits, Bool.and_eq_true, length_sortKV, fitsKVs_sortKV]
    exact ⟨by rw [digest_eq_all.2.2 kvs |>.2]; exact h.1, ih h.2⟩
  · intro xs ih h
    simp only [fits, Bool.and_eq_true] at h
    simp only [canon, fits, Bool.and_eq_true]
    exact ⟨by rw [digest_eq_all.2.1 xs |>.2]; exact h.1, ih h.2⟩
  · intro i h; simpa [canon] using h
  · intro b _
    simp only [canon]
    split
    · cases b <;> simp [fits]
    · simp [fits]
  · intro b h; simpa [canon] using h
  · intro _; simp [canon, fits]
  · intro _; simp [canonKVs, fitsKVs]
  · intro k v rest ihv ihr h
    simp only [fitsKVs, Bool.and_eq_true] at h
    simp only [canonKVs, fitsKVs, Bool.and_eq_true]
    exact ⟨⟨h.1.1, ihv h.1.2⟩, ihr h.2⟩
  · intro _; simp [canonList, fitsList]
  · intro x xs ihx ihxs h
    simp only [fitsList, Bool.and_eq_true] at h
    simp only [canonList, fitsList, Bool.and_eq_true]
    exact ⟨ihx h.1, ihxs h.2⟩

theorem fits_canon {d : Data} (h : fits d = true) : fits (canon d) = true := fits_canon_all.1 d h

end Audit
