import BobModel.Proofs.C06Order10
/-
Ordering invariants of the scheduler model, part 11: `DepsInv` holds in every reachable configuration of a
parallel build (`cfg.par = true`); **deps_first** and the state form `DepsAtEnd` follow.
-/
namespace Sched
open JobSem

theorem DepsInv.of_eq {P : Project} {st st' : St} (hi : DepsInv P st) (h1 : st'.tasks = st.tasks)
    (h2 : st'.wasRun = st.wasRun) (h3 : st'.trace = st.trace) (h4 : st'.cookT = st.cookT) : DepsInv P st' := by
  have ht : ∀ i, st'.task i = st.task i := fun i => by simp [St.task, h1]
  have hcooks : ∀ k d, cooks P st k d → cooks P st' k d := by
    intro k d ⟨d', a, b, c⟩
    exact ⟨d', by rw [ht]; exact a, b, c⟩
  refine ⟨?_, ?_, ?_, ?_, ?_, ?_, ?_⟩
  · rw [h2, h3]; exact hi.ranFin
  · intro i; rw [ht, h3]; exact hi.setFin i
  · intro i; rw [ht, h3]; exact hi.live i
  · intro key k hm
    rw [h4] at hm
    obtain ⟨d, a, b, c⟩ := hi.track key k hm
    exact ⟨d, by rw [ht]; exact a, b, c⟩
  · intro i; rw [ht]; exact hi.sv i
  · intro i
    rw [ht]
    refine chk_mono (fun o s h => covers_mono ⟨[], by simp [h3]⟩ hcooks o s h) _ _ _ ?_ (hi.ord i)
    intro s hs
    exact depsDone_mono ⟨[], by simp [h3]⟩ s hs
  · rw [h3]; exact hi.first

theorem DepsInv.step {P : Project} {cfg : Cfg} {st st' : St} {c : Choice}
    (hpv : PathVid P) (hpar : cfg.par = true) (ho : OnceInv P st) (hl : LockInv P st)
    (hwf : ∀ x ∈ st.tasks, x.wf = true) (hi : DepsInv P st)
    (h : step P cfg st c = some st') : DepsInv P st' := by
  cases c with
  | task t => exact hi.stepTask hpv hpar ho hl hwf h
  | finish t ok =>
    simp only [Sched.step, finishScript] at h
    split at h
    · rename_i s rest hops
      cases h
      have hord := hi.ord t
      rw [hops] at hord
      refine hi.bodyStepQ hops st (GrowT.same rfl) rfl ⟨[], by simp, by simp⟩ hi.track [.runWait s (some ok)] _ id
        ?_ (by simp [covers]) (by simp) ?_ ?_ (by simp [SVop])
      · exact ⟨fun s' hs => hord.1 s' hs, trivial⟩
      · intro s' hh
        rcases hh with hh | ⟨r, hh⟩
        · cases hh
        · cases hh; exact Or.inr (Or.inr ⟨some ok, by simp⟩)
      · intro s' hlv _ _
        exact Or.inr ⟨_, List.mem_singleton.mpr rfl, by simpa [liveFor] using hlv⟩
    · cases h
  | callback =>
    simp only [Sched.step] at h
    split at h
    · split at h <;> cases h
      exact hi.of_eq rfl rfl rfl rfl
    · cases h
  | envTake =>
    simp only [Sched.step] at h
    split at h
    · rename_i s hs
      cases he : s.envTake with
      | none => simp [he] at h
      | some s' =>
        simp only [he, Option.map_some, Option.some.injEq] at h
        subst h
        exact hi.of_eq rfl rfl rfl rfl
    · cases h
  | envReturn =>
    simp only [Sched.step] at h
    split at h
    · rename_i s hs
      cases he : s.envReturn with
      | none => simp [he] at h
      | some s' =>
        simp only [he, Option.map_some, Option.some.injEq] at h
        subst h
        exact hi.of_eq rfl rfl rfl rfl
    · cases h

theorem DepsInv.init (P : Project) (cfg : Cfg) (r0 : Runners) : DepsInv P (init cfg r0) := by
  have hops : ∀ i, ∀ o ∈ ((Sched.init cfg r0).task i).ops, o = .spawnTop cfg.targets ∨ o = .wrapEnd := by
    intro i o ho
    cases i with
    | zero => simpa [St.task, Sched.init] using ho
    | succ k => simp [St.task, Sched.init, default_task_ops] at ho
  have hkind : ∀ i, ((Sched.init cfg r0).task i).kind = .dispatcher := by
    intro i
    cases i with
    | zero => simp [St.task, Sched.init]
    | succ k => simp [St.task, Sched.init]; rfl
  refine ⟨?_, ?_, ?_, ?_, ?_, ?_, rfl⟩
  · intro p ⟨v, hv⟩
    simp [Sched.init, lookup] at hv
  · intro i s hs
    rcases hops i _ hs with e | e <;> cases e
  · intro i s hk
    rw [hkind] at hk; cases hk
  · intro key k hm
    simp [Sched.init] at hm
  · intro i o ho
    rcases hops i o ho with e | e <;> subst e <;> trivial
  · intro i
    refine chk_noneed _ _ ?_
    intro o ho s hn
    rcases hops i o ho with e | e <;> subst e <;> simp [needs] at hn

theorem DepsInv.reach {n : Nat} {P : Project} {cfg : Cfg} {r0 : Runners} {st : St} (hpv : PathVid P)
    (hpar : cfg.par = true) (hr : GoodRunners n r0) (h : Reach P cfg r0 st) : DepsInv P st := by
  induction h with
  | init => exact DepsInv.init P cfg r0
  | step c hprev hs ih =>
    exact ih.step hpv hpar (OnceInv.reach hpv hr hprev) (LockInv.reach hr hprev) (TokInv.reach hr hprev).wf hs

/-- **deps_first** for parallel builds -/
theorem deps_first_par {n : Nat} {P : Project} {cfg : Cfg} {r0 : Runners} {st : St} (hpv : PathVid P)
    (hpar : cfg.par = true) (hr : GoodRunners n r0) (h : Reach P cfg r0 st) : depsFirst P st = true :=
  (DepsInv.reach hpv hpar hr h).first

theorem depsAtEnd_par {n : Nat} {P : Project} {cfg : Cfg} {r0 : Runners} {st : St} (hpv : PathVid P)
    (hpar : cfg.par = true) (hr : GoodRunners n r0) (h : Reach P cfg r0 st) : DepsAtEnd P st := by
  intro t s r rest hops
  have hord := (DepsInv.reach hpv hpar hr h).ord t
  rw [hops] at hord
  exact hord.1 s rfl

end Sched
