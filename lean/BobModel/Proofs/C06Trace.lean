import BobModel.Proofs.C06Fail
/-
What a step appends to the event history: every step extends the trace; a `start` event is appended only
by the `run` operation at the head of the stepping task (and is then the only new event), an `end` event only
by a `runWait` operation whose script has ended, a `setRun` event only by the `setRun` operation.
-/
namespace Sched
open JobSem

def Ev.isStart : Ev → Bool | .start _ _ => true | _ => false
def Ev.isFin : Ev → Bool | .fin _ _ _ => true | _ => false
def Ev.isSetRun : Ev → Bool | .setRun _ _ _ => true | _ => false
def Ev.isSpawn : Ev → Bool | .spawn _ _ => true | _ => false

/-- events that neither start nor end a script nor record a run -/
def Ev.quiet (e : Ev) : Bool := !e.isStart && !e.isFin && !e.isSetRun

theorem createTask_trace (P : Project) (st : St) (trk : Trk) (s : Nat) (co : Bool) :
    ∃ evs, (createTask P st trk s co).1.trace = st.trace ++ evs ∧ ∀ e ∈ evs, e.quiet = true := by
  unfold createTask
  simp only
  split
  · exact ⟨[], by simp, by simp⟩
  · refine ⟨[Ev.spawn st.tasks.length (mkKind trk s co)], ?_, ?_⟩
    · cases trk <;> rfl
    · simp [Ev.quiet, Ev.isStart, Ev.isFin, Ev.isSetRun]

theorem createTasks_trace (P : Project) (trk : Trk) (co : Bool) (steps : List Nat) (st : St) :
    ∃ evs, (createTasks P trk co steps st).1.trace = st.trace ++ evs ∧ ∀ e ∈ evs, e.quiet = true := by
  induction steps generalizing st with
  | nil => exact ⟨[], by simp [createTasks], by simp⟩
  | cons s r ih =>
    obtain ⟨e1, h1, q1⟩ := createTask_trace P st trk s co
    obtain ⟨e2, h2, q2⟩ := ih (createTask P st trk s co).1
    refine ⟨e1 ++ e2, ?_, ?_⟩
    · simp only [createTasks]; rw [h2, h1, List.append_assoc]
    · intro e he
      rcases List.mem_append.mp he with h | h
      · exact q1 e h
      · exact q2 e h

theorem createTop_trace (st : St) (s : Nat) :
    ∃ evs, (createTop st s).1.trace = st.trace ++ evs ∧ ∀ e ∈ evs, e.quiet = true :=
  ⟨[Ev.spawn st.tasks.length (.top s)], rfl, by simp [Ev.quiet, Ev.isStart, Ev.isFin, Ev.isSetRun]⟩

theorem createTops_trace (targets : List Nat) (st : St) :
    ∃ evs, (createTops targets st).1.trace = st.trace ++ evs ∧ ∀ e ∈ evs, e.quiet = true := by
  induction targets generalizing st with
  | nil => exact ⟨[], by simp [createTops], by simp⟩
  | cons s r ih =>
    obtain ⟨e1, h1, q1⟩ := createTop_trace st s
    obtain ⟨e2, h2, q2⟩ := ih (createTop st s).1
    refine ⟨e1 ++ e2, ?_, ?_⟩
    · simp only [createTops]; rw [h2, h1, List.append_assoc]
    · intro e he
      rcases List.mem_append.mp he with h | h
      · exact q1 e h
      · exact q2 e h

/-- the new events of a step of task `t`, classified by the operation at its head -/
inductive NewEvents (P : Project) (st : St) (t : Nat) : List Ev → Prop
  | quiet (evs : List Ev) : (∀ e ∈ evs, e.quiet = true) → NewEvents P st t evs
  | start (s : Nat) (rest : List Op) : (st.task t).ops = .run s :: rest → NewEvents P st t [.start t s]
  | fin (s : Nat) (ok : Bool) (rest : List Op) : (st.task t).ops = .runWait s (some ok) :: rest →
      NewEvents P st t [.fin t s ok]
  | setRun (s : Nat) (sk : Bool) (rest : List Op) : (st.task t).ops = .setRun s sk :: rest →
      NewEvents P st t [.setRun t s sk]

theorem stepTask_trace {P : Project} {cfg : Cfg} {st st' : St} {t : Nat}
    (h : stepTask P cfg st t = some st') : ∃ evs, st'.trace = st.trace ++ evs ∧ NewEvents P st t evs := by
  unfold Sched.stepTask at h
  simp only at h
  split at h
  · cases h
  · rename_i op rest hops
    have q0 : NewEvents P st t [] := .quiet [] (by simp)
    have q1 : ∀ e : Ev, e.quiet = true → NewEvents P st t [e] := fun e he => .quiet [e] (by simpa using he)
    have q2 : ∀ e1 e2 : Ev, e1.quiet = true → e2.quiet = true → NewEvents P st t [e1, e2] :=
      fun e1 e2 h1 h2 => .quiet [e1, e2] (by simp [h1, h2])
    cases op <;> simp only at h
    case fence k =>
      split at h
      · split at h <;> cases h <;> exact ⟨[], by simp, q0⟩
      · cases h
    case start =>
      split at h <;> cases h
      · exact ⟨[.acq t, .got t], by simp, q2 _ _ rfl rfl⟩
      · exact ⟨[.acq t], by simp, q1 _ rfl⟩
    case startWait =>
      split at h <;> cases h
      exact ⟨[.got t], by simp, q1 _ rfl⟩
    case release =>
      split at h <;> cases h
      · exact ⟨[.rel t true], by simp, q1 _ rfl⟩
      · exact ⟨[.rel t false], by simp, q1 _ rfl⟩
    case checkRunning =>
      split at h <;> cases h
      · exact ⟨[.pass t], by simp, q1 _ rfl⟩
      · exact ⟨[], by simp, q0⟩
    case cook steps co =>
      split at h <;> cases h <;> exact ⟨[], by simp, q0⟩
    case spawn trk steps co =>
      split at h <;> cases h
      · obtain ⟨evs, he, hq⟩ := createTasks_trace P trk co steps st
        exact ⟨evs, by simpa using he, .quiet evs hq⟩
      · exact ⟨[], by simp, q0⟩
    case spawnSeq trk todo co made =>
      split at h
      · cases h; exact ⟨[], by simp, q0⟩
      · rename_i s todo'
        cases h
        obtain ⟨evs, he, hq⟩ := createTask_trace P st trk s co
        exact ⟨evs, by simpa using he, .quiet evs hq⟩
    case yieldRel ks rs =>
      split at h <;> cases h
      · exact ⟨[.rel t true], by simp, q1 _ rfl⟩
      · exact ⟨[.rel t false], by simp, q1 _ rfl⟩
    case gather ks =>
      split at h
      · split at h <;> cases h <;> exact ⟨[], by simp, q0⟩
      · cases h
    case waitOnly ks =>
      split at h <;> cases h
      exact ⟨[], by simp, q0⟩
    case results ks =>
      split at h <;> cases h <;> exact ⟨[], by simp, q0⟩
    case reacq =>
      split at h <;> cases h
      · exact ⟨[.acq t, .got t], by simp, q2 _ _ rfl rfl⟩
      · exact ⟨[.acq t], by simp, q1 _ rfl⟩
    case reacqWait =>
      split at h <;> cases h
      exact ⟨[.got t], by simp, q1 _ rfl⟩
    case cookBody s co =>
      split at h
      · cases h; exact ⟨[], by simp, q0⟩
      · split at h
        · cases h; exact ⟨[.pass t], by simp, q1 _ rfl⟩
        · split at h <;> cases h <;> exact ⟨[.pass t], by simp, q1 _ rfl⟩
    case lock s co dl =>
      split at h <;> cases h <;> exact ⟨[], by simp, q0⟩
    case lockWait s co dl =>
      split at h <;> cases h
      exact ⟨[], by simp, q0⟩
    case underLock s co =>
      split at h <;> cases h <;> exact ⟨[], by simp, q0⟩
    case download s =>
      cases h
      refine ⟨[], ?_, q0⟩
      simp only [setTask_trace, List.append_nil]
      split <;> rfl
    case unlock p =>
      split at h <;> cases h <;> exact ⟨[], by simp, q0⟩
    case bidSingle s =>
      split at h
      · split at h <;> cases h <;> exact ⟨[], by simp, q0⟩
      · split at h <;> cases h <;> exact ⟨[], by simp, q0⟩
    case cacheSrc s => cases h; exact ⟨[], by simp, q0⟩
    case cacheDist s => cases h; exact ⟨[], by simp, q0⟩
    case run s => cases h; exact ⟨[.start t s], by simp, .start s rest hops⟩
    case runWait s res =>
      split at h
      · cases h
      · cases h; exact ⟨[.fin t s true], by simp, .fin s true rest hops⟩
      · cases h; exact ⟨[.fin t s false], by simp, .fin s false rest hops⟩
    case setRun s sk => cases h; exact ⟨[.setRun t s sk], by simp, .setRun s sk rest hops⟩
    case spawnTop targets =>
      split at h <;> cases h
      · obtain ⟨evs, he, hq⟩ := createTops_trace targets st
        exact ⟨evs, by simpa using he, .quiet evs hq⟩
      · exact ⟨[], by simp, q0⟩
    case spawnTopSeq todo made =>
      split at h
      · cases h; exact ⟨[], by simp, q0⟩
      · rename_i s todo'
        cases h
        obtain ⟨evs, he, hq⟩ := createTop_trace st s
        exact ⟨evs, by simpa using he, .quiet evs hq⟩
    case wrapEnd =>
      split at h
      · cases h
        refine ⟨[.done t true], ?_, q1 _ rfl⟩
        simp only [setTask_trace, emit_trace]
        congr 1
        split <;> rfl
      · cases h; exact ⟨[.failRec t, .done t false], by simp, q2 _ _ rfl rfl⟩
      · cases h; exact ⟨[.done t false], by simp, q1 _ rfl⟩
      · cases h; exact ⟨[.done t false], by simp, q1 _ rfl⟩

/-- environment transitions do not touch the trace -/
theorem step_trace {P : Project} {cfg : Cfg} {st st' : St} {c : Choice} (h : step P cfg st c = some st') :
    match c with
    | .task t => ∃ evs, st'.trace = st.trace ++ evs ∧ NewEvents P st t evs
    | _ => st'.trace = st.trace := by
  cases c with
  | task t => exact stepTask_trace h
  | finish t ok =>
    simp only [Sched.step, finishScript] at h
    split at h <;> cases h
    rfl
  | callback =>
    simp only [Sched.step] at h
    split at h
    · split at h <;> cases h
      rfl
    · cases h
  | envTake =>
    simp only [Sched.step] at h
    split at h
    · rename_i s hs
      cases he : s.envTake with
      | none => simp [he] at h
      | some s' => simp only [he, Option.map_some, Option.some.injEq] at h; subst h; rfl
    · cases h
  | envReturn =>
    simp only [Sched.step] at h
    split at h
    · rename_i s hs
      cases he : s.envReturn with
      | none => simp [he] at h
      | some s' => simp only [he, Option.map_some, Option.some.injEq] at h; subst h; rfl
    · cases h

end Sched
