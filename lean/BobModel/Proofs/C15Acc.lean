import BobModel.Proofs.C15Gc
/-
C15: repo.json as an insertion ordered dictionary (`setPkg`, `erasePkg`) and how a segment changes it.
-/
namespace Share

def keys (l : List (Bid × Nat)) : List Bid := l.map (·.1)

theorem keys_setPkg_mem (l : List (Bid × Nat)) (b : Bid) (sz : Nat) (k : Bid) :
    k ∈ keys (setPkg l b sz) ↔ k = b ∨ k ∈ keys l := by
  induction l with
  | nil => simp [setPkg, keys]
  | cons x rest ih =>
    obtain ⟨k0, v0⟩ := x
    unfold setPkg
    split
    · rename_i h; subst h; simp [keys]
    · simp only [keys, List.map_cons, List.mem_cons] at ih ⊢
      rw [ih]
      constructor
      · rintro (h | h | h)
        · exact Or.inr (Or.inl h)
        · exact Or.inl h
        · exact Or.inr (Or.inr h)
      · rintro (h | h | h)
        · exact Or.inr (Or.inl h)
        · exact Or.inl h
        · exact Or.inr (Or.inr h)

theorem nodup_setPkg (l : List (Bid × Nat)) (b : Bid) (sz : Nat) (h : (keys l).Nodup) : (keys (setPkg l b sz)).Nodup := by
  induction l with
  | nil => simp [setPkg, keys]
  | cons x rest ih =>
    obtain ⟨k0, v0⟩ := x
    have hh : k0 ∉ keys rest ∧ (keys rest).Nodup := List.nodup_cons.mp h
    unfold setPkg
    split
    · simpa [keys] using h
    · rename_i hne
      have := ih hh.2
      simp only [keys, List.map_cons] at this ⊢
      refine List.nodup_cons.mpr ⟨?_, this⟩
      intro hm
      have := (keys_setPkg_mem rest b sz k0).mp (by simpa [keys] using hm)
      rcases this with h1 | h1
      · exact hne h1
      · exact hh.1 (by simpa [keys] using h1)

theorem mem_setPkg (l : List (Bid × Nat)) (b : Bid) (sz : Nat) (h : (keys l).Nodup) (k v : Nat) :
    (k, v) ∈ setPkg l b sz ↔ (k = b ∧ v = sz) ∨ (k ≠ b ∧ (k, v) ∈ l) := by
  induction l with
  | nil => simp [setPkg]
  | cons x rest ih =>
    obtain ⟨k0, v0⟩ := x
    have hh : k0 ∉ keys rest ∧ (keys rest).Nodup := List.nodup_cons.mp h
    unfold setPkg
    split
    · rename_i he; subst he
      simp only [List.mem_cons, Prod.mk.injEq]
      constructor
      · rintro (⟨rfl, rfl⟩ | hm)
        · exact Or.inl ⟨rfl, rfl⟩
        · right
          refine ⟨?_, Or.inr hm⟩
          intro e; subst e
          exact hh.1 (List.mem_map.mpr ⟨(k, v), hm, rfl⟩)
      · rintro (⟨rfl, rfl⟩ | ⟨hne, (⟨e, _⟩ | hm)⟩)
        · exact Or.inl ⟨rfl, rfl⟩
        · exact absurd e hne
        · exact Or.inr hm
    · rename_i hne
      simp only [List.mem_cons, Prod.mk.injEq]
      rw [ih hh.2]
      constructor
      · rintro (⟨rfl, rfl⟩ | h1 | ⟨h1, h2⟩)
        · exact Or.inr ⟨hne, Or.inl ⟨rfl, rfl⟩⟩
        · exact Or.inl h1
        · exact Or.inr ⟨h1, Or.inr h2⟩
      · rintro (h1 | ⟨h1, (⟨rfl, rfl⟩ | h2)⟩)
        · exact Or.inr (Or.inl h1)
        · exact Or.inl ⟨rfl, rfl⟩
        · exact Or.inr (Or.inr ⟨h1, h2⟩)

theorem mem_erasePkg (l : List (Bid × Nat)) (b : Bid) (h : (keys l).Nodup) (k v : Nat) :
    (k, v) ∈ erasePkg l b ↔ k ≠ b ∧ (k, v) ∈ l := by
  induction l with
  | nil => simp [erasePkg]
  | cons x rest ih =>
    obtain ⟨k0, v0⟩ := x
    have hh : k0 ∉ keys rest ∧ (keys rest).Nodup := List.nodup_cons.mp h
    unfold erasePkg
    split
    · rename_i he; subst he
      simp only [List.mem_cons, Prod.mk.injEq]
      constructor
      · intro hm
        refine ⟨?_, Or.inr hm⟩
        intro e; subst e
        exact hh.1 (List.mem_map.mpr ⟨(k, v), hm, rfl⟩)
      · rintro ⟨hne, (⟨e, _⟩ | hm)⟩
        · exact absurd e hne
        · exact hm
    · rename_i hne
      simp only [List.mem_cons, Prod.mk.injEq]
      rw [ih hh.2]
      constructor
      · rintro (⟨rfl, rfl⟩ | ⟨h1, h2⟩)
        · exact ⟨hne, Or.inl ⟨rfl, rfl⟩⟩
        · exact ⟨h1, Or.inr h2⟩
      · rintro ⟨h1, (⟨rfl, rfl⟩ | h2)⟩
        · exact Or.inl ⟨rfl, rfl⟩
        · exact Or.inr ⟨h1, h2⟩

theorem keys_erasePkg_sub (l : List (Bid × Nat)) (b : Bid) : (keys (erasePkg l b)).Sublist (keys l) := by
  induction l with
  | nil => simp [erasePkg, keys]
  | cons x rest ih =>
    obtain ⟨k0, v0⟩ := x
    unfold erasePkg
    split
    · simp [keys]
    · simp only [keys, List.map_cons]; exact List.Sublist.cons_cons _ ih

theorem nodup_erasePkg (l : List (Bid × Nat)) (b : Bid) (h : (keys l).Nodup) : (keys (erasePkg l b)).Nodup :=
  List.Nodup.sublist (keys_erasePkg_sub l b) h

theorem mem_keys_erasePkg (l : List (Bid × Nat)) (b k : Bid) (h : (keys l).Nodup) :
    k ∈ keys (erasePkg l b) ↔ k ≠ b ∧ k ∈ keys l := by
  constructor
  · intro hk
    obtain ⟨⟨k', v⟩, hm, rfl⟩ := List.mem_map.mp hk
    have := (mem_erasePkg l b h k' v).mp hm
    exact ⟨this.1, List.mem_map.mpr ⟨(k', v), this.2, rfl⟩⟩
  · rintro ⟨hne, hk⟩
    obtain ⟨⟨k', v⟩, hm, rfl⟩ := List.mem_map.mp hk
    exact List.mem_map.mpr ⟨(k', v), (mem_erasePkg l b h k' v).mpr ⟨hne, hm⟩, rfl⟩

/-- gc subtracts exactly what it moved -/
theorem sumSizes_erasePkg (l : List (Bid × Nat)) (b : Bid) (sz : Nat) (h : (keys l).Nodup) (hm : (b, sz) ∈ l) :
    sumSizes (erasePkg l b) + sz = sumSizes l := by
  induction l with
  | nil => cases hm
  | cons x rest ih =>
    obtain ⟨k0, v0⟩ := x
    have hh : k0 ∉ keys rest ∧ (keys rest).Nodup := List.nodup_cons.mp h
    unfold erasePkg
    split
    · rename_i he; subst he
      rcases List.mem_cons.mp hm with e | hm'
      · cases e; simp [sumSizes]; omega
      · exact absurd (List.mem_map.mpr ⟨(k0, sz), hm', rfl⟩) hh.1
    · rename_i hne
      rcases List.mem_cons.mp hm with e | hm'
      · cases e; exact absurd rfl hne
      · have := ih hh.2 hm'
        simp only [sumSizes, List.map_cons, List.sum_cons] at this ⊢
        omega

/-- `__addPackage` of a new Build-Id adds exactly its size -/
theorem sumSizes_setPkg_new (l : List (Bid × Nat)) (b : Bid) (sz : Nat) (h : b ∉ keys l) :
    sumSizes (setPkg l b sz) = sumSizes l + sz := by
  induction l with
  | nil => simp [setPkg, sumSizes]
  | cons x rest ih =>
    obtain ⟨k0, v0⟩ := x
    unfold setPkg
    split
    · rename_i he; subst he; simp [keys] at h
    · have := ih (by intro hm; apply h; simp only [keys, List.map_cons, List.mem_cons]; exact Or.inr hm)
      simp only [sumSizes, List.map_cons, List.sum_cons] at this ⊢
      omega

/-- every way in which one segment changes repo.json -/
theorem stepPc_repo (H : Nat → Nat) (ff : Bool) (prog : Prog) (exO shO : Bool) (g : Store) (pc : Pc) :
    (stepPc H ff prog exO shO g pc).1.repo = g.repo
    ∨ (pc = .iAddLock ∧ exO = false ∧ shO = false ∧ ∃ l, g.repo = .valid l ∧
        (stepPc H ff prog exO shO g pc).1.repo = (if ff then .valid (setPkg l (opBid prog) (opSize prog)) else .torn))
    ∨ (pc = .iAddCreate ∧ g.repo = .absent)
    ∨ (pc = .iAddCreateLock)
    ∨ (∃ l t f, pc = .iAddClose (some l) t f)
    ∨ (∃ l r, pc = .gClose (some l) r)
    ∨ (∃ rm plan t d te, pc = .gMove rm plan t d te) := by
  cases pc
  case iAddLock =>
    unfold stepPc; simp only
    cases hex : exO <;> cases hsh : shO <;> simp only [Bool.or_false, Bool.or_true, Bool.false_eq_true, if_false, if_true]
    · cases hr : g.repo with
      | valid l =>
        right; left
        refine ⟨by simp, by simp, by simp, l, by simp, ?_⟩
        cases ff <;> simp
      | absent => left; simp [hr]
      | torn => left; simp [hr]
    all_goals first | (left; rfl) | (left; trivial) | (left; simp)
  case iAddCreate =>
    unfold stepPc; simp only
    cases hr : g.repo with
    | absent => right; right; left; exact ⟨by simp, by simp⟩
    | valid l => left; simp [hr]
    | torn => left; simp [hr]
  case iAddCreateLock => right; right; right; left; rfl
  case iAddClose pend t f =>
    cases pend with
    | some l => right; right; right; right; left; exact ⟨l, t, f, rfl⟩
    | none =>
      left
      unfold stepPc; simp only
      repeat' split
      all_goals first | rfl | simp
  case gClose pend r =>
    cases pend with
    | some l => right; right; right; right; right; left; exact ⟨l, r, rfl⟩
    | none => left; unfold stepPc; simp
  case gMove rm plan t d te => right; right; right; right; right; right; exact ⟨rm, plan, t, d, te, rfl⟩
  case uLockPkg =>
    left
    unfold stepPc; simp only
    repeat' split
    all_goals first | rfl | simp
  case uClosePkg pend r =>
    left
    unfold stepPc; simp only [afterShare_fst]
    cases pend <;> simp
  all_goals (left; unfold stepPc; simp only)
  all_goals (repeat' split)
  all_goals first | rfl | simp

end Share
