import BobModel.Proofs.C15Gc
/-
C15: repo.json as an insertion ordered dictionary (`setPkg`, `erasePkg`) and how a segment changes it.
-/
namespace Share

/-- the code with all four fixes (literal, so that `simp only` reduces its projections) -/
local notation "fx" => (Cfg.mk true true true true)

def keys (l : List (Bid × Nat)) : List Bid := l.map (·.1)

theorem keys_setPkg_mem (l : List (Bid × Nat)) (b : Bid) (sz : Nat) (k : Bid) :
    k ∈ keys (setPkg l b sz) ↔ k = b ∨ k ∈ keys l := by
  induction l with
  | nil => simp [setPkg, keys]
  | cons x rest ih =>
    obtain ⟨k0, v0⟩ := x
    unfold setPkg
    split
    · rename_i h; subst h; simp [keys]
    · simp only [keys, List.map_cons, List.mem_cons] at ih ⊢
      rw [ih]
      constructor
      · rintro (h | h | h)
        · exact Or.inr (Or.inl h)
        · exact Or.inl h
        · exact Or.inr (Or.inr h)
      · rintro (h | h | h)
        · exact Or.inr (Or.inl h)
        · exact Or.inl h
        · exact Or.inr (Or.inr h)

theorem nodup_setPkg (l : List (Bid × Nat)) (b : Bid) (sz : Nat) (h : (keys l).Nodup) : (keys (setPkg l b sz)).Nodup := by
  induction l with
  | nil => simp [setPkg, keys]
  | cons x rest ih =>
    obtain ⟨k0, v0⟩ := x
    have hh : k0 ∉ keys rest ∧ (keys rest).Nodup := List.nodup_cons.mp h
    unfold setPkg
    split
    · simpa [keys] using h
    · rename_i hne
      have := ih hh.2
      simp only [keys, List.map_cons] at this ⊢
      refine List.nodup_cons.mpr ⟨?_, this⟩
      intro hm
      have := (keys_setPkg_mem rest b sz k0).mp (by simpa [keys] using hm)
      rcases this with h1 | h1
      · exact hne h1
      · exact hh.1 (by simpa [keys] using h1)

theorem mem_setPkg (l : List (Bid × Nat)) (b : Bid) (sz : Nat) (h : (keys l).Nodup) (k v : Nat) :
    (k, v) ∈ setPkg l b sz ↔ (k = b ∧ v = sz) ∨ (k ≠ b ∧ (k, v) ∈ l) := by
  induction l with
  | nil => simp [setPkg]
  | cons x rest ih =>
    obtain ⟨k0, v0⟩ := x
    have hh : k0 ∉ keys rest ∧ (keys rest).Nodup := List.nodup_cons.mp h
    unfold setPkg
    split
    · rename_i he; subst he
      simp only [List.mem_cons, Prod.mk.injEq]
      constructor
      · rintro (⟨rfl, rfl⟩ | hm)
        · exact Or.inl ⟨rfl, rfl⟩
        · right
          refine ⟨?_, Or.inr hm⟩
          intro e; subst e
          exact hh.1 (List.mem_map.mpr ⟨(k, v), hm, rfl⟩)
      · rintro (⟨rfl, rfl⟩ | ⟨hne, (⟨e, _⟩ | hm)⟩)
        · exact Or.inl ⟨rfl, rfl⟩
        · exact absurd e hne
        · exact Or.inr hm
    · rename_i hne
      simp only [List.mem_cons, Prod.mk.injEq]
      rw [ih hh.2]
      constructor
      · rintro (⟨rfl, rfl⟩ | h1 | ⟨h1, h2⟩)
        · exact Or.inr ⟨hne, Or.inl ⟨rfl, rfl⟩⟩
        · exact Or.inl h1
        · exact Or.inr ⟨h1, Or.inr h2⟩
      · rintro (h1 | ⟨h1, (⟨rfl, rfl⟩ | h2)⟩)
        · exact Or.inr (Or.inl h1)
        · exact Or.inl ⟨rfl, rfl⟩
        · exact Or.inr (Or.inr ⟨h1, h2⟩)

theorem mem_erasePkg (l : List (Bid × Nat)) (b : Bid) (h : (keys l).Nodup) (k v : Nat) :
    (k, v) ∈ erasePkg l b ↔ k ≠ b ∧ (k, v) ∈ l := by
  induction l with
  | nil => simp [erasePkg]
  | cons x rest ih =>
    obtain ⟨k0, v0⟩ := x
    have hh : k0 ∉ keys rest ∧ (keys rest).Nodup := List.nodup_cons.mp h
    unfold erasePkg
    split
    · rename_i he; subst he
      simp only [List.mem_cons, Prod.mk.injEq]
      constructor
      · intro hm
        refine ⟨?_, Or.inr hm⟩
        intro e; subst e
        exact hh.1 (List.mem_map.mpr ⟨(k, v), hm, rfl⟩)
      · rintro ⟨hne, (⟨e, _⟩ | hm)⟩
        · exact absurd e hne
        · exact hm
    · rename_i hne
      simp only [List.mem_cons, Prod.mk.injEq]
      rw [ih hh.2]
      constructor
      · rintro (⟨rfl, rfl⟩ | ⟨h1, h2⟩)
        · exact ⟨hne, Or.inl ⟨rfl, rfl⟩⟩
        · exact ⟨h1, Or.inr h2⟩
      · rintro ⟨h1, (⟨rfl, rfl⟩ | h2)⟩
        · exact Or.inl ⟨rfl, rfl⟩
        · exact Or.inr ⟨h1, h2⟩

theorem keys_erasePkg_sub (l : List (Bid × Nat)) (b : Bid) : (keys (erasePkg l b)).Sublist (keys l) := by
  induction l with
  | nil => simp [erasePkg, keys]
  | cons x rest ih =>
    obtain ⟨k0, v0⟩ := x
    unfold erasePkg
    split
    · simp [keys]
    · simp only [keys, List.map_cons]; exact List.Sublist.cons_cons _ ih

theorem nodup_erasePkg (l : List (Bid × Nat)) (b : Bid) (h : (keys l).Nodup) : (keys (erasePkg l b)).Nodup :=
  List.Nodup.sublist (keys_erasePkg_sub l b) h

theorem mem_keys_erasePkg (l : List (Bid × Nat)) (b k : Bid) (h : (keys l).Nodup) :
    k ∈ keys (erasePkg l b) ↔ k ≠ b ∧ k ∈ keys l := by
  constructor
  · intro hk
    obtain ⟨⟨k', v⟩, hm, rfl⟩ := List.mem_map.mp hk
    have := (mem_erasePkg l b h k' v).mp hm
    exact ⟨this.1, List.mem_map.mpr ⟨(k', v), this.2, rfl⟩⟩
  · rintro ⟨hne, hk⟩
    obtain ⟨⟨k', v⟩, hm, rfl⟩ := List.mem_map.mp hk
    exact List.mem_map.mpr ⟨(k', v), (mem_erasePkg l b h k' v).mpr ⟨hne, hm⟩, rfl⟩

/-- gc subtracts exactly what it moved -/
theorem sumSizes_erasePkg (l : List (Bid × Nat)) (b : Bid) (sz : Nat) (h : (keys l).Nodup) (hm : (b, sz) ∈ l) :
    sumSizes (erasePkg l b) + sz = sumSizes l := by
  induction l with
  | nil => cases hm
  | cons x rest ih =>
    obtain ⟨k0, v0⟩ := x
    have hh : k0 ∉ keys rest ∧ (keys rest).Nodup := List.nodup_cons.mp h
    unfold erasePkg
    split
    · rename_i he; subst he
      rcases List.mem_cons.mp hm with e | hm'
      · cases e; simp [sumSizes]; omega
      · exact absurd (List.mem_map.mpr ⟨(k0, sz), hm', rfl⟩) hh.1
    · rename_i hne
      rcases List.mem_cons.mp hm with e | hm'
      · cases e; exact absurd rfl hne
      · have := ih hh.2 hm'
        simp only [sumSizes, List.map_cons, List.sum_cons] at this ⊢
        omega

/-- `__addPackage` of a new Build-Id adds exactly its size -/
theorem sumSizes_setPkg_new (l : List (Bid × Nat)) (b : Bid) (sz : Nat) (h : b ∉ keys l) :
    sumSizes (setPkg l b sz) = sumSizes l + sz := by
  induction l with
  | nil => simp [setPkg, sumSizes]
  | cons x rest ih =>
    obtain ⟨k0, v0⟩ := x
    unfold setPkg
    split
    · rename_i he; subst he; simp [keys] at h
    · have := ih (by intro hm; apply h; simp only [keys, List.map_cons, List.mem_cons]; exact Or.inr hm)
      simp only [sumSizes, List.map_cons, List.sum_cons] at this ⊢
      omega

/-- every way in which one segment changes repo.json -/
theorem stepPc_repo (H : Nat → Nat) (cfg : Cfg) (prog : Prog) (exO shO : Bool) (g : Store) (pc : Pc) :
    (stepPc H cfg prog exO shO g pc).1.repo = g.repo
    ∨ (pc = .iAddLock ∧ exO = false ∧ shO = false ∧ ∃ l, readRepo cfg g.repo = some l ∧
        (stepPc H cfg prog exO shO g pc).1.repo = (if cfg.ff then .valid (setPkg l (opBid prog) (opSize prog)) else .torn))
    ∨ (pc = .iAddCreate ∧ g.repo = .absent)
    ∨ (pc = .iAddCreateLock)
    ∨ (pc = .iAddTouch ∧ g.repo = .absent ∧ (stepPc H cfg prog exO shO g pc).1.repo = .torn)
    ∨ (∃ l t f, pc = .iAddClose (some l) t f)
    ∨ (∃ l r, pc = .gClose (some l) r)
    ∨ (∃ rm plan t d te, pc = .gMove rm plan t d te) := by
  cases pc
  case iAddLock =>
    unfold stepPc; simp only
    cases hex : exO <;> cases hsh : shO <;> simp only [Bool.or_false, Bool.or_true, Bool.false_eq_true, if_false, if_true]
    · cases hr : readRepo cfg g.repo with
      | some l =>
        right; left
        refine ⟨by simp, by simp, by simp, l, by simp, ?_⟩
        cases cfg.ff <;> simp
      | none => left; simp
    all_goals first | (left; rfl) | (left; trivial) | (left; simp)
  case iAddCreate =>
    unfold stepPc; simp only
    cases hr : g.repo with
    | absent => right; right; left; exact ⟨by simp, by simp⟩
    | valid l => left; simp [hr]
    | torn => left; simp [hr]
  case iAddCreateLock => right; right; right; left; rfl
  case iAddTouch =>
    unfold stepPc; simp only
    cases hr : g.repo with
    | absent => right; right; right; right; left; exact ⟨by simp, by simp, by simp⟩
    | valid l => left; simp [hr]
    | torn => left; simp [hr]
  case iAddClose pend t f =>
    cases pend with
    | some l => right; right; right; right; right; left; exact ⟨l, t, f, rfl⟩
    | none =>
      left
      unfold stepPc; simp only
      repeat' split
      all_goals first | rfl | simp
  case gClose pend r =>
    cases pend with
    | some l => right; right; right; right; right; right; left; exact ⟨l, r, rfl⟩
    | none => left; unfold stepPc; simp
  case gMove rm plan t d te => right; right; right; right; right; right; right; exact ⟨rm, plan, t, d, te, rfl⟩
  case uLockPkg =>
    left
    unfold stepPc; simp only
    repeat' split
    all_goals first | rfl | simp
  case uClosePkg pend r =>
    left
    unfold stepPc; simp only [afterShare_fst]
    cases pend <;> simp
  all_goals (left; unfold stepPc; simp only)
  all_goals (repeat' split)
  all_goals first | rfl | simp

/-- failures that are caused by another project working on the store or by a store that is still empty -/
def Err.spurious : Err → Bool
  | .fileNotFound | .jsonDecode | .corruptMeta | .renameENOENT => true
  | _ => false

def Res.okRes (r : Res) : Prop := ∀ e, r = .err e → e.spurious = false

/-- fixed code: nothing is pending after an unlock, the "x" creation path is not taken, no spurious error is on
its way -/
def PcFF : Pc → Prop
  | .uClosePkg pend r => pend = none ∧ r.okRes
  | .iAddClose pend _ failed => pend = none ∧ failed = false
  | .gClose pend r => pend = none ∧ r.okRes
  | .iAddCreate | .iAddCreateLock => False
  | .done r => r.okRes
  | _ => True

theorem pcFF_afterShare {cfg : Cfg} (prog : Prog) (g : Store) (r : Res) (hr : r.okRes) : PcFF (afterShare cfg prog g r).2 := by
  unfold afterShare
  split
  · exact hr
  · split <;> (try split) <;> (try split) <;> first | trivial | exact hr | (intro e he; cases he)

theorem pcFF_finishGc {cfg : Cfg} (prog : Prog) (g : Store) (r : Res) (hr : r.okRes) : PcFF (finishGc cfg prog g r).2 := by
  unfold finishGc
  split
  · split
    · rename_i e; exact hr
    · exact pcFF_afterShare _ _ _ (by intro e he; cases he)
  · exact hr

theorem pcFF_gcStart {cfg : Cfg} (prog : Prog) (g : Store) : PcFF (gcStart cfg prog g).2 := by
  unfold gcStart
  split
  · exact pcFF_finishGc _ _ _ (by intro e he; cases he)
  · split
    · exact pcFF_finishGc _ _ _ (by intro e he; cases he)
    · trivial

theorem pcFF_gcPlan (prog : Prog) (g : Store) (rm : List (Bid × Nat)) (c : List Cand) (t : Nat) :
    PcFF (gcPlan prog g rm c t).2 := by
  unfold gcPlan
  simp only
  split
  · refine ⟨rfl, ?_⟩
    split
    · intro e he; cases he; rfl
    · intro e he; cases he
  · trivial

theorem pcFF_gcNext (prog : Prog) (g : Store) (rm todo : List (Bid × Nat)) (c : List Cand) (t : Nat) :
    PcFF (gcNext prog g rm todo c t).2 := by
  unfold gcNext
  split
  · exact pcFF_gcPlan ..
  · trivial

theorem checkUnused_error (g : Store) (k : Bid) (e : Err) :
    ∀ (us : List Ws), checkUnused g k us = .error e → e = .inspect := by
  intro us
  induction us with
  | nil => intro hh; simp [checkUnused] at hh
  | cons u r ih =>
    intro hh
    unfold checkUnused at hh
    split at hh
    · exact ih hh
    · split at hh
      · cases hh; rfl
      · split at hh
        · cases hh
        · exact ih hh

theorem stepPc_pcFF (H : Nat → Nat) (prog : Prog) (exO shO : Bool) (g : Store) (pc : Pc)
    (h : PcFF pc) (hna : pc = .gOpen → g.repo ≠ .absent)
    (hlock : exO = false → shO = false → (pc = .iAddLock ∨ pc = .gLock) → ∃ l, readRepo fx g.repo = some l)
    (hinfo : ∀ b d, g.final b = some d → ∃ m, d.info = some (.valid m))
    (hscan : ∀ rm k sz rest cands total, pc = .gScanLock rm k sz rest cands total → g.final k ≠ none)
    (hmv : ∀ rm c rest t d te, pc = .gMove rm (c :: rest) t d te → g.final c.bid ≠ none) :
    PcFF (stepPc H fx prog exO shO g pc).2 := by
  cases pc
  case done r => simpa [stepPc] using h
  case start =>
    unfold stepPc; simp only
    split
    · trivial
    · split
      · exact pcFF_afterShare _ _ _ (by intro e he; cases he)
      · split
        · intro e he; cases he; rfl
        · trivial
    · exact pcFF_gcStart ..
    · intro e he; cases he
  case uOpen =>
    unfold stepPc; simp only
    repeat' split
    all_goals first | trivial | exact pcFF_afterShare _ _ _ (by intro e he; cases he)
  case uLockRepo =>
    unfold stepPc; simp only
    repeat' split
    all_goals trivial
  case uOpenPkg =>
    unfold stepPc; simp only
    repeat' split
    all_goals first | trivial | exact pcFF_afterShare _ _ _ (by intro e he; cases he)
  case uLockPkg =>
    unfold stepPc; simp only
    cases hf : g.final (opBid prog) with
    | none => exact ⟨rfl, by intro e he; cases he⟩
    | some d =>
      obtain ⟨m, hm⟩ := hinfo _ _ hf
      simp only [hm]
      split
      · exact ⟨rfl, by intro e he; cases he⟩
      · exact ⟨rfl, by intro e he; cases he⟩
  case uClosePkg pend r =>
    unfold stepPc; simp only
    exact pcFF_afterShare _ _ _ h.2
  case iVerify =>
    unfold stepPc; simp only
    split
    · split
      · intro e he; cases he; rfl
      · trivial
    · intro e he; cases he; rfl
  case iRename tmp =>
    unfold stepPc; simp only
    split
    · exact pcFF_afterShare _ _ _ (by intro e he; cases he)
    · trivial
  case iAddOpen =>
    unfold stepPc; simp only
    cases hr : g.repo <;> trivial
  case iAddTouch =>
    unfold stepPc; simp only
    cases hr : g.repo <;> trivial
  case iAddLock =>
    unfold stepPc; simp only
    cases hex : exO <;> cases hsh : shO <;> simp only [Bool.or_false, Bool.or_true, Bool.false_eq_true, if_false, if_true]
    · obtain ⟨l, hl⟩ := hlock hex hsh (Or.inl rfl)
      simp only [hl]
      exact ⟨rfl, rfl⟩
    all_goals trivial
  case iAddCreate => exact absurd h (by simp [PcFF])
  case iAddCreateLock => exact absurd h (by simp [PcFF])
  case iAddClose pend t f =>
    obtain ⟨rfl, rfl⟩ := h
    unfold stepPc; simp only
    simp only [Bool.false_eq_true, if_false]
    split
    · split
      · exact pcFF_gcStart ..
      · exact pcFF_afterShare _ _ _ (by intro e he; cases he)
    · exact pcFF_afterShare _ _ _ (by intro e he; cases he)
  case gOpen =>
    unfold stepPc; simp only
    cases hr : g.repo with
    | absent => exact absurd hr (hna rfl)
    | torn => trivial
    | valid l => trivial
  case gLock =>
    unfold stepPc; simp only
    cases hex : exO <;> cases hsh : shO <;> simp only [Bool.or_false, Bool.or_true, Bool.false_eq_true, if_false, if_true]
    · obtain ⟨l, hl⟩ := hlock hex hsh (Or.inr rfl)
      simp only [hl]
      exact pcFF_gcNext ..
    all_goals trivial
  case gScanOpen rm todo cands total =>
    unfold stepPc; simp only
    repeat' split
    all_goals first | trivial | exact pcFF_gcPlan .. | exact pcFF_gcNext ..
  case gScanLock rm k sz rest cands total =>
    unfold stepPc; simp only
    cases hf : g.final k with
    | none => exact absurd hf (hscan rm k sz rest cands total rfl)
    | some d =>
      obtain ⟨m, hm⟩ := hinfo _ _ hf
      obtain ⟨a, w, info, t⟩ := d
      simp only at hm
      subst hm
      simp only
      split
      · rename_i e he
        refine ⟨rfl, ?_⟩
        intro e' he'
        cases he'
        rw [checkUnused_error g k e _ he]; rfl
      · exact pcFF_gcNext ..
  case gMove rm plan t d te =>
    unfold stepPc; simp only
    cases plan with
    | nil =>
      simp only
      split
      · refine ⟨rfl, ?_⟩; split <;> (intro e he; cases he; try rfl)
      · rename_i hd
        have : d = false := by simpa using hd
        subst this
        refine ⟨rfl, ?_⟩; split <;> (intro e he; cases he; try rfl)
    | cons c rest =>
      simp only
      cases hf : g.final c.bid with
      | none => exact absurd hf (hmv rm c rest t d te rfl)
      | some dd =>
        simp only
        cases rest with
        | nil => simp only [if_true]; refine ⟨rfl, ?_⟩; split <;> (intro e he; cases he; try rfl)
        | cons c1 r2 => trivial
  case gClose pend r =>
    unfold stepPc; simp only
    exact pcFF_finishGc _ _ _ h.2
  case bUnlink x =>
    unfold stepPc; simp only
    repeat' split
    all_goals first | trivial | (intro e he; cases he; try rfl)
  case bSymlink x =>
    unfold stepPc; simp only
    repeat' split
    all_goals first | trivial | (intro e he; cases he; try rfl)

/-- structural facts about what a gc carries: the in-memory copy of repo.json has unique keys, the candidates /
the plan are distinct entries of it, the entries still to scan are distinct and not yet candidates -/
def GcWf : Pc → Prop
  | .gScanOpen rm todo cands _ =>
      (keys rm).Nodup ∧ (cands.map (·.bid) ++ keys todo).Nodup ∧ (∀ x ∈ todo, x ∈ rm) ∧ ∀ c ∈ cands, c.bid ∈ keys rm
  | .gScanLock rm k sz rest cands _ =>
      (keys rm).Nodup ∧ (cands.map (·.bid) ++ k :: keys rest).Nodup ∧ (k, sz) ∈ rm ∧ (∀ x ∈ rest, x ∈ rm) ∧
        ∀ c ∈ cands, c.bid ∈ keys rm
  | .gMove rm plan _ _ _ => (keys rm).Nodup ∧ (plan.map (·.bid)).Nodup ∧ ∀ c ∈ plan, c.bid ∈ keys rm
  | _ => True

theorem gcWf_of_notEX {pc : Pc} (h : pc.holdsEX = false) : GcWf pc := by
  cases pc <;> first | trivial | (simp [Pc.holdsEX] at h)

theorem gcSelect_nodup (quota : Option Nat) (pun : Bool) (cands : List Cand) (total : Nat)
    (h : (cands.map (·.bid)).Nodup) : ((gcSelect quota pun cands total).1.map (·.bid)).Nodup := by
  unfold gcSelect
  obtain ⟨rest, hr⟩ := gcLoop_prefix quota pun (sortCands cands) total
  have h1 : ((sortCands cands).map (·.bid)).Nodup :=
    (List.Perm.nodup_iff ((sortCands_perm cands).map _)).mpr h
  rw [hr, List.map_append] at h1
  exact (List.nodup_append.mp h1).1

theorem gcWf_gcPlan (prog : Prog) (g : Store) (rm : List (Bid × Nat)) (cands : List Cand) (t : Nat)
    (h1 : (keys rm).Nodup) (h2 : (cands.map (·.bid)).Nodup) (h3 : ∀ c ∈ cands, c.bid ∈ keys rm) :
    GcWf (gcPlan prog g rm cands t).2 := by
  unfold gcPlan
  simp only
  split
  · trivial
  · exact ⟨h1, gcSelect_nodup _ _ _ _ h2, fun c hc => h3 c (gcSelect_sub _ _ _ _ c hc)⟩

theorem gcWf_gcNext (prog : Prog) (g : Store) (rm todo : List (Bid × Nat)) (cands : List Cand) (t : Nat)
    (h1 : (keys rm).Nodup) (h2 : (cands.map (·.bid) ++ keys todo).Nodup) (h3 : ∀ x ∈ todo, x ∈ rm)
    (h4 : ∀ c ∈ cands, c.bid ∈ keys rm) : GcWf (gcNext prog g rm todo cands t).2 := by
  unfold gcNext
  split
  · exact gcWf_gcPlan prog g rm cands t h1 (by simpa [keys] using h2) h4
  · exact ⟨h1, h2, h3, h4⟩

theorem stepPc_gcWf (H : Nat → Nat) (cfg : Cfg) (prog : Prog) (exO shO : Bool) (g : Store) (pc : Pc)
    (h : GcWf pc) (hl : ∀ l, readRepo cfg g.repo = some l → (keys l).Nodup) :
    GcWf (stepPc H cfg prog exO shO g pc).2 := by
  cases pc
  case gLock =>
    unfold stepPc; simp only
    split
    · trivial
    · cases hr : readRepo cfg g.repo with
      | some l =>
        simp only
        exact gcWf_gcNext prog g l l [] 0 (hl l hr) (by simpa using hl l hr) (fun x hx => hx) (by intro c hc; cases hc)
      | none => trivial
  case gScanOpen rm todo cands total =>
    obtain ⟨h1, h2, h3, h4⟩ := h
    unfold stepPc; simp only
    cases todo with
    | nil => simp only; exact gcWf_gcPlan prog g rm cands total h1 (by simpa [keys] using h2) h4
    | cons x rest =>
      obtain ⟨k, sz⟩ := x
      simp only
      have h2' : (cands.map (·.bid) ++ keys rest).Nodup := by
        have : (cands.map (·.bid) ++ keys rest).Sublist (cands.map (·.bid) ++ keys ((k, sz) :: rest)) :=
          List.Sublist.append_left (List.sublist_cons_self _ _) _
        exact List.Nodup.sublist this h2
      have h3' : ∀ x ∈ rest, x ∈ rm := fun x hx => h3 x (List.mem_cons_of_mem _ hx)
      cases hf : g.final k with
      | none => simp only; exact gcWf_gcNext prog g rm rest cands _ h1 h2' h3' h4
      | some d =>
        simp only
        cases hi : d.info with
        | none => simp only; exact gcWf_gcNext prog g rm rest cands _ h1 h2' h3' h4
        | some j => simp only; exact ⟨h1, h2, h3 _ (by simp), h3', h4⟩
  case gScanLock rm k sz rest cands total =>
    obtain ⟨h1, h2, h3, h4, h5⟩ := h
    unfold stepPc; simp only
    have hk : k ∈ keys rm := List.mem_map.mpr ⟨(k, sz), h3, rfl⟩
    have h2' : (cands.map (·.bid) ++ keys rest).Nodup := by
      have : (cands.map (·.bid) ++ keys rest).Sublist (cands.map (·.bid) ++ k :: keys rest) :=
        List.Sublist.append_left (List.sublist_cons_self _ _) _
      exact List.Nodup.sublist this h2
    split
    · split
      · trivial
      · split
        · refine gcWf_gcNext prog g rm rest _ _ h1 ?_ h4 ?_
          · simpa [List.map_append, List.append_assoc] using h2
          · intro c hc
            rcases List.mem_append.mp hc with hc | hc
            · exact h5 c hc
            · simp only [List.mem_singleton] at hc; subst hc; exact hk
        · exact gcWf_gcNext prog g rm rest cands _ h1 h2' h4 h5
    · trivial
  case gMove rm plan t d te =>
    obtain ⟨h1, h2, h3⟩ := h
    unfold stepPc; simp only
    cases plan with
    | nil => simp only; split <;> trivial
    | cons c rest =>
      simp only
      cases hf : g.final c.bid with
      | none => simp only; split <;> trivial
      | some dd =>
        simp only
        cases rest with
        | nil => simp only; split <;> trivial
        | cons c1 r2 =>
          simp only
          have hn := List.nodup_cons.mp (by simpa using h2 : (c.bid :: (c1 :: r2).map (·.bid)).Nodup)
          refine ⟨nodup_erasePkg rm c.bid h1, hn.2, ?_⟩
          intro c' hc'
          refine (mem_keys_erasePkg rm c.bid c'.bid h1).mpr ⟨?_, h3 c' (List.mem_cons_of_mem _ hc')⟩
          intro he
          exact hn.1 (List.mem_map.mpr ⟨c', hc', he⟩)
  all_goals exact gcWf_of_notEX (stepPc_notEX H cfg prog exO shO g _ rfl (by intro hh; cases hh))

def Pc.rmeta : Pc → Option (List (Bid × Nat))
  | .gScanOpen rm _ _ _ => some rm
  | .gScanLock rm _ _ _ _ _ => some rm
  | .gMove rm _ _ _ _ => some rm
  | _ => none

def Pc.dirty : Pc → Bool
  | .gMove _ _ _ d _ => d
  | _ => false

/-- published, not yet recorded in repo.json -/
def Pc.inWindow : Pc → Bool
  | .iAddOpen | .iAddTouch | .iAddLock | .iAddCreate | .iAddCreateLock => true
  | _ => false

theorem Pc.rmeta_of_notEX {pc : Pc} (h : pc.holdsEX = false) : pc.rmeta = none := by
  cases pc <;> first | rfl | (simp [Pc.holdsEX] at h)

theorem Pc.holdsEX_of_rmeta {pc : Pc} {rm : List (Bid × Nat)} (h : pc.rmeta = some rm) : pc.holdsEX = true := by
  cases pc <;> first | rfl | (simp [Pc.rmeta] at h)

theorem Pc.dirty_of_notEX {pc : Pc} (h : pc.holdsEX = false) : pc.dirty = false := by
  cases pc <;> first | rfl | (simp [Pc.holdsEX] at h)

@[simp] theorem inWindow_afterShare {cfg : Cfg} (prog : Prog) (g : Store) (r : Res) : (afterShare cfg prog g r).2.inWindow = false := by
  rcases afterShare_pc (cfg := cfg) prog g r with ⟨_, h⟩ | ⟨_, h⟩ | ⟨_, h⟩ | h <;> rw [h] <;> rfl

@[simp] theorem inWindow_finishGc {cfg : Cfg} (prog : Prog) (g : Store) (r : Res) : (finishGc cfg prog g r).2.inWindow = false := by
  rcases finishGc_pc (cfg := cfg) prog g r with ⟨_, h⟩ | ⟨_, h⟩ | ⟨_, h⟩ | h <;> rw [h] <;> rfl

@[simp] theorem inWindow_gcStart {cfg : Cfg} (prog : Prog) (g : Store) : (gcStart cfg prog g).2.inWindow = false := by
  unfold gcStart
  split
  · simp
  · split
    · simp
    · rfl

@[simp] theorem inWindow_gcPlan (prog : Prog) (g : Store) (rm : List (Bid × Nat)) (c : List Cand) (t : Nat) :
    (gcPlan prog g rm c t).2.inWindow = false := by
  unfold gcPlan
  simp only
  split <;> rfl

@[simp] theorem inWindow_gcNext (prog : Prog) (g : Store) (rm todo : List (Bid × Nat)) (c : List Cand) (t : Nat) :
    (gcNext prog g rm todo c t).2.inWindow = false := by
  unfold gcNext
  split
  · simp
  · rfl

/-- a process enters the window only by publishing -/
theorem stepPc_inWindow_enter (H : Nat → Nat) (cfg : Cfg) (prog : Prog) (exO shO : Bool) (g : Store) (pc : Pc)
    (h : (stepPc H cfg prog exO shO g pc).2.inWindow = true) (hpc : pc.inWindow = false) :
    (∃ tmp, pc = .iRename tmp) ∧ g.final (opBid prog) = none := by
  cases pc
  case iRename tmp =>
    unfold stepPc at h; simp only at h
    cases hf : g.final (opBid prog) with
    | none => exact ⟨⟨tmp, rfl⟩, rfl⟩
    | some d => simp [hf] at h
  case iAddOpen => simp [Pc.inWindow] at hpc
  case iAddTouch => simp [Pc.inWindow] at hpc
  case iAddLock => simp [Pc.inWindow] at hpc
  case iAddCreate => simp [Pc.inWindow] at hpc
  case iAddCreateLock => simp [Pc.inWindow] at hpc
  all_goals (exfalso; revert h; unfold stepPc; simp only)
  all_goals (repeat' split)
  all_goals first
    | (intro h; simp only [inWindow_afterShare, inWindow_finishGc, inWindow_gcStart, inWindow_gcPlan, inWindow_gcNext] at h; cases h)
    | (intro h; cases h)
    | simp [Pc.inWindow]

/-- a process leaves the window only by recording its package -/
theorem stepPc_inWindow_stay (H : Nat → Nat) (cfg : Cfg) (prog : Prog) (exO shO : Bool) (g : Store) (pc : Pc)
    (hpc : pc.inWindow = true) :
    (stepPc H cfg prog exO shO g pc).2.inWindow = true ∨
      ((pc = .iAddLock ∨ pc = .iAddCreateLock) ∧ exO = false ∧ shO = false) := by
  cases pc
  case iAddOpen =>
    left
    unfold stepPc; simp only
    cases hr : g.repo <;> simp only <;> (try split) <;> rfl
  case iAddCreate =>
    left
    unfold stepPc; simp only
    cases hr : g.repo <;> rfl
  case iAddTouch =>
    left
    unfold stepPc; simp only
    cases hr : g.repo <;> rfl
  case iAddLock =>
    cases hex : exO <;> cases hsh : shO
    · right; exact ⟨Or.inl rfl, rfl, rfl⟩
    all_goals (left; unfold stepPc; simp; rfl)
  case iAddCreateLock =>
    cases hex : exO <;> cases hsh : shO
    · right; exact ⟨Or.inr rfl, rfl, rfl⟩
    all_goals (left; unfold stepPc; simp; rfl)
  all_goals simp [Pc.inWindow] at hpc

theorem rmeta_gcPlan (prog : Prog) (g : Store) (rm : List (Bid × Nat)) (c : List Cand) (t : Nat) (rm' : List (Bid × Nat))
    (h : (gcPlan prog g rm c t).2.rmeta = some rm') : rm' = rm ∧ (gcPlan prog g rm c t).2.dirty = false := by
  unfold gcPlan at h ⊢
  simp only at h ⊢
  split
  · rename_i hc; simp [hc, Pc.rmeta] at h
  · rename_i hc; simp [hc, Pc.rmeta] at h; exact ⟨h.symm, rfl⟩

theorem rmeta_gcNext (prog : Prog) (g : Store) (rm todo : List (Bid × Nat)) (c : List Cand) (t : Nat) (rm' : List (Bid × Nat))
    (h : (gcNext prog g rm todo c t).2.rmeta = some rm') : rm' = rm ∧ (gcNext prog g rm todo c t).2.dirty = false := by
  unfold gcNext at h ⊢
  split
  · exact rmeta_gcPlan prog g rm c t rm' h
  · simp [Pc.rmeta] at h; exact ⟨h.symm, rfl⟩

/-- scanning keeps the in-memory copy of repo.json and writes nothing -/
theorem stepPc_scan_rmeta (H : Nat → Nat) (cfg : Cfg) (prog : Prog) (exO shO : Bool) (g : Store) (pc : Pc)
    (rm : List (Bid × Nat)) (hrm : pc.rmeta = some rm) (hmove : ∀ rm plan t d te, pc ≠ .gMove rm plan t d te)
    (rm' : List (Bid × Nat)) (h : (stepPc H cfg prog exO shO g pc).2.rmeta = some rm') :
    rm' = rm ∧ (stepPc H cfg prog exO shO g pc).2.dirty = false := by
  cases pc
  case gScanOpen rm0 todo cands total =>
    simp [Pc.rmeta] at hrm; subst hrm
    unfold stepPc at h ⊢; simp only at h ⊢
    cases todo with
    | nil => exact rmeta_gcPlan _ _ _ _ _ _ h
    | cons x rest =>
      obtain ⟨k, sz⟩ := x
      simp only at h ⊢
      cases hf : g.final k with
      | none => simp only [hf] at h ⊢; exact rmeta_gcNext _ _ _ _ _ _ _ h
      | some d =>
        simp only [hf] at h ⊢
        cases hi : d.info with
        | none => simp only [hi] at h ⊢; exact rmeta_gcNext _ _ _ _ _ _ _ h
        | some j => simp only [hi, Pc.rmeta, Option.some.injEq] at h ⊢; exact ⟨h.symm, rfl⟩
  case gScanLock rm0 k sz rest cands total =>
    simp [Pc.rmeta] at hrm; subst hrm
    unfold stepPc at h ⊢; simp only at h ⊢
    split at h
    · rename_i a w m t hf
      cases hu : checkUnused g k m.users with
      | error e => simp [hu, Pc.rmeta] at h
      | ok u => simp only [hu] at h ⊢; exact rmeta_gcNext _ _ _ _ _ _ _ h
    · simp [Pc.rmeta] at h
  case gMove rm0 plan t d te => exact absurd rfl (hmove rm0 plan t d te)
  all_goals simp [Pc.rmeta] at hrm

/-- how `use` may touch a package directory in the patched code: nothing, the mtime, or a rewrite of pkg.json
that stays valid and keeps the size -/
def FinalQuiet (g g' : Store) : Prop :=
  ∀ b, g'.final b = g.final b ∨
    (∃ d mt, g.final b = some d ∧ g'.final b = some { d with mtime := mt }) ∨
    (∃ d m m' mt, g.final b = some d ∧ d.info = some (.valid m) ∧ m'.size = m.size ∧
        g'.final b = some { d with info := some (.valid m'), mtime := mt })

theorem finalQuiet_fwd {g g' : Store} (h : FinalQuiet g g') {b : Bid} {d : PkgDir} {m : Meta}
    (hd : g.final b = some d) (hm : d.info = some (.valid m)) :
    ∃ d' m', g'.final b = some d' ∧ d'.info = some (.valid m') ∧ m'.size = m.size := by
  rcases h b with h1 | ⟨d0, mt, h1, h2⟩ | ⟨d0, m0, m', mt, h1, h2, h3, h4⟩
  · exact ⟨d, m, by rw [h1]; exact hd, hm, rfl⟩
  · rw [hd] at h1; cases h1; exact ⟨_, m, h2, hm, rfl⟩
  · rw [hd] at h1; cases h1
    rw [hm] at h2; cases h2
    exact ⟨_, m', h4, rfl, h3⟩

theorem finalQuiet_rev {g g' : Store} (h : FinalQuiet g g') {b : Bid} {d' : PkgDir} (hd : g'.final b = some d') :
    ∃ d, g.final b = some d ∧ ∀ m, d.info = some (.valid m) → ∃ m', d'.info = some (.valid m') ∧ m'.size = m.size := by
  rcases h b with h1 | ⟨d0, mt, h1, h2⟩ | ⟨d0, m0, m', mt, h1, h2, h3, h4⟩
  · exact ⟨d', by rw [← h1]; exact hd, fun m hm => ⟨m, hm, rfl⟩⟩
  · rw [hd] at h2; cases h2; exact ⟨d0, h1, fun m hm => ⟨m, hm, rfl⟩⟩
  · rw [hd] at h4; cases h4
    refine ⟨d0, h1, fun m hm => ?_⟩
    rw [hm] at h2; cases h2
    exact ⟨m', rfl, h3⟩

theorem stepPc_finalQuiet (H : Nat → Nat) (prog : Prog) (exO shO : Bool) (g : Store) (pc : Pc)
    (hff : PcFF pc) (hren : ∀ tmp, pc = .iRename tmp → g.final (opBid prog) ≠ none)
    (hmove : ∀ rm plan t d te, pc ≠ .gMove rm plan t d te) :
    FinalQuiet g (stepPc H fx prog exO shO g pc).1 := by
  intro b
  by_cases hu : pc = .uLockPkg
  · subst hu
    unfold stepPc; simp only
    cases hf : g.final (opBid prog) with
    | none => left; rfl
    | some d =>
      simp only
      cases hi : d.info with
      | none => left; rfl
      | some j =>
        cases j with
        | torn => left; rfl
        | valid m =>
          simp only
          by_cases e : b = opBid prog
          · subst e
            split
            · right; left; exact ⟨d, g.clock, hf, by simp [touch_final, hf]⟩
            · right; right
              exact ⟨d, m, { m with users := m.users ++ [opWs prog] }, g.clock, hf, hi, rfl, by simp [setMeta_final, hf]⟩
          · left
            split
            · simp [touch_final, e]
            · simp [setMeta_final, e]
  · rcases stepPc_final H fx prog exO shO g pc b with h | ⟨tmp, hp, hb, hn, _⟩ | ⟨rm, c, rest, t, d, te, hp, _⟩ |
        ⟨d, info, mt, _, _, _, hok⟩
    · left; exact h
    · exfalso; exact hren tmp hp (by rw [← hb]; exact hn)
    · exfalso; exact hmove _ _ _ _ _ hp
    · exfalso
      rcases hok with ⟨hp, _⟩ | ⟨m', r, hp, _⟩
      · exact hu hp
      · subst hp; have := hff.1; cases this

/-- the prepared directory carries a valid pkg.json with the size that will be recorded -/
def TmpOk (prog : Prog) : Pc → Prop
  | .iRename tmp => ∃ m, tmp.info = some (.valid m) ∧ m.size = opSize prog
  | _ => True

theorem tmpOk_afterShare {cfg : Cfg} (prog : Prog) (g : Store) (r : Res) : TmpOk prog (afterShare cfg prog g r).2 := by
  rcases afterShare_pc (cfg := cfg) prog g r with ⟨_, h⟩ | ⟨_, h⟩ | ⟨_, h⟩ | h <;> rw [h] <;> trivial

theorem tmpOk_finishGc {cfg : Cfg} (prog : Prog) (g : Store) (r : Res) : TmpOk prog (finishGc cfg prog g r).2 := by
  rcases finishGc_pc (cfg := cfg) prog g r with ⟨_, h⟩ | ⟨_, h⟩ | ⟨_, h⟩ | h <;> rw [h] <;> trivial

theorem tmpOk_gcStart {cfg : Cfg} (prog : Prog) (g : Store) : TmpOk prog (gcStart cfg prog g).2 := by
  unfold gcStart
  split
  · exact tmpOk_finishGc ..
  · split
    · exact tmpOk_finishGc ..
    · trivial

theorem tmpOk_gcPlan (prog : Prog) (g : Store) (rm : List (Bid × Nat)) (c : List Cand) (t : Nat) :
    TmpOk prog (gcPlan prog g rm c t).2 := by
  unfold gcPlan
  simp only
  split <;> trivial

theorem tmpOk_gcNext (prog : Prog) (g : Store) (rm todo : List (Bid × Nat)) (c : List Cand) (t : Nat) :
    TmpOk prog (gcNext prog g rm todo c t).2 := by
  unfold gcNext
  split
  · exact tmpOk_gcPlan ..
  · trivial

theorem stepPc_tmpOk (H : Nat → Nat) (cfg : Cfg) (prog : Prog) (exO shO : Bool) (g : Store) (pc : Pc) :
    TmpOk prog (stepPc H cfg prog exO shO g pc).2 := by
  cases pc
  case iVerify =>
    unfold stepPc; simp only
    cases hop : prog.op with
    | install ws b dst cl sz au lk =>
      simp only
      split
      · trivial
      · exact ⟨_, rfl, by simp [opSize, hop]⟩
    | _ => trivial
  all_goals (unfold stepPc; simp only)
  all_goals (repeat' split)
  all_goals first | trivial | exact tmpOk_afterShare .. | exact tmpOk_finishGc .. | exact tmpOk_gcStart .. | exact tmpOk_gcNext .. | exact tmpOk_gcPlan ..

end Share
