import BobModel.Proofs.C15Basic
/-
C15: induction over runs, the lock invariant, and the invariants behind the property theorems.
-/
namespace Share

theorem othersAny_false {f : Pc → Bool} {procs : List Proc} {p : Pid} :
    othersAny f procs p = false ↔ ∀ j q, procs[j]? = some q → j ≠ p → f q.pc = false := by
  unfold othersAny
  rw [List.any_eq_false]
  constructor
  · intro h j q hq hj
    have := h (q, j) (List.mem_zipIdx_iff_getElem?.mpr hq)
    simp only [Bool.and_eq_true, bne_iff_ne, ne_eq, not_and] at this
    have := this hj
    simpa using this
  · intro h x hx
    have hq := List.mem_zipIdx_iff_getElem?.mp hx
    simp only [Bool.and_eq_true, bne_iff_ne, ne_eq, not_and]
    intro hj
    have := h x.2 x.1 hq hj
    simp [this]

/-- the two shapes of a step -/
theorem step_cases (H : Nat → Nat) (ff : Bool) (s : St) (p : Pid) :
    (s.procs[p]? = none ∧ step H ff s p = s) ∨
    (∃ pr, s.procs[p]? = some pr ∧
      step H ff s p =
        { g := (stepPc H ff pr.prog (othersAny Pc.holdsEX s.procs p) (othersAny Pc.holdsSH s.procs p) s.g pr.pc).1,
          procs := s.procs.set p
            { pr with pc := (stepPc H ff pr.prog (othersAny Pc.holdsEX s.procs p) (othersAny Pc.holdsSH s.procs p) s.g pr.pc).2,
                      pub := pr.pub || isPublish s.g pr.prog pr.pc } }) := by
  unfold step
  cases h : s.procs[p]? with
  | none => left; simp
  | some pr => right; exact ⟨pr, rfl, rfl⟩

theorem run_inv {P : St → Prop} (H : Nat → Nat) (ff : Bool) (hstep : ∀ s p, P s → P (step H ff s p))
    (init : St) (h0 : P init) (sched : List Pid) : P (run H ff init sched) := by
  induction sched generalizing init with
  | nil => exact h0
  | cons p rest ih => exact ih _ (hstep _ _ h0)

theorem othersAny_true_of {f : Pc → Bool} {procs : List Proc} {p j : Nat} {q : Proc}
    (hq : procs[j]? = some q) (hj : j ≠ p) (hf : f q.pc = true) : othersAny f procs p = true := by
  cases hc : othersAny f procs p with
  | true => rfl
  | false =>
    have := othersAny_false.mp hc j q hq hj
    rw [hf] at this; cases this

def Mutex (s : St) : Prop :=
  ∀ (i j : Nat) (pi pj : Proc), s.procs[i]? = some pi → s.procs[j]? = some pj → pi.pc.holdsEX = true →
    (pj.pc.holdsEX = true ∨ pj.pc.holdsSH = true) → i = j

theorem Pc.not_EX_and_SH (pc : Pc) : pc.holdsEX = true → pc.holdsSH = true → False := by
  cases pc <;> simp [Pc.holdsEX, Pc.holdsSH]

theorem getElem?_set_cases {α : Type} {l : List α} {i j : Nat} {a x : α} (h : (l.set i a)[j]? = some x) :
    (j = i ∧ x = a ∧ i < l.length) ∨ (j ≠ i ∧ l[j]? = some x) := by
  rw [List.getElem?_set] at h
  by_cases e : i = j
  · subst e
    simp only [if_true] at h
    split at h
    · left; exact ⟨rfl, by simpa using h.symm, by assumption⟩
    · cases h
  · right; simp [e] at h; exact ⟨fun h' => e h'.symm, h⟩

theorem mutex_step (H : Nat → Nat) (ff : Bool) (s : St) (p : Pid) (hm : Mutex s) : Mutex (step H ff s p) := by
  rcases step_cases H ff s p with ⟨_, h⟩ | ⟨pr, hpr, h⟩
  · rw [h]; exact hm
  · rw [h]
    intro i j pi pj hi hj hex hj2
    simp only at hi hj
    rcases getElem?_set_cases hi with ⟨rfl, rfl, _⟩ | ⟨hip, hi'⟩ <;>
      rcases getElem?_set_cases hj with ⟨rfl, rfl, _⟩ | ⟨hjp, hj'⟩
    · rfl
    · -- p enters / stays in EX, j is another process holding a lock
      exfalso
      cases hold : pr.pc.holdsEX with
      | true => exact hjp (hm i j pr pj hpr hj' hold hj2).symm
      | false =>
        have hne : pr.pc = .gLock → (othersAny Pc.holdsEX s.procs i || othersAny Pc.holdsSH s.procs i) = true := by
          intro _
          rcases hj2 with h2 | h2
          · simp [othersAny_true_of hj' hjp h2]
          · simp [othersAny_true_of hj' hjp h2]
        have := stepPc_notEX H ff pr.prog (othersAny Pc.holdsEX s.procs i) (othersAny Pc.holdsSH s.procs i) s.g pr.pc hold hne
        simp only at hex
        rw [this] at hex; cases hex
    · -- i is another process in EX, p enters / stays in a locked section
      exfalso
      simp only at hj2
      have hiEX : othersAny Pc.holdsEX s.procs j = true := othersAny_true_of hi' hip hex
      rcases hj2 with h2 | h2
      · cases hold : pr.pc.holdsEX with
        | true => exact hip (hm i j pi pr hi' hpr hex (Or.inl hold))
        | false =>
          have := stepPc_notEX H ff pr.prog (othersAny Pc.holdsEX s.procs j) (othersAny Pc.holdsSH s.procs j) s.g pr.pc hold (fun _ => by simp [hiEX])
          rw [this] at h2; cases h2
      · cases hold : pr.pc.holdsSH with
        | true => exact hip (hm i j pi pr hi' hpr hex (Or.inr hold))
        | false =>
          have := stepPc_notSH H ff pr.prog (othersAny Pc.holdsEX s.procs j) (othersAny Pc.holdsSH s.procs j) s.g pr.pc hold (fun _ => hiEX)
          rw [this] at h2; cases h2
    · exact hm i j pi pj hi' hj' hex hj2

end Share
