import BobModel.Proofs.C15Basic
/-
C15: induction over runs, the lock invariant, and the invariants behind the property theorems.
-/
namespace Share

theorem othersAny_false {f : Pc → Bool} {procs : List Proc} {p : Pid} :
    othersAny f procs p = false ↔ ∀ j q, procs[j]? = some q → j ≠ p → f q.pc = false := by
  unfold othersAny
  rw [List.any_eq_false]
  constructor
  · intro h j q hq hj
    have := h (q, j) (List.mem_zipIdx_iff_getElem?.mpr hq)
    simp only [Bool.and_eq_true, bne_iff_ne, ne_eq, not_and] at this
    have := this hj
    simpa using this
  · intro h x hx
    have hq := List.mem_zipIdx_iff_getElem?.mp hx
    simp only [Bool.and_eq_true, bne_iff_ne, ne_eq, not_and]
    intro hj
    have := h x.2 x.1 hq hj
    simp [this]

/-- the two shapes of a step -/
theorem step_cases (H : Nat → Nat) (cfg : Cfg) (s : St) (p : Pid) :
    (s.procs[p]? = none ∧ step H cfg s p = s) ∨
    (∃ pr, s.procs[p]? = some pr ∧
      step H cfg s p =
        { g := (stepPc H cfg pr.prog (othersAny Pc.holdsEX s.procs p) (othersAny Pc.holdsSH s.procs p) s.g pr.pc).1,
          procs := s.procs.set p
            { pr with pc := (stepPc H cfg pr.prog (othersAny Pc.holdsEX s.procs p) (othersAny Pc.holdsSH s.procs p) s.g pr.pc).2,
                      pub := pr.pub || isPublish s.g pr.prog pr.pc } }) := by
  unfold step
  cases h : s.procs[p]? with
  | none => left; simp
  | some pr => right; exact ⟨pr, rfl, rfl⟩

theorem run_inv {P : St → Prop} (H : Nat → Nat) (cfg : Cfg) (hstep : ∀ s p, P s → P (step H cfg s p))
    (init : St) (h0 : P init) (sched : List Pid) : P (run H cfg init sched) := by
  induction sched generalizing init with
  | nil => exact h0
  | cons p rest ih => exact ih _ (hstep _ _ h0)

theorem othersAny_true_of {f : Pc → Bool} {procs : List Proc} {p j : Nat} {q : Proc}
    (hq : procs[j]? = some q) (hj : j ≠ p) (hf : f q.pc = true) : othersAny f procs p = true := by
  cases hc : othersAny f procs p with
  | true => rfl
  | false =>
    have := othersAny_false.mp hc j q hq hj
    rw [hf] at this; cases this

def Mutex (s : St) : Prop :=
  ∀ (i j : Nat) (pi pj : Proc), s.procs[i]? = some pi → s.procs[j]? = some pj → pi.pc.holdsEX = true →
    (pj.pc.holdsEX = true ∨ pj.pc.holdsSH = true) → i = j

theorem Pc.not_EX_and_SH (pc : Pc) : pc.holdsEX = true → pc.holdsSH = true → False := by
  cases pc <;> simp [Pc.holdsEX, Pc.holdsSH]

theorem getElem?_set_cases {α : Type} {l : List α} {i j : Nat} {a x : α} (h : (l.set i a)[j]? = some x) :
    (j = i ∧ x = a ∧ i < l.length) ∨ (j ≠ i ∧ l[j]? = some x) := by
  rw [List.getElem?_set] at h
  by_cases e : i = j
  · subst e
    simp only [if_true] at h
    split at h
    · left; exact ⟨rfl, by simpa using h.symm, by assumption⟩
    · cases h
  · right; simp [e] at h; exact ⟨fun h' => e h'.symm, h⟩

theorem mutex_step (H : Nat → Nat) (cfg : Cfg) (s : St) (p : Pid) (hm : Mutex s) : Mutex (step H cfg s p) := by
  rcases step_cases H cfg s p with ⟨_, h⟩ | ⟨pr, hpr, h⟩
  · rw [h]; exact hm
  · rw [h]
    intro i j pi pj hi hj hex hj2
    simp only at hi hj
    rcases getElem?_set_cases hi with ⟨rfl, rfl, _⟩ | ⟨hip, hi'⟩ <;>
      rcases getElem?_set_cases hj with ⟨rfl, rfl, _⟩ | ⟨hjp, hj'⟩
    · rfl
    · -- p enters / stays in EX, j is another process holding a lock
      exfalso
      cases hold : pr.pc.holdsEX with
      | true => exact hjp (hm i j pr pj hpr hj' hold hj2).symm
      | false =>
        have hne : pr.pc = .gLock → (othersAny Pc.holdsEX s.procs i || othersAny Pc.holdsSH s.procs i) = true := by
          intro _
          rcases hj2 with h2 | h2
          · simp [othersAny_true_of hj' hjp h2]
          · simp [othersAny_true_of hj' hjp h2]
        have := stepPc_notEX H cfg pr.prog (othersAny Pc.holdsEX s.procs i) (othersAny Pc.holdsSH s.procs i) s.g pr.pc hold hne
        simp only at hex
        rw [this] at hex; cases hex
    · -- i is another process in EX, p enters / stays in a locked section
      exfalso
      simp only at hj2
      have hiEX : othersAny Pc.holdsEX s.procs j = true := othersAny_true_of hi' hip hex
      rcases hj2 with h2 | h2
      · cases hold : pr.pc.holdsEX with
        | true => exact hip (hm i j pi pr hi' hpr hex (Or.inl hold))
        | false =>
          have := stepPc_notEX H cfg pr.prog (othersAny Pc.holdsEX s.procs j) (othersAny Pc.holdsSH s.procs j) s.g pr.pc hold (fun _ => by simp [hiEX])
          rw [this] at h2; cases h2
      · cases hold : pr.pc.holdsSH with
        | true => exact hip (hm i j pi pr hi' hpr hex (Or.inr hold))
        | false =>
          have := stepPc_notSH H cfg pr.prog (othersAny Pc.holdsEX s.procs j) (othersAny Pc.holdsSH s.procs j) s.g pr.pc hold (fun _ => hiEX)
          rw [this] at h2; cases h2
    · exact hm i j pi pj hi' hj' hex hj2

/-- a package directory is complete and its recorded hash is the hash of its content -/
def Complete (H : Nat → Nat) (d : PkgDir) : Prop :=
  d.audit = true ∧ ∃ c, d.ws = some c ∧ (d.info = some .torn ∨ ∃ m, d.info = some (.valid m) ∧ m.hash = H c)

def PcComplete (H : Nat → Nat) (g : Store) (prog : Prog) : Pc → Prop
  | .iRename tmp => Complete H tmp
  | .uClosePkg (some m') _ => ∃ d c, g.final (opBid prog) = some d ∧ d.ws = some c ∧ m'.hash = H c
  | _ => True

structure InvVC (H : Nat → Nat) (s : St) : Prop where
  store : ∀ b d, s.g.final b = some d → Complete H d
  pcs : ∀ (i : Nat) (pi : Proc), s.procs[i]? = some pi → PcComplete H s.g pi.prog pi.pc
  mutex : Mutex s

theorem pcComplete_afterShare {cfg : Cfg} (H : Nat → Nat) (g' : Store) (prog : Prog) (g : Store) (r : Res) :
    PcComplete H g' prog (afterShare cfg prog g r).2 := by
  rcases afterShare_pc (cfg := cfg) prog g r with ⟨_, h⟩ | ⟨_, h⟩ | ⟨_, h⟩ | h <;> rw [h] <;> trivial

theorem pcComplete_finishGc {cfg : Cfg} (H : Nat → Nat) (g' : Store) (prog : Prog) (g : Store) (r : Res) :
    PcComplete H g' prog (finishGc cfg prog g r).2 := by
  rcases finishGc_pc (cfg := cfg) prog g r with ⟨_, h⟩ | ⟨_, h⟩ | ⟨_, h⟩ | h <;> rw [h] <;> trivial

theorem pcComplete_gcStart {cfg : Cfg} (H : Nat → Nat) (g' : Store) (prog : Prog) (g : Store) :
    PcComplete H g' prog (gcStart cfg prog g).2 := by
  unfold gcStart
  split
  · exact pcComplete_finishGc ..
  · split
    · exact pcComplete_finishGc ..
    · trivial

theorem pcComplete_gcPlan (H : Nat → Nat) (g' : Store) (prog : Prog) (g : Store) (rm : List (Bid × Nat)) (c : List Cand) (t : Nat) :
    PcComplete H g' prog (gcPlan prog g rm c t).2 := by
  unfold gcPlan
  simp only
  split <;> trivial

theorem pcComplete_gcNext (H : Nat → Nat) (g' : Store) (prog : Prog) (g : Store) (rm todo : List (Bid × Nat)) (c : List Cand) (t : Nat) :
    PcComplete H g' prog (gcNext prog g rm todo c t).2 := by
  unfold gcNext
  split
  · exact pcComplete_gcPlan ..
  · trivial

/-- the segment's own next program counter satisfies its obligation in the new store -/
theorem stepPc_pcComplete (H : Nat → Nat) (cfg : Cfg) (prog : Prog) (exO shO : Bool) (g : Store) (pc : Pc)
    (hs : ∀ b d, g.final b = some d → Complete H d) :
    PcComplete H (stepPc H cfg prog exO shO g pc).1 prog (stepPc H cfg prog exO shO g pc).2 := by
  cases pc
  case iVerify =>
    unfold stepPc; simp only
    split
    · split
      · trivial
      · rename_i hh
        refine ⟨rfl, _, rfl, Or.inr ⟨_, rfl, ?_⟩⟩
        simp at hh; exact hh.symm
    · trivial
  case uLockPkg =>
    unfold stepPc; simp only
    cases hf : g.final (opBid prog) with
    | none => trivial
    | some d =>
      simp only
      cases hi : d.info with
      | none => trivial
      | some j =>
        cases j with
        | torn => trivial
        | valid m =>
          simp only
          split
          · trivial
          · split
            · trivial
            · obtain ⟨_, c, hc, hinfo⟩ := hs _ _ hf
              refine ⟨{ d with info := some .torn, mtime := g.clock }, c, ?_, hc, ?_⟩
              · simp [setMeta_final, hf]
              · rcases hinfo with h | ⟨m0, h, hh⟩
                · rw [hi] at h; cases h
                · rw [hi] at h; cases h; exact hh
  all_goals (unfold stepPc; simp only)
  all_goals (repeat' split)
  all_goals first | trivial | exact pcComplete_afterShare .. | exact pcComplete_finishGc .. | exact pcComplete_gcStart .. | exact pcComplete_gcNext .. | exact pcComplete_gcPlan ..

theorem complete_of_final (H : Nat → Nat) (cfg : Cfg) (prog : Prog) (exO shO : Bool) (g : Store) (pc : Pc)
    (hs : ∀ b d, g.final b = some d → Complete H d) (hpc : PcComplete H g prog pc) (b : Bid) (d' : PkgDir)
    (h : (stepPc H cfg prog exO shO g pc).1.final b = some d') : Complete H d' := by
  rcases stepPc_final H cfg prog exO shO g pc b with hsame | ⟨tmp, rfl, _, _, hnew⟩ | ⟨_, _, _, _, _, _, _, _, _, hnone⟩ |
      ⟨d, info, mt, hb, hold, hnew, hok⟩
  · rw [hsame] at h; exact hs b d' h
  · rw [hnew] at h; cases h; exact hpc
  · rw [hnone] at h; cases h
  · rw [hnew] at h; cases h
    obtain ⟨ha, c, hc, hinfo⟩ := hs b d hold
    refine ⟨ha, c, hc, ?_⟩
    rcases hok with ⟨_, hi | hi | ⟨m, m', hdi, hi, hh, _⟩⟩ | ⟨m', r, rfl, hi⟩
    · simp only [hi]; exact hinfo
    · left; exact hi
    · right
      refine ⟨m', hi, ?_⟩
      rcases hinfo with h0 | ⟨m0, h0, hh0⟩
      · rw [hdi] at h0; cases h0
      · rw [hdi] at h0; cases h0; rw [hh]; exact hh0
    · right
      refine ⟨m', hi, ?_⟩
      obtain ⟨d0, c0, hd0, hc0, hh⟩ := hpc
      rw [← hb, hold] at hd0; cases hd0
      rw [hc] at hc0; cases hc0; exact hh

theorem invVC_step (H : Nat → Nat) (cfg : Cfg) (s : St) (p : Pid) (inv : InvVC H s) : InvVC H (step H cfg s p) := by
  have hmx := mutex_step H cfg s p inv.mutex
  rcases step_cases H cfg s p with ⟨_, h⟩ | ⟨pr, hpr, h⟩
  · rw [h]; exact inv
  · rw [h] at hmx ⊢
    have hpcp := inv.pcs p pr hpr
    refine ⟨?_, ?_, hmx⟩
    · intro b d' hd'
      exact complete_of_final H cfg pr.prog _ _ s.g pr.pc inv.store hpcp b d' hd'
    · intro i pi hi
      simp only at hi ⊢
      rcases getElem?_set_cases hi with ⟨rfl, rfl, _⟩ | ⟨hip, hi'⟩
      · exact stepPc_pcComplete H cfg pr.prog _ _ s.g pr.pc inv.store
      · have hold := inv.pcs i pi hi'
        cases hq : pi.pc with
        | iRename tmp => rw [hq] at hold; exact hold
        | uClosePkg pend r =>
          cases pend with
          | none => trivial
          | some m' =>
            rw [hq] at hold
            obtain ⟨d, c, hd, hc, hh⟩ := hold
            rcases stepPc_final H cfg pr.prog (othersAny Pc.holdsEX s.procs p) (othersAny Pc.holdsSH s.procs p) s.g pr.pc
                (opBid pi.prog) with hsame | ⟨tmp, _, _, hnone, _⟩ | ⟨rm, cc, rest, t, dd, te, hpcm, _, _, _⟩ |
                ⟨d0, info, mt, _, hold0, hnew, _⟩
            · exact ⟨d, c, by rw [hsame]; exact hd, hc, hh⟩
            · rw [hd] at hnone; cases hnone
            · exfalso
              have := inv.mutex p i pr pi hpr hi' (by rw [hpcm]; rfl) (Or.inr (by rw [hq]; rfl))
              exact hip this.symm
            · rw [hd] at hold0; cases hold0
              exact ⟨_, c, hnew, hc, hh⟩
        | _ => trivial

theorem invVC_run (H : Nat → Nat) (cfg : Cfg) (init : St) (h0 : InvVC H init) (sched : List Pid) :
    InvVC H (run H cfg init sched) :=
  run_inv H cfg (fun s p => invVC_step H cfg s p) init h0 sched

def present (o : Option PkgDir) : Nat := if o.isSome then 1 else 0
@[simp] theorem present_none : present none = 0 := rfl
@[simp] theorem present_some (d : PkgDir) : present (some d) = 1 := rfl

/-- successful renames = collections + (1 if the package is at its final path) -/
def CountInv (g : Store) : Prop :=
  ∀ b, g.nInst b = g.nGc b + present (g.final b)

theorem setMeta_present (g : Store) (b : Bid) (m : JFile Meta) (b' : Bid) :
    present ((setMeta g b m).final b') = present (g.final b') := by
  rw [setMeta_final]
  by_cases e : b' = b
  · subst e; cases g.final b' <;> simp
  · simp [e]

theorem touch_present (g : Store) (b : Bid) (b' : Bid) :
    present ((touch g b).final b') = present (g.final b') := by
  rw [touch_final]
  by_cases e : b' = b
  · subst e; cases g.final b' <;> simp
  · simp [e]

theorem stepPc_gMove_cons (H : Nat → Nat) (cfg : Cfg) (prog : Prog) (exO shO : Bool) (g : Store)
    (rm : List (Bid × Nat)) (c : Cand) (rest : List Cand) (t : Nat) (d te : Bool) (dd : PkgDir)
    (hf : g.final c.bid = some dd) :
    let g' := (stepPc H cfg prog exO shO g (.gMove rm (c :: rest) t d te)).1
    g'.final = upd g.final c.bid none ∧ g'.nGc = upd g.nGc c.bid (g.nGc c.bid + 1) ∧ g'.nInst = g.nInst ∧
      g'.links = g.links := by
  unfold stepPc; simp only [hf]
  cases rest <;> simp only <;> (try split) <;> first | exact ⟨rfl, rfl, rfl, rfl⟩ | simp

theorem stepPc_gMove_other (H : Nat → Nat) (cfg : Cfg) (prog : Prog) (exO shO : Bool) (g : Store)
    (rm : List (Bid × Nat)) (plan : List Cand) (t : Nat) (d te : Bool)
    (hf : ∀ c rest, plan = c :: rest → g.final c.bid = none) :
    let g' := (stepPc H cfg prog exO shO g (.gMove rm plan t d te)).1
    g'.final = g.final ∧ g'.nGc = g.nGc ∧ g'.nInst = g.nInst ∧ g'.links = g.links := by
  unfold stepPc; simp only
  cases plan with
  | nil => simp only; split <;> exact ⟨rfl, rfl, rfl, rfl⟩
  | cons c rest => simp only [hf c rest rfl]; split <;> exact ⟨rfl, rfl, rfl, rfl⟩

theorem stepPc_countInv (H : Nat → Nat) (cfg : Cfg) (prog : Prog) (exO shO : Bool) (g : Store) (pc : Pc)
    (h : CountInv g) : CountInv (stepPc H cfg prog exO shO g pc).1 := by
  cases pc
  case iRename tmp =>
    unfold stepPc; simp only
    split
    · simpa using h
    · rename_i hn
      intro b
      have := h b
      by_cases e : b = opBid prog
      · subst e
        simp at hn
        simp [upd, hn] at this ⊢
        omega
      · simpa [upd, e] using this
  case gMove rm plan t d te =>
    cases plan with
    | nil =>
      obtain ⟨h1, h2, h3, _⟩ := stepPc_gMove_other H cfg prog exO shO g rm [] t d te (by intro c rest hh; cases hh)
      intro b; rw [h1, h2, h3]; exact h b
    | cons c rest =>
      cases hf : g.final c.bid with
      | none =>
        obtain ⟨h1, h2, h3, _⟩ := stepPc_gMove_other H cfg prog exO shO g rm (c :: rest) t d te
          (by intro c' rest' hh; cases hh; exact hf)
        intro b; rw [h1, h2, h3]; exact h b
      | some dd =>
        obtain ⟨h1, h2, h3, _⟩ := stepPc_gMove_cons H cfg prog exO shO g rm c rest t d te dd hf
        intro b
        have := h b
        rw [h1, h2, h3]
        by_cases e : b = c.bid
        · subst e; simp [upd, hf] at this ⊢; omega
        · simpa [upd, e] using this
  case uLockPkg =>
    unfold stepPc; simp only
    intro b
    have := h b
    repeat' split
    all_goals first | exact this | (simp only [touch_nInst, touch_nGc, touch_present, setMeta_nInst, setMeta_nGc, setMeta_present]; exact this)
  case uClosePkg pend r =>
    unfold stepPc; simp only [afterShare_fst]
    intro b
    have := h b
    cases pend with
    | none => exact this
    | some m' => simp only [setMeta_nInst, setMeta_nGc, setMeta_present]; exact this
  all_goals (unfold stepPc; simp only)
  all_goals (repeat' split)
  all_goals first | exact h | (simp only [afterShare_fst, finishGc_fst, gcStart_fst, gcNext_fst, gcPlan_fst]; exact h) | (intro b; simpa using h b)

theorem countInv_step (H : Nat → Nat) (cfg : Cfg) (s : St) (p : Pid) (h : CountInv s.g) : CountInv (step H cfg s p).g := by
  rcases step_cases H cfg s p with ⟨_, e⟩ | ⟨pr, _, e⟩
  · rw [e]; exact h
  · rw [e]; exact stepPc_countInv H cfg pr.prog _ _ s.g pr.pc h

def Res.isInst : Res → Bool
  | .inst _ => true
  | _ => false

def isInstall (prog : Prog) : Bool :=
  match prog.op with
  | .install .. => true
  | _ => false

/-- the ghost flag `pub` (own rename succeeded) as a function of the program counter -/
def PubOk (prog : Prog) (pub : Bool) : Pc → Prop
  | .start | .iVerify | .iRename _ => pub = false
  | .iAddOpen | .iAddTouch | .iAddLock | .iAddCreate | .iAddCreateLock | .iAddClose .. => pub = true
  | .gOpen | .gLock | .gScanOpen .. | .gScanLock .. | .gMove .. => isInstall prog = true → pub = true
  | .gClose _ r => r.isInst = false ∧ (isInstall prog = true → pub = true)
  | .uClosePkg _ r => r.isInst = false
  | .done (.inst b) => pub = b
  | _ => True

theorem pubOk_afterShare_inst {cfg : Cfg} (prog : Prog) (g : Store) (b : Bool) : PubOk prog b (afterShare cfg prog g (.inst b)).2 := by
  unfold afterShare
  split
  · rfl
  · simp only
    split <;> trivial

theorem pubOk_afterShare {cfg : Cfg} (prog : Prog) (pub : Bool) (g : Store) (r : Res) (hr : r.isInst = false) :
    PubOk prog pub (afterShare cfg prog g r).2 := by
  unfold afterShare
  split
  · cases r <;> first | trivial | (simp [Res.isInst] at hr)
  · cases r <;> simp only <;> (try split) <;> (try split) <;> first | trivial | (simp [Res.isInst] at hr)

theorem pubOk_finishGc {cfg : Cfg} (prog : Prog) (pub : Bool) (g : Store) (r : Res) (hr : r.isInst = false)
    (hp : isInstall prog = true → pub = true) : PubOk prog pub (finishGc cfg prog g r).2 := by
  unfold finishGc
  cases hop : prog.op with
  | install ws b dst cl sz au lk =>
    simp only
    have : pub = true := hp (by simp [isInstall, hop])
    subst this
    split
    · trivial
    · exact pubOk_afterShare_inst prog g true
  | _ => simp only; cases r <;> first | trivial | (simp [Res.isInst] at hr)

theorem pubOk_gcStart {cfg : Cfg} (prog : Prog) (pub : Bool) (g : Store)
    (hp : isInstall prog = true → pub = true) : PubOk prog pub (gcStart cfg prog g).2 := by
  unfold gcStart
  split
  · exact pubOk_finishGc prog pub g _ rfl hp
  · split
    · exact pubOk_finishGc prog pub g _ rfl hp
    · exact hp

theorem pubOk_gcPlan (prog : Prog) (pub : Bool) (g : Store) (rm : List (Bid × Nat)) (c : List Cand) (t : Nat)
    (hp : isInstall prog = true → pub = true) : PubOk prog pub (gcPlan prog g rm c t).2 := by
  unfold gcPlan
  simp only
  split
  · refine ⟨?_, hp⟩; split <;> rfl
  · exact hp

theorem pubOk_gcNext (prog : Prog) (pub : Bool) (g : Store) (rm todo : List (Bid × Nat)) (c : List Cand) (t : Nat)
    (hp : isInstall prog = true → pub = true) : PubOk prog pub (gcNext prog g rm todo c t).2 := by
  unfold gcNext
  split
  · exact pubOk_gcPlan prog pub g rm c t hp
  · exact hp

theorem stepPc_pubOk (H : Nat → Nat) (cfg : Cfg) (prog : Prog) (exO shO : Bool) (g : Store) (pc : Pc) (pub : Bool)
    (h : PubOk prog pub pc) :
    PubOk prog (pub || isPublish g prog pc) (stepPc H cfg prog exO shO g pc).2 := by
  cases pc
  case iRename tmp =>
    have hp : pub = false := h
    subst hp
    unfold stepPc; simp only [isPublish]
    cases hf : g.final (opBid prog) with
    | none => simp; rfl
    | some d => simp; exact pubOk_afterShare_inst prog g false
  case start =>
    have hp : pub = false := h
    subst hp
    unfold stepPc; simp only [isPublish, Bool.or_false]
    cases hop : prog.op with
    | use => trivial
    | install ws b dst cl sz au lk =>
      simp only
      split
      · exact pubOk_afterShare_inst prog g false
      · split
        · trivial
        · rfl
    | gc => simp only; exact pubOk_gcStart prog false g (by simp [isInstall, hop])
    | dropws => trivial
  case iAddClose pend tot failed =>
    have hp : pub = true := h
    subst hp
    unfold stepPc; simp only [isPublish, Bool.or_false]
    split
    · trivial
    · split
      · split
        · exact pubOk_gcStart prog true _ (fun _ => rfl)
        · exact pubOk_afterShare_inst prog _ true
      · exact pubOk_afterShare_inst prog _ true
  case done r => simpa [stepPc, isPublish] using h
  case gClose pend r =>
    unfold stepPc; simp only [isPublish, Bool.or_false]
    exact pubOk_finishGc prog pub _ r h.1 h.2
  case uClosePkg pend r =>
    unfold stepPc; simp only [isPublish, Bool.or_false]
    exact pubOk_afterShare prog pub _ r h
  all_goals (unfold stepPc; simp only [isPublish, Bool.or_false])
  all_goals (repeat' split)
  all_goals first
    | exact h
    | trivial
    | exact pubOk_afterShare prog pub _ _ rfl
    | exact pubOk_gcNext prog pub _ _ _ _ _ h
    | exact pubOk_gcPlan prog pub _ _ _ _ h
    | exact ⟨rfl, h⟩
    | exact ⟨by split <;> rfl, h⟩

def PubInv (s : St) : Prop := ∀ (i : Nat) (pi : Proc), s.procs[i]? = some pi → PubOk pi.prog pi.pub pi.pc

theorem pubInv_step (H : Nat → Nat) (cfg : Cfg) (s : St) (p : Pid) (h : PubInv s) : PubInv (step H cfg s p) := by
  rcases step_cases H cfg s p with ⟨_, e⟩ | ⟨pr, hpr, e⟩
  · rw [e]; exact h
  · rw [e]
    intro i pi hi
    simp only at hi
    rcases getElem?_set_cases hi with ⟨rfl, rfl, _⟩ | ⟨_, hi'⟩
    · exact stepPc_pubOk H cfg pr.prog _ _ s.g pr.pc pr.pub (h i pr hpr)
    · exact h i pi hi'

/-- the counter of successful renames moves exactly in a publishing segment -/
theorem stepPc_nInst (H : Nat → Nat) (cfg : Cfg) (prog : Prog) (exO shO : Bool) (g : Store) (pc : Pc) :
    (stepPc H cfg prog exO shO g pc).1.nInst =
      if isPublish g prog pc then upd g.nInst (opBid prog) (g.nInst (opBid prog) + 1) else g.nInst := by
  cases pc
  case iRename tmp =>
    unfold stepPc; simp only [isPublish]
    cases hs : (g.final (opBid prog)).isSome with
    | true =>
      have : (g.final (opBid prog)).isNone = false := by cases hx : g.final (opBid prog) <;> simp [hx] at hs ⊢
      simp [this]
    | false =>
      have : (g.final (opBid prog)).isNone = true := by cases hx : g.final (opBid prog) <;> simp [hx] at hs ⊢
      simp [this]
  case gMove rm plan t d te =>
    simp only [isPublish]
    cases plan with
    | nil => exact (stepPc_gMove_other H cfg prog exO shO g rm [] t d te (by intro c rest hh; cases hh)).2.2.1
    | cons c rest =>
      cases hf : g.final c.bid with
      | none =>
        exact (stepPc_gMove_other H cfg prog exO shO g rm (c :: rest) t d te (by intro c' rest' hh; cases hh; exact hf)).2.2.1
      | some dd => exact (stepPc_gMove_cons H cfg prog exO shO g rm c rest t d te dd hf).2.2.1
  case uLockPkg =>
    unfold stepPc; simp only [isPublish]
    repeat' split
    all_goals first | rfl | simp
  case uClosePkg pend r =>
    unfold stepPc; simp only [afterShare_fst, isPublish]
    cases pend <;> simp
  all_goals (unfold stepPc; simp only [isPublish])
  all_goals (repeat' split)
  all_goals first | rfl | simp

def pubCount (procs : List Proc) (b : Bid) : Nat := procs.countP (fun q => q.pub && opBid q.prog == b)

/-- successful renames of `b` = `base b` + number of processes whose own rename of `b` succeeded -/
def PubCount (base : Bid → Nat) (s : St) : Prop := ∀ b, s.g.nInst b = base b + pubCount s.procs b

theorem pubCount_step (H : Nat → Nat) (cfg : Cfg) (base : Bid → Nat) (s : St) (p : Pid) (hp : PubInv s)
    (h : PubCount base s) : PubCount base (step H cfg s p) := by
  rcases step_cases H cfg s p with ⟨_, e⟩ | ⟨pr, hpr, e⟩
  · rw [e]; exact h
  · rw [e]
    intro b
    have hlt : p < s.procs.length := by
      rcases Nat.lt_or_ge p s.procs.length with hl | hl
      · exact hl
      · rw [List.getElem?_eq_none hl] at hpr; cases hpr
    have hget : s.procs[p] = pr := by
      have := List.getElem?_eq_getElem hlt
      rw [this] at hpr; exact Option.some.inj hpr
    simp only [pubCount, stepPc_nInst]
    rw [List.countP_set hlt, hget]
    have hb := h b
    simp only [pubCount] at hb
    cases hpub : isPublish s.g pr.prog pr.pc with
    | false =>
               simp only [Bool.or_false, Bool.false_eq_true, ↓reduceIte]
               have : (List.countP (fun q => q.pub && opBid q.prog == b) s.procs) ≥ (if (pr.pub && opBid pr.prog == b) = true then 1 else 0) := by
                 have hm : pr ∈ s.procs := by rw [← hget]; exact List.getElem_mem hlt
                 split
                 · rename_i hc
                   exact List.countP_pos_iff.mpr ⟨pr, hm, hc⟩
                 · omega
               omega
    | true =>
      have hpf : pr.pub = false := by
        have := hp p pr hpr
        cases hq : pr.pc <;> simp [isPublish, hq] at hpub
        rw [hq] at this; exact this
      simp only [hpf, Bool.false_and, Bool.false_or, Bool.true_and, if_true]
      by_cases eb : b = opBid pr.prog
      · subst eb; simp [upd]; omega
      · have : (opBid pr.prog == b) = false := by simp; exact fun h => eb h.symm
        simp [upd, eb, this]; omega

end Share
