import BobModel.Proofs.C08Fallback
/-
Helper lemmas for Props/C08.lean, part 5: what the checks of the repaired dispatch
(`checkMember`, `tarFilter`) establish, and that the extraction of one checked member
(`extractMember`) is a confined step.
-/
namespace TarExtract

/-! ### member name strings -/

theorem splitSlash_ne_nil (s : Str) : splitSlash s ≠ [] := by
  cases s with
  | nil => simp [splitSlash]
  | cons c r =>
    simp only [splitSlash]
    split
    · simp
    · split <;> simp

theorem comps_lstripSlash (s : Str) : comps (lstripSlash s) = comps s := by
  induction s with
  | nil => rfl
  | cons c r ih =>
    simp only [lstripSlash]
    split
    · rename_i hc
      rw [ih]
      simp [comps, splitSlash, hc]
    · rfl

theorem canonical_comps {s : Str} (h : canonical s = true) :
    comps s ≠ [] ∧ ∀ c ∈ comps s, Plain c := by
  unfold canonical at h
  rw [List.all_eq_true] at h
  have hall : ∀ c ∈ splitSlash s, Plain c := by
    intro c hc
    have := h c hc
    simpa [Plain] using this
  have hcomps : comps s = splitSlash s := by
    unfold comps
    rw [List.filter_eq_self]
    intro c hc
    simpa using (hall c hc).1
  rw [hcomps]
  exact ⟨splitSlash_ne_nil s, hall⟩

section Member
variable {dest : Path} {cfg : Cfg}

/-- where `os.link` takes its source from -/
def linkSrc (dest : List Name) (linkname : Str) : List Name :=
  if isAbs linkname then comps linkname else dest ++ comps linkname

/-- the facts about a hard link source that the repaired check establishes -/
def LinkOk (dest : Path) (cfg : Cfg) (a : FS) (linkname : Str) : Prop :=
  ∃ s rsrc, walk a false false cfg.fuel [] (linkSrc dest linkname) = .ok s ∧ symTarget a s = none ∧
    walk a false true cfg.fuel [] (linkSrc dest linkname) = .ok rsrc ∧ Inside dest rsrc

/-- what the repaired check has seen with the kernel's eyes: the link source is an existing
non-link file object, and the link's own path `full` is missing as far as it resolves -/
def LinkStrict (dest : Path) (cfg : Cfg) (a : FS) (full : List Name) (linkname : Str) : Prop :=
  (∃ s i, kres a cfg false (linkSrc dest linkname) = .ok s ∧ a.look s = some (.ref i)) ∧
  (∀ d, kres a cfg false full = .ok d → a.look d = none)

theorem LinkOk.transport {a b : FS} (h : SameSym a b) {ln : Str} (hl : LinkOk dest cfg a ln) : LinkOk dest cfg b ln := by
  obtain ⟨s, rsrc, h1, h2, h3, h4⟩ := hl
  exact ⟨s, rsrc, by rw [← walk_lenient_sameSym h false]; exact h1, by rw [← h s]; exact h2,
    by rw [← walk_lenient_sameSym h true]; exact h3, h4⟩

/-- the extraction of a member whose parent directory and whose own resolved location are
inside the destination is a confined step -/
theorem extractMember_conf (hdne : dest ≠ []) (hdp : ∀ c ∈ dest, c ≠ dot ∧ c ≠ dotdot) (hfuel : dest.length ≤ cfg.fuel)
    {a : FS} (hinv : Inv dest a) {m : Member} {ups : List Name} {c : Name}
    (hnc : comps m.name = ups ++ [c]) (hups : ∀ x ∈ ups, Plain x) (hc : Plain c)
    {P R : Path} (hP : walk a false true cfg.fuel [] (dest ++ ups) = .ok P) (hPin : Inside dest P)
    (hR : walk a false true cfg.fuel [] (dest ++ ups ++ [c]) = .ok R) (hRin : Inside dest R)
    (hlnk : m.type = .lnk → LinkOk dest cfg a m.linkname ∧ LinkStrict dest cfg a (dest ++ comps m.name) m.linkname)
    (prev : List Member) :
    MStep dest a (extractMember cfg a dest prev m).1 ∧ Inv dest (extractMember cfg a dest prev m).1 := by
  have hcd : c ≠ dot ∧ c ≠ dotdot := ⟨hc.2.1, hc.2.2⟩
  have hfull : dest ++ comps m.name = dest ++ ups ++ [c] := by rw [hnc, List.append_assoc]
  have hdrop : (dest ++ ups ++ [c]).dropLast = dest ++ ups := by simp
  unfold extractMember
  simp only [hfull, hdrop]
  have hrec : Good dest a (if dest ++ ups ≠ [] ∧ kexists a cfg (dest ++ ups) = false
      then makedirs a cfg (dest ++ ups).length (dest ++ ups) else (a, KRes.ok)).1 ∧
      OnlyNew P a (if dest ++ ups ≠ [] ∧ kexists a cfg (dest ++ ups) = false
      then makedirs a cfg (dest ++ ups).length (dest ++ ups) else (a, KRes.ok)).1 := by
    split
    · exact ⟨makedirs_good hdne hdp hfuel hups hPin _ ups [] a (by simp) hinv hP,
        makedirs_onlyNew hdne hdp hfuel hups hPin _ ups [] a (by simp) hinv hP⟩
    · exact ⟨Good.refl hinv, OnlyNew.refl _ _⟩
  generalize (if dest ++ ups ≠ [] ∧ kexists a cfg (dest ++ ups) = false
      then makedirs a cfg (dest ++ ups).length (dest ++ ups) else (a, KRes.ok)) = r1 at hrec ⊢
  obtain ⟨a1, res⟩ := r1
  simp only [] at hrec ⊢
  obtain ⟨⟨hm1, hinv1, hss1⟩, hon1⟩ := hrec
  have hP1 : walk a1 false true cfg.fuel [] (dest ++ ups) = .ok P := by
    rw [← walk_lenient_sameSym hss1 true]; exact hP
  have hR1 : walk a1 false true cfg.fuel [] (dest ++ ups ++ [c]) = .ok R := by
    rw [← walk_lenient_sameSym hss1 true]; exact hR
  -- attribute calls after a `SameSym` operation
  have hattr : ∀ {b : FS}, Good dest a1 b → ∀ mode,
      MStep dest a (chmodFollow b cfg (dest ++ ups ++ [c]) mode) ∧ Inv dest (chmodFollow b cfg (dest ++ ups ++ [c]) mode) := by
    intro b hb mode
    have hRb : walk b false true cfg.fuel [] (dest ++ ups ++ [c]) = .ok R := by
      rw [← walk_lenient_sameSym hb.2.2 true]; exact hR1
    have := chmodFollow_good (cfg := cfg) hdne hb.2.1 hRb hRin mode
    exact ⟨hm1.trans (hb.1.trans this.1), this.2.1⟩
  have hstop : ∀ {b : FS}, Good dest a1 b → MStep dest a b ∧ Inv dest b :=
    fun hb => ⟨hm1.trans hb.1, hb.2.1⟩
  cases res with
  | fail => exact ⟨hm1, hinv1⟩
  | eexist => exact ⟨hm1, hinv1⟩
  | unsup => exact ⟨hm1, hinv1⟩
  | ok =>
    simp only []
    cases hty : m.type with
    | reg =>
      simp only []
      have hw := kWrite_good (cfg := cfg) hdne hinv1 hR1 hRin m.data
      cases (kWrite a1 cfg (dest ++ ups ++ [c]) m.data).2 <;> first
        | exact hattr hw _
        | exact hstop hw
    | dir =>
      simp only []
      have hw := kMkdir_good (cfg := cfg) hinv1 hcd hP1 hPin 0o700
      cases (kMkdir a1 cfg (dest ++ ups ++ [c]) 0o700).2 <;> first
        | exact hattr hw _
        | exact hstop hw
    | sym =>
      simp only []
      have hw := kSymlink_good (cfg := cfg) hinv1 hcd hP1 hPin m.linkname
      cases (kSymlink a1 cfg (dest ++ ups ++ [c]) m.linkname).2 <;>
        exact ⟨hm1.trans hw.1, hw.2⟩
    | lnk =>
      simp only []
      by_cases hsl : m.linkname.getLast? = some slash
      · simp only [hsl, if_true]; exact ⟨hm1, hinv1⟩
      · simp only [hsl, if_false]
        have hl1 := (hlnk hty).1.transport hss1
        obtain ⟨s, rsrc, h1, h2, h3, h4⟩ := hl1
        obtain ⟨⟨s0, i0, hks, hls⟩, hD⟩ := (hlnk hty).2
        rw [hfull] at hD
        have hsrc : (if isAbs m.linkname = true then comps m.linkname else dest ++ comps m.linkname) = linkSrc dest m.linkname := rfl
        rw [hsrc]
        -- the source is still there after `makedirs`
        have hks1 : kres a1 cfg false (linkSrc dest m.linkname) = .ok s0 := by
          unfold kres at hks ⊢
          exact walk_strict_grow hon1.grow false _ _ _ _ _ hks hls
        have hls1 : a1.look s0 = some (.ref i0) := hon1.grow.2 _ _ hls
        have hs0 : s0 = s := by
          unfold kres at hks1
          have := walk_strict_lenient a1 false _ _ _ _ hks1
          rw [h1] at this; exact (Except.ok.inj this).symm
        subst hs0
        have hex : kexists a1 cfg (linkSrc dest m.linkname) = true := by
          unfold kexists
          have : kres a1 cfg true (linkSrc dest m.linkname) = .ok s0 := by
            unfold kres at hks1 ⊢
            exact walk_nofollow_follow a1 true _ _ _ _ hks1 h2
          rw [this]
          simp [hls1]
        simp only [hex, if_true]
        have hw := kLink_good (cfg := cfg) hinv1 hcd hP1 hPin h1 h2 h3 h4
        cases hk : kres a1 cfg false (dest ++ ups ++ [c]) with
        | ok L =>
          -- the link's own name resolves: it is still missing, `os.link` succeeds, no fallback
          have hloc := nofollow_location hinv1 hcd hP1 hPin (by unfold kres at hk; exact hk)
          have hL : L = P ++ [c] := hloc.1
          subst hL
          have hmiss := dst_missing_transport (cfg := cfg) hinv.wf hon1 hD hk
          have hok : (kLink a1 cfg (linkSrc dest m.linkname) (dest ++ ups ++ [c])).2 = .ok := by
            unfold kLink
            simp only [hks1, hk, hls1, hmiss]
          simp only [hok]
          exact hattr hw _
        | error e =>
          -- it does not resolve: `os.link` fails, and so does every operation of the re-extraction
          have hun : kLink a1 cfg (linkSrc dest m.linkname) (dest ++ ups ++ [c]) = (a1, .unsup) := by
            unfold kLink
            simp only [hks1, hk]
          simp only [hun]
          rw [linkFallback_nochange hk]
          exact ⟨hm1, hinv1⟩
    | fifo =>
      simp only []
      have hw := kMknod_good (cfg := cfg) hinv1 hcd hP1 hPin .fifo (by intro t h; cases h)
      cases (kMknod a1 cfg (dest ++ ups ++ [c]) .fifo).2 <;> first
        | exact hattr hw _
        | exact hstop hw
    | chr =>
      simp only []
      have hw := kMknod_good (cfg := cfg) hinv1 hcd hP1 hPin .chr (by intro t h; cases h)
      cases (kMknod a1 cfg (dest ++ ups ++ [c]) .chr).2 <;> first
        | exact hattr hw _
        | exact hstop hw

/-! ### what the checks establish -/

theorem realpath_dest {a : FS} (hinv : Inv dest a) (hdp : ∀ c ∈ dest, c ≠ dot ∧ c ≠ dotdot)
    (hfuel : dest.length ≤ cfg.fuel) : realpath a cfg dest = .ok dest := by
  have := walk_dest_prefix (cfg := cfg) hinv hdp hfuel false true dest.length
  simpa [realpath] using this

theorem checkMember_facts (hcn : cfg.canonNames = true) (hcp : cfg.parentCheck = true) (hcl : cfg.lnkCheck = 2)
    {a : FS} (hinv : Inv dest a) (hdp : ∀ c ∈ dest, c ≠ dot ∧ c ≠ dotdot) (hfuel : dest.length ≤ cfg.fuel)
    {m : Member} (h : checkMember cfg a dest m = .ok ()) :
    canonical m.name = true ∧
    (∃ P, walk a false true cfg.fuel [] (dest ++ (comps m.name).dropLast) = .ok P ∧ Inside dest P) ∧
    (m.type = .lnk → LinkOk dest cfg a m.linkname ∧ LinkStrict dest cfg a (dest ++ comps m.name) m.linkname) := by
  unfold checkMember at h
  rw [realpath_dest hinv hdp hfuel] at h
  simp only [hcn, hcp, hcl, true_and, if_true] at h
  by_cases hcan : canonical m.name = true
  · simp only [hcan, Bool.true_eq_false, if_false] at h
    refine ⟨hcan, ?_⟩
    cases hpar : realpath a cfg (dest ++ (comps m.name).dropLast) with
    | error e => simp [hpar] at h
    | ok par =>
      simp only [hpar] at h
      by_cases hin : dest.isPrefixOf par = true
      · simp only [hin, if_true] at h
        refine ⟨⟨par, hpar, List.isPrefixOf_iff_prefix.mp hin⟩, ?_⟩
        intro hty
        simp only [hty, and_true, if_true] at h
        have hsrc : (if isAbs m.linkname = true then comps m.linkname else dest ++ comps m.linkname) = linkSrc dest m.linkname := rfl
        rw [hsrc] at h
        cases hrs : realpath a cfg (linkSrc dest m.linkname) with
        | error e => simp [hrs] at h
        | ok rsrc =>
          simp only [hrs] at h
          by_cases hri : dest.isPrefixOf rsrc = true
          · simp only [hri, Bool.true_eq_false, if_false] at h
            cases hks : kres a cfg false (linkSrc dest m.linkname) with
            | error e => simp [hks] at h
            | ok s =>
              simp only [hks] at h
              cases hls : a.look s with
              | none => simp [hls] at h
              | some e =>
                cases e with
                | dir md => simp [hls] at h
                | ref i =>
                  simp only [hls] at h
                  cases hi : a.inode i with
                  | none => simp [hi] at h
                  | some ino =>
                    obtain ⟨ob, md⟩ := ino
                    cases ob with
                    | file d =>
                      refine ⟨⟨s, rsrc, walk_strict_lenient a false _ _ _ _ hks, ?_, hrs,
                        List.isPrefixOf_iff_prefix.mp hri⟩, ⟨s, i, hks, hls⟩, ?_⟩
                      · simp [symTarget, hls, hi]
                      · intro d' hd'
                        simp only [hi, hd'] at h
                        cases hld : a.look d' with
                        | none => rfl
                        | some e' => simp [hld] at h
                    | symlink t => simp [hi] at h
                    | fifo => simp [hi] at h
                    | chr => simp [hi] at h
          · have : dest.isPrefixOf rsrc = false := (Bool.not_eq_true _).mp hri
            simp [this] at h
      · have : dest.isPrefixOf par = false := (Bool.not_eq_true _).mp hin
        simp [this] at h
  · have : canonical m.name = false := by simpa using hcan
    simp [this] at h

theorem tarFilter_facts (hcf : cfg.filter = true) {a : FS} (hinv : Inv dest a)
    (hdp : ∀ c ∈ dest, c ≠ dot ∧ c ≠ dotdot) (hfuel : dest.length ≤ cfg.fuel)
    {m m' : Member} (h : tarFilter cfg a dest m = .ok m') :
    m' = { m with name := lstripSlash m.name } ∧
    ∃ R, walk a false true cfg.fuel [] (dest ++ comps m.name) = .ok R ∧ Inside dest R := by
  unfold tarFilter at h
  rw [realpath_dest hinv hdp hfuel] at h
  simp only [hcf, true_and] at h
  rw [comps_lstripSlash] at h
  cases hr : realpath a cfg (dest ++ comps m.name) with
  | error e => simp [hr] at h
  | ok full =>
    simp only [hr] at h
    by_cases hin : dest.isPrefixOf full = true
    · simp only [hin, Bool.true_eq_false, if_false] at h
      exact ⟨(Except.ok.inj h).symm, full, hr, List.isPrefixOf_iff_prefix.mp hin⟩
    · have : dest.isPrefixOf full = false := (Bool.not_eq_true _).mp hin
      simp [this] at h

end Member
end TarExtract
