import BobModel.Proofs.C05RerunFrame
import BobModel.Proofs.C01Done
/-
C05, "no false up-to-date": composition of `cut_in_script_unclaimed` / `unclaimed_step_is_rerun`
through the depth-first driver.  From a state in which nothing is claimed about workspace `p`
(`NoClaim`), every successful invocation (without `--no-deps`; with `--checkout-only` only if the
step at `p` is a checkout step) of a project that reaches a step at `p` starts the script of `p`.

Invariant of the driver (`RInv`): either nothing is claimed about `p` and the step at `p` has not
been cooked in this invocation (`wasRun p = none`), or the script of `p` has been started.  It is
kept by every cook function: a cook function of another path does not write the components of `p`
(`FrameAt`), the cook function of `p` itself starts the script when nothing is claimed
(`cookBuild_emits`, `cookCheckout_emits`, `preparePackage_unclaimed` + `cookPackage_emits`; between
`_preparePackageStep` and `_cookPackageStep` the dependencies do not touch `p`: `StepWF.acyc`).  A
successful invocation marks every step of `reach T` as run (`RPost.ran`; the closure part of the
invariant handles steps shared by workspace path), hence the first alternative is excluded at the end.
No hypothesis on the environment, the scripts or the state (`Truthful` is not needed).
-/
namespace Builder

variable {E : Env} {Γ : Path → List (Dir × Digest)}

def Emitted (p : Path) (r : Run) : Prop := Op.scriptBegin p ∈ r.log

structure RInv (T : Step) (p : Path) (r : Run) : Prop where
  /-- cached entries are valid (`_wasAlreadyRun` never drops one) -/
  mem : ∀ u ∈ subtrees T, ∀ x, r.mem.wasRun u.path = some x → x.1 = vid u
  /-- a step is marked only after everything below it -/
  closed : ∀ u ∈ subtrees T, Ran r u.path → ∀ v ∈ reach u, Ran r v.path
  pend : (NoClaim r.st p ∧ r.mem.wasRun p = none) ∨ Emitted p r

/-- result of cooking (at least) the steps `S`, touching only the paths `P` -/
structure RPost (T : Step) (p : Path) (r : Run) (P : List Path) (S : List Step) (r' : Run) : Prop where
  inv : RInv T p r'
  mono : ∀ q, Ran r q → Ran r' q
  ran : ∀ u ∈ S, Ran r' u.path
  keep : p ∉ P → r'.st.inputs p = r.st.inputs p
  emitted : Emitted p r → Emitted p r'

theorem RPost.trans {T : Step} {p : Path} {r r1 r2 : Run} {P : List Path} {S1 S2 : List Step}
    (h1 : RPost T p r P S1 r1) (h2 : RPost T p r1 P S2 r2) : RPost T p r P (S1 ++ S2) r2 := by
  refine ⟨h2.inv, fun q hq => h2.mono q (h1.mono q hq), ?_, fun hn => (h2.keep hn).trans (h1.keep hn),
    fun he => h2.emitted (h1.emitted he)⟩
  intro u hu
  rcases List.mem_append.mp hu with h | h
  · exact h2.mono _ (h1.ran u h)
  · exact h2.ran u h

theorem rpost_refl {T : Step} {p : Path} {r : Run} (hi : RInv T p r) (P : List Path) : RPost T p r P [] r :=
  ⟨hi, fun _ h => h, fun u hu => (by cases hu), fun _ => rfl, fun h => h⟩

theorem rpost_weaken {T : Step} {p : Path} {r r' : Run} {P P' : List Path} {S S' : List Step} (hs : ∀ u ∈ S', u ∈ S)
    (hp : ∀ q, q ∈ P → q ∈ P') (h : RPost T p r P S r') : RPost T p r P' S' r' :=
  ⟨h.inv, h.mono, fun u hu => h.ran u (hs u hu), fun hn => h.keep (fun hm => hn (hp _ hm)), h.emitted⟩

def RCooks (T : Step) (p : Path) (P : List Path) (S : List Step) (m : M Unit) : Prop :=
  ∀ r, RInv T p r → wp m (fun _ r' => RPost T p r P S r') (fun _ => True) r

theorem rcooks_pure {T : Step} {p : Path} (P : List Path) : RCooks T p P [] (pure ()) := by
  intro r hi
  simp only [wp_pure]
  exact rpost_refl hi P

theorem rcooks_seq {T : Step} {p : Path} {P : List Path} {S1 S2 : List Step} {m1 m2 : M Unit}
    (h1 : RCooks T p P S1 m1) (h2 : RCooks T p P S2 m2) : RCooks T p P (S1 ++ S2) (do m1; m2) := by
  intro r hi
  simp only [wp_bind]
  refine wp_mono _ _ _ _ _ _ ?_ (fun _ hx => hx) (h1 r hi)
  intro _ r1 hp1
  refine wp_mono _ _ _ _ _ _ ?_ (fun _ hx => hx) (h2 r1 hp1.inv)
  intro _ r2 hp2
  exact hp1.trans hp2

theorem rcooks_weaken {T : Step} {p : Path} {P P' : List Path} {S S' : List Step} {m : M Unit} (hs : ∀ u ∈ S', u ∈ S)
    (hp : ∀ q, q ∈ P → q ∈ P') (h : RCooks T p P S m) : RCooks T p P' S' m := by
  intro r hi
  refine wp_mono _ _ _ _ _ _ ?_ (fun _ hx => hx) (h r hi)
  intro _ r' hq
  exact rpost_weaken hs hp hq

/-! ## bookkeeping under the invariant -/

theorem wp_wasAlreadyRun_r {T : Step} {p : Path} (t : Step) (ht : t ∈ subtrees T) (so : Bool) (Q : Bool → Run → Prop)
    (A : Run → Prop) (r : Run) (hi : RInv T p r) (h1 : Ran r t.path → Q true r) (h2 : Q false r) :
    wp (wasAlreadyRun t so) Q A r := by
  unfold wasAlreadyRun
  simp only [wp_bind, wp_getMem]
  cases hw : r.mem.wasRun t.path with
  | none => simp only [wp_pure]; exact h2
  | some x =>
    obtain ⟨v, c⟩ := x
    have a := hi.mem t ht (v, c) hw
    simp only [] at a
    simp only [a, ne_eq, not_true_eq_false, if_false]
    split
    · simp only [wp_pure]; exact h2
    · simp only [wp_pure]; apply h1; unfold Ran; rw [hw]; rfl

theorem wp_setAlreadyRun_r {T : Step} {p : Path}
    (hinj : ∀ u ∈ subtrees T, ∀ v ∈ subtrees T, u.path = v.path → u = v) (t : Step) (ht : t ∈ subtrees T) (c s : Bool)
    (Q : Unit → Run → Prop) (A : Run → Prop) (r : Run) (hi : RInv T p r) (hp : t.path ≠ p ∨ Emitted p r)
    (hbelow : ∀ v ∈ reachL t.deps, Ran r v.path)
    (h : ∀ r', r'.st = r.st → r'.log = r.log → RInv T p r' → (∀ q, Ran r q → Ran r' q) → Ran r' t.path → Q () r') :
    wp (setAlreadyRun t c s) Q A r := by
  unfold setAlreadyRun
  simp only [wp_bind, wp_getMem, wp_setMem]
  have hmono : ∀ q, Ran r q → Ran { r with mem := ({ wasRun := upd r.mem.wasRun t.path (some (vid t, c)), wasSkipped := upd r.mem.wasSkipped t.path s } : Mem) } q := by
    intro q hq
    unfold Ran at *
    by_cases hqt : q = t.path
    · subst hqt; simp
    · simp only [upd_other _ _ _ _ hqt]; exact hq
  apply h
  · rfl
  · rfl
  · refine ⟨?_, ?_, ?_⟩
    · intro u hu x hx
      by_cases hpu : u.path = t.path
      · have hut : u = t := hinj u hu t ht hpu
        subst hut
        simp only [upd_same, Option.some.injEq] at hx
        subst hx
        rfl
      · simp only [upd_other _ _ _ _ hpu] at hx
        exact hi.mem u hu x hx
    · intro u hu hr v hv
      by_cases hpu : u.path = t.path
      · have hut : u = t := hinj u hu t ht hpu
        subst hut
        cases u with
        | mk i pre ds =>
          simp only [reach, List.mem_cons] at hv
          rcases hv with hv | hv
          · rw [hv]; exact hr
          · exact hmono _ (hbelow v (by simpa [Step.deps] using hv))
      · have hr' : Ran r u.path := by
          unfold Ran at hr ⊢
          simpa only [upd_other _ _ _ _ hpu] using hr
        exact hmono _ (hi.closed u hu hr' v hv)
    · rcases hi.pend with ⟨nc, hn⟩ | he
      · rcases hp with hp | hp
        · left
          refine ⟨nc, ?_⟩
          have hne : p ≠ t.path := fun h => hp h.symm
          simp only [upd_other _ _ _ _ hne]
          exact hn
        · right; exact hp
      · right; exact he
  · exact hmono
  · unfold Ran; simp

/-! ## one cook function under the invariant -/

theorem leaf_inv {T : Step} {p q : Path} {m : M Unit} (hf : FrameAt q m) (hm : LogMono m) (r : Run) (hi : RInv T p r)
    (hx : q = p → NoClaim r.st p → wp m (fun _ r' => NoClaim r'.st p ∨ Emitted p r') (fun _ => True) r) :
    wp m (fun _ r' => RInv T p r' ∧ r'.mem = r.mem ∧ AgreeOff q r.st r'.st ∧ (Emitted p r → Emitted p r'))
      (fun _ => True) r := by
  have hx' : wp m (fun _ r' => q = p → NoClaim r.st p → NoClaim r'.st p ∨ Emitted p r') (fun _ => True) r := by
    by_cases h : q = p ∧ NoClaim r.st p
    · refine wp_mono _ _ _ _ _ _ ?_ (fun _ hx => hx) (hx h.1 h.2)
      intro _ r' h' _ _; exact h'
    · refine wp_mono _ _ _ _ _ _ ?_ (fun _ hx => hx) (hm r)
      intro _ r' _ h1 h2; exact absurd ⟨h1, h2⟩ h
  have h3 := wp_and _ _ _ _ _ _ (wp_and _ _ _ _ _ _ (hf r) (hm r)) hx'
  refine wp_mono _ _ _ _ _ _ ?_ (fun _ _ => trivial) h3
  intro _ r' ⟨⟨⟨ha, hmem⟩, ⟨l, hl⟩⟩, hnc⟩
  have hem : Emitted p r → Emitted p r' := by
    intro h
    unfold Emitted at h ⊢
    rw [hl]
    exact List.mem_append_left _ h
  refine ⟨⟨?_, ?_, ?_⟩, hmem, ha, hem⟩
  · intro u hu x hx
    rw [hmem] at hx
    exact hi.mem u hu x hx
  · intro u hu hr v hv
    exact (ran_of_mem_eq hmem).mpr (hi.closed u hu ((ran_of_mem_eq hmem).mp hr) v hv)
  · rcases hi.pend with ⟨nc, hn⟩ | he
    · by_cases hq : q = p
      · rcases hnc hq nc with h | h
        · left; exact ⟨h, by rw [hmem]; exact hn⟩
        · right; exact h
      · left
        obtain ⟨_, e2, e3, _, _⟩ := ha p (fun h => hq h.symm)
        refine ⟨?_, by rw [hmem]; exact hn⟩
        unfold NoClaim
        rw [e2, e3]
        exact nc
    · right; exact hem he

theorem leaf_emit {T : Step} {p q : Path} {m : M Unit} (hm : LogMono m) (r : Run) (hi : RInv T p r)
    (hx : q = p → NoClaim r.st p → wp m (fun _ r' => Emitted p r') (fun _ => True) r) :
    wp m (fun _ r' => q = p → Emitted p r') (fun _ => True) r := by
  by_cases hq : q = p
  · rcases hi.pend with ⟨nc, _⟩ | he
    · refine wp_mono _ _ _ _ _ _ ?_ (fun _ hx => hx) (hx hq nc)
      intro _ r' h _; exact h
    · refine wp_mono _ _ _ _ _ _ ?_ (fun _ hx => hx) (stays_in_log hm _ r he)
      intro _ r' h _; exact h
  · refine wp_mono _ _ _ _ _ _ ?_ (fun _ hx => hx) (hm r)
    intro _ r' _ h; exact absurd h hq

/-- a cook function of path `q` that starts the script of `q` when nothing is claimed about `q` -/
theorem leaf_cook {T : Step} {p q : Path} {m : M Unit} (hf : FrameAt q m) (hm : LogMono m) (r : Run) (hi : RInv T p r)
    (hx : q = p → NoClaim r.st p → wp m (fun _ r' => Emitted p r') (fun _ => True) r) :
    wp m (fun _ r' => (RInv T p r' ∧ r'.mem = r.mem ∧ AgreeOff q r.st r'.st ∧ (Emitted p r → Emitted p r')) ∧
      (q = p → Emitted p r')) (fun _ => True) r := by
  have h1 := leaf_inv hf hm r hi (by
    intro hq nc
    exact wp_mono _ _ _ _ _ _ (fun _ _ h => Or.inr h) (fun _ hx => hx) (hx hq nc))
  have h2 := leaf_emit hm r hi hx
  exact wp_mono _ _ _ _ _ _ (fun _ _ h => h) (fun _ _ => trivial) (wp_and _ _ _ _ _ _ h1 h2)

/-! ## the induction over the step tree -/

/-- in checkout-only mode the workspace `p` must belong to a checkout step (build and package steps
are not executed then) -/
def CoOK (T : Step) (p : Path) (co : Bool) : Prop :=
  co = true → ∀ u ∈ subtrees T, u.path = p → u.kind = .checkout

theorem coOK_false (T : Step) (p : Path) : CoOK T p false := fun h => by cases h

def RStep (E : Env) (cfg : Cfg) (T : Step) (p : Path) (t : Step) : Prop :=
  (∀ u ∈ subtrees t, u ∈ subtrees T) →
    (∀ co, CoOK T p co → RCooks T p (paths t) (reach t) (cookStep E cfg co t)) ∧
    RCooks T p (paths t) [] (bidDeps E cfg t.deps)

def RList (E : Env) (cfg : Cfg) (T : Step) (p : Path) (ds : List Step) : Prop :=
  (∀ u ∈ subtreesL ds, u ∈ subtrees T) →
    (∀ co, CoOK T p co → ∀ parent, RCooks T p (pathsL ds) (reachL ds) (cookList E cfg co parent ds)) ∧
    RCooks T p (pathsL ds) [] (bidDeps E cfg ds)

theorem rlist_nil (cfg : Cfg) (T : Step) (p : Path) : RList E cfg T p [] := by
  intro _
  constructor
  · intro co _ parent; simp only [cookList, reachL]; exact rcooks_pure _
  · simp only [bidDeps]; exact rcooks_pure _

theorem rlist_cons {cfg : Cfg} {T : Step} {p : Path} (hnd : cfg.noDeps = false) (d : Step) (ds : List Step)
    (hd : RStep E cfg T p d) (hds : RList E cfg T p ds) : RList E cfg T p (d :: ds) := by
  intro hsub
  obtain ⟨hd1, hd2⟩ := hd (fun u hu => hsub u (by simp [subtreesL, hu]))
  obtain ⟨hl1, hl2⟩ := hds (fun u hu => hsub u (by simp [subtreesL, hu]))
  have sub1 : ∀ q, q ∈ paths d → q ∈ pathsL (d :: ds) := by intro q hq; rw [pathsL_cons]; simp [hq]
  have sub2 : ∀ q, q ∈ pathsL ds → q ∈ pathsL (d :: ds) := by intro q hq; rw [pathsL_cons]; simp [hq]
  constructor
  · intro co hck parent
    simp only [cookList, hnd, Bool.false_and, Bool.false_eq_true, if_false, reachL]
    exact rcooks_seq (rcooks_weaken (fun _ h => h) sub1 (hd1 co hck)) (rcooks_weaken (fun _ h => h) sub2 (hl1 co hck parent))
  · cases d with
    | mk i pre dd =>
      simp only [bidDeps]
      split
      · exact rcooks_weaken (by intro u hu; cases hu) (fun _ h => h)
          (rcooks_seq (rcooks_weaken (fun _ h => h) sub1 (hd1 false (coOK_false T p)))
            (rcooks_weaken (fun _ h => h) sub2 hl2))
      · exact rcooks_weaken (by intro u hu; cases hu) (fun _ h => h)
          (rcooks_seq (rcooks_weaken (fun _ h => h) sub1 hd2) (rcooks_weaken (fun _ h => h) sub2 hl2))

theorem rstep_mk {cfg : Cfg} {T : Step} {p : Path} (hwf : TreeWF Γ T) (i : Info) (pre ds : List Step)
    (hds : RList E cfg T p ds) : RStep E cfg T p (.mk i pre ds) := by
  intro hsub
  have ht : Step.mk i pre ds ∈ subtrees T := hsub _ (self_mem_subtrees _)
  have hsubds : ∀ u ∈ subtreesL ds, u ∈ subtrees T := fun u hu => hsub u (by simp [subtrees, hu])
  have wt := hwf.wf _ ht
  have hself : i.path ∈ paths (.mk i pre ds) := by rw [paths_mk]; simp
  have subds : ∀ q, q ∈ pathsL ds → q ∈ paths (.mk i pre ds) := by intro q hq; rw [paths_mk]; simp [hq]
  have hnot : i.path ∉ pathsL ds := by simpa [Step.path, Step.info, Step.deps] using wt.acyc
  obtain ⟨hl1, hl2⟩ := hds hsubds
  refine ⟨?_, rcooks_weaken (fun _ h => h) subds hl2⟩
  intro co hck r hi
  simp only [cookStep, wp_bind]
  apply wp_wasAlreadyRun_r _ ht _ _ _ _ hi
  · -- already cooked in this invocation: so is everything below
    intro hran
    simp only [if_true, wp_pure]
    exact ⟨hi, fun _ h => h, fun u hu => hi.closed _ ht hran u hu, fun _ => rfl, fun h => h⟩
  · simp only [Bool.false_eq_true, if_false]
    -- the second `_wasAlreadyRun` test succeeds
    have done1 : ∀ r1 : Run, RPost T p r (paths (.mk i pre ds)) (reachL ds) r1 → Ran r1 i.path →
        RPost T p r (paths (.mk i pre ds)) (reach (.mk i pre ds)) r1 := by
      intro r1 hp1 hran
      refine ⟨hp1.inv, hp1.mono, ?_, hp1.keep, hp1.emitted⟩
      intro u hu
      simp only [reach, List.mem_cons] at hu
      rcases hu with hu | hu
      · rw [hu]; exact hran
      · exact hp1.ran u hu
    -- the final marking, shared by the three kinds
    have finish : ∀ (c s : Bool) (r1 r2 : Run), RPost T p r (paths (.mk i pre ds)) (reachL ds) r1 →
        RInv T p r2 → r2.mem = r1.mem → AgreeOff i.path r1.st r2.st → (Emitted p r1 → Emitted p r2) →
        (i.path = p → Emitted p r2) →
        wp (setAlreadyRun (.mk i pre ds) c s)
          (fun _ r' => RPost T p r (paths (.mk i pre ds)) (reach (.mk i pre ds)) r') (fun _ => True) r2 := by
      intro c s r1 r2 hp1 hi2 hm2 ha2 he2 hem2
      apply wp_setAlreadyRun_r hwf.pathInj _ ht c s _ _ _ hi2
      · by_cases hq : i.path = p
        · right; exact hem2 hq
        · left; exact hq
      · intro v hv
        exact (ran_of_mem_eq hm2).mpr (hp1.ran v (by simpa [Step.deps] using hv))
      · intro r3 hst3 hlog3 hi3 hmono3 hran3
        refine ⟨hi3, ?_, ?_, ?_, ?_⟩
        · intro q hq; exact hmono3 q ((ran_of_mem_eq hm2).mpr (hp1.mono q hq))
        · intro u hu
          simp only [reach, List.mem_cons] at hu
          rcases hu with hu | hu
          · rw [hu]; exact hran3
          · exact hmono3 _ ((ran_of_mem_eq hm2).mpr (hp1.ran u hu))
        · intro hnp
          have hne : p ≠ i.path := fun h => hnp (h ▸ hself)
          rw [hst3, (ha2 p hne).2.1]
          exact hp1.keep hnp
        · intro he
          unfold Emitted
          rw [hlog3]
          exact he2 (hp1.emitted he)
    -- checkout-only mode: a build / package step is not at `p`
    have notp : ∀ k : Kind, k ≠ .checkout → i.sig.kind = k → CoOK T p true → i.path = p → False := by
      intro k hne hk hck hq
      have := hck rfl _ ht hq
      simp only [Step.kind, Step.info] at this
      rw [hk] at this
      exact hne this
    cases hk : i.sig.kind with
    | checkout =>
      simp only [wp_bind]
      refine wp_mono _ _ _ _ _ _ ?_ (fun _ hx => hx) (hl1 false (coOK_false T p) i.pkg r hi)
      intro _ r1 hp1
      have hp1' := rpost_weaken (fun _ h => h) subds hp1
      apply wp_wasAlreadyRun_r _ ht _ _ _ _ hp1.inv
      · intro hran
        simp only [if_true, wp_pure]
        exact done1 r1 hp1' hran
      · simp only [Bool.false_eq_true, if_false, wp_bind]
        refine wp_mono _ _ _ _ _ _ ?_ (fun _ hx => hx)
          (leaf_cook (frame_cookCheckout (E := E) cfg i ds) (logmono_cookCheckout cfg i ds) r1 hp1.inv (by
            intro hq nc
            subst hq
            exact cookCheckout_emits cfg i ds r1 nc))
        intro _ r2 ⟨⟨hi2, hm2, ha2, he2⟩, hem2⟩
        exact finish true false r1 r2 hp1' hi2 hm2 ha2 he2 hem2
    | build =>
      simp only [wp_bind]
      refine wp_mono _ _ _ _ _ _ ?_ (fun _ hx => hx) (hl1 co hck i.pkg r hi)
      intro _ r1 hp1
      apply wp_wasAlreadyRun_r _ ht _ _ _ _ hp1.inv
      · intro hran
        simp only [if_true, wp_pure]
        exact done1 r1 (rpost_weaken (fun _ h => h) subds hp1) hran
      · cases co with
        | true =>
          simp only [Bool.false_eq_true, if_false, Bool.not_true]
          exact finish false true r1 r1 (rpost_weaken (fun _ h => h) subds hp1) hp1.inv rfl (AgreeOff.refl _ _)
            (fun h => h) (fun hq => (notp .build (by simp) hk hck hq).elim)
        | false =>
          simp only [Bool.false_eq_true, if_false, Bool.not_false, if_true, wp_bind]
          refine wp_mono _ _ _ _ _ _ ?_ (fun _ hx => hx) (hl2 r1 hp1.inv)
          intro _ r2 hp2
          have hp12 : RPost T p r (pathsL ds) (reachL ds) r2 := by
            have := hp1.trans hp2
            simpa using this
          refine wp_mono _ _ _ _ _ _ ?_ (fun _ hx => hx)
            (leaf_cook (frame_cookBuild (E := E) cfg i ds) (logmono_cookBuild cfg i ds) r2 hp12.inv (by
              intro hq nc
              subst hq
              exact cookBuild_emits cfg i ds r2 nc))
          intro _ r3 ⟨⟨hi3, hm3, ha3, he3⟩, hem3⟩
          exact finish false false r2 r3 (rpost_weaken (fun _ h => h) subds hp12) hi3 hm3 ha3 he3 hem3
    | package =>
      have h1 := leaf_inv (frame_preparePackage i ds) (logmono_preparePackage i ds) r hi (by
        intro hq nc
        subst hq
        exact wp_mono _ _ _ _ _ _ (fun _ _ h => Or.inl (Or.inl h)) (fun _ hx => hx) (preparePackage_unclaimed i ds r nc))
      have h1b : wp (preparePackage i ds) (fun _ r' => NoClaim r.st i.path → r'.st.inputs i.path = none)
          (fun _ => True) r := by
        by_cases nc : NoClaim r.st i.path
        · exact wp_mono _ _ _ _ _ _ (fun _ _ h _ => h) (fun _ hx => hx) (preparePackage_unclaimed i ds r nc)
        · exact wp_mono _ _ _ _ _ _ (fun _ _ _ h => absurd h nc) (fun _ hx => hx) (logmono_preparePackage i ds r)
      cases co with
      | true =>
        simp only [Bool.not_true, Bool.false_eq_true, if_false, wp_bind]
        refine wp_mono _ _ _ _ _ _ ?_ (fun _ hx => hx) h1
        intro _ r1 ⟨hi1, hm1, ha1, he1⟩
        have hp01 : RPost T p r (paths (.mk i pre ds)) [] r1 :=
          ⟨hi1, fun q h => (ran_of_mem_eq hm1).mpr h, fun u hu => (by cases hu),
            fun hnp => (ha1 p (fun h => hnp (h ▸ hself))).2.1, he1⟩
        refine wp_mono _ _ _ _ _ _ ?_ (fun _ hx => hx) (hl1 true hck i.pkg r1 hi1)
        intro _ r3 hp3
        have hp03 : RPost T p r (paths (.mk i pre ds)) (reachL ds) r3 := by
          have := hp01.trans (rpost_weaken (fun _ h => h) subds hp3)
          simpa using this
        apply wp_wasAlreadyRun_r _ ht _ _ _ _ hp3.inv
        · intro hran
          simp only [if_true, wp_pure]
          exact done1 r3 hp03 hran
        · simp only [Bool.false_eq_true, if_false]
          exact finish false true r3 r3 hp03 hp3.inv rfl (AgreeOff.refl _ _)
            (fun h => h) (fun hq => (notp .package (by simp) hk hck hq).elim)
      | false =>
        simp only [Bool.not_false, if_true, wp_bind]
        refine wp_mono _ _ _ _ _ _ ?_ (fun _ _ => trivial) (wp_and _ _ _ _ _ _ h1 h1b)
        intro _ r1 ⟨⟨hi1, hm1, ha1, he1⟩, hin1⟩
        have hp01 : RPost T p r (paths (.mk i pre ds)) [] r1 :=
          ⟨hi1, fun q h => (ran_of_mem_eq hm1).mpr h, fun u hu => (by cases hu),
            fun hnp => (ha1 p (fun h => hnp (h ▸ hself))).2.1, he1⟩
        refine wp_mono _ _ _ _ _ _ ?_ (fun _ hx => hx) (hl2 r1 hi1)
        intro _ r2 hp2
        refine wp_mono _ _ _ _ _ _ ?_ (fun _ hx => hx) (hl1 false (coOK_false T p) i.pkg r2 hp2.inv)
        intro _ r3 hp3
        have hp13 : RPost T p r1 (pathsL ds) (reachL ds) r3 := by
          have := hp2.trans hp3
          simpa using this
        have hp03 : RPost T p r (paths (.mk i pre ds)) (reachL ds) r3 := by
          have := hp01.trans (rpost_weaken (fun _ h => h) subds hp13)
          simpa using this
        apply wp_wasAlreadyRun_r _ ht _ _ _ _ hp3.inv
        · intro hran
          simp only [if_true, wp_pure]
          exact done1 r3 hp03 hran
        · simp only [Bool.false_eq_true, if_false, wp_bind]
          refine wp_mono _ _ _ _ _ _ ?_ (fun _ hx => hx)
            (leaf_cook (frame_cookPackage (E := E) cfg i pre ds) (logmono_cookPackage cfg i pre ds) r3 hp3.inv (by
              intro hq _
              rcases hi.pend with ⟨nc, _⟩ | he
              · subst hq
                have hin3 : r3.st.inputs i.path = none := by
                  rw [hp13.keep hnot]; exact hin1 nc
                exact cookPackage_emits cfg i pre ds r3 hin3
              · exact stays_in_log (logmono_cookPackage cfg i pre ds) _ r3 (hp03.emitted he)))
          intro _ r4 ⟨⟨hi4, hm4, ha4, he4⟩, hem4⟩
          exact finish false false r3 r4 hp03 hi4 hm4 ha4 he4 hem4

/-- the induction over the whole step tree -/
theorem rstep_all {cfg : Cfg} {T : Step} {p : Path} (hwf : TreeWF Γ T) (hnd : cfg.noDeps = false) (t : Step) :
    RStep E cfg T p t :=
  Step.rec (motive_1 := fun t => RStep E cfg T p t) (motive_2 := fun ds => RList E cfg T p ds)
    (fun i pre ds _ hds => rstep_mk hwf i pre ds hds)
    (rlist_nil cfg T p)
    (fun d ds hd hds => rlist_cons hnd d ds hd hds)
    t

/-- **an unclaimed workspace is cooked again**: from any state that claims nothing about `p`, a
successful invocation (all dependencies; with `--checkout-only` if the step at `p` is a checkout
step) of a project that reaches a step at `p` starts the script of `p`. -/
theorem rerun_of_unclaimed {cfg : Cfg} {T : Step} {p : Path} (hwf : TreeWF Γ T) (hnd : cfg.noDeps = false)
    (st : St) (hnc : NoClaim st p) (fuel : Nat) (r' : Run)
    (h : invoke E cfg T fuel st = .ok () r') (u : Step) (hu : u ∈ reach T) (hp : u.path = p)
    (hco : cfg.checkoutOnly = true → u.kind = .checkout) :
    Op.scriptBegin p ∈ r'.log := by
  have hi0 : RInv T p { st := st, mem := Mem.init, fuel := fuel, log := [] } := by
    refine ⟨?_, ?_, Or.inl ⟨hnc, rfl⟩⟩
    · intro u _ x hx; simp [Mem.init] at hx
    · intro u _ hr; simp [Ran, Mem.init] at hr
  have hck : CoOK T p cfg.checkoutOnly := by
    intro hc u' hu' hpu'
    have : u' = u := hwf.pathInj u' hu' u ((reach_sub_subtrees T).1 u hu) (hpu'.trans hp.symm)
    rw [this]
    exact hco hc
  have hk := (rstep_all (E := E) (p := p) hwf hnd T (fun _ h => h)).1 cfg.checkoutOnly hck _ hi0
  unfold invoke cook at h
  unfold wp at hk
  rw [h] at hk
  have hr := hk.ran u hu
  rcases hk.inv.pend with ⟨_, hn⟩ | he
  · unfold Ran at hr
    rw [hp, hn] at hr
    cases hr
  · exact he

end Builder
