import BobModel.Model.Dirs
import Mathlib.Data.List.Nodup
import Mathlib.Data.List.Perm.Basic
/-
Helper lemmas for C16 (directory assignment): path arithmetic, the collection pass and the
numbering pass of `DevelopDirOracle`, the by-name counters of the release mode.
-/
namespace BobDirs

/-! ### path arithmetic -/

/-- what `os.path.join(base, x)` puts in front of a relative `x` -/
def dirPrefix (a : Str) : Str :=
  if a = [] ∨ a.getLast? = some '/' then a else a ++ ['/']

theorem natStr_inj {n m : Nat} (h : natStr n = natStr m) : n = m := by
  have := congrArg (fun l => Nat.ofDigitChars 10 l 0) h
  simpa [natStr] using this

theorem natStr_isDigit {n : Nat} {c : Char} (h : c ∈ natStr n) : c.isDigit = true :=
  Nat.isDigit_of_mem_toDigits (by decide) (by decide) h

theorem slash_not_mem_natStr (n : Nat) : '/' ∉ natStr n := by
  intro h
  have := natStr_isDigit h
  revert this; decide

theorem natStr_ne_nil (n : Nat) : natStr n ≠ [] := by
  simp [natStr]

theorem natStr_head (n : Nat) : (natStr n).head? ≠ some '/' := by
  intro h
  have : '/' ∈ natStr n := by
    cases hs : natStr n with
    | nil => simp [hs] at h
    | cons c r => simp [hs] at h; simp [h]
  exact slash_not_mem_natStr n this

theorem numDir_eq (b : Str) (n : Nat) : numDir b n = dirPrefix b ++ natStr n := by
  unfold numDir pjoin dirPrefix
  have := natStr_head n
  by_cases hb : b = [] ∨ b.getLast? = some '/'
  · simp [this, hb]
  · simp [this, hb]

theorem dirPrefix_ends (b : Str) : dirPrefix b = [] ∨ (dirPrefix b).getLast? = some '/' := by
  unfold dirPrefix
  by_cases hb : b = [] ∨ b.getLast? = some '/'
  · rw [if_pos hb]; exact hb
  · simp [hb]

theorem numDir_inj_num {b : Str} {n m : Nat} (h : numDir b n = numDir b m) : n = m := by
  rw [numDir_eq, numDir_eq] at h
  exact natStr_inj (List.append_cancel_left h)

/-- a prefix that ends in `/` (or is empty) followed by a `/`-free name splits uniquely -/
theorem prefix_split {P P' s s' : Str}
    (hP : P = [] ∨ P.getLast? = some '/') (hP' : P' = [] ∨ P'.getLast? = some '/')
    (hs : '/' ∉ s) (hs' : '/' ∉ s') (h : P ++ s = P' ++ s') : P = P' := by
  rcases List.append_eq_append_iff.mp h with ⟨a, ha, hb⟩ | ⟨c, hc, hd⟩
  · -- P' = P ++ a, s = a ++ s'
    cases a with
    | nil => simpa using ha.symm
    | cons x xs =>
      exfalso
      have hne : P' ≠ [] := by simp [ha]
      rcases hP' with h0 | hl
      · exact hne h0
      · have : (x :: xs).getLast? = some '/' := by
          rw [ha] at hl
          simpa [List.getLast?_append] using hl
        have hmem : '/' ∈ (x :: xs) := List.mem_of_getLast? this
        apply hs; rw [hb]; exact List.mem_append_left _ hmem
  · cases c with
    | nil => simpa using hc
    | cons x xs =>
      exfalso
      have hne : P ≠ [] := by simp [hc]
      rcases hP with h0 | hl
      · exact hne h0
      · have : (x :: xs).getLast? = some '/' := by
          rw [hc] at hl
          simpa [List.getLast?_append] using hl
        have hmem : '/' ∈ (x :: xs) := List.mem_of_getLast? this
        apply hs'; rw [hd]; exact List.mem_append_left _ hmem

theorem numDir_inj_prefix {b b' : Str} {n m : Nat} (h : numDir b n = numDir b' m) :
    dirPrefix b = dirPrefix b' := by
  rw [numDir_eq, numDir_eq] at h
  exact prefix_split (dirPrefix_ends b) (dirPrefix_ends b') (slash_not_mem_natStr n)
    (slash_not_mem_natStr m) h

/-- no two base directories of one refresh differ only by a trailing slash -/
def NoTwin (bases : List Str) : Prop :=
  ∀ b ∈ bases, ∀ b' ∈ bases, dirPrefix b = dirPrefix b' → b = b'

theorem numDir_inj {bases : List Str} (ht : NoTwin bases) {b b' : Str} (hb : b ∈ bases) (hb' : b' ∈ bases)
    {n m : Nat} (h : numDir b n = numDir b' m) : b = b' ∧ n = m := by
  have := ht b hb b' hb' (numDir_inj_prefix h)
  subst this
  exact ⟨rfl, numDir_inj_num h⟩

/-! ### association lists -/

theorem lookup_some_mem {β} {t : List (Str × β)} {k : Str} {v : β} (h : lookup t k = some v) : (k, v) ∈ t := by
  induction t with
  | nil => simp [lookup] at h
  | cons x rest ih =>
    obtain ⟨k', v'⟩ := x
    simp only [lookup] at h
    split at h
    · rename_i hk; subst hk; cases h; simp
    · exact List.mem_cons_of_mem _ (ih h)

theorem lookup_none_iff {β} {t : List (Str × β)} {k : Str} : lookup t k = none ↔ k ∉ t.map (·.1) := by
  induction t with
  | nil => simp [lookup]
  | cons x rest ih =>
    obtain ⟨k', v'⟩ := x
    simp only [lookup, List.map_cons, List.mem_cons, not_or]
    split
    · rename_i hk; subst hk; simp
    · rename_i hk; rw [ih]; constructor
      · intro h; exact ⟨fun e => hk e.symm, h⟩
      · intro h; exact h.2

theorem lookup_of_mem_nodup {β} {t : List (Str × β)} {k : Str} {v : β} (hn : (t.map (·.1)).Nodup)
    (h : (k, v) ∈ t) : lookup t k = some v := by
  induction t with
  | nil => cases h
  | cons x rest ih =>
    obtain ⟨k', v'⟩ := x
    simp only [List.map_cons, List.nodup_cons] at hn
    simp only [lookup]
    rcases List.mem_cons.mp h with heq | hmem
    · cases heq; simp
    · split
      · rename_i hk; subst hk
        exact absurd (List.mem_map_of_mem (f := (·.1)) hmem) hn.1
      · exact ih hn.2 hmem

theorem lookup_isSome_of_mem {β} {t : List (Str × β)} {k : Str} (h : k ∈ t.map (·.1)) : (lookup t k).isSome := by
  cases hl : lookup t k with
  | some v => rfl
  | none => exact absurd h (lookup_none_iff.mp hl)

/-! ### the collection pass -/

def allKeys (ds : List (Str × List Key)) : List Key := ds.flatMap (·.2)

theorem addDir_keys_perm (ds : List (Str × List Key)) (b : Str) (k : Key) :
    (allKeys (addDir ds b k)).Perm (k :: allKeys ds) := by
  induction ds with
  | nil => simp [addDir, allKeys]
  | cons x rest ih =>
    obtain ⟨b', ks⟩ := x
    simp only [addDir]
    split
    · simp only [allKeys, List.flatMap_cons, List.append_assoc, List.singleton_append]
      exact List.perm_middle
    · simp only [allKeys, List.flatMap_cons] at ih ⊢
      exact (List.Perm.append_left ks ih).trans List.perm_middle

theorem addDir_bases (ds : List (Str × List Key)) (b : Str) (k : Key) (x : Str) :
    x ∈ (addDir ds b k).map (·.1) ↔ x = b ∨ x ∈ ds.map (·.1) := by
  induction ds with
  | nil => simp [addDir]
  | cons y rest ih =>
    obtain ⟨b', ks⟩ := y
    simp only [addDir]
    split
    · rename_i hb; subst hb; simp
    · simp only [List.map_cons, List.mem_cons, ih]; tauto

theorem addDir_bases_nodup {ds : List (Str × List Key)} (b : Str) (k : Key)
    (h : (ds.map (·.1)).Nodup) : ((addDir ds b k).map (·.1)).Nodup := by
  induction ds with
  | nil => simp [addDir]
  | cons y rest ih =>
    obtain ⟨b', ks⟩ := y
    simp only [List.map_cons, List.nodup_cons] at h
    simp only [addDir]
    split
    · simpa using h
    · rename_i hb
      simp only [List.map_cons, List.nodup_cons]
      refine ⟨?_, ih h.2⟩
      rw [addDir_bases]
      intro hx
      rcases hx with hx | hx
      · exact hb hx
      · exact h.1 hx

/-- a key filed under base `b` -/
theorem addDir_mem (ds : List (Str × List Key)) (b : Str) (k : Key) :
    ∃ ks, (b, ks) ∈ addDir ds b k ∧ k ∈ ks := by
  induction ds with
  | nil => exact ⟨[k], by simp [addDir]⟩
  | cons y rest ih =>
    obtain ⟨b', ks⟩ := y
    simp only [addDir]
    split
    · rename_i hb; subst hb; exact ⟨ks ++ [k], by simp⟩
    · obtain ⟨ks', h1, h2⟩ := ih
      exact ⟨ks', List.mem_cons_of_mem _ h1, h2⟩

theorem addDir_mono (ds : List (Str × List Key)) (b : Str) (k : Key) {b0 : Str} {ks0 : List Key} {k0 : Key}
    (h : (b0, ks0) ∈ ds) (hk : k0 ∈ ks0) : ∃ ks, (b0, ks) ∈ addDir ds b k ∧ k0 ∈ ks := by
  induction ds with
  | nil => cases h
  | cons y rest ih =>
    obtain ⟨b', ks'⟩ := y
    simp only [addDir]
    rcases List.mem_cons.mp h with heq | hmem
    · cases heq
      split
      · exact ⟨ks0 ++ [k], by simp, by simp [hk]⟩
      · exact ⟨ks0, by simp, hk⟩
    · split
      · exact ⟨ks0, List.mem_cons_of_mem _ hmem, hk⟩
      · obtain ⟨ks, h1, h2⟩ := ih hmem
        exact ⟨ks, List.mem_cons_of_mem _ h1, h2⟩

/-- invariant of the collection pass -/
structure CollInv (old : Table) (B : List Str) (c : Coll) : Prop where
  knownOld : ∀ x ∈ c.known, lookup old x.1 = some x.2
  keysNodup : (c.known.map (·.1) ++ allKeys c.dirs).Nodup
  keysVisited : ∀ k, k ∈ c.known.map (·.1) ++ allKeys c.dirs ↔ k ∈ c.visited
  basesNodup : (c.dirs.map (·.1)).Nodup
  basesSub : ∀ b ∈ c.dirs.map (·.1), b ∈ B

theorem collInv_empty (old : Table) (B : List Str) : CollInv old B Coll.empty := by
  constructor <;> simp [Coll.empty, allKeys]

theorem collInv_addDir {old : Table} {B : List Str} {c : Coll} (h : CollInv old B c) {key : Key} {base : Str}
    (hv : key ∉ c.visited) (hb : base ∈ B) :
    CollInv old B { c with visited := key :: c.visited, dirs := addDir c.dirs base key } := by
  have hnot : key ∉ c.known.map (·.1) ++ allKeys c.dirs := fun hk => hv ((h.keysVisited key).mp hk)
  have hperm : (c.known.map (·.1) ++ allKeys (addDir c.dirs base key)).Perm
      (key :: (c.known.map (·.1) ++ allKeys c.dirs)) :=
    (List.Perm.append_left _ (addDir_keys_perm c.dirs base key)).trans List.perm_middle
  constructor
  · exact h.knownOld
  · exact hperm.nodup_iff.mpr (List.nodup_cons.mpr ⟨hnot, h.keysNodup⟩)
  · intro k
    simp only
    rw [hperm.mem_iff, List.mem_cons, List.mem_cons, h.keysVisited]
  · exact addDir_bases_nodup base key h.basesNodup
  · intro b hb'
    simp only at hb'
    rcases (addDir_bases _ _ _ _).mp hb' with hx | hx
    · exact hx ▸ hb
    · exact h.basesSub b hx

theorem collInv_step {old : Table} {B : List Str} {c : Coll} (h : CollInv old B c) (key : Key) (base : Str)
    (hb : base ∈ B) : CollInv old B (fmtCollect old c key base) := by
  unfold fmtCollect
  split
  · exact h
  · rename_i hv
    have hv' : key ∉ c.visited := by simpa using hv
    split
    · rename_i path hl
      split
      · -- kept
        have hnot : key ∉ c.known.map (·.1) ++ allKeys c.dirs := fun hk => hv' ((h.keysVisited key).mp hk)
        have hperm : ((c.known ++ [(key, path)]).map (·.1) ++ allKeys c.dirs).Perm
            (key :: (c.known.map (·.1) ++ allKeys c.dirs)) := by
          simp only [List.map_append, List.map_cons, List.map_nil, List.append_assoc, List.singleton_append]
          exact List.perm_middle
        constructor
        · intro x hx
          rcases List.mem_append.mp hx with hx | hx
          · exact h.knownOld x hx
          · simp only [List.mem_singleton] at hx; subst hx; exact hl
        · exact hperm.nodup_iff.mpr (List.nodup_cons.mpr ⟨hnot, h.keysNodup⟩)
        · intro k
          simp only
          rw [hperm.mem_iff, List.mem_cons, List.mem_cons, h.keysVisited]
        · exact h.basesNodup
        · exact h.basesSub
      · exact collInv_addDir h hv' hb
    · exact collInv_addDir h hv' hb

theorem collInv_foldl {old : Table} {B : List Str} (visits : List (Key × Str)) (hB : ∀ v ∈ visits, v.2 ∈ B)
    {c : Coll} (h : CollInv old B c) :
    CollInv old B (visits.foldl (fun c v => fmtCollect old c v.1 v.2) c) := by
  induction visits generalizing c with
  | nil => exact h
  | cons v rest ih =>
    simp only [List.foldl_cons]
    exact ih (fun v' hv' => hB v' (List.mem_cons_of_mem _ hv')) (collInv_step h v.1 v.2 (hB v (by simp)))

theorem collInv_collect (old : Table) (visits : List (Key × Str)) :
    CollInv old (visits.map (·.2)) (collect old visits) :=
  collInv_foldl visits (fun _ hv => List.mem_map_of_mem hv) (collInv_empty old _)

/-- what is known about a key stays known; a key filed under a base stays filed there -/
theorem fmtCollect_mono (old : Table) (c : Coll) (key : Key) (base : Str) :
    (∀ k, k ∈ c.visited → k ∈ (fmtCollect old c key base).visited) ∧
    (∀ x, x ∈ c.known → x ∈ (fmtCollect old c key base).known) := by
  unfold fmtCollect
  split
  · exact ⟨fun _ h => h, fun _ h => h⟩
  · split
    · split
      · exact ⟨fun _ h => List.mem_cons_of_mem _ h, fun _ h => List.mem_append_left _ h⟩
      · exact ⟨fun _ h => List.mem_cons_of_mem _ h, fun _ h => h⟩
    · exact ⟨fun _ h => List.mem_cons_of_mem _ h, fun _ h => h⟩

theorem foldl_known_mono (old : Table) (visits : List (Key × Str)) (c : Coll) (x : Key × Str) (h : x ∈ c.known) :
    x ∈ (visits.foldl (fun c v => fmtCollect old c v.1 v.2) c).known := by
  induction visits generalizing c with
  | nil => exact h
  | cons v rest ih =>
    simp only [List.foldl_cons]
    exact ih _ ((fmtCollect_mono old c v.1 v.2).2 x h)

theorem foldl_visited_mono (old : Table) (visits : List (Key × Str)) (c : Coll) (k : Key) (h : k ∈ c.visited) :
    k ∈ (visits.foldl (fun c v => fmtCollect old c v.1 v.2) c).visited := by
  induction visits generalizing c with
  | nil => exact h
  | cons v rest ih =>
    simp only [List.foldl_cons]
    exact ih _ ((fmtCollect_mono old c v.1 v.2).1 k h)

/-- only visited keys are in `__visited` -/
theorem foldl_visited_sub (old : Table) (visits : List (Key × Str)) (c : Coll) (k : Key)
    (h : k ∈ (visits.foldl (fun c v => fmtCollect old c v.1 v.2) c).visited) :
    k ∈ c.visited ∨ k ∈ visits.map (·.1) := by
  induction visits generalizing c with
  | nil => exact Or.inl h
  | cons v rest ih =>
    simp only [List.foldl_cons] at h
    rcases ih _ h with h1 | h1
    · have : k ∈ c.visited ∨ k = v.1 := by
        unfold fmtCollect at h1
        split at h1
        · exact Or.inl h1
        · split at h1
          · split at h1 <;> (simp only [List.mem_cons] at h1; tauto)
          · simp only [List.mem_cons] at h1; tauto
      rcases this with h2 | h2
      · exact Or.inl h2
      · exact Or.inr (by simp [h2])
    · exact Or.inr (by simp only [List.map_cons, List.mem_cons]; exact Or.inr h1)

theorem foldl_visits_visited (old : Table) (visits : List (Key × Str)) (c : Coll) (w : Key × Str) (hv : w ∈ visits) :
    w.1 ∈ (visits.foldl (fun c v => fmtCollect old c v.1 v.2) c).visited := by
  induction visits generalizing c with
  | nil => cases hv
  | cons w rest ih =>
    simp only [List.foldl_cons]
    rcases List.mem_cons.mp hv with heq | hmem
    · subst heq
      apply foldl_visited_mono
      unfold fmtCollect
      split
      · rename_i h; simpa using h
      · split
        · split <;> simp
        · simp
    · exact ih _ hmem

/-- the first visit of a key decides: with a stored path that starts with the base directory the
entry is kept -/
theorem first_visit_kept (old : Table) (pre post : List (Key × Str)) (k : Key) (b p : Str)
    (hpre : k ∉ pre.map (·.1)) (hl : lookup old k = some p) (hp : b.isPrefixOf p = true) :
    (k, p) ∈ (collect old (pre ++ (k, b) :: post)).known := by
  unfold collect
  rw [List.foldl_append, List.foldl_cons]
  apply foldl_known_mono
  have hnv : k ∉ (pre.foldl (fun c v => fmtCollect old c v.1 v.2) Coll.empty).visited := by
    intro h
    rcases foldl_visited_sub old pre Coll.empty k h with h1 | h1
    · simp [Coll.empty] at h1
    · exact hpre h1
  generalize (pre.foldl (fun c v => fmtCollect old c v.1 v.2) Coll.empty) = c0 at hnv ⊢
  simp only [fmtCollect, List.contains_eq_mem, hnv, decide_false, hl, hp]
  simp

/-! ### the numbering pass -/

theorem nextFree_spec {kd : List Str} {b : Str} {fuel num n : Nat} (h : nextFree kd b fuel num = some n) :
    num ≤ n ∧ numDir b n ∉ kd := by
  induction fuel generalizing num with
  | zero => simp [nextFree] at h
  | succ f ih =>
    simp only [nextFree] at h
    split at h
    · have := ih h; exact ⟨by omega, this.2⟩
    · rename_i hc; cases h; exact ⟨Nat.le_refl _, by simpa using hc⟩

theorem nextFree_congr {kd kd' : List Str} {b : Str} (fuel num : Nat)
    (h : ∀ k, num ≤ k → (numDir b k ∈ kd ↔ numDir b k ∈ kd')) :
    nextFree kd b fuel num = nextFree kd' b fuel num := by
  induction fuel generalizing num with
  | zero => rfl
  | succ f ih =>
    simp only [nextFree, List.contains_eq_mem]
    have h0 := h num (Nat.le_refl _)
    by_cases hm : numDir b num ∈ kd
    · have hm' := h0.mp hm
      simp only [hm, hm', decide_true, if_true]
      exact ih (num + 1) (fun k hk => h k (by omega))
    · have hm' : numDir b num ∉ kd' := fun x => hm (h0.mpr x)
      simp [hm, hm']

/-- the fuel `knownDirs.length + 1` is always enough: the `while True` loop terminates -/
theorem nextFree_isSome (b : Str) (fuel : Nat) (kd : List Str) (num : Nat) (h : kd.length < fuel) :
    (nextFree kd b fuel num).isSome := by
  induction fuel generalizing kd num with
  | zero => omega
  | succ f ih =>
    simp only [nextFree, List.contains_eq_mem]
    by_cases hm : numDir b num ∈ kd
    · simp only [hm, decide_true, if_true]
      have hlt : (kd.filter (fun p => p != numDir b num)).length < kd.length := by
        apply List.length_filter_lt_length_iff_exists.mpr
        exact ⟨numDir b num, hm, by simp⟩
      rw [nextFree_congr (kd' := kd.filter (fun p => p != numDir b num)) f (num + 1)]
      · exact ih _ _ (by omega)
      · intro k hk
        simp only [List.mem_filter, bne_iff_ne, ne_eq]
        constructor
        · intro hk'
          refine ⟨hk', fun e => ?_⟩
          have := numDir_inj_num e
          omega
        · exact fun hk' => hk'.1
    · simp [hm]

theorem numberKeys_spec {kd : List Str} {b : Str} {ks : List Key} {num : Nat} {r : List (Key × Str)}
    (h : numberKeys kd b ks num = some r) :
    r.map (·.1) = ks ∧ (∀ x ∈ r, ∃ m, num ≤ m ∧ x.2 = numDir b m ∧ x.2 ∉ kd) ∧ (r.map (·.2)).Nodup := by
  induction ks generalizing num r with
  | nil => simp only [numberKeys] at h; cases h; simp
  | cons k ks ih =>
    simp only [numberKeys] at h
    split at h
    · cases h
    · rename_i n hn
      split at h
      · cases h
      · rename_i r' hr'
        cases h
        obtain ⟨h1, h2, h3⟩ := ih hr'
        have hs := nextFree_spec hn
        refine ⟨by simp [h1], ?_, ?_⟩
        · intro x hx
          rcases List.mem_cons.mp hx with heq | hmem
          · subst heq; exact ⟨n, hs.1, rfl, hs.2⟩
          · obtain ⟨m, hm1, hm2, hm3⟩ := h2 x hmem
            exact ⟨m, by omega, hm2, hm3⟩
        · simp only [List.map_cons, List.nodup_cons]
          refine ⟨?_, h3⟩
          intro hmem
          obtain ⟨x, hx, hxe⟩ := List.mem_map.mp hmem
          obtain ⟨m, hm1, hm2, _⟩ := h2 x hx
          rw [hm2] at hxe
          have := numDir_inj_num hxe
          omega

theorem numberKeys_isSome (kd : List Str) (b : Str) (ks : List Key) (num : Nat) :
    (numberKeys kd b ks num).isSome := by
  induction ks generalizing num with
  | nil => simp [numberKeys]
  | cons k ks ih =>
    simp only [numberKeys]
    have h1 := nextFree_isSome b (kd.length + 1) kd num (by omega)
    cases hn : nextFree kd b (kd.length + 1) num with
    | none => rw [hn] at h1; cases h1
    | some n =>
      have h2 := ih (n + 1)
      cases hr : numberKeys kd b ks (n + 1) with
      | none => rw [hr] at h2; cases h2
      | some r => simp [hr]

theorem noTwin_sub {A B : List Str} (h : NoTwin B) (hs : ∀ x ∈ A, x ∈ B) : NoTwin A :=
  fun b hb b' hb' e => h b (hs b hb) b' (hs b' hb') e

theorem numberAll_spec {kd : List Str} {ds : List (Str × List Key)} {r : List (Key × Str)}
    (ht : NoTwin (ds.map (·.1))) (hn : (ds.map (·.1)).Nodup) (h : numberAll kd ds = some r) :
    r.map (·.1) = allKeys ds ∧
    (∀ x ∈ r, ∃ b ∈ ds.map (·.1), ∃ m, x.2 = numDir b m ∧ x.2 ∉ kd) ∧ (r.map (·.2)).Nodup := by
  induction ds generalizing r with
  | nil => simp only [numberAll] at h; cases h; simp [allKeys]
  | cons d rest ih =>
    obtain ⟨b, ks⟩ := d
    simp only [numberAll] at h
    split at h
    · cases h
    · rename_i r1 hr1
      split at h
      · cases h
      · rename_i r2 hr2
        cases h
        simp only [List.map_cons, List.nodup_cons] at hn
        obtain ⟨k1, k2, k3⟩ := numberKeys_spec hr1
        obtain ⟨i1, i2, i3⟩ := ih (noTwin_sub ht (fun x hx => List.mem_cons_of_mem _ hx)) hn.2 hr2
        refine ⟨by simp [allKeys, k1, i1] , ?_, ?_⟩
        · intro x hx
          rcases List.mem_append.mp hx with hx | hx
          · obtain ⟨m, _, hm2, hm3⟩ := k2 x hx
            exact ⟨b, by simp, m, hm2, hm3⟩
          · obtain ⟨b', hb', m, hm2, hm3⟩ := i2 x hx
            exact ⟨b', List.mem_cons_of_mem _ hb', m, hm2, hm3⟩
        · rw [List.map_append]
          refine List.Nodup.append k3 i3 ?_
          intro p hp1 hp2
          obtain ⟨x, hx, hxe⟩ := List.mem_map.mp hp1
          obtain ⟨y, hy, hye⟩ := List.mem_map.mp hp2
          obtain ⟨m, _, hm2, _⟩ := k2 x hx
          obtain ⟨b', hb', m', hm2', _⟩ := i2 y hy
          have e : numDir b m = numDir b' m' := by rw [← hm2, ← hm2', hxe, hye]
          have := (numDir_inj ht (by simp) (List.mem_cons_of_mem _ hb') e).1
          subst this
          exact hn.1 hb'

theorem numberAll_keys {kd : List Str} {ds : List (Str × List Key)} {r : List (Key × Str)}
    (h : numberAll kd ds = some r) : r.map (·.1) = allKeys ds := by
  induction ds generalizing r with
  | nil => simp only [numberAll] at h; cases h; simp [allKeys]
  | cons d rest ih =>
    obtain ⟨b, ks⟩ := d
    simp only [numberAll] at h
    split at h
    · cases h
    · rename_i r1 hr1
      split at h
      · cases h
      · rename_i r2 hr2
        cases h
        have := ih hr2
        simp [allKeys, (numberKeys_spec hr1).1, this] at *

theorem numberAll_isSome (kd : List Str) (ds : List (Str × List Key)) : (numberAll kd ds).isSome := by
  induction ds with
  | nil => simp [numberAll]
  | cons d rest ih =>
    obtain ⟨b, ks⟩ := d
    simp only [numberAll]
    have h1 := numberKeys_isSome kd b ks 1
    cases hr : numberKeys kd b ks 1 with
    | none => rw [hr] at h1; cases h1
    | some r =>
      cases hr' : numberAll kd rest with
      | none => rw [hr'] at ih; cases ih
      | some r' => rfl

/-! ### refresh -/

/-- the table is a function (PRIMARY KEY) and no directory is assigned twice -/
def WF (t : Table) : Prop := (t.map (·.1)).Nodup ∧ (t.map (·.2)).Nodup

theorem refresh_isSome (old : Table) (visits : List (Key × Str)) : (refresh old visits).isSome := by
  unfold refresh writeBack
  have := numberAll_isSome ((collect old visits).known.map (·.2)) (collect old visits).dirs
  cases h : numberAll ((collect old visits).known.map (·.2)) (collect old visits).dirs with
  | none => rw [h] at this; cases this
  | some r => rfl

theorem refresh_shape {old : Table} {visits : List (Key × Str)} {t : Table} (h : refresh old visits = some t) :
    ∃ r, numberAll ((collect old visits).known.map (·.2)) (collect old visits).dirs = some r ∧
      t = (collect old visits).known ++ r := by
  unfold refresh writeBack at h
  split at h
  · cases h
  · rename_i r hr; cases h; exact ⟨r, hr, rfl⟩

theorem refresh_wf {old : Table} {visits : List (Key × Str)} {t : Table} (hw : WF old)
    (ht : NoTwin (visits.map (·.2))) (h : refresh old visits = some t) : WF t := by
  obtain ⟨r, hr, rfl⟩ := refresh_shape h
  have inv := collInv_collect old visits
  obtain ⟨s1, s2, s3⟩ := numberAll_spec (noTwin_sub ht inv.basesSub) inv.basesNodup hr
  constructor
  · rw [List.map_append, s1]; exact inv.keysNodup
  · rw [List.map_append]
    have hk : ((collect old visits).known.map (·.2)).Nodup := by
      apply List.Nodup.map_on
      · intro x hx y hy hxy
        have hx' : (x.1, x.2) ∈ old := lookup_some_mem (inv.knownOld x hx)
        have hy' : (y.1, y.2) ∈ old := lookup_some_mem (inv.knownOld y hy)
        exact List.inj_on_of_nodup_map hw.2 hx' hy' hxy
      · exact (List.Nodup.of_append_left inv.keysNodup).of_map _
    refine List.Nodup.append hk s3 ?_
    intro p hp1 hp2
    obtain ⟨y, hy, hye⟩ := List.mem_map.mp hp2
    obtain ⟨_, _, _, _, hnot⟩ := s2 y hy
    exact hnot (hye ▸ hp1)

theorem wf_nil : WF ([] : Table) := by simp [WF]

theorem run_wf {t0 : Table} {hist : List (List (Key × Str))} {t : Table} (hw : WF t0)
    (ht : ∀ v ∈ hist, NoTwin (v.map (·.2))) (h : run t0 hist = some t) : WF t := by
  induction hist generalizing t0 with
  | nil => simp only [run] at h; cases h; exact hw
  | cons v rest ih =>
    simp only [run] at h
    split at h
    · cases h
    · rename_i t' ht'
      exact ih (refresh_wf hw (ht v (by simp)) ht') (fun v' hv' => ht v' (List.mem_cons_of_mem _ hv')) h

theorem run_isSome (t0 : Table) (hist : List (List (Key × Str))) : (run t0 hist).isSome := by
  induction hist generalizing t0 with
  | nil => simp [run]
  | cons v rest ih =>
    simp only [run]
    have := refresh_isSome t0 v
    cases h : refresh t0 v with
    | none => rw [h] at this; cases this
    | some t' => exact ih t'

/-- every key that was visited has a directory afterwards (the `assert` of the ready mode holds) -/
theorem refresh_visited {old : Table} {visits : List (Key × Str)} {t : Table} (h : refresh old visits = some t)
    {v : Key × Str} (hv : v ∈ visits) : v.1 ∈ t.map (·.1) := by
  obtain ⟨r, hr, rfl⟩ := refresh_shape h
  have inv := collInv_collect old visits
  have hvis : v.1 ∈ (collect old visits).visited := foldl_visits_visited old visits Coll.empty v hv
  have := (inv.keysVisited v.1).mpr hvis
  have hkeys := numberAll_keys hr
  rw [List.map_append, hkeys]
  exact this

/-! ### shape of the stored directories and `makeRunnable` -/

/-- every stored directory is `os.path.join(base, str(n))` for some base directory and number -/
def Shaped (t : Table) : Prop := ∀ x ∈ t, ∃ b n, x.2 = numDir b n

theorem numberKeys_shaped {kd : List Str} {b : Str} {ks : List Key} {num : Nat} {r : List (Key × Str)}
    (h : numberKeys kd b ks num = some r) : Shaped r := by
  intro x hx
  obtain ⟨m, _, hm, _⟩ := (numberKeys_spec h).2.1 x hx
  exact ⟨b, m, hm⟩

theorem numberAll_shaped {kd : List Str} {ds : List (Str × List Key)} {r : List (Key × Str)}
    (h : numberAll kd ds = some r) : Shaped r := by
  induction ds generalizing r with
  | nil => simp only [numberAll] at h; cases h; intro x hx; cases hx
  | cons d rest ih =>
    obtain ⟨b, ks⟩ := d
    simp only [numberAll] at h
    split at h
    · cases h
    · rename_i r1 hr1
      split at h
      · cases h
      · rename_i r2 hr2
        cases h
        intro x hx
        rcases List.mem_append.mp hx with hx | hx
        · exact numberKeys_shaped hr1 x hx
        · exact ih hr2 x hx

theorem refresh_shaped {old : Table} {visits : List (Key × Str)} {t : Table} (hs : Shaped old)
    (h : refresh old visits = some t) : Shaped t := by
  obtain ⟨r, hr, rfl⟩ := refresh_shape h
  have inv := collInv_collect old visits
  intro x hx
  rcases List.mem_append.mp hx with hx | hx
  · exact hs (x.1, x.2) (lookup_some_mem (inv.knownOld x hx))
  · exact numberAll_shaped hr x hx

theorem run_shaped {t0 : Table} {hist : List (List (Key × Str))} {t : Table} (hs : Shaped t0)
    (h : run t0 hist = some t) : Shaped t := by
  induction hist generalizing t0 with
  | nil => simp only [run] at h; cases h; exact hs
  | cons v rest ih =>
    simp only [run] at h
    split at h
    · cases h
    · rename_i t' ht'
      exact ih (refresh_shaped hs ht') h

theorem numDir_last (b : Str) (n : Nat) : numDir b n ≠ [] ∧ (numDir b n).getLast? ≠ some '/' := by
  rw [numDir_eq]
  have hne := natStr_ne_nil n
  refine ⟨by simp [hne], ?_⟩
  rw [List.getLast?_append_of_ne_nil _ hne]
  intro h
  exact slash_not_mem_natStr n (List.mem_of_getLast? h)

/-- `makeRunnable` (`os.path.join(dir, "workspace")`) does not identify two stored directories -/
theorem workspace_inj {b b' : Str} {n n' : Nat}
    (h : pjoin (numDir b n) Consts.C16.workspaceName = pjoin (numDir b' n') Consts.C16.workspaceName) :
    numDir b n = numDir b' n' := by
  have h1 := numDir_last b n
  have h2 := numDir_last b' n'
  unfold pjoin at h
  simp only [show (Consts.C16.workspaceName).head? ≠ some '/' by decide, if_false, h1.1, h1.2, h2.1, h2.2,
    false_or] at h
  exact List.append_cancel_right h

/-! ### release mode: the by-name counters -/

theorem lookup_dset (s : ByName) (k k' : Str) (v : BVal) :
    lookup (dset s k v) k' = if k = k' then some v else lookup s k' := by
  induction s with
  | nil => simp [dset, lookup]
  | cons x rest ih =>
    obtain ⟨k0, v0⟩ := x
    simp only [dset]
    by_cases h0 : k0 = k
    · subst h0
      simp only [if_true, lookup]
      by_cases h1 : k0 = k' <;> simp [h1]
    · simp only [h0, if_false, lookup, ih]
      by_cases h1 : k0 = k'
      · subst h1; simp [Ne.symm h0]
      · simp [h1]

/-- invariant of `__byNameDirs` for base directories `B` and digests `D` -/
structure BInv (B D : List Str) (s : ByName) : Prop where
  numKey : ∀ k n, lookup s k = some (.num n) → k ∈ B
  dirKey : ∀ k p f, lookup s k = some (.dir p f) →
    k ∈ D ∧ ∃ b ∈ B, ∃ m c, p = numDir b m ∧ lookup s b = some (.num c) ∧ m ≤ c
  inj : ∀ k k' p f f', lookup s k = some (.dir p f) → lookup s k' = some (.dir p f') → k = k'

theorem binv_nil (B D : List Str) : BInv B D [] := by
  constructor <;> simp [lookup]

/-- one successful call keeps the invariant -/
theorem binv_step {B D : List Str} (hT : NoTwin B) (hS : ∀ d ∈ D, d ∉ B) {s s' : ByName} (h : BInv B D s)
    {base digest : Str} {isSrc : Bool} {q : Str} (hb : base ∈ B) (hd : digest ∈ D)
    (hc : getByName s base digest isSrc = .ok (s', q)) : BInv B D s' := by
  have hne : base ≠ digest := fun e => hS digest hd (e ▸ hb)
  unfold getByName at hc
  split at hc
  · cases hc; exact h
  · cases hc
  · rename_i hdig
    -- the common shape of both counter cases
    have key : ∀ n : Nat, (lookup s base = some (.num n) ∨ (lookup s base = none ∧ n = 0)) →
        BInv B D (dset (dset s base (.num (n + 1))) digest (.dir (numDir base (n + 1)) isSrc)) := by
      intro n hn
      have hfresh : ∀ k p f, lookup s k = some (.dir p f) → p ≠ numDir base (n + 1) := by
        intro k p f hk e
        obtain ⟨_, b, hbB, m, c, hp, hlb, hmc⟩ := h.dirKey k p f hk
        rw [hp] at e
        obtain ⟨e1, e2⟩ := numDir_inj hT hbB hb e
        subst e1
        rcases hn with hn | ⟨hn, _⟩
        · rw [hn] at hlb; cases hlb; omega
        · rw [hn] at hlb; cases hlb
      constructor
      · intro k n' hk
        rw [lookup_dset, lookup_dset] at hk
        by_cases h1 : digest = k
        · simp [h1] at hk
        · simp only [h1, if_false] at hk
          by_cases h2 : base = k
          · exact h2 ▸ hb
          · simp only [h2, if_false] at hk; exact h.numKey k n' hk
      · intro k p f hk
        rw [lookup_dset, lookup_dset] at hk
        by_cases h1 : digest = k
        · simp only [h1, if_true, Option.some.injEq, BVal.dir.injEq] at hk
          refine ⟨h1 ▸ hd, base, hb, n + 1, n + 1, hk.1.symm, ?_, Nat.le_refl _⟩
          rw [lookup_dset, lookup_dset]
          simp [Ne.symm hne]
        · simp only [h1, if_false] at hk
          by_cases h2 : base = k
          · simp [h2] at hk
          · simp only [h2, if_false] at hk
            obtain ⟨hkD, b, hbB, m, c, hp, hlb, hmc⟩ := h.dirKey k p f hk
            have hdb : digest ≠ b := fun e => hS digest hd (e ▸ hbB)
            by_cases h3 : base = b
            · subst h3
              refine ⟨hkD, base, hbB, m, n + 1, hp, ?_, ?_⟩
              · rw [lookup_dset, lookup_dset]; simp [hdb]
              · rcases hn with hn | ⟨hn, _⟩
                · rw [hn] at hlb; cases hlb; omega
                · rw [hn] at hlb; cases hlb
            · refine ⟨hkD, b, hbB, m, c, hp, ?_, hmc⟩
              rw [lookup_dset, lookup_dset]; simp [hdb, h3, hlb]
      · intro k k' p f f' hk hk'
        rw [lookup_dset, lookup_dset] at hk hk'
        by_cases h1 : digest = k
        · by_cases h1' : digest = k'
          · exact h1.symm.trans h1'
          · exfalso
            simp only [h1, if_true, Option.some.injEq, BVal.dir.injEq] at hk
            simp only [h1', if_false] at hk'
            by_cases h2 : base = k'
            · simp [h2] at hk'
            · simp only [h2, if_false] at hk'
              exact hfresh k' p f' hk' hk.1.symm
        · simp only [h1, if_false] at hk
          by_cases h2 : base = k
          · simp [h2] at hk
          · simp only [h2, if_false] at hk
            by_cases h1' : digest = k'
            · exfalso
              simp only [h1', if_true, Option.some.injEq, BVal.dir.injEq] at hk'
              exact hfresh k p f hk hk'.1.symm
            · simp only [h1', if_false] at hk'
              by_cases h2' : base = k'
              · simp [h2'] at hk'
              · simp only [h2', if_false] at hk'
                exact h.inj k k' p f f' hk hk'
    split at hc
    · cases hc
    · rename_i n hn
      cases hc
      exact key n (Or.inl hn)
    · rename_i hn
      cases hc
      exact key 0 (Or.inr ⟨hn, rfl⟩)

/-- with digests that are no base directory names no call fails -/
theorem getByName_ok {B D : List Str} (hS : ∀ d ∈ D, d ∉ B) {s : ByName} (h : BInv B D s)
    {base digest : Str} (isSrc : Bool) (hb : base ∈ B) (hd : digest ∈ D) :
    ∃ r, getByName s base digest isSrc = .ok r := by
  unfold getByName
  split
  · exact ⟨_, rfl⟩
  · rename_i n hl; exact absurd (h.numKey _ _ hl) (hS digest hd)
  · split
    · rename_i p f hl
      exact absurd hb (hS base (h.dirKey _ _ _ hl).1)
    · exact ⟨_, rfl⟩
    · exact ⟨_, rfl⟩

/-- the returned directory is the one stored under the digest -/
theorem getByName_returns {s s' : ByName} {base digest : Str} {isSrc : Bool} {q : Str}
    (hc : getByName s base digest isSrc = .ok (s', q)) :
    ∃ f, lookup s' digest = some (.dir q f) := by
  unfold getByName at hc
  split at hc
  · rename_i p f hl; cases hc; exact ⟨f, hl⟩
  · cases hc
  · split at hc
    · cases hc
    · cases hc; exact ⟨isSrc, by rw [lookup_dset]; simp⟩
    · cases hc; exact ⟨isSrc, by rw [lookup_dset]; simp⟩

/-- an assigned digest keeps its directory over any later call whose base directory is not that digest -/
theorem getByName_stable {s s' : ByName} {base digest : Str} {isSrc : Bool} {q : Str}
    (hc : getByName s base digest isSrc = .ok (s', q)) {d p : Str} {f : Bool}
    (hl : lookup s d = some (.dir p f)) (hbd : base ≠ d) : lookup s' d = some (.dir p f) := by
  unfold getByName at hc
  split at hc
  · cases hc; exact hl
  · cases hc
  · rename_i hdig
    have hdd : digest ≠ d := fun e => by rw [e, hl] at hdig; cases hdig
    split at hc
    · cases hc
    · cases hc; rw [lookup_dset, lookup_dset]; simp [hdd, hbd, hl]
    · cases hc; rw [lookup_dset, lookup_dset]; simp [hdd, hbd, hl]

theorem runCalls_binv {B D : List Str} (hT : NoTwin B) (hS : ∀ d ∈ D, d ∉ B) {calls : List Call}
    (hB : ∀ c ∈ calls, c.base ∈ B) (hD : ∀ c ∈ calls, c.digest ∈ D) {s : ByName} (h : BInv B D s) :
    ∃ s' ps, runCalls s calls = .ok (s', ps) ∧ BInv B D s' := by
  induction calls generalizing s with
  | nil => exact ⟨s, [], rfl, h⟩
  | cons c rest ih =>
    obtain ⟨⟨s1, q⟩, hq⟩ := getByName_ok hS h c.isSrc (hB c (by simp)) (hD c (by simp))
    have h1 := binv_step hT hS h (hB c (by simp)) (hD c (by simp)) hq
    obtain ⟨s2, ps, hr, h2⟩ := ih (fun c' hc' => hB c' (List.mem_cons_of_mem _ hc'))
      (fun c' hc' => hD c' (List.mem_cons_of_mem _ hc')) h1
    exact ⟨s2, q :: ps, by simp [runCalls, hq, hr], h2⟩

theorem runCalls_stable {s s' : ByName} {calls : List Call} {ps : List Str}
    (hr : runCalls s calls = .ok (s', ps)) {d p : Str} {f : Bool}
    (hl : lookup s d = some (.dir p f)) (hbd : ∀ c ∈ calls, c.base ≠ d) : lookup s' d = some (.dir p f) := by
  induction calls generalizing s ps with
  | nil => simp only [runCalls] at hr; cases hr; exact hl
  | cons c rest ih =>
    simp only [runCalls] at hr
    split at hr
    · cases hr
    · rename_i s1 q hq
      split at hr
      · cases hr
      · rename_i s2 ps2 hr2
        cases hr
        exact ih hr2 (getByName_stable hq hl (hbd c (by simp))) (fun c' hc' => hbd c' (List.mem_cons_of_mem _ hc'))

end BobDirs
