import BobModel.Model.Share
/-
C15 helper lemmas about the pure part of `LocalShare.gc`: `sorted(candidates)` and the quota loop.
-/
namespace Share

theorem Cand.le_iff (a b : Cand) : a.le b = true ↔
    a.unused.toNat < b.unused.toNat ∨ (a.unused.toNat = b.unused.toNat ∧ (a.time < b.time ∨ (a.time = b.time ∧
      (a.size < b.size ∨ (a.size = b.size ∧ a.bid ≤ b.bid))))) := by
  unfold Cand.le
  cases a.unused <;> cases b.unused <;> simp [Bool.toNat] <;>
    by_cases h1 : a.time = b.time <;> by_cases h2 : a.size = b.size <;> simp [h1, h2] <;> omega

theorem Cand.le_total (a b : Cand) : a.le b = true ∨ b.le a = true := by
  rw [Cand.le_iff, Cand.le_iff]
  grind

theorem Cand.le_trans {a b c : Cand} (h1 : a.le b = true) (h2 : b.le c = true) : a.le c = true := by
  rw [Cand.le_iff] at *
  grind

theorem insertCand_perm (c : Cand) (l : List Cand) : (insertCand c l).Perm (c :: l) := by
  induction l with
  | nil => simp [insertCand]
  | cons d rest ih =>
    unfold insertCand
    split
    · exact List.Perm.refl _
    · exact (List.Perm.cons d ih).trans (List.Perm.swap c d rest)

theorem sortCands_perm (l : List Cand) : (sortCands l).Perm l := by
  induction l with
  | nil => simp [sortCands]
  | cons c rest ih =>
    unfold sortCands
    exact (insertCand_perm c _).trans (List.Perm.cons c ih)

theorem mem_insertCand {c x : Cand} {l : List Cand} : x ∈ insertCand c l ↔ x = c ∨ x ∈ l := by
  rw [(insertCand_perm c l).mem_iff]; simp

theorem insertCand_sorted (c : Cand) (l : List Cand) (h : l.Pairwise (fun a b => a.le b = true)) :
    (insertCand c l).Pairwise (fun a b => a.le b = true) := by
  induction l with
  | nil => simp [insertCand]
  | cons d rest ih =>
    unfold insertCand
    have hd := List.pairwise_cons.mp h
    split
    · rename_i hle
      refine List.pairwise_cons.mpr ⟨?_, h⟩
      intro x hx
      rcases List.mem_cons.mp hx with rfl | hx
      · exact hle
      · exact Cand.le_trans hle (hd.1 x hx)
    · rename_i hle
      have hdc : d.le c = true := by
        rcases Cand.le_total c d with h' | h'
        · exact absurd h' hle
        · exact h'
      refine List.pairwise_cons.mpr ⟨?_, ih hd.2⟩
      intro x hx
      rcases mem_insertCand.mp hx with rfl | hx
      · exact hdc
      · exact hd.1 x hx

theorem sortCands_sorted (l : List Cand) : (sortCands l).Pairwise (fun a b => a.le b = true) := by
  induction l with
  | nil => simp [sortCands]
  | cons c rest ih => unfold sortCands; exact insertCand_sorted c _ ih

def sumCand (l : List Cand) : Nat := (l.map (·.size)).sum

/-- the loop removes a prefix of the sorted list and reports `total - Σ removed` -/
theorem gcLoop_prefix (quota : Option Nat) (pun : Bool) (l : List Cand) (total : Nat) :
    ∃ rest, l = (gcLoop quota pun l total).1 ++ rest := by
  induction l generalizing total with
  | nil => exact ⟨[], by simp [gcLoop]⟩
  | cons c rest ih =>
    unfold gcLoop
    split
    · cases quota with
      | none => exact ⟨c :: rest, by simp⟩
      | some q =>
        simp only
        split
        · exact ⟨c :: rest, by simp⟩
        · obtain ⟨r, hr⟩ := ih (total - c.size)
          exact ⟨r, by simp; exact hr⟩
    · obtain ⟨r, hr⟩ := ih (total - c.size)
      exact ⟨r, by simp; exact hr⟩

theorem gcLoop_size (quota : Option Nat) (pun : Bool) (l : List Cand) (total : Nat) :
    (gcLoop quota pun l total).2.1 = total - sumCand (gcLoop quota pun l total).1 := by
  induction l generalizing total with
  | nil => simp [gcLoop, sumCand]
  | cons c rest ih =>
    unfold gcLoop
    split
    · cases quota with
      | none => simp [sumCand]
      | some q =>
        simp only
        split
        · simp [sumCand]
        · simp only [ih (total - c.size), sumCand, List.map_cons, List.sum_cons]; omega
    · simp only [ih (total - c.size), sumCand, List.map_cons, List.sum_cons]; omega

/-- no `TypeError` when a quota is configured -/
theorem gcLoop_noTypeError_quota (q : Nat) (pun : Bool) (l : List Cand) (total : Nat) :
    (gcLoop (some q) pun l total).2.2 = false := by
  induction l generalizing total with
  | nil => simp [gcLoop]
  | cons c rest ih =>
    unfold gcLoop
    split
    · simp only
      split
      · rfl
      · exact ih _
    · exact ih _

/-- `--all-unused` without `--used`: every candidate is unused, the loop removes all of them -/
theorem gcLoop_allUnused (quota : Option Nat) (l : List Cand) (total : Nat)
    (h : ∀ c ∈ l, c.unused = true) :
    (gcLoop quota true l total).1 = l ∧ (gcLoop quota true l total).2.2 = false := by
  induction l generalizing total with
  | nil => simp [gcLoop]
  | cons c rest ih =>
    have hc : c.unused = true := h c (by simp)
    have := ih (total - c.size) (fun d hd => h d (by simp [hd]))
    unfold gcLoop
    simp [hc, this.1, this.2]

/-- automatic / manual cleaning without `--all-unused`: the loop stops exactly when the quota is met.
`removed` is the SHORTEST prefix after which the recorded size is within the quota. -/
theorem gcLoop_quota (q : Nat) (l : List Cand) (total : Nat) :
    let r := (gcLoop (some q) false l total).1
    (∀ p, p <+: r → p ≠ r → total - sumCand p > q) ∧
    (total - sumCand r ≤ q ∨ r = l) := by
  induction l generalizing total with
  | nil =>
    refine ⟨fun p hp hne => ?_, Or.inr (by simp [gcLoop])⟩
    have : p = [] := List.prefix_nil.mp (by simpa [gcLoop] using hp)
    exact absurd this (by simpa [gcLoop] using hne)
  | cons c rest ih =>
    unfold gcLoop
    simp only [Bool.not_false, Bool.or_true, if_true]
    split
    · rename_i hle
      refine ⟨fun p hp hne => ?_, Or.inl (by simp [sumCand]; exact hle)⟩
      have : p = [] := List.prefix_nil.mp hp
      exact absurd this hne
    · rename_i hgt
      obtain ⟨ih1, ih2⟩ := ih (total - c.size)
      simp only at ih1 ih2 ⊢
      constructor
      · intro p hp hne
        cases p with
        | nil => simp [sumCand]; omega
        | cons x xs =>
          have hx := List.cons_prefix_cons.mp hp
          have h1 := ih1 xs hx.2 (by intro h; apply hne; rw [hx.1, h])
          simp only [sumCand, List.map_cons, List.sum_cons] at h1 ⊢
          rw [hx.1]; omega
      · rcases ih2 with h | h
        · left; simp only [sumCand, List.map_cons, List.sum_cons] at h ⊢; omega
        · right; rw [h]

/-- in a list sorted by the tuple order whose elements are all unused, modification times ascend -/
theorem sorted_unused_time {l : List Cand} (hs : l.Pairwise (fun a b => a.le b = true))
    (hu : ∀ c ∈ l, c.unused = true) : l.Pairwise (fun a b => a.time ≤ b.time) := by
  induction l with
  | nil => simp
  | cons c rest ih =>
    have hc := List.pairwise_cons.mp hs
    refine List.pairwise_cons.mpr ⟨?_, ih hc.2 (fun d hd => hu d (by simp [hd]))⟩
    intro d hd
    have h := hc.1 d hd
    have u1 := hu c (by simp)
    have u2 := hu d (by simp [hd])
    unfold Cand.le at h
    simp [u1, u2] at h
    by_cases e : c.time = d.time
    · omega
    · simp [e] at h; omega

end Share
