import BobModel.Spec.PathSem
import BobModel.Proofs.C18Worklist
/-
Helper lemmas for C18: the axis functions against the declarative relations, the parent table,
backward evaluation of predicates, the node set of the forward evaluation.
-/
namespace PathSpec

/-! ### edges, successors, parents -/

theorem mem_succs {g : Graph} {qi : Bool} {a b : Node} : b ∈ succs g qi a ↔ edge g qi a b := by
  simp only [succs, List.mem_map, List.mem_filter, edge, Bool.or_eq_true]
  constructor
  · rintro ⟨e, ⟨he, hq⟩, rfl⟩; exact ⟨e, he, rfl, hq⟩
  · rintro ⟨e, he, rfl, hq⟩; exact ⟨e, ⟨he, hq⟩, rfl⟩

theorem succs_rel_eq (g : Graph) (qi : Bool) : (fun a b => b ∈ succs g qi a) = edge g qi := by
  funext a b; exact propext mem_succs

theorem nodup_map_inj {α β : Type} (f : α → β) : ∀ (l : List α), (l.map f).Nodup →
    ∀ x ∈ l, ∀ y ∈ l, f x = f y → x = y := by
  intro l
  induction l with
  | nil => intro _ x hx; cases hx
  | cons a as ih =>
    intro hnd x hx y hy hxy
    simp only [List.map_cons, List.nodup_cons, List.mem_map, not_exists, not_and] at hnd
    rcases List.mem_cons.mp hx with rfl | hx' <;> rcases List.mem_cons.mp hy with rfl | hy'
    · rfl
    · exact absurd hxy.symm (hnd.1 y hy')
    · exact absurd hxy (hnd.1 x hx')
    · exact ih hnd.2 x hx' y hy' hxy

theorem edge_lt {g : Graph} (hwf : g.WF) {qi : Bool} {a b : Node} (h : edge g qi a b) : b < g.size := by
  obtain ⟨e, he, rfl, _⟩ := h
  exact hwf.edge_lt a e he

theorem transGen_edge_lt {g : Graph} (hwf : g.WF) {qi : Bool} {a b : Node}
    (h : Relation.TransGen (edge g qi) a b) : b < g.size := by
  cases h with
  | single h => exact edge_lt hwf h
  | tail _ h => exact edge_lt hwf h

/-- **the parent table is the inverse of the child table** (including the direct flag) -/
theorem mem_preds {g : Graph} (hwf : g.WF) {qi : Bool} {p x : Node} :
    p ∈ preds g qi x ↔ p < g.size ∧ edge g qi p x := by
  simp only [preds, allNodes, List.mem_filter, List.mem_range, parentFlag]
  constructor
  · rintro ⟨hp, h⟩
    refine ⟨hp, ?_⟩
    cases hf : (g.children p).find? (fun e => e.node == x) with
    | none => simp [hf] at h
    | some e =>
      simp only [hf, Option.map_some, Bool.or_eq_true] at h
      have hmem := List.mem_of_find?_eq_some hf
      have hnode : e.node = x := by simpa using List.find?_some hf
      exact ⟨e, hmem, hnode, h⟩
  · rintro ⟨hp, e, he, hnode, hq⟩
    refine ⟨hp, ?_⟩
    cases hf : (g.children p).find? (fun e => e.node == x) with
    | none =>
      have := List.find?_eq_none.mp hf e he
      simp [hnode] at this
    | some e' =>
      have hmem := List.mem_of_find?_eq_some hf
      have hnode' : e'.node = x := by simpa using List.find?_some hf
      have : e' = e := nodup_map_inj (·.node) _ (hwf.targets_nodup p) e' hmem e he (by rw [hnode', hnode])
      subst this
      simpa using hq

/-! ### axis functions -/

theorem mem_evalAxisChild {g : Graph} {ns : List Node} {qi : Bool} {x : Node} :
    x ∈ evalAxisChild g ns qi ↔ ∃ n ∈ ns, edge g qi n x := by
  simp only [evalAxisChild, mem_dedup, List.mem_flatMap, mem_succs]

theorem mem_evalAxisDescendant {g : Graph} (hwf : g.WF) {ns : List Node} {qi : Bool} {x : Node} :
    x ∈ evalAxisDescendant g ns qi ↔ ∃ n ∈ ns, Relation.TransGen (edge g qi) n x := by
  unfold evalAxisDescendant
  rw [worklist_getD_spec (succs g qi) g.size (fun a b h => edge_lt hwf (mem_succs.mp h)) ns x, succs_rel_eq]

theorem mem_evalAxisParent {g : Graph} (hwf : g.WF) {ns : List Node} {qi : Bool} {x : Node} :
    x ∈ evalAxisParent g ns qi ↔ x < g.size ∧ ∃ n ∈ ns, edge g qi x n := by
  simp only [evalAxisParent, mem_dedup, List.mem_flatMap, mem_preds hwf]
  constructor
  · rintro ⟨n, hn, hx, he⟩; exact ⟨hx, n, hn, he⟩
  · rintro ⟨hx, n, hn, he⟩; exact ⟨n, hn, hx, he⟩

theorem transGen_src_lt {g : Graph} (hwf : g.WF) {qi : Bool} {a b : Node} (ha : a < g.size)
    (h : Relation.TransGen (edge g qi) a b) :
    Relation.TransGen (fun p x => p < g.size ∧ edge g qi p x) a b := by
  induction h with
  | single h => exact .single ⟨ha, h⟩
  | tail t h ih => exact .tail ih ⟨transGen_edge_lt hwf t, h⟩

theorem mem_evalAxisAncestor {g : Graph} (hwf : g.WF) {ns : List Node} {qi : Bool} {x : Node} :
    x ∈ evalAxisAncestor g ns qi ↔ x < g.size ∧ ∃ n ∈ ns, Relation.TransGen (edge g qi) x n := by
  unfold evalAxisAncestor
  rw [worklist_getD_spec (preds g qi) g.size (fun a b h => ((mem_preds hwf).mp h).1) ns x]
  have hrel : (fun a b => b ∈ preds g qi a) = (fun a b => (fun p x => p < g.size ∧ edge g qi p x) b a) := by
    funext a b; exact propext (mem_preds hwf)
  rw [hrel]
  constructor
  · rintro ⟨n, hn, t⟩
    have t' := (transGen_flip _ n x).mp t
    have hx : x < g.size := by
      cases t' with
      | single h => exact h.1
      | tail t'' h =>
        clear h
        induction t'' with
        | single h' => exact h'.1
        | tail _ _ ih => exact ih
    exact ⟨hx, n, hn, transGen_mono (fun _ _ h => h.2) t'⟩
  · rintro ⟨hx, n, hn, t⟩
    exact ⟨n, hn, (transGen_flip _ n x).mpr (transGen_src_lt hwf hx t)⟩

theorem axisRel_lt {g : Graph} (hwf : g.WF) {ax : Axis} {a b : Node} (ha : a < g.size)
    (h : axisRel g ax a b) : b < g.size := by
  cases ax <;> simp only [axisRel] at h
  · subst h; exact ha
  · exact edge_lt hwf h
  · exact transGen_edge_lt hwf h
  · rcases h with rfl | h
    · exact ha
    · exact transGen_edge_lt hwf h
  · exact edge_lt hwf h
  · exact transGen_edge_lt hwf h
  · rcases h with rfl | h
    · exact ha
    · exact transGen_edge_lt hwf h

theorem mem_axisForward {g : Graph} (hwf : g.WF) {ax : Axis} {ns : List Node} {x : Node} :
    x ∈ (axisForward g ax ns).1 ↔ ∃ n ∈ ns, axisRel g ax n x := by
  cases ax <;> simp only [axisForward, axisRel, mem_evalAxisChild, mem_evalAxisDescendant hwf, mem_union]
  · simp
  · constructor
    · rintro (⟨n, hn, t⟩ | hx)
      · exact ⟨n, hn, Or.inr t⟩
      · exact ⟨x, hx, Or.inl rfl⟩
    · rintro ⟨n, hn, rfl | t⟩
      · exact Or.inr hn
      · exact Or.inl ⟨n, hn, t⟩
  · constructor
    · rintro (⟨n, hn, t⟩ | hx)
      · exact ⟨n, hn, Or.inr t⟩
      · exact ⟨x, hx, Or.inl rfl⟩
    · rintro ⟨n, hn, rfl | t⟩
      · exact Or.inr hn
      · exact Or.inl ⟨n, hn, t⟩

theorem mem_axisBackward {g : Graph} (hwf : g.WF) {ax : Axis} {s : List Node} {x : Node} (hx : x < g.size) :
    x ∈ axisBackward g ax s ↔ ∃ c ∈ s, axisRel g ax x c := by
  cases ax <;> simp only [axisBackward, axisRel, mem_evalAxisParent hwf, mem_evalAxisAncestor hwf, mem_union, hx, true_and]
  · simp
  · constructor
    · rintro (⟨n, hn, t⟩ | hx')
      · exact ⟨n, hn, Or.inr t⟩
      · exact ⟨x, hx', Or.inl rfl⟩
    · rintro ⟨n, hn, rfl | t⟩
      · exact Or.inr hn
      · exact Or.inl ⟨n, hn, t⟩
  · constructor
    · rintro (⟨n, hn, t⟩ | hx')
      · exact ⟨n, hn, Or.inr t⟩
      · exact ⟨x, hx', Or.inl rfl⟩
    · rintro ⟨n, hn, rfl | t⟩
      · exact Or.inr hn
      · exact Or.inl ⟨n, hn, t⟩

theorem mem_nameFilter {g : Graph} {test : Str} {ns : List Node} {x : Node} :
    x ∈ nameFilter g test ns ↔ x ∈ ns ∧ nameTest test (g.name x) = true := by
  unfold nameFilter nameTest
  split
  · simp
  · split <;> simp

/-! ### backward evaluation of predicates = forward meaning -/

theorem sem_lt {g : Graph} (hwf : g.WF) : ∀ (s : Steps) (a b : Node), a < g.size → sem g s a b → b < g.size
  | .nil, a, b, ha, h => by simp only [sem] at h; subst h; exact ha
  | .cons ax test op rest, a, b, ha, h => by
    simp only [sem] at h
    obtain ⟨c, hax, _, _, hrest⟩ := h
    exact sem_lt hwf rest c b (axisRel_lt hwf ha hax) hrest

mutual
theorem pred_back {g : Graph} (hwf : g.WF) :
    ∀ (p : Pred) (n : Node), n < g.size → (n ∈ p.evalBackward g ↔ holds g p n)
  | .not p, n, hn => by
    simp only [Pred.evalBackward, holds, mem_diff, allNodes, List.mem_range, hn, true_and, pred_back hwf p n hn]
  | .and l r, n, hn => by
    simp only [Pred.evalBackward, holds, mem_inter, pred_back hwf l n hn, pred_back hwf r n hn]
  | .or l r, n, hn => by
    simp only [Pred.evalBackward, holds, mem_union, pred_back hwf l n hn, pred_back hwf r n hn]
  | .path abs steps, n, hn => by
    have hall : ∀ m ∈ allNodes g, m < g.size := by intro m hm; simpa [allNodes] using hm
    simp only [Pred.evalBackward, holds]
    cases abs with
    | true =>
      simp only [if_true]
      have hroot := steps_back hwf steps (allNodes g) g.root hwf.root_lt hall
      by_cases hc : (steps.evalBackward g (allNodes g)).contains g.root = true
      · simp only [hc, if_true]
        have : g.root ∈ steps.evalBackward g (allNodes g) := by simpa using hc
        obtain ⟨m, _, hm⟩ := hroot.mp this
        constructor
        · intro _; exact ⟨m, hm⟩
        · intro _; simpa [allNodes] using hn
      · simp only [hc]
        constructor
        · intro h; cases h
        · rintro ⟨m, hm⟩
          exfalso; apply hc
          have := hroot.mpr ⟨m, by simpa [allNodes] using sem_lt hwf steps _ _ hwf.root_lt hm, hm⟩
          simpa using this
    | false =>
      simp only [Bool.false_eq_true, if_false]
      rw [steps_back hwf steps (allNodes g) n hn hall]
      constructor
      · rintro ⟨m, _, hm⟩; exact ⟨m, hm⟩
      · rintro ⟨m, hm⟩; exact ⟨m, by simpa [allNodes] using sem_lt hwf steps _ _ hn hm, hm⟩
  | .cmp op l r, n, hn => by
    simp [Pred.evalBackward, holds, allNodes, hn]
  | .truth e, n, hn => by
    simp [Pred.evalBackward, holds, allNodes, hn]
theorem opt_back {g : Graph} (hwf : g.WF) :
    ∀ (op : OptPred) (ns : List Node) (n : Node), n < g.size →
      (n ∈ op.restrict g ns ↔ n ∈ ns ∧ holdsOpt g op n)
  | .none, ns, n, _ => by simp [OptPred.restrict, holdsOpt]
  | .some p, ns, n, hn => by
    simp only [OptPred.restrict, holdsOpt, mem_inter, pred_back hwf p n hn]
theorem steps_back {g : Graph} (hwf : g.WF) :
    ∀ (s : Steps) (ns : List Node) (n : Node), n < g.size → (∀ m ∈ ns, m < g.size) →
      (n ∈ s.evalBackward g ns ↔ ∃ m ∈ ns, sem g s n m)
  | .nil, ns, n, _, _ => by
    simp only [Steps.evalBackward, sem]
    constructor
    · intro h; exact ⟨n, h, rfl⟩
    · rintro ⟨m, hm, rfl⟩; exact hm
  | .cons ax test op rest, ns, n, hn, hns => by
    simp only [Steps.evalBackward, sem]
    rw [mem_axisBackward hwf hn]
    constructor
    · rintro ⟨c, hc, hax⟩
      have hcl := axisRel_lt hwf hn hax
      obtain ⟨hc1, hop⟩ := (opt_back hwf op _ c hcl).mp hc
      obtain ⟨hc2, hname⟩ := mem_nameFilter.mp hc1
      obtain ⟨m, hm, hsem⟩ := (steps_back hwf rest ns c hcl hns).mp hc2
      exact ⟨m, hm, c, hax, hname, hop, hsem⟩
    · rintro ⟨m, hm, c, hax, hname, hop, hsem⟩
      have hcl := axisRel_lt hwf hn hax
      refine ⟨c, ?_, hax⟩
      apply (opt_back hwf op _ c hcl).mpr
      refine ⟨mem_nameFilter.mpr ⟨?_, hname⟩, hop⟩
      exact (steps_back hwf rest ns c hcl hns).mpr ⟨m, hm, hsem⟩
end

/-! ### forward evaluation: node sets -/

theorem mem_stepForward {g : Graph} (hwf : g.WF) {ax : Axis} {test : Str} {op : OptPred} {old : List Node}
    (hold : ∀ a ∈ old, a < g.size) {x : Node} :
    x ∈ (stepForward g ax test op old).1 ↔
      ∃ a ∈ old, axisRel g ax a x ∧ nameTest test (g.name x) = true ∧ holdsOpt g op x := by
  simp only [stepForward]
  constructor
  · intro h
    -- membership in a restricted list implies membership in the list
    have hx1 : x ∈ nameFilter g test (axisForward g ax old).1 := by
      cases op with
      | none => simpa [OptPred.restrict] using h
      | some p => simp only [OptPred.restrict, mem_inter] at h; exact h.1
    obtain ⟨hx2, hname⟩ := mem_nameFilter.mp hx1
    obtain ⟨a, ha, hax⟩ := (mem_axisForward hwf).mp hx2
    have hxl := axisRel_lt hwf (hold a ha) hax
    exact ⟨a, ha, hax, hname, ((opt_back hwf op _ x hxl).mp h).2⟩
  · rintro ⟨a, ha, hax, hname, hop⟩
    have hxl := axisRel_lt hwf (hold a ha) hax
    exact (opt_back hwf op _ x hxl).mpr ⟨mem_nameFilter.mpr ⟨(mem_axisForward hwf).mpr ⟨a, ha, hax⟩, hname⟩, hop⟩

theorem stepForward_lt {g : Graph} (hwf : g.WF) {ax : Axis} {test : Str} {op : OptPred} {old : List Node}
    (hold : ∀ a ∈ old, a < g.size) : ∀ x ∈ (stepForward g ax test op old).1, x < g.size := by
  intro x hx
  obtain ⟨a, ha, hax, _⟩ := (mem_stepForward hwf hold).mp hx
  exact axisRel_lt hwf (hold a ha) hax

end PathSpec
