import BobModel.Proofs.C11Canon
/-
C11: concrete instances used by the non-vacuity examples of Props/C11.lean.
-/
namespace DirHash.Ex
open DirHash

/-- a toy hash with 20 byte values: injective on strings shorter than 20 bytes -/
def exH (b : Bytes) : Bytes := (b ++ 1 :: List.replicate 20 0).take 20

theorem exH_len (b : Bytes) : (exH b).length = 20 := by simp [exH]

/-- `a` (0644, content 01) -/
def exA : Forest := .cons [97] (.file 0o644 [1]) .nil

/-- `a` (0755, content 01) and an ignored `.git/x`: a chmod neighbour of `exA` -/
def exB : Forest :=
  .cons [97] (.file 0o755 [1]) (.cons [46, 103, 105, 116] (.dir 0o755 (.cons [120] (.file 0o644 []) .nil)) .nil)

theorem exA_inputs : hashInputs exH exA =
    [[164, 129, 0, 0, 1, 1, 0, 0, 0, 0, 0, 0, 0, 0, 0, 0, 0, 0, 0, 0, 0, 0, 0, 0, 97], [1]] := by decide

theorem exB_inputs : hashInputs exH exB =
    [[237, 129, 0, 0, 1, 1, 0, 0, 0, 0, 0, 0, 0, 0, 0, 0, 0, 0, 0, 0, 0, 0, 0, 0, 97], [1]] := by decide

/-- listing order `b`, `a`: a symlink and a regular file -/
def exTree : Forest := .cons [98] (.link 0o777 [2]) (.cons [97] (.file 0o644 [1]) .nil)

def exStat (p : Bytes) : Stat := ⟨100, 200, 1, (if p = [97] then 10 else 11), 0, 1⟩

/-- an old index that is out of order, with a stale record for `a` (older mtime, garbage digest),
a correct record for `b` and a foreign record -/
def exIx : Option (List Rec) := some [
  ⟨[98], statFor exStat [98] (.link 0o777 [2]), exH [2]⟩,
  ⟨[97], ⟨100, 199, 1, 10, 0o100644, 1⟩, [9, 9, 9]⟩,
  ⟨[122], ⟨0, 0, 0, 0, 0, 0⟩, []⟩]

theorem exTree_visited : visited exTree = [([97], .file 0o644 [1]), ([98], .link 0o777 [2])] := by rfl

/-- two states of a history: `a` is rewritten (same size), its mtime changes -/
def exS1 : FsState := ⟨.cons [97] (.file 0o644 [1]) .nil, fun _ => ⟨100, 200, 1, 10, 0, 1⟩⟩

def exS2 : FsState := ⟨.cons [97] (.file 0o644 [2]) .nil, fun _ => ⟨101, 201, 1, 10, 0, 1⟩⟩

def exD (_ : Bytes) (st : Stat) : Bytes := if st.mtime = 200 then exH [1] else exH [2]

/-- the sort-order trap: directory `a` (with `x`) and file `a.b` -/
def exO : Forest := .cons [97] (.dir 0o755 (.cons [120] (.file 0o644 []) .nil)) (.cons [97, 46, 98] (.file 0o644 []) .nil)

end DirHash.Ex
