import BobModel.Proofs.C08Ops
/-
Helper lemmas for Props/C08.lean, part 4b: the re-extraction fallback of `TarFile.makelink`
for hard link members (`reextract`, `linkFallback`).

The fallback re-creates an *earlier* member of the archive (possibly a symbolic link with any
target) at the place of the hard link and then applies the attributes of the hard link member
through that name, so it is not a confined step in general (this is how the dispatch before commit
8ba1640 is refuted).  For the checked dispatch the lemmas here show that it cannot do anything:
`__checkMember` has seen the link source as an existing regular file and the link's own name as
missing; `os.makedirs` of the upper directories in between only adds directories at prefixes of
the resolved parent (`OnlyNew`), so both facts survive (`walk_strict_grow`,
`dst_missing_transport`) and `os.link` can only fail because the link's own path does not resolve
(`ENOENT`/`ENOTDIR`/`ELOOP`) — and then no operation of the re-extraction resolves it either
(`linkFallback_nochange`).
-/
namespace TarExtract

/-! ### what `os.makedirs` changes -/

/-- `b` is `a` plus new directories at prefixes of `P` that were missing; the inodes are the same -/
def OnlyNew (P : Path) (a b : FS) : Prop :=
  b.inodes = a.inodes ∧ ∀ q, b.look q = a.look q ∨ (a.look q = none ∧ q <+: P ∧ IsDir b q)

theorem OnlyNew.refl (P : Path) (a : FS) : OnlyNew P a a := ⟨rfl, fun _ => Or.inl rfl⟩

theorem OnlyNew.trans {P : Path} {a b c : FS} (h1 : OnlyNew P a b) (h2 : OnlyNew P b c) : OnlyNew P a c := by
  refine ⟨h2.1.trans h1.1, fun q => ?_⟩
  rcases h1.2 q with e1 | ⟨n1, p1, d1⟩
  · rcases h2.2 q with e2 | ⟨n2, p2, d2⟩
    · exact Or.inl (e2.trans e1)
    · exact Or.inr ⟨by rw [← e1]; exact n2, p2, d2⟩
  · rcases h2.2 q with e2 | ⟨n2, _, _⟩
    · refine Or.inr ⟨n1, p1, ?_⟩
      obtain ⟨m, hm⟩ := d1
      exact ⟨m, by rw [e2]; exact hm⟩
    · obtain ⟨m, hm⟩ := d1
      rw [n2] at hm; cases hm

/-- every name of `a` is a name of `b` with the same entry; the inodes are the same -/
def Grow (a b : FS) : Prop := b.inodes = a.inodes ∧ ∀ q e, a.look q = some e → b.look q = some e

theorem OnlyNew.grow {P : Path} {a b : FS} (h : OnlyNew P a b) : Grow a b := by
  refine ⟨h.1, fun q e hq => ?_⟩
  rcases h.2 q with h' | ⟨h', _⟩
  · rw [h', hq]
  · rw [hq] at h'; cases h'

theorem symTarget_grow {a b : FS} (h : Grow a b) {q : Path} {e : Entry} (hq : a.look q = some e) :
    symTarget b q = symTarget a q := by
  unfold symTarget
  rw [h.2 q e hq, hq]
  unfold FS.inode
  rw [h.1]

/-- a kernel walk that ends at an existing entry is the same walk in a grown tree -/
theorem walk_strict_grow {a b : FS} (h : Grow a b) (follow : Bool) :
    ∀ (n : Nat) (cur : Path) (p : List Name) (L : Path) (e : Entry),
      walk a true follow n cur p = .ok L → a.look L = some e → walk b true follow n cur p = .ok L := by
  intro n
  induction n with
  | zero =>
    intro cur p L e hw _
    cases p with
    | nil => simpa [walk] using hw
    | cons x p => simp [walk] at hw
  | succ n ih =>
    intro cur p L e hw hL
    cases p with
    | nil => simpa [walk] using hw
    | cons x p =>
      simp only [walk] at hw ⊢
      by_cases hx1 : x = dot
      · simp only [hx1, if_true] at hw ⊢; exact ih _ _ _ e hw hL
      · by_cases hx2 : x = dotdot
        · simp only [hx1, hx2, if_true, if_false] at hw ⊢; exact ih _ _ _ e hw hL
        · simp only [hx1, hx2, if_false] at hw ⊢
          cases hl : a.look (cur ++ [x]) with
          | none =>
            exfalso
            rw [symTarget_of_look_none hl] at hw
            simp only [Bool.true_eq_false, if_false, hl] at hw
            by_cases hp : p = []
            · simp only [hp, if_true] at hw
              have : cur ++ [x] = L := by simpa using hw
              rw [← this, hl] at hL; cases hL
            · simp [hp] at hw
          | some e' =>
            rw [symTarget_grow h hl]
            rw [h.2 _ _ hl]
            rw [hl] at hw
            cases hs : symTarget a (cur ++ [x]) with
            | some t =>
              simp only [hs] at hw ⊢
              by_cases hcond : p = [] ∧ follow = false
              · rw [if_pos hcond] at hw ⊢; exact hw
              · rw [if_neg hcond] at hw ⊢; exact ih _ _ _ e hw hL
            | none =>
              simp only [hs, Bool.true_eq_false, if_false] at hw ⊢
              cases e' with
              | dir m => simp only [] at hw ⊢; exact ih _ _ _ e hw hL
              | ref i => simp only [] at hw ⊢; exact hw

theorem look_none_below {fs : FS} (hwf : WF fs) :
    ∀ (r : Path) (L : Path), fs.look L = none → fs.look (L ++ r) = none
  | [], L, h => by simpa using h
  | x :: r, L, h => by
    have := look_none_below hwf r (L ++ [x]) (look_child_none hwf h x)
    simpa using this

section Fallback
variable {dest : Path} {cfg : Cfg}

/-- `os.mkdir(q/c)` inside `makedirs` creates a prefix of what the whole path resolves to -/
theorem kMkdir_missing_onlyNew {a : FS} (hinv : Inv dest a) {q rest : List Name} {c : Name}
    (hrest : ∀ x ∈ rest, Plain x) {P : Path}
    (hP : walk a false true cfg.fuel [] (q ++ [c] ++ rest) = .ok P) (mode : Nat) :
    OnlyNew P a (kMkdir a cfg (q ++ [c]) mode).1 := by
  unfold kMkdir kres
  cases hk : walk a true false cfg.fuel [] (q ++ [c]) with
  | error e => exact OnlyNew.refl _ _
  | ok L =>
    simp only []
    cases hl : a.look L with
    | some e => exact OnlyNew.refl _ _
    | none =>
      have h1 := walk_nofollow_follow a true _ _ _ _ hk (symTarget_of_look_none hl)
      have h2 := walk_strict_lenient a true _ _ _ _ h1
      have hPL := walk_lenient_append_missing a hinv.wf rest hrest _ _ _ _ _ h2 hl hP
      refine ⟨rfl, fun p => ?_⟩
      by_cases hp : p = L
      · subst hp
        exact Or.inr ⟨hl, hPL ▸ List.prefix_append _ _, ⟨mode, by simp⟩⟩
      · exact Or.inl (by simp [hp])

/-- `os.makedirs(dest/cs)` only adds directories at prefixes of the resolved parent -/
theorem makedirs_onlyNew (hdne : dest ≠ []) (hdp : ∀ c ∈ dest, c ≠ dot ∧ c ≠ dotdot) (hfuel : dest.length ≤ cfg.fuel)
    {ups : List Name} (hups : ∀ c ∈ ups, Plain c) {P : Path} (hPin : Inside dest P) :
    ∀ (k : Nat) (cs rest : List Name) (a : FS), ups = cs ++ rest → Inv dest a →
      walk a false true cfg.fuel [] (dest ++ ups) = .ok P →
      OnlyNew P a (makedirs a cfg k (dest ++ cs)).1 := by
  intro k
  induction k with
  | zero => intro cs rest a _ _ _; exact OnlyNew.refl _ _
  | succ k ih =>
    intro cs rest a hsplit hinv hP
    rcases List.eq_nil_or_concat cs with hcs | ⟨cs', c, hcs⟩
    · subst hcs
      simp only [List.append_nil]
      obtain ⟨dl, hdl⟩ : ∃ x, dest.getLast? = some x := by
        cases h : dest.getLast? with
        | none => exact absurd (List.getLast?_eq_none_iff.mp h) hdne
        | some x => exact ⟨x, rfl⟩
      have hhead : kexists a cfg dest.dropLast = true := by
        have := kexists_dest_prefix (cfg := cfg) hinv hdp hfuel (dest.length - 1)
        rwa [← List.dropLast_eq_take] at this
      have hdl' : dl ≠ dot := (hdp dl (List.mem_of_getLast? hdl)).1
      have hmk : (kMkdir a cfg dest 0o755).1 = a := by
        unfold kMkdir kres
        have := walk_dest_prefix (cfg := cfg) hinv hdp hfuel true false dest.length
        simp only [List.take_length] at this
        rw [this]
        obtain ⟨m, hm⟩ := hinv.destDir
        simp [hm]
      have : (makedirs a cfg (k + 1) dest).1 = a := by
        simp only [makedirs, hdl, hhead, Bool.true_eq_false, and_false, if_false, hdl', hmk]
      rw [this]; exact OnlyNew.refl _ _
    · rw [List.concat_eq_append] at hcs
      subst hcs
      have hrest : ∀ x ∈ rest, Plain x := fun x hx => hups x (by rw [hsplit]; simp [hx])
      have hc : Plain c := hups c (by rw [hsplit]; simp)
      have hlast : (dest ++ (cs' ++ [c])).getLast? = some c := by
        rw [← List.append_assoc]; simp
      have hdrop : (dest ++ (cs' ++ [c])).dropLast = dest ++ cs' := by
        rw [← List.append_assoc]; simp
      simp only [makedirs, hlast, hdrop]
      have hrec : Good dest a (if dest ++ cs' ≠ [] ∧ kexists a cfg (dest ++ cs') = false
          then makedirs a cfg k (dest ++ cs') else (a, KRes.ok)).1 ∧
          OnlyNew P a (if dest ++ cs' ≠ [] ∧ kexists a cfg (dest ++ cs') = false
          then makedirs a cfg k (dest ++ cs') else (a, KRes.ok)).1 := by
        split
        · exact ⟨makedirs_good hdne hdp hfuel hups hPin k cs' (c :: rest) a (by rw [hsplit]; simp) hinv hP,
            ih cs' (c :: rest) a (by rw [hsplit]; simp) hinv hP⟩
        · exact ⟨Good.refl hinv, OnlyNew.refl _ _⟩
      generalize (if dest ++ cs' ≠ [] ∧ kexists a cfg (dest ++ cs') = false
          then makedirs a cfg k (dest ++ cs') else (a, KRes.ok)) = r1 at hrec ⊢
      obtain ⟨a1, res⟩ := r1
      simp only [] at hrec ⊢
      obtain ⟨hg, hon⟩ := hrec
      have hP1 : walk a1 false true cfg.fuel [] (dest ++ cs' ++ [c] ++ rest) = .ok P := by
        rw [← walk_lenient_sameSym hg.2.2 true]
        have : dest ++ cs' ++ [c] ++ rest = dest ++ ups := by rw [hsplit]; simp
        rw [this]; exact hP
      have hmk := kMkdir_missing_onlyNew (cfg := cfg) hg.2.1 hrest hP1 0o755
      have hcd : c ≠ dot := hc.2.1
      cases res <;> simp only [hcd, if_false] <;> first
        | exact hon
        | (rw [← List.append_assoc]; exact hon.trans hmk)

/-- the link's own name, seen as missing by `__checkMember`, is still missing after `makedirs` -/
theorem dst_missing_transport {a a1 : FS} {P : Path} {c : Name} {full : List Name}
    (hwf : WF a) (hon : OnlyNew P a a1)
    (hD : ∀ d, kres a cfg false full = .ok d → a.look d = none)
    (hk1 : kres a1 cfg false full = .ok (P ++ [c])) : a1.look (P ++ [c]) = none := by
  have hsame : a1.look (P ++ [c]) = a.look (P ++ [c]) := by
    rcases hon.2 (P ++ [c]) with h | ⟨_, hpre, _⟩
    · exact h
    · exfalso
      have := hpre.length_le
      simp at this
      omega
  rw [hsame]
  cases hl : a.look (P ++ [c]) with
  | none => rfl
  | some e =>
    exfalso
    have hall : ∀ q, a1.look q = a.look q := by
      intro q
      rcases hon.2 q with h | ⟨hn, hpre, _⟩
      · exact h
      · exfalso
        obtain ⟨r, hr⟩ := hpre
        have := look_none_below hwf (r ++ [c]) q hn
        rw [← List.append_assoc, hr, hl] at this
        cases this
    have hg : Grow a1 a := ⟨hon.1.symm, fun q e' hq => by rw [← hall q]; exact hq⟩
    unfold kres at hk1 hD
    have hw := walk_strict_grow hg false _ _ _ _ e hk1 (by rw [hsame]; exact hl)
    have := hD _ hw
    rw [hl] at this
    cases this

/-- when the link's own path does not resolve, no operation of the re-extraction does anything -/
theorem reextract_nochange {fs : FS} {full : List Name} {e : WErr} (hk : kres fs cfg false full = .error e) :
    ∀ (prev : List Member) (ln : Str),
      (reextract cfg fs full prev ln).1 = fs ∧ (reextract cfg fs full prev ln).2 ≠ none := by
  have hmk : ∀ mode, kMkdir fs cfg full mode = (fs, .fail) := by
    intro mode; simp [kMkdir, hk]
  have hmn : ∀ o, kMknod fs cfg full o = (fs, .fail) := by
    intro o; simp [kMknod, hk]
  have hsy : ∀ t, kSymlink fs cfg full t = (fs, .unsup) := by
    intro t; unfold kSymlink; split <;> simp [hk]
  intro prev
  induction prev with
  | nil => intro ln; simp [reextract]
  | cons t before ih =>
    intro ln
    rw [reextract]
    split
    · exact ih ln
    · cases ht : t.type with
      | reg => simp
      | dir => simp [hmk]
      | sym => simp [hsy]
      | fifo => simp [hmn]
      | chr => simp [hmn]
      | lnk =>
        simp only []
        obtain ⟨h1, h2⟩ := ih t.linkname
        generalize reextract cfg fs full before t.linkname = r at h1 h2 ⊢
        obtain ⟨rf, re⟩ := r
        simp only [] at h1 h2 ⊢
        subst h1
        cases re with
        | none => exact absurd rfl h2
        | some e' => cases e' <;> simp

theorem linkFallback_nochange {fs : FS} {full : List Name} {e : WErr} (hk : kres fs cfg false full = .error e)
    (prev : List Member) (m : Member) (nf : Err) : (linkFallback cfg fs full prev m nf).1 = fs := by
  unfold linkFallback
  obtain ⟨h1, h2⟩ := reextract_nochange hk prev m.linkname
  generalize reextract cfg fs full prev m.linkname = r at h1 h2 ⊢
  obtain ⟨rf, re⟩ := r
  simp only [] at h1 h2 ⊢
  subst h1
  cases re with
  | none => exact absurd rfl h2
  | some e' => cases e' <;> simp

end Fallback
end TarExtract
