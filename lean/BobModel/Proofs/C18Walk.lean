import BobModel.Proofs.C18Result
/-
Helper lemmas for C18 (completeness of the result walk): on an acyclic graph `__findResultNodes`
reports every selected package that is connected to the root inside `valid`; the depth fuel
`size + 1` suffices.
-/
namespace PathSpec

/-- a real path yields a chain of the same length -/
theorem pathWithin_chain {g : Graph} {valid : List Node} :
    ∀ (s : List Str) (a b : Node), PathWithin g valid a s b → ∃ l, Chain g a l ∧ l.length = s.length
  | [], a, b, _ => ⟨[], trivial, rfl⟩
  | nm :: rest, a, b, h => by
    simp only [PathWithin] at h
    obtain ⟨e, he, _, _, hr⟩ := h
    obtain ⟨l, hl, hlen⟩ := pathWithin_chain rest e.node b hr
    exact ⟨e.node :: l, ⟨⟨e, he, rfl, Or.inl rfl⟩, hl⟩, by simp [hlen]⟩

theorem pathWithin_length_le {g : Graph} (hwf : g.WF) (hac : g.Acyclic) {valid : List Node}
    (s : List Str) (a b : Node) (h : PathWithin g valid a s b) : s.length ≤ g.size := by
  obtain ⟨l, hl, hlen⟩ := pathWithin_chain s a b h
  rw [← hlen]
  exact chain_length_le hwf hac l a hl

/-! ### `queryAll = True`: every path inside `valid` is reported -/

theorem findResultNodes_all (g : Graph) :
    ∀ (fuel : Nat) (node : Node) (stack : List Str) (st : RState),
      (findResultNodes g true fuel node stack st).valid = st.valid ∧
      (findResultNodes g true fuel node stack st).result = st.result ∧
      (∀ p ∈ st.out, p ∈ (findResultNodes g true fuel node stack st).out) ∧
      (∀ (s : List Str) (x : Node), PathWithin g st.valid node s x → x ∈ st.result → s.length < fuel →
        (stack ++ s, x) ∈ (findResultNodes g true fuel node stack st).out) := by
  intro fuel
  induction fuel with
  | zero =>
    intro node stack st
    refine ⟨rfl, rfl, fun _ h => h, ?_⟩
    intro s x _ _ h; omega
  | succ fuel ih =>
    intro node stack st
    simp only [findResultNodes, if_true, Bool.not_true, Bool.and_false, Bool.false_eq_true, if_false]
    generalize hout : (if st.result.contains node = true then st.out ++ [(stack, node)] else st.out) = out1
    have hout_mono : ∀ p ∈ st.out, p ∈ out1 := by
      intro p hp; rw [← hout]; split
      · exact List.mem_append_left _ hp
      · exact hp
    -- the loop keeps valid/result and only appends
    have hloop : ∀ (kids : List Edge) (s0 : RState), s0.valid = st.valid → s0.result = st.result →
        (kids.foldl (fun st c => findResultNodes g true fuel c.node (stack ++ [c.name]) st) s0).valid = st.valid ∧
        (kids.foldl (fun st c => findResultNodes g true fuel c.node (stack ++ [c.name]) st) s0).result = st.result ∧
        (∀ p ∈ s0.out, p ∈ (kids.foldl (fun st c => findResultNodes g true fuel c.node (stack ++ [c.name]) st) s0).out) ∧
        (∀ c ∈ kids, ∀ (s : List Str) (x : Node), PathWithin g st.valid c.node s x → x ∈ st.result → s.length < fuel →
          (stack ++ [c.name] ++ s, x) ∈
            (kids.foldl (fun st c => findResultNodes g true fuel c.node (stack ++ [c.name]) st) s0).out) := by
      intro kids
      induction kids with
      | nil => intro s0 hv hr; exact ⟨hv, hr, fun _ h => h, by simp⟩
      | cons c cs ihk =>
        intro s0 hv hr
        simp only [List.foldl_cons]
        obtain ⟨h1v, h1r, h1o, h1p⟩ := ih c.node (stack ++ [c.name]) s0
        obtain ⟨h2v, h2r, h2o, h2p⟩ := ihk (findResultNodes g true fuel c.node (stack ++ [c.name]) s0)
          (by rw [h1v, hv]) (by rw [h1r, hr])
        refine ⟨h2v, h2r, fun p hp => h2o p (h1o p hp), ?_⟩
        intro c' hc' s x hp hx hlen
        rcases List.mem_cons.mp hc' with rfl | hc''
        · apply h2o
          exact h1p s x (by rw [hv]; exact hp) (by rw [hr]; exact hx) hlen
        · exact h2p c' hc'' s x hp hx hlen
    obtain ⟨hv, hr, ho, hp⟩ := hloop (sortByName ((g.children node).filter (fun c => st.valid.contains c.node)))
      { out := out1, result := st.result, valid := st.valid } rfl rfl
    refine ⟨hv, hr, fun p hp' => ho p (hout_mono p hp'), ?_⟩
    intro s x hpath hx hlen
    cases s with
    | nil =>
      simp only [PathWithin] at hpath
      subst hpath
      apply ho
      have : st.result.contains node = true := by simpa using hx
      rw [← hout, if_pos this]
      simp
    | cons nm rest =>
      simp only [PathWithin] at hpath
      obtain ⟨e, he, hname, hev, hrest⟩ := hpath
      have hek : e ∈ sortByName ((g.children node).filter (fun c => st.valid.contains c.node)) := by
        rw [mem_sortByName]
        simp only [List.mem_filter, List.contains_eq_mem, decide_eq_true_eq]
        exact ⟨he, hev⟩
      have := hp e hek rest x hrest hx (by simp at hlen; omega)
      rw [hname] at this
      simpa using this

/-! ### `queryAll = False`: the walk is a depth first search that consumes `valid` and `result` -/

/-- post-condition of one call of the walk with `queryAll = False` -/
structure WalkPost (g : Graph) (st st' : RState) : Prop where
  valid_sub : ∀ x ∈ st'.valid, x ∈ st.valid
  result_sub : ∀ x ∈ st'.result, x ∈ st.result
  out_sub : ∀ p ∈ st.out, p ∈ st'.out
  /-- a node that left `valid` has left `result`, and so have its children left `valid` -/
  black : ∀ y ∈ st.valid, y ∉ st'.valid →
    y ∉ st'.result ∧ ∀ e ∈ g.children y, e.node ∈ st.valid → e.node ∉ st'.valid
  /-- a selected node is still selected or has been reported -/
  kept : ∀ x ∈ st.result, x ∈ st'.result ∨ ∃ s, (s, x) ∈ st'.out

theorem walkPost_refl (g : Graph) (st : RState) : WalkPost g st st :=
  ⟨fun _ h => h, fun _ h => h, fun _ h => h, fun _ h hn => absurd h hn, fun _ h => Or.inl h⟩

theorem walkPost_trans {g : Graph} {a b c : RState} (h1 : WalkPost g a b) (h2 : WalkPost g b c) :
    WalkPost g a c := by
  refine ⟨fun x h => h1.valid_sub x (h2.valid_sub x h), fun x h => h1.result_sub x (h2.result_sub x h),
    fun p h => h2.out_sub p (h1.out_sub p h), ?_, ?_⟩
  · intro y hy hyc
    by_cases hyb : y ∈ b.valid
    · obtain ⟨hr, hch⟩ := h2.black y hyb hyc
      refine ⟨hr, ?_⟩
      intro e he hea
      by_cases heb : e.node ∈ b.valid
      · exact hch e he heb
      · intro hec; exact heb (h2.valid_sub _ hec)
    · obtain ⟨hr, hch⟩ := h1.black y hy hyb
      refine ⟨fun h => hr (h2.result_sub _ h), ?_⟩
      intro e he hea hec
      exact hch e he hea (h2.valid_sub _ hec)
  · intro x hx
    rcases h1.kept x hx with h | ⟨s, hs⟩
    · exact h2.kept x h
    · exact Or.inr ⟨s, h2.out_sub _ hs⟩

theorem findResultNodes_first (g : Graph) :
    ∀ (fuel : Nat) (node : Node) (stack : List Str) (st : RState), Shallow g node fuel →
      WalkPost g st (findResultNodes g false fuel node stack st) ∧
      node ∉ (findResultNodes g false fuel node stack st).valid ∧
      node ∉ (findResultNodes g false fuel node stack st).result ∧
      (∀ e ∈ g.children node, e.node ∈ st.valid → e.node ∉ (findResultNodes g false fuel node stack st).valid) := by
  intro fuel
  induction fuel with
  | zero =>
    intro node stack st hsh
    have := hsh [] trivial
    simp at this
  | succ fuel ih =>
    intro node stack st hsh
    simp only [findResultNodes, Bool.false_eq_true, if_false, Bool.not_false, Bool.and_true]
    generalize hvalid : st.valid.filter (fun x => x != node) = valid1
    generalize hres : (if st.result.contains node = true then st.result.filter (fun x => x != node)
      else st.result) = result1
    generalize hout : (if st.result.contains node = true then st.out ++ [(stack, node)] else st.out) = out1
    have hv1 : ∀ x, x ∈ valid1 ↔ x ∈ st.valid ∧ x ≠ node := by
      intro x; rw [← hvalid]; simp [List.mem_filter]
    have hr1 : ∀ x, x ∈ result1 ↔ x ∈ st.result ∧ x ≠ node := by
      intro x; rw [← hres]
      split
      · simp [List.mem_filter]
      · rename_i hc
        have hc' : node ∉ st.result := by simpa using hc
        constructor
        · intro hx; exact ⟨hx, fun h => hc' (h ▸ hx)⟩
        · intro hx; exact hx.1
    have hout1 : ∀ p ∈ st.out, p ∈ out1 := by
      intro p hp; rw [← hout]; split
      · exact List.mem_append_left _ hp
      · exact hp
    -- the loop over the children
    have hloop : ∀ (kids : List Edge) (s0 : RState), (∀ c ∈ kids, c ∈ g.children node) →
        WalkPost g s0 (kids.foldl (fun st c => findResultNodes g false fuel c.node (stack ++ [c.name]) st) s0) ∧
        ∀ c ∈ kids, c.node ∉ (kids.foldl (fun st c => findResultNodes g false fuel c.node (stack ++ [c.name]) st) s0).valid := by
      intro kids
      induction kids with
      | nil => intro s0 _; exact ⟨walkPost_refl g s0, by simp⟩
      | cons c cs ihk =>
        intro s0 hk
        simp only [List.foldl_cons]
        have hc := hk c (List.mem_cons.mpr (Or.inl rfl))
        obtain ⟨hp1, hn1, _, _⟩ := ih c.node (stack ++ [c.name]) s0 (shallow_child hsh hc)
        obtain ⟨hp2, hn2⟩ := ihk (findResultNodes g false fuel c.node (stack ++ [c.name]) s0)
          (fun c' hc' => hk c' (List.mem_cons_of_mem _ hc'))
        refine ⟨walkPost_trans hp1 hp2, ?_⟩
        intro c' hc'
        rcases List.mem_cons.mp hc' with rfl | hc''
        · intro h; exact hn1 (hp2.valid_sub _ h)
        · exact hn2 c' hc''
    obtain ⟨hpost, hkids⟩ := hloop (sortByName ((g.children node).filter (fun c => valid1.contains c.node)))
      { out := out1, result := result1, valid := valid1 }
      (by intro c hc; exact (List.mem_filter.mp (mem_sortByName.mp hc)).1)
    generalize hfin : (sortByName ((g.children node).filter (fun c => valid1.contains c.node))).foldl
      (fun st c => findResultNodes g false fuel c.node (stack ++ [c.name]) st)
      { out := out1, result := result1, valid := valid1 } = fin at hpost hkids
    have hnodev : node ∉ fin.valid := fun h => ((hv1 node).mp (hpost.valid_sub _ h)).2 rfl
    have hnoder : node ∉ fin.result := fun h => ((hr1 node).mp (hpost.result_sub _ h)).2 rfl
    have hchildren : ∀ e ∈ g.children node, e.node ∈ st.valid → e.node ∉ fin.valid := by
      intro e he hev
      by_cases hen : e.node = node
      · rw [hen]; exact hnodev
      · apply hkids e
        rw [mem_sortByName]
        simp only [List.mem_filter, List.contains_eq_mem, decide_eq_true_eq]
        exact ⟨he, (hv1 _).mpr ⟨hev, hen⟩⟩
    refine ⟨⟨?_, ?_, ?_, ?_, ?_⟩, hnodev, hnoder, hchildren⟩
    · intro x hx; exact ((hv1 x).mp (hpost.valid_sub x hx)).1
    · intro x hx; exact ((hr1 x).mp (hpost.result_sub x hx)).1
    · intro p hp; exact hpost.out_sub p (hout1 p hp)
    · intro y hy hyn
      by_cases hyeq : y = node
      · subst hyeq
        exact ⟨hnoder, hchildren⟩
      · obtain ⟨hr, hch⟩ := hpost.black y ((hv1 y).mpr ⟨hy, hyeq⟩) hyn
        refine ⟨hr, ?_⟩
        intro e he hev
        by_cases hen : e.node = node
        · rw [hen]; exact hnodev
        · exact hch e he ((hv1 _).mpr ⟨hev, hen⟩)
    · intro x hx
      by_cases hxn : x = node
      · subst hxn
        right
        refine ⟨stack, hpost.out_sub _ ?_⟩
        have : st.result.contains x = true := by simpa using hx
        rw [← hout, if_pos this]
        simp
      · exact hpost.kept x ((hr1 x).mpr ⟨hx, hxn⟩)

/-- with `queryAll = False` every selected node that is connected to `root` inside `valid` is reported -/
theorem findResultNodes_first_complete (g : Graph) (fuel : Nat) (root : Node) (nodes valid : List Node)
    (hsh : Shallow g root fuel) :
    ∀ (s : List Str) (n : Node), PathWithin g valid root s n → n ∈ nodes →
      ∃ s', (s', n) ∈ (findResultNodes g false fuel root [] { out := [], result := nodes, valid := valid }).out := by
  obtain ⟨hpost, hrv, hrr, hrc⟩ := findResultNodes_first g fuel root [] { out := [], result := nodes, valid := valid } hsh
  generalize findResultNodes g false fuel root [] { out := [], result := nodes, valid := valid } = fin at hpost hrv hrr hrc
  -- every node on a path inside `valid` is the root or has left `valid`
  have hblack : ∀ (s : List Str) (a n : Node), (a = root ∨ (a ∈ valid ∧ a ∉ fin.valid)) →
      PathWithin g valid a s n → (n = root ∨ (n ∈ valid ∧ n ∉ fin.valid)) := by
    intro s
    induction s with
    | nil => intro a n ha hp; simp only [PathWithin] at hp; subst hp; exact ha
    | cons nm rest ihs =>
      intro a n ha hp
      simp only [PathWithin] at hp
      obtain ⟨e, he, _, hev, hr⟩ := hp
      apply ihs e.node n _ hr
      right
      refine ⟨hev, ?_⟩
      rcases ha with rfl | ⟨hav, hafin⟩
      · exact hrc e he hev
      · exact (hpost.black a hav hafin).2 e he hev
  intro s n hp hn
  have hnr : n ∉ fin.result := by
    rcases hblack s root n (Or.inl rfl) hp with rfl | ⟨hv, hfin⟩
    · exact hrr
    · exact (hpost.black n hv hfin).1
  rcases hpost.kept n hn with h | h
  · exact absurd h hnr
  · exact h

end PathSpec
