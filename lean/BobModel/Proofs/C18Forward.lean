import BobModel.Proofs.C18Eval
/-
Helper lemmas for C18: the loop of `LocationPath.evalForward`: node sets, empty modes.
-/
namespace PathSpec

/-- the update of `valid` in one round of the loop -/
def preValid (g : Graph) (old valid nodes : List Node) : Option Bool → List Node
  | some qi => union valid (findIntermediateNodes g old nodes qi)
  | none => union valid nodes

def nextValid (g : Graph) (old valid nodes : List Node) (search : Option Bool) : List Node :=
  inter (union (preValid g old valid nodes search) nodes)
    (findReachableSubset g (union (preValid g old valid nodes search) nodes) nodes)

theorem forwardLoop_cons (g : Graph) (mode : Mode) (ax : Axis) (test : Str) (op : OptPred) (rest : Steps)
    (old valid : List Node) (wc : Bool) :
    forwardLoop g mode (.cons ax test op rest) old valid wc =
      if (stepForward g ax test op old).1.isEmpty && mode != .nullset && !(wc || (stepForward g ax test op old).2.2)
      then .error .notFound
      else if (stepForward g ax test op old).1.isEmpty && mode != .nullset && mode == .nullfail then .error .noMatch
      else forwardLoop g mode rest (stepForward g ax test op old).1
        (nextValid g old valid (stepForward g ax test op old).1 (stepForward g ax test op old).2.1)
        (wc || (stepForward g ax test op old).2.2) := by
  rfl

theorem stepForward_cq (g : Graph) (ax : Axis) (test : Str) (op : OptPred) (old : List Node) :
    (stepForward g ax test op old).2.2 = stepComplex ax test op := by
  have hstar : (test == star) = true → test.contains '*' = true := by
    intro h
    have : test = star := by simpa using h
    subst this
    decide
  have hSD : (axisForward g ax old).2.isSome =
      (ax == .descendant || ax == .descendantOrSelf || ax == .directDescendant || ax == .directDescendantOrSelf) := by
    cases ax <;> rfl
  simp only [stepForward, stepComplex, hSD]
  by_cases h1 : (test == star) = true
  · rw [if_pos h1, hstar h1]; simp
  · rw [if_neg h1]
    by_cases h2 : test.contains '*' = true
    · rw [if_pos h2, h2]; simp
    · have h2' : test.contains '*' = false := by simpa using h2
      rw [if_neg h2, h2']
      cases (ax == Axis.descendant || ax == Axis.descendantOrSelf || ax == Axis.directDescendant ||
        ax == Axis.directDescendantOrSelf) <;> cases op.isSome <;> rfl

/-- the one-step meaning used below -/
theorem sem_cons_iff {g : Graph} (hwf : g.WF) {ax : Axis} {test : Str} {op : OptPred} {rest : Steps}
    {old : List Node} (hold : ∀ a ∈ old, a < g.size) (m : Node) :
    (∃ a ∈ old, sem g (.cons ax test op rest) a m) ↔
      ∃ c ∈ (stepForward g ax test op old).1, sem g rest c m := by
  constructor
  · rintro ⟨a, ha, h⟩
    simp only [sem] at h
    obtain ⟨c, hax, hname, hop, hrest⟩ := h
    exact ⟨c, (mem_stepForward hwf hold).mpr ⟨a, ha, hax, hname, hop⟩, hrest⟩
  · rintro ⟨c, hc, hrest⟩
    obtain ⟨a, ha, hax, hname, hop⟩ := (mem_stepForward hwf hold).mp hc
    exact ⟨a, ha, by simp only [sem]; exact ⟨c, hax, hname, hop, hrest⟩⟩

/-- the node set returned by the loop is the step-by-step set -/
theorem forwardLoop_nodes {g : Graph} (hwf : g.WF) (mode : Mode) :
    ∀ (steps : Steps) (old valid : List Node) (wc : Bool) (nodes v : List Node),
      (∀ a ∈ old, a < g.size) → forwardLoop g mode steps old valid wc = .ok (nodes, v) →
      ∀ m, m ∈ nodes ↔ ∃ a ∈ old, sem g steps a m
  | .nil, old, valid, wc, nodes, v, _, h, m => by
    simp only [forwardLoop, Except.ok.injEq, Prod.mk.injEq] at h
    obtain ⟨rfl, _⟩ := h
    simp [sem]
  | .cons ax test op rest, old, valid, wc, nodes, v, hold, h, m => by
    rw [forwardLoop_cons] at h
    split at h
    · cases h
    · split at h
      · cases h
      · rw [forwardLoop_nodes hwf mode rest _ _ _ nodes v (stepForward_lt hwf hold) h m]
        exact (sem_cons_iff hwf hold m).symm

/-- `nullset` never raises -/
theorem forwardLoop_nullset (g : Graph) :
    ∀ (steps : Steps) (old valid : List Node) (wc : Bool), ∃ r, forwardLoop g .nullset steps old valid wc = .ok r
  | .nil, old, valid, wc => ⟨_, rfl⟩
  | .cons ax test op rest, old, valid, wc => by
    rw [forwardLoop_cons]
    simp only [bne_self_eq_false, Bool.and_false, Bool.false_and, Bool.false_eq_true, if_false]
    exact forwardLoop_nullset g rest _ _ _

/-- `nullglob` never raises "matched no packages" -/
theorem forwardLoop_nullglob_noMatch (g : Graph) :
    ∀ (steps : Steps) (old valid : List Node) (wc : Bool), forwardLoop g .nullglob steps old valid wc ≠ .error .noMatch
  | .nil, old, valid, wc => by simp [forwardLoop]
  | .cons ax test op rest, old, valid, wc => by
    rw [forwardLoop_cons]
    split
    · simp
    · split
      · rename_i h; simp at h
      · exact forwardLoop_nullglob_noMatch g rest _ _ _

theorem isEmpty_iff_forall {l : List Node} : l.isEmpty = true ↔ ∀ m, m ∉ l := by
  cases l with
  | nil => simp
  | cons x xs =>
    constructor
    · intro h; simp at h
    · intro h; exact absurd (List.mem_cons.mpr (Or.inl rfl)) (h x)

/-- "Package not found" is raised exactly if some prefix of the path consists of simple steps
only and already selects nothing -/
theorem forwardLoop_notFound {g : Graph} (hwf : g.WF) (mode : Mode) (hmode : mode ≠ .nullset) :
    ∀ (steps : Steps) (old valid : List Node) (wc : Bool),
      (∀ a ∈ old, a < g.size) → (wc = false → old ≠ []) →
      (forwardLoop g mode steps old valid wc = .error .notFound ↔
        wc = false ∧ ∃ k, (steps.take k).anyComplex = false ∧ ∀ m, ¬ ∃ a ∈ old, sem g (steps.take k) a m)
  | .nil, old, valid, wc, _, hne => by
    constructor
    · intro h; simp [forwardLoop] at h
    · rintro ⟨hwc, k, _, hem⟩
      exfalso
      obtain ⟨a, ha⟩ := List.exists_mem_of_ne_nil _ (hne hwc)
      apply hem a
      cases k <;> exact ⟨a, ha, by simp [Steps.take, sem]⟩
  | .cons ax test op rest, old, valid, wc, hold, hne => by
    have hmode' : (mode != Mode.nullset) = true := by simpa using hmode
    rw [forwardLoop_cons, stepForward_cq]
    simp only [hmode', Bool.and_true, Bool.true_and]
    have hstep : ∀ (k : Nat) (m : Node),
        (∃ a ∈ old, sem g (Steps.cons ax test op (rest.take k)) a m) ↔
          ∃ c ∈ (stepForward g ax test op old).1, sem g (rest.take k) c m := fun k m => sem_cons_iff hwf hold m
    by_cases hE : (stepForward g ax test op old).1.isEmpty = true
    · simp only [hE, Bool.true_and]
      by_cases hC : (wc || stepComplex ax test op) = true
      · -- complex so far: either "no match" or the loop goes on with wasComplex = true
        simp only [hC, Bool.not_true, Bool.false_eq_true, if_false]
        have hrhs : ¬ (wc = false ∧ ∃ k, ((Steps.cons ax test op rest).take k).anyComplex = false ∧
            ∀ m, ¬ ∃ a ∈ old, sem g ((Steps.cons ax test op rest).take k) a m) := by
          rintro ⟨hwc, k, hk, hem⟩
          cases k with
          | zero =>
            obtain ⟨a, ha⟩ := List.exists_mem_of_ne_nil _ (hne hwc)
            exact hem a ⟨a, ha, by simp [Steps.take, sem]⟩
          | succ k =>
            simp only [Steps.take, Steps.anyComplex, Bool.or_eq_false_iff] at hk
            rw [hwc, hk.1] at hC
            simp at hC
        split
        · constructor
          · intro h; cases h
          · intro h; exact absurd h hrhs
        · rw [forwardLoop_notFound hwf mode hmode rest _ _ _ (stepForward_lt hwf hold)
            (by intro h; exact Bool.noConfusion h)]
          constructor
          · rintro ⟨h, _⟩; exact Bool.noConfusion h
          · intro h; exact absurd h hrhs
      · -- simple so far and empty: raise
        have hC' : (wc || stepComplex ax test op) = false := by simpa using hC
        simp only [hC', Bool.not_false, if_true, true_iff]
        simp only [Bool.or_eq_false_iff] at hC'
        refine ⟨hC'.1, 1, by simp [Steps.take, Steps.anyComplex, hC'.2], ?_⟩
        intro m hm
        obtain ⟨c, hc, _⟩ := (hstep 0 m).mp (by simpa [Steps.take] using hm)
        exact (isEmpty_iff_forall.mp hE) c hc
    · -- not empty: next round
      have hE' : (stepForward g ax test op old).1.isEmpty = false := by simpa using hE
      simp only [hE', Bool.false_and, Bool.false_eq_true, if_false]
      have hne' : (wc || stepComplex ax test op) = false → (stepForward g ax test op old).1 ≠ [] := by
        intro _ h; rw [h] at hE'; simp at hE'
      rw [forwardLoop_notFound hwf mode hmode rest _ _ _ (stepForward_lt hwf hold) hne']
      constructor
      · rintro ⟨hwc', k, hk, hem⟩
        simp only [Bool.or_eq_false_iff] at hwc'
        refine ⟨hwc'.1, k + 1, by simp [Steps.take, Steps.anyComplex, hwc'.2, hk], ?_⟩
        intro m hm
        simp only [Steps.take] at hm
        exact hem m ((hstep k m).mp hm)
      · rintro ⟨hwc, k, hk, hem⟩
        cases k with
        | zero =>
          obtain ⟨a, ha⟩ := List.exists_mem_of_ne_nil _ (hne hwc)
          exact absurd ⟨a, ha, by simp [Steps.take, sem]⟩ (hem a)
        | succ k =>
          simp only [Steps.take, Steps.anyComplex, Bool.or_eq_false_iff] at hk
          refine ⟨by simp [hwc, hk.1], k, hk.2, ?_⟩
          intro m hm
          exact hem m (by simp only [Steps.take]; exact (hstep k m).mpr hm)

/-- `nullfail` raises exactly if the path selects nothing -/
theorem forwardLoop_nullfail {g : Graph} (hwf : g.WF) :
    ∀ (steps : Steps) (old valid : List Node) (wc : Bool),
      (∀ a ∈ old, a < g.size) → old ≠ [] →
      ((∃ e, forwardLoop g .nullfail steps old valid wc = .error e) ↔ ∀ m, ¬ ∃ a ∈ old, sem g steps a m)
  | .nil, old, valid, wc, _, hne => by
    obtain ⟨a, ha⟩ := List.exists_mem_of_ne_nil _ hne
    constructor
    · rintro ⟨e, he⟩; simp [forwardLoop] at he
    · intro h; exact absurd ⟨a, ha, by simp [sem]⟩ (h a)
  | .cons ax test op rest, old, valid, wc, hold, hne => by
    rw [forwardLoop_cons]
    have hstep : ∀ m, (∃ a ∈ old, sem g (Steps.cons ax test op rest) a m) ↔
        ∃ c ∈ (stepForward g ax test op old).1, sem g rest c m := fun m => sem_cons_iff hwf hold m
    by_cases hE : (stepForward g ax test op old).1.isEmpty = true
    · have hall := isEmpty_iff_forall.mp hE
      have hrhs : ∀ m, ¬ ∃ a ∈ old, sem g (Steps.cons ax test op rest) a m := by
        intro m hm
        obtain ⟨c, hc, _⟩ := (hstep m).mp hm
        exact hall c hc
      simp only [hE, Bool.true_and]
      constructor
      · intro _; exact hrhs
      · intro _
        by_cases hC : (wc || (stepForward g ax test op old).2.2) = true
        · exact ⟨.noMatch, by simp [hC]⟩
        · exact ⟨.notFound, by simp [hC]⟩
    · have hE' : (stepForward g ax test op old).1.isEmpty = false := by simpa using hE
      simp only [hE', Bool.false_and, Bool.false_eq_true, if_false]
      have hne' : (stepForward g ax test op old).1 ≠ [] := by
        intro h; rw [h] at hE'; simp at hE'
      rw [forwardLoop_nullfail hwf rest _ _ _ (stepForward_lt hwf hold) hne']
      constructor
      · intro h m hm; exact h m ((hstep m).mp hm)
      · intro h m hm; exact h m ((hstep m).mpr hm)

end PathSpec
