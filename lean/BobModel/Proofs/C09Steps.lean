import BobModel.Proofs.C09Inv
/-
Helper lemmas for Props/C09.lean: what a single step can do to the name table, lifted to schedules.
-/
namespace ArchiveFS
variable {prog : Pid → Params} {s : State}

theorem run_append (prog : Pid → Params) (s : State) (a b : Sched) :
    run prog s (a ++ b) = run prog (run prog s a) b := by
  induction a generalizing s with
  | nil => rfl
  | cons x rest ih => simp [run, ih]

theorem step_art_stable (h : Inv prog s) (p : Pid) (c : Choice) (i : Ino) (ha : s.names .art = some i) :
    (step prog s p c).names .art = some i ∧ (step prog s p c).inodes i = s.inodes i := by
  unfold step
  split
  · exact ⟨ha, rfl⟩
  · cases c with
    | run => exact ⟨exec_art_stable i ha, exec_art_inode_stable h i ha⟩
    | fail => exact ⟨exec_art_stable i ha, exec_art_inode_stable h i ha⟩
    | kill => exact ⟨ha, rfl⟩

theorem run_art_stable (h : Inv prog s) (sched : Sched) (i : Ino) (ha : s.names .art = some i) :
    (run prog s sched).names .art = some i ∧ (run prog s sched).inodes i = s.inodes i := by
  induction sched generalizing s with
  | nil => exact ⟨ha, rfl⟩
  | cons x rest ih =>
    have h1 := step_art_stable h x.1 x.2 i ha
    have h2 := ih (step_inv x.1 x.2 h) h1.1
    exact ⟨h2.1, h2.2.trans h1.2⟩

/-- the process will never publish: it was killed, is on the failure edge of `__exit__`, has lost the
race, or has returned -/
def gaveUp (q : Proc) : Bool :=
  q.killed ||
  match q.pc with
  | .fClose | .fUnlink | .done _ | .close false | .unlink .lost | .unlink .err => true
  | _ => false

theorem exec_gaveUp (pr : Params) (p p' : Pid) (f : Bool) (hk : (s.procs p).killed = false)
    (hg : gaveUp (s.procs p') = true) (hl : (s.procs p').linked = false) :
    gaveUp ((exec pr s p f).procs p') = true ∧ ((exec pr s p f).procs p').linked = false := by
  by_cases hp : p' = p
  · subst hp
    revert hg hl hk
    unfold exec gaveUp
    split <;> simp only [setPc, modInode, afterFetch] <;> (repeat' split) <;> simp_all [upd_apply]
  · rw [exec_procs_ne _ hp]; exact ⟨hg, hl⟩

theorem step_gaveUp (p p' : Pid) (c : Choice)
    (hg : gaveUp (s.procs p') = true) (hl : (s.procs p').linked = false) :
    gaveUp ((step prog s p c).procs p') = true ∧ ((step prog s p c).procs p').linked = false := by
  unfold step
  split
  · exact ⟨hg, hl⟩
  · cases c with
    | run => exact exec_gaveUp _ p p' false (by simp_all) hg hl
    | fail => exact exec_gaveUp _ p p' true (by simp_all) hg hl
    | kill =>
      simp only [upd_apply]
      split
      · subst_vars; simp_all [gaveUp]
      · exact ⟨hg, hl⟩

theorem run_gaveUp (sched : Sched) (p' : Pid)
    (hg : gaveUp (s.procs p') = true) (hl : (s.procs p').linked = false) :
    gaveUp ((run prog s sched).procs p') = true ∧ ((run prog s sched).procs p').linked = false := by
  induction sched generalizing s with
  | nil => exact ⟨hg, hl⟩
  | cons x rest ih =>
    have h1 := step_gaveUp (prog := prog) x.1 p' x.2 hg hl
    exact ih h1.1 h1.2

theorem overwrite_kind (k : Kind) (h : overwrite k = true) : ∃ x, k = .md x := by
  cases k <;> simp_all [overwrite, Consts.C09.overwritePackage, Consts.C09.overwriteCache]

/-- a step rebinds an already bound name only by `replace()`, and then the name is a metadata name and
the acting process is a metadata uploader; a binding is removed only from a temporary name -/
theorem exec_rebind (h : Inv prog s) (p : Pid) (f : Bool) (n : Name) (i : Ino) (hn : s.names n = some i) :
    (∀ j, (exec (prog p) s p f).names n = some j → j ≠ i →
      ∃ x, n = .md x ∧ (prog p).kind = .md x ∧ (s.procs p).pc = .publish) ∧
    ((exec (prog p) s p f).names n = none → ∃ k, n = .tmp k) := by
  have h1 := overwrite_kind (prog p).kind
  have h2 := h.tmp_lt
  unfold exec
  split <;> simp only [setPc, modInode] <;> (repeat' split) <;> simp_all [upd_apply] <;> grind [dest]

theorem step_rebind (h : Inv prog s) (p : Pid) (c : Choice) (n : Name) (i : Ino) (hn : s.names n = some i) :
    (∀ j, (step prog s p c).names n = some j → j ≠ i →
      ∃ x, n = .md x ∧ (prog p).kind = .md x ∧ (s.procs p).pc = .publish) ∧
    ((step prog s p c).names n = none → ∃ k, n = .tmp k) := by
  unfold step
  split
  · simp_all
  · cases c with
    | run => exact exec_rebind h p false n i hn
    | fail => exact exec_rebind h p true n i hn
    | kill => simp_all

/-- `linked` is set by nothing but a successful link()/replace() of the process itself -/
theorem step_sets_linked (p p' : Pid) (c : Choice)
    (h0 : (s.procs p').linked = false) (h1 : ((step prog s p c).procs p').linked = true) :
    p' = p ∧ c = .run ∧ (s.procs p).pc = .publish ∧ (s.procs p).killed = false ∧
    (step prog s p c).names (dest (prog p).kind) = some (s.procs p).ino := by
  have hd := dest_ne_tmp (prog p).kind
  revert h1
  unfold step
  split
  · simp_all
  · cases c with
    | kill => simp only [upd_apply]; split <;> simp_all
    | run =>
      by_cases hp : p' = p
      · subst hp
        unfold exec
        split <;> simp only [setPc, modInode, afterFetch] <;> (repeat' split) <;> simp_all [upd_apply] <;> grind
      · rw [exec_procs_ne _ hp]; simp_all
    | fail =>
      by_cases hp : p' = p
      · subst hp
        unfold exec
        split <;> simp only [setPc, modInode, afterFetch] <;> (repeat' split) <;> simp_all [upd_apply]
      · rw [exec_procs_ne _ hp]; simp_all

end ArchiveFS
