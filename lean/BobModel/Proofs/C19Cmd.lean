import BobModel.Proofs.C19Scan
import BobModel.Proofs.C19Closure
import BobModel.Proofs.C19Query
/-
C19 helper lemmas: the commands `clean` and `find` on worlds.
-/
namespace ArchiveIndex
open Retention

def victimsOf (i : Index) (retained : List Bid) : List Bid := victims i.bids (closure i.refs retained)

def finish (w2 : World) (removed : Bool) : World := if removed then { w2 with idx := pruneRefs w2.idx } else w2

def outcomeOf : Option Bid → Outcome
  | none => .ok []
  | some b => .deleteError b

theorem cleanCmd_noscan (rep dry : Bool) (es : List Expr) (w : World) :
    cleanCmd rep true dry es w =
      match query es w.idx.table with
      | .error x => (w, .queryError x)
      | .ok retained =>
        if dry then (w, .ok (victimsOf w.idx retained))
        else (finish (deleteLoop w false (victimsOf w.idx retained)).1 (deleteLoop w false (victimsOf w.idx retained)).2.1,
              outcomeOf (deleteLoop w false (victimsOf w.idx retained)).2.2) := by
  unfold cleanCmd
  simp only [if_true]
  cases hq : query es w.idx.table with
  | error x => rfl
  | ok retained =>
    simp only
    cases dry with
    | true => simp [victimsOf]
    | false =>
      simp only [Bool.false_eq_true, if_false, victimsOf]
      rcases hd : deleteLoop w false (victims w.idx.bids (closure w.idx.refs retained)) with ⟨w2, removed, failed⟩
      cases failed <;> cases removed <;> simp [finish, outcomeOf]

theorem cleanCmd_scan (rep dry : Bool) (es : List Expr) (w : World) :
    cleanCmd rep false dry es w = cleanCmd rep true dry es (scanCmd rep w) := by
  simp [cleanCmd]

theorem findCmd_scan (rep : Bool) (es : List Expr) (w : World) :
    findCmd rep false es w = findCmd rep true es (scanCmd rep w) := by
  simp [findCmd]

theorem bids_eq_of_indexEq {i j : Index} (h : IndexEq i j) : i.bids = j.bids := by
  unfold Index.bids; rw [h.1]

theorem table_eq_of_indexEq {i j : Index} (h : IndexEq i j) : i.table = j.table := by
  unfold Index.table; rw [h.1]

theorem victimsOf_congr {i j : Index} (h : IndexEq i j) (retained : List Bid) : victimsOf i retained = victimsOf j retained := by
  unfold victimsOf victims
  rw [bids_eq_of_indexEq h]
  apply List.filter_congr
  intro b _
  have : b ∈ closure i.refs retained ↔ b ∈ closure j.refs retained := by
    rw [mem_closure, mem_closure]
    exact reach_congr h.2 (fun _ => Iff.rfl)
  cases h1 : (closure i.refs retained).contains b <;> cases h2 : (closure j.refs retained).contains b <;> simp_all

theorem deleteLoop_indep : ∀ (vs : List Bid) (w w' : World) (rm : Bool), w.files = w'.files →
    (deleteLoop w rm vs).1.files = (deleteLoop w' rm vs).1.files ∧ (deleteLoop w rm vs).2 = (deleteLoop w' rm vs).2 := by
  intro vs
  induction vs with
  | nil => intro w w' rm h; simp [deleteLoop, h]
  | cons b rest ih =>
    intro w w' rm h
    simp only [deleteLoop]
    rw [← h]
    cases hf : w.files.find? (fun f => f.bid == b) with
    | none => exact ih _ _ true (by simp [h])
    | some f =>
      simp only
      cases f.deletable with
      | true => simp only [if_true]; exact ih _ _ true (by simp)
      | false => simp [h]

theorem finish_files (w : World) (r : Bool) : (finish w r).files = w.files := by
  unfold finish; cases r <;> simp

/-- two indexes that are indistinguishable give the same outcome and leave the same files -/
theorem cleanCmd_congr {i j : Index} (h : IndexEq i j) (rep dry : Bool) (es : List Expr) (files : List FileEnt) :
    (cleanCmd rep true dry es ⟨files, i⟩).2 = (cleanCmd rep true dry es ⟨files, j⟩).2 ∧
    (cleanCmd rep true dry es ⟨files, i⟩).1.files = (cleanCmd rep true dry es ⟨files, j⟩).1.files := by
  rw [cleanCmd_noscan, cleanCmd_noscan]
  simp only
  rw [table_eq_of_indexEq h]
  cases hq : query es j.table with
  | error x => simp
  | ok retained =>
    simp only
    rw [victimsOf_congr h]
    cases dry with
    | true => simp
    | false =>
      simp only [Bool.false_eq_true, if_false, finish_files]
      have := deleteLoop_indep (victimsOf j retained) ⟨files, i⟩ ⟨files, j⟩ false rfl
      rw [this.1, this.2]
      exact ⟨rfl, rfl⟩

theorem findCmd_congr {i j : Index} (h : IndexEq i j) (rep : Bool) (es : List Expr) (files : List FileEnt) :
    (findCmd rep true es ⟨files, i⟩).2 = (findCmd rep true es ⟨files, j⟩).2 ∧
    (findCmd rep true es ⟨files, i⟩).1.files = (findCmd rep true es ⟨files, j⟩).1.files := by
  simp only [findCmd, if_true]
  rw [table_eq_of_indexEq h]
  cases query es j.table <;> simp

/-! ### `deleteLoop`: what is removed -/

theorem deleteLoop_idx : ∀ (vs : List Bid) (w : World) (rm : Bool),
    ∃ S : List Bid, (deleteLoop w rm vs).1.idx.rows = w.idx.rows.filter (fun r => !S.contains r.bid) ∧
      (deleteLoop w rm vs).1.idx.refs = w.idx.refs ∧
      ((deleteLoop w rm vs).2.1 = false → (deleteLoop w rm vs).1.idx = w.idx) := by
  intro vs
  induction vs with
  | nil =>
    intro w rm
    exact ⟨[], by simpa [deleteLoop] using (List.filter_eq_self.mpr (fun _ _ => rfl)).symm, by simp [deleteLoop], fun _ => by simp [deleteLoop]⟩
  | cons b rest ih =>
    intro w rm
    simp only [deleteLoop]
    have hstep : ∀ (files' : List FileEnt),
        ∃ S : List Bid, (deleteLoop ⟨files', removeRow w.idx b⟩ true rest).1.idx.rows = w.idx.rows.filter (fun r => !S.contains r.bid) ∧
          (deleteLoop ⟨files', removeRow w.idx b⟩ true rest).1.idx.refs = w.idx.refs ∧
          ((deleteLoop ⟨files', removeRow w.idx b⟩ true rest).2.1 = false → (deleteLoop ⟨files', removeRow w.idx b⟩ true rest).1.idx = w.idx) := by
      intro files'
      obtain ⟨S, h1, h2, _⟩ := ih ⟨files', removeRow w.idx b⟩ true
      refine ⟨b :: S, ?_, ?_, ?_⟩
      · rw [h1]
        simp only [removeRow, dropRow, List.filter_filter]
        apply List.filter_congr
        intro r _
        simp only [List.contains_cons]
        have hb' : (r.bid != b) = !(r.bid == b) := rfl
        rw [hb']
        cases (r.bid == b) <;> cases S.contains r.bid <;> rfl
      · rw [h2]; simp [removeRow]
      · intro hfalse
        exfalso
        have : ∀ (vs : List Bid) (w : World), (deleteLoop w true vs).2.1 = true := by
          intro vs
          induction vs with
          | nil => intro w; simp [deleteLoop]
          | cons b rest ih =>
            intro w
            simp only [deleteLoop]
            cases w.files.find? (fun f => f.bid == b) with
            | none => exact ih _
            | some f =>
              simp only
              cases f.deletable with
              | true => simp only [if_true]; exact ih _
              | false => simp
        rw [this] at hfalse
        cases hfalse
    cases hf : w.files.find? (fun f => f.bid == b) with
    | none => exact hstep w.files
    | some f =>
      simp only
      cases f.deletable with
      | true => simp only [if_true]; exact hstep _
      | false => exact ⟨[], by simpa using (List.filter_eq_self.mpr (fun _ _ => rfl)).symm, by simp, fun _ => by simp⟩

theorem sound_finish_deleteLoop {C : Bid → Stat → Option AuditInfo} {w : World} (h : Sound C w.idx) (vs : List Bid) :
    Sound C (finish (deleteLoop w false vs).1 (deleteLoop w false vs).2.1).idx := by
  obtain ⟨S, h1, h2, h3⟩ := deleteLoop_idx vs w false
  unfold finish
  cases hr : (deleteLoop w false vs).2.1 with
  | false =>
    simp only [Bool.false_eq_true, if_false]
    rw [h3 hr]; exact h
  | true =>
    simp only [if_true, pruneRefs]
    have hmem : ∀ r, r ∈ (deleteLoop w false vs).1.idx.rows ↔ r ∈ w.idx.rows ∧ S.contains r.bid = false := by
      intro r; rw [h1]; simp [List.mem_filter]
    refine ⟨?_, ?_, ?_⟩
    · simp only; rw [h1]; exact nodup_filter_map _ h.distinct
    · intro r hr'
      simp only at hr'
      obtain ⟨a, ha1, ha2, ha3⟩ := h.rows r ((hmem r).mp hr').1
      refine ⟨a, ha1, ha2, ?_⟩
      intro x
      simp only [List.mem_filter, List.any_eq_true, beq_iff_eq]
      rw [h2, ha3]
      constructor
      · exact fun h' => h'.1
      · exact fun h' => ⟨h', r, hr', rfl⟩
    · intro p hp
      simp only [List.mem_filter, List.any_eq_true, beq_iff_eq] at hp
      exact hp.2

theorem refs_kept_finish_deleteLoop (w : World) (vs : List Bid) (p : Bid × Bid) (hp : p ∈ w.idx.refs)
    (hrow : ∃ r ∈ (finish (deleteLoop w false vs).1 (deleteLoop w false vs).2.1).idx.rows, r.bid = p.1) :
    p ∈ (finish (deleteLoop w false vs).1 (deleteLoop w false vs).2.1).idx.refs := by
  obtain ⟨S, _, h2, _⟩ := deleteLoop_idx vs w false
  unfold finish at hrow ⊢
  cases hr : (deleteLoop w false vs).2.1 with
  | false =>
    simp only [hr, Bool.false_eq_true, if_false] at hrow ⊢
    rw [h2]; exact hp
  | true =>
    simp only [hr, if_true, pruneRefs] at hrow ⊢
    simp only [List.mem_filter, List.any_eq_true, beq_iff_eq]
    rw [h2]
    exact ⟨hp, hrow⟩

theorem refs_kept_cleanCmd (rep dry : Bool) (es : List Expr) (w : World) (p : Bid × Bid) (hp : p ∈ w.idx.refs)
    (hrow : ∃ r ∈ (cleanCmd rep true dry es w).1.idx.rows, r.bid = p.1) : p ∈ (cleanCmd rep true dry es w).1.idx.refs := by
  rw [cleanCmd_noscan] at hrow ⊢
  cases hq : query es w.idx.table with
  | error x => simpa [hq] using hp
  | ok retained =>
    simp only [hq] at hrow ⊢
    cases dry with
    | true => simpa using hp
    | false =>
      simp only [Bool.false_eq_true, if_false] at hrow ⊢
      exact refs_kept_finish_deleteLoop w _ p hp hrow

theorem sound_cleanCmd {C : Bid → Stat → Option AuditInfo} {w : World} (h : Sound C w.idx) (rep dry : Bool) (es : List Expr) :
    Sound C (cleanCmd rep true dry es w).1.idx := by
  rw [cleanCmd_noscan]
  cases query es w.idx.table with
  | error x => exact h
  | ok retained =>
    simp only
    cases dry with
    | true => exact h
    | false =>
      simp only [Bool.false_eq_true, if_false]
      exact sound_finish_deleteLoop h _

theorem findCmd_idx (rep : Bool) (es : List Expr) (w : World) : (findCmd rep true es w).1 = w := by
  simp only [findCmd, if_true]
  cases query es w.idx.table <;> rfl

/-- with deletable files the third pass removes exactly the victims -/
theorem deleteLoop_all : ∀ (vs : List Bid) (w : World) (rm : Bool), (∀ f ∈ w.files, f.deletable = true) →
    (deleteLoop w rm vs).2.2 = none ∧
    (deleteLoop w rm vs).1.files = w.files.filter (fun f => !vs.contains f.bid) := by
  intro vs
  induction vs with
  | nil => intro w rm _; simpa [deleteLoop] using (List.filter_eq_self.mpr (fun _ _ => rfl)).symm
  | cons b rest ih =>
    intro w rm hdel
    simp only [deleteLoop]
    cases hf : w.files.find? (fun f => f.bid == b) with
    | none =>
      obtain ⟨i1, i2⟩ := ih ⟨w.files, removeRow w.idx b⟩ true hdel
      refine ⟨i1, ?_⟩
      rw [i2]
      apply List.filter_congr
      intro f hfm
      have := List.find?_eq_none.mp hf f hfm
      simp only [List.contains_cons]
      have hb : (f.bid == b) = false := by simpa using this
      simp [hb]
    | some f =>
      simp only
      have hfd := hdel f (List.mem_of_find?_eq_some hf)
      simp only [hfd, if_true]
      obtain ⟨i1, i2⟩ := ih ⟨w.files.filter (fun g => g.bid != b), removeRow w.idx b⟩ true
        (fun g hg => hdel g (List.mem_filter.mp hg).1)
      refine ⟨i1, ?_⟩
      rw [i2]
      simp only [List.filter_filter]
      apply List.filter_congr
      intro g _
      simp only [List.contains_cons]
      have hb' : (g.bid != b) = !(g.bid == b) := rfl
      rw [hb']
      cases (g.bid == b) <;> cases rest.contains g.bid <;> rfl

end ArchiveIndex
