import BobModel.Proofs.C07Loc
/-
C07 helper lemmas, part 4: properties of the micro-operation *log* of a whole invocation.

`VerifiedLog`: at the moment of every `setInputs p (downloaded b)` the audit trail of `p` is present and records
the hash of what is in the workspace.  `NoReuse`-style facts about the prune blocks are in Props/C07.lean.
-/
namespace Download

/-- the state condition under which a micro-operation may be emitted -/
def okAt (E : Env) (l : Loc) : Op → Prop
  | .setInputs _ (.downloaded _) => ∃ c, l.disk = some c ∧ l.audit = some (E.H c)
  | _ => True

def VLoc (E : Env) : Loc → List Op → Prop
  | _, [] => True
  | l, op :: rest => okAt E l op ∧ VLoc E (locOp E l op) rest

/-- every `setInputs p (downloaded b)` of the log happens in a state where the audit trail of `p` exists and
records the hash of the workspace content -/
def VerifiedLog (E : Env) : St × Archive → List Op → Prop
  | _, [] => True
  | sa, op :: rest => okAt E (sa.1.loc op.path) op ∧ VerifiedLog E (applyOp E sa op) rest

def Op.plain : Op → Bool
  | .setInputs _ (.downloaded _) => false
  | _ => true

theorem okAt_plain (E : Env) (l : Loc) (op : Op) (h : op.plain = true) : okAt E l op := by
  cases op with
  | setInputs p i =>
    cases i with
    | downloaded b => simp [Op.plain] at h
    | _ => trivial
  | _ => trivial

theorem VLoc_plain (E : Env) (ops : List Op) : ∀ l, (∀ op ∈ ops, op.plain = true) → VLoc E l ops := by
  induction ops with
  | nil => intro _ _; trivial
  | cons op ops ih =>
    intro l h
    exact ⟨okAt_plain E l op (h op (by simp)), ih _ (fun o ho => h o (by simp [ho]))⟩

theorem VLoc_append (E : Env) (a b : List Op) : ∀ l, VLoc E l (a ++ b) ↔ VLoc E l a ∧ VLoc E (a.foldl (locOp E) l) b := by
  induction a with
  | nil => intro l; simp [VLoc]
  | cons op a ih =>
    intro l
    simp only [List.cons_append, VLoc, List.foldl_cons, ih, and_assoc]

theorem VerifiedLog_append (E : Env) (a b : List Op) : ∀ sa,
    VerifiedLog E sa (a ++ b) ↔ VerifiedLog E sa a ∧ VerifiedLog E (applyOps E sa a) b := by
  induction a with
  | nil => intro sa; simp [VerifiedLog, applyOps]
  | cons op a ih =>
    intro sa
    simp only [List.cons_append, VerifiedLog, applyOps, List.foldl_cons, and_assoc]
    have := ih (applyOp E sa op)
    simp only [applyOps] at this
    rw [this]

theorem VerifiedLog_of_VLoc (E : Env) (p : Path) (ops : List Op) : ∀ sa, (∀ op ∈ ops, op.path = p) →
    VLoc E (sa.1.loc p) ops → VerifiedLog E sa ops := by
  induction ops with
  | nil => intro _ _ _; trivial
  | cons op ops ih =>
    intro sa hp h
    have hop : op.path = p := hp op (by simp)
    refine ⟨by rw [hop]; exact h.1, ?_⟩
    apply ih _ (fun o ho => hp o (by simp [ho]))
    have := loc_applyOp_same E sa op
    rw [hop] at this
    rw [this]
    exact h.2

theorem VerifiedLog_plain (E : Env) (ops : List Op) : ∀ sa, (∀ op ∈ ops, op.plain = true) → VerifiedLog E sa ops := by
  induction ops with
  | nil => intro _ _; trivial
  | cons op ops ih =>
    intro sa h
    exact ⟨okAt_plain E _ op (h op (by simp)), ih _ (fun o ho => h o (by simp [ho]))⟩

/-! ### the blocks -/

theorem prepOps_plain (i : PInfo) (l : Loc) : ∀ op ∈ prepOps i l, op.plain = true := by
  intro op h
  unfold prepOps at h
  simp only at h
  split at h
  · simp at h; rcases h with rfl | rfl | rfl <;> rfl
  · split at h
    · simp at h; subst h; rfl
    · simp at h

theorem pkgOps_plain (E : Env) (cfg : Cfg) (i : PInfo) (b : BuildId) (depC : List Content) (tok : Nat) (l : Loc) :
    ∀ op ∈ (pkgOps E cfg i b depC tok l).1, op.plain = true := by
  intro op h
  unfold pkgOps at h
  simp only at h
  have hmk : ∀ o ∈ (if l.disk.isNone = true then [Op.mkDir i.path] else []), o.plain = true := by
    intro o ho; split at ho
    · simp at ho; subst ho; rfl
    · simp at ho
  split at h
  · exact hmk op h
  · simp only [List.mem_append] at h
    rcases h with h | h
    · exact hmk op h
    · simp at h; rcases h with rfl | rfl | rfl | rfl | rfl | rfl | rfl <;> rfl

/-- **`_downloadPackage` records a download only after it is verified** (from every state, for every archive
entry, mode and depth) -/
theorem dlOps_verified (E : Env) (cfg : Cfg) (depth : Nat) (i : PInfo) (b : BuildId) (l : Loc) (x : Option Artifact) :
    VLoc E l (dlOps E cfg depth i b l x).1 := by
  unfold dlOps
  simp only
  have hmk : ∀ o ∈ (if l.disk.isNone = true then [Op.mkDir i.path] else []), o.plain = true := by
    intro o ho; split at ho
    · simp at ho; subst ho; rfl
    · simp at ho
  have hpr : ∀ o ∈ (if dlPrune cfg b (dissect l.inp) = true then
      [Op.reset i.path none, Op.emptyDir i.path, Op.rmAudit i.path, Op.reset i.path (some i.vid)] else []),
      o.plain = true := by
    intro o ho; split at ho
    · simp at ho; rcases ho with rfl | rfl | rfl | rfl <;> rfl
    · simp at ho
  have hpre : ∀ o ∈ (if l.disk.isNone = true then [Op.mkDir i.path] else []) ++
      (if dlPrune cfg b (dissect l.inp) = true then
        [Op.reset i.path none, Op.emptyDir i.path, Op.rmAudit i.path, Op.reset i.path (some i.vid)] else []),
      o.plain = true := by
    intro o ho
    rcases List.mem_append.mp ho with h | h
    · exact hmk o h
    · exact hpr o h
  split
  · trivial
  · split
    · rw [VLoc_append]
      refine ⟨VLoc_plain E _ _ hpre, ?_⟩
      generalize (List.foldl (locOp E) l _) = l1
      unfold dlFetchOps
      cases fetch cfg x with
      | notFound => exact ⟨trivial, trivial⟩
      | failed => exact ⟨trivial, trivial⟩
      | extracted c au =>
        cases au with
        | none => exact ⟨trivial, trivial⟩
        | some h =>
          simp only
          split
          · exact ⟨trivial, trivial, trivial, trivial⟩
          · rename_i hc
            simp only [ne_eq, Decidable.not_not] at hc
            simp only [VLoc, okAt, locOp, hc, and_true, true_and]
            exact ⟨⟨c, rfl, rfl⟩, ⟨c, rfl, rfl⟩⟩
    · split <;> exact VLoc_plain E _ _ hpre

/-! ### the log of an invocation -/

/-- the run is what its log says, and the log is verified -/
def RunOK (E : Env) (s0 : St) (a0 : Archive) (r : Run) : Prop :=
  (r.st, r.arch) = applyOps E (s0, a0) r.log ∧ VerifiedLog E (s0, a0) r.log

section
variable (E : Env) (s0 : St) (a0 : Archive)

theorem runok_exec {r : Run} (h : RunOK E s0 a0 r) (ops : List Op) (hv : VerifiedLog E (r.st, r.arch) ops) :
    RunOK E s0 a0 (r.exec E ops) := by
  constructor
  · show (applyOps E (r.st, r.arch) ops) = applyOps E (s0, a0) (r.log ++ ops)
    rw [applyOps_append, ← h.1]
  · show VerifiedLog E (s0, a0) (r.log ++ ops)
    rw [VerifiedLog_append, ← h.1]
    exact ⟨h.2, hv⟩

theorem runok_mem {r r' : Run} (h : RunOK E s0 a0 r) (hs : r'.st = r.st) (ha : r'.arch = r.arch) (hl : r'.log = r.log) :
    RunOK E s0 a0 r' := by
  unfold RunOK
  rw [hs, ha, hl]; exact h

theorem runok_war {r : Run} (h : RunOK E s0 a0 r) (i : PInfo) : RunOK E s0 a0 (wasAlreadyRun i r).2 := by
  unfold wasAlreadyRun
  split
  · exact h
  · split
    · exact runok_mem E s0 a0 h rfl rfl rfl
    · exact h

theorem runok_dlPhase {r : Run} (h : RunOK E s0 a0 r) (cfg : Cfg) (depth : Nat) (i : PInfo) (b : BuildId) :
    RunOK E s0 a0 (dlPhase E cfg depth i b r).2 := by
  unfold dlPhase
  split
  · exact h
  · simp only
    have hv : VerifiedLog E (r.st, r.arch) (dlOps E cfg depth i b (r.st.loc i.path) (r.arch b)).1 :=
      VerifiedLog_of_VLoc E i.path _ _ (fun op ho => (dlOps_path E cfg depth i b _ _ op ho).1)
        (dlOps_verified E cfg depth i b _ _)
    have h1 := runok_exec E s0 a0 h _ hv
    split
    · exact h1
    · exact runok_mem E s0 a0 h1 rfl rfl rfl

theorem runok_finish {r : Run} (h : RunOK E s0 a0 r) (cfg : Cfg) (depth : Nat) (i : PInfo) (ds : List Pkg) (b : BuildId) :
    RunOK E s0 a0 (finishPkg E cfg depth i ds b r).run := by
  unfold finishPkg
  simp only
  have h0 := runok_war E s0 a0 h i
  split
  · exact h0
  · have h1 := runok_exec E s0 a0 h0 _ (VerifiedLog_plain E _ _
      (pkgOps_plain E cfg i b (contentsOf (wasAlreadyRun i r).2.st ds) (wasAlreadyRun i r).2.log.length
        ((wasAlreadyRun i r).2.st.loc i.path)))
    have h2 := runok_mem E s0 a0 (r' := setAlreadyRun i ((wasAlreadyRun i r).2.exec E
      (pkgOps E cfg i b (contentsOf (wasAlreadyRun i r).2.st ds) (wasAlreadyRun i r).2.log.length
        ((wasAlreadyRun i r).2.st.loc i.path)).1)) h1 rfl rfl rfl
    split
    · exact runok_exec E s0 a0 h2 _ (VerifiedLog_plain E _ _ (fun op ho => by simp at ho; subst ho; rfl))
    · exact h2

theorem runok_checkSrc {r : Run} (h : RunOK E s0 a0 r) (i : PInfo) : ∀ r5, checkSrc i r = some r5 → RunOK E s0 a0 r5 := by
  intro r5 hc
  unfold checkSrc at hc
  split at hc
  · simp only [Option.some.injEq] at hc
    rw [← hc]
    have := runok_exec E s0 a0 h [.mispredict i.path] (VerifiedLog_plain E _ _ (fun op ho => by simp at ho; subst ho; rfl))
    exact runok_mem E s0 a0 this rfl rfl rfl
  · cases hc

def VK (cfg : Cfg) (t : Pkg) : Prop := ∀ depth r, RunOK E s0 a0 r → RunOK E s0 a0 (cookPkg E cfg depth t r).run
def VKL (cfg : Cfg) (ds : List Pkg) : Prop := ∀ depth r, RunOK E s0 a0 r → RunOK E s0 a0 (cookList E cfg depth ds r).run

theorem vk_mk (cfg : Cfg) (i : PInfo) (ds : List Pkg) (ih : VKL E s0 a0 cfg ds) : VK E s0 a0 cfg (.mk i ds) := by
  intro depth r hr
  unfold cookPkg
  simp only
  have h0 := runok_war E s0 a0 hr i
  split
  · exact h0
  · have h1 := runok_exec E s0 a0 h0 _ (VerifiedLog_plain E _ _ (prepOps_plain i ((wasAlreadyRun i r).2.st.loc i.path)))
    have h2 := runok_mem E s0 a0 (r' := { (wasAlreadyRun i r).2.exec E (prepOps i ((wasAlreadyRun i r).2.st.loc i.path)) with
      mem := (getBuildId E (.mk i ds) ((wasAlreadyRun i r).2.exec E (prepOps i ((wasAlreadyRun i r).2.st.loc i.path))).mem).2 })
      h1 rfl rfl rfl
    have h3 := runok_dlPhase E s0 a0 h2 cfg depth i
      (getBuildId E (.mk i ds) ((wasAlreadyRun i r).2.exec E (prepOps i ((wasAlreadyRun i r).2.st.loc i.path))).mem).1
    split
    · exact h3
    · exact runok_mem E s0 a0 h3 rfl rfl rfl
    · split
      · rename_i r5 hcs
        exact runok_checkSrc E s0 a0 h3 i r5 hcs
      · have h5 := ih (depth + 2) _ h3
        split
        · rename_i r5 hcl
          rw [hcl] at h5
          exact runok_finish E s0 a0 h5 cfg depth i ds _
        · exact h5

theorem vkl_nil (cfg : Cfg) : VKL E s0 a0 cfg [] := fun _ _ h => h

theorem vkl_cons (cfg : Cfg) (d : Pkg) (ds : List Pkg) (hd : VK E s0 a0 cfg d) (hds : VKL E s0 a0 cfg ds) :
    VKL E s0 a0 cfg (d :: ds) := by
  intro depth r hr
  have h1 := hd depth r hr
  simp only [cookList]
  split
  · rename_i r1 hc
    rw [hc] at h1
    exact hds depth r1 h1
  · exact h1

theorem vk_all (cfg : Cfg) (t : Pkg) : VK E s0 a0 cfg t :=
  Pkg.rec (motive_1 := fun t => VK E s0 a0 cfg t) (motive_2 := fun ds => VKL E s0 a0 cfg ds)
    (fun i ds ih => vk_mk E s0 a0 cfg i ds ih) (vkl_nil E s0 a0 cfg) (fun d ds hd hds => vkl_cons E s0 a0 cfg d ds hd hds) t

theorem rounds_runok (cfg : Cfg) (t : Pkg) : ∀ (n : Nat) (r : Run), RunOK E s0 a0 r → RunOK E s0 a0 (cookRounds E cfg t n r).run := by
  intro n
  induction n with
  | zero => intro r h; exact h
  | succ n ih =>
    intro r h
    have h1 := vk_all E s0 a0 cfg t 0 r h
    simp only [cookRounds]
    split
    · rename_i r1 hc
      rw [hc] at h1
      exact ih r1 h1
    · exact h1

end

end Download
