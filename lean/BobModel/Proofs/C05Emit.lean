import BobModel.Proofs.C05Log
/-
C05, "no false up-to-date": from a state in which nothing is claimed about workspace `p`
(`NoClaim`, which is what every cut inside a script leaves behind, `cut_in_script_unclaimed`), a
successful invocation of any project that contains a step at `p` starts the script of `p` again.
Three structural facts about the cook programs are used: the log only grows (`LogMono`), a cook
function writes only the components of its own path (`Frame`), and the run branches always reach
`_runShell`.
-/
namespace Builder

variable {E : Env}

/-! ## the log only grows -/

def LogMono {α : Type} (m : M α) : Prop :=
  ∀ r, wp m (fun _ r' => ∃ l, r'.log = r.log ++ l) (fun _ => True) r

theorem logmono_pure {α : Type} (a : α) : LogMono (pure a : M α) := by
  intro r; simp only [wp_pure]; exact ⟨[], by simp⟩

theorem logmono_bind {α β : Type} {m : M α} {f : α → M β} (h1 : LogMono m) (h2 : ∀ a, LogMono (f a)) :
    LogMono (m >>= f) := by
  intro r
  simp only [wp_bind]
  refine wp_mono _ _ _ _ _ _ ?_ (fun _ hx => hx) (h1 r)
  intro a r1 ⟨l1, e1⟩
  refine wp_mono _ _ _ _ _ _ ?_ (fun _ hx => hx) (h2 a r1)
  intro b r2 ⟨l2, e2⟩
  exact ⟨l1 ++ l2, by rw [e2, e1, List.append_assoc]⟩

theorem logmono_getSt : LogMono getSt := by
  intro r; simp only [wp_getSt]; exact ⟨[], by simp⟩
theorem logmono_getMem : LogMono getMem := by
  intro r; simp only [wp_getMem]; exact ⟨[], by simp⟩
theorem logmono_setMem (m : Mem) : LogMono (setMem m) := by
  intro r; simp only [wp_setMem]; exact ⟨[], by simp⟩
theorem logmono_abort {α : Type} : LogMono (abort : M α) := by
  intro r; simp only [wp_abort]
theorem logmono_prim (op : Op) (f : St → St) : LogMono (prim op f) := by
  intro r
  rw [wp_prim]
  exact ⟨fun _ => trivial, fun k _ => ⟨[op], rfl⟩⟩
theorem logmono_whenM (b : Bool) {m : M Unit} (h : LogMono m) : LogMono (whenM b m) := by
  cases b
  · exact logmono_pure ()
  · exact h

macro "logmono_step" : tactic => `(tactic| first
  | exact logmono_pure _
  | exact logmono_getSt
  | exact logmono_getMem
  | exact logmono_setMem _
  | exact logmono_abort
  | exact logmono_prim _ _
  | assumption
  | (with_reducible split)
  | (with_reducible refine logmono_whenM _ ?_)
  | (with_reducible refine logmono_bind ?_ (fun _ => ?_)))

theorem logmono_constructDir (p : Path) : LogMono (constructDir p) := by
  unfold constructDir
  repeat logmono_step

theorem logmono_runScript (i : Info) (clean : Bool) (ins : List Content) : LogMono (runScript E i clean ins) := by
  unfold runScript
  dsimp only
  repeat logmono_step

theorem logmono_runRecord (i : Info) (clean : Bool) (st : St) (ins : List Step) (inH : Inputs) (iv : St → Vid) :
    LogMono (runRecord E i clean st ins inH iv) := by
  have h := logmono_runScript (E := E) i clean (contentsOf st ins)
  unfold runRecord
  dsimp only
  repeat logmono_step

theorem logmono_atticLoop (cfg : Cfg) (p : Path) (new : List (Dir × Digest)) (ov : Option Vid) (ob : Option BoState)
    (old keep : List (Dir × Digest)) : LogMono (atticLoop E cfg p new ov ob old keep) := by
  induction old generalizing keep with
  | nil => simp only [atticLoop]; exact logmono_pure _
  | cons x rest ih =>
    obtain ⟨d, g⟩ := x
    have ih' : ∀ k, LogMono (atticLoop E cfg p new ov ob rest k) := ih
    simp only [atticLoop]
    repeat (first | exact ih' _ | logmono_step)

/-- once an operation is in the log it stays there -/
theorem stays_in_log {α : Type} {m : M α} (h : LogMono m) (op : Op) (r : Run) (hop : op ∈ r.log) :
    wp m (fun _ r' => op ∈ r'.log) (fun _ => True) r := by
  refine wp_mono _ _ _ _ _ _ ?_ (fun _ hx => hx) (h r)
  intro _ r' ⟨l, e⟩
  rw [e]; simp [hop]

/-! ## the run branches reach `_runShell` -/

theorem runScript_emits (i : Info) (clean : Bool) (ins : List Content) (r : Run) :
    wp (runScript E i clean ins) (fun _ r' => Op.scriptBegin i.path ∈ r'.log) (fun _ => True) r := by
  unfold runScript
  simp only [wp_bind, wp_getSt]
  rw [wp_prim]
  refine ⟨fun _ => trivial, ?_⟩
  intro k _
  have hm : LogMono (match E.sem i.sig i.world (if clean = true then emptyC else (r.st.disk i.path).getD emptyC) ins with
      | .ok c => prim (.scriptEnd i.path true) (fun s => s.setDisk i.path c)
      | .fail c => do
        prim (.scriptEnd i.path false) (fun s => s.setDisk i.path c)
        abort) := by
    repeat logmono_step
  exact stays_in_log hm _ _ (by simp)

theorem runRecord_emits (i : Info) (clean : Bool) (st : St) (ins : List Step) (inH : Inputs) (iv : St → Vid) (r : Run) :
    wp (runRecord E i clean st ins inH iv) (fun _ r' => Op.scriptBegin i.path ∈ r'.log) (fun _ => True) r := by
  unfold runRecord
  simp only [wp_bind]
  rw [wp_prim]
  refine ⟨fun _ => trivial, ?_⟩
  intro k1 _
  rw [wp_prim]
  refine ⟨fun _ => trivial, ?_⟩
  intro k2 _
  refine wp_mono _ _ _ _ _ _ ?_ (fun _ hx => hx) (runScript_emits (E := E) i clean _ _)
  intro _ r3 h3
  have hm : LogMono (do
      let st2 ← getSt
      prim (.setResult i.path (hashOf E st2 i.path)) (fun s => s.setResult i.path (hashOf E st2 i.path))
      prim (.setVid i.path (iv st2)) (fun s => s.setVid i.path (iv st2))
      prim (.setInputs i.path inH) (fun s => s.setInputs i.path inH)) := by
    repeat logmono_step
  have := stays_in_log hm _ r3 h3
  simp only [wp_bind, wp_getSt] at this
  exact this

theorem checkoutRun_emits (cfg : Cfg) (i : Info) (ds : List Step) (old : OldCo) (oldHash : Option RH) (inH : Inputs)
    (r : Run) :
    wp (checkoutRun E cfg i ds old oldHash inH) (fun _ r' => Op.scriptBegin i.path ∈ r'.log) (fun _ => True) r := by
  unfold checkoutRun
  simp only [wp_bind]
  refine wp_mono _ _ _ _ _ _ ?_ (fun _ _ => trivial) (logmono_atticLoop (E := E) cfg i.path i.scms _ _ _ _ r)
  intro keep r1 _
  simp only [wp_getSt]
  split
  · simp only [wp_bind, wp_abort]
  · simp only [wp_pure, wp_bind, wp_getSt]
    rw [wp_prim]
    refine ⟨fun _ => trivial, ?_⟩
    intro k2 _
    have rest : ∀ (oh : Option RH) (r4 : Run),
        wp (do
            runScript E i false (contentsOf (r1.st.setDir i.path (.co i.scms none (some { loc := i.boLoc, upd := i.boUpd, ins := inH }))) ds)
            prim (.setDir i.path (.co i.scms (some (Vid.mk i.sig (vids ds))) (some { loc := i.boLoc, upd := i.boUpd, ins := inH })))
              (fun s => s.setDir i.path (.co i.scms (some (Vid.mk i.sig (vids ds))) (some { loc := i.boLoc, upd := i.boUpd, ins := inH })))
            prim (.setInputs i.path inH) (fun s => s.setInputs i.path inH)
            let st3 ← getSt
            prim (.setVid i.path (ivid st3 i ds)) (fun s => s.setVid i.path (ivid st3 i ds))
            pure oh)
          (fun _ r' => Op.scriptBegin i.path ∈ r'.log) (fun _ => True) r4 := by
      intro oh r4
      simp only [wp_bind]
      refine wp_mono _ _ _ _ _ _ ?_ (fun _ hx => hx) (runScript_emits (E := E) i false _ r4)
      intro _ r5 h5
      have hm : LogMono (do
          prim (.setDir i.path (.co i.scms (some (Vid.mk i.sig (vids ds))) (some { loc := i.boLoc, upd := i.boUpd, ins := inH })))
            (fun s => s.setDir i.path (.co i.scms (some (Vid.mk i.sig (vids ds))) (some { loc := i.boLoc, upd := i.boUpd, ins := inH })))
          prim (.setInputs i.path inH) (fun s => s.setInputs i.path inH)
          let st3 ← getSt
          prim (.setVid i.path (ivid st3 i ds)) (fun s => s.setVid i.path (ivid st3 i ds))
          pure oh) := by
        repeat logmono_step
      have := stays_in_log hm _ r5 h5
      simp only [wp_bind, wp_getSt, wp_pure] at this
      exact this
    split
    · simp only [wp_bind, wp_pure]
      rw [wp_prim]
      refine ⟨fun _ => trivial, ?_⟩
      intro k3 _
      have := rest (some (RH.forged (r1.st.setDir i.path (.co i.scms none (some { loc := i.boLoc, upd := i.boUpd, ins := inH }))).clock))
        { st := (r1.st.setDir i.path (.co i.scms none (some { loc := i.boLoc, upd := i.boUpd, ins := inH }))).forge i.path,
          mem := r1.mem, fuel := k3,
          log := r1.log ++ [Op.setDir i.path (.co i.scms none (some { loc := i.boLoc, upd := i.boUpd, ins := inH }))] ++
            [Op.setResult i.path (.forged (r1.st.setDir i.path (.co i.scms none (some { loc := i.boLoc, upd := i.boUpd, ins := inH }))).clock)] }
      simp only [wp_bind, wp_getSt, wp_pure] at this
      exact this
    · simp only [wp_pure]
      have := rest oldHash
        { st := r1.st.setDir i.path (.co i.scms none (some { loc := i.boLoc, upd := i.boUpd, ins := inH })),
          mem := r1.mem, fuel := k2,
          log := r1.log ++ [Op.setDir i.path (.co i.scms none (some { loc := i.boLoc, upd := i.boUpd, ins := inH }))] }
      simp only [wp_bind, wp_getSt, wp_pure] at this
      exact this

/-! ## a step about whose workspace nothing is claimed is never skipped -/

theorem constructDir_frame (p : Path) (r : Run) :
    wp (constructDir p) (fun _ r' => r'.st.inputs = r.st.inputs ∧ r'.st.dirStates = r.st.dirStates ∧
      r'.st.results = r.st.results ∧ r'.mem = r.mem) (fun _ => True) r := by
  unfold constructDir
  simp only [wp_bind, wp_getSt]
  split
  · simp only [wp_bind, wp_pure]
    rw [wp_prim]
    exact ⟨fun _ => trivial, fun k _ => ⟨rfl, rfl, rfl, rfl⟩⟩
  · simp [wp_pure]

theorem inputs_none_of_noclaim {st : St} {p : Path} {d : DirState} (hc : NoClaim st p) (hd : st.dirStates p = some d)
    (hnco : ∀ s b, d ≠ .co s none b) : st.inputs p = none := by
  rcases hc with h | h | ⟨s, b, h⟩
  · exact h
  · rw [hd] at h; cases h
  · rw [hd] at h; cases h; exact absurd rfl (hnco s b)

/-- `_cookBuildStep`: nothing claimed about the build workspace ⇒ the build script runs -/
theorem cookBuild_emits (cfg : Cfg) (i : Info) (ds : List Step) (r : Run) (hc : NoClaim r.st i.path) :
    wp (cookBuild E cfg i ds) (fun _ r' => Op.scriptBegin i.path ∈ r'.log) (fun _ => True) r := by
  unfold cookBuild
  simp only [wp_bind, wp_getSt]
  refine wp_mono _ _ _ _ _ _ ?_ (fun _ hx => hx) (constructDir_frame i.path r)
  intro created r1 ⟨e1, e2, _, _⟩
  have hc1 : NoClaim r1.st i.path := by unfold NoClaim; rw [e1, e2]; exact hc
  -- after the directory is in shape the input hashes are gone; then the run branch is taken
  have tail : ∀ r2 : Run, r2.st.inputs i.path = none →
      wp (do
          let st ← getSt
          let inH := inputHashes st i ds
          if (!cfg.force && decide (st.inputs i.path = some inH)) = true then
            whenM (!cfg.cleanBuild) (prim (.setResult i.path (hashOf E st i.path)) (fun s => s.setResult i.path (hashOf E st i.path)))
          else runRecord E i cfg.cleanBuild st ds inH (fun _ => ivid r.st i ds))
        (fun _ r' => Op.scriptBegin i.path ∈ r'.log) (fun _ => True) r2 := by
    intro r2 h2
    simp only [wp_bind, wp_getSt, h2]
    simp only [decide_false, Bool.and_false, Bool.false_eq_true, if_false, reduceCtorEq]
    exact runRecord_emits _ _ _ _ _ _ _
  split
  · simp only [wp_bind]
    split
    · simp only [wp_bind, wp_pure]
      refine wp_mono _ _ _ _ _ _ ?_ (fun _ hx => hx)
        ((logmono_whenM _ (logmono_prim (Op.reset i.path none) (fun s => s.reset i.path none))) r1)
      intro _ r1' _
      rw [wp_prim]
      refine ⟨fun _ => trivial, ?_⟩
      intro k2 _
      rw [wp_prim]
      refine ⟨fun _ => trivial, ?_⟩
      intro k3 _
      exact tail _ (by simp [St.reset])
    · simp only [wp_pure]
      rw [wp_prim]
      refine ⟨fun _ => trivial, ?_⟩
      intro k3 _
      exact tail _ (by simp [St.reset])
  · rename_i hcond
    simp only [wp_pure]
    apply tail
    have hd : r1.st.dirStates i.path = some (DirState.build (ivid r.st i ds) (i.execPath :: ds.map fun d => d.info.execPath)) := by
      have : ¬ (created = true ∨ ¬ r1.st.dirStates i.path = some (DirState.build (ivid r.st i ds) (i.execPath :: ds.map fun d => d.info.execPath))) := by
        simpa using hcond
      exact Classical.not_not.mp (not_or.mp this).2
    exact inputs_none_of_noclaim hc1 hd (by intro s b h; cases h)

/-- `_cookPackageStep`: no stored input hashes ⇒ the package script runs -/
theorem cookPackage_emits (cfg : Cfg) (i : Info) (pre ds : List Step) (r : Run) (hi : r.st.inputs i.path = none) :
    wp (cookPackage E cfg i pre ds) (fun _ r' => Op.scriptBegin i.path ∈ r'.log) (fun _ => True) r := by
  unfold cookPackage
  simp only [wp_bind, wp_getSt]
  refine wp_mono _ _ _ _ _ _ ?_ (fun _ hx => hx) (constructDir_frame i.path r)
  intro created r1 ⟨e1, _, _, _⟩
  have h1 : r1.st.inputs i.path = none := by rw [e1]; exact hi
  simp only [h1, decide_false, Bool.and_false, Bool.false_eq_true, if_false, reduceCtorEq]
  exact runRecord_emits _ _ _ _ _ _ _

/-- `_preparePackageStep`: nothing claimed about the package workspace ⇒ afterwards there are no
stored input hashes (so `_cookPackageStep` runs the script) -/
theorem preparePackage_unclaimed (i : Info) (ds : List Step) (r : Run) (hc : NoClaim r.st i.path) :
    wp (preparePackage i ds) (fun _ r' => r'.st.inputs i.path = none) (fun _ => True) r := by
  unfold preparePackage
  simp only [wp_bind, wp_getSt]
  split
  · simp only [wp_bind, wp_pure, Bool.not_false, wp_whenM_true]
    refine wp_mono _ _ _ _ _ _ ?_ (fun _ hx => hx)
      ((logmono_whenM _ (logmono_prim (Op.reset i.path none) (fun s => s.reset i.path none))) r)
    intro _ r1 _
    rw [wp_prim]
    refine ⟨fun _ => trivial, ?_⟩
    intro k2 _
    rw [wp_prim]
    exact ⟨fun _ => trivial, fun k3 _ => by simp [St.reset]⟩
  · rename_i hcond
    simp only [wp_pure]
    cases hd : (r.st.disk i.path).isSome with
    | false =>
      simp only [Bool.not_false, wp_whenM_true]
      rw [wp_prim]
      exact ⟨fun _ => trivial, fun k _ => by simp [St.reset]⟩
    | true =>
      simp only [Bool.not_true, wp_whenM_false]
      have hdir : r.st.dirStates i.path = some (DirState.pkg (.mk i.sig (vids ds))) := by
        simpa [hd] using hcond
      exact inputs_none_of_noclaim hc hdir (by intro s b h; cases h)

/-- `_cookCheckoutStep`: nothing claimed about the checkout workspace ⇒ the checkout runs -/
theorem cookCheckout_emits (cfg : Cfg) (i : Info) (ds : List Step) (r : Run) (hc : NoClaim r.st i.path) :
    wp (cookCheckout E cfg i ds) (fun _ r' => Op.scriptBegin i.path ∈ r'.log) (fun _ => True) r := by
  unfold cookCheckout
  simp only [wp_bind, wp_getSt]
  refine wp_mono _ _ _ _ _ _ ?_ (fun _ hx => hx) (constructDir_frame i.path r)
  intro created r1 ⟨e1, e2, _, _⟩
  have hc1 : NoClaim r1.st i.path := by unfold NoClaim; rw [e1, e2]; exact hc
  have fin : ∀ (oh : Option RH) (r3 : Run), Op.scriptBegin i.path ∈ r3.log →
      wp (do
          let st4 ← getSt
          whenM (decide (some (hashOf E st4 i.path) ≠ oh) || cfg.force)
            (prim (.setResult i.path (hashOf E st4 i.path)) (fun s => s.setResult i.path (hashOf E st4 i.path))))
        (fun _ r' => Op.scriptBegin i.path ∈ r'.log) (fun _ => True) r3 := by
    intro oh r3 h3
    have hm : LogMono (do
        let st4 ← getSt
        whenM (decide (some (hashOf E st4 i.path) ≠ oh) || cfg.force)
          (prim (.setResult i.path (hashOf E st4 i.path)) (fun s => s.setResult i.path (hashOf E st4 i.path)))) := by
      repeat logmono_step
    exact stays_in_log hm _ r3 h3
  cases hcr : created with
  | true =>
    simp only [if_true, wp_whenM_true]
    rw [wp_prim]
    refine ⟨fun _ => trivial, ?_⟩
    intro k _
    have hreason : ∀ st inH, checkoutReason E cfg i ds true ([], none, none) st inH = true := by
      intro st inH; simp [checkoutReason]
    simp only [hreason, if_true]
    refine wp_mono _ _ _ _ _ _ ?_ (fun _ hx => hx) (checkoutRun_emits (E := E) cfg i ds _ _ _ _)
    intro oh r3 h3
    have := fin oh r3 h3
    simp only [wp_bind, wp_getSt] at this
    exact this
  | false =>
    simp only [Bool.false_eq_true, if_false, wp_whenM_false]
    have hreason : checkoutReason E cfg i ds false (coParts (r1.st.dirStates i.path)) r1.st (resultsOf r1.st ds) = true := by
      rcases hc1 with h | h | ⟨s, b, h⟩
      · simp [checkoutReason, h]
      · simp [checkoutReason, h, coParts]
      · simp [checkoutReason, h, coParts]
    simp only [hreason, if_true]
    refine wp_mono _ _ _ _ _ _ ?_ (fun _ hx => hx) (checkoutRun_emits (E := E) cfg i ds _ _ _ _)
    intro oh r3 h3
    have := fin oh r3 h3
    simp only [wp_bind, wp_getSt] at this
    exact this

end Builder
