import BobModel.Proofs.C19Spec
import BobModel.Proofs.C19Order
/-
C19 helper lemmas: the insertion queue of `RetainExpression.evaluate`.
-/
namespace Retention

theorem notWorse_total (asc : Bool) (a b : Option Str) : notWorse asc a b = true ∨ notWorse asc b a = true := by
  cases a <;> cases b <;> simp [notWorse]
  rename_i x y
  cases asc <;> simp
  · exact (strLe_total y x)
  · exact (strLe_total x y)

theorem notWorse_trans {asc : Bool} {a b c : Option Str}
    (h1 : notWorse asc a b = true) (h2 : notWorse asc b c = true) : notWorse asc a c = true := by
  cases a <;> cases b <;> cases c <;> simp [notWorse] at h1 h2 ⊢
  rename_i x y z
  cases asc <;> simp at h1 h2 ⊢
  · exact strLe_trans h2 h1
  · exact strLe_trans h1 h2

theorem cmpItem_false {asc : Bool} {e n : Option Str} (h : cmpItem asc e n = false) : notWorse asc e n = true := by
  cases n with
  | none => simp [notWorse]
  | some n =>
    cases e with
    | none => simp [cmpItem] at h
    | some e =>
      simp only [cmpItem] at h
      simp only [notWorse]
      cases asc <;> simp at h ⊢
      · rcases strLe_total e n with h' | h'
        · simp [h'] at h
        · exact h'
      · rcases strLe_total n e with h' | h'
        · simp [h'] at h
        · exact h'

theorem cmpItem_true {asc : Bool} {e n : Option Str} (h : cmpItem asc e n = true) : notWorse asc n e = true := by
  cases n with
  | none => simp [cmpItem] at h
  | some n =>
    cases e with
    | none => simp [notWorse]
    | some e => simpa [cmpItem, notWorse] using h

def Sorted (asc : Bool) (q : List (Bid × Option Str)) : Prop :=
  q.Pairwise (fun x y => notWorse asc x.2 y.2 = true)

theorem mem_insertQ {asc : Bool} {q : List (Bid × Option Str)} {item x : Bid × Option Str} :
    x ∈ insertQ asc q item ↔ x = item ∨ x ∈ q := by
  induction q with
  | nil => simp [insertQ]
  | cons e rest ih =>
    simp only [insertQ]
    split
    · simp
    · simp only [List.mem_cons, ih]
      constructor
      · rintro (h | h | h) <;> simp [h]
      · rintro (h | h | h) <;> simp [h]

theorem length_insertQ {asc : Bool} {q : List (Bid × Option Str)} {item : Bid × Option Str} :
    (insertQ asc q item).length = q.length + 1 := by
  induction q with
  | nil => simp [insertQ]
  | cons e rest ih =>
    simp only [insertQ]
    split <;> simp [ih]

theorem sorted_insertQ {asc : Bool} {q : List (Bid × Option Str)} {item : Bid × Option Str}
    (h : Sorted asc q) : Sorted asc (insertQ asc q item) := by
  induction q with
  | nil => simp [insertQ, Sorted]
  | cons e rest ih =>
    simp only [Sorted, List.pairwise_cons] at h
    simp only [insertQ]
    split
    · rename_i hc
      have hie := cmpItem_true hc
      simp only [Sorted, List.pairwise_cons]
      refine ⟨?_, h.1, h.2⟩
      intro a ha
      rcases List.mem_cons.mp ha with rfl | ha
      · exact hie
      · exact notWorse_trans hie (h.1 a ha)
    · rename_i hc
      have hei := cmpItem_false (by simpa using hc)
      simp only [Sorted, List.pairwise_cons]
      refine ⟨?_, ih h.2⟩
      intro a ha
      rcases mem_insertQ.mp ha with rfl | ha
      · exact hei
      · exact h.1 a ha

theorem nodup_insertQ {asc : Bool} {q : List (Bid × Option Str)} {item : Bid × Option Str}
    (h : (q.map (·.1)).Nodup) (hi : ∀ x ∈ q, x.1 ≠ item.1) : ((insertQ asc q item).map (·.1)).Nodup := by
  induction q with
  | nil => simp [insertQ]
  | cons e rest ih =>
    simp only [List.map_cons, List.nodup_cons, List.mem_map] at h
    simp only [insertQ]
    split
    · simp only [List.map_cons, List.nodup_cons, List.mem_cons, List.mem_map]
      refine ⟨?_, h.1, h.2⟩
      rintro (heq | ⟨x, hx, hxe⟩)
      · exact hi e (by simp) heq.symm
      · exact hi x (by simp [hx]) hxe
    · simp only [List.map_cons, List.nodup_cons, List.mem_map]
      refine ⟨?_, ih h.2 (fun x hx => hi x (by simp [hx]))⟩
      rintro ⟨x, hx, hxe⟩
      rcases mem_insertQ.mp hx with rfl | hx
      · exact hi e (by simp) hxe.symm
      · exact h.1 ⟨x, hx, hxe⟩

theorem popOne_concat (ret : List Bid) (init : List (Bid × Option Str)) (v : Bid × Option Str) :
    popOne ⟨ret, init ++ [v]⟩ = ⟨ret.filter (fun b => b != v.1), init⟩ := by
  simp [popOne]

/-- invariant of one `RetainExpression` with `LIMIT lim` after the matching artifacts `P` were evaluated -/
structure Inv (asc : Bool) (lim : Nat) (P : List (Bid × Option Str)) (st : EState) : Prop where
  sorted : Sorted asc st.queue
  sub : ∀ x ∈ st.queue, x ∈ P
  ret : ∀ b, b ∈ st.retained ↔ ∃ k, (b, k) ∈ st.queue
  dropped : ∀ d ∈ P, d ∉ st.queue → st.queue.length = lim ∧ ∀ q ∈ st.queue, notWorse asc q.2 d.2 = true
  len : st.queue.length = min lim P.length
  retNodup : st.retained.Nodup
  qNodup : (st.queue.map (·.1)).Nodup

theorem inv_empty (asc : Bool) (lim : Nat) : Inv asc lim [] EState.empty := by
  constructor <;> simp [EState.empty, Sorted]

theorem inv_push {asc : Bool} {lim : Nat} {P : List (Bid × Option Str)} {st : EState} {b : Bid} {k : Option Str}
    (hb : ∀ x ∈ P, x.1 ≠ b) (h : Inv asc lim P st) :
    Inv asc lim (P ++ [(b, k)]) (trim lim ⟨b :: st.retained, insertQ asc st.queue (b, k)⟩) := by
  have hbq : ∀ x ∈ st.queue, x.1 ≠ b := fun x hx => hb x (h.sub x hx)
  have hbr : b ∉ st.retained := by
    intro hm
    obtain ⟨k', hk'⟩ := (h.ret b).mp hm
    exact hbq _ hk' rfl
  have hq1s := sorted_insertQ (item := (b, k)) h.sorted
  have hq1n := nodup_insertQ (asc := asc) (item := (b, k)) h.qNodup hbq
  have hlen := h.len
  by_cases hfull : st.queue.length < lim
  · -- the queue has room: nothing is dropped
    have ht : trim lim ⟨b :: st.retained, insertQ asc st.queue (b, k)⟩ = ⟨b :: st.retained, insertQ asc st.queue (b, k)⟩ := by
      simp only [trim, length_insertQ]
      have : st.queue.length + 1 - lim = 0 := by omega
      rw [this]; rfl
    rw [ht]
    refine ⟨hq1s, ?_, ?_, ?_, ?_, ?_, hq1n⟩
    · intro x hx
      rcases mem_insertQ.mp hx with rfl | hx
      · simp
      · simp [h.sub x hx]
    · intro b'
      simp only [List.mem_cons]
      constructor
      · rintro (rfl | hm)
        · exact ⟨k, mem_insertQ.mpr (Or.inl rfl)⟩
        · obtain ⟨k', hk'⟩ := (h.ret b').mp hm
          exact ⟨k', mem_insertQ.mpr (Or.inr hk')⟩
      · rintro ⟨k', hk'⟩
        rcases mem_insertQ.mp hk' with heq | hk'
        · left; exact (Prod.mk.inj heq).1
        · right; exact (h.ret b').mpr ⟨k', hk'⟩
    · intro d hd hdq
      exfalso
      have hd1 : d ≠ (b, k) := fun he => hdq (mem_insertQ.mpr (Or.inl he))
      have hd2 : d ∉ st.queue := fun hm => hdq (mem_insertQ.mpr (Or.inr hm))
      have hdP : d ∈ P := by
        rcases List.mem_append.mp hd with hd | hd
        · exact hd
        · simp at hd; exact absurd hd hd1
      have := (h.dropped d hdP hd2).1
      omega
    · simp only [length_insertQ, List.length_append, List.length_cons, List.length_nil]
      omega
    · simp [List.nodup_cons, hbr, h.retNodup]
  · -- the queue is full: the last one of the new queue is dropped
    have hql : st.queue.length = lim := by omega
    have hPl : lim ≤ P.length := by omega
    rcases List.eq_nil_or_concat (insertQ asc st.queue (b, k)) with hnil | ⟨init, v, hiv⟩
    · have := length_insertQ (asc := asc) (q := st.queue) (item := (b, k))
      rw [hnil] at this; simp at this
    · rw [List.concat_eq_append] at hiv
      have hil : init.length = lim := by
        have := length_insertQ (asc := asc) (q := st.queue) (item := (b, k))
        rw [hiv] at this; simp at this; omega
      have ht : trim lim ⟨b :: st.retained, insertQ asc st.queue (b, k)⟩ = ⟨(b :: st.retained).filter (fun x => x != v.1), init⟩ := by
        simp only [trim, length_insertQ]
        have : st.queue.length + 1 - lim = 1 := by omega
        rw [this, hiv]
        simp [popN, popOne_concat]
      rw [ht]
      have hsort : Sorted asc (init ++ [v]) := hiv ▸ hq1s
      have hnd : ((init ++ [v]).map (·.1)).Nodup := hiv ▸ hq1n
      simp only [Sorted, List.pairwise_append] at hsort
      simp only [List.map_append, List.map_cons, List.map_nil, List.nodup_append] at hnd
      have hmem : ∀ x, x ∈ init ++ [v] ↔ x = (b, k) ∨ x ∈ st.queue := fun x => hiv ▸ mem_insertQ
      have hvinit : ∀ x ∈ init, x.1 ≠ v.1 := by
        intro x hx
        exact hnd.2.2 x.1 (List.mem_map.mpr ⟨x, hx, rfl⟩) v.1 (by simp)
      have hret1 : ∀ b', b' ∈ b :: st.retained ↔ ∃ k', (b', k') ∈ init ++ [v] := by
        intro b'
        simp only [List.mem_cons]
        constructor
        · rintro (rfl | hm)
          · exact ⟨k, (hmem _).mpr (Or.inl rfl)⟩
          · obtain ⟨k', hk'⟩ := (h.ret b').mp hm
            exact ⟨k', (hmem _).mpr (Or.inr hk')⟩
        · rintro ⟨k', hk'⟩
          rcases (hmem _).mp hk' with heq | hk'
          · left; exact (Prod.mk.inj heq).1
          · right; exact (h.ret b').mpr ⟨k', hk'⟩
      refine ⟨hsort.1, ?_, ?_, ?_, ?_, ?_, hnd.1⟩
      · intro x hx
        rcases (hmem x).mp (List.mem_append.mpr (Or.inl hx)) with rfl | hx'
        · simp
        · simp [h.sub x hx']
      · intro b'
        simp only [List.mem_filter, bne_iff_ne, ne_eq]
        constructor
        · rintro ⟨hm, hne⟩
          obtain ⟨k', hk'⟩ := (hret1 b').mp hm
          rcases List.mem_append.mp hk' with hk' | hk'
          · exact ⟨k', hk'⟩
          · simp at hk'
            exact absurd (by rw [← hk']) hne
        · rintro ⟨k', hk'⟩
          exact ⟨(hret1 b').mpr ⟨k', List.mem_append.mpr (Or.inl hk')⟩, hvinit _ hk'⟩
      · intro d hd hdi
        refine ⟨hil, ?_⟩
        intro q' hq'
        have hstar : notWorse asc q'.2 v.2 = true := hsort.2.2 q' hq' v (by simp)
        by_cases hdv : d = v
        · rw [hdv]; exact hstar
        · have hdq1 : d ∉ init ++ [v] := by
            intro hm
            rcases List.mem_append.mp hm with hm | hm
            · exact hdi hm
            · simp at hm; exact hdv hm
          have hd1 : d ≠ (b, k) := fun he => hdq1 ((hmem d).mpr (Or.inl he))
          have hd2 : d ∉ st.queue := fun hm => hdq1 ((hmem d).mpr (Or.inr hm))
          have hdP : d ∈ P := by
            rcases List.mem_append.mp hd with hd | hd
            · exact hd
            · simp at hd; exact absurd hd hd1
          have hold := (h.dropped d hdP hd2).2
          rcases (hmem q').mp (List.mem_append.mpr (Or.inl hq')) with hqb | hqq
          · -- the new artifact stays: the dropped one is an old member of the queue
            have hvq : v ∈ st.queue := by
              rcases (hmem v).mp (by simp) with hvb | hvq
              · exfalso
                exact hvinit q' hq' (by rw [hqb, hvb])
              · exact hvq
            exact notWorse_trans hstar (hold v hvq)
          · exact hold q' hqq
      · simp only [List.length_append, List.length_cons, List.length_nil]
        omega
      · show ((b :: st.retained).filter (fun x => x != v.1)).Nodup
        exact List.Pairwise.filter _ (List.nodup_cons.mpr ⟨hbr, h.retNodup⟩)

end Retention
