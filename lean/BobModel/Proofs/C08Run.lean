import BobModel.Proofs.C08Member
/-
Helper lemmas for Props/C08.lean, part 6: the invariant of a whole run of
`__extractPackage` (`RunInv`): it holds initially, is kept by the extraction of a checked
content member, by writing the audit file and by every rejected member.
-/
namespace TarExtract

/-- the audit path is a plain, not yet existing name in an existing directory outside `dest`
(`removePath(audit)` has just run and the builder passes `<dist>/audit.json.gz`) -/
structure AuditOk (dest audit : Path) (cfg : Cfg) (fs0 : FS) : Prop where
  ne : audit ≠ []
  plain : ∀ c ∈ audit, c ≠ dot ∧ c ≠ dotdot
  dirs : ∀ k, k < audit.length → IsDir fs0 (audit.take k)
  missing : fs0.look audit = none
  outside : ¬ Inside dest audit
  fuel : audit.length ≤ cfg.fuel

/-- what holds between the tree before `__extractPackage` (`fs0`) and every later state -/
structure RunInv (dest audit : Path) (fs0 fs : FS) : Prop where
  names : ∀ q, ¬ Inside dest q → q ≠ audit → fs.look q = fs0.look q
  inodes : ∀ q i, ¬ Inside dest q → q ≠ audit → fs0.look q = some (.ref i) → fs.inode i = fs0.inode i
  inv : Inv dest fs
  sep : Sep dest fs
  audit : fs.look audit = none ∨
    ∃ i, fs.look audit = some (.ref i) ∧ fs0.next ≤ i ∧ symTarget fs audit = none ∧ ∀ q, fs.look q = some (.ref i) → q = audit
  next : fs0.next ≤ fs.next

section Run
variable {dest audit : Path} {cfg : Cfg} {fs0 : FS}

theorem RunInv.init (hinv : Inv dest fs0) (hsep : Sep dest fs0) (ha : AuditOk dest audit cfg fs0) :
    RunInv dest audit fs0 fs0 :=
  ⟨fun _ _ _ => rfl, fun _ _ _ _ _ => rfl, hinv, hsep, Or.inl ha.missing, Nat.le_refl _⟩

/-- a confined member step keeps the run invariant -/
theorem RunInv.member (ha : AuditOk dest audit cfg fs0) {fs fs' : FS} (h : RunInv dest audit fs0 fs)
    (hm : MStep dest fs fs') (hinv' : Inv dest fs') : RunInv dest audit fs0 fs' := by
  have hout : ∀ q i, ¬ Inside dest q → fs.look q = some (.ref i) → fs'.inode i = fs.inode i :=
    fun q i hq hl => hm.outside_inode h.inv.fresh h.sep q i hq hl
  refine ⟨?_, ?_, hinv', hm.sep h.inv.fresh h.sep, ?_, Nat.le_trans h.next hm.next⟩
  · intro q hq hqa; rw [hm.out q hq, h.names q hq hqa]
  · intro q i hq hqa hl
    have hl' : fs.look q = some (.ref i) := by rw [h.names q hq hqa]; exact hl
    rw [hout q i hq hl', h.inodes q i hq hqa hl]
  · have hla : fs'.look audit = fs.look audit := hm.out audit ha.outside
    rcases h.audit with hn | ⟨i, hl, hi, hs, hu⟩
    · exact Or.inl (by rw [hla, hn])
    · refine Or.inr ⟨i, by rw [hla, hl], hi, ?_, ?_⟩
      · rw [symTarget_congr hla (fun j hj => by rw [hl] at hj; cases hj; exact hout audit i ha.outside hl)]
        exact hs
      · intro q hq
        by_cases hqi : Inside dest q
        · exfalso
          rcases hm.refs q i hqi hq with hn | ⟨p', hp', hl'⟩
          · have := h.inv.fresh audit i hl; omega
          · exact ha.outside (hu p' hl' ▸ hp')
        · exact hu q (by rw [← hm.out q hqi]; exact hq)

/-- the audit path resolves to itself as long as it is missing or a non-link -/
theorem walk_audit (ha : AuditOk dest audit cfg fs0) {fs : FS} (h : RunInv dest audit fs0 fs) :
    walk fs true true cfg.fuel [] audit = .ok audit := by
  obtain ⟨pa, x, hpx⟩ : ∃ pa x, audit = pa ++ [x] := by
    rcases List.eq_nil_or_concat audit with h | ⟨pa, x, h⟩
    · exact absurd h ha.ne
    · exact ⟨pa, x, by rw [h, List.concat_eq_append]⟩
  have hlen : audit.length = pa.length + 1 := by rw [hpx]; simp
  have hpre : ∀ k, k ≤ pa.length → IsDir fs (pa.take k) := by
    intro k hk
    have htk : audit.take k = pa.take k := by rw [hpx, List.take_append_of_le_length hk]
    have hdir := ha.dirs k (by omega)
    rw [htk] at hdir
    obtain ⟨m, hm⟩ := hdir
    refine ⟨m, ?_⟩
    rw [h.names (pa.take k) ?_ ?_]
    · exact hm
    · intro hin
      apply ha.outside
      exact List.IsPrefix.trans hin (by rw [hpx]; exact (List.take_prefix k pa).trans (List.prefix_append pa [x]))
    · intro he
      have := congrArg List.length he
      rw [List.length_take] at this; omega
  have hchain := walk_chain fs true true pa [] cfg.fuel [x]
    (fun c hc => ha.plain c (by rw [hpx]; simp [hc]))
    (fun k _ hk => by simpa using hpre k hk) (by have := ha.fuel; omega)
  simp only [List.nil_append] at hchain
  rw [hpx, hchain]
  obtain ⟨n, hn⟩ : ∃ n, cfg.fuel - pa.length = n + 1 := ⟨cfg.fuel - pa.length - 1, by have := ha.fuel; omega⟩
  have hx := ha.plain x (by rw [hpx]; simp)
  have hst : symTarget fs (pa ++ [x]) = none := by
    rw [← hpx]
    rcases h.audit with hn | ⟨i, _, _, hs, _⟩
    · exact symTarget_of_look_none hn
    · exact hs
  rw [hn]
  simp only [walk, hx.1, hx.2, if_false, hst, Bool.true_eq_false]
  cases hl : fs.look (pa ++ [x]) with
  | none => simp
  | some e =>
    cases e with
    | ref i => simp
    | dir m =>
      exfalso
      rw [← hpx] at hl
      rcases h.audit with hn | ⟨i, hl', _⟩
      · rw [hn] at hl; cases hl
      · rw [hl'] at hl; cases hl

/-- writing the audit member keeps the run invariant -/
theorem RunInv.auditWrite (ha : AuditOk dest audit cfg fs0) (hfresh0 : ∀ p i, fs0.look p = some (.ref i) → i < fs0.next)
    {fs : FS} (h : RunInv dest audit fs0 fs) (data : Str) :
    RunInv dest audit fs0 (kWrite fs cfg audit data).1 := by
  unfold kWrite kres
  rw [walk_audit ha h]
  simp only []
  obtain ⟨pa, x, hpx⟩ : ∃ pa x, audit = pa ++ [x] := by
    rcases List.eq_nil_or_concat audit with h | ⟨pa, x, h⟩
    · exact absurd h ha.ne
    · exact ⟨pa, x, by rw [h, List.concat_eq_append]⟩
  cases hl : fs.look audit with
  | none =>
    -- a new inode at the audit path
    have hpa : IsDir fs pa := by
      have hk : pa.length < audit.length := by rw [hpx]; simp
      have hdir := ha.dirs pa.length hk
      have htk : audit.take pa.length = pa := by rw [hpx]; simp
      rw [htk] at hdir
      obtain ⟨m, hm⟩ := hdir
      refine ⟨m, ?_⟩
      rw [h.names pa ?_ ?_]
      · exact hm
      · intro hin; exact ha.outside (hin.trans (by rw [hpx]; exact List.prefix_append pa [x]))
      · intro he; have := congrArg List.length he; rw [hpx] at this; simp at this
    have hds : ∀ p, IsDir fs p → IsDir ((fs.alloc ⟨.file data, 0o644⟩).setName audit (.ref fs.next)) p := by
      intro p ⟨m, hm⟩
      have hp : p ≠ audit := fun e => by rw [e, hl] at hm; cases hm
      exact ⟨m, by simp [hp, hm]⟩
    refine ⟨?_, ?_, ⟨?_, ?_, ?_⟩, ?_, ?_, ?_⟩
    · intro q hq hqa; simp only [look_setName, hqa, if_false, look_alloc]; exact h.names q hq hqa
    · intro q i hq hqa hl0
      have hi := hfresh0 q i hl0
      have hne : i ≠ fs.next := by have := h.next; omega
      simp only [inode_setName, inode_alloc, hne, if_false]
      exact h.inodes q i hq hqa hl0
    · intro p c e hle
      by_cases hpc : p ++ [c] = audit
      · have : p = pa := by rw [hpx] at hpc; exact (List.append_inj' hpc rfl).1
        exact hds p (this ▸ hpa)
      · simp only [look_setName, hpc, if_false, look_alloc] at hle
        exact hds p (h.inv.wf p c e hle)
    · intro p i hle
      by_cases hp : p = audit
      · simp only [hp, look_setName, if_true, Option.some.injEq, Entry.ref.injEq] at hle
        simp; omega
      · simp only [look_setName, hp, if_false, look_alloc] at hle
        have := h.inv.fresh p i hle
        simp; omega
    · intro k hk; exact hds _ (h.inv.dirs k hk)
    · intro p q i hp hq hlp hlq
      have hpa' : p ≠ audit := fun e => ha.outside (e ▸ hp)
      simp only [look_setName, hpa', if_false, look_alloc] at hlp
      by_cases hqa : q = audit
      · simp only [hqa, look_setName, if_true, Option.some.injEq, Entry.ref.injEq] at hlq
        have := h.inv.fresh p i hlp; omega
      · simp only [look_setName, hqa, if_false, look_alloc] at hlq
        exact h.sep p q i hp hq hlp hlq
    · refine Or.inr ⟨fs.next, by simp, h.next, by simp [symTarget], ?_⟩
      intro q hq
      by_cases hqa : q = audit
      · exact hqa
      · simp only [look_setName, hqa, if_false, look_alloc] at hq
        have := h.inv.fresh q _ hq; omega
    · simp; have := h.next; omega
  | some e =>
    cases e with
    | dir m => exact h
    | ref i =>
      simp only []
      have hshape : fs0.next ≤ i ∧ ∀ q, fs.look q = some (.ref i) → q = audit := by
        rcases h.audit with hn | ⟨j, hl', hj, _, hu⟩
        · rw [hn] at hl; cases hl
        · rw [hl'] at hl; cases hl; exact ⟨hj, hu⟩
      cases hi : fs.inode i with
      | none => exact h
      | some ino =>
        obtain ⟨ob, md⟩ := ino
        cases ob with
        | symlink t => exact h
        | fifo => exact h
        | chr => exact h
        | file d =>
          refine ⟨h.names, ?_, ⟨h.inv.wf, h.inv.fresh, h.inv.dirs⟩, h.sep, ?_, h.next⟩
          · intro q j hq hqa hl0
            have hj := hfresh0 q j hl0
            have hne : j ≠ i := by omega
            simp only [inode_setInode, hne, if_false]
            exact h.inodes q j hq hqa hl0
          · refine Or.inr ⟨i, hl, hshape.1, ?_, hshape.2⟩
            simp [symTarget, hl]

/-- one member of the archive -/
theorem RunInv.step (hcf : cfg.filter = true) (hcn : cfg.canonNames = true) (hcp : cfg.parentCheck = true)
    (hcl : cfg.lnkCheck = 2) (hdne : dest ≠ []) (hdp : ∀ c ∈ dest, c ≠ dot ∧ c ≠ dotdot)
    (hfuel : dest.length ≤ cfg.fuel) (ha : AuditOk dest audit cfg fs0)
    (hfresh0 : ∀ p i, fs0.look p = some (.ref i) → i < fs0.next)
    (st : St) (m : Member) (h : RunInv dest audit fs0 st.fs) :
    RunInv dest audit fs0 (stepMember cfg dest audit st m).fs := by
  unfold stepMember
  split
  · exact h
  · cases hd : dispatch cfg m with
    | error e => exact h
    | ok act =>
      cases act with
      | skip => exact h
      | audit =>
        simp only []
        split
        · exact h
        · split
          · exact h
          · have hw := RunInv.auditWrite ha hfresh0 h m.data
            cases (kWrite st.fs cfg audit m.data).2 <;> exact hw
      | content m' =>
        simp only []
        cases hck : checkMember cfg st.fs dest m' with
        | error e => exact h
        | ok u =>
          cases u
          simp only []
          cases hft : tarFilter cfg st.fs dest m' with
          | error e => exact h
          | ok m'' =>
            simp only []
            obtain ⟨hcan, ⟨P, hP, hPin⟩, hlnk⟩ := checkMember_facts hcn hcp hcl h.inv hdp hfuel hck
            obtain ⟨hm'', R, hR, hRin⟩ := tarFilter_facts hcf h.inv hdp hfuel hft
            obtain ⟨hne, hplain⟩ := canonical_comps hcan
            obtain ⟨ups, c, hnc⟩ : ∃ ups c, comps m'.name = ups ++ [c] := by
              rcases List.eq_nil_or_concat (comps m'.name) with h | ⟨u, c, h⟩
              · exact absurd h hne
              · exact ⟨u, c, by rw [h, List.concat_eq_append]⟩
            have hnc'' : comps m''.name = ups ++ [c] := by rw [hm'']; simp only []; rw [comps_lstripSlash, hnc]
            have hups : ∀ x ∈ ups, Plain x := fun x hx => hplain x (by rw [hnc]; simp [hx])
            have hc : Plain c := hplain c (by rw [hnc]; simp)
            rw [hnc] at hP hR
            simp only [List.dropLast_concat] at hP
            rw [← List.append_assoc] at hR
            have hlnk'' : m''.type = .lnk → LinkOk dest cfg st.fs m''.linkname ∧
                LinkStrict dest cfg st.fs (dest ++ comps m''.name) m''.linkname := by
              rw [hm'']; simp only []; rw [comps_lstripSlash]; exact hlnk
            have := extractMember_conf hdne hdp hfuel h.inv hnc'' hups hc hP hPin hR hRin hlnk'' st.prev
            exact RunInv.member ha h this.1 this.2

/-- the whole member loop -/
theorem RunInv.run (hcf : cfg.filter = true) (hcn : cfg.canonNames = true) (hcp : cfg.parentCheck = true)
    (hcl : cfg.lnkCheck = 2) (hdne : dest ≠ []) (hdp : ∀ c ∈ dest, c ≠ dot ∧ c ≠ dotdot)
    (hfuel : dest.length ≤ cfg.fuel) (ha : AuditOk dest audit cfg fs0)
    (hinv : Inv dest fs0) (hsep : Sep dest fs0) (vsn : Option Str) (ms : List Member) :
    RunInv dest audit fs0 (extractPackage cfg dest audit vsn fs0 ms).fs := by
  unfold extractPackage
  split
  · exact RunInv.init hinv hsep ha
  · have : ∀ (ms : List Member) (st : St), RunInv dest audit fs0 st.fs →
        RunInv dest audit fs0 (ms.foldl (stepMember cfg dest audit) st).fs := by
      intro ms
      induction ms with
      | nil => intro st h; exact h
      | cons m ms ih =>
        intro st h
        exact ih _ (RunInv.step hcf hcn hcp hcl hdne hdp hfuel ha hinv.fresh st m h)
    exact this ms _ (RunInv.init hinv hsep ha)

end Run
end TarExtract
