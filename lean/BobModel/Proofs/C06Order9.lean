import BobModel.Proofs.C06Order8
/-
Ordering invariants of the scheduler model, part 9: building blocks for the preservation of `DepsInv`
(**deps_first**): the body that `_cookStep` pushes is well ordered (`cookBodyOps_chk`: the `lock` that leads to the
script is preceded by the `_cook` of the dependencies), a script start extends `depsFirst` (`first_start`), and
the step that enters the workspace lock preserves `DepsInv` (`DepsInv.afterLockStep`).
The case analysis over all operations of `stepTask` is in part 10, the lift over `Reach` in part 11 (parallel
mode; the sequential mode `cfg.par = false` additionally needs "the tasks in `made` are done" as a second kind of
obligation of `chk`, covered by `waitOnly`: not done).
-/
namespace Sched
open JobSem

theorem WasOk_false_RanAt {P : Project} {wr : WasRun} {d : Nat} (h : WasOk P wr d false) : RanAt wr (P.info d).path := by
  obtain ⟨sk, h1, h2⟩ := h
  rcases h2 with h2 | h2
  · cases h2
  · subst h2; exact ⟨_, h1⟩

theorem chk_cons_noneed {P : Project} {g : St} {o : Op} {r : List Op} {C : Nat → Prop} (hn : ∀ s, ¬ needs P o s)
    (h : chk P g C r) : chk P g C (o :: r) :=
  ⟨fun s hs => absurd hs (hn s), chk_mono (fun _ _ h => h) r _ _ (fun _ hs => Or.inl hs) h⟩

theorem chk_cook_lock {P : Project} {g : St} (C : Nat → Prop) (s : Nat) (co c : Bool) (hc : willRun P s co → c = false) :
    chk P g C [.cook (P.info s).deps c, .lock s co false] := by
  refine ⟨fun s' h => by simp [needs] at h, ⟨fun s' h => ?_, trivial⟩⟩
  simp only [needs] at h
  obtain ⟨_, e, hw⟩ := h
  subst e
  right
  show c = false ∧ covered P g s' (P.info s').deps []
  exact ⟨hc hw, fun d hd _ => Or.inr (Or.inl hd)⟩

/-- the body that `_cookStep` pushes for a step that has not been run -/
def cookBodyOps (P : Project) (s : Nat) (co : Bool) : List Op :=
  match (P.info s).kind with
  | .checkout => [.cook (P.info s).deps false, .lock s co false]
  | .build => [.cook (P.info s).deps co, .lock s co false]
  | .package =>
    (if co then [] else [Op.spawn .bid [s] false, .lock s co true]) ++ [.cook (P.info s).deps co, .lock s co false]

theorem cookBodyOps_chk {P : Project} {g : St} (C : Nat → Prop) (s : Nat) (co : Bool) : chk P g C (cookBodyOps P s co) := by
  unfold cookBodyOps
  cases hk : (P.info s).kind
  · exact chk_cook_lock C s co false (fun _ => rfl)
  · refine chk_cook_lock C s co co (fun hw => ?_)
    rcases hw with h | h
    · rw [hk] at h; cases h
    · exact h
  · have hc : willRun P s co → co = false := by
      intro hw
      rcases hw with h | h
      · rw [hk] at h; cases h
      · exact h
    cases co
    · exact chk_cons_noneed (by simp [needs]) (chk_cons_noneed (by simp [needs]) (chk_cook_lock C s false false hc))
    · exact chk_cook_lock C s true true hc

theorem cookBodyOps_props (P : Project) (s : Nat) (co : Bool) :
    (∀ o ∈ cookBodyOps P s co, (∀ s', o ≠ .setRun s' false) ∧ SVop P o) ∧
    (co = false → Op.lock s false false ∈ cookBodyOps P s co) := by
  unfold cookBodyOps
  cases (P.info s).kind <;> cases co <;> simp [SVop]

theorem chk_run {P : Project} {g : St} (s : Nat) (h : depsDone P g s) :
    chk P g (depsDone P g) [.run s, .setRun s false] := by
  refine ⟨fun s' hs => ?_, chk_cons_noneed (by simp [needs]) trivial⟩
  simp only [needs] at hs
  subst hs; exact h

theorem first_start {P : Project} {tr : List Ev} (t s : Nat) (h1 : depsFirstFrom P [] tr = true)
    (h2 : ∀ d ∈ (P.info s).deps, (P.info d).valid = true → finishedOk P tr (P.info d).path = true) :
    depsFirstFrom P [] (tr ++ [Ev.start t s]) = true := by
  rw [depsFirstFrom_append, h1]
  simp only [List.nil_append, depsFirstFrom, Bool.and_true, Bool.true_and]
  rw [List.all_eq_true]
  intro d hd
  cases hv : (P.info d).valid
  · simp
  · simp [h2 d hd hv]

/-- `lock` / `lockWait` got the lock -/
theorem DepsInv.afterLockStep {P : Project} {st g : St} {t : Nat} {op : Op} {rest : List Op} {s : Nat} {co dl : Bool}
    (hi : DepsInv P st) (hops : (st.task t).ops = op :: rest)
    (hop : op = .lock s co dl ∨ op = .lockWait s co dl)
    (hg : g.tasks = st.tasks) (hc : g.cookT = st.cookT) (hwr : g.wasRun = st.wasRun) (htr : g.trace = st.trace) :
    DepsInv P (g.setTask t (afterLock P (st.task t) s co dl rest)) := by
  have hord := hi.ord t
  rw [hops] at hord
  obtain ⟨q1, q2, q3⟩ := hi.quiet hwr ⟨[], by simp [htr], by simp⟩
  have hdd : ∀ s', depsDone P st s' → depsDone P g s' := fun s' h => depsDone_mono q2 s' h
  have hneed : dl = false → willRun P s co → depsDone P st s := by
    intro h1 h2
    rcases hop with e | e <;> subst e <;> exact hord.1 s ⟨h1, rfl, h2⟩
  have hT : Track P g := hi.track.grow (new := []) (by simp [hg]) (by rw [hc]; exact fun e he => he)
  have := hi.bodyStep hops (GrowT.same hg) q1 q2 q3 hT
    [if dl then Op.download s else Op.underLock s co, .unlock (P.info s).path] (st.task t).err id ?_ ?_ ?_ ?_ ?_ ?_
  · exact this
  · cases dl
    · refine ⟨fun s' hs => ?_, chk_cons_noneed (by simp [needs]) trivial⟩
      simp only [Bool.false_eq_true, ↓reduceIte, needs] at hs
      obtain ⟨e, hw⟩ := hs
      subst e
      exact hdd _ (hneed rfl hw)
    · exact chk_cons_noneed (by simp [needs]) (chk_cons_noneed (by simp [needs]) trivial)
  · intro s' hcv
    rcases hop with e | e <;> subst e <;> simp [covers] at hcv
  · intro s' hs
    cases dl <;> simp at hs
  · intro s' hs
    rcases hs with hs | ⟨r, hs⟩ <;> rcases hop with e | e <;> subst e <;> cases hs
  · intro s' hlv _ _
    right
    have : (s = s' ∧ co = false) ∧ dl = false := by
      rcases hop with e | e <;> subst e <;> simpa [liveFor] using hlv
    obtain ⟨⟨e1, e2⟩, e3⟩ := this
    subst e1; subst e2; subst e3
    exact ⟨.underLock s false, by simp, by simp [liveFor]⟩
  · intro o ho
    cases dl <;> simp at ho <;> rcases ho with e | e <;> subst e <;> trivial

end Sched
