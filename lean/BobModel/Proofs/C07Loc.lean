import BobModel.Model.Download
/-
C07 helper lemmas, part 1: the effect of the micro-operation blocks (`prepOps`, `dlOps`, `pkgOps`) on the
state of the one workspace they address, and the invariant that makes a recorded
`built [bid, inputs…]` / `downloaded bid` entry trustworthy.
-/
namespace Download

/-- effect of a micro-operation on the state of the workspace it addresses -/
def locOp (E : Env) (l : Loc) : Op → Loc
  | .mkDir _ => { l with disk := some emptyC }
  | .reset _ v => { l with res := none, inp := none, dir := v, vidv := none }
  | .emptyDir _ => { l with disk := some emptyC }
  | .rmAudit _ => { l with audit := none }
  | .download _ _ .notFound => l
  | .download _ _ (.extracted c au) => { l with disk := some c, audit := au }
  | .download _ _ .failed => { l with disk := some E.junk, audit := none }
  | .hashWs _ => l
  | .auditRead _ => l
  | .delInputs _ => { l with inp := none }
  | .setResult _ r => { l with res := some r }
  | .setVid _ v => { l with vidv := some v }
  | .setInputs _ i => { l with inp := some i }
  | .runPackage _ c => { l with disk := some c, audit := some (E.H c) }
  | .upload _ _ => l
  | .mispredict _ => l

theorem upd_same {β : Type} (f : Path → β) (p : Path) (v : β) : upd f p v p = v := by simp [upd]

theorem upd_other {β : Type} (f : Path → β) (p q : Path) (v : β) (h : p ≠ q) : upd f p v q = f q := by
  have : ¬ q = p := fun e => h e.symm
  simp [upd, this]

theorem loc_applyOp_same (E : Env) (sa : St × Archive) (op : Op) :
    ((applyOp E sa op).1).loc op.path = locOp E (sa.1.loc op.path) op := by
  obtain ⟨s, a⟩ := sa
  cases op with
  | download p b r => cases r <;> simp [applyOp, locOp, St.loc, Op.path, upd_same]
  | upload p b =>
    simp only [applyOp, locOp, Op.path]
    split <;> rfl
  | _ => simp [applyOp, locOp, St.loc, Op.path, St.reset, upd_same]

theorem loc_applyOp_other (E : Env) (sa : St × Archive) (op : Op) (q : Path) (h : op.path ≠ q) :
    ((applyOp E sa op).1).loc q = sa.1.loc q := by
  obtain ⟨s, a⟩ := sa
  cases op with
  | download p b r =>
    have h' : p ≠ q := h
    cases r <;> simp [applyOp, St.loc, upd_other _ _ _ _ h']
  | upload p b =>
    simp only [applyOp]
    split <;> rfl
  | _ =>
    simp only [Op.path] at h
    simp [applyOp, St.loc, St.reset, upd_other _ _ _ _ h]

def Op.isUpload : Op → Bool
  | .upload _ _ => true
  | _ => false

theorem arch_applyOp (E : Env) (sa : St × Archive) (op : Op) (h : op.isUpload = false) :
    (applyOp E sa op).2 = sa.2 := by
  obtain ⟨s, a⟩ := sa
  cases op with
  | download p b r => cases r <;> rfl
  | upload p b => simp [Op.isUpload] at h
  | _ => rfl

theorem loc_applyOps_same (E : Env) (p : Path) (ops : List Op) : ∀ (sa : St × Archive), (∀ op ∈ ops, op.path = p) →
    ((applyOps E sa ops).1).loc p = ops.foldl (locOp E) (sa.1.loc p) := by
  induction ops with
  | nil => intro sa _; rfl
  | cons op ops ih =>
    intro sa h
    have hp : op.path = p := h op (by simp)
    simp only [applyOps, List.foldl_cons]
    have := ih (applyOp E sa op) (fun o ho => h o (by simp [ho]))
    simp only [applyOps] at this
    rw [this, ← hp, loc_applyOp_same]

theorem loc_applyOps_other (E : Env) (p q : Path) (hq : p ≠ q) (ops : List Op) : ∀ (sa : St × Archive), (∀ op ∈ ops, op.path = p) →
    ((applyOps E sa ops).1).loc q = sa.1.loc q := by
  induction ops with
  | nil => intro sa _; rfl
  | cons op ops ih =>
    intro sa h
    have hp : op.path = p := h op (by simp)
    simp only [applyOps, List.foldl_cons]
    have := ih (applyOp E sa op) (fun o ho => h o (by simp [ho]))
    simp only [applyOps] at this
    rw [this, loc_applyOp_other E sa op q (by rw [hp]; exact hq)]

theorem arch_applyOps (E : Env) (ops : List Op) : ∀ (sa : St × Archive), (∀ op ∈ ops, op.isUpload = false) →
    (applyOps E sa ops).2 = sa.2 := by
  induction ops with
  | nil => intro sa _; rfl
  | cons op ops ih =>
    intro sa h
    simp only [applyOps, List.foldl_cons]
    have := ih (applyOp E sa op) (fun o ho => h o (by simp [ho]))
    simp only [applyOps] at this
    rw [this, arch_applyOp E sa op (h op (by simp))]

theorem applyOps_append (E : Env) (sa : St × Archive) (l1 l2 : List Op) :
    applyOps E sa (l1 ++ l2) = applyOps E (applyOps E sa l1) l2 := by
  simp [applyOps, List.foldl_append]

/-! ### the blocks address one workspace and never upload -/

theorem prepOps_path (i : PInfo) (l : Loc) : ∀ op ∈ prepOps i l, op.path = i.path ∧ op.isUpload = false := by
  intro op h
  unfold prepOps at h
  simp only at h
  split at h
  · simp at h; rcases h with rfl | rfl | rfl <;> simp [Op.path, Op.isUpload]
  · split at h
    · simp at h; subst h; simp [Op.path, Op.isUpload]
    · simp at h

theorem dlFetchOps_path (E : Env) (cfg : Cfg) (depth : Nat) (i : PInfo) (b : BuildId) (f : Fetch) :
    ∀ op ∈ (dlFetchOps E cfg depth i b f).1, op.path = i.path ∧ op.isUpload = false := by
  intro op h
  unfold dlFetchOps at h
  cases f with
  | notFound => simp at h; subst h; simp [Op.path, Op.isUpload]
  | failed => simp at h; subst h; simp [Op.path, Op.isUpload]
  | extracted c au =>
    cases au with
    | none => simp at h; subst h; simp [Op.path, Op.isUpload]
    | some hh =>
      simp only at h
      split at h
      · simp at h; rcases h with rfl | rfl | rfl <;> simp [Op.path, Op.isUpload]
      · simp at h; rcases h with rfl | rfl | rfl | rfl | rfl | rfl | rfl <;> simp [Op.path, Op.isUpload]

theorem dlOps_path (E : Env) (cfg : Cfg) (depth : Nat) (i : PInfo) (b : BuildId) (l : Loc) (x : Option Artifact) :
    ∀ op ∈ (dlOps E cfg depth i b l x).1, op.path = i.path ∧ op.isUpload = false := by
  intro op h
  unfold dlOps at h
  simp only at h
  have hmk : ∀ o ∈ (if l.disk.isNone = true then [Op.mkDir i.path] else []), o.path = i.path ∧ o.isUpload = false := by
    intro o ho; split at ho
    · simp at ho; subst ho; simp [Op.path, Op.isUpload]
    · simp at ho
  have hpr : ∀ o ∈ (if dlPrune cfg b (dissect l.inp) = true then
      [Op.reset i.path none, Op.emptyDir i.path, Op.rmAudit i.path, Op.reset i.path (some i.vid)] else []),
      o.path = i.path ∧ o.isUpload = false := by
    intro o ho; split at ho
    · simp at ho; rcases ho with rfl | rfl | rfl | rfl <;> simp [Op.path, Op.isUpload]
    · simp at ho
  split at h
  · simp at h
  · split at h
    · simp only [List.mem_append] at h
      rcases h with (h | h) | h
      · exact hmk op h
      · exact hpr op h
      · exact dlFetchOps_path E cfg depth i b _ op h
    · split at h <;> (simp only [List.mem_append] at h; rcases h with h | h; exact hmk op h; exact hpr op h)

theorem pkgOps_path (E : Env) (cfg : Cfg) (i : PInfo) (b : BuildId) (depC : List Content) (tok : Nat) (l : Loc) :
    ∀ op ∈ (pkgOps E cfg i b depC tok l).1, op.path = i.path ∧ op.isUpload = false := by
  intro op h
  unfold pkgOps at h
  simp only at h
  have hmk : ∀ o ∈ (if l.disk.isNone = true then [Op.mkDir i.path] else []), o.path = i.path ∧ o.isUpload = false := by
    intro o ho; split at ho
    · simp at ho; subst ho; simp [Op.path, Op.isUpload]
    · simp at ho
  split at h
  · exact hmk op h
  · simp only [List.mem_append] at h
    rcases h with h | h
    · exact hmk op h
    · simp at h; rcases h with rfl | rfl | rfl | rfl | rfl | rfl | rfl <;> simp [Op.path, Op.isUpload]

/-! ### honest and corrupt archive entries -/

/-- an archive entry as some cook of some project state uploaded it under its Build-Id: the result of a local
build of a package with that Build-Id, with an audit trail that records its hash -/
def Honest (E : Env) (b : BuildId) (x : Artifact) : Prop :=
  ∃ t : Pkg, tb E t = b ∧ x = .good (value E t) (some (E.H (value E t)))

/-- anything the verification of a download rejects: extraction fails, no audit trail, or the recorded result
hash is not the hash of the content -/
def Corrupt (E : Env) : Artifact → Prop
  | .broken => True
  | .good _ none => True
  | .good c (some h) => h ≠ E.H c

def ArchOK (E : Env) (a : Archive) : Prop := ∀ b x, a b = some x → Honest E b x ∨ Corrupt E x

/-- the Build-Id digest is injective (C07.bid_injective for the byte level) -/
def BInj (E : Env) : Prop :=
  ∀ rs s bs rs' s' bs', E.B rs s bs = E.B rs' s' bs' → rs = rs' ∧ s = s' ∧ bs = bs'

theorem value_of_tb_aux (E : Env) (hB : BInj E) (t : Pkg) : ∀ t', tb E t = tb E t' → value E t = value E t' :=
  Pkg.rec (motive_1 := fun t => ∀ t', tb E t = tb E t' → value E t = value E t')
    (motive_2 := fun ds => ∀ ds', tbs E ds = tbs E ds' → values E ds = values E ds')
    (fun i ds ih t' h => by
      cases t' with
      | mk i' ds' =>
        simp only [tb] at h
        obtain ⟨h1, h2, h3⟩ := hB _ _ _ _ _ _ h
        simp only [value]
        rw [h1, h2, ih ds' h3])
    (fun ds' h => by
      cases ds' with
      | nil => rfl
      | cons d' ds' => simp [tbs] at h)
    (fun d ds ihd ihds ds' h => by
      cases ds' with
      | nil => simp [tbs] at h
      | cons d' ds' =>
        simp only [tbs, List.cons.injEq] at h
        simp only [values]
        rw [ihd d' h.1, ihds ds' h.2])
    t

/-- **equal Build-Ids, equal results** (deterministic scripts, injective digest) -/
theorem value_of_tb (E : Env) (hB : BInj E) {t t' : Pkg} (h : tb E t = tb E t') : value E t = value E t' :=
  value_of_tb_aux E hB t t' h

/-- what the download logic needs of the Build-Id: packages with equal Build-Ids have equal results -/
def BidSound (E : Env) : Prop := ∀ t t' : Pkg, tb E t = tb E t' → value E t = value E t'

theorem bidSound_of_inj (E : Env) (hB : BInj E) : BidSound E := fun _ _ h => value_of_tb E hB h

/-! ### the invariant of one workspace -/

structure InvLoc (E : Env) (ρ : Vid → RSig) (l : Loc) : Prop where
  /-- a workspace recorded as downloaded under `b` that has a result holds the result of a local build of a
  package with Build-Id `b` -/
  dl : ∀ b, l.inp = some (.downloaded b) → l.res ≠ none → ∃ t, tb E t = b ∧ l.disk = some (value E t)
  /-- a workspace recorded as built has a real result hash and holds what the package script of the recorded
  variant leaves for an input with the recorded hash -/
  built : ∀ b ins, l.inp = some (.built b ins) →
    (∃ h, l.res = some (.hash h)) ∧
    ∃ v c, l.dir = some v ∧ ins = [some (.hash (E.H c))] ∧ l.disk = some (E.semP (ρ v) c)

/-- what `_preparePackageStep` establishes -/
def Prep (i : PInfo) (l : Loc) : Prop :=
  l.dir = some i.vid ∧ (l.disk = none → l.inp = none ∧ l.res = none)

theorem invLoc_of_inp_none (E : Env) (ρ : Vid → RSig) (l : Loc) (h : l.inp = none) : InvLoc E ρ l :=
  ⟨fun b hb => (by rw [h] at hb; cases hb), fun b ins hb => (by rw [h] at hb; cases hb)⟩

theorem prep_block (E : Env) (ρ : Vid → RSig) (i : PInfo) (l : Loc) (h : InvLoc E ρ l) :
    InvLoc E ρ ((prepOps i l).foldl (locOp E) l) ∧ Prep i ((prepOps i l).foldl (locOp E) l) := by
  unfold prepOps
  cases hd : l.disk with
  | none =>
    simp only [Option.isSome_none, Bool.false_and, Bool.false_eq_true, if_false, Bool.not_false, if_true,
      List.foldl_cons, List.foldl_nil, locOp]
    exact ⟨invLoc_of_inp_none E ρ _ rfl, rfl, fun _ => ⟨rfl, rfl⟩⟩
  | some c =>
    by_cases hv : l.dir = some i.vid
    · simp only [Option.isSome_some, Bool.true_and, hv, ne_eq, not_true_eq_false, decide_false, Bool.false_eq_true,
        if_false, Bool.not_true, List.foldl_nil]
      exact ⟨h, hv, fun e => by rw [hd] at e; cases e⟩
    · simp only [Option.isSome_some, Bool.true_and, ne_eq, hv, not_false_eq_true, decide_true, if_true,
        List.foldl_cons, List.foldl_nil, locOp]
      exact ⟨invLoc_of_inp_none E ρ _ rfl, rfl, fun e => by cases e⟩

/-- the download branch proper: the workspace has no result and is not recorded as built -/
theorem dlFetch_block (E : Env) (ρ : Vid → RSig) (cfg : Cfg) (depth : Nat) (i : PInfo) (b : BuildId) (l : Loc)
    (x : Option Artifact) (hx : ∀ y, x = some y → Honest E b y ∨ Corrupt E y)
    (hres : l.res = none) (hnb : ∀ b' ins, l.inp ≠ some (.built b' ins)) (hdir : l.dir = some i.vid)
    (hdisk : l.disk ≠ none) :
    InvLoc E ρ ((dlFetchOps E cfg depth i b (fetch cfg x)).1.foldl (locOp E) l) ∧
    Prep i ((dlFetchOps E cfg depth i b (fetch cfg x)).1.foldl (locOp E) l) ∧
    ((dlFetchOps E cfg depth i b (fetch cfg x)).2 = .downloaded →
      ∃ t0, tb E t0 = b ∧ ((dlFetchOps E cfg depth i b (fetch cfg x)).1.foldl (locOp E) l).disk = some (value E t0)) := by
  have keep : ∀ l' : Loc, l'.res = none → l'.inp = l.inp → l'.dir = l.dir → l'.disk ≠ none →
      InvLoc E ρ l' ∧ Prep i l' := by
    intro l' h1 h2 h3 h4
    refine ⟨⟨fun b0 _ hr => absurd h1 hr, fun b0 ins hb => absurd (h2 ▸ hb) (hnb b0 ins)⟩, ?_, fun e => absurd e h4⟩
    rw [h3]; exact hdir
  cases hf : fetch cfg x with
  | notFound =>
    simp only [dlFetchOps, List.foldl_cons, List.foldl_nil, locOp]
    refine ⟨(keep l hres rfl rfl hdisk).1, (keep l hres rfl rfl hdisk).2, ?_⟩
    intro hh
    split at hh
    · cases hh
    · split at hh <;> cases hh
  | failed =>
    simp only [dlFetchOps, List.foldl_cons, List.foldl_nil, locOp]
    have k := keep { l with disk := some E.junk, audit := none } hres rfl rfl (by simp)
    exact ⟨k.1, k.2, fun hh => by cases hh⟩
  | extracted c au =>
    cases au with
    | none =>
      simp only [dlFetchOps, List.foldl_cons, List.foldl_nil, locOp]
      have k := keep { l with disk := some c, audit := none } hres rfl rfl (by simp)
      exact ⟨k.1, k.2, fun hh => by cases hh⟩
    | some h =>
      by_cases hc : h = E.H c
      · -- verified: the entry cannot be corrupt, so it is honest
        have hy : x = some (.good c (some h)) := by
          unfold fetch at hf
          split at hf
          · cases hf
          · split at hf
            · cases hf
            · simp only [Fetch.extracted.injEq] at hf; rw [hf.1, hf.2]
            · cases hf
        have hon : Honest E b (.good c (some h)) := by
          rcases hx _ hy with hh | hh
          · exact hh
          · exact absurd hc hh
        obtain ⟨t0, ht0, hg⟩ := hon
        simp only [Artifact.good.injEq] at hg
        simp only [dlFetchOps, hc, ne_eq, not_true_eq_false, if_false, List.foldl_cons, List.foldl_nil, locOp]
        refine ⟨⟨?_, ?_⟩, ⟨hdir, fun e => by cases e⟩, fun _ => ⟨t0, ht0, by rw [hg.1]⟩⟩
        · intro b0 hb0 _
          simp only [Option.some.injEq, PkgInputs.downloaded.injEq] at hb0
          exact ⟨t0, by rw [ht0, hb0], by rw [hg.1]⟩
        · intro b0 ins hb0
          cases hb0
      · simp only [dlFetchOps, ne_eq, hc, not_false_eq_true, if_true, List.foldl_cons, List.foldl_nil, locOp]
        have k := keep { l with disk := some c, audit := some h } hres rfl rfl (by simp)
        exact ⟨k.1, k.2, fun hh => by cases hh⟩

theorem foldl_mk (E : Env) (p : Path) (l : Loc) :
    (if l.disk.isNone = true then [Op.mkDir p] else []).foldl (locOp E) l
      = { l with disk := some (l.disk.getD emptyC) } := by
  cases l with
  | mk res inp dir vidv disk audit =>
    cases disk with
    | none => simp [locOp]
    | some c => simp

/-- **`_downloadPackage` keeps the workspace invariant**, and a reported download leaves the result of a local
build of a package with the requested Build-Id -/
theorem dl_block (E : Env) (ρ : Vid → RSig) (cfg : Cfg) (depth : Nat) (i : PInfo) (b : BuildId) (l : Loc)
    (x : Option Artifact) (hx : ∀ y, x = some y → Honest E b y ∨ Corrupt E y)
    (hI : InvLoc E ρ l) (hP : Prep i l) :
    InvLoc E ρ ((dlOps E cfg depth i b l x).1.foldl (locOp E) l) ∧
    Prep i ((dlOps E cfg depth i b l x).1.foldl (locOp E) l) ∧
    ((dlOps E cfg depth i b l x).2 = .downloaded →
      ∃ t0, tb E t0 = b ∧ ((dlOps E cfg depth i b l x).1.foldl (locOp E) l).disk = some (value E t0)) := by
  unfold dlOps
  simp only
  split
  · exact ⟨hI, hP, fun h => by cases h⟩
  · -- after `_constructDir`
    have hl1 : InvLoc E ρ { l with disk := some (l.disk.getD emptyC) } ∧ Prep i { l with disk := some (l.disk.getD emptyC) } := by
      cases hd : l.disk with
      | none =>
        have := hP.2 hd
        exact ⟨invLoc_of_inp_none E ρ _ this.1, hP.1, fun e => by cases e⟩
      | some c =>
        have e : ({ l with disk := some ((some c : Option Content).getD emptyC) } : Loc) = l := by
          cases l; simp_all
        rw [e]; exact ⟨hI, hP⟩
    split
    · -- download branch
      rename_i hcond
      rw [List.foldl_append, List.foldl_append, foldl_mk]
      by_cases hp : dlPrune cfg b (dissect l.inp) = true
      · simp only [hp, if_true, List.foldl_cons, List.foldl_nil, locOp]
        exact dlFetch_block E ρ cfg depth i b _ x hx rfl (fun _ _ h => by cases h) rfl (by simp)
      · simp only [hp, Bool.false_eq_true, if_false, List.foldl_nil]
        have hres : l.res = none := by
          simp only [hp, Bool.false_or, Option.isNone_iff_eq_none] at hcond
          exact hcond
        refine dlFetch_block E ρ cfg depth i b _ x hx hres ?_ hP.1 (by simp)
        intro b' ins hb
        obtain ⟨⟨h, hh⟩, _⟩ := hI.built b' ins hb
        rw [hres] at hh; cases hh
    · rename_i hcond
      have hp : dlPrune cfg b (dissect l.inp) = false := by
        cases h : dlPrune cfg b (dissect l.inp) with
        | false => rfl
        | true => simp [h] at hcond
      have hres : l.res ≠ none := by
        intro e
        simp [hp, e] at hcond
      have hdisk : l.disk ≠ none := fun e => hres (hP.2 e).2
      have hmk : (if l.disk.isNone = true then [Op.mkDir i.path] else []) = [] := by
        cases hd : l.disk with
        | none => exact absurd hd hdisk
        | some c => simp
      split
      · -- already downloaded
        rename_i hwd
        simp only [hmk, hp, Bool.false_eq_true, if_false, List.append_nil, List.foldl_nil]
        refine ⟨hI, hP, fun _ => ?_⟩
        cases hi : l.inp with
        | none => simp [hi, dissect] at hwd
        | some pi =>
          cases pi with
          | downloaded b0 =>
            have hb : b0 = b := by
              simp only [dlPrune, hi, dissect, Bool.or_eq_false_iff, decide_eq_false_iff_not, ne_eq, Decidable.not_not] at hp
              exact hp.1
            obtain ⟨t0, h1, h2⟩ := hI.dl b0 hi hres
            exact ⟨t0, by rw [h1, hb], h2⟩
          | built b0 ins => simp [hi, dissect] at hwd
          | shared b0 loc => simp [hi, dissect] at hwd
          | legacy => simp [hi, dissect] at hwd
      · simp only [hmk, hp, Bool.false_eq_true, if_false, List.append_nil, List.foldl_nil]
        exact ⟨hI, hP, fun h => by cases h⟩

/-- **`_cookPackageStep` leaves the result of the package script on the current inputs**, whether it runs or
skips ("unchanged input") -/
theorem pkg_block (E : Env) (ρ : Vid → RSig) (hH : Function.Injective E.H) (cfg : Cfg) (i : PInfo) (b : BuildId)
    (depC : List Content) (tok : Nat) (l : Loc) (hI : InvLoc E ρ l) (hP : Prep i l) (hρ : ρ i.vid = i.rsig) :
    InvLoc E ρ ((pkgOps E cfg i b depC tok l).1.foldl (locOp E) l) ∧
    ((pkgOps E cfg i b depC tok l).1.foldl (locOp E) l).disk = some (E.semP i.rsig (E.semB i.rsig i.src depC)) ∧
    ((pkgOps E cfg i b depC tok l).2 = true →
      ((pkgOps E cfg i b depC tok l).1.foldl (locOp E) l).audit = some (E.H (E.semP i.rsig (E.semB i.rsig i.src depC)))) := by
  unfold pkgOps
  simp only
  split
  · -- skipped (unchanged input)
    rename_i hc
    simp only [Bool.and_eq_true, Bool.not_eq_true', decide_eq_true_eq] at hc
    have hold := hc.2
    cases hi : l.inp with
    | none => simp [hi, dissect] at hold
    | some pi =>
      cases pi with
      | built b0 ins =>
        simp only [hi, dissect, Option.some.injEq] at hold
        obtain ⟨_, v, c, hv, hins, hd⟩ := hI.built b0 ins hi
        have hvv : v = i.vid := by
          have := hP.1; rw [hv] at this; exact Option.some.inj this
        have hcc : c = E.semB i.rsig i.src depC := by
          rw [hold] at hins
          simp only [List.cons.injEq, Option.some.injEq, RH.hash.injEq, and_true] at hins
          exact (hH hins).symm
        have hmk : (if l.disk.isNone = true then [Op.mkDir i.path] else []) = [] := by
          rw [hd]; simp
        rw [hmk]
        simp only [List.foldl_nil]
        refine ⟨hI, ?_, fun h => by cases h⟩
        rw [hd, hvv, hρ, hcc]
      | downloaded b0 => simp [hi, dissect] at hold
      | shared b0 loc => simp [hi, dissect] at hold
      | legacy => simp [hi, dissect] at hold
  · rw [List.foldl_append, foldl_mk]
    simp only [List.foldl_cons, List.foldl_nil, locOp]
    refine ⟨⟨?_, ?_⟩, ?_⟩
    · intro b0 hb0; cases hb0
    · intro b0 ins hb0
      simp only [Option.some.injEq, PkgInputs.built.injEq] at hb0
      refine ⟨⟨_, rfl⟩, i.vid, E.semB i.rsig i.src depC, hP.1, hb0.2.symm, ?_⟩
      rw [hρ]
    · simp

end Download
