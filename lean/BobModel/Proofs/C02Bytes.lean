import BobModel.Model.Digest
/-
Helper lemmas for C02/C03: the primitive encoders are prefix free.
  * `le_inj`          little-endian fixed width integers
  * `utf8_char_pf`    UTF-8 of one code point (from core's decode/encode round trip)
  * `utf8_take`       "code-point count ‖ UTF-8" determines the string and the rest
-/
namespace Digest

theorem le_length (k n : Nat) : (Bytes.le k n).length = k := by
  induction k generalizing n with
  | zero => simp [Bytes.le]
  | succ k ih => simp [Bytes.le, ih]

theorem le_inj (k n m : Nat) (h : Bytes.le k n = Bytes.le k m) : n % 256 ^ k = m % 256 ^ k := by
  induction k generalizing n m with
  | zero => simp [Nat.mod_one]
  | succ k ih =>
    simp only [Bytes.le, List.cons.injEq] at h
    obtain ⟨h0, h1⟩ := h
    have h0' : n % 256 = m % 256 := by
      have := congrArg UInt8.toNat h0
      simpa using this
    have h1' := ih _ _ h1
    rw [Nat.pow_succ, Nat.mul_comm, Nat.mod_mul, Nat.mod_mul, h0', h1']

theorem le4_length (n : Nat) : (le4 n).length = 4 := le_length _ _

theorem le4_inj {n m : Nat} (hn : n < 2 ^ 32) (hm : m < 2 ^ 32) (h : le4 n = le4 m) : n = m := by
  have := le_inj 4 n m h
  have e : (256 : Nat) ^ 4 = 2 ^ 32 := by decide
  rw [e, Nat.mod_eq_of_lt hn, Nat.mod_eq_of_lt hm] at this
  exact this

/-- a `le4` header in front of two byte strings can be split off -/
theorem le4_split {n m : Nat} {r s : Bytes} (hn : n < 2 ^ 32) (hm : m < 2 ^ 32)
    (h : le4 n ++ r = le4 m ++ s) : n = m ∧ r = s := by
  have ⟨h1, h2⟩ := List.append_inj h (by rw [le4_length, le4_length])
  exact ⟨le4_inj hn hm h1, h2⟩

theorem utf8_char_pf {c c' : Char} {r r' : Bytes}
    (h : String.utf8EncodeChar c ++ r = String.utf8EncodeChar c' ++ r') : c = c' ∧ r = r' := by
  have h1 : ((String.utf8EncodeChar c).toByteArray ++ List.toByteArray r).utf8DecodeChar? 0 = some c :=
    ByteArray.utf8DecodeChar?_utf8EncodeChar_append
  have h2 : ((String.utf8EncodeChar c').toByteArray ++ List.toByteArray r').utf8DecodeChar? 0 = some c' :=
    ByteArray.utf8DecodeChar?_utf8EncodeChar_append
  have e : (String.utf8EncodeChar c).toByteArray ++ List.toByteArray r
         = (String.utf8EncodeChar c').toByteArray ++ List.toByteArray r' := by
    have := congrArg List.toByteArray h
    rw [List.toByteArray_append', List.toByteArray_append'] at this
    simpa [ByteArray.append_eq] using this
  rw [e, h2] at h1
  have hc : c' = c := Option.some.inj h1
  subst hc
  exact ⟨rfl, List.append_cancel_left h⟩

theorem utf8_nil : utf8 [] = [] := rfl

theorem utf8_cons (c : Char) (s : Str) : utf8 (c :: s) = String.utf8EncodeChar c ++ utf8 s := by
  simp [utf8]

theorem utf8_append (s t : Str) : utf8 (s ++ t) = utf8 s ++ utf8 t := by
  simp [utf8]

/-- **code-point counted UTF-8 is self-delimiting**: two strings with the same number of code points
whose encodings are followed by arbitrary bytes agree as soon as the byte strings agree -/
theorem utf8_take {s s' : Str} {r r' : Bytes} (hl : s.length = s'.length)
    (h : utf8 s ++ r = utf8 s' ++ r') : s = s' ∧ r = r' := by
  induction s generalizing s' with
  | nil =>
    cases s' with
    | nil => simpa [utf8] using h
    | cons c t => simp at hl
  | cons c t ih =>
    cases s' with
    | nil => simp at hl
    | cons c' t' =>
      rw [utf8_cons, utf8_cons, List.append_assoc, List.append_assoc] at h
      have ⟨hc, hr⟩ := utf8_char_pf h
      have ⟨ht, hr'⟩ := ih (by simpa using hl) hr
      exact ⟨by rw [hc, ht], hr'⟩

theorem encStr_pf {s s' : Str} {r r' : Bytes} (hs : lenOk s) (hs' : lenOk s')
    (h : encStr s ++ r = encStr s' ++ r') : s = s' ∧ r = r' := by
  unfold encStr at h
  rw [List.append_assoc, List.append_assoc] at h
  have ⟨hl, h2⟩ := le4_split hs hs' h
  exact utf8_take hl h2

/-- a counted list of counted strings -/
theorem encStrs_pf {l l' : List Str} {r r' : Bytes} (hlen : l.length = l'.length)
    (hl : ∀ s ∈ l, lenOk s) (hl' : ∀ s ∈ l', lenOk s)
    (h : l.flatMap encStr ++ r = l'.flatMap encStr ++ r') : l = l' ∧ r = r' := by
  induction l generalizing l' with
  | nil =>
    cases l' with
    | nil => simpa using h
    | cons a t => simp at hlen
  | cons a t ih =>
    cases l' with
    | nil => simp at hlen
    | cons a' t' =>
      simp only [List.flatMap_cons, List.append_assoc] at h
      have ⟨ha, h2⟩ := encStr_pf (hl a (by simp)) (hl' a' (by simp)) h
      have ⟨ht, hr⟩ := ih (by simpa using hlen) (fun s hs => hl s (by simp [hs]))
        (fun s hs => hl' s (by simp [hs])) h2
      exact ⟨by rw [ha, ht], hr⟩

theorem encKV_pf {kv kv' : Str × Str} {r r' : Bytes}
    (h1 : lenOk kv.1 ∧ lenOk kv.2) (h2 : lenOk kv'.1 ∧ lenOk kv'.2)
    (h : encKV kv ++ r = encKV kv' ++ r') : kv = kv' ∧ r = r' := by
  obtain ⟨k, v⟩ := kv
  obtain ⟨k', v'⟩ := kv'
  simp only [encKV, List.append_assoc] at h
  have ⟨hk, h3⟩ := le4_split h1.1 h2.1 h
  have ⟨hv, h4⟩ := le4_split h1.2 h2.2 h3
  have ⟨hkv, hr⟩ := utf8_take (by simp at hk hv; simp [hk, hv]) h4
  have ⟨e1, e2⟩ := List.append_inj hkv (by simpa using hk)
  exact ⟨by rw [e1, e2], hr⟩

end Digest
