import BobModel.Proofs.C06Order2
/-
Ordering invariants of the scheduler model, part 3: the invariant `OnceInv` and its preservation by the
steps that do not start / end a script and do not record a run.
-/
namespace Sched
open JobSem

structure OnceInv (P : Project) (st : St) : Prop where
  valid : ∀ i, ∀ o ∈ (st.task i).ops, ∀ s, o.relStep = some s → (P.info s).valid = true
  wv : WrValid P st.wasRun
  shape : ∀ i, secShape P (st.task i).ops = true
  legal : ∀ p, legalFrom P p .idle st.trace = true
  rwRunning : ∀ i s r rest, (st.task i).ops = .runWait s r :: rest →
    statusOf P (P.info s).path .idle st.trace = .running
  runningRw : ∀ p, statusOf P p .idle st.trace = .running →
    ∃ i s r rest, (st.task i).ops = .runWait s r :: rest ∧ (P.info s).path = p
  okRan : ∀ p, statusOf P p .idle st.trace = .ok →
    RanAt st.wasRun p ∨ ∃ i s rest, (st.task i).ops = .setRun s false :: rest ∧ (P.info s).path = p
  fresh : ∀ i s, (.run s ∈ (st.task i).ops ∨ .setRun s true ∈ (st.task i).ops) → ¬ RanAt st.wasRun (P.info s).path

theorem Initial.ops_mem {y : Task} (h : Initial y) : ∀ o ∈ y.ops, o = .start ∨ o = .wrapEnd ∨ ∃ a, o = .fence a := by
  intro o ho
  rcases h.2 with e | ⟨a, e⟩ <;> rw [e] at ho <;> simp at ho
  · rcases ho with h | h <;> simp [h]
  · rcases ho with h | h | h <;> simp [h]

theorem Initial.head {y : Task} (h : Initial y) {o : Op} {r : List Op} (ho : y.ops = o :: r) :
    o = .start ∨ ∃ a, o = .fence a := by
  rcases h.2 with e | ⟨a, e⟩ <;> rw [e] at ho <;> cases ho <;> simp

theorem Initial.shape {P : Project} {y : Task} (h : Initial y) : secShape P y.ops = true := by
  rcases h.2 with e | ⟨a, e⟩ <;> simp [e, secShape]

/-- general form of a step of task `t`: the obligations of the new continuation `x'` and of the new history -/
theorem OnceInv.update {P : Project} {st g : St} {new : List Task} {t : Nat} (hi : OnceInv P st)
    (hg : GrowT st g new) (ht : t < st.tasks.length) (x' : Task)
    (hV : ∀ o ∈ x'.ops, ∀ s, o.relStep = some s → (P.info s).valid = true)
    (hS : secShape P x'.ops = true)
    (hwv : WrValid P g.wasRun)
    (hfrT : ∀ s, (.run s ∈ x'.ops ∨ .setRun s true ∈ x'.ops) → ¬ RanAt g.wasRun (P.info s).path)
    (hfrO : ∀ i, i ≠ t → ∀ s, (.run s ∈ (st.task i).ops ∨ .setRun s true ∈ (st.task i).ops) →
      ¬ RanAt g.wasRun (P.info s).path)
    (hlegal : ∀ p, legalFrom P p .idle g.trace = true)
    (hrwO : ∀ i s r rest, i ≠ t → (st.task i).ops = .runWait s r :: rest →
      statusOf P (P.info s).path .idle g.trace = .running)
    (hrwT : ∀ s r rest, x'.ops = .runWait s r :: rest → statusOf P (P.info s).path .idle g.trace = .running)
    (hrun : ∀ p, statusOf P p .idle g.trace = .running →
      (∃ i s r rest, i ≠ t ∧ (st.task i).ops = .runWait s r :: rest ∧ (P.info s).path = p) ∨
      (∃ s r rest, x'.ops = .runWait s r :: rest ∧ (P.info s).path = p))
    (hok : ∀ p, statusOf P p .idle g.trace = .ok → RanAt g.wasRun p ∨
      (∃ i s rest, i ≠ t ∧ (st.task i).ops = .setRun s false :: rest ∧ (P.info s).path = p) ∨
      (∃ s rest, x'.ops = .setRun s false :: rest ∧ (P.info s).path = p)) :
    OnceInv P (g.setTask t x') := by
  have hother : ∀ i, i ≠ t → i < st.tasks.length → (g.setTask t x').task i = st.task i := by
    intro i hne hl
    rcases task_cases x' hg ht i with h | h | h | h
    · exact absurd h.1 hne
    · exact h.2.2
    · omega
    · omega
  have hself : (g.setTask t x').task t = x' := by
    rcases task_cases x' hg ht t with h | h | h | h
    · exact h.2
    · exact absurd rfl h.1
    · exact absurd rfl h.1
    · exact absurd rfl h.1
  refine ⟨?_, hwv, ?_, hlegal, ?_, ?_, ?_, ?_⟩
  · intro i o ho s hs
    rcases task_cases x' hg ht i with h | h | h | h
    · rw [h.2] at ho; exact hV o ho s hs
    · rw [h.2.2] at ho; exact hi.valid i o ho s hs
    · rcases h.2.2.ops_mem o ho with e | e | ⟨a, e⟩ <;> subst e <;> simp [Op.relStep] at hs
    · rw [h.2.2] at ho; cases ho
  · intro i
    rcases task_cases x' hg ht i with h | h | h | h
    · rw [h.2]; exact hS
    · rw [h.2.2]; exact hi.shape i
    · exact h.2.2.shape
    · rw [h.2.2]; rfl
  · intro i s r rest hops
    rcases task_cases x' hg ht i with h | h | h | h
    · rw [h.2] at hops; exact hrwT s r rest hops
    · rw [h.2.2] at hops; exact hrwO i s r rest h.1 hops
    · rcases h.2.2.head hops with e | ⟨a, e⟩ <;> cases e
    · rw [h.2.2] at hops; cases hops
  · intro p hp
    rcases hrun p hp with ⟨i, s, r, rest, hne, hops, hpp⟩ | ⟨s, r, rest, hops, hpp⟩
    · exact ⟨i, s, r, rest, by rw [hother i hne (task_lt hops)]; exact hops, hpp⟩
    · exact ⟨t, s, r, rest, by rw [hself]; exact hops, hpp⟩
  · intro p hp
    rcases hok p hp with h | ⟨i, s, rest, hne, hops, hpp⟩ | ⟨s, rest, hops, hpp⟩
    · exact Or.inl h
    · exact Or.inr ⟨i, s, rest, by rw [hother i hne (task_lt hops)]; exact hops, hpp⟩
    · exact Or.inr ⟨t, s, rest, by rw [hself]; exact hops, hpp⟩
  · intro i s hm
    rcases task_cases x' hg ht i with h | h | h | h
    · rw [h.2] at hm; exact hfrT s hm
    · rw [h.2.2] at hm; exact hfrO i h.1 s hm
    · exfalso
      rcases hm with hm | hm <;> rcases h.2.2.ops_mem _ hm with e | e | ⟨a, e⟩ <;> cases e
    · rw [h.2.2] at hm; rcases hm with hm | hm <;> cases hm

/-- a step of task `t` that appends only events that are neither starts nor ends, keeps the `wasRun` table,
and whose new continuation consists of operations of the old rest and of harmless new ones -/
theorem OnceInv.quietStep {P : Project} {st g : St} {new : List Task} {t : Nat} {op : Op} {rest : List Op}
    (hi : OnceInv P st) (hl : LockInv P st)
    (hops : (st.task t).ops = op :: rest) (hg : GrowT st g new) (x' : Task)
    (hwr : g.wasRun = st.wasRun)
    (htr : ∃ evs, g.trace = st.trace ++ evs ∧ ∀ e ∈ evs, e.isStart = false ∧ e.isFin = false)
    (hop1 : ∀ s r, op ≠ .runWait s r) (hop2 : ∀ s sk, op ≠ .setRun s sk)
    (hsub : ∀ o ∈ x'.ops, o ∈ rest ∨
      ((∀ s, o.relStep = some s → (P.info s).valid = true) ∧ (∀ s r, o ≠ .runWait s r) ∧
       (∀ s, (o = .run s ∨ o = .setRun s true) → ¬ RanAt st.wasRun (P.info s).path)))
    (hS : secShape P x'.ops = true) :
    OnceInv P (g.setTask t x') := by
  have ht := task_lt hops
  obtain ⟨evs, he, hq⟩ := htr
  have hst : ∀ p, statusOf P p .idle g.trace = statusOf P p .idle st.trace := by
    intro p; rw [he, statusOf_append, (quiet_status P p evs _ hq).2]
  have hnw := hl.nowait _ (task_mem ht)
  rw [hops] at hnw
  simp only [List.tail_cons] at hnw
  have hrest_nowait : ∀ s r, Op.runWait s r ∉ rest := by
    intro s r hm
    have := (List.all_eq_true.mp hnw) _ hm
    simp [Op.isWait] at this
  refine hi.update hg ht x' ?_ hS (by rw [hwr]; exact hi.wv) ?_ ?_ ?_ ?_ ?_ ?_ ?_
  · intro o ho s hs
    rcases hsub o ho with h | h
    · exact hi.valid t o (by rw [hops]; exact List.mem_cons_of_mem _ h) s hs
    · exact h.1 s hs
  · intro s hm
    rw [hwr]
    rcases hm with hm | hm
    · rcases hsub _ hm with h | h
      · exact hi.fresh t s (Or.inl (by rw [hops]; exact List.mem_cons_of_mem _ h))
      · exact h.2.2 s (Or.inl rfl)
    · rcases hsub _ hm with h | h
      · exact hi.fresh t s (Or.inr (by rw [hops]; exact List.mem_cons_of_mem _ h))
      · exact h.2.2 s (Or.inr rfl)
  · intro i _ s hm
    rw [hwr]; exact hi.fresh i s hm
  · intro p
    rw [he, legalFrom_append, hi.legal p, (quiet_status P p evs _ hq).1]; rfl
  · intro i s r rest' _ ho
    rw [hst]; exact hi.rwRunning i s r rest' ho
  · intro s r rest' ho
    exfalso
    have hm : Op.runWait s r ∈ x'.ops := by rw [ho]; simp
    rcases hsub _ hm with h | h
    · exact hrest_nowait s r h
    · exact h.2.1 s r rfl
  · intro p hp
    rw [hst] at hp
    obtain ⟨i, s, r, rest', ho, hpp⟩ := hi.runningRw p hp
    refine Or.inl ⟨i, s, r, rest', ?_, ho, hpp⟩
    intro e; subst e
    rw [hops] at ho; cases ho
    exact hop1 s r rfl
  · intro p hp
    rw [hst] at hp
    rcases hi.okRan p hp with h | ⟨i, s, rest', ho, hpp⟩
    · exact Or.inl (by rw [hwr]; exact h)
    · refine Or.inr (Or.inl ⟨i, s, rest', ?_, ho, hpp⟩)
      intro e; subst e
      rw [hops] at ho; cases ho
      exact hop2 s false rfl

/-- inert operations preserve the invariant -/
theorem OnceInv.inertStep {P : Project} {st st' : St} {t : Nat} {op : Op} {rest : List Op}
    (hi : OnceInv P st) (hl : LockInv P st) (hops : (st.task t).ops = op :: rest) (hsp : op.special = false)
    (htr : ∃ evs, st'.trace = st.trace ++ evs ∧ ∀ e ∈ evs, e.isStart = false ∧ e.isFin = false)
    (h : Inert P st t op rest st') : OnceInv P st' := by
  have ht := task_lt hops
  have hop1 : ∀ s r, op ≠ .runWait s r := by intro s r e; subst e; simp [Op.special] at hsp
  have hop2 : ∀ s sk, op ≠ .setRun s sk := by intro s sk e; subst e; simp [Op.special] at hsp
  have hSr := secShape_tail (by rw [← hops]; exact hi.shape t : secShape P (op :: rest) = true)
  cases h with
  | body g new body e hg hwr _ hb =>
    refine hi.quietStep hl hops hg _ hwr (by simpa using htr) hop1 hop2 ?_ ?_
    · intro o ho
      simp only [List.mem_append] at ho
      rcases ho with ho | ho
      · right
        obtain ⟨b1, b2, _⟩ := hb o ho
        refine ⟨?_, ?_, ?_⟩
        · intro s hs
          rcases b2 s hs with h | h
          · exact h
          · exact hi.valid t op (by rw [hops]; simp) s h
        · intro s r e; subst e; simp [Op.sec] at b1
        · intro s e; rcases e with e | e <;> subst e <;> simp [Op.sec] at b1
      · exact Or.inl ho
    · exact secShape_append_nosec (fun o ho => (hb o ho).1) hSr
  | raise g e hg hwr _ =>
    refine hi.quietStep hl hops (GrowT.same hg) _ hwr (by simpa using htr) hop1 hop2 ?_ ?_
    · intro o ho
      exact Or.inl (List.mem_filter.mp ho).1
    · exact secShape_filter P rest

end Sched
