import BobModel.Model.Share
/-
C15 helper lemmas: how one segment (`stepPc`) changes the store, lock bookkeeping, induction over runs.
-/
namespace Share

@[simp] theorem afterShare_fst {cfg : Cfg} (prog : Prog) (g : Store) (r : Res) : (afterShare cfg prog g r).1 = g := by
  unfold afterShare
  split
  · rfl
  · split <;> (try split) <;> (try split) <;> rfl

@[simp] theorem finishGc_fst {cfg : Cfg} (prog : Prog) (g : Store) (r : Res) : (finishGc cfg prog g r).1 = g := by
  unfold finishGc
  split
  · split <;> simp
  · rfl

@[simp] theorem gcStart_fst {cfg : Cfg} (prog : Prog) (g : Store) : (gcStart cfg prog g).1 = g := by
  unfold gcStart
  split
  · simp
  · split <;> simp

@[simp] theorem gcPlan_fst (prog : Prog) (g : Store) (rm : List (Bid × Nat)) (c : List Cand) (t : Nat) :
    (gcPlan prog g rm c t).1 = g := by
  unfold gcPlan
  simp only
  split <;> rfl

@[simp] theorem gcNext_fst (prog : Prog) (g : Store) (rm todo : List (Bid × Nat)) (c : List Cand) (t : Nat) :
    (gcNext prog g rm todo c t).1 = g := by
  unfold gcNext
  split <;> simp

theorem afterShare_pc {cfg : Cfg} (prog : Prog) (g : Store) (r : Res) :
    (∃ r', (afterShare cfg prog g r).2 = .done r') ∨ (∃ x, (afterShare cfg prog g r).2 = .bUnlink x) ∨
    (∃ x, (afterShare cfg prog g r).2 = .bSymlink x) ∨ (afterShare cfg prog g r).2 = .uOpen := by
  unfold afterShare
  split
  · exact Or.inl ⟨_, rfl⟩
  · split <;> (try split) <;> (try split) <;> simp

theorem finishGc_pc {cfg : Cfg} (prog : Prog) (g : Store) (r : Res) :
    (∃ r', (finishGc cfg prog g r).2 = .done r') ∨ (∃ x, (finishGc cfg prog g r).2 = .bUnlink x) ∨
    (∃ x, (finishGc cfg prog g r).2 = .bSymlink x) ∨ (finishGc cfg prog g r).2 = .uOpen := by
  unfold finishGc
  split
  · split
    · exact Or.inl ⟨_, rfl⟩
    · exact afterShare_pc _ _ _
  · exact Or.inl ⟨_, rfl⟩

@[simp] theorem afterShare_notEX {cfg : Cfg} (prog : Prog) (g : Store) (r : Res) : (afterShare cfg prog g r).2.holdsEX = false := by
  rcases afterShare_pc (cfg := cfg) prog g r with ⟨_, h⟩ | ⟨_, h⟩ | ⟨_, h⟩ | h <;> simp [h, Pc.holdsEX]

@[simp] theorem afterShare_notSH {cfg : Cfg} (prog : Prog) (g : Store) (r : Res) : (afterShare cfg prog g r).2.holdsSH = false := by
  rcases afterShare_pc (cfg := cfg) prog g r with ⟨_, h⟩ | ⟨_, h⟩ | ⟨_, h⟩ | h <;> simp [h, Pc.holdsSH]

@[simp] theorem finishGc_notEX {cfg : Cfg} (prog : Prog) (g : Store) (r : Res) : (finishGc cfg prog g r).2.holdsEX = false := by
  rcases finishGc_pc (cfg := cfg) prog g r with ⟨_, h⟩ | ⟨_, h⟩ | ⟨_, h⟩ | h <;> simp [h, Pc.holdsEX]

@[simp] theorem finishGc_notSH {cfg : Cfg} (prog : Prog) (g : Store) (r : Res) : (finishGc cfg prog g r).2.holdsSH = false := by
  rcases finishGc_pc (cfg := cfg) prog g r with ⟨_, h⟩ | ⟨_, h⟩ | ⟨_, h⟩ | h <;> simp [h, Pc.holdsSH]

@[simp] theorem gcStart_notEX {cfg : Cfg} (prog : Prog) (g : Store) : (gcStart cfg prog g).2.holdsEX = false := by
  unfold gcStart
  split
  · simp
  · split
    · simp
    · rfl

@[simp] theorem gcStart_notSH {cfg : Cfg} (prog : Prog) (g : Store) : (gcStart cfg prog g).2.holdsSH = false := by
  unfold gcStart
  split
  · simp
  · split
    · simp
    · rfl

@[simp] theorem gcPlan_notSH (prog : Prog) (g : Store) (rm : List (Bid × Nat)) (c : List Cand) (t : Nat) :
    (gcPlan prog g rm c t).2.holdsSH = false := by
  unfold gcPlan
  simp only
  split <;> rfl

@[simp] theorem gcNext_notSH (prog : Prog) (g : Store) (rm todo : List (Bid × Nat)) (c : List Cand) (t : Nat) :
    (gcNext prog g rm todo c t).2.holdsSH = false := by
  unfold gcNext
  split
  · simp
  · rfl

theorem stepPc_notEX (H : Nat → Nat) (cfg : Cfg) (prog : Prog) (exO shO : Bool) (g : Store) (pc : Pc)
    (hpc : pc.holdsEX = false) (hl : pc = .gLock → (exO || shO) = true) :
    (stepPc H cfg prog exO shO g pc).2.holdsEX = false := by
  cases pc
  case gLock => simp [stepPc, hl rfl]; rfl
  case gScanOpen => simp [Pc.holdsEX] at hpc
  case gScanLock => simp [Pc.holdsEX] at hpc
  case gMove => simp [Pc.holdsEX] at hpc
  all_goals (unfold stepPc; simp only)
  all_goals (repeat' split)
  all_goals first | rfl | simp only [afterShare_notEX, finishGc_notEX, gcStart_notEX]

theorem stepPc_notSH (H : Nat → Nat) (cfg : Cfg) (prog : Prog) (exO shO : Bool) (g : Store) (pc : Pc)
    (hpc : pc.holdsSH = false) (hl : pc = .uLockRepo → exO = true) :
    (stepPc H cfg prog exO shO g pc).2.holdsSH = false := by
  cases pc
  case uLockRepo => simp [stepPc, hl rfl]; rfl
  case uOpenPkg => simp [Pc.holdsSH] at hpc
  case uLockPkg => simp [Pc.holdsSH] at hpc
  case uClosePkg => simp [Pc.holdsSH] at hpc
  all_goals (unfold stepPc; simp only)
  all_goals (repeat' split)
  all_goals first | rfl | simp only [afterShare_notSH, finishGc_notSH, gcStart_notSH, gcNext_notSH, gcPlan_notSH]
theorem setMeta_final (g : Store) (b : Bid) (m : JFile Meta) (b' : Bid) :
    (setMeta g b m).final b' =
      if b' = b then (g.final b).map (fun d => { d with info := some m, mtime := g.clock }) else g.final b' := by
  unfold setMeta
  cases h : g.final b with
  | none => by_cases e : b' = b <;> simp [e, h]
  | some d => by_cases e : b' = b <;> simp [e, upd]

theorem touch_final (g : Store) (b : Bid) (b' : Bid) :
    (touch g b).final b' =
      if b' = b then (g.final b).map (fun d => { d with mtime := g.clock }) else g.final b' := by
  unfold touch
  cases h : g.final b with
  | none => by_cases e : b' = b <;> simp [e, h]
  | some d => by_cases e : b' = b <;> simp [e, upd]

@[simp] theorem setMeta_repo (g : Store) (b : Bid) (m : JFile Meta) : (setMeta g b m).repo = g.repo := by
  unfold setMeta; split <;> rfl
@[simp] theorem setMeta_links (g : Store) (b : Bid) (m : JFile Meta) : (setMeta g b m).links = g.links := by
  unfold setMeta; split <;> rfl
@[simp] theorem setMeta_nInst (g : Store) (b : Bid) (m : JFile Meta) : (setMeta g b m).nInst = g.nInst := by
  unfold setMeta; split <;> rfl
@[simp] theorem setMeta_nGc (g : Store) (b : Bid) (m : JFile Meta) : (setMeta g b m).nGc = g.nGc := by
  unfold setMeta; split <;> rfl
@[simp] theorem touch_repo (g : Store) (b : Bid) : (touch g b).repo = g.repo := by
  unfold touch; split <;> rfl
@[simp] theorem touch_links (g : Store) (b : Bid) : (touch g b).links = g.links := by
  unfold touch; split <;> rfl
@[simp] theorem touch_nInst (g : Store) (b : Bid) : (touch g b).nInst = g.nInst := by
  unfold touch; split <;> rfl
@[simp] theorem touch_nGc (g : Store) (b : Bid) : (touch g b).nGc = g.nGc := by
  unfold touch; split <;> rfl

/-- what a `pkg.json` rewrite of `use` may do to the meta information -/
def MetaOk (pc : Pc) (d : PkgDir) (info : Option (JFile Meta)) : Prop :=
  (pc = .uLockPkg ∧ (info = d.info ∨ info = some .torn ∨
      ∃ m m', d.info = some (.valid m) ∧ info = some (.valid m') ∧ m'.hash = m.hash ∧ m'.size = m.size)) ∨
  (∃ m' r, pc = .uClosePkg (some m') r ∧ info = some (.valid m'))

/-- every way in which one segment changes the directory at a final path -/
theorem stepPc_final (H : Nat → Nat) (cfg : Cfg) (prog : Prog) (exO shO : Bool) (g : Store) (pc : Pc) (b' : Bid) :
    (stepPc H cfg prog exO shO g pc).1.final b' = g.final b'
    ∨ (∃ tmp, pc = .iRename tmp ∧ b' = opBid prog ∧ g.final b' = none ∧
        (stepPc H cfg prog exO shO g pc).1.final b' = some tmp)
    ∨ (∃ rm c rest t d te, pc = .gMove rm (c :: rest) t d te ∧ c.bid = b' ∧ g.final b' ≠ none ∧
        (stepPc H cfg prog exO shO g pc).1.final b' = none)
    ∨ (∃ d info mt, b' = opBid prog ∧ g.final b' = some d ∧
        (stepPc H cfg prog exO shO g pc).1.final b' = some { d with info := info, mtime := mt } ∧ MetaOk pc d info) := by
  cases pc
  case iRename tmp =>
    unfold stepPc; simp only
    split
    · left; simp
    · rename_i h
      by_cases e : b' = opBid prog
      · right; left; refine ⟨tmp, rfl, e, ?_, ?_⟩
        · subst e; simpa using h
        · simp [upd, e]
      · left; simp [upd, e]
  case gMove rm plan t d te =>
    unfold stepPc; simp only
    cases plan with
    | nil => left; simp only; split <;> rfl
    | cons c rest =>
      simp only
      cases hf : g.final c.bid with
      | none => left; simp only; split <;> rfl
      | some dd =>
        simp only
        by_cases e : b' = c.bid
        · right; right; left
          refine ⟨rm, c, rest, t, d, te, rfl, e.symm, by rw [e, hf]; simp, ?_⟩
          cases rest <;> simp only <;> (try split) <;> simp [upd, e]
        · left
          cases rest <;> simp only <;> (try split) <;> simp [upd, e]
  case uLockPkg =>
    unfold stepPc; simp only
    cases hf : g.final (opBid prog) with
    | none => left; rfl
    | some d =>
      simp only
      cases hi : d.info with
      | none => left; rfl
      | some j =>
        cases j with
        | torn => left; rfl
        | valid m =>
          simp only
          by_cases e : b' = opBid prog
          · right; right; right
            split
            · refine ⟨d, d.info, g.clock, e, by rw [e, hf], ?_, Or.inl ⟨rfl, Or.inl rfl⟩⟩
              simp [touch_final, e, hf]
            · split
              · refine ⟨d, some (.valid { m with users := m.users ++ [opWs prog] }), g.clock, e, by rw [e, hf], ?_,
                  Or.inl ⟨rfl, Or.inr (Or.inr ⟨m, _, hi, rfl, rfl, rfl⟩)⟩⟩
                simp [setMeta_final, e, hf]
              · refine ⟨d, some .torn, g.clock, e, by rw [e, hf], ?_, Or.inl ⟨rfl, Or.inr (Or.inl rfl)⟩⟩
                simp [setMeta_final, e, hf]
          · left
            split
            · simp [touch_final, e]
            · split <;> simp [setMeta_final, e]
  case uClosePkg pend r =>
    unfold stepPc; simp only [afterShare_fst]
    cases pend with
    | none => left; rfl
    | some m' =>
      simp only
      by_cases e : b' = opBid prog
      · cases hf : g.final (opBid prog) with
        | none => left; simp [setMeta_final, e, hf]
        | some d =>
          right; right; right
          exact ⟨d, some (.valid m'), g.clock, e, by rw [e, hf], by simp [setMeta_final, e, hf], Or.inr ⟨m', r, rfl, rfl⟩⟩
      · left; simp [setMeta_final, e]
  all_goals (left; unfold stepPc; simp only)
  all_goals (repeat' split)
  all_goals first | rfl | simp
end Share
