import BobModel.Model.ArchiveFS
/-
Helper lemmas for Props/C09.lean: the inductive invariant of the archive transition system.
-/
namespace ArchiveFS

theorem upd_apply {α β : Type} [DecidableEq α] (f : α → β) (a : α) (b : β) (x : α) :
    upd f a b x = if x = a then b else f x := rfl

/-- the process works on its temporary file -/
@[simp] def PC.working : PC → Bool
  | .fetch _ | .write _ | .flush | .close _ | .chmod | .publish | .fClose | .fUnlink | .unlink _ => true
  | _ => false

/-- the process has not reached `create` yet -/
@[simp] def PC.early : PC → Bool
  | .mOpen | .statDest | .ensureDir | .create | .rOpen | .rRead _ => true
  | _ => false

@[simp] def PC.postLink : PC → Bool
  | .unlink .linked | .done .ok | .done .failed => true
  | _ => false

@[simp] def PC.readerPc : PC → Bool
  | .rOpen | .rRead _ | .done _ => true
  | _ => false

def contentOk (pr : Params) (pc : PC) (n : Inode) : Prop :=
  match pc with
  | .fetch k => k ≤ pr.nPack ∧ n.chunks = (written pr).take k
  | .write k => k < pr.nPack ∧ n.chunks = (written pr).take k
  | .flush => n.chunks = (written pr).take pr.nPack
  | .close true => n.chunks = written pr
  | .chmod => n.chunks = written pr ∧ n.closed = true
  | .publish => n.chunks = written pr ∧ n.closed = true
  | _ => True

def readerOk (s : State) (q : Proc) : Prop :=
  match q.pc with
  | .rRead pos => s.names .art = some q.rino ∧ q.acc = (s.inodes q.rino).chunks.take pos
  | .done .read => s.names .art = some q.rino ∧ q.acc = (s.inodes q.rino).chunks
  | _ => True

structure Inv (prog : Pid → Params) (s : State) : Prop where
  names_lt : ∀ n i, s.names n = some i → i < s.nextIno
  tmp_lt : ∀ k i, s.names (.tmp k) = some i → k < s.nextTmp
  own : ∀ i, i < s.nextIno →
    (s.procs (s.inodes i).owner).created = true ∧ (s.procs (s.inodes i).owner).ino = i
  created : ∀ p, (s.procs p).created = true →
    (s.procs p).ino < s.nextIno ∧ (s.inodes (s.procs p).ino).owner = p
  working : ∀ p, (s.procs p).pc.working = true → (s.procs p).created = true
  early : ∀ p, (s.procs p).pc.early = true → (s.procs p).created = false
  content : ∀ p, (s.procs p).created = true →
    contentOk (prog p) (s.procs p).pc (s.inodes (s.procs p).ino)
  linked : ∀ p, (s.procs p).linked = true →
    (s.procs p).created = true ∧ (s.procs p).pc.postLink = true ∧
    (s.inodes (s.procs p).ino).chunks = written (prog p) ∧ (s.inodes (s.procs p).ino).closed = true
  names_own : ∀ n i, s.names n = some i →
    n = .tmp (s.procs (s.inodes i).owner).tmp ∨
    (n = dest (prog (s.inodes i).owner).kind ∧ (s.procs (s.inodes i).owner).linked = true)
  reader : ∀ p, readerOk s (s.procs p)
  readers : ∀ p, (prog p).kind = .reader → (s.procs p).created = false ∧ (s.procs p).pc.readerPc = true

theorem take_succ_drop (l : List Chunk) (k : Nat) : l.take k ++ (l.drop k).take 1 = l.take (k + 1) := by
  induction l generalizing k with
  | nil => simp
  | cons a t ih =>
    cases k with
    | zero => simp
    | succ k => simp [ih]

theorem inv_init (prog : Pid → Params) : Inv prog (init prog) where
  names_lt := by simp [init]
  tmp_lt := by simp [init]
  own := by simp [init]
  created := by simp [init]
  working := by intro p; cases h : (prog p).kind <;> simp [init, h, startPc, PC.working]
  early := by simp [init]
  content := by simp [init]
  linked := by simp [init]
  names_own := by simp [init]
  reader := by intro p; cases h : (prog p).kind <;> simp [init, h, startPc, readerOk]
  readers := by intro p h; simp [init, h, startPc]


section Step
variable {prog : Pid → Params} {s : State} {p : Pid} {f : Bool}

/-- `replace()` is only ever used on a metadata name: the `overwrite` flag of the current source is
set at no call site that publishes under the artifact name -/
theorem overwrite_md (k : Kind) (h : overwrite k = true) : ∃ x, dest k = .md x := by
  cases k <;> simp_all [overwrite, dest, Consts.C09.overwritePackage, Consts.C09.overwriteCache]

theorem finalResult_ne_read (st : LinkSt) : finalResult st ≠ .read := by
  cases st <;> simp [finalResult]

theorem take_getElem_some (l : List Chunk) (a : Nat) (c : Chunk) (h : l[a]? = some c) :
    l.take a ++ [c] = l.take (a + 1) := by
  rw [List.take_add_one, h]; rfl

theorem take_getElem_none (l : List Chunk) (a : Nat) (h : l[a]? = none) : l.take a = l := by
  apply List.take_of_length_le
  simpa using h

/-! ### frame: a step of `p` touches only `p`'s process record and `p`'s inode -/

theorem exec_procs_ne (pr : Params) {p' : Pid} (hne : p' ≠ p) : (exec pr s p f).procs p' = s.procs p' := by
  unfold exec
  split <;> simp only [setPc, modInode] <;> (repeat' split) <;> simp_all [upd_apply]

theorem exec_inodes_frame (h : Inv prog s) (i : Ino) (hi : i < s.nextIno) (ho : (s.inodes i).owner ≠ p) :
    (exec (prog p) s p f).inodes i = s.inodes i := by
  have h4 := h.created p
  have h5 := h.working p
  unfold exec
  split <;> simp only [setPc, modInode] <;> (repeat' split) <;> simp_all [upd_apply] <;> grind

/-- a bound artifact name is never rebound (link() does not replace; replace() targets metadata names) -/
theorem exec_art_stable (i : Ino) (ha : s.names .art = some i) :
    (exec (prog p) s p f).names .art = some i := by
  have h1 := overwrite_md (prog p).kind
  unfold exec
  split <;> simp only [setPc, modInode] <;> (repeat' split) <;> simp_all [upd_apply] <;> grind

/-- the inode behind the artifact name is never modified -/
theorem exec_art_inode_stable (h : Inv prog s) (i : Ino) (ha : s.names .art = some i) :
    (exec (prog p) s p f).inodes i = s.inodes i := by
  have h1 := h.names_own .art i ha
  have h2 := h.names_lt .art i ha
  have h3 := h.linked p
  have h4 := h.created p
  have h5 := h.working p
  unfold exec
  split <;> simp only [setPc, modInode] <;> (repeat' split) <;> simp_all [upd_apply] <;> grind

/-! ### the fields of the invariant, one by one -/

theorem exec_names_lt (h : Inv prog s) :
    ∀ n i, (exec (prog p) s p f).names n = some i → i < (exec (prog p) s p f).nextIno := by
  intro n i
  have h1 := h.names_lt
  have h2 := h.created p
  have h3 := h.working p
  unfold exec
  split <;> simp only [setPc, modInode] <;> (repeat' split) <;> simp_all [upd_apply] <;> grind

theorem dest_ne_tmp (k : Kind) (t : Nat) : dest k ≠ .tmp t := by
  cases k <;> simp [dest]

theorem exec_tmp_lt (h : Inv prog s) :
    ∀ k i, (exec (prog p) s p f).names (.tmp k) = some i → k < (exec (prog p) s p f).nextTmp := by
  intro k i
  have h1 := h.tmp_lt k
  have h2 := dest_ne_tmp (prog p).kind k
  unfold exec
  split <;> simp only [setPc, modInode] <;> (repeat' split) <;> simp_all [upd_apply] <;> grind

theorem exec_own (h : Inv prog s) :
    ∀ i, i < (exec (prog p) s p f).nextIno →
    ((exec (prog p) s p f).procs ((exec (prog p) s p f).inodes i).owner).created = true ∧
    ((exec (prog p) s p f).procs ((exec (prog p) s p f).inodes i).owner).ino = i := by
  intro i
  have h1 := h.own
  have h2 := h.created p
  have h3 := h.working p
  have h4 := h.early p
  unfold exec
  split <;> simp only [setPc, modInode] <;> (repeat' split) <;> simp_all [upd_apply] <;> grind

theorem exec_created (h : Inv prog s) :
    ∀ p', ((exec (prog p) s p f).procs p').created = true →
    ((exec (prog p) s p f).procs p').ino < (exec (prog p) s p f).nextIno ∧
    ((exec (prog p) s p f).inodes ((exec (prog p) s p f).procs p').ino).owner = p' := by
  intro p'
  have h1 := h.created p'
  have h2 := h.created p
  have h3 := h.working p
  have h4 := h.early p
  unfold exec
  split <;> simp only [setPc, modInode] <;> (repeat' split) <;> simp_all [upd_apply] <;> grind

theorem exec_working (h : Inv prog s) :
    ∀ p', ((exec (prog p) s p f).procs p').pc.working = true →
    ((exec (prog p) s p f).procs p').created = true := by
  intro p'
  have h1 := h.working p'
  have h3 := h.working p
  unfold exec
  split <;> simp only [setPc, modInode, afterFetch] <;> (repeat' split) <;> simp_all [upd_apply] <;> grind

theorem exec_early (h : Inv prog s) :
    ∀ p', ((exec (prog p) s p f).procs p').pc.early = true →
    ((exec (prog p) s p f).procs p').created = false := by
  intro p'
  have h1 := h.early p'
  have h3 := h.early p
  have h4 := h.working p
  unfold exec
  split <;> simp only [setPc, modInode, afterFetch] <;> (repeat' split) <;> simp_all [upd_apply] <;> grind

theorem exec_nextIno_le : s.nextIno ≤ (exec (prog p) s p f).nextIno := by
  unfold exec
  split <;> simp only [setPc, modInode] <;> (repeat' split) <;> simp_all

theorem exec_content_self (h : Inv prog s) :
    ((exec (prog p) s p f).procs p).created = true →
    contentOk (prog p) ((exec (prog p) s p f).procs p).pc
      ((exec (prog p) s p f).inodes ((exec (prog p) s p f).procs p).ino) := by
  have h2 := h.content p
  have h5 := h.working p
  have h6 := h.early p
  have t1 := take_succ_drop (written (prog p))
  have t2 := List.take_append_drop (prog p).nPack (written (prog p))
  unfold exec
  split <;> simp only [setPc, modInode, afterFetch] <;> (repeat' split) <;> simp_all [upd_apply, contentOk] <;> grind

theorem exec_content (h : Inv prog s) :
    ∀ p', ((exec (prog p) s p f).procs p').created = true →
    contentOk (prog p') ((exec (prog p) s p f).procs p').pc
      ((exec (prog p) s p f).inodes ((exec (prog p) s p f).procs p').ino) := by
  intro p'
  by_cases hp : p' = p
  · subst hp; exact exec_content_self h
  · rw [exec_procs_ne _ hp]
    intro hc
    have h1 := h.created p' hc
    rw [exec_inodes_frame h _ h1.1 (by rw [h1.2]; exact hp)]
    exact h.content p' hc

theorem exec_linked_self (h : Inv prog s) :
    ((exec (prog p) s p f).procs p).linked = true →
    ((exec (prog p) s p f).procs p).created = true ∧ ((exec (prog p) s p f).procs p).pc.postLink = true ∧
    ((exec (prog p) s p f).inodes ((exec (prog p) s p f).procs p).ino).chunks = written (prog p) ∧
    ((exec (prog p) s p f).inodes ((exec (prog p) s p f).procs p).ino).closed = true := by
  have h1 := h.linked p
  have h2 := h.content p
  have h5 := h.working p
  have h6 := h.early p
  unfold exec
  split <;> simp only [setPc, modInode, afterFetch] <;> (repeat' split) <;> simp_all [upd_apply, contentOk] <;>
    grind [finalResult]

theorem exec_linked (h : Inv prog s) :
    ∀ p', ((exec (prog p) s p f).procs p').linked = true →
    ((exec (prog p) s p f).procs p').created = true ∧ ((exec (prog p) s p f).procs p').pc.postLink = true ∧
    ((exec (prog p) s p f).inodes ((exec (prog p) s p f).procs p').ino).chunks = written (prog p') ∧
    ((exec (prog p) s p f).inodes ((exec (prog p) s p f).procs p').ino).closed = true := by
  intro p'
  by_cases hp : p' = p
  · subst hp; exact exec_linked_self h
  · rw [exec_procs_ne _ hp]
    intro hl
    have h0 := h.linked p' hl
    have h1 := h.created p' h0.1
    rw [exec_inodes_frame h _ h1.1 (by rw [h1.2]; exact hp)]
    exact h0

theorem exec_names_own (h : Inv prog s) :
    ∀ n i, (exec (prog p) s p f).names n = some i →
    n = .tmp ((exec (prog p) s p f).procs ((exec (prog p) s p f).inodes i).owner).tmp ∨
    (n = dest (prog ((exec (prog p) s p f).inodes i).owner).kind ∧
      ((exec (prog p) s p f).procs ((exec (prog p) s p f).inodes i).owner).linked = true) := by
  intro n i
  have h1 := h.names_own n i
  have h2 := h.names_lt n i
  have h3 := h.own i
  have h4 := h.created p
  have h5 := h.working p
  have h6 := h.early p
  unfold exec
  split <;> simp only [setPc, modInode, afterFetch] <;> (repeat' split) <;> simp_all [upd_apply] <;>
    grind [finalResult]

theorem exec_reader_self (h : Inv prog s) :
    readerOk (exec (prog p) s p f) ((exec (prog p) s p f).procs p) := by
  have h1 := h.reader p
  have h2 := exec_art_stable (prog := prog) (s := s) (p := p) (f := f)
  have h3 := exec_art_inode_stable (p := p) (f := f) h
  have t1 := take_getElem_some (s.inodes (s.procs p).rino).chunks
  have t2 := take_getElem_none (s.inodes (s.procs p).rino).chunks
  have t3 := finalResult_ne_read
  unfold readerOk at h1 ⊢
  revert h2 h3 t1 t2
  unfold exec
  split <;> simp only [setPc, modInode, afterFetch] <;> (repeat' split) <;> simp_all [upd_apply] <;>
    grind [finalResult]

theorem exec_reader (h : Inv prog s) :
    ∀ p', readerOk (exec (prog p) s p f) ((exec (prog p) s p f).procs p') := by
  intro p'
  by_cases hp : p' = p
  · subst hp; exact exec_reader_self h
  · rw [exec_procs_ne _ hp]
    have h1 := h.reader p'
    unfold readerOk at h1 ⊢
    split <;> simp_all
    · rw [exec_art_inode_stable h _ h1.1]
      exact ⟨exec_art_stable _ h1.1, rfl⟩
    · rw [exec_art_inode_stable h _ h1.1]
      exact ⟨exec_art_stable _ h1.1, rfl⟩

theorem exec_readers (h : Inv prog s) :
    ∀ p', (prog p').kind = .reader →
    ((exec (prog p) s p f).procs p').created = false ∧ ((exec (prog p) s p f).procs p').pc.readerPc = true := by
  intro p' hk
  have h1 := h.readers p' hk
  by_cases hp : p' = p
  · subst hp
    revert h1
    unfold exec
    split <;> simp only [setPc, modInode, afterFetch] <;> (repeat' split) <;> simp_all [upd_apply]
  · rw [exec_procs_ne _ hp]; exact h1

theorem exec_inv (h : Inv prog s) : Inv prog (exec (prog p) s p f) where
  names_lt := exec_names_lt h
  tmp_lt := exec_tmp_lt h
  own := exec_own h
  created := exec_created h
  working := exec_working h
  early := exec_early h
  content := exec_content h
  linked := exec_linked h
  names_own := exec_names_own h
  reader := exec_reader h
  readers := exec_readers h

end Step

theorem kill_inv {prog : Pid → Params} {s : State} (p : Pid) (h : Inv prog s) :
    Inv prog { s with procs := upd s.procs p { s.procs p with killed := true } } where
  names_lt := h.names_lt
  tmp_lt := h.tmp_lt
  own := by intro i hi; have := h.own i hi; simp only [upd_apply]; split <;> simp_all
  created := by intro p'; have := h.created p'; simp only [upd_apply]; split <;> simp_all
  working := by intro p'; have := h.working p'; simp only [upd_apply]; split <;> simp_all
  early := by intro p'; have := h.early p'; simp only [upd_apply]; split <;> simp_all
  content := by intro p'; have := h.content p'; simp only [upd_apply]; split <;> simp_all
  linked := by intro p'; have := h.linked p'; simp only [upd_apply]; split <;> simp_all
  names_own := by intro n i hn; have := h.names_own n i hn; simp only [upd_apply]; split <;> simp_all
  reader := by
    intro p'; have := h.reader p'
    simp only [upd_apply]; split
    · subst_vars; simpa [readerOk] using this
    · simpa [readerOk] using this
  readers := by intro p' hk; have := h.readers p' hk; simp only [upd_apply]; split <;> simp_all

theorem step_inv {prog : Pid → Params} {s : State} (p : Pid) (c : Choice) (h : Inv prog s) :
    Inv prog (step prog s p c) := by
  unfold step
  split
  · exact h
  · cases c with
    | run => exact exec_inv h
    | fail => exact exec_inv h
    | kill => exact kill_inv p h

theorem run_inv {prog : Pid → Params} {s : State} (sched : Sched) (h : Inv prog s) :
    Inv prog (run prog s sched) := by
  induction sched generalizing s with
  | nil => exact h
  | cons pc rest ih => exact ih (step_inv pc.1 pc.2 h)

theorem reachable_inv (prog : Pid → Params) (sched : Sched) : Inv prog (run prog (init prog) sched) :=
  run_inv sched (inv_init prog)

end ArchiveFS
