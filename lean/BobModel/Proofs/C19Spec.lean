import BobModel.Model.ArchiveIndex
/-
C19: declarative notions used in the statements of `Props/C19.lean` (no proofs here).
-/
namespace Retention

/-- `a` ranks at least as high as `b` in the chosen order (`asc = false`: newest/greatest first);
an artifact that lacks the sort field ranks last -/
def notWorse (asc : Bool) (a b : Option Str) : Bool :=
  match a, b with
  | _, none => true
  | none, some _ => false
  | some x, some y => if asc then strLe x y else strLe y x

/-- the value of the sort field of an artifact (`none`: the field is missing) -/
def keyOf (e : Expr) (data : Val) : Option Str :=
  match evalRef e.sortBy data with
  | .ok k => k
  | .error _ => none

/-- the artifact is selected by the predicate of the expression -/
def selects (e : Expr) (data : Val) : Bool :=
  match evalBool e.pred data with
  | .ok true => true
  | _ => false

/-- the loop of `query` as seen by a single expression -/
def runExpr (e : Expr) : EState → List (Bid × Val) → Except QErr EState
  | st, [] => .ok st
  | st, (b, d) :: rest =>
    match evaluate e st b d with
    | .error x => .error x
    | .ok st' => runExpr e st' rest

/-- `b` is one of `D` or transitively referenced by one of `D` in the `refs` table -/
inductive Reach (refs : List (Bid × Bid)) (D : List Bid) : Bid → Prop
  | base {b : Bid} : b ∈ D → Reach refs D b
  | step {a b : Bid} : Reach refs D a → (a, b) ∈ refs → Reach refs D b

end Retention

namespace ArchiveIndex
open Retention

/-- what a fresh look at the archive yields for a file: its row -/
def rowOfFile (f : FileEnt) : Option Row := f.audit.map fun a => ⟨f.bid, f.stat, a.vars⟩

/-- `StatChanges`: a pair (build id, stat value) always denotes the same artifact content -/
def FilesOk (C : Bid → Stat → Option AuditInfo) (files : List FileEnt) : Prop :=
  (files.map fun f => f.bid).Nodup ∧ ∀ f ∈ files, f.audit = C f.bid f.stat

/-- the index only holds what was read from artifacts: one row per build id, row and references
are those of the content that the row's stat value denotes, no references without a row -/
structure Sound (C : Bid → Stat → Option AuditInfo) (idx : Index) : Prop where
  distinct : (idx.rows.map fun r => r.bid).Nodup
  rows : ∀ r ∈ idx.rows, ∃ a, C r.bid r.stat = some a ∧ r.vars = a.vars ∧ ∀ x, (r.bid, x) ∈ idx.refs ↔ x ∈ a.refs
  owned : ∀ p ∈ idx.refs, ∃ r ∈ idx.rows, r.bid = p.1

/-- two indexes that no command can tell apart: same enumeration of rows, same set of references -/
def IndexEq (i j : Index) : Prop :=
  sortedRows i.rows = sortedRows j.rows ∧ ∀ p, p ∈ i.refs ↔ p ∈ j.refs

/-- the file is up to date in the index: its row is what a fresh read yields -/
def UpToDate (f : FileEnt) (idx : Index) : Prop :=
  match f.audit with
  | some a => (⟨f.bid, f.stat, a.vars⟩ : Row) ∈ idx.rows
  | none => ∀ r ∈ idx.rows, r.bid ≠ f.bid

/-- the index holds exactly what a fresh look at the files yields -/
structure Normal (files : List FileEnt) (idx : Index) : Prop where
  rows : ∀ r, r ∈ idx.rows ↔ ∃ f ∈ files, rowOfFile f = some r
  refs : ∀ p, p ∈ idx.refs ↔ ∃ f ∈ files, ∃ a, f.audit = some a ∧ p.1 = f.bid ∧ p.2 ∈ a.refs
  distinct : (idx.rows.map fun r => r.bid).Nodup

/-- the sub-commands without `-n` (every command scans first) -/
inductive Cmd where
  | scan
  | find (es : List Expr)
  | clean (dryRun : Bool) (es : List Expr)

def runCmd (repaired : Bool) (c : Cmd) (w : World) : World × Outcome :=
  match c with
  | .scan => (scanCmd repaired w, .ok [])
  | .find es => findCmd repaired false es w
  | .clean dry es => cleanCmd repaired false dry es w

/-- a history: before every command the environment presents an arbitrary archive content (artifacts
added, removed, replaced since the last command); the index is carried from command to command.
The result is what every command printed / reported and which artifact files it left. -/
def runHistory (repaired : Bool) : Index → List (List FileEnt × Cmd) → List (List FileEnt × Outcome)
  | _, [] => []
  | idx, (files, c) :: rest =>
    (((runCmd repaired c ⟨files, idx⟩).1.files, (runCmd repaired c ⟨files, idx⟩).2)) ::
      runHistory repaired (runCmd repaired c ⟨files, idx⟩).1.idx rest

end ArchiveIndex

/-! the two-artifact witness of finding F-C19-1 (used by the examples of `Props/C19.lean`) -/
namespace C19Witness
open Retention ArchiveIndex

def str (s : String) : Str := s.toList

def varsOf (package date : String) : Val :=
  .map [(str "meta", .map [(str "package", .str (str package))]), (str "build", .map [(str "date", .str (str date))])]

def fileA : FileEnt := { bid := str "aa", stat := str "s1", audit := some ⟨varsOf "x" "2020", []⟩ }
def fileB : FileEnt := { bid := str "0b", stat := str "s2", audit := some ⟨varsOf "x" "2021", []⟩ }

/-- `meta.package == "x" LIMIT 1` -/
def exprX1 : Expr :=
  { pred := .cmp .eq (.ref [str "meta", str "package"]) (.lit (str "x")), limit := some 1,
    sortBy := [str "build", str "date"], asc := false }

/-- the index that the scanner itself built when the archive still held both artifacts -/
def warmIndex : Index := scanCurrent Index.empty [fileA, fileB]

/-- a stat function under which the witness files are legitimate (`FilesOk`) -/
def witnessC : Bid → Stat → Option AuditInfo := fun b s =>
  if b = str "aa" ∧ s = str "s1" then fileA.audit else if b = str "0b" ∧ s = str "s2" then fileB.audit else none

end C19Witness
