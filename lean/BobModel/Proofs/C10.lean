import BobModel.Model.StateFS
/-
Helper lemmas for Props/C10.lean: checksum arithmetic, the crash-stable invariant of the
`_BobState` commit protocol, and its preservation along every prefix of every run.
-/
namespace StateFS

/-! ## file system -/

@[simp] theorem FS.set_same (fs : FS) (n : Name) (v : Option File) : (fs.set n v) n = v := by
  simp [FS.set]

theorem FS.set_ne (fs : FS) {n m : Name} (v : Option File) (h : m ≠ n) : (fs.set n v) m = fs m := by
  simp [FS.set, h]

/-! ## checksum -/

theorem le_length (k n : Nat) : (Bytes.le k n).length = k := by
  induction k generalizing n with
  | zero => rfl
  | succ k ih => simp [Bytes.le, ih]

@[simp] theorem trailer_length (p : Bytes) : (trailer p).length = 4 := le_length 4 _

theorem verify_enc (p : Bytes) : verify (enc p) = true := by
  unfold verify enc
  have h : (p ++ trailer p).length - 4 = p.length := by simp
  rw [h]
  simp

theorem verify_short (d : Bytes) (h : d.length < 4) : verify d = false := by
  unfold verify
  have h0 : d.length - 4 = 0 := by omega
  rw [h0]
  simp only [List.take_zero, List.drop_zero, decide_eq_false_iff_not]
  intro heq
  have := congrArg List.length heq
  simp at this
  omega

/-- the `a` component of Adler-32 is `1 + Σ bytes (mod 65521)` -/
def bsum : Bytes → Nat
  | [] => 0
  | x :: xs => x.toNat + bsum xs

theorem go_fst (xs : Bytes) (a b : Nat) : (Adler32.go xs a b).1 = (a + bsum xs) % 65521 ∨ (xs = [] ∧ (Adler32.go xs a b).1 = a) := by
  induction xs generalizing a b with
  | nil => right; simp [Adler32.go]
  | cons x xs ih =>
    left
    simp only [Adler32.go, bsum]
    rcases ih ((a + x.toNat) % 65521) ((b + (a + x.toNat) % 65521) % 65521) with h | ⟨h1, h2⟩
    · rw [h]; omega
    · rw [h2, h1]; simp [bsum]

theorem go_fst_lt (xs : Bytes) (a b : Nat) (ha : a < 65521) : (Adler32.go xs a b).1 = (a + bsum xs) % 65521 := by
  rcases go_fst xs a b with h | ⟨h1, h2⟩
  · exact h
  · rw [h2, h1]; simp [bsum]; omega

theorem go_lt (xs : Bytes) (a b : Nat) (ha : a < 65521) (hb : b < 65521) :
    (Adler32.go xs a b).1 < 65521 ∧ (Adler32.go xs a b).2 < 65521 := by
  induction xs generalizing a b with
  | nil => simp [Adler32.go, ha, hb]
  | cons x xs ih =>
    simp only [Adler32.go]
    apply ih <;> omega

theorem adler_mod (p : Bytes) : Adler32.adler32 p % 65536 = (1 + bsum p) % 65521 := by
  unfold Adler32.adler32
  have h1 := go_fst_lt p 1 0 (by omega)
  have h2 := (go_lt p 1 0 (by omega) (by omega)).1
  generalize Adler32.go p 1 0 = r at h1 h2
  obtain ⟨a, b⟩ := r
  simp only at h1 h2 ⊢
  omega

theorem adler_lt (p : Bytes) : Adler32.adler32 p < 4294967296 := by
  unfold Adler32.adler32
  have h := go_lt p 1 0 (by omega) (by omega)
  generalize Adler32.go p 1 0 = r at h
  obtain ⟨a, b⟩ := r
  simp only at h ⊢
  omega

theorem u8_ofNat_inj {a b : Nat} (ha : a < 256) (hb : b < 256) (h : UInt8.ofNat a = UInt8.ofNat b) : a = b := by
  have := congrArg UInt8.toNat h
  simp at this
  omega

theorem le4_inj {n m : Nat} (hn : n < 4294967296) (hm : m < 4294967296) (h : Bytes.le 4 n = Bytes.le 4 m) : n = m := by
  simp only [Bytes.le, List.cons.injEq, and_true] at h
  obtain ⟨h0, h1, h2, h3⟩ := h
  have e0 := u8_ofNat_inj (Nat.mod_lt _ (by omega)) (Nat.mod_lt _ (by omega)) h0
  have e1 := u8_ofNat_inj (Nat.mod_lt _ (by omega)) (Nat.mod_lt _ (by omega)) h1
  have e2 := u8_ofNat_inj (Nat.mod_lt _ (by omega)) (Nat.mod_lt _ (by omega)) h2
  have e3 := u8_ofNat_inj (Nat.mod_lt _ (by omega)) (Nat.mod_lt _ (by omega)) h3
  omega

theorem trailer_inj {p q : Bytes} (h : trailer p = trailer q) : Adler32.adler32 p = Adler32.adler32 q :=
  le4_inj (adler_lt p) (adler_lt q) h

theorem bsum_append (a b : Bytes) : bsum (a ++ b) = bsum a + bsum b := by
  induction a with
  | nil => simp [bsum]
  | cons x xs ih => simp [bsum, ih]; omega

/-- replacing one byte changes the Adler-32 value -/
theorem adler_change (pre suf : Bytes) (x y : UInt8) (h : x ≠ y) :
    Adler32.adler32 (pre ++ x :: suf) ≠ Adler32.adler32 (pre ++ y :: suf) := by
  intro heq
  have hx := adler_mod (pre ++ x :: suf)
  have hy := adler_mod (pre ++ y :: suf)
  rw [heq] at hx
  rw [bsum_append] at hx hy
  simp only [bsum] at hx hy
  have hxl := x.toNat_lt
  have hyl := y.toNat_lt
  have : x.toNat = y.toNat := by omega
  exact h (UInt8.toNat_inj.mp this)

/-! ## invariant -/

section
variable {σ μ : Type}

theorem upgrade_cur (c : Cfg σ μ) (s : σ) : upgrade c Consts.C10.curVersion s = s := by
  simp [upgrade, Consts.C10.upgrades, Consts.C10.curVersion]

theorem loadBytes_enc (c : Cfg σ μ) (hc : c.Lawful) (s : σ) : loadBytes c (encS c s) = .ok s := by
  unfold loadBytes encS enc
  rw [hc s]
  simp only [upgrade_cur]
  simp [Consts.C10.minVersion, Consts.C10.curVersion]

def PickleOK (c : Cfg σ μ) (p : Option File) (x : Option σ) : Prop :=
  (p = none ∧ x = none) ∨ ∃ s, p = some ⟨encS c s, true⟩ ∧ x = some s

def NewOK (c : Cfg σ μ) (nw : Option File) (G : Ghost σ) : Prop :=
  nw = none ∨ ∃ f, nw = some f ∧ (verify f.data = false ∨ ∃ s, s ∈ G.since ∧ f.data = encS c s)

/-- the crash-stable invariant: the committed file is durable and holds an admissible snapshot,
the uncommitted file is either detectably broken or holds a snapshot saved since the last completed invocation -/
def InvPN (c : Cfg σ μ) (p nw : Option File) (G : Ghost σ) : Prop :=
  ∃ x, PickleOK c p x ∧ Adm G x ∧ NewOK c nw G

def Inv (c : Cfg σ μ) (fs : FS) (G : Ghost σ) : Prop := InvPN c (fs .pickle) (fs .new) G

/-- the invariant between two API calls of a live instance: additionally the newest durable view
(`G.last`) is what a crash without garbling would recover -/
def JPN (c : Cfg σ μ) (p nw : Option File) (G : Ghost σ) : Prop :=
  ∃ x, PickleOK c p x ∧ Adm G x ∧
    ((nw = none ∧ G.last = x) ∨ ∃ s b, nw = some ⟨encS c s, b⟩ ∧ G.last = some s ∧ s ∈ G.since)

def J (c : Cfg σ μ) (fs : FS) (G : Ghost σ) : Prop := JPN c (fs .pickle) (fs .new) G

theorem JPN.inv {c : Cfg σ μ} {p nw : Option File} {G : Ghost σ} (h : JPN c p nw G) : InvPN c p nw G := by
  obtain ⟨x, hp, ha, hn⟩ := h
  refine ⟨x, hp, ha, ?_⟩
  rcases hn with ⟨h1, _⟩ | ⟨s, b, h1, _, h3⟩
  · exact Or.inl h1
  · exact Or.inr ⟨_, h1, Or.inr ⟨s, h3, rfl⟩⟩

theorem Inv_init (c : Cfg σ μ) : Inv c FS.empty Ghost.init :=
  ⟨none, Or.inl ⟨rfl, rfl⟩, Or.inl rfl, Or.inl rfl⟩

theorem Adm_saved {G : Ghost σ} {x : Option σ} (s : σ) (h : Adm G x) : Adm (G.step (.saved s)) x := by
  rcases h with h | ⟨t, ht, hx⟩
  · exact Or.inl h
  · exact Or.inr ⟨t, List.mem_cons_of_mem _ ht, hx⟩

theorem InvPN_saved {c : Cfg σ μ} {p nw : Option File} {G : Ghost σ} (s : σ) (h : InvPN c p nw G) :
    InvPN c p nw (G.step (.saved s)) := by
  obtain ⟨x, hp, ha, hn⟩ := h
  refine ⟨x, hp, Adm_saved s ha, ?_⟩
  rcases hn with h1 | ⟨f, hf, h2 | ⟨t, ht, hd⟩⟩
  · exact Or.inl h1
  · exact Or.inr ⟨f, hf, Or.inl h2⟩
  · exact Or.inr ⟨f, hf, Or.inr ⟨t, List.mem_cons_of_mem _ ht, hd⟩⟩

theorem InvPN_loaded {c : Cfg σ μ} {p nw : Option File} {G : Ghost σ} (y : Option σ) (h : InvPN c p nw G) :
    InvPN c p nw (G.step (.loaded y)) := h

/-! ## "every prefix" -/

/-- `P` holds before every event of the list and after the last one -/
def AllPre (P : FS → Ghost σ → Prop) : FS → Ghost σ → List (Ev σ) → Prop
  | fs, G, [] => P fs G
  | fs, G, e :: es => P fs G ∧ AllPre P (applyEv fs e) (G.step e) es

theorem AllPre_head {P : FS → Ghost σ → Prop} {fs : FS} {G : Ghost σ} {es : List (Ev σ)}
    (h : AllPre P fs G es) : P fs G := by
  cases es with
  | nil => exact h
  | cons e es => exact h.1

theorem AllPre_end {P : FS → Ghost σ → Prop} {fs : FS} {G : Ghost σ} {es : List (Ev σ)}
    (h : AllPre P fs G es) : P (applyEvs fs es) (G.run es) := by
  induction es generalizing fs G with
  | nil => exact h
  | cons e es ih => exact ih h.2

theorem applyEvs_append (fs : FS) (a b : List (Ev σ)) : applyEvs fs (a ++ b) = applyEvs (applyEvs fs a) b := by
  simp [applyEvs, List.foldl_append]

theorem Ghost.run_append (G : Ghost σ) (a b : List (Ev σ)) : G.run (a ++ b) = (G.run a).run b := by
  simp [Ghost.run, List.foldl_append]

theorem AllPre_append {P : FS → Ghost σ → Prop} {fs : FS} {G : Ghost σ} {a b : List (Ev σ)}
    (ha : AllPre P fs G a) (hb : AllPre P (applyEvs fs a) (G.run a) b) : AllPre P fs G (a ++ b) := by
  induction a generalizing fs G with
  | nil => exact hb
  | cons e es ih => exact ⟨ha.1, ih ha.2 hb⟩

theorem AllPre_take {P : FS → Ghost σ → Prop} {fs : FS} {G : Ghost σ} {es : List (Ev σ)}
    (h : AllPre P fs G es) (n : Nat) : P (applyEvs fs (es.take n)) (G.run (es.take n)) := by
  induction es generalizing fs G n with
  | nil => simpa [applyEvs, Ghost.run, AllPre] using h
  | cons e es ih =>
    cases n with
    | zero => simpa [applyEvs, Ghost.run] using h.1
    | succ n => simpa [applyEvs, Ghost.run] using ih h.2 n

/-- ops that do not touch the committed or the uncommitted file -/
def Op.harmless : Op → Bool
  | .createExcl n | .openTrunc n | .append n _ | .fsync n | .unlink n => n != .pickle && n != .new
  | .rename a b => a != .pickle && a != .new && b != .pickle && b != .new
  | .stat _ | .read _ | .failed _ _ => true

theorem harmless_pickle (fs : FS) (o : Op) (h : o.harmless = true) :
    (applyOp fs o) .pickle = fs .pickle ∧ (applyOp fs o) .new = fs .new := by
  cases o with
  | createExcl n =>
    cases hf : fs n <;> cases n <;> simp_all [Op.harmless, applyOp, FS.set]
  | openTrunc n => cases n <;> simp_all [Op.harmless, applyOp, FS.set]
  | append n c =>
    cases hf : fs n <;> cases n <;> simp_all [Op.harmless, applyOp, FS.set]
  | fsync n =>
    cases hf : fs n <;> cases n <;> simp_all [Op.harmless, applyOp, FS.set]
  | unlink n => cases n <;> simp_all [Op.harmless, applyOp, FS.set]
  | rename a b =>
    cases hf : fs a <;> cases a <;> cases b <;> simp_all [Op.harmless, applyOp, FS.set]
  | stat n => simp [applyOp]
  | read n => simp [applyOp]
  | failed k n => simp [applyOp]

theorem save_pre (c : Cfg σ μ) (fs : FS) (G : Ghost σ) (s : σ) (h : J c fs G) :
    AllPre (Inv c) fs G (saveEvs c s) ∧ J c (applyEvs fs (saveEvs c s)) (G.run (saveEvs c s)) := by
  have hi : InvPN c (fs .pickle) (fs .new) G := JPN.inv h
  obtain ⟨x, hp, ha, _⟩ := h
  simp only [saveEvs, AllPre, applyEv, applyOp, applyEvs, Ghost.run, List.foldl, Ghost.step, Inv, J]
  simp [FS.set]
  have hj : JPN c (fs .pickle) (some ⟨encS c s, false⟩) (G.step (.saved s)) :=
    ⟨x, hp, Adm_saved s ha, Or.inr ⟨s, false, rfl, rfl, List.mem_cons_self⟩⟩
  exact ⟨⟨hi, InvPN_saved s hi, JPN.inv hj⟩, hj⟩

theorem J_nochange (c : Cfg σ μ) (fs : FS) (G : Ghost σ) (h : J c fs G) :
    AllPre (Inv c) fs G ([] : List (Ev σ)) ∧ J c (applyEvs fs ([] : List (Ev σ))) (G.run ([] : List (Ev σ))) := ⟨JPN.inv h, h⟩

theorem call_pre (c : Cfg σ μ) (fs : FS) (G : Ghost σ) (mem : Mem σ) (cl : Call μ) (h : J c fs G) :
    AllPre (Inv c) fs G (callStep c mem cl).2.1 ∧
      J c (applyEvs fs (callStep c mem cl).2.1) (G.run (callStep c mem cl).2.1) := by
  cases cl with
  | «mut» m =>
    simp only [callStep]
    split
    · split
      · exact save_pre c fs G _ h
      · exact J_nochange c fs G h
    · exact J_nochange c fs G h
  | setAsync => exact J_nochange c fs G h
  | setSync =>
    simp only [callStep]
    split
    · exact J_nochange c fs G h
    · split
      · exact save_pre c fs G _ h
      · exact J_nochange c fs G h

theorem calls_pre (c : Cfg σ μ) (fs : FS) (G : Ghost σ) (mem : Mem σ) (cls : List (Call μ)) (h : J c fs G) :
    AllPre (Inv c) fs G (runCalls c mem cls).2 ∧
      J c (applyEvs fs (runCalls c mem cls).2) (G.run (runCalls c mem cls).2) := by
  induction cls generalizing fs G mem with
  | nil => exact J_nochange c fs G h
  | cons cl rest ih =>
    simp only [runCalls]
    obtain ⟨h1, h2⟩ := call_pre c fs G mem cl h
    obtain ⟨h3, h4⟩ := ih _ _ (callStep c mem cl).1 h2
    refine ⟨AllPre_append h1 h3, ?_⟩
    rw [applyEvs_append, Ghost.run_append]
    exact h4

/-- `finalize` from the between-calls invariant -/
theorem fin_pre (c : Cfg σ μ) (fs : FS) (G : Ghost σ) (mem : Mem σ) (h : J c fs G) :
    AllPre (Inv c) fs G (finalizeEvs fs mem) := by
  have hi : InvPN c (fs .pickle) (fs .new) G := JPN.inv h
  unfold finalizeEvs
  split
  · obtain ⟨x, hp, ha, hn⟩ := h
    rcases hn with ⟨hn, hl⟩ | ⟨s, b, hn, hl, hs⟩
    · rw [hn] at hi
      simp [commitOps, hn, AllPre, applyEv, applyOp, Ghost.step, Inv, FS.set]
      exact ⟨hi, x, hp, Or.inl hl.symm, Or.inl rfl⟩
    · rw [hn] at hi
      simp [commitOps, hn, AllPre, applyEv, applyOp, Ghost.step, Inv, FS.set]
      exact ⟨hi, ⟨x, hp, ha, Or.inr ⟨_, rfl, Or.inr ⟨s, hs, rfl⟩⟩⟩,
        ⟨some s, Or.inr ⟨s, rfl, rfl⟩, Or.inr ⟨s, hs, rfl⟩, Or.inl rfl⟩,
        ⟨some s, Or.inr ⟨s, rfl, rfl⟩, Or.inl hl.symm, Or.inl rfl⟩⟩
  · exact hi

theorem loadDisk_ok (c : Cfg σ μ) (hc : c.Lawful) (fs : FS) (x : Option σ) (hp : PickleOK c (fs .pickle) x) :
    loadDisk c fs = .ok x := by
  unfold loadDisk
  rcases hp with ⟨h1, h2⟩ | ⟨s, h1, h2⟩
  · simp [h1, h2]
  · simp [h1, h2, loadBytes_enc c hc]

theorem InvPN_last {c : Cfg σ μ} {p nw : Option File} {G : Ghost σ} (y : Option σ) (h : InvPN c p nw G) :
    InvPN c p nw ⟨G.base, G.since, y⟩ := h

theorem init_pre (c : Cfg σ μ) (hc : c.Lawful) (fs : FS) (G : Ghost σ) (h : Inv c fs G) :
    AllPre (Inv c) fs G (initRun c fs).evs ∧
    (∀ x, (initRun c fs).res = .ok x →
      J c (applyEvs fs (initRun c fs).evs) (G.run (initRun c fs).evs) ∧ Adm G x) ∧
    (fs .lock = none → ∃ x, (initRun c fs).res = .ok x) := by
  have hi : InvPN c (fs .pickle) (fs .new) G := h
  cases hl : fs .lock with
  | some lf =>
    simp [initRun, hl, AllPre, applyEv, applyOp, Inv, Ghost.step]
    exact hi
  | none =>
    obtain ⟨x, hp, ha, hn⟩ := h
    rcases hn with hn | ⟨f, hn, hv⟩
    · -- no uncommitted file
      have hld : loadDisk c (fs.set .lock (some ⟨[], false⟩)) = .ok x :=
        loadDisk_ok c hc _ x (by simpa [FS.set] using hp)
      rw [hn] at hi
      have hj : JPN c (fs .pickle) none ⟨G.base, G.since, x⟩ := ⟨x, hp, ha, Or.inl ⟨rfl, rfl⟩⟩
      rcases hp with ⟨h1, h2⟩ | ⟨s, h1, h2⟩
      · rw [h1] at hi hj
        simp [initRun, hl, hn, h1, applyOp, applyOps, commitOps, loadOps, FS.set, hld, AllPre, applyEv, applyEvs,
          Ghost.step, Ghost.run, Inv, J]
        exact ⟨⟨hi, InvPN_last x hi⟩, hj, ha⟩
      · rw [h1] at hi hj
        simp [initRun, hl, hn, h1, applyOp, applyOps, commitOps, loadOps, FS.set, hld, AllPre, applyEv, applyEvs,
          Ghost.step, Ghost.run, Inv, J]
        exact ⟨⟨hi, InvPN_last x hi⟩, hj, ha⟩
    · rw [hn] at hi
      obtain ⟨d, sy⟩ := f
      cases hvf : verify d with
      | false =>
        -- broken uncommitted file: discarded
        have hld : loadDisk c (((fs.set .lock (some ⟨[], false⟩)).set .new (some ⟨d, true⟩)).set .new none) = .ok x :=
          loadDisk_ok c hc _ x (by simpa [FS.set] using hp)
        have hi2 : InvPN c (fs .pickle) (some ⟨d, true⟩) G := ⟨x, hp, ha, Or.inr ⟨_, rfl, Or.inl hvf⟩⟩
        have hi3 : InvPN c (fs .pickle) none G := ⟨x, hp, ha, Or.inl rfl⟩
        have hj : JPN c (fs .pickle) none ⟨G.base, G.since, x⟩ := ⟨x, hp, ha, Or.inl ⟨rfl, rfl⟩⟩
        rcases hp with ⟨h1, h2⟩ | ⟨s, h1, h2⟩
        · rw [h1] at hi hi2 hi3 hj
          simp [initRun, hl, hn, h1, hvf, applyOp, applyOps, commitOps, loadOps, FS.set, hld, AllPre, applyEv, applyEvs,
            Ghost.step, Ghost.run, Inv, J]
          exact ⟨⟨hi, hi2, hi3, InvPN_last x hi3⟩, hj, ha⟩
        · rw [h1] at hi hi2 hi3 hj
          simp [initRun, hl, hn, h1, hvf, applyOp, applyOps, commitOps, loadOps, FS.set, hld, AllPre, applyEv, applyEvs,
            Ghost.step, Ghost.run, Inv, J]
          exact ⟨⟨hi, hi2, hi3, InvPN_last x hi3⟩, hj, ha⟩
      | true =>
        -- intact uncommitted file: committed and loaded
        rcases hv with hv | ⟨s, hs, hd⟩
        · simp [hvf] at hv
        · simp only at hd
          subst hd
          have hx : Adm G (some s) := Or.inr ⟨s, hs, rfl⟩
          have hp' : PickleOK c (some ⟨encS c s, true⟩) (some s) := Or.inr ⟨s, rfl, rfl⟩
          have hld : loadDisk c ((((fs.set .lock (some ⟨[], false⟩)).set .new (some ⟨encS c s, true⟩)).set .pickle
              (some ⟨encS c s, true⟩)).set .new none) = .ok (some s) :=
            loadDisk_ok c hc _ (some s) (by simpa [FS.set] using hp')
          have hi2 : InvPN c (fs .pickle) (some ⟨encS c s, true⟩) G := ⟨x, hp, ha, Or.inr ⟨_, rfl, Or.inr ⟨s, hs, rfl⟩⟩⟩
          have hi3 : InvPN c (some ⟨encS c s, true⟩) none G := ⟨some s, hp', hx, Or.inl rfl⟩
          have hj : JPN c (some ⟨encS c s, true⟩) none ⟨G.base, G.since, some s⟩ := ⟨some s, hp', hx, Or.inl ⟨rfl, rfl⟩⟩
          simp [initRun, hl, hn, hvf, applyOp, applyOps, commitOps, loadOps, FS.set, hld, AllPre, applyEv, applyEvs,
            Ghost.step, Ghost.run, Inv, J]
          exact ⟨⟨hi, hi2, hi3, InvPN_last _ hi3⟩, hj, hx⟩

/-! ## whole invocations and histories -/

theorem runInv_pre (c : Cfg σ μ) (hc : c.Lawful) (fs : FS) (G : Ghost σ) (calls : List (Call μ))
    (h : Inv c fs G) : AllPre (Inv c) fs G (runInv c fs calls) := by
  obtain ⟨h1, h2, _⟩ := init_pre c hc fs G h
  unfold runInv
  cases hr : (initRun c fs).res with
  | error e => simpa [hr] using h1
  | ok x =>
    simp only [hr]
    obtain ⟨hj, _⟩ := h2 x hr
    obtain ⟨h3, h4⟩ := calls_pre c _ _ (memOf c x) calls hj
    have h5 := fin_pre c _ _ (runCalls c (memOf c x) calls).1 h4
    refine AllPre_append (AllPre_append h1 h3) ?_
    rw [applyEvs_append, Ghost.run_append]
    exact h5

theorem runHist_pre (c : Cfg σ μ) (hc : c.Lawful) (fs : FS) (G : Ghost σ) (hist : List (List (Call μ)))
    (h : Inv c fs G) : AllPre (Inv c) fs G (runHist c fs hist) := by
  induction hist generalizing fs G with
  | nil => exact h
  | cons calls rest ih =>
    simp only [runHist]
    have h1 := runInv_pre c hc fs G calls h
    exact AllPre_append h1 (ih _ _ (AllPre_end h1))

theorem applyEvs_ops (fs : FS) (es : List (Ev σ)) : applyEvs fs es = applyOps fs (evOps es) := by
  induction es generalizing fs with
  | nil => rfl
  | cons e es ih =>
    cases e <;> simp only [applyEvs, applyOps, evOps, List.foldl, applyEv] at ih ⊢ <;> exact ih _

/-! ## crash and recovery -/

theorem Inv_recover (c : Cfg σ μ) (fs : FS) (G : Ghost σ) (g : Garble) (hg : Detectable g)
    (h : Inv c fs G) : Inv c (recover fs g) G := by
  obtain ⟨x, hp, ha, hn⟩ := h
  refine ⟨x, ?_, ha, ?_⟩
  · rcases hp with ⟨h1, h2⟩ | ⟨s, h1, h2⟩
    · exact Or.inl ⟨by simp [recover, crash, FS.set, h1], h2⟩
    · exact Or.inr ⟨s, by simp [recover, crash, FS.set, h1], h2⟩
  · rcases hn with h1 | ⟨f, h1, hv⟩
    · exact Or.inl (by simp [recover, crash, FS.set, h1])
    · obtain ⟨d, sy⟩ := f
      cases sy with
      | true => exact Or.inr ⟨⟨d, true⟩, by simp [recover, crash, FS.set, h1], hv⟩
      | false =>
        refine Or.inr ⟨⟨g .new d, false⟩, by simp [recover, crash, FS.set, h1], ?_⟩
        rcases hg d with he | he
        · simpa [he] using hv
        · exact Or.inl he

theorem recover_lock (fs : FS) (g : Garble) : (recover fs g) .lock = none := by
  simp [recover]

/-- a fresh start on a file system satisfying the invariant (lock absent) loads an admissible state -/
theorem fresh_start (c : Cfg σ μ) (hc : c.Lawful) (fs : FS) (G : Ghost σ) (h : Inv c fs G) (hl : fs .lock = none) :
    ∃ x, (initRun c fs).res = .ok x ∧ Adm G x := by
  obtain ⟨_, h2, h3⟩ := init_pre c hc fs G h
  obtain ⟨x, hx⟩ := h3 hl
  exact ⟨x, hx, (h2 x hx).2⟩

def Session.Det : Session μ → Prop
  | .complete _ => True
  | .crashed _ _ g => Detectable g

theorem runSessions_inv (c : Cfg σ μ) (hc : c.Lawful) (ss : List (Session μ)) (fs : FS) (G : Ghost σ)
    (hd : ∀ s ∈ ss, s.Det) (h : Inv c fs G) :
    Inv c (runSessions c fs G ss).1 (runSessions c fs G ss).2 := by
  induction ss generalizing fs G with
  | nil => exact h
  | cons s rest ih =>
    simp only [runSessions]
    apply ih _ _ (fun t ht => hd t (List.mem_cons_of_mem _ ht))
    cases s with
    | complete calls => exact AllPre_end (runInv_pre c hc fs G calls h)
    | crashed calls cut g =>
      have hg : Detectable g := hd _ List.mem_cons_self
      exact Inv_recover c _ _ g hg (AllPre_take (runInv_pre c hc fs G calls h) cut)

/-! ## single writer -/

def W2Inv (w : World2 σ) : Prop :=
  ¬ (w.ma.isSome = true ∧ w.mb.isSome = true) ∧
    ((w.ma.isSome = true ∨ w.mb.isSome = true) → (w.fs .lock).isSome = true)

theorem saveEvs_lock (c : Cfg σ μ) (fs : FS) (s : σ) : (applyEvs fs (saveEvs c s)) .lock = fs .lock := by
  simp [saveEvs, applyEvs, applyEv, applyOp, FS.set]

theorem callStep_lock (c : Cfg σ μ) (fs : FS) (m : Mem σ) (cl : Call μ) :
    (applyEvs fs (callStep c m cl).2.1) .lock = fs .lock := by
  cases cl with
  | «mut» x =>
    simp only [callStep]
    split
    · split
      · exact saveEvs_lock c fs _
      · rfl
    · rfl
  | setAsync => rfl
  | setSync =>
    simp only [callStep]
    split
    · rfl
    · split
      · exact saveEvs_lock c fs _
      · rfl

theorem initRun_locked (c : Cfg σ μ) (fs : FS) (h : (fs .lock).isSome = true) :
    (initRun c fs).res = .error .locked ∧ (initRun c fs).evs = [.op (.createExcl .lock)] ∧
      applyEvs fs (initRun c fs).evs = fs := by
  cases hl : fs .lock with
  | none => simp [hl] at h
  | some f => simp [initRun, hl, applyEvs, applyEv, applyOp]

theorem commitOps_lock (fs : FS) (v : Bool) (hl : (fs .lock).isSome = true) :
    ((applyOps fs (commitOps fs v)) .lock).isSome = true := by
  unfold commitOps
  cases hn : fs .new with
  | none => simpa [applyOps, applyOp] using hl
  | some f =>
    cases v <;> cases hv : verify f.data <;>
      simpa [applyOps, applyOp, hn, hv, FS.set] using hl

theorem initRun_ok_lock (c : Cfg σ μ) (fs : FS) (x : Option σ) (h : (initRun c fs).res = .ok x) :
    ((applyEvs fs (initRun c fs).evs) .lock).isSome = true := by
  cases hl : fs .lock with
  | some f => simp [initRun, hl] at h
  | none =>
    have h1 : ((applyOp fs (.createExcl .lock)) .lock).isSome = true := by simp [applyOp, hl]
    have h2 := commitOps_lock (applyOp fs (.createExcl .lock)) true h1
    generalize hfs2 : applyOps (applyOp fs (.createExcl .lock)) (commitOps (applyOp fs (.createExcl .lock)) true) = fs2 at h2
    unfold initRun at h ⊢
    simp only [hl, hfs2] at h ⊢
    cases hld : loadDisk c fs2 with
    | error e => simp [hld] at h
    | ok y =>
      simp only [hld] at h ⊢
      have hlo : applyOps fs2 (loadOps fs2) = fs2 := by
        unfold loadOps
        cases fs2 .pickle <;> simp [applyOps, applyOp]
      rw [applyEvs_ops]
      have hev : ∀ (l : List Op), evOps (l.map Ev.op ++ [Ev.loaded y]) = l := by
        intro l
        induction l with
        | nil => rfl
        | cons o l ih => simpa [evOps] using ih
      simp only [List.cons_append, evOps, hev]
      simp only [applyOps, List.foldl_cons, List.foldl_append] at hfs2 hlo ⊢
      rw [hfs2, hlo]
      exact h2
theorem step2_inv (c : Cfg σ μ) (w : World2 σ) (a : Act μ) (h : W2Inv w) : W2Inv (step2 c w a).1 := by
  obtain ⟨h1, h2⟩ := h
  cases a with
  | init i =>
    cases i with
    | a =>
      simp only [step2, World2.get]
      cases hma : w.ma with
      | some m => simpa [W2Inv, hma] using And.intro h1 h2
      | none =>
        simp only
        cases hr : (initRun c w.fs).res with
        | ok x =>
          have hl := initRun_ok_lock c w.fs x hr
          have hmb : w.mb.isSome = false := by
            cases hb : w.mb.isSome with
            | false => rfl
            | true =>
              have := (initRun_locked c w.fs (h2 (Or.inr hb))).1
              rw [hr] at this; cases this
          simp [W2Inv, World2.put, hmb, hl]
        | error e =>
          cases hb : w.mb.isSome with
          | false => simp [W2Inv, World2.put, hb]
          | true =>
            have hlk := initRun_locked c w.fs (h2 (Or.inr hb))
            simp [W2Inv, World2.put, hb, hlk.2.2, h2 (Or.inr hb)]
    | b =>
      simp only [step2, World2.get]
      cases hmb : w.mb with
      | some m => simpa [W2Inv, hmb] using And.intro h1 h2
      | none =>
        simp only
        cases hr : (initRun c w.fs).res with
        | ok x =>
          have hl := initRun_ok_lock c w.fs x hr
          have hma : w.ma.isSome = false := by
            cases ha : w.ma.isSome with
            | false => rfl
            | true =>
              have := (initRun_locked c w.fs (h2 (Or.inl ha))).1
              rw [hr] at this; cases this
          simp [W2Inv, World2.put, hma, hl]
        | error e =>
          cases ha : w.ma.isSome with
          | false => simp [W2Inv, World2.put, ha]
          | true =>
            have hlk := initRun_locked c w.fs (h2 (Or.inl ha))
            simp [W2Inv, World2.put, ha, hlk.2.2, h2 (Or.inl ha)]
  | call i cl =>
    cases i with
    | a =>
      simp only [step2, World2.get]
      cases hma : w.ma with
      | none => simpa [W2Inv, hma] using And.intro h1 h2
      | some m =>
        have hl := callStep_lock c w.fs m cl
        simp [W2Inv, World2.put, hl]
        simp [hma] at h1 h2
        exact ⟨h1, h2⟩
    | b =>
      simp only [step2, World2.get]
      cases hmb : w.mb with
      | none => simpa [W2Inv, hmb] using And.intro h1 h2
      | some m =>
        have hl := callStep_lock c w.fs m cl
        simp [W2Inv, World2.put, hl]
        simp [hmb] at h1 h2
        exact ⟨h1, h2⟩
  | fin i =>
    cases i with
    | a =>
      simp only [step2, World2.get]
      cases hma : w.ma with
      | none => simpa [W2Inv, hma] using And.intro h1 h2
      | some m =>
        simp only
        split
        · simp [hma] at h1
          simp [W2Inv, World2.put, h1]
        · simpa [W2Inv, hma] using And.intro h1 h2
    | b =>
      simp only [step2, World2.get]
      cases hmb : w.mb with
      | none => simpa [W2Inv, hmb] using And.intro h1 h2
      | some m =>
        simp only
        split
        · simp [hmb] at h1
          simp [W2Inv, World2.put, h1]
        · simpa [W2Inv, hmb] using And.intro h1 h2

theorem run2_inv (c : Cfg σ μ) (w : World2 σ) (acts : List (Act μ)) (h : W2Inv w) : W2Inv (run2 c w acts) := by
  induction acts generalizing w with
  | nil => exact h
  | cons a rest ih => exact ih _ (step2_inv c w a h)


/-! ## asynchronous sections, more checksum facts -/

theorem runCalls_append (c : Cfg σ μ) (mem : Mem σ) (a b : List (Call μ)) :
    runCalls c mem (a ++ b) =
      ((runCalls c (runCalls c mem a).1 b).1, (runCalls c mem a).2 ++ (runCalls c (runCalls c mem a).1 b).2) := by
  induction a generalizing mem with
  | nil => simp [runCalls]
  | cons x xs ih => simp [runCalls, ih, List.append_assoc]

/-- inside an asynchronous section nothing is emitted; the memory just accumulates -/
theorem async_inside (c : Cfg σ μ) (mem : Mem σ) (cs : List (Call μ)) (h : Inside mem.async cs) :
    (runCalls c mem cs).2 = [] ∧
    (runCalls c mem cs).1 = ⟨(foldMuts c mem.cur mem.dirty cs).1, depthAfter mem.async cs, (foldMuts c mem.cur mem.dirty cs).2⟩ := by
  induction cs generalizing mem with
  | nil => simp [runCalls, foldMuts, depthAfter]
  | cons cl rest ih =>
    cases cl with
    | «mut» m =>
      obtain ⟨h0, h1⟩ := h
      have hne : mem.async ≠ 0 := by omega
      cases hs : (c.step mem.cur m).2 with
      | true =>
        have := ih ⟨(c.step mem.cur m).1, mem.async, true⟩ h1
        simp [runCalls, callStep, hs, hne, foldMuts, depthAfter] at this ⊢
        exact this
      | false =>
        have := ih ⟨(c.step mem.cur m).1, mem.async, mem.dirty⟩ h1
        simp [runCalls, callStep, hs, foldMuts, depthAfter] at this ⊢
        exact this
    | setAsync =>
      obtain ⟨h0, h1⟩ := h
      have := ih ⟨mem.cur, mem.async + 1, mem.dirty⟩ h1
      simp [runCalls, callStep, foldMuts, depthAfter] at this ⊢
      exact this
    | setSync =>
      obtain ⟨h0, h1⟩ := h
      have := ih ⟨mem.cur, mem.async - 1, mem.dirty⟩ h1
      have hn1 : ¬ (mem.async - 1 < 0) := by omega
      have hn2 : ¬ (mem.async - 1 = 0) := by omega
      simp [runCalls, callStep, foldMuts, depthAfter, hn1, hn2] at this ⊢
      exact this

theorem async_section (c : Cfg σ μ) (mem : Mem σ) (cs : List (Call μ))
    (h0 : mem.async = 0) (hd : mem.dirty = false) (h : Inside 1 cs) (hb : depthAfter 1 cs = 1) :
    (runCalls c mem (.setAsync :: cs)).2 = [] ∧
    (runCalls c mem (.setAsync :: cs ++ [.setSync])).2 =
      (if (foldMuts c mem.cur false cs).2 then saveEvs c (foldMuts c mem.cur false cs).1 else []) := by
  have hi := async_inside c ⟨mem.cur, mem.async + 1, mem.dirty⟩ cs (by simpa [h0] using h)
  simp only [h0, hd, Int.zero_add] at hi
  obtain ⟨e1, m1⟩ := hi
  constructor
  · simp [runCalls, callStep, h0, hd, e1]
  · rw [show Call.setAsync :: cs ++ [Call.setSync] = (Call.setAsync :: cs) ++ [Call.setSync] from rfl, runCalls_append]
    simp only [runCalls, callStep, h0, hd, Int.zero_add, e1, m1, hb, List.nil_append, List.append_nil]
    cases hf : (foldMuts c mem.cur false cs).2 <;> simp

theorem verify_append4 (q t : Bytes) (ht : t.length = 4) : verify (q ++ t) = decide (trailer q = t) := by
  unfold verify
  have h : (q ++ t).length - 4 = q.length := by simp [ht]
  rw [h]
  simp

theorem single_byte (p pre suf : Bytes) (x y : UInt8) (hxy : x ≠ y) (h : enc p = pre ++ x :: suf) :
    verify (pre ++ y :: suf) = false := by
  unfold enc at h
  rcases List.append_eq_append_iff.mp h with ⟨a', h1, h2⟩ | ⟨c', h1, h2⟩
  · -- the byte lies in the trailer
    have hl : (a' ++ y :: suf).length = 4 := by
      have := congrArg List.length h2
      simp at this ⊢; omega
    rw [h1, List.append_assoc, verify_append4 _ _ hl, h2]
    simp [hxy]
  · cases c' with
    | nil =>
      simp at h1 h2
      have hl : (y :: suf).length = 4 := by
        have := congrArg List.length h2
        simp at this ⊢; omega
      rw [← h1, verify_append4 _ _ hl, ← h2]
      simp [hxy]
    | cons z c'' =>
      simp at h2
      obtain ⟨hz, h3⟩ := h2
      subst hz
      rw [h3, show pre ++ y :: (c'' ++ trailer p) = (pre ++ y :: c'') ++ trailer p by simp,
        verify_append4 _ _ (trailer_length p), h1]
      simp only [decide_eq_false_iff_not]
      intro ht
      exact adler_change pre c'' y x (fun e => hxy e.symm) (trailer_inj ht)

theorem bsum_zeros (k : Nat) : bsum (List.replicate k (0 : UInt8)) = 0 := by
  induction k with
  | zero => rfl
  | succ k ih => simp [List.replicate_succ, bsum, ih]

/-- a file of zero bytes (what delayed allocation leaves) never verifies -/
theorem verify_zeros (n : Nat) : verify (List.replicate n (0 : UInt8)) = false := by
  by_cases hn : n < 4
  · exact verify_short _ (by simpa using hn)
  · have hsplit : List.replicate n (0 : UInt8) = List.replicate (n - 4) 0 ++ List.replicate 4 0 := by
      rw [List.replicate_append_replicate]; congr 1; omega
    rw [hsplit, verify_append4 _ _ (by simp)]
    simp only [decide_eq_false_iff_not]
    intro ht
    have hm := adler_mod (List.replicate (n - 4) (0 : UInt8))
    rw [bsum_zeros] at hm
    simp only [trailer, Bytes.le, List.replicate, List.cons.injEq] at ht
    have h0 := congrArg UInt8.toNat ht.1
    simp at h0
    omega

/-! ## a process kill (no garbling) loses nothing that was saved -/

def KPN (c : Cfg σ μ) (p nw : Option File) (d : Option σ) : Prop :=
  ∃ x, PickleOK c p x ∧ ((nw = none ∧ x = d) ∨ ∃ s b, nw = some ⟨encS c s, b⟩ ∧ d = some s)

def K (c : Cfg σ μ) (fs : FS) (D : Dur σ) : Prop := KPN c (fs .pickle) (fs .new) D.durable

def AllPreD (P : FS → Dur σ → Prop) : FS → Dur σ → List (Ev σ) → Prop
  | fs, D, [] => P fs D
  | fs, D, e :: es => P fs D ∧ AllPreD P (applyEv fs e) (D.step e) es

theorem AllPreD_end {P : FS → Dur σ → Prop} {fs : FS} {D : Dur σ} {es : List (Ev σ)}
    (h : AllPreD P fs D es) : P (applyEvs fs es) (D.run es) := by
  induction es generalizing fs D with
  | nil => exact h
  | cons e es ih => exact ih h.2

theorem Dur.run_append (D : Dur σ) (a b : List (Ev σ)) : D.run (a ++ b) = (D.run a).run b := by
  simp [Dur.run, List.foldl_append]

theorem AllPreD_append {P : FS → Dur σ → Prop} {fs : FS} {D : Dur σ} {a b : List (Ev σ)}
    (ha : AllPreD P fs D a) (hb : AllPreD P (applyEvs fs a) (D.run a) b) : AllPreD P fs D (a ++ b) := by
  induction a generalizing fs D with
  | nil => exact hb
  | cons e es ih => exact ⟨ha.1, ih ha.2 hb⟩

theorem AllPreD_take {P : FS → Dur σ → Prop} {fs : FS} {D : Dur σ} {es : List (Ev σ)}
    (h : AllPreD P fs D es) (n : Nat) : P (applyEvs fs (es.take n)) (D.run (es.take n)) := by
  induction es generalizing fs D n with
  | nil => simpa [applyEvs, Dur.run, AllPreD] using h
  | cons e es ih =>
    cases n with
    | zero => simpa [applyEvs, Dur.run] using h.1
    | succ n => simpa [applyEvs, Dur.run] using ih h.2 n

theorem saveK (c : Cfg σ μ) (fs : FS) (D : Dur σ) (s : σ) (h : K c fs D) :
    AllPreD (K c) fs D (saveEvs c s) := by
  have hk : KPN c (fs .pickle) (fs .new) D.durable := h
  obtain ⟨x, hp, _⟩ := h
  simp only [saveEvs, AllPreD, applyEv, applyOp, Dur.step, K]
  simp [FS.set]
  exact ⟨hk, x, hp, Or.inr ⟨s, false, rfl, rfl⟩⟩

theorem callK (c : Cfg σ μ) (fs : FS) (D : Dur σ) (mem : Mem σ) (cl : Call μ) (h : K c fs D) :
    AllPreD (K c) fs D (callStep c mem cl).2.1 := by
  cases cl with
  | «mut» m =>
    simp only [callStep]
    split
    · split
      · exact saveK c fs D _ h
      · exact h
    · exact h
  | setAsync => exact h
  | setSync =>
    simp only [callStep]
    split
    · exact h
    · split
      · exact saveK c fs D _ h
      · exact h

theorem callsK (c : Cfg σ μ) (fs : FS) (D : Dur σ) (mem : Mem σ) (cls : List (Call μ)) (h : K c fs D) :
    AllPreD (K c) fs D (runCalls c mem cls).2 := by
  induction cls generalizing fs D mem with
  | nil => exact h
  | cons cl rest ih =>
    simp only [runCalls]
    have h1 := callK c fs D mem cl h
    exact AllPreD_append h1 (ih _ _ _ (AllPreD_end h1))

theorem finK (c : Cfg σ μ) (fs : FS) (D : Dur σ) (mem : Mem σ) (h : K c fs D) :
    AllPreD (K c) fs D (finalizeEvs fs mem) := by
  have hk : KPN c (fs .pickle) (fs .new) D.durable := h
  unfold finalizeEvs
  split
  · obtain ⟨x, hp, hn⟩ := h
    rcases hn with ⟨hn, hx⟩ | ⟨s, b, hn, hd⟩
    · rw [hn] at hk
      simp [commitOps, hn, AllPreD, applyEv, applyOp, Dur.step, K, FS.set]
      exact hk
    · rw [hn] at hk
      simp [commitOps, hn, AllPreD, applyEv, applyOp, Dur.step, K, FS.set]
      exact ⟨hk, ⟨x, hp, Or.inr ⟨s, true, rfl, hd⟩⟩, ⟨some s, Or.inr ⟨s, rfl, rfl⟩, Or.inl ⟨rfl, hd.symm⟩⟩⟩
  · exact hk

theorem initK (c : Cfg σ μ) (hc : c.Lawful) (fs : FS) (D : Dur σ) (h : K c fs D) :
    AllPreD (K c) fs D (initRun c fs).evs ∧
    (fs .lock = none → (initRun c fs).res = .ok D.durable) := by
  have hk : KPN c (fs .pickle) (fs .new) D.durable := h
  cases hl : fs .lock with
  | some lf =>
    simp [initRun, hl, AllPreD, applyEv, applyOp, K, Dur.step]
    exact hk
  | none =>
    obtain ⟨x, hp, hn⟩ := h
    rcases hn with ⟨hn, hx⟩ | ⟨s, b, hn, hd⟩
    · have hld : loadDisk c (fs.set .lock (some ⟨[], false⟩)) = .ok x :=
        loadDisk_ok c hc _ x (by simpa [FS.set] using hp)
      rw [hn] at hk
      rcases hp with ⟨h1, h2⟩ | ⟨t, h1, h2⟩
      · rw [h1] at hk
        simp [initRun, hl, hn, h1, applyOp, applyOps, commitOps, loadOps, FS.set, hld, AllPreD, applyEv, Dur.step, K]
        exact ⟨hk, hx⟩
      · rw [h1] at hk
        simp [initRun, hl, hn, h1, applyOp, applyOps, commitOps, loadOps, FS.set, hld, AllPreD, applyEv, Dur.step, K]
        exact ⟨hk, hx⟩
    · have hv : verify (encS c s) = true := verify_enc _
      have hp' : PickleOK c (some ⟨encS c s, true⟩) (some s) := Or.inr ⟨s, rfl, rfl⟩
      have hld : loadDisk c ((((fs.set .lock (some ⟨[], false⟩)).set .new (some ⟨encS c s, true⟩)).set .pickle
          (some ⟨encS c s, true⟩)).set .new none) = .ok (some s) :=
        loadDisk_ok c hc _ (some s) (by simpa [FS.set] using hp')
      rw [hn] at hk
      have hk2 : KPN c (fs .pickle) (some ⟨encS c s, true⟩) D.durable := ⟨x, hp, Or.inr ⟨s, true, rfl, hd⟩⟩
      have hk3 : KPN c (some ⟨encS c s, true⟩) none D.durable := ⟨some s, hp', Or.inl ⟨rfl, hd.symm⟩⟩
      simp [initRun, hl, hn, hv, applyOp, applyOps, commitOps, loadOps, FS.set, hld, AllPreD, applyEv, Dur.step, K]
      exact ⟨⟨hk, hk2, hk3⟩, hd.symm⟩

theorem runInvK (c : Cfg σ μ) (hc : c.Lawful) (fs : FS) (D : Dur σ) (calls : List (Call μ))
    (h : K c fs D) : AllPreD (K c) fs D (runInv c fs calls) := by
  obtain ⟨h1, _⟩ := initK c hc fs D h
  unfold runInv
  cases hr : (initRun c fs).res with
  | error e => simpa [hr] using h1
  | ok x =>
    simp only [hr]
    have h3 := callsK c _ _ (memOf c x) calls (AllPreD_end h1)
    have h5 := finK c _ _ (runCalls c (memOf c x) calls).1 (AllPreD_end h3)
    refine AllPreD_append (AllPreD_append h1 h3) ?_
    rw [applyEvs_append, Dur.run_append]
    exact h5

theorem runHistK (c : Cfg σ μ) (hc : c.Lawful) (fs : FS) (D : Dur σ) (hist : List (List (Call μ)))
    (h : K c fs D) : AllPreD (K c) fs D (runHist c fs hist) := by
  induction hist generalizing fs D with
  | nil => exact h
  | cons calls rest ih =>
    simp only [runHist]
    have h1 := runInvK c hc fs D calls h
    exact AllPreD_append h1 (ih _ _ (AllPreD_end h1))

theorem K_kill (c : Cfg σ μ) (fs : FS) (D : Dur σ) (h : K c fs D) : K c (recover fs (fun _ d => d)) D := by
  obtain ⟨x, hp, hn⟩ := h
  refine ⟨x, ?_, ?_⟩
  · rcases hp with ⟨h1, h2⟩ | ⟨s, h1, h2⟩
    · exact Or.inl ⟨by simp [recover, crash, FS.set, h1], h2⟩
    · exact Or.inr ⟨s, by simp [recover, crash, FS.set, h1], h2⟩
  · rcases hn with ⟨h1, h2⟩ | ⟨s, b, h1, h2⟩
    · exact Or.inl ⟨by simp [recover, crash, FS.set, h1], h2⟩
    · cases b with
      | true => exact Or.inr ⟨s, true, by simp [recover, crash, FS.set, h1], h2⟩
      | false => exact Or.inr ⟨s, false, by simp [recover, crash, FS.set, h1], h2⟩

end
end StateFS
