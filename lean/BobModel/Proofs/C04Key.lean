import BobModel.Model.Memo
/-
Helper lemmas for C04, part 2: unique decodability of the cache key input, the YAML cache invariant.
-/
namespace Memo

/-! ### little endian length fields -/

theorem le_length (k n : Nat) : (Bytes.le k n).length = k := by
  induction k generalizing n with
  | zero => rfl
  | succ k ih => simp [Bytes.le, ih]

theorem le_inj (k : Nat) : ∀ a b : Nat, Bytes.le k a = Bytes.le k b → a % 256 ^ k = b % 256 ^ k := by
  induction k with
  | zero => intro a b _; simp [Nat.mod_one]
  | succ k ih =>
    intro a b h
    simp only [Bytes.le, List.cons.injEq] at h
    obtain ⟨h0, hr⟩ := h
    have h0' : a % 256 = b % 256 := by
      have := congrArg UInt8.toNat h0
      simpa [UInt8.toNat_ofNat'] using this
    have hr' := ih _ _ hr
    rw [Nat.pow_succ, Nat.mul_comm, Nat.mod_mul, Nat.mod_mul, h0', hr']

theorem le32_length (n : Nat) : (le32 n).length = Consts.C04.lenBytes := le_length _ _

theorem le32_inj (a b : Nat) (ha : a < 2 ^ 32) (hb : b < 2 ^ 32) (h : le32 a = le32 b) : a = b := by
  have := le_inj Consts.C04.lenBytes a b h
  have e : (256 : Nat) ^ Consts.C04.lenBytes = 2 ^ 32 := by decide
  rw [e, Nat.mod_eq_of_lt ha, Nat.mod_eq_of_lt hb] at this
  exact this

/-! ### prefix decodable text encodings -/

/-- `enc` is a text encoding in which a string of known length (in characters) can be read off the front of a byte
stream: what UTF-8 provides. -/
def PrefixDec (enc : Str → Bytes) : Prop :=
  ∀ (a b : Str) (r r' : Bytes), a.length = b.length → enc a ++ r = enc b ++ r' → a = b ∧ r = r'

theorem utf8_char_prefix (c d : Char) (r r' : Bytes)
    (h : String.utf8EncodeChar c ++ r = String.utf8EncodeChar d ++ r') : c = d ∧ r = r' := by
  have hc : ((String.utf8EncodeChar c).toByteArray ++ List.toByteArray r).utf8DecodeChar? 0 = some c :=
    ByteArray.utf8DecodeChar?_utf8EncodeChar_append
  have hd : ((String.utf8EncodeChar d).toByteArray ++ List.toByteArray r').utf8DecodeChar? 0 = some d :=
    ByteArray.utf8DecodeChar?_utf8EncodeChar_append
  have e : (String.utf8EncodeChar c).toByteArray ++ List.toByteArray r
      = (String.utf8EncodeChar d).toByteArray ++ List.toByteArray r' := by
    rw [← List.toByteArray_append, ← List.toByteArray_append, h]
  rw [e, hd] at hc
  have hcd : c = d := (Option.some.inj hc).symm
  subst hcd
  exact ⟨rfl, List.append_cancel_left h⟩

theorem utf8_prefixDec : PrefixDec utf8 := by
  intro a
  induction a with
  | nil =>
    intro b r r' hl h
    cases b with
    | nil => exact ⟨rfl, by simpa [utf8] using h⟩
    | cons _ _ => simp at hl
  | cons c a ih =>
    intro b r r' hl h
    cases b with
    | nil => simp at hl
    | cons d b =>
      simp only [utf8, List.flatMap_cons, List.append_assoc] at h
      obtain ⟨rfl, h'⟩ := utf8_char_prefix c d _ _ h
      obtain ⟨rfl, hr⟩ := ih b r r' (by simpa using hl) h'
      exact ⟨rfl, hr⟩

/-! ### entries of the two blobs -/

theorem append_split {α : Type} {a b r r' : List α} (hl : a.length = b.length) (h : a ++ r = b ++ r') :
    a = b ∧ r = r' := List.append_inj h hl

/-- one `(len name, name, digest)` record can be read off the front -/
theorem file_entry_prefix (enc : Str → Bytes) (henc : PrefixDec enc) (dl : Nat) (p q : Str × Bytes) (r r' : Bytes)
    (hp : p.1.length < 2 ^ 32 ∧ p.2.length = dl) (hq : q.1.length < 2 ^ 32 ∧ q.2.length = dl)
    (h : le32 p.1.length ++ enc p.1 ++ p.2 ++ r = le32 q.1.length ++ enc q.1 ++ q.2 ++ r') : p = q ∧ r = r' := by
  simp only [List.append_assoc] at h
  obtain ⟨h1, h2⟩ := append_split (by rw [le32_length, le32_length]) h
  have hlen := le32_inj _ _ hp.1 hq.1 h1
  obtain ⟨h3, h4⟩ := henc _ _ _ _ hlen h2
  obtain ⟨h5, h6⟩ := append_split (by rw [hp.2, hq.2]) h4
  exact ⟨Prod.ext h3 h5, h6⟩

theorem filesBlob_cons (enc : Str → Bytes) (p : Str × Bytes) (l : List (Str × Bytes)) :
    filesBlob enc (p :: l) = le32 p.1.length ++ enc p.1 ++ p.2 ++ filesBlob enc l := by
  simp [filesBlob]

/-- the files blob has no count field: it is still uniquely decodable because every record is non-empty -/
theorem filesBlob_inj (enc : Str → Bytes) (henc : PrefixDec enc) (dl : Nat) :
    ∀ (f1 f2 : List (Str × Bytes)), (∀ p ∈ f1, p.1.length < 2 ^ 32 ∧ p.2.length = dl) →
      (∀ p ∈ f2, p.1.length < 2 ^ 32 ∧ p.2.length = dl) → filesBlob enc f1 = filesBlob enc f2 → f1 = f2 := by
  intro f1
  induction f1 with
  | nil =>
    intro f2 _ _ h
    cases f2 with
    | nil => rfl
    | cons q l =>
      rw [filesBlob_cons] at h
      have := congrArg List.length h
      simp [filesBlob, le32_length, Consts.C04.lenBytes] at this <;> omega
  | cons p l ih =>
    intro f2 h1 h2 h
    cases f2 with
    | nil =>
      rw [filesBlob_cons] at h
      have := congrArg List.length h
      simp [filesBlob, le32_length, Consts.C04.lenBytes] at this <;> omega
    | cons q l' =>
      rw [filesBlob_cons, filesBlob_cons] at h
      obtain ⟨rfl, hr⟩ := file_entry_prefix enc henc dl p q _ _ (h1 p (by simp)) (h2 q (by simp)) h
      rw [ih l' (fun x hx => h1 x (by simp [hx])) (fun x hx => h2 x (by simp [hx])) hr]

theorem env_entry_prefix (enc : Str → Bytes) (henc : PrefixDec enc) (p q : Str × Str) (r r' : Bytes)
    (hp : p.1.length < 2 ^ 32 ∧ p.2.length < 2 ^ 32) (hq : q.1.length < 2 ^ 32 ∧ q.2.length < 2 ^ 32)
    (h : le32 p.1.length ++ le32 p.2.length ++ enc (p.1 ++ p.2) ++ r
       = le32 q.1.length ++ le32 q.2.length ++ enc (q.1 ++ q.2) ++ r') : p = q ∧ r = r' := by
  simp only [List.append_assoc] at h
  obtain ⟨h1, h2⟩ := append_split (by rw [le32_length, le32_length]) h
  obtain ⟨h3, h4⟩ := append_split (by rw [le32_length, le32_length]) h2
  have hk := le32_inj _ _ hp.1 hq.1 h1
  have hv := le32_inj _ _ hp.2 hq.2 h3
  obtain ⟨h5, h6⟩ := henc _ _ _ _ (by simp [hk, hv]) h4
  obtain ⟨h7, h8⟩ := append_split hk h5
  exact ⟨Prod.ext h7 h8, h6⟩

theorem envEntries_cons (enc : Str → Bytes) (p : Str × Str) (l : List (Str × Str)) :
    envEntries enc (p :: l) = le32 p.1.length ++ le32 p.2.length ++ enc (p.1 ++ p.2) ++ envEntries enc l := by
  simp [envEntries]

theorem envEntries_inj (enc : Str → Bytes) (henc : PrefixDec enc) :
    ∀ (e1 e2 : List (Str × Str)) (r r' : Bytes), e1.length = e2.length →
      (∀ p ∈ e1, p.1.length < 2 ^ 32 ∧ p.2.length < 2 ^ 32) → (∀ p ∈ e2, p.1.length < 2 ^ 32 ∧ p.2.length < 2 ^ 32) →
      envEntries enc e1 ++ r = envEntries enc e2 ++ r' → e1 = e2 ∧ r = r' := by
  intro e1
  induction e1 with
  | nil =>
    intro e2 r r' hl _ _ h
    cases e2 with
    | nil => exact ⟨rfl, by simpa [envEntries] using h⟩
    | cons _ _ => simp at hl
  | cons p l ih =>
    intro e2 r r' hl h1 h2 h
    cases e2 with
    | nil => simp at hl
    | cons q l' =>
      rw [envEntries_cons, envEntries_cons] at h
      simp only [List.append_assoc] at h
      obtain ⟨rfl, hr⟩ := env_entry_prefix enc henc p q _ _ (h1 p (by simp)) (h2 q (by simp))
        (by simpa only [List.append_assoc] using h)
      obtain ⟨rfl, hr'⟩ := ih l' r r' (by simpa using hl) (fun x hx => h1 x (by simp [hx]))
        (fun x hx => h2 x (by simp [hx])) hr
      exact ⟨rfl, hr'⟩

/-! ### sorting keeps the items -/

theorem mem_insertSorted {A : Type} (p q : Str × A) (l : List (Str × A)) :
    q ∈ insertSorted p l ↔ q = p ∨ q ∈ l := by
  induction l with
  | nil => simp [insertSorted]
  | cons x rest ih =>
    unfold insertSorted
    split
    · simp only [List.mem_cons, ih]
      constructor
      · rintro (h | h | h)
        · exact Or.inr (Or.inl h)
        · exact Or.inl h
        · exact Or.inr (Or.inr h)
      · rintro (h | h | h)
        · exact Or.inr (Or.inl h)
        · exact Or.inl h
        · exact Or.inr (Or.inr h)
    · simp

theorem mem_sortItems {A : Type} (q : Str × A) (l : List (Str × A)) : q ∈ sortItems l ↔ q ∈ l := by
  unfold sortItems
  induction l with
  | nil => simp
  | cons x rest ih => simp [mem_insertSorted, ih]

theorem length_insertSorted {A : Type} (p : Str × A) (l : List (Str × A)) :
    (insertSorted p l).length = l.length + 1 := by
  induction l with
  | nil => simp [insertSorted]
  | cons x rest ih =>
    unfold insertSorted
    split <;> simp [ih]

theorem length_sortItems {A : Type} (l : List (Str × A)) : (sortItems l).length = l.length := by
  unfold sortItems
  induction l with
  | nil => simp
  | cons x rest ih => simp [length_insertSorted, ih]

/-! ### YAML cache invariant -/

section Yaml
variable {D E : Type}

/-- every row was produced by a real load of an observed file state -/
def RowsOK (H : Bytes → Bytes) (parse : Bytes → Bytes → Except E D) (Obs : Str → Bytes → Bytes → Prop)
    (rows : List (Str × Bytes × Bytes × D)) : Prop :=
  ∀ row ∈ rows, ∃ st sd content, Obs row.1 st content ∧ st.length = Consts.C04.statLen ∧
    row.2.1 = st ++ sd ∧ row.2.2.1 = H content ∧ parse sd content = .ok row.2.2.2

theorem findRow_mem (rows : List (Str × Bytes × Bytes × D)) (name : Str) (bs dg : Bytes) (d : D)
    (h : findRow rows name bs = some (dg, d)) : (name, bs, dg, d) ∈ rows := by
  induction rows with
  | nil => simp [findRow] at h
  | cons row rest ih =>
    obtain ⟨n, s, g, x⟩ := row
    unfold findRow at h
    split at h
    · next hc =>
      obtain ⟨rfl, rfl⟩ := hc
      simp only [Option.some.injEq, Prod.mk.injEq] at h
      obtain ⟨rfl, rfl⟩ := h
      simp
    · exact List.mem_cons_of_mem _ (ih h)

theorem RowsOK_replace (H : Bytes → Bytes) (parse : Bytes → Bytes → Except E D) (Obs : Str → Bytes → Bytes → Prop)
    (rows : List (Str × Bytes × Bytes × D)) (hr : RowsOK H parse Obs rows) (row : Str × Bytes × Bytes × D)
    (hrow : ∃ st sd content, Obs row.1 st content ∧ st.length = Consts.C04.statLen ∧
      row.2.1 = st ++ sd ∧ row.2.2.1 = H content ∧ parse sd content = .ok row.2.2.2) :
    RowsOK H parse Obs (replaceRow rows row) := by
  intro r hm
  simp only [replaceRow, List.mem_cons, List.mem_filter] at hm
  rcases hm with rfl | ⟨hm, _⟩
  · exact hrow
  · exact hr r hm

/-- one cached load agrees with the uncached load -/
theorem loadYaml_eq (H : Bytes → Bytes) (parse : Bytes → Bytes → Except E D) (Obs : Str → Bytes → Bytes → Prop)
    (hStat : ∀ n st c1 c2, Obs n st c1 → Obs n st c2 → c1 = c2) (fs : FS)
    (hfs : ∀ n st c, fs n = some (st, c) → Obs n st c ∧ st.length = Consts.C04.statLen)
    (c : YCache D) (hc : RowsOK H parse Obs c.rows) (s sU : YSession) (hs : s.files = sU.files)
    (name : Str) (sd : Bytes) :
    (loadYaml H parse fs c s name sd).2.2 = (loadYamlU H parse fs sU name sd).2 ∧
    (loadYaml H parse fs c s name sd).2.1.files = (loadYamlU H parse fs sU name sd).1.files ∧
    (loadYaml H parse fs c s name sd).2.1.hot = s.hot ∧
    RowsOK H parse Obs (loadYaml H parse fs c s name sd).1.rows := by
  unfold loadYaml loadYamlU
  cases hf : fs name with
  | none => exact ⟨rfl, hs, rfl, hc⟩
  | some p =>
    obtain ⟨st, content⟩ := p
    obtain ⟨hobs, hlen⟩ := hfs _ _ _ hf
    simp only
    cases hrow : (if s.hot = true then findRow c.rows name (st ++ sd) else none) with
    | some q =>
      obtain ⟨dg, d⟩ := q
      have hfound : findRow c.rows name (st ++ sd) = some (dg, d) := by
        split at hrow
        · exact hrow
        · cases hrow
      have hmem := findRow_mem _ _ _ _ _ hfound
      obtain ⟨st0, sd0, content0, hobs0, hlen0, hbs, hdg, hparse⟩ := hc _ hmem
      simp only at hobs0 hbs hdg hparse
      obtain ⟨hst, hsd⟩ := append_split (by rw [hlen, hlen0]) hbs
      subst hst hsd
      have hcont := hStat _ _ _ _ hobs0 hobs
      subst hcont
      simp only [hparse, hdg, hs]
      exact ⟨trivial, trivial, trivial, hc⟩
    | none =>
      simp only
      cases hp : parse sd content with
      | error err => exact ⟨rfl, hs, rfl, hc⟩
      | ok d =>
        simp only [hs]
        refine ⟨trivial, trivial, trivial, ?_⟩
        exact RowsOK_replace H parse Obs _ hc _ ⟨st, sd, content, hobs, hlen, rfl, rfl, hp⟩

theorem runLoads_eq (H : Bytes → Bytes) (parse : Bytes → Bytes → Except E D) (Obs : Str → Bytes → Bytes → Prop)
    (hStat : ∀ n st c1 c2, Obs n st c1 → Obs n st c2 → c1 = c2) (fs : FS)
    (hfs : ∀ n st c, fs n = some (st, c) → Obs n st c ∧ st.length = Consts.C04.statLen) :
    ∀ (loads : List (Str × Bytes)) (c : YCache D) (_ : RowsOK H parse Obs c.rows) (s sU : YSession)
      (_ : s.files = sU.files),
      (runLoads H parse fs c s loads).2.2 = (runLoadsU H parse fs sU loads).2 ∧
      (runLoads H parse fs c s loads).2.1.files = (runLoadsU H parse fs sU loads).1.files ∧
      RowsOK H parse Obs (runLoads H parse fs c s loads).1.rows := by
  intro loads
  induction loads with
  | nil => intro c hc s sU hs; exact ⟨rfl, hs, hc⟩
  | cons l rest ih =>
    intro c hc s sU hs
    obtain ⟨name, sd⟩ := l
    obtain ⟨h1, h2, _, h4⟩ := loadYaml_eq H parse Obs hStat fs hfs c hc s sU hs name sd
    obtain ⟨i1, i2, i3⟩ := ih _ h4 _ _ h2
    simp only [runLoads, runLoadsU]
    exact ⟨by rw [h1, i1], i2, i3⟩

end Yaml

end Memo
