import BobModel.Proofs.C11Enc
/-
C11 helper lemmas, part 2: well-formed trees, the entry triples of one directory, and
injectivity of the directory hash on canonical trees.
-/
namespace DirHash

mutual
/-- what the kernel guarantees about a tree: 12 permission bits, 4 format bits that are consistent
with the node kind, device numbers that fit `<L`, names without NUL -/
def Tree.WF : Tree → Prop
  | .file p _ => p < 4096
  | .link p _ => p < 4096
  | .dir p es => p < 4096 ∧ es.WF
  | .dev _ p r => p < 4096 ∧ r < 4294967296
  | .fifo p => p < 4096
  | .other f p => p < 4096 ∧ f < 16 ∧ f ≠ 0 ∧ f ≠ 8 ∧ f ≠ 4 ∧ f ≠ 10 ∧ f ≠ 6 ∧ f ≠ 2 ∧ f ≠ 1
def Forest.WF : Forest → Prop
  | .nil => True
  | .cons n t rest => NulFree n ∧ t.WF ∧ rest.WF
end

/-- the `(st_mode, digest, sort name)` triples that `__hashDir` concatenates -/
def Forest.entries (H : Bytes → Bytes) : Forest → List (Nat × Bytes × Bytes)
  | .nil => []
  | .cons n t rest => (t.mode, t.digest H, sortName n t) :: rest.entries H

theorem blob_eq_flatMap (H : Bytes → Bytes) : ∀ f : Forest, f.blob H = (f.entries H).flatMap encEntry
  | .nil => by simp [Forest.blob, Forest.entries]
  | .cons n t rest => by
    simp [Forest.blob, Forest.entries, encEntry, blob_eq_flatMap H rest]

theorem Tree.mode_bounds (t : Tree) (w : t.WF) : 4096 ≤ t.mode ∧ t.mode < 65536 := by
  cases t with
  | dev c p r => cases c <;> simp [Tree.mode, Tree.WF] at * <;> omega
  | _ => simp [Tree.mode, Tree.WF] at * <;> omega

theorem Tree.digest_length (H : Bytes → Bytes) (hlen : ∀ b, (H b).length = 20) (t : Tree) (w : t.WF) :
    (t.digest H).length = digestLen t.mode := by
  unfold digestLen
  cases t with
  | file p c =>
    simp only [Tree.WF] at w
    have : (0o100000 + p) / 4096 % 16 = 8 := by omega
    simp [Tree.mode, Tree.digest, hlen, this]
  | link p c =>
    simp only [Tree.WF] at w
    have : (0o120000 + p) / 4096 % 16 = 10 := by omega
    simp [Tree.mode, Tree.digest, hlen, this]
  | dir p es =>
    simp only [Tree.WF] at w
    have : (0o040000 + p) / 4096 % 16 = 4 := by omega
    simp [Tree.mode, Tree.digest, hlen, this]
  | dev c p r =>
    simp only [Tree.WF] at w
    cases c
    · have : (0o060000 + p) / 4096 % 16 = 6 := by omega
      simp [Tree.mode, Tree.digest, packRdev_eq r w.2, le_length, this]
    · have : (0o020000 + p) / 4096 % 16 = 2 := by omega
      simp [Tree.mode, Tree.digest, packRdev_eq r w.2, le_length, this]
  | fifo p =>
    simp only [Tree.WF] at w
    have : (0o010000 + p) / 4096 % 16 = 1 := by omega
    simp only [Tree.mode, Tree.digest, this, List.length_nil]
    simp
  | other f p =>
    simp only [Tree.WF] at w
    have : (f * 4096 + p) / 4096 % 16 = f := by omega
    simp only [Tree.mode, Tree.digest, this, List.length_nil]
    rw [if_neg (by omega), if_neg (by omega)]

theorem sortName_nulFree (n : Bytes) (t : Tree) (h : NulFree n) : NulFree (sortName n t) := by
  unfold sortName
  split
  · intro c hc
    simp only [Consts.C11.pathSep, List.mem_append, List.mem_singleton] at hc
    rcases hc with hc | rfl
    · exact h c hc
    · decide
  · exact h

theorem sortName_inj (n1 n2 : Bytes) (t : Tree) (h : sortName n1 t = sortName n2 t) : n1 = n2 := by
  unfold sortName at h
  split at h
  · exact List.append_cancel_right h
  · exact h

theorem entries_good (H : Bytes → Bytes) (hlen : ∀ b, (H b).length = 20) :
    ∀ f : Forest, f.WF → ∀ e ∈ f.entries H, GoodEntry e
  | .nil, _, e, he => by simp [Forest.entries] at he
  | .cons n t rest, w, e, he => by
    simp only [Forest.WF] at w
    simp only [Forest.entries, List.mem_cons] at he
    rcases he with rfl | he
    · have := t.mode_bounds w.2.1
      exact ⟨by simp; omega, by simp; omega, t.digest_length H hlen w.2.1, sortName_nulFree n t w.1⟩
    · exact entries_good H hlen rest w.2.2 e he

/-- no two different strings of `S` have the same hash -/
def CollisionFree (H : Bytes → Bytes) (S : Bytes → Prop) : Prop :=
  ∀ a b, S a → S b → H a = H b → a = b

/-! inversion: under `WF` the mode determines the constructor and its permission bits -/

theorem Tree.inv_file (t : Tree) (w : t.WF) (p : Nat) (hp : p < 4096) (h : 0o100000 + p = t.mode) :
    ∃ c, t = .file p c := by
  cases t with
  | file p2 c2 => exact ⟨c2, by simp only [Tree.mode] at h; rw [show p = p2 by omega]⟩
  | dev c _ _ => exfalso; cases c <;> simp [Tree.mode, Tree.WF] at h w <;> omega
  | _ => exfalso; simp [Tree.mode, Tree.WF] at h w <;> omega

theorem Tree.inv_link (t : Tree) (w : t.WF) (p : Nat) (hp : p < 4096) (h : 0o120000 + p = t.mode) :
    ∃ c, t = .link p c := by
  cases t with
  | link p2 c2 => exact ⟨c2, by simp only [Tree.mode] at h; rw [show p = p2 by omega]⟩
  | dev c _ _ => exfalso; cases c <;> simp [Tree.mode, Tree.WF] at h w <;> omega
  | _ => exfalso; simp [Tree.mode, Tree.WF] at h w <;> omega

theorem Tree.inv_dir (t : Tree) (w : t.WF) (p : Nat) (hp : p < 4096) (h : 0o040000 + p = t.mode) :
    ∃ es, t = .dir p es := by
  cases t with
  | dir p2 c2 => exact ⟨c2, by simp only [Tree.mode] at h; rw [show p = p2 by omega]⟩
  | dev c _ _ => exfalso; cases c <;> simp [Tree.mode, Tree.WF] at h w <;> omega
  | _ => exfalso; simp [Tree.mode, Tree.WF] at h w <;> omega

theorem Tree.inv_dev (t : Tree) (w : t.WF) (c : Bool) (p : Nat) (hp : p < 4096)
    (h : (if c then 0o020000 else 0o060000) + p = t.mode) : ∃ r, t = .dev c p r := by
  cases t with
  | dev c2 p2 r2 =>
    refine ⟨r2, ?_⟩
    simp only [Tree.WF] at w
    cases c <;> cases c2 <;> simp [Tree.mode] at h ⊢ <;> omega
  | _ => exfalso; cases c <;> simp [Tree.mode, Tree.WF] at h w <;> omega

theorem Tree.inv_fifo (t : Tree) (w : t.WF) (p : Nat) (hp : p < 4096) (h : 0o010000 + p = t.mode) :
    t = .fifo p := by
  cases t with
  | fifo p2 => simp only [Tree.mode] at h; rw [show p = p2 by omega]
  | dev c _ _ => exfalso; cases c <;> simp [Tree.mode, Tree.WF] at h w <;> omega
  | _ => exfalso; simp [Tree.mode, Tree.WF] at h w <;> omega

theorem Tree.inv_other (t : Tree) (w : t.WF) (f p : Nat) (hw : (Tree.other f p).WF) (h : f * 4096 + p = t.mode) :
    t = .other f p := by
  simp only [Tree.WF] at hw
  cases t with
  | other f2 p2 =>
    simp only [Tree.mode, Tree.WF] at h w
    rw [show f = f2 by omega, show p = p2 by omega]
  | dev c _ _ => exfalso; cases c <;> simp [Tree.mode, Tree.WF] at h w <;> omega
  | _ => exfalso; simp [Tree.mode, Tree.WF] at h w <;> omega

set_option linter.unusedSectionVars false
section inj
variable (H : Bytes → Bytes) (hlen : ∀ b, (H b).length = 20) (S : Bytes → Prop) (hcf : CollisionFree H S)
include hlen hcf

mutual
theorem Tree.eq_of_digest : ∀ t1 t2 : Tree, t1.WF → t2.WF → (∀ x ∈ t1.inputs H, S x) → (∀ x ∈ t2.inputs H, S x) →
    t1.mode = t2.mode → t1.digest H = t2.digest H → t1 = t2
  | .file p1 c1, t2, w1, w2, s1, s2, hm, hd => by
    obtain ⟨c2, rfl⟩ := t2.inv_file w2 p1 w1 hm
    simp only [Tree.digest, Tree.inputs, List.mem_singleton, forall_eq] at hd s1 s2
    rw [hcf _ _ s1 s2 hd]
  | .link p1 c1, t2, w1, w2, s1, s2, hm, hd => by
    obtain ⟨c2, rfl⟩ := t2.inv_link w2 p1 w1 hm
    simp only [Tree.digest, Tree.inputs, List.mem_singleton, forall_eq] at hd s1 s2
    rw [hcf _ _ s1 s2 hd]
  | .dir p1 es1, t2, w1, w2, s1, s2, hm, hd => by
    simp only [Tree.WF] at w1
    obtain ⟨es2, rfl⟩ := t2.inv_dir w2 p1 w1.1 hm
    simp only [Tree.WF] at w2
    simp only [Tree.digest, Tree.inputs, List.mem_cons, forall_eq_or_imp] at hd s1 s2
    have hb := hcf _ _ s1.1 s2.1 hd
    rw [Forest.eq_of_blob es1 es2 w1.2 w2.2 s1.2 s2.2 hb]
  | .dev c1 p1 r1, t2, w1, w2, s1, s2, hm, hd => by
    simp only [Tree.WF] at w1
    obtain ⟨r2, rfl⟩ := t2.inv_dev w2 c1 p1 w1.1 hm
    simp only [Tree.WF] at w2
    simp only [Tree.digest] at hd
    rw [packRdev_inj _ _ w1.2 w2.2 hd]
  | .fifo p1, t2, w1, w2, s1, s2, hm, hd => by
    rw [t2.inv_fifo w2 p1 w1 hm]
  | .other f1 p1, t2, w1, w2, s1, s2, hm, hd => by
    rw [t2.inv_other w2 f1 p1 w1 hm]
theorem Forest.eq_of_blob : ∀ f1 f2 : Forest, f1.WF → f2.WF → (∀ x ∈ f1.inputs H, S x) → (∀ x ∈ f2.inputs H, S x) →
    f1.blob H = f2.blob H → f1 = f2
  | .nil, f2, w1, w2, s1, s2, hb => by
    rw [blob_eq_flatMap, blob_eq_flatMap] at hb
    have := entries_decodable _ _ (entries_good H hlen _ w1) (entries_good H hlen _ w2) hb
    cases f2 with
    | nil => rfl
    | cons n t r => simp [Forest.entries] at this
  | .cons n1 t1 r1, f2, w1, w2, s1, s2, hb => by
    rw [blob_eq_flatMap, blob_eq_flatMap] at hb
    have he := entries_decodable _ _ (entries_good H hlen _ w1) (entries_good H hlen _ w2) hb
    cases f2 with
    | nil => simp [Forest.entries] at he
    | cons n2 t2 r2 =>
      simp only [Forest.entries, List.cons.injEq, Prod.mk.injEq] at he
      simp only [Forest.WF] at w1 w2
      simp only [Forest.inputs, List.mem_append] at s1 s2
      obtain ⟨⟨hm, hd, hs⟩, hr⟩ := he
      have ht := Tree.eq_of_digest t1 t2 w1.2.1 w2.2.1 (fun x hx => s1 x (Or.inl hx)) (fun x hx => s2 x (Or.inl hx)) hm hd
      subst ht
      have hn := sortName_inj _ _ _ hs
      have hrb : r1.blob H = r2.blob H := by rw [blob_eq_flatMap, blob_eq_flatMap, hr]
      rw [Forest.eq_of_blob r1 r2 w1.2.2 w2.2.2 (fun x hx => s1 x (Or.inr hx)) (fun x hx => s2 x (Or.inr hx)) hrb, hn]
end

end inj

/-! ### canonicalisation keeps well-formedness -/

theorem Forest.insert_WF (n : Bytes) (t : Tree) (hn : NulFree n) (ht : t.WF) :
    ∀ f : Forest, f.WF → (Forest.insert n t f).WF
  | .nil, _ => by simp [Forest.insert, Forest.WF, hn, ht]
  | .cons m u rest, w => by
    simp only [Forest.WF] at w
    unfold Forest.insert
    split
    · simp only [Forest.WF]; exact ⟨w.1, w.2.1, Forest.insert_WF n t hn ht rest w.2.2⟩
    · simp only [Forest.WF]; exact ⟨hn, ht, w.1, w.2.1, w.2.2⟩

mutual
theorem Tree.canon_WF : ∀ t : Tree, t.WF → t.canon.WF
  | .file _ _, w => by simpa [Tree.canon, Tree.WF] using w
  | .link _ _, w => by simpa [Tree.canon, Tree.WF] using w
  | .dir p es, w => by
    simp only [Tree.WF] at w
    simp only [Tree.canon, Tree.WF]
    exact ⟨w.1, Forest.canon_WF es w.2⟩
  | .dev _ _ _, w => by simpa [Tree.canon, Tree.WF] using w
  | .fifo _, w => by simpa [Tree.canon, Tree.WF] using w
  | .other _ _, w => by simpa [Tree.canon, Tree.WF] using w
theorem Forest.canon_WF : ∀ f : Forest, f.WF → f.canon.WF
  | .nil, _ => by simp [Forest.canon, Forest.WF]
  | .cons n t rest, w => by
    simp only [Forest.WF] at w
    unfold Forest.canon
    split
    · exact Forest.canon_WF rest w.2.2
    · exact Forest.insert_WF n t.canon w.1 (Tree.canon_WF t w.2.1) _ (Forest.canon_WF rest w.2.2)
end

end DirHash
