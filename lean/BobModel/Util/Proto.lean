import Lean.Data.Json
import BobModel.Util.Bytes
/-
Line protocol used by every driver: one JSON value per input line, one JSON value per
output line.  Drivers are `partial` IO loops around total model functions.
-/
open Lean

namespace Proto

partial def loop (h : IO.FS.Stream) (out : IO.FS.Stream) (σ : Type) (s : σ)
    (step : σ → Json → σ × Json) : IO Unit := do
  let line ← h.getLine
  if line.isEmpty then
    out.flush
    return ()
  let t := line.trimAscii.toString
  if t.isEmpty then
    loop h out σ s step
  else
    match Json.parse t with
    | .error e =>
      out.putStrLn (Json.compress (Json.mkObj [("proto_error", Json.str e)]))
      loop h out σ s step
    | .ok j =>
      let (s', r) := step s j
      out.putStrLn (Json.compress r)
      loop h out σ s' step

def run (σ : Type) (init : σ) (step : σ → Json → σ × Json) : IO Unit := do
  loop (← IO.getStdin) (← IO.getStdout) σ init step

def runPure (f : Json → Json) : IO Unit :=
  run Unit () (fun _ j => ((), f j))

def getStr (j : Json) (k : String) : String :=
  match j.getObjVal? k with
  | .ok (.str s) => s
  | _ => ""

def getNat (j : Json) (k : String) : Nat :=
  match j.getObjVal? k with
  | .ok v => (v.getNat?.toOption).getD 0
  | _ => 0

def getBool (j : Json) (k : String) : Bool :=
  match j.getObjVal? k with
  | .ok (.bool b) => b
  | _ => false

def getArr (j : Json) (k : String) : List Json :=
  match j.getObjVal? k with
  | .ok (.arr a) => a.toList
  | _ => []

def getObj? (j : Json) (k : String) : Option Json :=
  match j.getObjVal? k with
  | .ok .null => none
  | .ok v => some v
  | _ => none

def strList (j : Json) : List String :=
  match j with
  | .arr a => a.toList.filterMap fun x => match x with | .str s => some s | _ => none
  | _ => []

def hexBytes (j : Json) (k : String) : Bytes :=
  (Bytes.ofHex (getStr j k)).getD []

def err (msg : String) : Json := Json.mkObj [("error", Json.str msg)]

end Proto
