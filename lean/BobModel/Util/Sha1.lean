import BobModel.Util.Bytes
/-
Executable SHA-1 and Adler-32, used by the drivers for bit-exact comparison with
the implementation (self-tested against hashlib/zlib at the start of every check).
No theorem depends on these definitions: theorems take the hash as a parameter `H`.
-/
namespace Sha1

@[inline] def rotl (x : UInt32) (n : UInt32) : UInt32 := (x <<< n) ||| (x >>> (32 - n))

def pad (msg : ByteArray) : ByteArray := Id.run do
  let ml : UInt64 := msg.size.toUInt64 * 8
  let mut m := msg.push 0x80
  while m.size % 64 != 56 do
    m := m.push 0
  for i in [0:8] do
    m := m.push ((ml >>> (8 * (7 - i)).toUInt64).toUInt8)
  return m

def processBlock (h : Array UInt32) (m : ByteArray) (off : Nat) : Array UInt32 := Id.run do
  let mut w : Array UInt32 := Array.replicate 80 0
  for t in [0:16] do
    let b0 := (m.get! (off + 4*t)).toUInt32
    let b1 := (m.get! (off + 4*t + 1)).toUInt32
    let b2 := (m.get! (off + 4*t + 2)).toUInt32
    let b3 := (m.get! (off + 4*t + 3)).toUInt32
    w := w.set! t ((b0 <<< 24) ||| (b1 <<< 16) ||| (b2 <<< 8) ||| b3)
  for t in [16:80] do
    w := w.set! t (rotl (w[t-3]! ^^^ w[t-8]! ^^^ w[t-14]! ^^^ w[t-16]!) 1)
  let mut a := h[0]!
  let mut b := h[1]!
  let mut c := h[2]!
  let mut d := h[3]!
  let mut e := h[4]!
  for t in [0:80] do
    let (f, k) :=
      if t < 20 then ((b &&& c) ||| ((~~~ b) &&& d), (0x5A827999 : UInt32))
      else if t < 40 then (b ^^^ c ^^^ d, (0x6ED9EBA1 : UInt32))
      else if t < 60 then ((b &&& c) ||| (b &&& d) ||| (c &&& d), (0x8F1BBCDC : UInt32))
      else (b ^^^ c ^^^ d, (0xCA62C1D6 : UInt32))
    let tmp := rotl a 5 + f + e + k + w[t]!
    e := d
    d := c
    c := rotl b 30
    b := a
    a := tmp
  return #[h[0]! + a, h[1]! + b, h[2]! + c, h[3]! + d, h[4]! + e]

def hash (msg : ByteArray) : ByteArray := Id.run do
  let m := pad msg
  let mut h : Array UInt32 := #[0x67452301, 0xEFCDAB89, 0x98BADCFE, 0x10325476, 0xC3D2E1F0]
  for i in [0:m.size / 64] do
    h := processBlock h m (i * 64)
  let mut out := ByteArray.empty
  for x in h do
    out := out.push (x >>> 24).toUInt8
    out := out.push (x >>> 16).toUInt8
    out := out.push (x >>> 8).toUInt8
    out := out.push x.toUInt8
  return out

def hashBytes (b : Bytes) : Bytes := (hash (Bytes.toByteArray b)).toList

end Sha1

namespace Adler32
/-- Adler-32 as a pure structural recursion (this one *is* used in theorems, C10). -/
def go : Bytes → Nat → Nat → Nat × Nat
  | [], a, b => (a, b)
  | x :: xs, a, b =>
    let a' := (a + x.toNat) % 65521
    go xs a' ((b + a') % 65521)

def adler32 (data : Bytes) : Nat :=
  let (a, b) := go data 1 0
  b * 65536 + a

/-- big-endian 4 byte trailer, as `struct.pack(">L")`-free `to_bytes(4, 'big')`. -/
def be4 (n : Nat) : Bytes :=
  [UInt8.ofNat (n / 16777216 % 256), UInt8.ofNat (n / 65536 % 256), UInt8.ofNat (n / 256 % 256), UInt8.ofNat (n % 256)]
end Adler32
