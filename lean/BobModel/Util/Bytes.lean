/-
Byte-string helpers shared by all models.  Models use `List UInt8` (alias `Bytes`)
so that theorems can reason by structural induction; the drivers convert to
`ByteArray` only for hashing.
-/
abbrev Bytes := List UInt8

namespace Bytes

def hexDigit (n : Nat) : Char :=
  if n < 10 then Char.ofNat (48 + n) else Char.ofNat (87 + n)

def toHex (b : Bytes) : String :=
  String.ofList (b.flatMap fun x => [hexDigit (x.toNat / 16), hexDigit (x.toNat % 16)])

def hexVal (c : Char) : Option Nat :=
  if '0' ≤ c ∧ c ≤ '9' then some (c.toNat - 48)
  else if 'a' ≤ c ∧ c ≤ 'f' then some (c.toNat - 87)
  else if 'A' ≤ c ∧ c ≤ 'F' then some (c.toNat - 55)
  else none

def ofHexAux : List Char → Option Bytes
  | [] => some []
  | [_] => none
  | a :: b :: rest => do
    let x ← hexVal a
    let y ← hexVal b
    let r ← ofHexAux rest
    pure (UInt8.ofNat (x * 16 + y) :: r)

def ofHex (s : String) : Option Bytes := ofHexAux s.toList

/-- little-endian encoding of `n` in exactly `k` bytes (truncating, like `struct.pack` would reject;
callers guard the range). -/
def le (k : Nat) (n : Nat) : Bytes :=
  match k with
  | 0 => []
  | k + 1 => UInt8.ofNat (n % 256) :: le k (n / 256)

def ofString (s : String) : Bytes := s.toUTF8.toList

def toByteArray (b : Bytes) : ByteArray := ⟨b.toArray⟩

end Bytes
