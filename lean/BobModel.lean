-- Root of the `BobModel` library: imports every model, proof and property file.
import BobModel.Util.Bytes
import BobModel.Util.Sha1
import BobModel.Util.Proto
import BobModel.Props.C02
import BobModel.Props.C03
import BobModel.Props.C10
import BobModel.Props.C11
import BobModel.Props.C14
import BobModel.Props.C17
import BobModel.Props.C20
import BobModel.Props.C08
import BobModel.Props.C16
import BobModel.Props.C19
import BobModel.Props.C06
import BobModel.Props.C07
import BobModel.Props.C04
import BobModel.Props.C18
