import BobModel.Model.StringParser
import BobModel.Util.Proto
open Lean Proto StringParser

/-
requests:
 {"op":"subst","text":s,"env":{k:v},"nounset":b,"sandbox":b,"tools":{t:{k:v}}}
 {"op":"evalstr", ... "text": cond}
 {"op":"evalif", ... "expr": tree}   tree = {"lit":s,"subst":b} | {"call":f,"args":[..]} | {"not":e} | {"str":op,"l":..,"r":..} | {"bool":op,"l":..,"r":..}
 {"op":"isfalse","text":s}
replies: {"ok": value} | {"err": kind}
-/

def kvList (j : Json) : List (Str × Str) :=
  match j with
  | .obj kvs => kvs.toList.filterMap fun (k, v) => match v with
    | .str s => some (k.toList, s.toList)
    | _ => none
  | _ => []

def cfgOf (j : Json) : Cfg :=
  { env := kvList (j.getObjValD "env"),
    nounset := getBool j "nounset",
    sandbox := getBool j "sandbox",
    tools := match j.getObjValD "tools" with
      | .obj kvs => kvs.toList.map fun (k, v) => (k.toList, kvList v)
      | _ => [] }

def errName : PErr → String
  | .unexpectedEnd => "unexpectedEnd" | .endAfterEscape => "endAfterEscape" | .missingSQuote => "missingSQuote"
  | .invalidDollar => "invalidDollar" | .unsetVar => "unsetVar" | .unterminatedVar => "unterminatedVar"
  | .unknownFun => "unknownFun" | .funArity => "funArity" | .funError => "funError"
  | .unsupported => "unsupported" | .outOfFuel => "outOfFuel"

instance : Inhabited IfExpr := ⟨.lit [] false⟩

partial def exprOf (j : Json) : IfExpr :=
  match j.getObjVal? "lit" with
  | .ok (.str s) => .lit s.toList (getBool j "subst")
  | _ => match j.getObjVal? "call" with
    | .ok (.str f) => .call f.toList ((getArr j "args").map exprOf)
    | _ => match j.getObjVal? "not" with
      | .ok e => .not (exprOf e)
      | _ => match j.getObjVal? "str" with
        | .ok (.str op) => .strOp op (exprOf (j.getObjValD "l")) (exprOf (j.getObjValD "r"))
        | _ => .boolOp (getStr j "bool") (exprOf (j.getObjValD "l")) (exprOf (j.getObjValD "r"))

def reply (r : Except PErr Json) : Json :=
  match r with
  | .ok v => Json.mkObj [("ok", v)]
  | .error e => Json.mkObj [("err", Json.str (errName e))]

def main : IO Unit := runPure fun j =>
  let cfg := cfgOf j
  match getStr j "op" with
  | "subst" => reply ((substitute cfg (getStr j "text").toList).map fun s => Json.str (String.ofList s))
  | "evalstr" => reply ((evaluateStr cfg (getStr j "text").toList).map Json.bool)
  | "evalif" => reply (((exprOf (j.getObjValD "expr")).eval cfg).map Json.bool)
  | "isfalse" => Json.mkObj [("ok", Json.bool (isFalse (getStr j "text").toList))]
  | _ => err "bad-op"
