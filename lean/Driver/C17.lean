import BobModel.Model.StringParser
import BobModel.Model.SubstSpec
import BobModel.Util.Proto
open Lean Proto StringParser

/-
requests:
 {"op":"subst","text":s,"env":{k:v},"nounset":b,"sandbox":b,"tools":{t:{k:v}}}
 {"op":"evalstr", ... "text": cond}
 {"op":"evalif", ... "expr": tree}   tree = {"lit":s,"subst":b} | {"call":f,"args":[..]} | {"not":e} | {"str":op,"l":..,"r":..} | {"bool":op,"l":..,"r":..}
 {"op":"isfalse","text":s}
 {"op":"speceval", ... "frags": tree}   the documented language (Model/SubstSpec.lean), tree as in harness/props/c17.py:
      ["lit",c] | ["esc",c] | ["sq",s] | ["dq",[..]] | ["bare",name] | ["var",[..]] |
      ["dflt",[name..],colon,[..]] | ["altv",[name..],colon,[..]] | ["call",[[word..],..]]
replies: {"ok": value} | {"err": kind}; speceval adds "text" (SubstSpec.render) and "wf" (SubstSpec.WF)
-/

def kvList (j : Json) : List (Str × Str) :=
  match j with
  | .obj kvs => kvs.toList.filterMap fun (k, v) => match v with
    | .str s => some (k.toList, s.toList)
    | _ => none
  | _ => []

def cfgOf (j : Json) : Cfg :=
  { env := kvList (j.getObjValD "env"),
    nounset := getBool j "nounset",
    sandbox := getBool j "sandbox",
    tools := match j.getObjValD "tools" with
      | .obj kvs => kvs.toList.map fun (k, v) => (k.toList, kvList v)
      | _ => [] }

def errName : PErr → String
  | .unexpectedEnd => "unexpectedEnd" | .endAfterEscape => "endAfterEscape" | .missingSQuote => "missingSQuote"
  | .invalidDollar => "invalidDollar" | .unsetVar => "unsetVar" | .unterminatedVar => "unterminatedVar"
  | .unknownFun => "unknownFun" | .funArity => "funArity" | .funError => "funError"
  | .unsupported => "unsupported" | .outOfFuel => "outOfFuel"

instance : Inhabited IfExpr := ⟨.lit [] false⟩

partial def exprOf (j : Json) : IfExpr :=
  match j.getObjVal? "lit" with
  | .ok (.str s) => .lit s.toList (getBool j "subst")
  | _ => match j.getObjVal? "call" with
    | .ok (.str f) => .call f.toList ((getArr j "args").map exprOf)
    | _ => match j.getObjVal? "not" with
      | .ok e => .not (exprOf e)
      | _ => match j.getObjVal? "str" with
        | .ok (.str op) => .strOp op (exprOf (j.getObjValD "l")) (exprOf (j.getObjValD "r"))
        | _ => .boolOp (getStr j "bool") (exprOf (j.getObjValD "l")) (exprOf (j.getObjValD "r"))

instance : Inhabited SubstSpec.Frag := ⟨.lit ' '⟩

def firstChar (j : Json) : Char :=
  match j with
  | .str s => s.toList.headD ' '
  | _ => ' '

def strOf (j : Json) : Str :=
  match j with
  | .str s => s.toList
  | _ => []

def arrOf (j : Json) : List Json :=
  match j with
  | .arr a => a.toList
  | _ => []

partial def fragOf (j : Json) : SubstSpec.Frag :=
  match arrOf j with
  | .str "lit" :: c :: _ => .lit (firstChar c)
  | .str "esc" :: c :: _ => .esc (firstChar c)
  | .str "sq" :: s :: _ => .sq (strOf s)
  | .str "dq" :: fs :: _ => .dq ((arrOf fs).map fragOf)
  | .str "bare" :: n :: _ => .bare (strOf n)
  | .str "var" :: n :: _ => .var ((arrOf n).map fragOf)
  | .str "dflt" :: n :: .bool c :: d :: _ => .dflt ((arrOf n).map fragOf) c ((arrOf d).map fragOf)
  | .str "altv" :: n :: .bool c :: a :: _ => .altv ((arrOf n).map fragOf) c ((arrOf a).map fragOf)
  | .str "call" :: ws :: _ =>
    match (arrOf ws).map fun w => (arrOf w).map fragOf with
    | [] => .call [] []
    | f :: args => .call f args
  | _ => .lit ' '

def specReply (cfg : Cfg) (fs : List SubstSpec.Frag) : Json :=
  let extra := [("text", Json.str (String.ofList (SubstSpec.render fs))),
                ("wf", Json.bool (SubstSpec.wfL SubstSpec.ctxTop fs))]
  match SubstSpec.eval cfg fs with
  | .ok v => Json.mkObj (("ok", Json.str (String.ofList v)) :: extra)
  | .error e => Json.mkObj (("err", Json.str (errName e)) :: extra)

def reply (r : Except PErr Json) : Json :=
  match r with
  | .ok v => Json.mkObj [("ok", v)]
  | .error e => Json.mkObj [("err", Json.str (errName e))]

def main : IO Unit := runPure fun j =>
  let cfg := cfgOf j
  match getStr j "op" with
  | "subst" => reply ((substitute cfg (getStr j "text").toList).map fun s => Json.str (String.ofList s))
  | "evalstr" => reply ((evaluateStr cfg (getStr j "text").toList).map Json.bool)
  | "evalif" => reply (((exprOf (j.getObjValD "expr")).eval cfg).map Json.bool)
  | "speceval" => specReply cfg ((getArr j "frags").map fragOf)
  | "isfalse" => Json.mkObj [("ok", Json.bool (isFalse (getStr j "text").toList))]
  | _ => err "bad-op"
