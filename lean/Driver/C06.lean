import BobModel.Model.SchedInv
import BobModel.Util.Proto
open Lean Proto Sched

/-
Line protocol of the C06 model driver (stateful: one builder configuration or one semaphore at a time).

builder:
 {"op":"init","steps":[{"kind":"checkout|build|package","path":n,"vid":n,"sb":n|null,"valid":b,"deps":[..],"bid":[..]}],
  "cfg":{"par":b,"keepGoing":b,"co0":b,"targets":[..]},
  "runners":{"kind":"job","recursive":b,"pipe":n} | {"kind":"bounded","n":k}}
 {"op":"task","t":i}            run task i as asyncio would (until it suspends)  -> {"n":steps,"ev":[..],"s":snapshot}
 {"op":"fin","t":i,"ok":b}  {"op":"cb"}  {"op":"take"}  {"op":"ret"}             -> {"ok":b,"ev":[],"s":snapshot}
 {"op":"final"}                                                                  -> {"alldone":b,"disk":[[path,val]..],"s":snapshot}
semaphore alone:
 {"op":"sem-init","recursive":b,"pipe":n}
 {"op":"acquire","t":i} {"op":"resume","t":i} {"op":"release"} {"op":"callback"} {"op":"take"} {"op":"ret"}
    -> {"r":"got|blocked|ok|ValueError|IndexError|not-enabled", "s":{..}}
-/

def runFn (s : Nat) (ins : List Nat) : Nat :=
  ins.foldl (fun a v => (a * 1000003 + v + 1) % 2305843009213693951) (s + 7)

structure DState where
  P : Project
  cfg : Cfg
  n : Nat := 1
  st0 : Option Sched.St := none
  st : Option Sched.St
  sem : Option JobSem.St

def natList (j : Json) (k : String) : List Nat :=
  (getArr j k).map fun x => (x.getNat?.toOption).getD 0

def stepOf (j : Json) : StepInfo :=
  { kind := match getStr j "kind" with
      | "checkout" => .checkout | "build" => .build | _ => .package,
    path := getNat j "path", vid := getNat j "vid",
    sandbox := (getObj? j "sb").bind fun v => v.getNat?.toOption,
    valid := getBool j "valid", deps := natList j "deps", bidDeps := natList j "bid" }

def kindJson : TKind → List Json
  | .dispatcher => [Json.str "disp", Json.null, Json.null]
  | .top s => [Json.str "top", toJson s, Json.null]
  | .cook s co => [Json.str "cook", toJson s, Json.bool co]
  | .bid s => [Json.str "bid", toJson s, Json.null]

def evJson : Ev → Json
  | .spawn id k => Json.arr (#[Json.str "spawn", toJson id] ++ (kindJson k).toArray)
  | .acq _ => Json.arr #[Json.str "acq"]
  | .got _ => Json.arr #[Json.str "got"]
  | .rel _ ok => Json.arr #[Json.str "rel", Json.bool ok]
  | .start _ s => Json.arr #[Json.str "start", toJson s]
  | .fin _ s ok => Json.arr #[Json.str "end", toJson s, Json.bool ok]
  | .setRun _ s sk => Json.arr #[Json.str "setrun", toJson s, Json.bool sk]
  | .pass _ => Json.arr #[Json.str "pass"]
  | .failRec _ => Json.arr #[Json.str "failrec"]
  | .done _ ok => Json.arr #[Json.str "done", Json.bool ok]

def semJson (s : JobSem.St) : List (String × Json) :=
  [("w", toJson s.waitersCnt), ("a", toJson s.acquired), ("tk", toJson s.tokens), ("pipe", toJson s.pipe),
   ("rd", Json.bool s.reader), ("envheld", toJson s.envHeld), ("v", toJson s.sem.value),
   ("nwait", toJson s.sem.waiters.length)]

def insertSorted (a : Nat × Bool) : List (Nat × Bool) → List (Nat × Bool)
  | [] => [a]
  | b :: r => if a.1 ≤ b.1 then a :: b :: r else b :: insertSorted a r

def sortPairs (l : List (Nat × Bool)) : List (Nat × Bool) := l.foldr insertSorted []

def snapshot (st : Sched.St) : Json :=
  let sem := match st.runners with
    | .job s => semJson s
    | .bounded s _ => [("v", toJson s.value)]
  let locks := sortPairs ((st.locks.filter fun (_, l) => l.locked).map fun (p, _) => (p, true))
  let wr := sortPairs (st.wasRun.map fun (p, _, sk) => (p, sk))
  Json.mkObj (sem ++ [("run", Json.bool st.running), ("err", toJson st.errors),
    ("locks", Json.arr (locks.map fun (p, _) => toJson p).toArray),
    ("wasrun", Json.arr (wr.map fun (p, sk) => Json.arr #[toJson p, Json.bool sk]).toArray),
    ("ncook", toJson st.cookT.length), ("nbid", toJson st.bidT.length)])

def reply (d : DState) (old new : Sched.St) (extra : List (String × Json)) : Json :=
  Json.mkObj (extra ++ [("ev", Json.arr ((new.trace.drop old.trace.length).map evJson).toArray), ("s", snapshot new),
    ("inv", toJson (checkAll d.P d.cfg d.n new))])

/-! random exploration of schedules of the model (linear congruential generator, all choices that are enabled) -/

def lcg (x : Nat) : Nat := (x * 6364136223846793005 + 1442695040888963407) % 18446744073709551616

def enabledChoices (P : Project) (cfg : Cfg) (st : Sched.St) (takes : Nat) (failMod : Nat) (rnd : Nat) : List Choice :=
  let ts := List.range st.tasks.length
  let tasks := ts.filterMap fun t => if (stepTask P cfg st t).isSome then some (Choice.task t) else none
  let fins := ts.filterMap fun t =>
    match (st.task t).ops with
    | .runWait s none :: _ => some (Choice.finish t (failMod == 0 || (rnd / 7 + s * 13 + t) % failMod != 0))
    | _ => none
  let envs : List Choice := match st.runners with
    | .job s => (if s.reader then [Choice.callback] else []) ++ (if s.pipe > 0 && takes > 0 then [Choice.envTake] else []) ++
                (if s.envHeld > 0 then [Choice.envReturn] else [])
    | _ => []
  tasks ++ fins ++ envs

def choiceJson : Choice → Json
  | .task t => Json.arr #[Json.str "task", toJson t]
  | .finish t ok => Json.arr #[Json.str "fin", toJson t, Json.bool ok]
  | .callback => Json.arr #[Json.str "cb"]
  | .envTake => Json.arr #[Json.str "take"]
  | .envReturn => Json.arr #[Json.str "ret"]

/-- one random schedule; returns (violated invariants, schedule so far, deadlocked, steps) -/
def exploreRun (d : DState) (failMod : Nat) : Nat → Nat → Nat → Sched.St → List Choice → List String × List Choice × Bool × Nat
  | 0, _, _, _, acc => ([], acc.reverse, false, acc.length)
  | fuel + 1, rnd, takes, st, acc =>
    let cs := enabledChoices d.P d.cfg st takes failMod rnd
    if cs.isEmpty then
      let bad := checkAll d.P d.cfg d.n st
      (bad, acc.reverse, !allDone st, acc.length)
    else
      let c := cs.getD ((rnd / 65536) % cs.length) (Choice.task 0)
      match Sched.step d.P d.cfg st c with
      | none => (["enabled-choice-failed"], (c :: acc).reverse, false, acc.length)
      | some st' =>
        let bad := checkAll d.P d.cfg d.n st'
        if bad.isEmpty then
          exploreRun d failMod fuel (lcg rnd) (if c == Choice.envTake then takes - 1 else takes) st' (c :: acc)
        else (bad, (c :: acc).reverse, false, acc.length + 1)

def exploreMany (d : DState) (st0 : Sched.St) (failMod takes maxsteps : Nat) : Nat → Nat → Nat → Nat → Nat → Json × Nat × Nat × Nat
  | 0, _, dl, term, steps => (Json.null, dl, term, steps)
  | runs + 1, seed, dl, term, steps =>
    let (bad, sched, dead, n) := exploreRun d failMod maxsteps seed takes st0 []
    if !bad.isEmpty then
      (Json.mkObj [("inv", toJson bad), ("seed", toJson seed), ("schedule", Json.arr (sched.map choiceJson).toArray)], dl, term, steps + n)
    else if dead then
      (Json.mkObj [("inv", toJson ["deadlock"]), ("seed", toJson seed), ("schedule", Json.arr (sched.map choiceJson).toArray)], dl + 1, term, steps + n)
    else exploreMany d st0 failMod takes maxsteps runs (lcg (seed + 12345)) dl (term + 1) (steps + n)

def semReply (r : String) (s : JobSem.St) : Json :=
  Json.mkObj ([("r", Json.str r)] ++ semJson s ++
    [("waiters", Json.arr (s.sem.waiters.map fun (t, d) => Json.arr #[toJson t, Json.bool d]).toArray)])

def handle (d : DState) (j : Json) : DState × Json :=
  match getStr j "op" with
  | "init" =>
    let steps := (getArr j "steps").map stepOf
    let c := j.getObjValD "cfg"
    let cfg : Cfg := { par := getBool c "par", keepGoing := getBool c "keepGoing", co0 := getBool c "co0",
                       targets := natList c "targets" }
    let r := j.getObjValD "runners"
    let runners : JobSem.Runners :=
      if getStr r "kind" == "job" then JobSem.Runners.job (JobSem.St.init (getBool r "recursive") (getNat r "pipe"))
      else JobSem.Runners.bounded { value := getNat r "n", waiters := [] } (getNat r "n")
    -- the result of a script depends on its workspace (variant), not on which step object ran it
    let P : Project := { steps, run := fun s ins => runFn ((steps.getD s default).path) ins, junk := fun _ => 0 }
    let st := Sched.init cfg runners
    ({ d with P, cfg, st := some st, st0 := some st, n := getNat j "n", sem := none }, Json.mkObj [("ok", Json.bool true), ("s", snapshot st)])
  | "sem-init" =>
    let s := JobSem.St.init (getBool j "recursive") (getNat j "pipe")
    ({ d with sem := some s, st := none }, semReply "ok" s)
  | op =>
    match d.st, d.sem with
    | _, some s =>
      let fin (r : String) (s' : JobSem.St) : DState × Json := ({ d with sem := some s' }, semReply r s')
      match op with
      | "acquire" => let (s', a) := s.acquire (getNat j "t"); fin (if a == JobSem.Acq.got then "got" else "blocked") s'
      | "resume" => if s.woken (getNat j "t") then fin "ok" (s.resume (getNat j "t")) else fin "not-enabled" s
      | "release" =>
        match s.release with
        | .ok s' => fin "ok" s'
        | .error .valueError => fin "ValueError" s
        | .error .indexError => fin "IndexError" s
        | .error .runtimeError => fin "RuntimeError" s
      | "callback" => if s.reader then fin "ok" s.callback else fin "not-enabled" s
      | "take" => match s.envTake with | some s' => fin "ok" s' | none => fin "not-enabled" s
      | "ret" => match s.envReturn with | some s' => fin "ok" s' | none => fin "not-enabled" s
      | "sem-end" => ({ d with sem := none }, semReply "ok" s)
      | _ => (d, err "bad-op")
    | some st, none =>
      let env (c : Choice) : DState × Json :=
        match Sched.step d.P d.cfg st c with
        | some st' => ({ d with st := some st' }, reply d st st' [("ok", Json.bool true)])
        | none => (d, reply d st st [("ok", Json.bool false)])
      match op with
      | "task" =>
        let (st', n) := runTask d.P d.cfg 100000 true st (getNat j "t")
        ({ d with st := some st' }, reply d st st' [("n", toJson n)])
      | "fin" => env (.finish (getNat j "t") (getBool j "ok"))
      | "cb" => env .callback
      | "take" => env .envTake
      | "ret" => env .envReturn
      | "explore" =>
        match d.st0 with
        | none => (d, err "no-state")
        | some st0 =>
          let (v, dl, term, steps) := exploreMany d st0 (getNat j "failmod") (getNat j "takes") (getNat j "maxsteps")
            (getNat j "runs") (getNat j "seed") 0 0 0
          (d, Json.mkObj [("violation", v), ("deadlocks", toJson dl), ("terminal", toJson term), ("steps", toJson steps)])
      | "final" =>
        let alldone := st.tasks.all fun x => x.done
        (d, Json.mkObj [("alldone", Json.bool alldone),
          ("disk", Json.arr (st.disk.map fun (p, v) => Json.arr #[toJson p, toJson v]).toArray),
          ("ntasks", toJson st.tasks.length),
          ("kinds", Json.arr (st.tasks.map fun x => Json.arr (kindJson x.kind).toArray).toArray),
          ("inv", toJson (checkAll d.P d.cfg d.n st)), ("s", snapshot st)])
      | _ => (d, err "bad-op")
    | none, none => (d, err "no-state")

def main : IO Unit :=
  run DState { P := { steps := [], run := runFn, junk := fun _ => 0 },
               cfg := { par := true, keepGoing := false, co0 := false, targets := [] }, st := none, sem := none } handle
