import BobModel.Model.PathSpec
import BobModel.Util.Proto
open Lean Proto PathSpec

/-
requests (one JSON object per line, the driver keeps the current graph):
 {"op":"graph","size":n,"root":r,"names":[s],"direct":[[i]],"indirect":[[i]],"svals":[[s per node] per leaf]}
     -> {"children":[[[name,node,direct]]],"parents":[[[p,flag]]]}
 {"op":"query","path":[tok],"mode":"nullset|nullglob|nullfail"}
     tok  = "/" | "//" | {"axis":a,"test":t,"pred":P|null}
     P    = {"not":P} | {"and":[P,P]} | {"or":[P,P]} | {"path":[tok]} | {"cmp":op,"l":leaf,"r":leaf} | {"truth":leaf}
     -> {"err":kind} | {"nodes":[i],"valid":[i],"tree0":[[[name],node]],"tree1":..,"pkg0":..,"pkg1":..}
        (tree1/pkg1 only with "all":true)
 {"op":"prep","aliases":{k:v},"path":s} -> {"text":s}
 {"op":"glob","pat":s,"name":s} -> {"ok":b}
-/

def natList (j : Json) : List Nat :=
  match j with
  | .arr a => a.toList.map fun x => (x.getNat?.toOption).getD 0
  | _ => []

def emptyGraph : Graph := { size := 0, root := 0, name := fun _ => [], children := fun _ => [], sval := fun _ _ => [] }

def graphOf (j : Json) : Graph :=
  let names : Array Str := ((getArr j "names").map fun x => match x with | .str s => s.toList | _ => []).toArray
  let direct : Array (List Nat) := ((getArr j "direct").map natList).toArray
  let indirect : Array (List Nat) := ((getArr j "indirect").map natList).toArray
  let svals : Array (Array Str) := ((getArr j "svals").map fun row => ((strList row).map String.toList).toArray).toArray
  let p : Pkgs := { size := getNat j "size", root := getNat j "root",
                    name := fun i => names.getD i [],
                    direct := fun i => direct.getD i [],
                    indirect := fun i => indirect.getD i [] }
  -- the children table is computed once per graph
  let ch : Array (List Edge) := ((List.range p.size).map (convChildren p)).toArray
  { size := p.size, root := p.root, name := p.name, children := fun i => ch.getD i [],
    sval := fun l n => (svals.getD l #[]).getD n [] }

def axisOf (s : String) : Axis := (Axis.ofName s).getD .self

def cmpOf : String → CmpOp
  | "<" => .lt | "<=" => .le | ">" => .gt | ">=" => .ge | "==" => .eq | _ => .ne

instance : Inhabited Pred := ⟨.truth 0⟩
instance : Inhabited Steps := ⟨.nil⟩

mutual
partial def predOf (j : Json) : Pred :=
  match j.getObjVal? "not" with
  | .ok p => .not (predOf p)
  | _ => match j.getObjVal? "and" with
    | .ok (.arr a) => .and (predOf (a.getD 0 .null)) (predOf (a.getD 1 .null))
    | _ => match j.getObjVal? "or" with
      | .ok (.arr a) => .or (predOf (a.getD 0 .null)) (predOf (a.getD 1 .null))
      | _ => match j.getObjVal? "path" with
        | .ok (.arr a) => .path (isAbsolute a.toList) (stepsOf a.toList)
        | _ => match j.getObjVal? "cmp" with
          | .ok (.str op) => .cmp (cmpOf op) (getNat j "l") (getNat j "r")
          | _ => .truth (getNat j "truth")
/-- the token list as `LocationPath.__init__` sees it: `/` dropped, `//` = descendant-or-self@* -/
partial def stepsOf (toks : List Json) : Steps :=
  match toks with
  | [] => .nil
  | .str "/" :: rest => stepsOf rest
  | .str "//" :: rest => .cons .descendantOrSelf star .none (stepsOf rest)
  | t :: rest =>
    let op := match getObj? t "pred" with
      | some p => OptPred.some (predOf p)
      | none => OptPred.none
    .cons (axisOf (getStr t "axis")) (getStr t "test").toList op (stepsOf rest)
partial def isAbsolute (toks : List Json) : Bool :=
  match toks with
  | .str "/" :: _ => true
  | .str "//" :: _ => true
  | _ => false
end

def modeOf (s : String) : Mode := (Mode.ofName s).getD .nullglob

def jStr (s : Str) : Json := Json.str (String.ofList s)
def jNats (l : List Nat) : Json := Json.arr (l.map fun (n : Nat) => (n : Json)).toArray

def jTree (l : List (List Str × Node)) : Json :=
  Json.arr (l.map fun (s, n) => Json.arr #[Json.arr (s.map jStr).toArray, (n : Json)]).toArray

def errName : QErr → String
  | .notFound => "notFound" | .noMatch => "noMatch"

def sortNats (l : List Nat) : List Nat := (l.toArray.qsort (· < ·)).toList

def handle (g : Graph) (j : Json) : Graph × Json :=
  match getStr j "op" with
  | "graph" =>
    let g := graphOf j
    let ch := (allNodes g).map fun i => Json.arr ((g.children i).map fun e => Json.arr #[jStr e.name, (e.node : Json), Json.bool e.direct]).toArray
    let pa := (allNodes g).map fun x => Json.arr ((preds g true x).map fun (p : Nat) =>
      Json.arr #[(p : Json), Json.bool ((parentFlag g p x).getD false)]).toArray
    (g, Json.mkObj [("children", Json.arr ch.toArray), ("parents", Json.arr pa.toArray)])
  | "query" =>
    let steps := (stepsOf (getArr j "path")).normalize
    let mode := modeOf (getStr j "mode")
    match evalForward g mode steps with
    | .error e => (g, Json.mkObj [("err", Json.str (errName e))])
    | .ok (nodes, valid) =>
      let run (f : Graph → Bool → Nat → Node → List Str → RState → RState) (qa : Bool) :=
        jTree (f g qa (g.size + 1) g.root [] { out := [], result := nodes, valid := valid }).out
      -- since 6706b01 `__findIntermediateNodes` does not depend on the iteration order of `old`
      let sens := false
      let base := [("nodes", jNats (sortNats (dedup nodes))), ("valid", jNats (sortNats (dedup valid))),
                   ("sensitive", Json.bool sens),
                   ("tree0", run findResultNodes false), ("pkg0", run findResultPackages false)]
      let more := if getBool j "all" then [("tree1", run findResultNodes true), ("pkg1", run findResultPackages true)] else []
      (g, Json.mkObj (base ++ more))
  | "prep" =>
    let al := match j.getObjValD "aliases" with
      | .obj kvs => kvs.toList.filterMap fun (k, v) => match v with
        | .str s => some (k.toList, s.toList)
        | _ => none
      | _ => []
    (g, Json.mkObj [("text", jStr (prepareQuery al (getStr j "path").toList))])
  | "glob" => (g, Json.mkObj [("ok", Json.bool (nameTest (getStr j "pat").toList (getStr j "name").toList))])
  | _ => (g, err "bad-op")

def main : IO Unit := run Graph emptyGraph handle
