import BobModel.Model.ShellEnv
import BobModel.Util.Proto
open Lean Proto ShellEnv

/-
requests (strings are JSON strings, dicts are JSON objects, pairs are 2-element arrays):
 {"op":"quote","s":s}                                   -> {"ok": shlexQuote s}
 {"op":"word","text":t,"env":{..}}                      -> {"ok": value} | {"err": kind}      (bashWord)
 {"op":"abspath","cwd":c,"p":p}                         -> {"ok": posixAbs c p}
 {"op":"step","spec":SPEC,"pycwd":c,"keepEnv":b,"trace":b,"bash":s,"execScript":s,
        "preserve":b,"whitelist":[..],"host":{..},"extra":{..},"defaults":{..}}
      -> {"prolog":text,"argv":[..],"positional":[..],"procEnv":{..},"env":{..}|null,"arrays":{..},"err":kind|null}
 {"op":"prune","full":{..},"strong":[..],"weak":[..]}   -> {"env":{..},"digest":{..}}
 {"op":"whitelist","cfgs":[[adds,removes]..],"cli":[..]} -> {"ok":[..]}
 {"op":"fingerprint","stepEnv":{..},"fpVars":[..],"procEnv":{..}} -> {"preamble":text,"fpEnv":{..},"env":{..},"err":..}
 {"op":"fromstep","desc":DESC,"cwd":execPath}           -> {"spec":SPEC,"depMounts":[[s,e]..]}
 {"op":"sandbox","mode":"slim"|"fat", ...}              -> {"argv":[..],"mounts":[[src,tgt,rw]..],"parsed":[[src,tgt,rw]..]|null}
 SPEC = {"env":{..},"paths":[..],"libraryPaths":[..],"cwd":s,"args":[..],"allPaths":[[n,p]..],"depPaths":..,"toolPaths":..}
-/

def S (s : String) : Str := s.toList
def J (s : Str) : Json := Json.str (String.ofList s)

def envOf (j : Json) : Env :=
  match j with
  | .obj kvs => kvs.toList.filterMap fun (k, v) => match v with
    | .str s => some (S k, S s)
    | _ => none
  | _ => []

def dedup (e : Env) : Env :=
  e.foldl (fun acc kv => if (acc.any fun x => x.1 = kv.1) then acc else acc ++ [kv]) []

def envJ (e : Env) : Json := Json.mkObj ((dedup e).map fun kv => (String.ofList kv.1, J kv.2))

def strsOf (j : Json) (k : String) : List Str := (getArr j k).filterMap fun x => match x with
  | .str s => some (S s)
  | _ => none

def pairOf (j : Json) : Option (Str × Str) :=
  match j with
  | .arr a => match a.toList with
    | [.str x, .str y] => some (S x, S y)
    | _ => none
  | _ => none

def pairsOf (j : Json) (k : String) : List (Str × Str) := (getArr j k).filterMap pairOf

def pairsJ (ps : List (Str × Str)) : Json := Json.arr (ps.map fun p => Json.arr #[J p.1, J p.2]).toArray
def strsJ (xs : List Str) : Json := Json.arr (xs.map J).toArray

def specOf (j : Json) : Spec :=
  { env := envOf (j.getObjValD "env"), paths := strsOf j "paths", libraryPaths := strsOf j "libraryPaths",
    cwd := S (getStr j "cwd"), args := strsOf j "args", allPaths := pairsOf j "allPaths",
    depPaths := pairsOf j "depPaths", toolPaths := pairsOf j "toolPaths" }

def specJ (s : Spec) : Json :=
  Json.mkObj [("env", envJ s.env), ("paths", strsJ s.paths), ("libraryPaths", strsJ s.libraryPaths),
    ("cwd", J s.cwd), ("args", strsJ s.args), ("allPaths", pairsJ s.allPaths), ("depPaths", pairsJ s.depPaths),
    ("toolPaths", pairsJ s.toolPaths)]

def errName : ShErr → String
  | .unterminatedQuote => "unterminatedQuote" | .unsupported => "unsupported" | .badIdentifier => "badIdentifier"
  | .badSubscript => "badSubscript" | .syntaxErr => "syntax" | .nul => "nul" | .outOfFuel => "outOfFuel"

def arraysJ (a : List (Str × List (Str × Str))) : Json :=
  Json.mkObj (a.reverse.map fun (n, es) => (String.ofList n, envJ es))

def depStepOf (j : Json) : DepStep :=
  { name := S (getStr j "name"), valid := getBool j "valid", isCheckout := getBool j "isCheckout",
    storage := S (getStr j "storage"), exec := S (getStr j "exec") }

def toolOf (j : Json) : Tool :=
  { name := S (getStr j "name"), step := depStepOf (j.getObjValD "step"), path := S (getStr j "path"),
    libs := strsOf j "libs" }

def descOf (j : Json) : StepDesc :=
  { env := envOf (j.getObjValD "env"), valid := getBool j "valid", isCheckout := getBool j "isCheckout",
    args := (getArr j "args").map depStepOf, tools := (getArr j "tools").map toolOf,
    sandbox := (getObj? j "sandbox").map depStepOf, chain := (getArr j "chain").map depStepOf }

def mountsJ (ms : List Mount) : Json :=
  Json.arr (ms.map fun m => Json.arr #[J m.src, J m.tgt, Json.bool m.rw]).toArray

def hostMountOf (j : Json) : HostMount :=
  { host := S (getStr j "host"), sandbox := S (getStr j "sandbox"), options := strsOf j "options" }

def handle (j : Json) : Json :=
  match getStr j "op" with
  | "quote" => Json.mkObj [("ok", J (shlexQuote (S (getStr j "s"))))]
  | "word" =>
    match bashWord (envOf (j.getObjValD "env")) (S (getStr j "text")) with
    | .ok v => Json.mkObj [("ok", J v)]
    | .error e => Json.mkObj [("err", Json.str (errName e))]
  | "abspath" => Json.mkObj [("ok", J (posixAbs (S (getStr j "cwd")) (S (getStr j "p"))))]
  | "step" =>
    let spec := specOf (j.getObjValD "spec")
    let abs := posixAbs (S (getStr j "pycwd"))
    let prolog := formatProlog abs spec (getBool j "keepEnv")
    let argv := setupCallArgs abs spec (S (getStr j "bash")) (S (getStr j "execScript")) (getBool j "trace")
    let procEnv := processEnv (getBool j "preserve") (strsOf j "whitelist") (envOf (j.getObjValD "host")) none
      (envOf (j.getObjValD "extra"))
    let e0 := procEnv ++ envOf (j.getObjValD "defaults")
    let res := evalScript ⟨e0, []⟩ (formatProlog abs spec false)
    let common := [("prolog", J prolog), ("argv", strsJ argv), ("positional", strsJ (positionalOf argv)),
      ("procEnv", envJ procEnv)]
    match res with
    | .ok sh => Json.mkObj (common ++ [("env", envJ sh.env), ("arrays", arraysJ sh.arrays), ("err", Json.null)])
    | .error e => Json.mkObj (common ++ [("env", Json.null), ("arrays", Json.null), ("err", Json.str (errName e))])
  | "prune" =>
    let full := envOf (j.getObjValD "full")
    Json.mkObj [("env", envJ (stepEnvOf full (strsOf j "strong") (strsOf j "weak"))),
      ("digest", envJ (digestEnvOf full (strsOf j "strong")))]
  | "whitelist" =>
    let cfgs := (getArr j "cfgs").map fun c => (strsOf c "adds", strsOf c "removes")
    Json.mkObj [("ok", strsJ (whiteListFold Consts.C13.posixWhiteList cfgs (strsOf j "cli")))]
  | "fingerprint" =>
    let fpEnv := fingerprintEnvOf (envOf (j.getObjValD "stepEnv")) (strsOf j "fpVars")
    let pre := fingerprintPreamble fpEnv
    let argvHead := (setupFingerprintArgs (S "bash") (getBool j "trace") []).dropLast
    match evalScript ⟨envOf (j.getObjValD "procEnv"), []⟩ pre with
    | .ok sh => Json.mkObj [("preamble", J pre), ("fpEnv", envJ fpEnv), ("env", envJ sh.env), ("err", Json.null),
        ("argvHead", strsJ argvHead), ("readsRc", Json.bool (bashReadsRc argvHead (getBool j "stdinSocket")))]
    | .error e => Json.mkObj [("preamble", J pre), ("fpEnv", envJ fpEnv), ("env", Json.null), ("err", Json.str (errName e)),
        ("argvHead", strsJ argvHead), ("readsRc", Json.bool (bashReadsRc argvHead (getBool j "stdinSocket")))]
  | "fromstep" =>
    let d := descOf (j.getObjValD "desc")
    Json.mkObj [("spec", specJ (specOfStep d (S (getStr j "cwd")))), ("depMounts", pairsJ d.depMounts)]
  | "sandbox" =>
    let abs := posixAbs (S (getStr j "pycwd"))
    let tmpDir := S (getStr j "tmpDir")
    let entries := strsOf j "rootEntries"
    let base : List HArg :=
      if getStr j "mode" == "slim" then slimGroups tmpDir (S (getStr j "pycwd")) entries
      else
        let existing := strsOf j "existing"
        fatGroups tmpDir (abs (S (getStr j "sandboxRoot"))) entries (getBool j "isJenkins")
          (fun p => existing.contains p) ((getArr j "hostMounts").map hostMountOf) (S (getStr j "user"))
    let envFile := match j.getObjVal? "envFile" with
      | .ok (.str s) => some (S s)
      | _ => none
    let gs := base ++ stepGroups abs (S (getStr j "realScript")) (S (getStr j "execScript")) (getBool j "netAccess")
      envFile (S (getStr j "wsStorage")) (S (getStr j "wsExec")) (pairsOf j "depMounts")
    let call := strsOf j "callArgs"
    let argv := renderHArgs gs ++ [['-', '-']] ++ call
    let parsed := match parseHelper {} argv with
      | .ok o => Json.mkObj [("mounts", mountsJ o.mounts), ("cmd", strsJ o.cmd), ("dirs", strsJ o.dirs),
          ("workdir", match o.workdir with | some w => J w | none => Json.null),
          ("root", match o.root with | some w => J w | none => Json.null),
          ("flags", J o.flags)]
      | .error _ => Json.null
    Json.mkObj [("argv", strsJ argv), ("mounts", mountsJ (gs.flatMap HArg.mounts)), ("parsed", parsed)]
  | "resolve" =>
    let ms := (getArr j "mounts").filterMap fun m => match m with
      | .arr a => match a.toList with
        | [.str s, .str t, .bool rw] => some (⟨S s, S t, rw⟩ : Mount)
        | _ => none
      | _ => none
    match resolve ms (S (getStr j "path")) with
    | some (m, rest) => Json.mkObj [("src", J m.src), ("tgt", J m.tgt), ("rw", Json.bool m.rw), ("rest", strsJ rest)]
    | none => Json.mkObj [("src", Json.null)]
  | _ => err "bad-op"

/-- JSON text with every character outside printable ASCII written as `\uXXXX` (such characters occur only
inside strings): the harness splits replies with `str.splitlines`, which also breaks at U+0085, U+2028 … -/
def hex4 (n : Nat) : String :=
  let d := fun k => Bytes.hexDigit ((n / k) % 16)
  String.ofList ['\\', 'u', d 4096, d 256, d 16, d 1]

def asciiJson (s : String) : String :=
  s.foldl (fun acc c =>
    let n := c.toNat
    if 32 ≤ n && n < 127 then acc.push c
    else if n < 0x10000 then acc ++ hex4 n
    else
      let v := n - 0x10000
      acc ++ hex4 (0xD800 + v / 1024) ++ hex4 (0xDC00 + v % 1024)) ""

partial def loop (h : IO.FS.Stream) (out : IO.FS.Stream) : IO Unit := do
  let line ← h.getLine
  if line.isEmpty then
    out.flush
    return ()
  let t := line.trimAscii.toString
  if t.isEmpty then loop h out
  else
    match Json.parse t with
    | .error e => out.putStrLn (Json.compress (Json.mkObj [("proto_error", Json.str e)])); loop h out
    | .ok j => out.putStrLn (asciiJson (Json.compress (handle j))); loop h out

def main : IO Unit := do
  loop (← IO.getStdin) (← IO.getStdout)
