import BobModel.Model.Audit
import BobModel.Util.Sha1
import BobModel.Util.Proto
open Lean Proto Audit

/-
Driver of the C14 model (pym/bob/audit.py).  H = SHA-1 (Util/Sha1.lean), so artifact ids are bit exact.

Python values travel in a tagged form (JSON cannot tell bytes from str, and dict order matters for the
model's dict operations):
   {"s":[code points]} | {"m":[[ [code points], v ], ...]} | {"l":[v,...]} | {"i":"decimal"} | {"b":bool}
   | {"x":"hex"} | null

requests
 {"op":"digest","data":v}                  -> {"ok":hex of the digested bytes,"sha1":hex} | {"err":"struct"}
 {"op":"scenario","ops":[op,...]}          -> {"res":[result per op]}
   op = {"o":"new","s":slot,"rec":v}         artifact from a record dict (Artifact.load); -> "ok" | "parseerror"
        {"o":"define"|"metaenv"|"file","s":slot,"k":[cp],"v":[cp]}
        {"o":"env","s":slot,"v":[cp]}   {"o":"recipes","s":slot,"v":v|absent}   {"o":"layers","s":slot,"v":{"m":..}}
        {"o":"recipesaudit","s":slot,"v":{"m":[[name, v|null],...]}}   Audit.setRecipesAudit (null = a layer without audit)
        {"o":"getid","s":slot}               -> hex (leaves the id cached, as getId() does)
        {"o":"save","s":slot,"f":file}       {"o":"load","f":file,"s":slot}
        {"o":"loadraw","f":file,"tree":{"artifact":v,"references":[v,...]}} -> "ok" | "parseerror"
        {"o":"addarg","s":slot,"f":file}  {"o":"addtool","s":slot,"n":[cp],"f":file}  {"o":"sandbox","s":slot,"f":file}
        {"o":"query","s":slot}               -> {"id":hex,"keys":[hex],"refs":[hex],"valid":"ok"|"missing"|"fuel",
                                                 "rbi":[hex]|"keyerror"|"fuel","consistent":bool}
-/

def cps (j : Json) : Str :=
  match j with
  | .arr a => a.toList.map fun x => Char.ofNat ((x.getNat?.toOption).getD 0)
  | _ => []

partial def dataOf (j : Json) : Data :=
  match j with
  | .null => .null
  | _ =>
    match j.getObjVal? "s" with
    | .ok v => .str (cps v)
    | _ => match j.getObjVal? "m" with
      | .ok (.arr a) => .map (a.toList.map fun p => match p with
          | .arr kv => (cps (kv.getD 0 .null), dataOf (kv.getD 1 .null))
          | _ => ([], .null))
      | _ => match j.getObjVal? "l" with
        | .ok (.arr a) => .list (a.toList.map dataOf)
        | _ => match j.getObjVal? "i" with
          | .ok (.str s) => .int (s.toInt?.getD 0)
          | _ => match j.getObjVal? "b" with
            | .ok (.bool b) => .bool b
            | _ => match j.getObjVal? "x" with
              | .ok (.str s) => .bytes ((Bytes.ofHex s).getD [])
              | _ => .null

/-- the argument of `setRecipesAudit`: a dict name ↦ (dumped audit | None) -/
def recipesAuditOf (j : Json) : List (Str × Option Data) :=
  match j.getObjVal? "m" with
  | .ok (.arr a) => a.toList.map fun p => match p with
      | .arr kv => (cps (kv.getD 0 .null), match kv.getD 1 .null with
          | .null => none
          | x => some (dataOf x))
      | _ => ([], none)
  | _ => []

def sha1 : Bytes → Id := Sha1.hashBytes

def hexJ (b : Bytes) : Json := Json.str (Bytes.toHex b)

def hexArr (l : List Bytes) : Json := Json.arr (l.map hexJ).toArray

structure St where
  slots : List (String × Audit.Audit)
  files : List (String × Audit.Audit)

def assocGet {α : Type} (l : List (String × α)) (k : String) : Option α :=
  (l.find? fun p => p.1 == k).map Prod.snd

def assocSet {α : Type} (l : List (String × α)) (k : String) (v : α) : List (String × α) :=
  (k, v) :: l.filter fun p => p.1 != k

def artifactOf (d : Data) (strict : Bool := true) : Option Artifact :=
  match d with
  | .map kvs => Artifact.ofData kvs strict
  | _ => none

def treeOf (j : Json) : Option Audit.Audit := do
  let a ← artifactOf (dataOf (j.getObjValD "artifact"))
  -- Artifact.load demands the `artifact-id` key; Audit.load reads it from every reference
  let _ ← a.cachedId
  let rl ← match j.getObjVal? "references" with
    | .ok (.arr a) => some a.toList
    | _ => none
  let refs ← rl.mapM fun r => do
    let x ← artifactOf (dataOf r)
    let i ← x.cachedId
    pure (i, x)
  pure { artifact := a, references := refs }

def vres : Audit.VResult → Json
  | .ok => "ok" | .missing _ => "missing" | .outOfFuel => "fuel"

def rres : Audit.RResult → Json
  | .ok ids => hexArr ids | .keyError => "keyerror" | .outOfFuel => "fuel"

def withSlot (st : St) (j : Json) (f : Audit.Audit → Audit.Audit × Json) : St × Json :=
  let s := getStr j "s"
  match assocGet st.slots s with
  | none => (st, "noslot")
  | some a =>
    let (a', r) := f a
    ({ st with slots := assocSet st.slots s a' }, r)

def onArtifact (st : St) (j : Json) (f : Artifact → Artifact) : St × Json :=
  withSlot st j fun a => ({ a with artifact := f a.artifact }, Json.null)

def withFile (st : St) (j : Json) (f : Audit.Audit → Audit.Audit → Audit.Audit) : St × Json :=
  match assocGet st.files (getStr j "f") with
  | none => (st, "nofile")
  | some file => withSlot st j fun a => (f a (Audit.load sha1 file), Json.null)

def stepOp (st : St) (j : Json) : St × Json :=
  match getStr j "o" with
  | "new" =>
    match artifactOf (dataOf (j.getObjValD "rec")) false with
    | none => (st, "parseerror")
    | some a => ({ st with slots := assocSet st.slots (getStr j "s") { artifact := a, references := [] } }, "ok")
  | "define" => onArtifact st j fun a => a.addDefine (cps (j.getObjValD "k")) (cps (j.getObjValD "v"))
  | "metaenv" => onArtifact st j fun a => a.addMetaEnv (cps (j.getObjValD "k")) (cps (j.getObjValD "v"))
  | "file" => onArtifact st j fun a => a.addAuditFile (cps (j.getObjValD "k")) (cps (j.getObjValD "v"))
  | "env" => onArtifact st j fun a => a.setEnv (cps (j.getObjValD "v"))
  | "recipes" => onArtifact st j fun a => a.setRecipes ((getObj? j "v").map dataOf)
  | "layers" => onArtifact st j fun a =>
      a.setLayers (match dataOf (j.getObjValD "v") with | .map m => m | _ => [])
  | "recipesaudit" => withSlot st j fun a =>
      (Audit.setRecipesAudit a (recipesAuditOf (j.getObjValD "v")), Json.null)
  | "getid" => withSlot st j fun a =>
      ({ a with artifact := a.artifact.dump sha1 }, hexJ (a.artifact.getId sha1))
  | "save" =>
    let s := getStr j "s"
    match assocGet st.slots s with
    | none => (st, "noslot")
    | some a =>
      let t := Audit.save sha1 a
      ({ slots := assocSet st.slots s t, files := assocSet st.files (getStr j "f") t }, Json.null)
  | "load" =>
    match assocGet st.files (getStr j "f") with
    | none => (st, "nofile")
    | some t => ({ st with slots := assocSet st.slots (getStr j "s") (Audit.load sha1 t) }, "ok")
  | "loadraw" =>
    match treeOf (j.getObjValD "tree") with
    | none => (st, "parseerror")
    | some t => ({ st with files := assocSet st.files (getStr j "f") t }, "ok")
  | "addarg" => withFile st j fun a o => Audit.addArg sha1 a o
  | "addtool" => withFile st j fun a o => Audit.addTool sha1 a (cps (j.getObjValD "n")) o
  | "sandbox" => withFile st j fun a o => Audit.setSandbox sha1 a o
  | "query" => withSlot st j fun a =>
      let a' := { a with artifact := a.artifact.dump sha1 }
      let fuel := getNat j "fuel"
      (a', Json.mkObj [
        ("id", hexJ (a'.artifact.getId sha1)),
        ("keys", hexArr (refKeys a'.references)),
        ("refs", hexArr a'.artifact.getReferences),
        ("valid", vres (Audit.validate a')),
        ("rbi", rres (Audit.getReferencedBuildIds fuel a')),
        -- every stored record's id equals the hash of its own content
        ("consistent", Json.bool (a'.references.all fun p =>
            p.1 == p.2.getId sha1 && p.1 == (p.2.invalidate).getId sha1))])
  | _ => (st, "bad-op")

def handle (j : Json) : Json :=
  match getStr j "op" with
  | "digest" =>
    let d := dataOf (j.getObjValD "data")
    match digest? d with
    | some b => Json.mkObj [("ok", hexJ b), ("sha1", hexJ (sha1 b))]
    | none => Json.mkObj [("err", "struct")]
  | "scenario" =>
    let (_, out) := (getArr j "ops").foldl (fun (acc : St × List Json) op =>
      let (st', r) := stepOp acc.1 op
      (st', r :: acc.2)) (({ slots := [], files := [] } : St), [])
    Json.mkObj [("res", Json.arr out.reverse.toArray)]
  | _ => err "bad-op"

/-- {"op":"batch","reqs":[request,...]} -> {"res":[reply,...]} (one line for many requests) -/
def main : IO Unit := runPure fun j =>
  match getStr j "op" with
  | "batch" => Json.mkObj [("res", Json.arr ((getArr j "reqs").map handle).toArray)]
  | _ => handle j
