import BobModel.Model.Jenkins
import BobModel.Util.Proto
open Lean Proto Jenkins

/-
request : {"n":N, "nodes":[{"name":s,"recipe":s,"deps":[i..],"vdeps":[i..]}], "roots":[i..], "prefix":s, "iso":[b..]}
          node i is the package step with (small) variant id i; "iso"[i] = isolate regex matches the package name of i
reply   : {"dname":[s|null], "iname":[s|null], "abs":[[i..]..], "jobs":[{"name":s,"pkgs":[i..],"up":[s..]}] | null,
           "order": "ok" | "cyclic" | "keyerror"}
-/

def natList (j : Json) (k : String) : List Nat :=
  (getArr j k).map fun x => (x.getNat?.toOption).getD 0

structure NodeJ where
  name : Str
  recipe : Str
  deps : List Nat
  vdeps : List Nat
  iso : Bool

instance : Inhabited NodeJ := ⟨⟨[], [], [], [], false⟩⟩

def optStr (o : Option Str) : Json :=
  match o with
  | some s => Json.str (String.ofList s)
  | none => Json.null

def natArr (l : List Nat) : Json := Json.arr (l.map fun k => Json.num (JsonNumber.fromNat k)).toArray

def main : IO Unit := runPure fun j =>
  let nodes : Array NodeJ := ((getArr j "nodes").zip ((getArr j "iso") ++ List.replicate 100000 (Json.bool false))).toArray.map fun (nj, ij) =>
    { name := (getStr nj "name").toList, recipe := (getStr nj "recipe").toList,
      deps := natList nj "deps", vdeps := natList nj "vdeps",
      iso := match ij with | .bool b => b | _ => false }
  let n := nodes.size
  let g : Graph := { deps := fun v => (nodes.getD v default).deps, vdeps := fun v => (nodes.getD v default).vdeps,
                     pkgName := fun v => (nodes.getD v default).name, recipe := fun v => (nodes.getD v default).recipe }
  let isoNames := (nodes.toList.filter (·.iso)).map (·.name)
  let iso : Str → Bool := fun nm => isoNames.contains nm
  let roots := natList j "roots"
  let pfx := (getStr j "prefix").toList
  let s := sanitizeSt g n iso roots
  let pn := assign s (finalNames g s)
  let vids := List.range n
  let abs := vids.filterMap fun k => if s.v2j k = some k then some (natArr (s.job k).pkgs) else none
  let jobs := genJobs g n pfx pn roots
  let (jobsJ, order) : Json × String := match jobs with
    | none => (Json.null, "keyerror")
    | some js =>
      (Json.arr (js.map fun jj => Json.mkObj [("name", Json.str (String.ofList jj.name)), ("pkgs", natArr jj.pkgs),
          ("up", Json.arr (jj.up.map fun u => Json.str (String.ofList u)).toArray)]).toArray,
       match buildOrder js with | some _ => "ok" | none => "cyclic")
  Json.mkObj [("dname", Json.arr (vids.map fun v => optStr (displayName pfx pn v)).toArray),
              ("iname", Json.arr (vids.map fun v => optStr (internalName pfx pn v)).toArray),
              ("abs", Json.arr abs.toArray), ("jobs", jobsJ), ("order", Json.str order)]
