import BobModel.Model.FileIndex
import BobModel.Util.Sha1
import BobModel.Util.Proto
open Lean Proto DirHash

/-
requests (all byte strings hex encoded):
 {"op":"hashdir",  "entries":[node..], "index": hex|null}
 {"op":"hashpath", "node": node,       "index": hex|null}
 {"op":"binstat",  "st":[ctime_ns, mtime_ns, dev, ino, size], "m": mode}
 node = {"n": name, "m": st_mode, "d": content | link target, "r": st_rdev, "e": [node..],
         "st": [ctime_ns, mtime_ns, dev, ino, size]}          ("e" in scandir order)
replies:
 {"uncached": hex, "cached": hex, "index": hex | null}   index = new cache.bin, null = file not replaced
-/

def getInt (j : Json) : Int :=
  match j.getInt? with
  | .ok v => v
  | _ => 0

def statOfJson (j : Json) (mode : Nat) : Stat :=
  match getArr j "st" with
  | [ct, mt, dev, ino, size] => ⟨getInt ct, getInt mt, (getInt dev).toNat, (getInt ino).toNat, mode, (getInt size).toNat⟩
  | _ => ⟨0, 0, 0, 0, mode, 0⟩

/-- JSON → (tree, stat table keyed by the index name of the node) -/
partial def nodeOf (path : Bytes) (j : Json) : Tree × List (Bytes × Stat) :=
  let mode := getNat j "m"
  let kids := (getArr j "e").map fun c =>
    let n := hexBytes c "n"
    (n, nodeOf (joinPath path n) c)
  let forest := Forest.ofList (kids.map fun (n, r) => (n, r.1))
  let t := Tree.ofRaw mode (hexBytes j "d") (getNat j "r") forest
  -- a non-directory has no children even if the request carries some
  let stats := if t.isDir then kids.flatMap (fun (_, r) => r.2) else []
  (t, (path, statOfJson j mode) :: stats)

def lookupStat (tab : List (Bytes × Stat)) (p : Bytes) : Stat :=
  match tab.lookup p with
  | some s => s
  | none => ⟨0, 0, 0, 0, 0, 0⟩

def oldIndex (j : Json) : Option Bytes :=
  match j.getObjVal? "index" with
  | .ok (.str s) => Bytes.ofHex s
  | _ => none

def reply (unc : Bytes) (r : Bytes × Option (List Rec)) : Json :=
  Json.mkObj [("uncached", Json.str (Bytes.toHex unc)), ("cached", Json.str (Bytes.toHex r.1)),
    ("index", match r.2 with
      | some l => Json.str (Bytes.toHex (encodeIndex l))
      | none => Json.null)]

def main : IO Unit := runPure fun j =>
  let H := Sha1.hashBytes
  match getStr j "op" with
  | "hashdir" =>
    let root := Json.mkObj [("m", Json.num 0o040755), ("e", Json.arr (getArr j "entries").toArray)]
    match nodeOf [] root with
    | (.dir _ es, tab) =>
      let unc := ((es.canon.walk H nullCheck (lookupStat tab) [] ()).1)
      reply (H unc) (hashDirCached H (lookupStat tab) (parseIndex (oldIndex j)) es)
    | _ => err "not-a-directory"
  | "hashpath" =>
    let (t, tab) := nodeOf [] (j.getObjValD "node")
    let unc := (t.canon.walk H nullCheck (lookupStat tab) [] ()).1
    reply unc (hashPathCached H (lookupStat tab) (parseIndex (oldIndex j)) t)
  | "binstat" =>
    Json.str (Bytes.toHex (binStat (statOfJson j (getNat j "m"))))
  | _ => err "bad-op"
