import BobModel.Model.Share
import BobModel.Generated.ConstsC15
import BobModel.Util.Proto
open Lean Proto Share

/-
Stateful line protocol (one session = one store that lives across schedules):
 {"op":"reset"}                                empty store; the variant of the code is the one extracted from the source
                                                (Generated/ConstsC15.lean); "cfg":[ff,gcMissingOk,emptyOk,lostRace] overrides it
 {"op":"procs","progs":[prog,...]}             replace the process list (all at `start`), keep the store
 {"op":"step","p":i}                           -> {"blocked":b,"pc":name,"at":bid|null,"res":res|null,"pub":b}
 {"op":"snap","bids":[..],"wss":[..]}          -> store snapshot
 {"op":"select","quota":q|null,"pruneUnused":b,"cands":[[unused,time,size,bid],..],"total":n}
                                                -> {"plan":[bid..],"size":n,"terr":b}
prog = {"op":"use","ws","bid","link"} | {"op":"install","ws","bid","dst","claimed","size","hasAudit","link"}
     | {"op":"gc","pruneUsed","pruneUnused","dryRun"} | {"op":"dropws","ws"}   each with "quota": n|null, "autoClean": b
The directory hash of the model run is the identity on content ids.
-/

structure Sess where
  cfg : Cfg
  s : St

def srcCfg : Cfg :=
  ⟨Consts.C15.flushBeforeUnlock, Consts.C15.gcMissingOk, Consts.C15.emptyOk, Consts.C15.lostRaceRecords⟩

def cfgOf (j : Json) : Cfg :=
  match j.getObjVal? "cfg" with
  | .ok (.arr a) =>
    let b := fun (i : Nat) => (a[i]?.getD Json.null) == Json.bool true
    ⟨b 0, b 1, b 2, b 3⟩
  | _ => srcCfg

def progOf (j : Json) : Prog :=
  let quota := match j.getObjVal? "quota" with
    | .ok .null => none
    | .ok v => v.getNat?.toOption
    | _ => none
  let op : Op := match getStr j "op" with
    | "use" => .use (getNat j "ws") (getNat j "bid") (getBool j "link")
    | "install" => .install (getNat j "ws") (getNat j "bid") (getNat j "dst") (getNat j "claimed")
        (getNat j "size") (getBool j "hasAudit") (getBool j "link")
    | "gc" => .gc (getBool j "pruneUsed") (getBool j "pruneUnused") (getBool j "dryRun")
    | _ => .dropws (getNat j "ws")
  ⟨op, quota, getBool j "autoClean"⟩

def errName : Err → String
  | .fileNotFound => "fileNotFound" | .jsonDecode => "jsonDecode" | .corruptMeta => "corruptMeta"
  | .hashChanged => "hashChanged" | .installOSError => "installOSError" | .inspect => "inspect"
  | .typeError => "typeError" | .renameENOENT => "renameENOENT" | .linkExists => "linkExists"
  | .unlinkMissing => "unlinkMissing"

def resJson : Res → Json
  | .useNone => Json.mkObj [("r", "useNone")]
  | .useOk h => Json.mkObj [("r", "useOk"), ("hash", toJson h)]
  | .inst b => Json.mkObj [("r", "inst"), ("installed", Json.bool b)]
  | .gcNone => Json.mkObj [("r", "gcNone")]
  | .gcSize n => Json.mkObj [("r", "gcSize"), ("size", toJson n)]
  | .shared b => Json.mkObj [("r", "shared"), ("shared", Json.bool b)]
  | .dropped => Json.mkObj [("r", "dropped")]
  | .err e => Json.mkObj [("r", "err"), ("e", errName e)]

def optNat : Option Nat → Json
  | some n => toJson n
  | none => Json.null

def pcJson (prog : Prog) : Pc → String × Option Nat × Option Res
  | .start => ("start", none, none)
  | .uOpen => ("uOpen", none, none) | .uLockRepo => ("uLockRepo", none, none)
  | .uOpenPkg => ("uOpenPkg", some (opBid prog), none) | .uLockPkg => ("uLockPkg", some (opBid prog), none)
  | .uClosePkg _ _ => ("uClosePkg", some (opBid prog), none)
  | .iVerify => ("iVerify", some (opBid prog), none)
  | .iRename _ => ("iRename", some (opBid prog), none)
  | .iAddOpen => ("iAddOpen", none, none) | .iAddTouch => ("iAddTouch", none, none) | .iAddLock => ("iAddLock", none, none)
  | .iAddCreate => ("iAddCreate", none, none) | .iAddCreateLock => ("iAddCreateLock", none, none)
  | .iAddClose _ _ _ => ("iAddClose", none, none)
  | .gOpen => ("gOpen", none, none) | .gLock => ("gLock", none, none)
  | .gScanOpen _ todo _ _ => ("gScanOpen", todo.head?.map (·.1), none)
  | .gScanLock _ b _ _ _ _ => ("gScanLock", some b, none)
  | .gMove _ plan _ _ _ => ("gMove", plan.head?.map (·.bid), none)
  | .gClose _ _ => ("gClose", none, none)
  | .bUnlink _ => ("bUnlink", none, none)
  | .bSymlink b => ("bSymlink", some b, none)
  | .done r => ("done", none, some r)

def infoJson : Option (JFile Meta) → Json
  | none => Json.null
  | some .torn => "torn"
  | some (.valid m) => Json.mkObj [("hash", toJson m.hash), ("size", toJson m.size), ("users", toJson m.users)]

def dirJson : Option PkgDir → Json
  | none => Json.null
  | some d => Json.mkObj [("audit", Json.bool d.audit), ("ws", optNat d.ws), ("info", infoJson d.info),
      ("mtime", toJson d.mtime)]

def repoJson : RepoFile → Json
  | .absent => "absent"
  | .torn => "torn"
  | .valid l => Json.arr (l.map fun (b, sz) => Json.arr #[toJson b, toJson sz]).toArray

def natList (j : Json) (k : String) : List Nat :=
  (getArr j k).filterMap fun x => x.getNat?.toOption

def candOf (j : Json) : Cand :=
  match j with
  | .arr a => ⟨(a[0]?.getD Json.null) == Json.bool true, ((a[1]?.getD Json.null).getNat?.toOption).getD 0,
      ((a[2]?.getD Json.null).getNat?.toOption).getD 0, ((a[3]?.getD Json.null).getNat?.toOption).getD 0⟩
  | _ => ⟨false, 0, 0, 0⟩

def handle (se : Sess) (j : Json) : Sess × Json :=
  match getStr j "op" with
  | "reset" => ({ cfg := cfgOf j, s := ⟨emptyStore, []⟩ }, Json.mkObj [("ok", true)])
  | "procs" =>
    ({ se with s := ⟨se.s.g, mkProcs ((getArr j "progs").map progOf)⟩ }, Json.mkObj [("ok", true)])
  | "step" =>
    let p := getNat j "p"
    let bl := blocked se.s p
    let s' := step id se.cfg se.s p
    match s'.procs[p]? with
    | none => (se, err "no-such-process")
    | some pr =>
      let (name, at_, res) := pcJson pr.prog pr.pc
      ({ se with s := s' }, Json.mkObj [("blocked", Json.bool bl), ("pc", name), ("at", optNat at_),
        ("res", match res with | some r => resJson r | none => Json.null), ("pub", Json.bool pr.pub)])
  | "runp" =>
    -- run process p until it is done or blocked (at most `max` segments)
    let p := getNat j "p"
    let rec go (n : Nat) (s : St) : St :=
      match n with
      | 0 => s
      | n + 1 =>
        match s.procs[p]? with
        | none => s
        | some pr => if pr.pc.isDone || blocked s p then s else go n (step id se.cfg s p)
    let s' := go (getNat j "max") se.s
    match s'.procs[p]? with
    | none => (se, err "no-such-process")
    | some pr =>
      let (name, at_, res) := pcJson pr.prog pr.pc
      ({ se with s := s' }, Json.mkObj [("blocked", Json.bool (blocked s' p)), ("pc", name), ("at", optNat at_),
        ("res", match res with | some r => resJson r | none => Json.null), ("pub", Json.bool pr.pub)])
  | "snap" =>
    let g := se.s.g
    let bids := natList j "bids"
    let wss := natList j "wss"
    (se, Json.mkObj [("storeExists", Json.bool g.storeExists), ("repo", repoJson g.repo),
      ("final", Json.arr (bids.map fun b => dirJson (g.final b)).toArray),
      ("links", Json.arr (wss.map fun w => optNat (g.links w)).toArray),
      ("nInst", toJson (bids.map g.nInst)), ("nGc", toJson (bids.map g.nGc))])
  | "select" =>
    let quota := match j.getObjVal? "quota" with
      | .ok .null => none
      | .ok v => v.getNat?.toOption
      | _ => none
    let r := gcSelect quota (getBool j "pruneUnused") ((getArr j "cands").map candOf) (getNat j "total")
    (se, Json.mkObj [("plan", toJson (r.1.map (·.bid))), ("size", toJson r.2.1), ("terr", Json.bool r.2.2)])
  | _ => (se, err "bad-op")

def main : IO Unit := run Sess { cfg := srcCfg, s := ⟨emptyStore, []⟩ } handle
