import BobModel.Model.DigestDriver
/-- driver of C03: same model and protocol as C02 (`BobModel/Model/DigestDriver.lean`) -/
def main : IO Unit := Proto.runPure DigestDriver.handle
