import BobModel.Model.ArchiveIndex
import BobModel.Util.Proto
open Lean Proto Retention ArchiveIndex

/-
requests (self-contained, one world per request):
 {"op":"scan"|"find"|"clean", "repaired":b, "noscan":b, "dry":b, "exprs":[expr], "files":[file], "rows":[row], "refs":[[bid,ref]]}
   expr = {"pred":pred, "limit":n|null, "sortBy":[str], "asc":b}
   pred = {"not":p} | {"and":[l,r]} | {"or":[l,r]} | {"cmp":op,"l":p,"r":p} | {"lit":s} | {"ref":[str]}
   file = {"bid":hex, "stat":hex, "audit":null|{"vars":val,"refs":[hex]}, "deletable":b}
   row  = {"bid":hex, "stat":hex, "vars":val}
   val  = string | object | anything else (= other)
 {"op":"query","exprs":[expr],"rows":[{"bid":hex,"vars":val}]}    rows in iteration order; reply {"ok":[bid sorted]} | {"qerr":kind}
 {"op":"evalbool","pred":pred,"data":val}   {"op":"closure","refs":[[b,r]],"retained":[b]}
replies:
 {"out":{"ok":[bid]}|{"qerr":kind}|{"delerr":bid}, "files":[bid], "rows":[row], "refs":[[bid,ref]]}
-/

instance : Inhabited Val := ⟨.other⟩

partial def valOf (j : Json) : Val :=
  match j with
  | .str s => .str s.toList
  | .obj kvs => .map (kvs.toList.map fun (k, v) => (k.toList, valOf v))
  | _ => .other

partial def valJson (v : Val) : Json :=
  match v with
  | .str s => Json.str (String.ofList s)
  | .map kvs => Json.mkObj (kvs.map fun (k, x) => (String.ofList k, valJson x))
  | .other => Json.null

instance : Inhabited Pred := ⟨.lit []⟩

def opOf (s : String) : CmpOp :=
  match s with
  | "<" => .lt | "<=" => .le | ">" => .gt | ">=" => .ge | "==" => .eq | _ => .ne

def pathOf (j : Json) : List Str := (strList j).map String.toList

partial def predOf (j : Json) : Pred :=
  match j.getObjVal? "not" with
  | .ok a => .not (predOf a)
  | _ => match j.getObjVal? "and" with
    | .ok (.arr a) => .and (predOf a[0]!) (predOf a[1]!)
    | _ => match j.getObjVal? "or" with
      | .ok (.arr a) => .or (predOf a[0]!) (predOf a[1]!)
      | _ => match j.getObjVal? "cmp" with
        | .ok (.str op) => .cmp (opOf op) (predOf (j.getObjValD "l")) (predOf (j.getObjValD "r"))
        | _ => match j.getObjVal? "lit" with
          | .ok (.str s) => .lit s.toList
          | _ => .ref (pathOf (j.getObjValD "ref"))

def exprOf (j : Json) : Expr :=
  { pred := predOf (j.getObjValD "pred"),
    limit := match j.getObjVal? "limit" with
      | .ok v => v.getNat?.toOption
      | _ => none,
    sortBy := pathOf (j.getObjValD "sortBy"),
    asc := getBool j "asc" }

def fileOf (j : Json) : FileEnt :=
  { bid := (getStr j "bid").toList, stat := (getStr j "stat").toList,
    audit := match getObj? j "audit" with
      | none => none
      | some a => some { vars := valOf (a.getObjValD "vars"), refs := (strList (a.getObjValD "refs")).map String.toList },
    deletable := match j.getObjVal? "deletable" with
      | .ok (.bool b) => b
      | _ => true }

def rowOf (j : Json) : Row :=
  { bid := (getStr j "bid").toList, stat := (getStr j "stat").toList, vars := valOf (j.getObjValD "vars") }

def pairOf (j : Json) : Bid × Bid :=
  match j with
  | .arr a => (match a[0]! with | .str s => s.toList | _ => [], match a[1]! with | .str s => s.toList | _ => [])
  | _ => ([], [])

def worldOf (j : Json) : World :=
  { files := (getArr j "files").map fileOf,
    idx := { rows := (getArr j "rows").map rowOf, refs := (getArr j "refs").map pairOf } }

def errName : QErr → String
  | .opInStringCtx => "opInStringCtx" | .strInBoolCtx => "strInBoolCtx" | .refInBoolCtx => "refInBoolCtx"
  | .cmpUnsupported => "cmpUnsupported" | .invalidFieldRef => "invalidFieldRef"

def bidsJson (l : List Bid) : Json := Json.arr (l.map fun b => Json.str (String.ofList b)).toArray

def outJson : Outcome → Json
  | .ok l => Json.mkObj [("ok", bidsJson l)]
  | .queryError e => Json.mkObj [("qerr", Json.str (errName e))]
  | .deleteError b => Json.mkObj [("delerr", Json.str (String.ofList b))]

def worldJson (w : World) (out : Json) : Json :=
  Json.mkObj [
    ("out", out),
    ("files", bidsJson (w.files.map fun f => f.bid)),
    ("rows", Json.arr ((sortedRows w.idx.rows).map fun r =>
      Json.mkObj [("bid", Json.str (String.ofList r.bid)), ("stat", Json.str (String.ofList r.stat)), ("vars", valJson r.vars)]).toArray),
    ("refs", Json.arr (w.idx.refs.map fun p =>
      Json.arr #[Json.str (String.ofList p.1), Json.str (String.ofList p.2)]).toArray)]

def badLimit (es : List Expr) : Bool := es.any fun e => e.limit == some 0

def main : IO Unit := runPure fun j =>
  let rep := getBool j "repaired"
  let es := (getArr j "exprs").map exprOf
  match getStr j "op" with
  | "scan" => let w := scanCmd rep (worldOf j); worldJson w (Json.mkObj [("ok", Json.arr #[])])
  | "find" =>
    if badLimit es then err "badLimit" else
    let (w, o) := findCmd rep (getBool j "noscan") es (worldOf j)
    worldJson w (outJson o)
  | "clean" =>
    if badLimit es then err "badLimit" else
    let (w, o) := cleanCmd rep (getBool j "noscan") (getBool j "dry") es (worldOf j)
    worldJson w (outJson o)
  | "query" =>
    if badLimit es then err "badLimit" else
    match query es ((getArr j "rows").map fun r => ((getStr r "bid").toList, valOf (r.getObjValD "vars"))) with
    | .ok l => Json.mkObj [("ok", bidsJson (findOut l))]
    | .error e => Json.mkObj [("qerr", Json.str (errName e))]
  | "evalbool" =>
    match evalBool (predOf (j.getObjValD "pred")) (valOf (j.getObjValD "data")) with
    | .ok b => Json.mkObj [("ok", Json.bool b)]
    | .error e => Json.mkObj [("qerr", Json.str (errName e))]
  | "closure" =>
    Json.mkObj [("ok", bidsJson (findOut (closure ((getArr j "refs").map pairOf) ((strList (j.getObjValD "retained")).map String.toList))))]
  | _ => err "bad-op"
