import BobModel.Model.ArchiveFS
import BobModel.Util.Proto
open Lean Proto ArchiveFS

/-
request:
 {"op":"run",
  "procs":[{"kind":"package"|"mirror"|"buildid"|"fprnt"|"reader","payload":[n..],"nPack":n,"consumed":n,"fileMode":b}, ..],
  "sched":[[pid,"run"|"fail"|"kill"|"failFetch"], ..]}
Every schedule entry drives ONE visible operation of `pid` through `ArchiveFS.step`.  Operations without
a system call of their own are taken silently first: `statDest` of an overwriting upload, `fetch k`
(producing the next chunk), a `flush` with nothing buffered.  "failFetch" lets the pending `fetch` raise.
reply: {"events":[{"pid","pre","choice","post","app":[chunks appended to the process' inode]}..],
        "final":{"art":inode|null,"buildid":..,"fprnt":..,"tmp":[[k,inode]..],"dir":b,
                 "procs":[{"pc","killed","linked","created","tmp","acc"}..]}}
-/

def kindOf (s : String) : Kind :=
  match s with
  | "package" => .package
  | "mirror" => .mirror
  | "buildid" => .md .buildid
  | "fprnt" => .md .fprnt
  | _ => .reader

def natList (j : Json) (k : String) : List Nat :=
  (getArr j k).map fun x => (x.getNat?.toOption).getD 0

def paramsOf (j : Json) : Params :=
  { kind := kindOf (getStr j "kind"), payload := natList j "payload", nPack := getNat j "nPack",
    consumed := getNat j "consumed", fileMode := getBool j "fileMode" }

def idle : Params := { kind := .reader, payload := [], nPack := 0, consumed := 0, fileMode := false }

def progOf (ps : List Params) : Pid → Params := fun p => ps.getD p idle

def lsName : LinkSt → String
  | .linked => "linked" | .lost => "lost" | .err => "err"

def resName : Result → String
  | .ok => "ok" | .skipped => "skipped" | .lost => "lost" | .failed => "failed"
  | .notFound => "notFound" | .read => "read"

def pcName : PC → String
  | .mOpen => "mOpen" | .statDest => "statDest" | .ensureDir => "ensureDir" | .create => "create"
  | .fetch k => s!"fetch:{k}" | .write k => s!"write:{k}" | .flush => "flush"
  | .close ok => s!"close:{ok}" | .chmod => "chmod" | .publish => "publish"
  | .unlink st => "unlink:" ++ lsName st | .fClose => "fClose" | .fUnlink => "fUnlink"
  | .rOpen => "rOpen" | .rRead k => s!"rRead:{k}" | .done r => "done:" ++ resName r

def silent (pr : Params) (pc : PC) (stopAtFetch : Bool) : Bool :=
  match pc with
  | .statDest => overwrite pr.kind
  | .fetch _ => !stopAtFetch
  | .flush => ((written pr).drop pr.nPack).isEmpty
  | _ => false

/-- take silent steps of `p` (at most `fuel`) -/
def advance (prog : Pid → Params) (stopAtFetch : Bool) : Nat → State → Pid → State
  | 0, s, _ => s
  | fuel + 1, s, p =>
    if (s.procs p).killed then s
    else if silent (prog p) (s.procs p).pc stopAtFetch then advance prog stopAtFetch fuel (step prog s p .run) p
    else s

def jnat (n : Nat) : Json := Json.num (JsonNumber.fromNat n)

def natsJson (l : List Nat) : Json := Json.arr (l.map jnat).toArray

def inodeJson (n : Inode) : Json :=
  Json.mkObj [("chunks", natsJson n.chunks), ("closed", Json.bool n.closed), ("mode", Json.bool n.mode),
    ("owner", jnat n.owner)]

def nameJson (s : State) (n : ArchiveFS.Name) : Json :=
  match s.names n with
  | none => Json.null
  | some i => Json.mkObj [("ino", jnat i), ("inode", inodeJson (s.inodes i))]

def procJson (q : Proc) : Json :=
  Json.mkObj [("pc", Json.str (pcName q.pc)), ("killed", Json.bool q.killed), ("linked", Json.bool q.linked),
    ("created", Json.bool q.created), ("tmp", jnat q.tmp), ("acc", natsJson q.acc)]

def finalJson (s : State) (n : Nat) : Json :=
  let tmps := (List.range s.nextTmp).filterMap fun k =>
    match s.names (.tmp k) with
    | none => none
    | some i => some (Json.arr #[jnat k, Json.mkObj [("ino", jnat i), ("inode", inodeJson (s.inodes i))]])
  Json.mkObj [("art", nameJson s .art), ("buildid", nameJson s (.md .buildid)), ("fprnt", nameJson s (.md .fprnt)),
    ("tmp", Json.arr tmps.toArray), ("dir", Json.bool s.dirExists),
    ("procs", Json.arr ((List.range n).map fun p => procJson (s.procs p)).toArray)]

def runSched (prog : Pid → Params) : List Json → State → List Json → State × List Json
  | [], s, acc => (s, acc.reverse)
  | e :: rest, s, acc =>
    match e with
    | .arr a =>
      let p := ((a.getD 0 Json.null).getNat?.toOption).getD 0
      let ch := match a.getD 1 Json.null with | .str c => c | _ => "run"
      let s0 := if ch == "kill" then s else advance prog (ch == "failFetch") 1000 s p
      let c : Choice := if ch == "kill" then .kill else if ch == "run" then .run else .fail
      let pre := (s0.procs p).pc
      let preIno := (s0.procs p).ino
      let s1 := step prog s0 p c
      let before := if (s0.procs p).created then (s0.inodes preIno).chunks.length else 0
      let post := s1.procs p
      let app := if post.created then (s1.inodes post.ino).chunks.drop before else []
      let ev := Json.mkObj [("pid", jnat p), ("pre", Json.str (pcName pre)), ("choice", Json.str ch),
        ("post", Json.str (pcName post.pc)), ("app", natsJson app), ("killed", Json.bool (s0.procs p).killed)]
      runSched prog rest s1 (ev :: acc)
    | _ => runSched prog rest s acc

def main : IO Unit := runPure fun j =>
  match getStr j "op" with
  | "run" =>
    let ps := (getArr j "procs").map paramsOf
    let prog := progOf ps
    let (s, evs) := runSched prog (getArr j "sched") (init prog) []
    Json.mkObj [("events", Json.arr evs.toArray), ("final", finalJson s ps.length)]
  | _ => err "bad-op"
