import BobModel.Util.Sha1
import BobModel.Util.Proto
open Lean Proto
/-- driver self test: {"op":"sha1"|"adler32","hex":...} -/
def main : IO Unit := runPure fun j =>
  let b := hexBytes j "hex"
  match getStr j "op" with
  | "sha1" => Json.str (Bytes.toHex (Sha1.hashBytes b))
  | "adler32" => Json.num (Adler32.adler32 b)
  | _ => err "bad-op"
