import BobModel.Model.Dirs
import BobModel.Model.Clean
import BobModel.Util.Proto
open Lean Proto BobDirs BobClean

/-
requests (one JSON object per line):
 {"op":"refresh","old":[[key,dir],..],"visits":[[recipeHex,vidHex,baseDir],..]}
     -> {"table":[[key,dir],..],"kept":n}                      key = recipeHex ++ vidHex (hex of the sqlite key)
 {"op":"byname","state":[[key,null|n,dir,isSrc],..],"calls":[[baseDir,digest,isSrc],..]}
     -> {"paths":[..],"state":[..],"all":[[dir,isSrc],..]} | {"err":"typeError"}
 {"op":"existing","state":[..],"digest":d} -> {"dir": s|null} | {"err":..}
 {"op":"base","mode":"develop"|"release","label":l,"name":n} -> {"base":s}
 {"op":"clean","mode":m,"src":b,"force":b,"dryRun":b,"verbose":b,"root":id,"fuel":n,
    "pkgs":[{"id":n,"co":[valid,path|null,vid],"b":[..],"p":[..],"deps":[ids]}],
    "states":[[path,"src"|"build"|"pkg",vid],..],"byname":[[dir,isSrc],..],"attic":[..],
    "existing":[..],"expendable":[..],"atticExpendable":[..]}
     -> {"used":[..],"del":[..],"ops":[[kind,path],..],"states":[..],"existing":[..],"attic":[..]} | {"err":"fuel"}
 {"op":"prune","kind":"build","created":b,"present":b,"force":b,"old":s|null,"new":s,"stored":s|null,"inputs":s}
 {"op":"prune","kind":"package","there":b,"fileOrLink":b,"old":s|null,"new":s}
     -> {"ops":[..]}
-/

def jstr (s : Str) : Json := Json.str (String.ofList s)

def optStr (j : Json) : Option Str :=
  match j with
  | .str s => some s.toList
  | _ => none

def arrOf (j : Json) : List Json :=
  match j with
  | .arr a => a.toList
  | _ => []

def nth (l : List Json) (i : Nat) : Json := (l[i]?).getD Json.null

def jBool (j : Json) : Bool :=
  match j with
  | .bool b => b
  | _ => false

def jStr (j : Json) : Str :=
  match j with
  | .str s => s.toList
  | _ => []

def pairs (j : Json) (k : String) : List (Str × Str) :=
  (getArr j k).map fun e => let a := arrOf e; (jStr (nth a 0), jStr (nth a 1))

def tableJson (t : Table) : Json :=
  Json.arr (t.map fun kv => Json.arr #[jstr kv.1, jstr kv.2]).toArray

def bynameOf (j : Json) (k : String) : ByName :=
  (getArr j k).map fun e =>
    let a := arrOf e
    match nth a 1 with
    | .null => (jStr (nth a 0), BVal.dir (jStr (nth a 2)) (jBool (nth a 3)))
    | n => (jStr (nth a 0), BVal.num ((n.getNat?.toOption).getD 0))

def bynameJson (s : ByName) : Json :=
  Json.arr (s.map fun kv => match kv.2 with
    | .num n => Json.arr #[jstr kv.1, Json.num n, Json.null, Json.null]
    | .dir p b => Json.arr #[jstr kv.1, Json.null, jstr p, Json.bool b]).toArray

def stepOf (j : Json) : Step :=
  let a := arrOf j
  { valid := jBool (nth a 0), path := optStr (nth a 1), vid := jStr (nth a 2) }

def pkgOf (j : Json) : Pkg :=
  { id := getNat j "id", checkout := stepOf (j.getObjValD "co"), build := stepOf (j.getObjValD "b"),
    package := stepOf (j.getObjValD "p"),
    deps := (getArr j "deps").map fun d => (d.getNat?.toOption).getD 0 }

def statesOf (j : Json) (k : String) : States :=
  (getArr j k).map fun e =>
    let a := arrOf e
    let p := jStr (nth a 0)
    match nth a 1 with
    | .str "src" => (p, DirState.src)
    | .str "build" => (p, DirState.build (jStr (nth a 2)))
    | _ => (p, DirState.pkg (jStr (nth a 2)))

def statesJson (s : States) : Json :=
  Json.arr (s.map fun kv => match kv.2 with
    | .src => Json.arr #[jstr kv.1, Json.str "src", Json.str ""]
    | .build v => Json.arr #[jstr kv.1, Json.str "build", jstr v]
    | .pkg v => Json.arr #[jstr kv.1, Json.str "pkg", jstr v]).toArray

def strsOf (j : Json) (k : String) : List Str := (getArr j k).map jStr
def strsJson (l : List Str) : Json := Json.arr (l.map jstr).toArray

def opJson : Op → Json
  | .print d => Json.arr #[Json.str "print", jstr d]
  | .rm d => Json.arr #[Json.str "rm", jstr d]
  | .delState d => Json.arr #[Json.str "delState", jstr d]
  | .delAttic d => Json.arr #[Json.str "delAttic", jstr d]

def prepJson : PrepOp Str → Json
  | .invalidate => Json.str "invalidate"
  | .unlink => Json.str "unlink"
  | .emptyDir => Json.str "emptyDir"
  | .resetState d => Json.arr #[Json.str "resetState", jstr d]
  | .run => Json.str "run"
  | .skip => Json.str "skip"

def modeOf (s : String) : Mode :=
  match s with
  | "release" => .release
  | "attic" => .attic
  | _ => .develop

def main : IO Unit := runPure fun j =>
  match getStr j "op" with
  | "refresh" =>
    let old := pairs j "old"
    let visits : List (Key × Str) := (getArr j "visits").map fun e =>
      let a := arrOf e
      (mkKey (jStr (nth a 0)) (jStr (nth a 1)), jStr (nth a 2))
    let c := collect old visits
    match writeBack c with
    | none => Json.mkObj [("err", Json.str "fuel")]
    | some t => Json.mkObj [("table", tableJson t), ("kept", Json.num c.known.length)]
  | "byname" =>
    let calls : List Call := (getArr j "calls").map fun e =>
      let a := arrOf e
      { base := jStr (nth a 0), digest := jStr (nth a 1), isSrc := jBool (nth a 2) }
    match runCalls (bynameOf j "state") calls with
    | .error _ => Json.mkObj [("err", Json.str "typeError")]
    | .ok (s, ps) =>
      Json.mkObj [("paths", strsJson ps), ("state", bynameJson s),
        ("all", Json.arr ((allNameDirs s).map fun d => Json.arr #[jstr d.1, Json.bool d.2]).toArray)]
  | "existing" =>
    match getExisting (bynameOf j "state") (getStr j "digest").toList with
    | .error _ => Json.mkObj [("err", Json.str "typeError")]
    | .ok none => Json.mkObj [("dir", Json.null)]
    | .ok (some p) => Json.mkObj [("dir", jstr p)]
  | "base" =>
    let l := (getStr j "label").toList
    let n := (getStr j "name").toList
    Json.mkObj [("base", jstr (if getStr j "mode" == "release" then releaseBase l n else developBase l n))]
  | "clean" =>
    let o : Opts := { mode := modeOf (getStr j "mode"), src := getBool j "src", force := getBool j "force",
                      dryRun := getBool j "dryRun", verbose := getBool j "verbose" }
    let w : World := { states := statesOf j "states",
                       byName := (getArr j "byname").map fun e => let a := arrOf e; (jStr (nth a 0), jBool (nth a 1)),
                       attic := strsOf j "attic", existing := strsOf j "existing",
                       expendable := strsOf j "expendable", atticExpendable := strsOf j "atticExpendable" }
    let g : Graph := (getArr j "pkgs").map pkgOf
    match doClean o w g (getNat j "fuel") (getNat j "root") with
    | none => Json.mkObj [("err", Json.str "fuel")]
    | some r =>
      Json.mkObj [("used", strsJson r.used), ("del", strsJson r.del),
        ("ops", Json.arr (r.ops.map opJson).toArray), ("states", statesJson r.world.states),
        ("existing", strsJson r.world.existing), ("attic", strsJson r.world.attic)]
  | "prune" =>
    let old := optStr (j.getObjValD "old")
    let new := (getStr j "new").toList
    let ops : List (PrepOp Str) :=
      if getStr j "kind" == "build" then
        cookBuild (getBool j "created") (getBool j "present") (getBool j "force") old new
          (optStr (j.getObjValD "stored")) (getStr j "inputs").toList
      else preparePackage (getBool j "there") (getBool j "fileOrLink") old new
    Json.mkObj [("ops", Json.arr (ops.map prepJson).toArray)]
  | _ => err "bad-op"
