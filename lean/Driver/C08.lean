import BobModel.Model.TarExtract
import BobModel.Util.Proto
open Lean Proto TarExtract

/-
requests
 {"op":"extract", "setup":bool, "cfg":{"fuel":n,"current":true} (dispatch of the current source, Cfg.current) | {"fuel":n,"nofilter":b,"canon":b,"parent":b,"lnk":0|1|2},
  "names":[{"p":[comp..],"t":"dir","mode":n} | {"p":[..],"t":"ref","ino":n}],
  "inodes":[{"ino":n,"t":"file","data":s,"mode":n} | {"ino":n,"t":"sym","target":s,"mode":n} | {"ino":n,"t":"fifo"|"chr","mode":n}],
  "next":n, "dest":[comp..], "audit":[comp..], "vsn": s|null,
  "members":[{"name":s,"type":"reg|dir|sym|lnk|fifo|chr","link":s,"mode":n,"data":s}]}
   setup=true: TarHelper._extract (removePath audit/content, makedirs, __extractPackage); false: __extractPackage only
 -> {"out":"ok"|"err:<kind>", "names":[...], "inodes":[...]}   (same encoding, only inodes that a name refers to)
 {"op":"dispatch","cfg":..,"member":{..}} -> {"ok":"content","name":s,"link":s} | {"ok":"audit"|"skip"} | {"err":kind}
 {"op":"pack","auditBase":s,"rels":[member..]} -> {"members":[..]}
 {"op":"accept","wasDownloaded":b,"auditExists":b,"auditHash":s,"workspaceHash":s} -> {"ok":s|null} | {"err":"missingAudit"|"corrupt"}
 {"op":"realpath","names":..,"inodes":..,"path":[..],"strict":b,"follow":b,"fuel":n} -> {"ok":[..]} | {"err":kind}
-/

def pathOf (j : Json) (k : String) : List TarExtract.Name := (strList (j.getObjValD k)).map String.toList

def cfgOf (j : Json) : Cfg :=
  let c := j.getObjValD "cfg"
  if getBool c "current" then Cfg.current (getNat c "fuel") else
  { fuel := getNat c "fuel", filter := !(getBool c "nofilter"), canonNames := getBool c "canon", parentCheck := getBool c "parent",
    lnkCheck := getNat c "lnk" }

def fsOf (j : Json) : FS :=
  let names := (getArr j "names").filterMap fun e =>
    let p := pathOf e "p"
    match getStr e "t" with
    | "dir" => some (p, Entry.dir (getNat e "mode"))
    | "ref" => some (p, Entry.ref (getNat e "ino"))
    | _ => none
  let inodes := (getArr j "inodes").filterMap fun e =>
    let md := getNat e "mode"
    match getStr e "t" with
    | "file" => some (getNat e "ino", (⟨Obj.file (getStr e "data").toList, md⟩ : Inode))
    | "sym" => some (getNat e "ino", ⟨Obj.symlink (getStr e "target").toList, md⟩)
    | "fifo" => some (getNat e "ino", ⟨Obj.fifo, md⟩)
    | "chr" => some (getNat e "ino", ⟨Obj.chr, md⟩)
    | _ => none
  { names := names, inodes := inodes, next := getNat j "next" }

def mtypeOf : String → MType
  | "dir" => .dir | "sym" => .sym | "lnk" => .lnk | "fifo" => .fifo | "chr" => .chr | _ => .reg

def mtypeName : MType → String
  | .reg => "reg" | .dir => "dir" | .sym => "sym" | .lnk => "lnk" | .fifo => "fifo" | .chr => "chr"

def memberOf (e : Json) : Member :=
  { name := (getStr e "name").toList, type := mtypeOf (getStr e "type"), linkname := (getStr e "link").toList,
    mode := getNat e "mode", data := (getStr e "data").toList }

def memberJson (m : Member) : Json :=
  Json.mkObj [("name", Json.str (String.ofList m.name)), ("type", Json.str (mtypeName m.type)),
              ("link", Json.str (String.ofList m.linkname)), ("mode", Json.num m.mode), ("data", Json.str (String.ofList m.data))]

def errName : Err → String
  | .unsupportedArtifact => "unsupportedArtifact" | .invalidHardLink => "invalidHardLink" | .unknownFile => "unknownFile"
  | .filter => "filter" | .filterName => "filterName" | .filterParent => "filterParent" | .filterLink => "filterLink"
  | .oserror => "oserror" | .keyerror => "keyerror" | .streamerror => "streamerror" | .internal => "internal"
  | .unsupported => "unsupported"

def pathJson (p : Path) : Json := Json.arr (p.map fun c => Json.str (String.ofList c)).toArray

def fsJson (fs : FS) : List (String × Json) :=
  let names := fs.names.map fun (p, e) =>
    match e with
    | .dir m => Json.mkObj [("p", pathJson p), ("t", Json.str "dir"), ("mode", Json.num m)]
    | .ref i => Json.mkObj [("p", pathJson p), ("t", Json.str "ref"), ("ino", Json.num i)]
  let used := fs.names.filterMap fun (_, e) => match e with | .ref i => some i | _ => none
  let inodes := (fs.inodes.filter fun (i, _) => used.contains i).map fun (i, o) =>
    match o.obj with
    | .file d => Json.mkObj [("ino", Json.num i), ("t", Json.str "file"), ("data", Json.str (String.ofList d)), ("mode", Json.num o.mode)]
    | .symlink t => Json.mkObj [("ino", Json.num i), ("t", Json.str "sym"), ("target", Json.str (String.ofList t)), ("mode", Json.num o.mode)]
    | .fifo => Json.mkObj [("ino", Json.num i), ("t", Json.str "fifo"), ("mode", Json.num o.mode)]
    | .chr => Json.mkObj [("ino", Json.num i), ("t", Json.str "chr"), ("mode", Json.num o.mode)]
  [("names", Json.arr names.toArray), ("inodes", Json.arr inodes.toArray)]

def werrName : WErr → String
  | .enoent => "enoent" | .enotdir => "enotdir" | .eloop => "eloop"

def main : IO Unit := runPure fun j =>
  match getStr j "op" with
  | "extract" =>
    let cfg := cfgOf j
    let fs := fsOf j
    let vsn : Option Str := match j.getObjVal? "vsn" with | .ok (.str s) => some s.toList | _ => none
    let ms := (getArr j "members").map memberOf
    let st := if getBool j "setup" then extractAll cfg (pathOf j "dest") (pathOf j "audit") vsn fs ms
              else extractPackage cfg (pathOf j "dest") (pathOf j "audit") vsn fs ms
    let out := match st.err with | none => "ok" | some e => "err:" ++ errName e
    Json.mkObj (("out", Json.str out) :: fsJson st.fs)
  | "dispatch" =>
    match dispatch (cfgOf j) (memberOf (j.getObjValD "member")) with
    | .error e => Json.mkObj [("err", Json.str (errName e))]
    | .ok .audit => Json.mkObj [("ok", Json.str "audit")]
    | .ok .skip => Json.mkObj [("ok", Json.str "skip")]
    | .ok (.content m) => Json.mkObj [("ok", Json.str "content"), ("name", Json.str (String.ofList m.name)), ("link", Json.str (String.ofList m.linkname))]
  | "pack" =>
    let ms := packMembers (getStr j "auditBase").toList (getStr j "auditData").toList ((getArr j "rels").map memberOf)
    Json.mkObj [("members", Json.arr (ms.map memberJson).toArray)]
  | "accept" =>
    let o : DlObs String := ⟨getBool j "wasDownloaded", getBool j "auditExists", getStr j "auditHash", getStr j "workspaceHash"⟩
    match acceptDownload o with
    | .ok (some h) => Json.mkObj [("ok", Json.str h)]
    | .ok none => Json.mkObj [("ok", Json.null)]
    | .error .missingAudit => Json.mkObj [("err", Json.str "missingAudit")]
    | .error .corrupt => Json.mkObj [("err", Json.str "corrupt")]
  | "realpath" =>
    match walk (fsOf j) (getBool j "strict") (getBool j "follow") (getNat j "fuel") [] (pathOf j "path") with
    | .ok p => Json.mkObj [("ok", pathJson p)]
    | .error e => Json.mkObj [("err", Json.str (werrName e))]
  | _ => err "bad-op"
