import BobModel.Model.DigestDriver
/-- driver of C02: see `BobModel/Model/DigestDriver.lean` for the protocol -/
def main : IO Unit := Proto.runPure DigestDriver.handle
