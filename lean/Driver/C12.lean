import BobModel.Model.Checkout
import BobModel.Model.GitSwitch
import BobModel.Util.Proto
open Lean Proto

/-
Driver of C12.  Stateful per history (the builder state `St` is kept between requests).

requests (one JSON object per line):
 {"op":"cansw","old":spec,"new":spec}                                   -> {"ok":bool}
 {"op":"taints","flags":["modified",...]}                               -> {"dirty":b,"expendable":b}
 {"op":"order","dirs":[..],"moved":[..],"query":[..]}                   -> {"sorted":[..],"affected":[..]}
 {"op":"git","dag":D,"univ":U,"repo":R,"mode":"switch"|"update"|"fresh","old":spec?,"new":spec}
                                                                         -> {"ok":b,"repo":R}
 {"op":"status","dag":D,"repo":R,"spec":spec,"extra":b}                 -> {"flags":[..]}
 {"op":"begin"}                                                         -> {"ok":true}
 {"op":"sync","contents":[{"loc":L,"content":C}],"plain":[[comp]]}      -> {"ok":true}   (contents of existing dirs)
 {"op":"dev","dag":D,"univ":U,"files":F,"imports":[..],"new":[spec],"clean":b,"attic":b} -> state + error
 {"op":"clean","mode":"src"|"attic","dry":b,"dag":D}                     -> state
 spec  = {"scm":"git","url","branch","tag","commit":nat?,"dir","submodules","ubc"}
       | {"scm":"url","url","sha1","sha256","dir","fileName","extract","strip","fileMode":nat?,"sep"}
       | {"scm":"import","url","dir","prune"}
 R     = {"objs":[n],"heads":{n:c},"remotes":{},"tags":{},"head":{"branch":n}|{"detached":c},
          "dirty":[[p,b]],"untracked":[[p,b]],"url":s?}
 D     = {"parents":[[c,[p..]]],"trees":[[c,[[path,blob]]]]}
 U     = {url:{"branches":{n:c},"tags":{n:c}}}
 L     = {"ws":[comp]} | {"attic":n,"sub":[comp]}
 C     = {"git":R,"extra":b} | {"file":sha1,"name":s} | {"other":true}
-/

open GitSwitch Checkout

structure UrlSpec where
  url : String
  sha1 : Option String
  sha256 : Option String
  dir : String
  fileName : String
  extract : String
  strip : Nat
  fileMode : Option Nat
  sep : Bool
  deriving Repr, BEq

structure ImpSpec where
  url : String
  dir : String
  prune : Bool
  deriving Repr, BEq

inductive Spec
  | git (s : GitSpec)
  | url (s : UrlSpec)
  | imp (s : ImpSpec)

inductive Content
  | git (r : Repo) (extra : Bool)
  | file (sha1 : String) (name : String)
  | other

def optStr (j : Json) (k : String) : Option String :=
  match j.getObjVal? k with
  | .ok (.str s) => some s
  | _ => none

def optNat (j : Json) (k : String) : Option Nat :=
  match j.getObjVal? k with
  | .ok v => v.getNat?.toOption
  | _ => none

def specOf (j : Json) : Spec :=
  match getStr j "scm" with
  | "git" => .git { url := getStr j "url", branch := optStr j "branch", tag := optStr j "tag",
                    commit := optNat j "commit", useBranchAndCommit := getBool j "ubc",
                    submodules := getBool j "submodules", dir := getStr j "dir" }
  | "url" => .url { url := getStr j "url", sha1 := optStr j "sha1", sha256 := optStr j "sha256",
                    dir := getStr j "dir", fileName := getStr j "fileName", extract := getStr j "extract",
                    strip := getNat j "strip", fileMode := optNat j "fileMode", sep := getBool j "sep" }
  | _ => .imp { url := getStr j "url", dir := getStr j "dir", prune := getBool j "prune" }

def Spec.dir : Spec → String
  | .git s => s.dir
  | .url s => s.dir
  | .imp s => s.dir

def kvNat (j : Json) : List (String × Nat) :=
  match j with
  | .obj kvs => kvs.toList.filterMap fun (k, v) => (v.getNat?.toOption).map fun n => (k, n)
  | _ => []

def pairList (j : Json) : List (String × Nat) :=
  match j with
  | .arr a => a.toList.filterMap fun x => match x with
    | .arr p => match p.toList with
      | [.str s, n] => (n.getNat?.toOption).map fun n => (s, n)
      | _ => none
    | _ => none
  | _ => []

def natList (j : Json) : List Nat :=
  match j with
  | .arr a => a.toList.filterMap fun x => x.getNat?.toOption
  | _ => []

def repoOf (j : Json) : Repo :=
  let h := j.getObjValD "head"
  { objs := natList (j.getObjValD "objs"),
    heads := kvNat (j.getObjValD "heads"),
    remotes := kvNat (j.getObjValD "remotes"),
    tags := kvNat (j.getObjValD "tags"),
    head := match optStr h "branch" with
      | some b => .branch b
      | none => .detached (getNat h "detached"),
    dirty := pairList (j.getObjValD "dirty"),
    untracked := pairList (j.getObjValD "untracked"),
    url := optStr j "url" }

def kvJson (l : List (String × Nat)) : Json := Json.mkObj (l.map fun (k, v) => (k, Json.num v))
def pairsJson (l : List (String × Nat)) : Json := Json.arr (l.map fun (k, v) => Json.arr #[Json.str k, Json.num v]).toArray

def repoJson (r : Repo) : Json :=
  Json.mkObj [
    ("heads", kvJson r.heads), ("remotes", kvJson r.remotes), ("tags", kvJson r.tags),
    ("head", match r.head with
      | .branch b => Json.mkObj [("branch", Json.str b)]
      | .detached c => Json.mkObj [("detached", Json.num c)]),
    ("headCommit", match r.headCommit with | some c => Json.num c | none => Json.null),
    ("dirty", pairsJson r.dirty), ("untracked", pairsJson r.untracked),
    ("url", match r.url with | some u => Json.str u | none => Json.null)]

def dagOf (j : Json) : Dag :=
  { parents := (getArr j "parents").filterMap fun x => match x with
      | .arr p => match p.toList with
        | [c, ps] => (c.getNat?.toOption).map fun c => (c, natList ps)
        | _ => none
      | _ => none,
    trees := (getArr j "trees").filterMap fun x => match x with
      | .arr p => match p.toList with
        | [c, t] => (c.getNat?.toOption).map fun c => (c, pairList t)
        | _ => none
      | _ => none }

def univOf (j : Json) : List (String × Upstream) :=
  match j with
  | .obj kvs => kvs.toList.map fun (u, v) =>
      (u, { branches := kvNat (v.getObjValD "branches"), tags := kvNat (v.getObjValD "tags") })
  | _ => []

def compsOf (j : Json) : Comps := strList j

def locOf (j : Json) : Loc :=
  match j.getObjVal? "ws" with
  | .ok w => .ws (compsOf w)
  | _ => .attic (getNat j "attic") (compsOf (j.getObjValD "sub"))

def locJson : Loc → Json
  | .ws p => Json.mkObj [("ws", Json.arr (p.map Json.str).toArray)]
  | .attic n p => Json.mkObj [("attic", Json.num n), ("sub", Json.arr (p.map Json.str).toArray)]

def contentOf (j : Json) : Content :=
  match j.getObjVal? "git" with
  | .ok r => .git (repoOf r) (getBool j "extra")
  | _ => match optStr j "file" with
    | some h => .file h (getStr j "name")
    | none => .other

def contentJson : Content → Json
  | .git r _ => Json.mkObj [("git", repoJson r)]
  | .file h n => Json.mkObj [("file", Json.str h), ("name", Json.str n)]
  | .other => Json.mkObj [("other", Json.bool true)]

/-! SCM semantics of the three kinds -/

structure World where
  dag : Dag
  univ : List (String × Upstream)
  files : List (String × String)       -- url ↦ sha1 of the file served there
  files256 : List (String × String)
  imports : List String                -- import source directories that exist

def urlDeterministic (s : UrlSpec) : Bool := s.sha1.isSome || s.sha256.isSome

/-- `UrlScm.canSwitch` -/
def urlCanSwitch (o n : UrlSpec) : Bool :=
  if o.sep != n.sep then false else
  let urlDiff := o.url != n.url && !(urlDeterministic n && o.sha1 == n.sha1 && o.sha256 == n.sha256)
  !(urlDiff || o.dir != n.dir || o.fileName != n.fileName || o.extract != n.extract || o.strip != n.strip)

/-- `asDigestScript` of the three kinds; `commitHex` maps commit numbers back to ids -/
def digestScript (commitHex : Nat → String) : Spec → String
  | .git s =>
    (match s.commit with
     | some c => commitHex c ++ " " ++ s.dir
     | none => match s.tag with
       | some t => s.url ++ " refs/tags/" ++ t ++ " " ++ s.dir
       | none => s.url ++ " refs/heads/" ++ s.branch.getD "master" ++ " " ++ s.dir) ++
    (if s.submodules then " submodules" else "")
  | .url s =>
    (s.sha256.getD (s.sha1.getD s.url)) ++ " " ++
      -- posixpath.join(dir, fileName)
      (if s.dir == "" then s.fileName else if s.dir.endsWith "/" then s.dir ++ s.fileName
       else s.dir ++ "/" ++ s.fileName) ++ " " ++ s.extract ++
      (if s.strip > 0 then " s" ++ toString s.strip else "") ++
      (match s.fileMode with | some m => " m" ++ toString m | none => "") ++
      (if s.sep then " sep" else "")
  | .imp s => s.url ++ " " ++ s.dir

def sem (w : World) : ScmSem Spec Content where
  canSwitch o n :=
    match o, n with
    | .git o, .git n => GitSwitch.canSwitch o n
    | .url o, .url n => urlCanSwitch o n
    | _, _ => false
  switch o n k :=
    match o, n, k with
    | .git o, .git n, .git r x =>
      let res := switchAct (modelOps w.dag w.univ) o n r
      (.git res.1 x, res.2)
    | .url _, .url _, k => (k, true)
    | _, _, k => (k, false)
  invoke s k :=
    match s with
    | .git s =>
      let (r0, x) := match k with
        | some (.git r x) => (r, x)
        | _ => (Repo.init, false)
      let res := invokeAct (modelOps w.dag w.univ) s false r0
      (.git res.1 x, res.2)
    | .url s =>
      let present : Option String := match k with
        | some (.file h n) => if n == s.fileName then some h else none
        | _ => none
      let got : Option String :=
        match present with
        | some h => if urlDeterministic s then some h else some ((assoc w.files s.url).getD h)
        | none => assoc w.files s.url
      match got with
      | none => ((k.getD .other), false)
      | some h =>
        let ok1 := match s.sha1 with | some d => d == h | none => true
        -- sha256 is checked against the sha256 table of the universe (keyed by sha1)
        let ok2 := match s.sha256 with | some d => (assoc w.files256 h) == some d | none => true
        (.file h s.fileName, ok1 && ok2)
    | .imp s => (.other, w.imports.contains s.url)
  dirty s k :=
    match s, k with
    | .git s, some (.git r x) => (status w.dag s x r).dirty
    | .git _, _ => true
    | _, _ => false
  expendable s k :=
    match s, k with
    | .git s, some (.git r x) => (status w.dag s x r).expendable
    | .git _, _ => false
    | _, _ => true
  prunes s := match s with | .imp s => s.prune | _ => false

def deterministic : Spec → Bool
  | .git s => s.tag.isSome || s.commit.isSome
  | .url s => urlDeterministic s
  | .imp _ => false

def worldOf (j : Json) : World :=
  { dag := dagOf (j.getObjValD "dag"), univ := univOf (j.getObjValD "univ"),
    files := match j.getObjValD "files" with
      | .obj kvs => kvs.toList.filterMap fun (k, v) => match v with | .str s => some (k, s) | _ => none
      | _ => [],
    files256 := match j.getObjValD "files256" with
      | .obj kvs => kvs.toList.filterMap fun (k, v) => match v with | .str s => some (k, s) | _ => none
      | _ => [],
    imports := strList (j.getObjValD "imports") }

def errJson : Option Err → Json
  | none => Json.null
  | some (.atticDisabled d) => Json.mkObj [("kind", "atticDisabled"), ("dir", Json.str d)]
  | some (.collides d) => Json.mkObj [("kind", "collides"), ("dir", Json.str d)]
  | some (.scmFailed d) => Json.mkObj [("kind", "scmFailed"), ("dir", Json.str d)]

def opJson : Op Spec → Json
  | .scmSwitch p ok => Json.mkObj [("op", "switch"), ("p", Json.arr (p.map Json.str).toArray), ("ok", Json.bool ok)]
  | .moveToAttic p n => Json.mkObj [("op", "attic"), ("p", Json.arr (p.map Json.str).toArray), ("n", Json.num n)]
  | .regAttic n sub _ => Json.mkObj [("op", "reg"), ("n", Json.num n), ("sub", Json.arr (sub.map Json.str).toArray)]
  | .setDirState d => Json.mkObj [("op", "state"), ("dirs", Json.arr (d.map Json.str).toArray)]
  | .invoke p f ok => Json.mkObj [("op", "invoke"), ("p", Json.arr (p.map Json.str).toArray), ("fresh", Json.bool f), ("ok", Json.bool ok)]
  | .emptyDir p => Json.mkObj [("op", "empty"), ("p", Json.arr (p.map Json.str).toArray)]
  | .rmAttic n sub => Json.mkObj [("op", "rmattic"), ("n", Json.num n), ("sub", Json.arr (sub.map Json.str).toArray)]
  | .rmWorkspace => Json.mkObj [("op", "rmws")]

def stateJson (st : St Spec Content) (newOps : List (Op Spec)) (err : Option Err) : Json :=
  Json.mkObj [
    ("err", errJson err),
    ("ops", Json.arr (newOps.reverse.map opJson).toArray),
    ("dirs", Json.arr (st.old.map fun e => Json.mkObj [("dir", Json.str e.dir),
        ("digest", match e.digest with | some d => Json.str d | none => Json.null)]).toArray),
    ("attic", Json.arr (st.atticReg.map fun e => Json.mkObj [("n", Json.num e.1.1),
        ("sub", Json.arr (e.1.2.map Json.str).toArray)]).toArray),
    ("fs", Json.arr (st.fs.map fun e => Json.mkObj [("loc", locJson e.1), ("content", contentJson e.2)]).toArray),
    ("wsMissing", Json.bool st.wsMissing)]

def emptySt : St Spec Content :=
  { fs := [], plain := [], wsMissing := true, old := [], atticReg := [], nextAttic := 0, ops := [] }

def flagTaints (fl : List String) : Taints :=
  { modified := fl.contains "modified", error := fl.contains "error", switched := fl.contains "switched",
    unpushedMain := fl.contains "unpushed_main", unpushedLocal := fl.contains "unpushed_local",
    unknown := fl.contains "unknown" }

def taintsJson (t : Taints) : Json :=
  Json.arr ((if t.modified then ["modified"] else []) ++ (if t.error then ["error"] else []) ++
    (if t.switched then ["switched"] else []) ++ (if t.unpushedMain then ["unpushed_main"] else []) ++
    (if t.unpushedLocal then ["unpushed_local"] else []) ++ (if t.unknown then ["unknown"] else [])
    |>.map Json.str).toArray

def gitSpecOf (j : Json) : GitSpec :=
  match specOf j with
  | .git s => s
  | _ => { url := "", branch := none, tag := none, commit := none, useBranchAndCommit := false }

def step (st : St Spec Content) (j : Json) : St Spec Content × Json :=
  match getStr j "op" with
  | "cansw" =>
    let w : World := { dag := ⟨[], []⟩, univ := [], files := [], files256 := [], imports := [] }
    (st, Json.mkObj [("ok", Json.bool ((sem w).canSwitch (specOf (j.getObjValD "old")) (specOf (j.getObjValD "new"))))])
  | "taints" =>
    let t := flagTaints (strList (j.getObjValD "flags"))
    (st, Json.mkObj [("dirty", Json.bool t.dirty), ("expendable", Json.bool t.expendable)])
  | "order" =>
    let dirs := strList (j.getObjValD "dirs")
    let entries : List (OldEntry Unit) := dirs.map fun d => { dir := d, digest := none, spec := none }
    let sorted := (sortedOld entries).map (·.dir)
    let tr := (strList (j.getObjValD "moved")).foldl (fun (tr : List (Comps × Nat)) d => trackerAdd tr (normComps d) tr.length) []
    let aff := (strList (j.getObjValD "query")).map fun d =>
      match trackerMatch tr (normComps d) with
      | some (q, n) => Json.mkObj [("n", Json.num n), ("sub", Json.str ("/".intercalate ((normComps d).drop q.length)))]
      | none => Json.null
    (st, Json.mkObj [("sorted", Json.arr (sorted.map Json.str).toArray), ("affected", Json.arr aff.toArray),
        ("norm", Json.arr (dirs.map fun d => Json.str ("/".intercalate (normComps d))).toArray)])
  | "git" =>
    let w := worldOf j
    let ops := modelOps w.dag w.univ
    let r := repoOf (j.getObjValD "repo")
    let new := gitSpecOf (j.getObjValD "new")
    let res := match getStr j "mode" with
      | "switch" => switchAct ops (gitSpecOf (j.getObjValD "old")) new r
      | "update" => invokeAct ops new false r
      | _ => invokeAct ops new false Repo.init
    (st, Json.mkObj [("ok", Json.bool res.2), ("repo", repoJson res.1)])
  | "status" =>
    let w := worldOf j
    (st, Json.mkObj [("flags", taintsJson (status w.dag (gitSpecOf (j.getObjValD "spec")) (getBool j "extra")
      (repoOf (j.getObjValD "repo"))))])
  | "begin" => (emptySt, Json.mkObj [("ok", Json.bool true)])
  | "sync" =>
    -- contents of existing directories as observed (after user / upstream actions)
    let cs := (getArr j "contents").map fun c => (locOf (c.getObjValD "loc"), contentOf (c.getObjValD "content"))
    let fs := st.fs.map fun e => match cs.find? (fun c => c.1 == e.1) with
      | some c => (e.1, c.2)
      | none => e
    -- other directories that exist in the workspace (leftovers, things the user put there)
    let plain := match j.getObjVal? "plain" with
      | .ok (.arr a) => a.toList.map compsOf
      | _ => st.plain
    ({ st with fs := fs, plain := plain }, Json.mkObj [("ok", Json.bool true)])
  | "dev" =>
    let w := worldOf j
    let hexes := strList (j.getObjValD "hex")
    let commitHex := fun (n : Nat) => hexes.getD n ""
    let new : List (NewEntry Spec) := (getArr j "new").map fun s =>
      let sp := specOf s
      { dir := sp.dir, digest := digestScript commitHex sp, spec := sp }
    let fl : Flags := { cleanCheckout := getBool j "clean", atticEnabled := getBool j "attic" }
    let indet := new.any fun n => !deterministic n.spec
    let st0 := { st with ops := [] }
    let res := cook (sem w) fl indet new st0
    -- `St.old` is the in-memory oldCheckoutState; what is persisted is what the last setDirectoryState of the
    -- run wrote (a --clean-checkout invalidation alone is never written)
    let wrote := res.1.ops.any (fun o => match o with | .setDirState _ => true | _ => false)
    let st1 := if wrote then res.1 else { res.1 with old := if st0.wsMissing then [] else st0.old }
    (st1, stateJson st1 st1.ops res.2)
  | "clean" =>
    let w := worldOf j
    let st0 := { st with ops := [] }
    let st1 := match getStr j "mode" with
      | "attic" => cleanAttic (sem w) (getBool j "dry") st0
      | "src" => cleanSrc (sem w) (getBool j "dry") st0
      | _ => st0       -- the package is in use: `bob clean -s` leaves its source workspace alone
    (st1, stateJson st1 st1.ops none)
  | _ => (st, err "bad-op")

def main : IO Unit := run (St Spec Content) emptySt step
