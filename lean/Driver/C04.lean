import BobModel.Model.Memo
import BobModel.Util.Sha1
import BobModel.Util.Proto
open Lean Proto Memo

/-
Stateful driver of the C04 model (one JSON request per line, one reply per line).

tracked environments (real `stringparser.Env`; keys and values are strings):
 {"op":"reset"}
 {"op":"new","data":[[k,v]..]}                      -> {"id":n}
 {"op":"get"|"contains","e":i,"k":s}                -> {"v":s|null} / {"v":bool}
 {"op":"set","e":i,"k":s,"v":s} {"op":"del","e":i,"k":s} -> {"ok":bool}
 {"op":"update","e":i,"data":[..]} {"op":"clear","e":i}
 {"op":"copy","e":i} {"op":"derive","e":i,"data":[..]} {"op":"prune","e":i,"allowed":[..]|null}
 {"op":"filter","e":i,"allowed":[[neg,name]..]|null}  -> {"id":n}
 {"op":"touchReset","e":i} {"op":"touch","e":i,"keys":[..]} {"op":"touchedKeys","e":i} -> {"keys":[sorted]}
 {"op":"detach","e":i} -> {"data":[sorted items]}      {"op":"len","e":i} -> {"v":n}
 {"op":"dump"} -> {"envs":[{"data":[..],"touched":[ids]}..],"sets":[[sorted keys]..]}
matcher (PackageMatcher over a variable Env and a tool Env whose values are resultId strings):
 {"op":"mkMatcher","env":i,"tools":j,"x":s,"result":n} -> {"id":n,"env":[[k,v|null]..],"tools":[..]}
 {"op":"matches","m":id,"envData":[..],"toolsData":[..],"x":s} -> {"v":bool}
 {"op":"findHit","ms":[ids],"envData":..,"toolsData":..,"x":s} -> {"v":index|null}
 {"op":"matcherTouch","m":id,"env":i,"tools":j}
YAML cache / cache key (SHA-1):
 {"op":"ycReset"} {"op":"ycOpen","inputHash":hex} -> {"hot":bool}
 {"op":"ycLoad","name":s,"stat":hex|null,"content":hex,"schema":hex} -> {"r":"absent"|"err"|{"ok":hex}}
 {"op":"ycBinary","name":s,"present":bool,"content":hex}
 {"op":"ycClose"} -> {"digest":hex,"files":[[name,hex]..]}
 {"op":"cacheKey","inputHash":hex,"files":[[name,hexdigest]..],"env":[[k,v]..],"sandbox":bool} -> {"key":hex}
-/

abbrev SEnv := TEnv String String
abbrev SMatcher := Matcher String String String Nat

structure St where
  heap : Heap String := ⟨[]⟩
  envs : Array SEnv := #[]
  ms : Array SMatcher := #[]
  yc : YCache Bytes := ⟨[], none⟩
  ys : YSession := ⟨false, []⟩

def pairs (j : Json) (k : String) : List (String × String) :=
  (getArr j k).filterMap fun p => match p with
    | .arr a => match a.toList with
      | [Json.str x, Json.str y] => some (x, y)
      | _ => none
    | _ => none

def sortStr (l : List String) : List String := (l.toArray.qsort (· < ·)).toList
def sortPairs (l : List (String × String)) : List (String × String) := (l.toArray.qsort (fun a b => a.1 < b.1)).toList

def jPairs (l : List (String × String)) : Json :=
  Json.arr ((sortPairs l).map fun p => Json.arr #[Json.str p.1, Json.str p.2]).toArray

def jStrs (l : List String) : Json := Json.arr ((sortStr l).map Json.str).toArray

def envOf (s : St) (j : Json) (k : String := "e") : SEnv := (s.envs[getNat j k]?).getD ⟨[], []⟩

def addEnv (s : St) (e : SEnv) : St × Json :=
  ({ s with envs := s.envs.push e }, Json.mkObj [("id", Json.num s.envs.size)])

def setEnv (s : St) (j : Json) (e : SEnv) : St := { s with envs := s.envs.set! (getNat j "e") e }

def lookupFn (d : List (String × String)) : Envf String String := fun k => dlookup d k

/-- environment seen by the matcher: variables under "e:", tools (result ids) under "t:" -/
def combined (envData toolsData : List (String × String)) : Envf String String := fun k =>
  if k.startsWith "e:" then dlookup envData (k.drop 2).toString
  else if k.startsWith "t:" then dlookup toolsData (k.drop 2).toString
  else none

def optStr (o : Option String) : Json := match o with | some v => Json.str v | none => Json.null

def ok : Json := Json.mkObj [("ok", Json.bool true)]

/-- the driver's YAML "parser": content starting with '[' does not validate, everything else parses to itself
prefixed by the schema digest -/
def parseD (sd content : Bytes) : Except Unit Bytes :=
  match content with
  | 91 :: _ => .error ()
  | _ => .ok (sd ++ [0] ++ content)

def H (b : Bytes) : Bytes := Sha1.hashBytes b

def hexOpt (j : Json) (k : String) : Option Bytes :=
  match j.getObjVal? k with
  | .ok (.str s) => Bytes.ofHex s
  | _ => none

def step (s : St) (j : Json) : St × Json :=
  match getStr j "op" with
  | "reset" => ({ s with heap := ⟨[]⟩, envs := #[], ms := #[] }, ok)
  | "new" =>
    let (h, e) := TEnv.new s.heap (pairs j "data")
    addEnv { s with heap := h } e
  | "get" =>
    let (h, v) := (envOf s j).get s.heap (getStr j "k")
    ({ s with heap := h }, Json.mkObj [("v", optStr v)])
  | "contains" =>
    let (h, v) := (envOf s j).contains s.heap (getStr j "k")
    ({ s with heap := h }, Json.mkObj [("v", Json.bool v)])
  | "set" => (setEnv s j ((envOf s j).setitem (getStr j "k") (getStr j "v")), ok)
  | "del" =>
    match (envOf s j).delitem (getStr j "k") with
    | some e => (setEnv s j e, ok)
    | none => (s, Json.mkObj [("ok", Json.bool false)])
  | "update" => (setEnv s j ((envOf s j).update (pairs j "data")), ok)
  | "clear" => (setEnv s j (envOf s j).clear, ok)
  | "copy" => addEnv s (envOf s j).copy
  | "derive" => addEnv s ((envOf s j).derive (pairs j "data"))
  | "prune" =>
    let a := match j.getObjVal? "allowed" with
      | .ok (.arr a) => some (strList (.arr a))
      | _ => none
    addEnv s ((envOf s j).prune a)
  | "filter" =>
    let a := match j.getObjVal? "allowed" with
      | .ok (.arr a) => some (a.toList.filterMap fun p => match p with
          | .arr q => match q.toList with
            | [Json.bool b, Json.str n] => some (b, n)
            | _ => none
          | _ => none)
      | _ => none
    addEnv s ((envOf s j).filter a)
  | "touchReset" =>
    let (h, e) := (envOf s j).touchReset s.heap
    (setEnv { s with heap := h } j e, ok)
  | "touch" => ({ s with heap := (envOf s j).touch s.heap (strList (j.getObjValD "keys")) }, ok)
  | "touchedKeys" => (s, Json.mkObj [("keys", jStrs ((envOf s j).touchedKeys s.heap))])
  | "detach" => (s, Json.mkObj [("data", jPairs (envOf s j).detach)])
  | "len" => (s, Json.mkObj [("v", Json.num (envOf s j).data.length)])
  | "dump" =>
    (s, Json.mkObj [
      ("envs", Json.arr (s.envs.map fun e => Json.mkObj [("data", jPairs e.data),
        ("touched", Json.arr (e.touched.map fun (i : Nat) => Json.num (JsonNumber.fromNat i)).toArray)])),
      ("sets", Json.arr (s.heap.sets.map jStrs).toArray)])
  | "mkMatcher" =>
    let e := envOf s j "env"
    let t := envOf s j "tools"
    let keys := ((e.touchedKeys s.heap).map ("e:" ++ ·)) ++ ((t.touchedKeys s.heap).map ("t:" ++ ·))
    let m : SMatcher := Matcher.make id (combined e.data t.data) keys (getStr j "x") (getNat j "result")
    let show_ := fun (pre : String) => Json.arr ((m.keys.filter (·.1.startsWith pre)).map fun p =>
      Json.arr #[Json.str (p.1.drop 2).toString, optStr p.2]).toArray
    ({ s with ms := s.ms.push m }, Json.mkObj [("id", Json.num s.ms.size), ("env", show_ "e:"), ("tools", show_ "t:")])
  | "matches" =>
    match s.ms[getNat j "m"]? with
    | some m => (s, Json.mkObj [("v", Json.bool
        (m.matches id (combined (pairs j "envData") (pairs j "toolsData")) (getStr j "x")))])
    | none => (s, err "no-matcher")
  | "findHit" =>
    let ids := (getArr j "ms").filterMap fun x => x.getNat?.toOption
    let e := combined (pairs j "envData") (pairs j "toolsData")
    let x := getStr j "x"
    let hit := ids.findIdx? fun i => match s.ms[i]? with
      | some m => m.matches id e x
      | none => false
    (s, Json.mkObj [("v", match hit with | some i => Json.num i | none => Json.null)])
  | "matcherTouch" =>
    match s.ms[getNat j "m"]? with
    | some m =>
      let ek := (m.touchKeys.filter (·.startsWith "e:")).map fun k => (k.drop 2).toString
      let tk := (m.touchKeys.filter (·.startsWith "t:")).map fun k => (k.drop 2).toString
      let h1 := (envOf s j "env").touch s.heap ek
      let h2 := (envOf s j "tools").touch h1 tk
      ({ s with heap := h2 }, ok)
    | none => (s, err "no-matcher")
  | "ycReset" => ({ s with yc := ⟨[], none⟩, ys := ⟨false, []⟩ }, ok)
  | "ycOpen" =>
    let (c, ys) := s.yc.openSession (hexBytes j "inputHash")
    ({ s with yc := c, ys := ys }, Json.mkObj [("hot", Json.bool ys.hot)])
  | "ycLoad" =>
    let name := (getStr j "name").toList
    let fs : FS := fun n => if n = name then (hexOpt j "stat").map fun st => (st, hexBytes j "content") else none
    let (c, ys, r) := loadYaml H parseD fs s.yc s.ys name (hexBytes j "schema")
    let rj := match r with
      | none => Json.str "absent"
      | some (.error _) => Json.str "err"
      | some (.ok d) => Json.mkObj [("ok", Json.str (Bytes.toHex d))]
    ({ s with yc := c, ys := ys }, Json.mkObj [("r", rj)])
  | "ycBinary" =>
    let name := (getStr j "name").toList
    let fs : FS := fun n => if n = name ∧ getBool j "present" then some ([], hexBytes j "content") else none
    let (ys, r) := loadBinary H fs s.ys name
    ({ s with ys := ys }, Json.mkObj [("present", Json.bool r.isSome)])
  | "ycClose" =>
    (s, Json.mkObj [("digest", Json.str (Bytes.toHex (filesDigest H utf8 s.ys.files))),
      ("files", Json.arr ((sortItems s.ys.files).map fun p =>
        Json.arr #[Json.str (String.ofList p.1), Json.str (Bytes.toHex p.2)]).toArray)])
  | "cacheKey" =>
    let files := (pairs j "files").filterMap fun p => (Bytes.ofHex p.2).map fun d => (p.1.toList, d)
    let env := (pairs j "env").map fun p => (p.1.toList, p.2.toList)
    (s, Json.mkObj [("key", Json.str (Bytes.toHex
      (cacheKey H utf8 (hexBytes j "inputHash") files env (getBool j "sandbox"))))])
  | _ => (s, err "bad-op")

def main : IO Unit := run St {} step
