import BobModel.Model.StateFS
import BobModel.Util.Proto
open Lean Proto StateFS

/-
requests (one JSON object per line):

 {"op":"run","invocations":[[call,...],...]}
      call = {"m":"setAsync"} | {"m":"setSync"} | {"m":<mutator>,"a":[args]}
      the API-level model (σ = St, μ = Mut) on an empty directory; reply
      {"invocations":[{"init":{"res":..,"ops":[..]},"calls":[{"ops":[..],"ret":..,"raised":b}],"fin":{"ops":[..]}}],"files":{..}}
      ops: {"o":"createExcl","n":"lock"} ... {"o":"append","n":"dirty","snap":<state>} {"o":"rename","n":"dirty","to":"new"}
 {"op":"runF","sessions":[{"init":{"lock":b,"commit":{"pos":p,"unlinkFails":b},"load":b,"fin":{..}},
        "calls":[call + {"fault":null|"open"|"rename"|{"write":k}}],"fin":{"commit":{..},"unlock":b},
        "crash":null|{"cut_calls":n,"garble":{"new":hex}}}]}
      the faulty machine (`initF`/`callStepF`/`finalizeF`, `recover` after a crashed session); reply: per step ops,
      exception code, files; "fresh": what a fault-free start (stale lock removed) loads afterwards
 {"op":"enc","hex":p}      -> {"hex": p ++ trailer(p)}
 {"op":"verify","hex":d}   -> {"ok": bool}
 {"op":"recover","files":{"<name>":{"hex":..,"synced":b}},"garble":{"<name>":hex},"table":[{"hex":..,"version":n}]}
      byte-level model (σ = index into `table`, the real pickles): `recover fs g` then `initRun`; reply
      {"res":"ok","loaded":i|null} | {"res":"locked"} | {"res":"decode"|"tooOld"|"tooNew"}, "ops":[..], "files":{..}
 {"op":"names"}            -> the four file names
-/

def nameStr : StateFS.Name → String
  | .lock => "lock" | .pickle => "pickle" | .new => "new" | .dirty => "dirty"

def nameOf? : String → Option StateFS.Name
  | "lock" => some .lock | "pickle" => some .pickle | "new" => some .new | "dirty" => some .dirty | _ => none

def kvJson {α : Type} (f : α → Json) (m : KV α) : Json := Json.mkObj (m.map fun e => (e.1, f e.2))

def jenkJson (j : Jenk) : Json :=
  Json.mkObj [("config", Json.str j.config), ("jobs", kvJson Json.str j.jobs),
    ("counters", kvJson (fun n : Nat => Json.num n) j.counters), ("dirs", kvJson Json.str j.dirs)]

def stJson (s : St) : Json :=
  Json.mkObj [("counters", kvJson (fun n : Nat => Json.num n) s.counters),
    ("dirs", kvJson (fun d : String × Bool => Json.arr #[Json.str d.1, Json.bool d.2]) s.dirs),
    ("results", kvJson Json.str s.results), ("inputs", kvJson Json.str s.inputs),
    ("jenkins", kvJson jenkJson s.jenkins), ("dirStates", kvJson Json.str s.dirStates),
    ("layerStates", kvJson Json.str s.layerStates), ("buildState", Json.str s.buildState),
    ("variantIds", kvJson Json.str s.variantIds), ("atticDirs", kvJson Json.str s.atticDirs),
    ("createdWithVersion", Json.num s.createdWithVersion), ("storagePath", kvJson Json.str s.storagePath)]

def kvOf {α : Type} (f : Json → α) (j : Json) : KV α :=
  match j with
  | .obj kvs => kvs.toList.map fun (k, v) => (k, f v)
  | _ => []

def jStr (j : Json) : String := match j with | .str s => s | _ => ""
def jNat (j : Json) : Nat := (j.getNat?.toOption).getD 0
def jBool (j : Json) : Bool := match j with | .bool b => b | _ => false

def jenkOf (j : Json) : Jenk :=
  { config := getStr j "config", jobs := kvOf jStr (j.getObjValD "jobs"),
    counters := kvOf jNat (j.getObjValD "counters"), dirs := kvOf jStr (j.getObjValD "dirs") }

def stOf (j : Json) : St :=
  { counters := kvOf jNat (j.getObjValD "counters"),
    dirs := kvOf (fun d => match d with
      | .arr a => (jStr (a.getD 0 .null), jBool (a.getD 1 .null))
      | _ => ("", false)) (j.getObjValD "dirs"),
    results := kvOf jStr (j.getObjValD "results"), inputs := kvOf jStr (j.getObjValD "inputs"),
    jenkins := kvOf jenkOf (j.getObjValD "jenkins"), dirStates := kvOf jStr (j.getObjValD "dirStates"),
    layerStates := kvOf jStr (j.getObjValD "layerStates"), buildState := getStr j "buildState",
    variantIds := kvOf jStr (j.getObjValD "variantIds"), atticDirs := kvOf jStr (j.getObjValD "atticDirs"),
    createdWithVersion := getNat j "createdWithVersion", storagePath := kvOf jStr (j.getObjValD "storagePath") }

/-- the driver's pickle of `St`: "<version> <length>:" ++ compressed JSON (self delimiting) -/
def stPickle (v : Nat) (s : St) : Bytes :=
  let body := (Json.compress (stJson s)).toUTF8.toList
  (toString v ++ " " ++ toString body.length ++ ":").toUTF8.toList ++ body

def takeNat (d : Bytes) : Nat × Bytes :=
  let ds := d.takeWhile fun b => 48 ≤ b.toNat && b.toNat ≤ 57
  (ds.foldl (fun n b => n * 10 + (b.toNat - 48)) 0, d.drop ds.length)

def stUnpickle (d : Bytes) : Option (Nat × St) :=
  let (v, r1) := takeNat d
  match r1 with
  | 32 :: r2 =>
    let (n, r3) := takeNat r2
    match r3 with
    | 58 :: r4 =>
      if r4.length < n then none else
      match String.fromUTF8? ⟨(r4.take n).toArray⟩ with
      | none => none
      | some txt => match Json.parse txt with
        | .ok j => some (v, stOf j)
        | .error _ => none
    | _ => none
  | _ => none

def apiCfg : Cfg St Mut :=
  { pickle := stPickle, unpickle := stUnpickle, up := fun _ s => s, default := St.default,
    step := fun s m => let r := stepSt s m; (r.st, r.save) }

def argS (a : List Json) (i : Nat) : String := jStr (a.getD i .null)

def mutOf (m : String) (a : List Json) : Option Mut :=
  match m with
  | "getByNameDirectory" => some (.getByNameDirectory (argS a 0) (argS a 1) (jBool (a.getD 2 .null)))
  | "setResultHash" => some (.setResultHash (argS a 0) (argS a 1))
  | "setInputHashes" => some (.setInputHashes (argS a 0) (argS a 1))
  | "delInputHashes" => some (.delInputHashes (argS a 0))
  | "setLayerState" => some (.setLayerState (argS a 0) (argS a 1))
  | "delLayerState" => some (.delLayerState (argS a 0))
  | "setDirectoryState" => some (.setDirectoryState (argS a 0) (argS a 1))
  | "delDirectoryState" => some (.delDirectoryState (argS a 0))
  | "setVariantId" => some (.setVariantId (argS a 0) (argS a 1))
  | "setStoragePath" => some (.setStoragePath (argS a 0) (argS a 1))
  | "resetWorkspaceState" => some (.resetWorkspaceState (argS a 0) (match a.getD 1 .null with | .str s => some s | _ => none))
  | "setAtticDirectoryState" => some (.setAtticDirectoryState (argS a 0) (argS a 1))
  | "delAtticDirectoryState" => some (.delAtticDirectoryState (argS a 0))
  | "addJenkins" => some (.addJenkins (argS a 0) (argS a 1))
  | "delJenkins" => some (.delJenkins (argS a 0))
  | "getJenkinsByNameDirectory" => some (.getJenkinsByNameDirectory (argS a 0) (argS a 1) (argS a 2))
  | "setJenkinsConfig" => some (.setJenkinsConfig (argS a 0) (argS a 1))
  | "addJenkinsJob" => some (.addJenkinsJob (argS a 0) (argS a 1) (argS a 2))
  | "delJenkinsJob" => some (.delJenkinsJob (argS a 0) (argS a 1))
  | "setJenkinsJobConfig" => some (.setJenkinsJobConfig (argS a 0) (argS a 1) (argS a 2))
  | "setBuildState" => some (.setBuildState (argS a 0))
  | _ => none

def callOf (j : Json) : Option (Call Mut) :=
  match getStr j "m" with
  | "setAsync" => some .setAsync
  | "setSync" => some .setSync
  | m => (mutOf m (getArr j "a")).map .mut

def failStr : FailKind → String
  | .stat => "stat" | .open => "open" | .write => "write" | .read => "read" | .fsync => "fsync"
  | .rename => "rename" | .unlink => "unlink" | .lockOpen => "createExcl"

def opJson (snap : Bytes → Json) : Op → Json
  | .createExcl n => Json.mkObj [("o", "createExcl"), ("n", nameStr n)]
  | .openTrunc n => Json.mkObj [("o", "openTrunc"), ("n", nameStr n)]
  | .append n c => Json.mkObj [("o", "append"), ("n", nameStr n), ("data", snap c)]
  | .fsync n => Json.mkObj [("o", "fsync"), ("n", nameStr n)]
  | .rename a b => Json.mkObj [("o", "rename"), ("n", nameStr a), ("to", nameStr b)]
  | .unlink n => Json.mkObj [("o", "unlink"), ("n", nameStr n)]
  | .stat n => Json.mkObj [("o", "stat"), ("n", nameStr n)]
  | .read n => Json.mkObj [("o", "read"), ("n", nameStr n)]
  | .failed k n => Json.mkObj [("o", Json.str (failStr k ++ ":failed")), ("n", nameStr n)]

/-- content written by the API-level model, shown as the decoded snapshot plus whether the trailer verifies -/
def apiSnap (c : Bytes) : Json :=
  match stUnpickle c with
  | some (v, s) => Json.mkObj [("version", Json.num v), ("snap", stJson s), ("verifies", Json.bool (verify c))]
  | none => Json.mkObj [("undecodable", Bytes.toHex c)]

def opsJson {σ : Type} (snap : Bytes → Json) (es : List (Ev σ)) : Json :=
  Json.arr ((evOps es).map (opJson snap)).toArray

def filesJson (snap : Bytes → Json) (fs : FS) : Json :=
  Json.mkObj (StateFS.Name.all.filterMap fun n => (fs n).map fun f =>
    (nameStr n, Json.mkObj [("data", snap f.data), ("synced", Json.bool f.synced)]))

def retJson : Ret → Json
  | .none => Json.null
  | .str s => Json.mkObj [("str", Json.str s)]
  | .keyError => Json.str "KeyError"

def loadErrStr : LoadErr → String
  | .decode => "decode" | .tooOld => "tooOld" | .tooNew => "tooNew"

def initResJson {σ : Type} (f : σ → Json) : Except InitErr (Option σ) → List (String × Json)
  | .ok none => [("res", "ok"), ("loaded", Json.null)]
  | .ok (some s) => [("res", "ok"), ("loaded", f s)]
  | .error .locked => [("res", "locked")]
  | .error (.load e) => [("res", Json.str (loadErrStr e))]

/-- run the calls of one invocation on a live instance, collecting the per-call replies -/
def runCallsJ (fs : FS) (mem : Mem St) : List Json → FS × Mem St × List Json
  | [] => (fs, mem, [])
  | j :: rest =>
    match callOf j with
    | none => let r := runCallsJ fs mem rest; (r.1, r.2.1, err "bad-call" :: r.2.2)
    | some cl =>
      let ret : Json := match cl with
        | .mut m => retJson (stepSt mem.cur m).ret
        | _ => Json.null
      let r := callStep apiCfg mem cl
      let reply := Json.mkObj [("ops", opsJson apiSnap r.2.1), ("ret", ret), ("raised", Json.bool r.2.2)]
      let r' := runCallsJ (applyEvs fs r.2.1) r.1 rest
      (r'.1, r'.2.1, reply :: r'.2.2)

def runInvJ (fs : FS) (calls : List Json) : FS × Json :=
  let i := initRun apiCfg fs
  let fs1 := applyEvs fs i.evs
  let initJ := Json.mkObj (initResJson stJson i.res ++ [("ops", opsJson apiSnap i.evs)])
  match i.res with
  | .error _ => (fs1, Json.mkObj [("init", initJ)])
  | .ok x =>
    let (fs2, mem, replies) := runCallsJ fs1 (memOf apiCfg x) calls
    let fe := finalizeEvs fs2 mem
    (applyEvs fs2 fe,
     Json.mkObj [("init", initJ), ("calls", Json.arr replies.toArray),
       ("fin", Json.mkObj [("ops", opsJson apiSnap fe), ("raised", Json.bool (!finalizeOk mem))])])

def runHistJ (fs : FS) : List Json → FS × List Json
  | [] => (fs, [])
  | inv :: rest =>
    let calls := match inv with | .arr a => a.toList | _ => []
    let r := runInvJ fs calls
    let r' := runHistJ r.1 rest
    (r'.1, r.2 :: r'.2)


/-! byte level: σ = index into the table of real pickles -/

def isPrefix : Bytes → Bytes → Bool
  | [], _ => true
  | _ :: _, [] => false
  | a :: as, b :: bs => a == b && isPrefix as bs

def tableCfg (table : List (Bytes × Nat)) : Cfg Nat Nat :=
  { pickle := fun _ i => (table.getD i ([], 0)).1,
    unpickle := fun d =>
      let rec go (l : List (Bytes × Nat)) (i : Nat) : Option (Nat × Nat) :=
        match l with
        | [] => none
        | (p, v) :: rest => if !p.isEmpty && isPrefix p d then some (v, i) else go rest (i + 1)
      go table 0,
    up := fun _ s => s, default := 0, step := fun _ m => (m, true) }

def rawSnap (c : Bytes) : Json := Json.str (Bytes.toHex c)

def fsOf (j : Json) : FS :=
  match j with
  | .obj kvs => kvs.toList.foldl (fun fs (k, v) =>
      match nameOf? k with
      | some n => fs.set n (some ⟨hexBytes v "hex", getBool v "synced"⟩)
      | none => fs) FS.empty
  | _ => FS.empty

def garbleOf (j : Json) : Garble := fun (n : StateFS.Name) d =>
  match j.getObjVal? (nameStr n) with
  | .ok (.str h) => (Bytes.ofHex h).getD d
  | _ => d

/-! faulty runs -/

def cfOf (j : Json) : CF :=
  { pos := match getStr j "pos" with
      | "stat" => some .stat | "open" => some .open | "read" => some .read | "fsync" => some .fsync
      | "rename" => some .rename | _ => none,
    unlinkFails := getBool j "unlinkFails" }

def finFaultOf (j : Json) : FinFault := { commit := cfOf (j.getObjValD "commit"), unlock := getBool j "unlock" }

def initFaultOf (j : Json) : InitFault :=
  { lock := getBool j "lock", commit := cfOf (j.getObjValD "commit"), load := getBool j "load",
    fin := finFaultOf (j.getObjValD "fin") }

def saveFaultOf (j : Json) : Option SaveFault :=
  match j.getObjValD "fault" with
  | .str "open" => some .open
  | .str "rename" => some .rename
  | .obj _ => some (.write (getNat (j.getObjValD "fault") "write"))
  | _ => none

def initResFJson : Except InitErrF (Option St) → String
  | .ok _ => "ok"
  | .error .locked => "locked"
  | .error .loadIO => "loadIO"
  | .error (.load e) => loadErrStr e

def runCallsFJ (fs : FS) (mem : Mem St) (t : Bool) : List Json → FS × Mem St × List Json × Bool
  | [] => (fs, mem, [], t)
  | j :: rest =>
    match callOf j with
    | none => let r := runCallsFJ fs mem t rest; (r.1, r.2.1, err "bad-call" :: r.2.2.1, r.2.2.2)
    | some cl =>
      let r := callStepF apiCfg mem (saveFaultOf j) cl
      let fs' := applyEvs fs r.2.1
      let keyErr := match cl with
        | .mut m => (match (stepSt mem.cur m).ret with | .keyError => true | _ => false)
        | _ => false
      let reply := Json.mkObj [("ops", opsJson apiSnap r.2.1), ("raised", Json.num r.2.2), ("keyError", Json.bool keyErr),
        ("files", filesJson apiSnap fs'), ("cur", stJson r.1.cur)]
      let r' := runCallsFJ fs' r.1 (t || savedBy apiCfg mem (saveFaultOf j) cl) rest
      (r'.1, r'.2.1, reply :: r'.2.2.1, r'.2.2.2)

def runSessionFJ (fs : FS) (j : Json) : FS × Json :=
  let i := initF apiCfg verifyUntrusted fs (initFaultOf (j.getObjValD "init"))
  let fs1 := applyEvs fs i.evs
  let initJ := Json.mkObj [("res", Json.str (initResFJson i.res)), ("locked", Json.bool i.locked),
    ("ops", opsJson apiSnap i.evs), ("files", filesJson apiSnap fs1)]
  match i.res with
  | .error _ => (fs1, Json.mkObj [("init", initJ)])
  | .ok x =>
    let crash := j.getObjValD "crash"
    let calls := getArr j "calls"
    let calls := match crash with | .obj _ => calls.take (getNat crash "cut_calls") | _ => calls
    let (fs2, mem, replies, trusted) := runCallsFJ fs1 (memOf apiCfg x) false calls
    match crash with
    | .obj _ =>
      let fs3 := recover fs2 (garbleOf (crash.getObjValD "garble"))
      (fs3, Json.mkObj [("init", initJ), ("calls", Json.arr replies.toArray), ("crashed", filesJson apiSnap fs3)])
    | _ =>
      let fe := finalizeF verifyUntrusted fs2 mem i.locked trusted (finFaultOf (j.getObjValD "fin"))
      let fs3 := applyEvs fs2 fe
      (fs3, Json.mkObj [("init", initJ), ("calls", Json.arr replies.toArray),
        ("fin", Json.mkObj [("ops", opsJson apiSnap fe), ("raised", Json.bool (!finalizeOk mem)),
          ("files", filesJson apiSnap fs3)])])

def runSessionsFJ (fs : FS) : List Json → FS × List Json
  | [] => (fs, [])
  | s :: rest =>
    let r := runSessionFJ fs s
    let r' := runSessionsFJ r.1 rest
    (r'.1, r.2 :: r'.2)

def main : IO Unit := runPure fun j =>
  match getStr j "op" with
  | "run" =>
    let r := runHistJ FS.empty (getArr j "invocations")
    Json.mkObj [("invocations", Json.arr r.2.toArray), ("files", filesJson apiSnap r.1)]
  | "runF" =>
    let r := runSessionsFJ FS.empty (getArr j "sessions")
    let fsr := r.1.set .lock none
    let i := initRun apiCfg fsr
    Json.mkObj [("sessions", Json.arr r.2.toArray), ("files", filesJson apiSnap r.1),
      ("verifyUntrusted", Json.bool verifyUntrusted),
      ("fresh", Json.mkObj (initResJson stJson i.res))]
  | "enc" => Json.mkObj [("hex", Bytes.toHex (enc (hexBytes j "hex")))]
  | "verify" => Json.mkObj [("ok", Json.bool (verify (hexBytes j "hex")))]
  | "recover" =>
    let table := (getArr j "table").map fun e => (hexBytes e "hex", getNat e "version")
    let cfg := tableCfg table
    let fs := recover (fsOf (j.getObjValD "files")) (garbleOf (j.getObjValD "garble"))
    let i := initRun cfg fs
    Json.mkObj (initResJson (fun n : Nat => Json.num n) i.res ++
      [("ops", opsJson rawSnap i.evs), ("files", filesJson rawSnap (applyEvs fs i.evs))])
  | "names" => Json.mkObj (StateFS.Name.all.map fun n => (nameStr n, Json.str n.path))
  | _ => err "bad-op"
