import BobModel.Model.BuilderProto
/-- driver of C05: the stateful line protocol of the builder model (see Model/BuilderProto.lean) -/
def main : IO Unit := BuilderProto.drvMain
