import BobModel.Util.Proto
open Lean Proto
/-- stub driver of C07: replaced when the model of this property is built -/
def main : IO Unit := runPure fun _ => err "unsupported"
