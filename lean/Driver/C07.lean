import BobModel.Model.Download
import BobModel.Model.DigestDriver
import BobModel.Util.Proto
open Lean Proto Download

/-
driver of C07 (Model/Download.lean)

requests:
 {"op":"mode","mode":"yes"|…|"packages","can":b}                                 -> {"depth":n,"depthForce":n}
 {"op":"dissect","inp":INP}                                                      -> {"wasDownloaded":b,"wasShared":b,"oldInput":[RH..]|null,"oldBid":null|bid|"other"}
 {"op":"dl","cfg":CFG,"depth":n,"info":INFO,"bid":s,"loc":LOC,"art":ART}           -> {"ops":[OP..],"out":"no"|"downloaded"|"error","loc":LOC}
 {"op":"pkg","cfg":CFG,"info":INFO,"bid":s,"depC":[c..],"tok":n,"loc":LOC}         -> {"ops":[OP..],"built":b,"loc":LOC}
 {"op":"prep","info":INFO,"loc":LOC}                                             -> {"ops":[OP..],"loc":LOC}
 {"op":"cook","cfg":CFG,"tree":TREE,"state":{path:LOC},"arch":{bid:ART},"bids":[[rsig,src,[bid..],bid]..]}
        -> {"res":"ok"|"abort"|"restart","log":[OP..],"state":{path:LOC},"arch":{bid:ART},"fixed":[path..]}
 CFG  = {"mode":s,"can":b,"force":b,"upload":b,"uploadDepth":n} (or "dlDepth"/"dlDepthForce" instead of "mode")
 INFO = {"path","vid","rsig","src","pred":s|null,"pkgMatch":b,"layerMode":null|"no"|"yes"|"forced"}
 TREE = INFO + {"deps":[TREE..]}
 LOC  = {"res":RH|null,"inp":INP|null,"dir":s|null,"vidv":s|null,"disk":s|null,"audit":s|null}
 RH   = {"hash":s} | {"forged":n} ;  INP = {"built":[bid,[RH|null..]]} | {"downloaded":bid} | {"shared":[bid,loc]} | "legacy"
 ART  = null | "broken" | {"good":c,"audit":s|null}
 {"op":"bid","script":s|null,"tools":[{"name","prov":hex,"path","libs":[..],"weak":b}],"env":[[k,v]..],"args":[hex..],
        "host":hex,"platform":hex}   -> {"ok":hex,..}   the Build-Id bytes of Model/Digest.lean with SHA-1 (handler of drv_c03)
 the environment: H c = "H(c)", semB rs s cs = "B(rs|s|c1,c2,)", semP rs c = "P(rs|c)", junk = "junk",
 B rs s bs = the entry of "bids" for (rs, s, bs) or "bid(rs|s|b1,b2,)"
-/

def optStr (j : Json) (k : String) : Option String :=
  match j.getObjVal? k with
  | .ok (.str s) => some s
  | _ => none

def rhOf (j : Json) : Option RH :=
  match j.getObjVal? "hash" with
  | .ok (.str h) => some (.hash h)
  | _ => match j.getObjVal? "forged" with
    | .ok v => some (.forged ((v.getNat?.toOption).getD 0))
    | _ => none

def rhJson : Option RH → Json
  | none => Json.null
  | some (.hash h) => Json.mkObj [("hash", Json.str h)]
  | some (.forged t) => Json.mkObj [("forged", Json.num t)]

def inpOf (j : Json) : Option PkgInputs :=
  match j with
  | .str "legacy" => some .legacy
  | _ => match j.getObjVal? "downloaded" with
    | .ok (.str b) => some (.downloaded b)
    | _ => match j.getObjVal? "shared" with
      | .ok (.arr #[.str b, .str l]) => some (.shared b l)
      | _ => match j.getObjVal? "built" with
        | .ok (.arr #[.str b, .arr ins]) => some (.built b (ins.toList.map rhOf))
        | _ => none

def inpJson : Option PkgInputs → Json
  | none => Json.null
  | some .legacy => Json.str "legacy"
  | some (.downloaded b) => Json.mkObj [("downloaded", Json.str b)]
  | some (.shared b l) => Json.mkObj [("shared", Json.arr #[Json.str b, Json.str l])]
  | some (.built b ins) => Json.mkObj [("built", Json.arr #[Json.str b, Json.arr (ins.map rhJson).toArray])]

def ostr : Option String → Json
  | none => Json.null
  | some s => Json.str s

def locOf (j : Json) : Loc :=
  { res := rhOf (j.getObjValD "res"), inp := inpOf (j.getObjValD "inp"), dir := optStr j "dir", vidv := optStr j "vidv",
    disk := optStr j "disk", audit := optStr j "audit" }

def locJson (l : Loc) : Json :=
  Json.mkObj [("res", rhJson l.res), ("inp", inpJson l.inp), ("dir", ostr l.dir), ("vidv", ostr l.vidv),
              ("disk", ostr l.disk), ("audit", ostr l.audit)]

def artOf (j : Json) : Option Artifact :=
  match j with
  | .str "broken" => some .broken
  | _ => match j.getObjVal? "good" with
    | .ok (.str c) => some (.good c (optStr j "audit"))
    | _ => none

def artJson : Option Artifact → Json
  | none => Json.null
  | some .broken => Json.str "broken"
  | some (.good c a) => Json.mkObj [("good", Json.str c), ("audit", ostr a)]

def layerOf (j : Json) (k : String) : Option LayerMode :=
  match optStr j k with
  | some "no" => some .no
  | some "yes" => some .yes
  | some "forced" => some .forced
  | _ => none

def infoOf (j : Json) : PInfo :=
  { path := getStr j "path", vid := getStr j "vid", rsig := getStr j "rsig", src := getStr j "src", pred := optStr j "pred",
    pkgMatch := getBool j "pkgMatch", layerMode := layerOf j "layerMode" }

partial def treeOf (j : Json) : Pkg :=
  .mk (infoOf j) ((getArr j "deps").map treeOf)

def cfgOf (j : Json) : Cfg :=
  let can := getBool j "can"
  let dl : DlCfg := match (optStr j "mode").bind Mode.ofString with
    | some m => setDownloadMode m can
    | none => { depth := getNat j "dlDepth", depthForce := getNat j "dlDepthForce" }
  { dl := dl, canDownload := can, force := getBool j "force", upload := getBool j "upload", uploadDepth := getNat j "uploadDepth" }

def fetchJson : Fetch → Json
  | .notFound => Json.str "notFound"
  | .failed => Json.str "failed"
  | .extracted c a => Json.mkObj [("extracted", Json.arr #[Json.str c, ostr a])]

def opJson : Op → Json
  | .mkDir p => Json.arr #["mkDir", Json.str p]
  | .reset p v => Json.arr #["reset", Json.str p, ostr v]
  | .emptyDir p => Json.arr #["emptyDir", Json.str p]
  | .rmAudit p => Json.arr #["rmAudit", Json.str p]
  | .download p b r => Json.arr #["download", Json.str p, Json.str b, fetchJson r]
  | .hashWs p => Json.arr #["hashWs", Json.str p]
  | .auditRead p => Json.arr #["auditRead", Json.str p]
  | .delInputs p => Json.arr #["delInputs", Json.str p]
  | .setResult p r => Json.arr #["setResult", Json.str p, rhJson (some r)]
  | .setVid p v => Json.arr #["setVid", Json.str p, Json.str v]
  | .setInputs p i => Json.arr #["setInputs", Json.str p, inpJson (some i)]
  | .runPackage p c => Json.arr #["runPackage", Json.str p, Json.str c]
  | .upload p b => Json.arr #["upload", Json.str p, Json.str b]
  | .mispredict p => Json.arr #["mispredict", Json.str p]

def join (l : List String) : String := String.join (l.map fun s => s ++ ",")

def bidRows (j : Json) : List (String × String × List String × String) :=
  (getArr j "bids").filterMap fun r => match r with
    | .arr #[.str rs, .str s, bs, .str b] => some (rs, s, strList bs, b)
    | _ => none

def envOf (rows : List (String × String × List String × String)) : Env :=
  { H := fun c => "H(" ++ c ++ ")",
    semB := fun rs s cs => "B(" ++ rs ++ "|" ++ s ++ "|" ++ join cs ++ ")",
    semP := fun rs c => "P(" ++ rs ++ "|" ++ c ++ ")",
    B := fun rs s bs => match rows.find? (fun r => r.1 == rs && r.2.1 == s && r.2.2.1 == bs) with
      | some r => r.2.2.2
      | none => "bid(" ++ rs ++ "|" ++ s ++ "|" ++ join bs ++ ")",
    junk := "junk" }

def objPairs (j : Json) : List (String × Json) :=
  match j with
  | .obj kvs => kvs.toList
  | _ => []

def outName : DlOutcome → String
  | .no => "no" | .downloaded => "downloaded" | .error => "error"

def dissectJson (d : Dissected) : Json :=
  Json.mkObj [("wasDownloaded", Json.bool d.wasDownloaded), ("wasShared", Json.bool d.wasShared),
    ("oldInput", match d.oldInput with | none => Json.null | some l => Json.arr (l.map rhJson).toArray),
    ("oldBid", match d.oldBid with | .none => Json.null | .bid b => Json.str b | .other => Json.mkObj [("other", Json.bool true)])]

def pathsOf (t : Pkg) : List Path := (nodes t).map Pkg.path

def handle (j : Json) : Json :=
  let E := envOf (bidRows j)
  match getStr j "op" with
  | "mode" =>
    match Mode.ofString (getStr j "mode") with
    | some m =>
      let c := setDownloadMode m (getBool j "can")
      Json.mkObj [("depth", Json.num c.depth), ("depthForce", Json.num c.depthForce)]
    | none => err "bad-mode"
  | "dissect" => dissectJson (dissect (inpOf (j.getObjValD "inp")))
  | "prep" =>
    let i := infoOf (j.getObjValD "info")
    let l := locOf (j.getObjValD "loc")
    let ops := prepOps i l
    Json.mkObj [("ops", Json.arr (ops.map opJson).toArray), ("loc", locJson (ops.foldl (fun l op => (applyOp E ({ St.init with
        results := fun _ => l.res, inputs := fun _ => l.inp, dirStates := fun _ => l.dir, variantIds := fun _ => l.vidv,
        disk := fun _ => l.disk, audit := fun _ => l.audit }, fun _ => none) op).1.loc i.path) l))]
  | "dl" =>
    let i := infoOf (j.getObjValD "info")
    let l := locOf (j.getObjValD "loc")
    let r := dlOps E (cfgOf (j.getObjValD "cfg")) (getNat j "depth") i (getStr j "bid") l (artOf (j.getObjValD "art"))
    let s0 : St := { results := fun _ => l.res, inputs := fun _ => l.inp, dirStates := fun _ => l.dir,
                     variantIds := fun _ => l.vidv, disk := fun _ => l.disk, audit := fun _ => l.audit }
    let sa := applyOps E (s0, fun _ => none) r.1
    Json.mkObj [("ops", Json.arr (r.1.map opJson).toArray), ("out", Json.str (outName r.2)), ("loc", locJson (sa.1.loc i.path))]
  | "pkg" =>
    let i := infoOf (j.getObjValD "info")
    let l := locOf (j.getObjValD "loc")
    let r := pkgOps E (cfgOf (j.getObjValD "cfg")) i (getStr j "bid") (strList (j.getObjValD "depC")) (getNat j "tok") l
    let s0 : St := { results := fun _ => l.res, inputs := fun _ => l.inp, dirStates := fun _ => l.dir,
                     variantIds := fun _ => l.vidv, disk := fun _ => l.disk, audit := fun _ => l.audit }
    let sa := applyOps E (s0, fun _ => none) r.1
    Json.mkObj [("ops", Json.arr (r.1.map opJson).toArray), ("built", Json.bool r.2), ("loc", locJson (sa.1.loc i.path))]
  | "cook" =>
    let t := treeOf (j.getObjValD "tree")
    let stl := (objPairs (j.getObjValD "state")).map fun (p, l) => (p, locOf l)
    let look (p : Path) : Loc := match stl.find? (fun x => x.1 == p) with
      | some x => x.2
      | none => ⟨none, none, none, none, none, none⟩
    let s0 : St := { results := fun p => (look p).res, inputs := fun p => (look p).inp, dirStates := fun p => (look p).dir,
                     variantIds := fun p => (look p).vidv, disk := fun p => (look p).disk, audit := fun p => (look p).audit }
    let al := (objPairs (j.getObjValD "arch")).map fun (b, a) => (b, artOf a)
    let a0 : Archive := fun b => match al.find? (fun x => x.1 == b) with
      | some x => x.2
      | none => none
    let res := cook E (cfgOf (j.getObjValD "cfg")) t s0 a0
    let r := res.run
    let ps := (pathsOf t).eraseDups
    let bidsSeen := (r.log.filterMap fun op => match op with | .upload _ b => some b | _ => none) ++ al.map (·.1)
    Json.mkObj [("res", Json.str (match res with | .ok _ => "ok" | .abort _ => "abort" | .restart _ => "restart")),
      ("log", Json.arr (r.log.map opJson).toArray),
      ("state", Json.mkObj (ps.map fun p => (p, locJson (r.st.loc p)))),
      ("arch", Json.mkObj (bidsSeen.eraseDups.map fun b => (b, artJson (r.arch b)))),
      ("fixed", Json.arr ((ps.filter r.mem.fixed).map Json.str).toArray),
      ("wasRun", Json.arr ((ps.filter fun p => (r.mem.wasRun p).isSome).map Json.str).toArray)]
  | "bid" => DigestDriver.handle j
  | _ => err "bad-op"

def main : IO Unit := runPure handle
