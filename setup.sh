#!/bin/sh
# MANIFEST.setup_cmd: regenerate the constants from /repo's current source, build the Lean
# library (all models, proofs, property theorems) and every driver executable. Offline.
set -e
HERE="$(cd "$(dirname "$0")" && pwd)"
cd "$HERE"
export PYTHONDONTWRITEBYTECODE=1
/venv/bin/python tools/regen_consts.py || true   # a failing extractor is reported by the check itself
cd lean
lake build BobModel $(grep -o 'name = "drv_[a-z0-9_]*"' lakefile.toml | sed 's/name = "\(.*\)"/\1/')
echo "setup ok"
