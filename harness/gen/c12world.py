"""Source universes and histories for C12 (checkouts converge / never destroy user work).

A `World` lives in one scratch directory:
    up/<r>.git        bare upstream repositories (generated commit graphs, tags, moving branches)
    gen/<r>           work clones used to change the upstreams
    imp/<i>/          directories for the import SCM
    files/<f>         tarballs and plain files for the url SCM (file://)
    proj/             the Bob project (config.yaml, recipes/root.yaml, recipes/app.yaml)
    bin/git           logging wrapper around the real git (GitContract validation)

Everything random comes from the `random.Random` passed in, so a history replays from its seed.
"""
import hashlib
import json
import os
import re
import shutil
import subprocess
import tarfile
import io
import time

REAL_GIT = shutil.which("git")
RESERVED_DIRS = ("a", "b", "sub", "nest", "+x", "own")     # names used for (nested) SCM directories, never for files
HERE = os.path.dirname(os.path.abspath(__file__))

GIT_WRAPPER = r'''#!/bin/bash
# logging wrapper: records pre/post state of the clone around every git command Bob issues
REAL=@REAL@
LOG=@BASE@/gitlog.txt
# Bob passes only whitelisted environment variables on: the switch is a file, not a variable
if [ ! -e @BASE@/gitlog.on ] || [ -n "$C12_NOLOG" ]; then exec "$REAL" "$@"; fi
case "$PWD/" in
  @BASE@/proj/*) ;;
  *) exec "$REAL" "$@" ;;
esac
# only commands that may change the clone are recorded with their pre/post state
mut=0
for a in "$@"; do
  case "$a" in
    fetch|checkout|merge|reset|rebase|init|pull|clean|stash|commit|branch|remote) mut=1; break ;;
    rev-parse|show-ref|symbolic-ref|cat-file|merge-base|status|log|describe|ls-remote|config|tag|ls-tree|ls-files|submodule|rev-list|for-each-ref|diff-index|hash-object) break ;;
  esac
done
if [ $mut = 0 ]; then
  echo "RO $*" >> "$LOG" 2>/dev/null
  exec "$REAL" "$@"
fi
export C12_NOLOG=1
snap() {
  if "$REAL" rev-parse --git-dir >/dev/null 2>&1; then
    echo "TOP $("$REAL" rev-parse --show-toplevel 2>/dev/null)"
    echo "HEAD $("$REAL" symbolic-ref -q HEAD || "$REAL" rev-parse -q --verify HEAD || echo unborn)"
    "$REAL" for-each-ref --format='REF %(refname) %(objectname) %(*objectname)'
    "$REAL" status --porcelain -uall --ignore-submodules=all 2>/dev/null | while IFS= read -r line; do
      f="${line:3}"
      if [ -f "$f" ]; then echo "ST ${line:0:2} $f $("$REAL" hash-object -- "$f" 2>/dev/null)"; else echo "ST ${line:0:2} $f -"; fi
    done
  else
    echo "NOREPO"
  fi
}
{
  echo "BEGIN $$ $PWD"
  printf 'ARG %s\n' "$@"
  echo "PRE"
  snap
} >> "$LOG" 2>/dev/null
unset C12_NOLOG
"$REAL" "$@"
rc=$?
export C12_NOLOG=1
{
  echo "RC $rc"
  echo "POST"
  snap
  echo "END"
} >> "$LOG" 2>/dev/null
exit $rc
'''


def sha1_file(path):
    h = hashlib.sha1()
    with open(path, "rb") as f:
        h.update(f.read())
    return h.hexdigest()


def sha256_file(path):
    h = hashlib.sha256()
    with open(path, "rb") as f:
        h.update(f.read())
    return h.hexdigest()


def blob_int(hexsha):
    return int(hexsha[:12], 16)


class GitError(Exception):
    pass


class World:
    def __init__(self, base, pym):
        self.base = base
        self.pym = pym
        self.home = os.path.join(base, "home")
        os.makedirs(self.home, exist_ok=True)
        self.env = dict(os.environ)
        self.env.update({
            "HOME": self.home, "GIT_AUTHOR_NAME": "u", "GIT_AUTHOR_EMAIL": "u@example.org",
            "GIT_COMMITTER_NAME": "u", "GIT_COMMITTER_EMAIL": "u@example.org",
            "GIT_CONFIG_NOSYSTEM": "1", "GIT_TERMINAL_PROMPT": "0", "LC_ALL": "C", "LANG": "C",
            "GIT_AUTHOR_DATE": "2024-01-01T00:00:00Z", "GIT_COMMITTER_DATE": "2024-01-01T00:00:00Z",
        })
        for k in ("GIT_DIR", "GIT_WORK_TREE", "C12_NOLOG"):
            self.env.pop(k, None)
        with open(os.path.join(self.home, ".gitconfig"), "w") as f:
            f.write("[init]\n\tdefaultBranch = master\n[advice]\n\tdetachedHead = false\n[protocol \"file\"]\n\tallow = always\n"
                    "[user]\n\tname = u\n\temail = u@example.org\n[gc]\n\tauto = 0\n")
        self.commits = []          # index -> sha
        self.cidx = {}             # sha -> index
        self.parents = {}          # index -> [index]
        self.trees = {}            # index -> [[path, blob]]
        self.user_commits = set()  # shas made by the user
        self.repos = {}            # name -> bare path
        self.files = {}            # url -> path
        self.imports = {}          # recipe url (relative to project) -> path
        self.counter = 0
        self.proj = os.path.join(base, "proj")
        self.gitlog = os.path.join(base, "gitlog.txt")
        bindir = os.path.join(base, "bin")
        os.makedirs(bindir, exist_ok=True)
        with open(os.path.join(bindir, "git"), "w") as f:
            f.write(GIT_WRAPPER.replace("@REAL@", REAL_GIT).replace("@BASE@", base))
        os.chmod(os.path.join(bindir, "git"), 0o755)
        self.bindir = bindir

    # ------------------------------------------------------------------ git plumbing
    def git(self, cwd, *args, check=True):
        # strictly increasing commit dates: rev-list order (and with it every later random choice) is
        # a function of the history, not of the commit ids
        self.tick = getattr(self, "tick", 0) + 1
        env = self.env
        if args and args[0] in ("commit", "tag"):
            env = dict(self.env)
            env["GIT_AUTHOR_DATE"] = env["GIT_COMMITTER_DATE"] = "@%d +0000" % (1700000000 + self.tick)
        p = subprocess.run([REAL_GIT] + list(args), cwd=cwd, env=env, stdout=subprocess.PIPE,
                           stderr=subprocess.PIPE)
        if check and p.returncode != 0:
            raise GitError("git %s in %s: %s" % (" ".join(args), cwd, p.stderr.decode("utf-8", "replace")[-400:]))
        return p.returncode, p.stdout.decode("utf-8", "replace")

    def token(self, tag):
        self.counter += 1
        return "%s-%d-%s" % (tag, self.counter, hashlib.sha1(("%s/%d" % (self.base, self.counter)).encode()).hexdigest()[:10])

    def url_of(self, name):
        return "file://" + self.repos[name]

    def index_commits(self, gitdir):
        """record every commit reachable in `gitdir` (parents, trees)"""
        rc, out = self.git(gitdir, "rev-list", "--all", "--parents", check=False)
        if rc != 0:
            return
        new = []
        rows = [l.split() for l in out.splitlines() if l.strip()]
        for row in rows:
            if row[0] not in self.cidx:
                self.cidx[row[0]] = len(self.commits)
                self.commits.append(row[0])
                new.append(row)
        # HEAD may be detached at a commit that no ref holds
        rc, out = self.git(gitdir, "rev-list", "--parents", "HEAD", check=False)
        if rc == 0:
            for l in out.splitlines():
                row = l.split()
                if row and row[0] not in self.cidx:
                    self.cidx[row[0]] = len(self.commits)
                    self.commits.append(row[0])
                    new.append(row)
        for row in new:
            for p in row[1:]:
                if p not in self.cidx:      # shallow/odd: should not happen
                    self.cidx[p] = len(self.commits)
                    self.commits.append(p)
                    new.append([p])
        for row in new:
            i = self.cidx[row[0]]
            self.parents[i] = [self.cidx[p] for p in row[1:]]
            rc, out = self.git(gitdir, "ls-tree", "-r", row[0], check=False)
            tree = []
            for l in out.splitlines():
                meta, path = l.split("\t", 1)
                tree.append([path, blob_int(meta.split()[2])])
            self.trees[i] = sorted(tree)

    def cnum(self, sha):
        """model number of a commit id; unknown ids get a number outside the graph"""
        if sha not in self.cidx:
            self.cidx[sha] = len(self.commits)
            self.commits.append(sha)
        return self.cidx[sha]

    # ------------------------------------------------------------------ generation
    def gen_repo(self, r, name, ignore=None):
        bare = os.path.join(self.base, "up", name + ".git")
        os.makedirs(bare)
        self.git(bare, "init", "-q", "--bare", "-b", "master", ".")
        self.repos[name] = bare
        w = os.path.join(self.base, "gen", name)
        os.makedirs(w)
        self.git(w, "init", "-q", "-b", "master", ".")
        self.git(w, "remote", "add", "origin", bare)
        files = ["fA", "fB", "fC"]
        for f in files:
            with open(os.path.join(w, f), "w") as fh:
                fh.write(self.token(name + f) + "\n")
        if ignore:
            with open(os.path.join(w, ".gitignore"), "w") as fh:
                fh.write("\n".join(ignore) + "\n")
        self.git(w, "add", "-A")
        self.git(w, "commit", "-q", "-m", "c0")
        for i in range(r.randrange(2, 5)):
            self.up_commit(r, name, "master", push=False)
        # branches
        rc, out = self.git(w, "rev-list", "master")
        mc = out.split()
        self.git(w, "checkout", "-q", "-b", "dev", r.choice(mc))
        for i in range(r.randrange(1, 3)):
            self.up_commit(r, name, "dev", push=False)
        self.git(w, "branch", "rel", r.choice(mc))
        self.git(w, "checkout", "-q", "master")
        self.git(w, "tag", "v1", r.choice(mc))
        self.git(w, "tag", "-a", "-m", "annotated", "v2", r.choice(mc + ["dev"]))
        self.git(w, "push", "-q", "origin", "--all")
        self.git(w, "push", "-q", "origin", "--tags")
        self.index_commits(bare)

    def up_commit(self, r, name, branch, push=True):
        w = os.path.join(self.base, "gen", name)
        self.git(w, "checkout", "-q", branch)
        f = r.choice(["fA", "fB", "fC", "fD", "g" + str(r.randrange(3))])
        with open(os.path.join(w, f), "a") as fh:
            fh.write(self.token(name + branch) + "\n")
        self.git(w, "add", "-A")
        self.git(w, "commit", "-q", "-m", "up " + branch)
        if push:
            self.git(w, "push", "-q", "origin", branch)
            self.index_commits(self.repos[name])

    def upstream_op(self, r, name):
        """one upstream operation; returns a description"""
        w = os.path.join(self.base, "gen", name)
        bare = self.repos[name]
        k = r.random()
        rc, out = self.git(bare, "for-each-ref", "--format=%(refname:short)", "refs/heads")
        branches = out.split()
        if k < 0.5:
            b = r.choice(branches)
            self.up_commit(r, name, b)
            return "up-commit %s %s" % (name, b)
        if k < 0.62:
            b = r.choice(branches)
            self.git(w, "checkout", "-q", b)
            rc, out = self.git(w, "rev-list", b)
            cs = out.split()
            if len(cs) > 1:
                self.git(w, "reset", "-q", "--hard", cs[1])
            with open(os.path.join(w, "fR"), "a") as fh:
                fh.write(self.token("rewrite") + "\n")
            self.git(w, "add", "-A")
            self.git(w, "commit", "-q", "-m", "rewritten")
            self.git(w, "push", "-q", "-f", "origin", b)
            self.index_commits(bare)
            return "up-rewrite %s %s" % (name, b)
        if k < 0.78:
            t = "t%d" % r.randrange(100)
            b = r.choice(branches)
            existed = self.git(w, "rev-parse", "-q", "--verify", "refs/tags/" + t, check=False)[0] == 0
            self.git(w, "tag", "-f", t, b)
            self.git(w, "push", "-q", "-f", "origin", t)
            self.index_commits(bare)
            return "%s %s %s" % ("up-movetag" if existed else "up-tag", name, t)
        if k < 0.86:
            # move an existing tag (deterministic checkouts assume this never happens)
            b = r.choice(branches)
            self.git(w, "tag", "-f", "v1", b)
            self.git(w, "push", "-q", "-f", "origin", "v1")
            self.index_commits(bare)
            return "up-movetag %s v1" % name
        if k < 0.93:
            nb = "b%d" % r.randrange(100)
            self.git(w, "branch", "-f", nb, r.choice(branches))
            self.git(w, "push", "-q", "-f", "origin", nb)
            self.index_commits(bare)
            return "up-newbranch %s %s" % (name, nb)
        cand = [b for b in branches if b not in ("master", "dev")]
        if cand:
            b = r.choice(cand)
            self.git(w, "checkout", "-q", "master")
            self.git(w, "branch", "-D", b, check=False)
            self.git(w, "push", "-q", "origin", ":" + b, check=False)
            return "up-delbranch %s %s" % (name, b)
        return "up-noop"

    def gen_import(self, r, name):
        d = os.path.join(self.proj, "imp", name)
        os.makedirs(d)
        for f in ("i1", "i2"):
            with open(os.path.join(d, f), "w") as fh:
                fh.write(self.token(name + f) + "\n")
        os.makedirs(os.path.join(d, "sd"))
        with open(os.path.join(d, "sd", "i3"), "w") as fh:
            fh.write(self.token(name) + "\n")
        self.imports["imp/" + name] = d

    def import_op(self, r, name):
        d = self.imports[name]
        f = r.choice(["i1", "i2", "n%d" % r.randrange(5)])
        with open(os.path.join(d, f), "a") as fh:
            fh.write(self.token("imp") + "\n")
        # the import SCM copies a file only if the source is newer than the destination
        t = time.time() + 5 + self.counter
        os.utime(os.path.join(d, f), (t, t))
        return "import-change %s %s" % (name, f)

    def gen_file(self, r, name, tar):
        d = os.path.join(self.base, "files")
        os.makedirs(d, exist_ok=True)
        p = os.path.join(d, name)
        self.write_file(p, tar)
        self.files["file://" + p] = p

    def write_file(self, p, tar):
        if tar:
            buf = io.BytesIO()
            with tarfile.open(fileobj=buf, mode="w") as t:
                for n in ("t1", "td/t2"):
                    data = (self.token(n) + "\n").encode()
                    ti = tarfile.TarInfo(n)
                    ti.size = len(data)
                    ti.mtime = 1700000000
                    t.addfile(ti, io.BytesIO(data))
            with open(p, "wb") as f:
                f.write(buf.getvalue())
        else:
            with open(p, "w") as f:
                f.write(self.token("file") + "\n")
        t = time.time() + 5 + self.counter
        os.utime(p, (t, t))

    def file_op(self, r, url):
        p = self.files[url]
        self.write_file(p, p.endswith(".tar"))
        return "file-change " + os.path.basename(p)

    # ------------------------------------------------------------------ snapshots for the model
    def model_world(self):
        univ = {}
        for name, bare in self.repos.items():
            rc, out = self.git(bare, "for-each-ref", "--format=%(refname) %(objectname) %(*objectname)")
            br, tg = {}, {}
            for l in out.splitlines():
                parts = l.split()
                ref, obj = parts[0], parts[1]
                peeled = parts[2] if len(parts) > 2 else obj
                if ref.startswith("refs/heads/"):
                    br[ref[11:]] = self.cnum(obj)
                elif ref.startswith("refs/tags/"):
                    tg[ref[10:]] = self.cnum(peeled)
            univ["file://" + bare] = {"branches": br, "tags": tg}
        files, files256 = {}, {}
        for url, p in self.files.items():
            if os.path.isfile(p):
                h = sha1_file(p)
                files[url] = h
                files256[h] = sha256_file(p)
        return {
            "dag": {"parents": [[i, self.parents.get(i, [])] for i in range(len(self.commits)) if i in self.parents],
                    "trees": [[i, self.trees.get(i, [])] for i in range(len(self.commits)) if i in self.trees]},
            "univ": univ, "files": files, "files256": files256,
            "imports": sorted(u for u, p in self.imports.items() if os.path.isdir(p)),
            "hex": list(self.commits),
        }

    # ------------------------------------------------------------------ observation of a clone
    def abstract_repo(self, path, nested):
        """abstract state of the git clone at `path`; `nested` = relative paths of other SCM
        directories inside it.  Returns (repo dict, extra flag)."""
        self.index_commits(path)
        rc, out = self.git(path, "for-each-ref", "--format=%(refname) %(objectname) %(*objectname)")
        heads, remotes, tags = {}, {}, {}
        for l in out.splitlines():
            parts = l.split()
            ref, obj = parts[0], parts[1]
            peeled = parts[2] if len(parts) > 2 else obj
            if ref.startswith("refs/heads/"):
                heads[ref[11:]] = self.cnum(obj)
            elif ref.startswith("refs/remotes/origin/"):
                if ref != "refs/remotes/origin/HEAD":
                    remotes[ref[20:]] = self.cnum(obj)
            elif ref.startswith("refs/tags/"):
                tags[ref[10:]] = self.cnum(peeled)
        rc, sym = self.git(path, "symbolic-ref", "-q", "HEAD", check=False)
        if rc == 0:
            head = {"branch": sym.strip()[11:]}
        else:
            rc, h = self.git(path, "rev-parse", "-q", "--verify", "HEAD", check=False)
            head = {"detached": self.cnum(h.strip())} if rc == 0 else {"branch": "?"}
        rc, out = self.git(path, "status", "--porcelain", "-uall", "--ignore-submodules=all", check=False)
        dirty, untracked, extra = [], [], False
        for l in out.splitlines():
            code, f = l[:2], l[3:]
            if " -> " in f:
                f = f.split(" -> ")[1]
            f = f.strip('"')
            if any(f.rstrip("/") == n or f.startswith(n + "/") or n.startswith(f.rstrip("/") + "/") for n in nested):
                extra = True
                continue
            if f.split("/")[0] in RESERVED_DIRS:
                # leftovers of a nested SCM directory that is gone (files the user committed into this clone show
                # up as deleted): part of what `git status` prints, not of the user's work in this clone
                extra = True
                continue
            fp = os.path.join(path, f)
            if os.path.isfile(fp):
                rc2, hh = self.git(path, "hash-object", "--", f, check=False)
                b = blob_int(hh.strip()) if rc2 == 0 and hh.strip() else 0
            else:
                b = 0
            if code == "??":
                untracked.append([f, b])
            else:
                dirty.append([f, b])
        rc, url = self.git(path, "config", "--get", "remote.origin.url", check=False)
        rc2, objs = self.git(path, "rev-list", "--all", check=False)
        # objects present: everything reachable plus whatever cat-file finds among known commits
        present = set(objs.split())
        rc3, allobjs = self.git(path, "cat-file", "--batch-check", "--batch-all-objects", check=False)
        for l in allobjs.splitlines():
            parts = l.split()
            if len(parts) >= 2 and parts[1] == "commit":
                present.add(parts[0])
        return ({"objs": sorted(self.cnum(s) for s in present), "heads": heads, "remotes": remotes, "tags": tags,
                 "head": head, "dirty": sorted(dirty), "untracked": sorted(untracked),
                 "url": url.strip() if rc == 0 else None}, extra)


def canon_repo(r):
    """comparable form of an abstract repo (objs are not compared)"""
    return {"heads": dict(sorted(r.get("heads", {}).items())), "remotes": dict(sorted(r.get("remotes", {}).items())),
            "tags": dict(sorted(r.get("tags", {}).items())), "head": r.get("head"),
            "dirty": sorted(map(list, r.get("dirty", []))), "untracked": sorted(map(list, r.get("untracked", []))),
            "url": r.get("url")}


# ---------------------------------------------------------------------- contract check of the git log

def parse_gitlog(path):
    recs = []
    if not os.path.exists(path):
        return recs
    cur = None
    sect = None
    with open(path, errors="replace") as f:
        for line in f:
            line = line.rstrip("\n")
            if line.startswith("RO ") and cur is None:
                recs.append({"ro": line[3:]})
                continue
            if line.startswith("BEGIN "):
                cur = {"cwd": line.split(" ", 2)[2], "args": [], "pre": [], "post": [], "rc": None}
                sect = None
            elif cur is None:
                continue
            elif line.startswith("ARG "):
                if sect is None:
                    cur["args"].append(line[4:])
                else:
                    cur[sect].append(line)
            elif line == "PRE":
                sect = "pre"
            elif line.startswith("RC ") and sect == "pre":
                cur["rc"] = int(line[3:])
            elif line == "POST":
                sect = "post"
            elif line == "END":
                recs.append(cur)
                cur = None
                sect = None
            elif sect:
                cur[sect].append(line)
    return recs


def snap_of(lines):
    s = {"repo": True, "head": None, "heads": {}, "remotes": {}, "tags": {}, "st": {}, "top": None}
    for l in lines:
        if l == "NOREPO":
            s["repo"] = False
        elif l.startswith("TOP "):
            s["top"] = l[4:]
        elif l.startswith("HEAD "):
            s["head"] = l[5:]
        elif l.startswith("REF "):
            parts = l.split()
            ref, obj = parts[1], parts[2]
            peeled = parts[3] if len(parts) > 3 else obj
            if ref.startswith("refs/heads/"):
                s["heads"][ref[11:]] = obj
            elif ref.startswith("refs/remotes/"):
                s["remotes"][ref[13:]] = obj
            elif ref.startswith("refs/tags/"):
                s["tags"][ref[10:]] = peeled
        elif l.startswith("ST "):
            code = l[3:5]
            rest = l[6:]
            f, _, h = rest.rpartition(" ")
            s["st"][f] = (code, h)
    return s
