"""Generator of small Bob projects (recipes on disk) for the Jenkins job graph check (C20).

The *package* graph is a DAG by construction (package k depends only on packages with a larger
index), packages are then grouped into recipes independently of that order.  This gives the
cycle-prone shapes of JobNameCalculator.sanitize: multiPackages of one recipe that reach each other
through a third recipe, several variants of one package (environment passed by the dependent,
conditional dependencies, tools that are only available below some parents), tool and sandbox
providers that depend on a sibling variant of one of their users.

Everything is derived from the `random.Random` passed in; the result is a plain dict
    {"files": {relative path: text}, "roots": [package paths usable as Jenkins roots],
     "packages": [package names], "recipes": [recipe names]}
"""

BOB_MIN_VERSION = "1.0"

PLAIN = ["a", "b", "c", "lib", "app", "x", "y", "z", "core", "util", "ab", "tool", "sdk", "m", "n"]
# names that fold to the same Jenkins job name / collide with the numbering suffix (known findings)
ODD = ["a.b", "a+b", "A", "Lib", "x-1", "a-1", "a-2", "lib-1", "x_y", "x.y", "core-2", "m-1"]
SUBS = ["dev", "tgt", "a", "b", "x-1", "x-2", "dev-doc", "1", ""]
VARS = ["V1", "V2"]
VALS = ["", "0", "1", "x"]
TOOLS = ["T1", "T2"]


def _yaml_str(s):
    return '"' + s.replace("\\", "\\\\").replace('"', '\\"').replace("\n", "\\n") + '"'


def _emit(v, ind=0):
    """minimal YAML emitter for the dict/list/str/bool/int values used here"""
    sp = "    " * ind
    out = []
    if isinstance(v, dict):
        if not v:
            return [sp + "{}"]
        for k, x in v.items():
            key = k if (k.isalpha() and k not in ("y", "n", "yes", "no", "on", "off", "true", "false", "null")) else _yaml_str(k)
            if isinstance(x, (dict, list)) and x:
                out.append("%s%s:" % (sp, key))
                out.extend(_emit(x, ind + 1))
            else:
                out.append("%s%s: %s" % (sp, key, _scalar(x)))
        return out
    if isinstance(v, list):
        for x in v:
            if isinstance(x, dict) and x:
                sub = _emit(x, ind + 1)
                out.append(sp + "-   " + sub[0].lstrip())
                out.extend(sub[1:])
            elif isinstance(x, list) and x:
                out.append(sp + "- [" + ", ".join(_scalar(y) for y in x) + "]")
            else:
                out.append(sp + "- " + _scalar(x))
        return out
    return [sp + _scalar(v)]


def _scalar(x):
    if isinstance(x, bool):
        return "True" if x else "False"
    if isinstance(x, int):
        return str(x)
    if isinstance(x, str):
        return _yaml_str(x)
    if isinstance(x, list) and not x:
        return "[]"
    if isinstance(x, dict) and not x:
        return "{}"
    if isinstance(x, list):
        return "[" + ", ".join(_scalar(y) for y in x) + "]"
    raise TypeError(x)


def dump_yaml(d):
    return "\n".join(_emit(d)) + "\n"


def _tool_place(r2, t):
    """where a package keeps the tool `t`: (path, libs); distinct tools of one package get distinct places"""
    path = r2.choice(["bin/" + t.lower(), "bin/" + t.lower(), "usr/bin", "bin", "."])
    libs = r2.choice([["lib/" + t.lower()], ["lib/" + t.lower(), "lib"], ["lib"], []])
    return {"path": path, "libs": libs}


def gen_project(r, odd_names=0.15, max_pkgs=9, r2=None):
    """`r2` (optional, a second stream so that the draws from `r` stay what they were): packages that provide
    several tools with different path / libs, used together by one step or by different steps of one job"""
    npk = r.randrange(2, max_pkgs + 1)
    # ---- recipes and their packages
    pool = list(PLAIN)
    r.shuffle(pool)
    oddpool = list(ODD)
    r.shuffle(oddpool)
    recipes = []          # [name, [sub names] or None]
    pk = []               # package records in *creation* order; shuffled into topological positions below
    while len(pk) < npk:
        if r.random() < odd_names and oddpool:
            base = oddpool.pop()
        elif pool:
            base = pool.pop()
        else:
            base = "r%d" % len(recipes)
        if r.random() < 0.12:
            base = r.choice(["cat", "grp"]) + "::" + base
        if any(x[0] == base for x in recipes):
            continue
        if r.random() < 0.45 and npk - len(pk) >= 2:
            k = min(npk - len(pk), r.choice([2, 2, 3]))
            subs = r.sample(SUBS, k)
            recipes.append([base, subs])
            for s in subs:
                pk.append({"recipe": base, "sub": s, "name": base + ("-" + s if s else "")})
        else:
            recipes.append([base, None])
            pk.append({"recipe": base, "sub": None, "name": base})
    # package names must be unique
    seen = set()
    pk = [p for p in pk if not (p["name"] in seen or seen.add(p["name"]))]
    r.shuffle(pk)   # position in this list = topological index
    npk = len(pk)
    tool_prov = {}
    sandbox_prov = None
    for i, p in enumerate(pk):
        p["idx"] = i
        p["empty"] = i > 0 and r.random() < 0.06
        p["vars"] = [v for v in VARS if r.random() < 0.45]
        p["tools"] = [t for t in TOOLS if r.random() < 0.45]
        p["provideTools"] = []
        if i > 0 and not p["empty"] and r.random() < 0.3:
            t = r.choice(TOOLS)
            p["provideTools"].append(t)
            tool_prov.setdefault(t, []).append(i)
        p["provideSandbox"] = False
        p["toolPlace"] = {}
        p["tools0"] = list(p["tools"])
        if r2 is not None:
            both = r2.random() < 0.6
            need = r2.random() < 0.5
            if p["provideTools"] and both:
                # one package, several tools: every tool has its own path and libs
                p["provideTools"] = sorted(set(p["provideTools"]) | set(TOOLS))
                for t in p["provideTools"]:
                    pl = _tool_place(r2, t)
                    if any(pl["path"] == o["path"] or pl["libs"] == o["libs"] for o in p["toolPlace"].values()):
                        pl = {"path": "bin/" + t.lower(), "libs": ["lib/" + t.lower()]}
                    p["toolPlace"][t] = pl
            if need and not p["provideTools"]:
                p["tools"] = list(TOOLS)
        if i > 0 and not p["empty"] and sandbox_prov is None and r.random() < 0.15:
            p["provideSandbox"] = True
            sandbox_prov = i
    # ---- dependencies: only to larger indexes
    for i, p in enumerate(pk):
        later = list(range(i + 1, npk))
        k = 0 if not later else min(len(later), r.choice([0, 1, 1, 2, 2, 3, 4] if i else [2, 3, 4, 5]))
        chosen = sorted(r.sample(later, k)) if k else []
        if r.random() < 0.5:
            r.shuffle(chosen)
        # providers first so that the following dependencies see the tools
        chosen.sort(key=lambda j: 0 if (pk[j]["provideTools"] or pk[j]["provideSandbox"]) and r.random() < 0.7 else 1)
        deps = []
        for j in chosen:
            q = pk[j]
            d = {"name": q["name"]}
            use = []
            if r.random() < 0.9:
                use.append("result")
            if q["provideTools"] and r.random() < 0.85:
                use.append("tools")
            if q["provideSandbox"] and r.random() < 0.85:
                use.append("sandbox")
            if r.random() < 0.15:
                use.append("deps")
            if use != ["result"] or r.random() < 0.2:
                d["use"] = use
            if ("tools" in use or "sandbox" in use) and r.random() < 0.8:
                d["forward"] = True
            if r.random() < 0.35:
                d["environment"] = {r.choice(VARS): r.choice(VALS)}
            if p["vars"] and r.random() < 0.3:
                v = r.choice(p["vars"])
                d["if"] = "$(%s,${%s:-},%s)" % (r.choice(["eq", "ne"]), v, r.choice(VALS[1:]))
            elif r.random() < 0.12:
                t = r.choice(TOOLS)
                d["if"] = "$(is-tool-defined,%s)" % t if r.random() < 0.5 else "$(not,$(is-tool-defined,%s))" % t
            if r.random() < 0.04:
                d["alias"] = q["name"].replace("::", "_") + "_al"
            if r.random() < 0.05:
                d["inherit"] = False
            if r.random() < 0.05:
                d["checkoutDep"] = True
            deps.append(d)
        p["depends"] = deps
    pk[0]["root"] = True
    for i, p in enumerate(pk):
        if i and r.random() < 0.15:
            p["root"] = True
    # ---- recipe bodies
    share_script = r.random() < 0.15
    all_det = r.random() < 0.5      # shared packages need deterministic checkouts below them
    files = {"config.yaml": dump_yaml({"bobMinimumVersion": BOB_MIN_VERSION})}
    byrecipe = {}
    for p in pk:
        byrecipe.setdefault(p["recipe"], []).append(p)

    def body(p):
        b = {}
        if p.get("root"):
            b["root"] = True
        if p["depends"]:
            b["depends"] = [(d["name"] if list(d) == ["name"] else d) for d in p["depends"]]
        if p["empty"]:
            return b
        tag = "shared-body" if (share_script and r.random() < 0.5) else p["name"]
        cond_tools = [{"name": t, "if": "$(is-tool-defined,%s)" % t} for t in p["tools"]]
        k = r.random()
        if k < 0.2:
            b["checkoutScript"] = "echo src %s ${V1:-}" % tag
            b["checkoutDeterministic"] = all_det or r.random() < 0.7
            if r.random() < 0.3:
                b["checkoutVars"] = ["V1"]
        elif k < 0.3:
            b["checkoutSCM"] = {"scm": "git", "url": "https://example.invalid/%s.git" % p["name"].replace("::", "/"),
                                **r.choice(([] if all_det else [{"branch": "main"}]) + [{"tag": "v1"}, {"commit": "0123456789abcdef0123456789abcdef01234567"}]),
                                "dir": "src"}
        elif k < 0.36:
            b["checkoutSCM"] = [{"scm": "url", "url": "https://example.invalid/%s.tgz" % tag.replace("::", "/"),
                                 "digestSHA1": "da39a3ee5e6b4b0d3255bfef95601890afd80709", "extract": False, "dir": "dl"},
                                {"scm": "git", "url": "https://example.invalid/x.git", "dir": "x", "if": "${V2:-}"}]
        if r.random() < 0.75:
            b["buildScript"] = "echo build %s $1 ${V2:-}" % tag
            if "V2" in p["vars"]:
                b["buildVars"] = ["V2"]
            # (the draw from `r` happens exactly when it did before `r2` existed)
            if (r.random() < 0.6) if p["tools0"] else (bool(cond_tools) and r2.random() < 0.6):
                b["buildTools"] = cond_tools[:1] if r2 is None or r2.random() < 0.6 else cond_tools
        b["packageScript"] = "echo package %s ${V1:-}" % tag
        if p["vars"]:
            b["packageVars"] = p["vars"]
        if cond_tools:
            b["packageTools"] = cond_tools
        if p["provideTools"]:
            b["provideTools"] = {t: ({"path": "bin", "libs": ["lib"]} if r.random() < 0.3 else ".") for t in p["provideTools"][:1]}
            for t in p["provideTools"]:
                if t in p["toolPlace"]:
                    b["provideTools"][t] = p["toolPlace"][t]
        if p["provideSandbox"]:
            b["provideSandbox"] = {"paths": ["/bin", "/usr/bin"], "mount": ["/etc", ["/tmp/x", "/x", ["nofail"]]]}
        if p["depends"] and r.random() < 0.1:
            b["provideDeps"] = ["*"]
        if all_det and r.random() < 0.2:
            b["shared"] = True
        if r.random() < 0.1:
            b["relocatable"] = False
        if r.random() < 0.1:
            b["fingerprintScript"] = "echo fp %s" % tag
            b["fingerprintIf"] = True
        if r.random() < 0.1:
            b["provideVars"] = {"PV": "v-" + p["name"]}
        if r.random() < 0.08:
            b["jobServer"] = True
        if r.random() < 0.08:
            b["packageNetAccess"] = True
        if r.random() < 0.1:
            b["metaEnvironment"] = {"LICENSE": "MIT-" + p["name"]}
        if r.random() < 0.1:
            b["privateEnvironment"] = {"PRIV": "p"}
        return b

    for rname, sub in recipes:
        ps = byrecipe.get(rname)
        if not ps:
            continue
        if sub is None:
            doc = body(ps[0])
        else:
            doc = {"multiPackage": {p["sub"]: body(p) for p in ps}}
            if r.random() < 0.3:
                doc["environment"] = {"V2": r.choice(VALS)}
        path = "recipes/" + rname.replace("::", "/") + ".yaml"
        files[path] = dump_yaml(doc)
    roots = [p["name"] for p in pk if p.get("root")]
    # paths below a root (first hop only; may be empty for some variants, which is fine)
    inner = []
    for p in pk:
        if p.get("root"):
            for d in p["depends"]:
                if "if" not in d:
                    inner.append(p["name"] + "/" + d.get("alias", d["name"]))
    return {"files": files, "roots": roots, "inner": inner, "packages": [p["name"] for p in pk],
            "recipes": [x[0] for x in recipes]}


def gen_toolbox_project(r, r2=None):
    """Tool and sandbox providers that are needed in several sandbox contexts.

    base packages <- tool providers (reached only through `use: [tools]` by most users) <- users.  Users are
    either built inside a sandbox (own `use: [sandbox]` dependency first, or below a root level sandbox that is
    forwarded to the following dependencies) or outside, and may depend on later plain users, so that one variant
    of a tool / user / sandbox provider is needed inside *and* outside of a sandbox and by several users.  For
    Jenkins these are different packages (different workspaces and jobs) with the same plain Variant-Id.

    `r2` (optional second stream, the draws from `r` are unchanged): a tool provider provides a second tool L<i>
    with its own path and libs next to T<i>; users of T<i> use L<i> too, in the same or in their other step."""
    files = {"config.yaml": dump_yaml({"bobMinimumVersion": BOB_MIN_VERSION})}
    nbase = r.randrange(1, 3)
    ntool = r.randrange(1, 3)
    nuser = r.randrange(2, 5)
    bases = ["base%d" % i for i in range(nbase)]
    for b in bases:
        doc = {"buildScript": "echo build %s" % b, "packageScript": "echo package %s" % b}
        if r.random() < 0.4:
            doc["checkoutDeterministic"] = True
            doc["checkoutScript"] = "echo src %s" % b
        files["recipes/%s.yaml" % b] = dump_yaml(doc)
    sandboxes = ["sb"] + (["sb2"] if r.random() < 0.25 else [])
    for sb in sandboxes:
        doc = {"buildScript": "echo build %s" % sb, "packageScript": "echo package %s" % sb,
               "provideSandbox": {"paths": ["/bin", "/usr/bin"]}}
        if r.random() < 0.4:
            doc["depends"] = [r.choice(bases)]
        files["recipes/%s.yaml" % sb] = dump_yaml(doc)
    tools = []
    second = {}           # tool name -> the other tool of its provider
    for i in range(ntool):
        t = "tool%d" % i
        doc = {"buildScript": "echo build %s" % t, "packageScript": "echo package %s" % t, "provideTools": {"T%d" % i: "."}}
        deps = r.sample(bases, r.randrange(0, nbase + 1))
        if i and r.random() < 0.4:
            # a tool that is built with another tool
            deps.append({"name": "tool0", "use": ["tools"]})
            doc["buildTools"] = ["T0"]
        if deps:
            doc["depends"] = deps
        if r2 is not None and r2.random() < 0.7:
            doc["provideTools"] = {"T%d" % i: r2.choice([".", {"path": "bin/t%d" % i, "libs": ["lib/t%d" % i]}]),
                                   "L%d" % i: {"path": "bin/l%d" % i, "libs": r2.choice([["lib/l%d" % i], ["lib/l%d" % i, "lib"], []])}}
            second["T%d" % i] = "L%d" % i
        files["recipes/%s.yaml" % t] = dump_yaml(doc)
        tools.append((t, "T%d" % i))
    users = ["u%d" % i for i in range(nuser)]
    # users with a sandbox of their own are only named by the root, before the root's own sandbox (see below)
    own_sandbox = {u: r.random() < 0.45 for u in users}
    for i, u in enumerate(users):
        deps = []
        own = own_sandbox[u]
        if own:
            deps.append({"name": r.choice(sandboxes), "use": ["sandbox"], "forward": True})
        used = r.sample(tools, r.randrange(1, len(tools) + 1))
        for (t, tn) in used:
            deps.append({"name": t, "use": ["tools"] if r.random() < 0.8 else ["result", "tools"]})
        for v in users[i + 1:]:
            if not own_sandbox[v] and r.random() < 0.35:
                deps.append(v)
        if r.random() < 0.3:
            deps.append(r.choice(bases))
        doc = {"depends": deps, "buildScript": "echo build %s" % u, "packageScript": "echo package %s" % u}
        where = r.choice(["buildTools", "packageTools"])
        doc[where] = [tn for (_, tn) in used]
        more = [second[tn] for (_, tn) in used if tn in second]
        if more:
            k = r2.random()
            if k < 0.45:
                doc[where] = doc[where] + more
            elif k < 0.9:
                doc["packageTools" if where == "buildTools" else "buildTools"] = more
        files["recipes/%s.yaml" % u] = dump_yaml(doc)
    # root: sandboxed users first (outside of any outer sandbox), then optionally a sandbox for the rest
    first = [u for u in users if own_sandbox[u]]
    rest = [u for u in users if not own_sandbox[u]]
    r.shuffle(first)
    r.shuffle(rest)
    deps = list(first)
    k = r.randrange(0, len(rest) + 1)
    deps += rest[:k]
    if r.random() < 0.6 or not first:
        deps.append({"name": r.choice(sandboxes), "use": ["sandbox"], "forward": True})
    deps += rest[k:]
    if r.random() < 0.3:
        t, tn = r.choice(tools)
        deps.append({"name": t, "use": ["tools"]})
        rootdoc = {"root": True, "depends": deps, "buildTools": [tn]}
    else:
        rootdoc = {"root": True, "depends": deps}
    rootdoc.update({"buildScript": "echo build root", "packageScript": "echo package root"})
    files["recipes/root.yaml"] = dump_yaml(rootdoc)
    roots = ["root"]
    inner = ["root/" + u for u in users]
    return {"files": files, "roots": roots, "inner": inner, "packages": ["root"] + users + [t for t, _ in tools] + bases + sandboxes,
            "recipes": ["root"] + users}


def gen_case_options(r, proj):
    """root selection (order matters), prefix, isolate regex, description mode, sandbox mode"""
    cand = list(proj["roots"])
    if proj["inner"] and r.random() < 0.4:
        cand += r.sample(proj["inner"], min(len(proj["inner"]), r.randrange(1, 3)))
    k = r.randrange(1, len(cand) + 1)
    roots = r.sample(cand, k)
    if proj["roots"][0] not in roots and r.random() < 0.7:
        roots.insert(r.randrange(len(roots) + 1), proj["roots"][0])
    iso = None
    x = r.random()
    if x < 0.12:
        iso = ".*"
    elif x < 0.3:
        iso = r.choice(["^" + n.split("-")[0] for n in proj["packages"]] + ["-dev", "-dev$", "-tgt$", "-[ab]$", "-x-", "a$", "b|x", "^.$"])
    return {"roots": roots, "prefix": r.choice(["", "", "", "pre-", "P.", "j_"]), "isolate": iso,
            "short": r.choice([False, False, True, None]), "sandbox": r.choice(["yes", "yes", "no", "slim"])}
