"""Generated Bob projects for C07 (binary artifact reuse) and a runner for real invocations.

* symbolic project = packages (import-SCM sources, optional checkout script, build and package scripts,
  strong / weak tools, variables, optional host fingerprint `echo $FAKE_HOST`, relocatable flag) plus
  the edit kinds of the property's quantifier (sources, scripts, consumed variables, strong tools,
  fingerprint, reverts).  `render(proj, dir, archive)` writes config, recipes and sources.
* every script is real bash and writes a canonical manifest (script id, declared variables, content of
  every input, content of strong tools, `$FAKE_HOST` for fingerprinted packages), so that package results are
  comparable between workspaces at different locations and differ whenever something that is *tracked* differs.
* `World(tmp, repo)`: one LocalArchive directory and any number of workspaces at different absolute paths;
  `ws.run(...)` executes one real `bob dev` / `bob build` through harness/gen/c07_child.py and returns the
  recorded event log, the reachable steps, the persisted state and the dist manifests.
"""
import copy
import hashlib
import json
import os
import pickle
import shutil
import subprocess
import sys

HERE = os.path.dirname(os.path.abspath(__file__))
CHILD = os.path.join(HERE, "c07_child.py")
VARS = ["V0", "V1", "V2"]
VALUES = ["a", "b", "c c", ""]
MODES = ["yes", "deps", "forced", "forced-deps", "forced-fallback", "packages"]

# ----------------------------------------------------------------------------------- generator


def gen_project(r, npkgs=None):
    n = npkgs or r.choice([2, 3, 3, 4])
    names = ["p%d" % i for i in range(n)]
    proj = {"pkgs": {}, "env": {}, "serial": 1}
    if r.random() < 0.6:
        proj["env"][r.choice(VARS)] = r.choice(VALUES)
    for i, name in enumerate(names):
        later = names[i + 1:]
        deps = [d for d in later if r.random() < (0.8 if i == 0 else 0.45)]
        if i == 0 and later and not deps:
            deps = [later[0]]
        src = None
        if r.random() < 0.75 or i == n - 1:
            src = {"dir": r.choice([".", ".", "imp"]), "files": {name + ".id": name, "a.txt": "a1"}}
        co = None
        if r.random() < 0.3:
            co = {"id": 1}
        pkg = {"deps": deps, "src": src, "co": co, "bid": 1, "pid": 1,
               "bvars": r.sample(VARS, r.randrange(0, 3)), "pvars": r.sample(VARS, r.randrange(0, 2)),
               "penv": {}, "tool": None, "useTools": [], "weakTools": [],
               "fingerprint": r.random() < 0.3, "relocatable": True}
        if r.random() < 0.3:
            pkg["penv"][r.choice(VARS)] = r.choice(VALUES)
        proj["pkgs"][name] = pkg
    for name in names:
        pkg = proj["pkgs"][name]
        for d in pkg["deps"]:
            if r.random() < 0.4:
                dp = proj["pkgs"][d]
                if dp["tool"] is None:
                    dp["tool"] = {"path": "b1"}
                pkg["useTools"].append(d)
                if r.random() < 0.3:
                    pkg["weakTools"].append(d)
    return proj


EDIT_KINDS = ["src-dir", "bscript", "pscript", "coscript", "var-value", "var-list", "dep-add", "dep-remove", "tool-use",
              "tool-weak", "tool-path", "src-modify", "src-modify", "src-modify", "src-add", "src-delete",
              "fingerprint", "revert", "noop"]
# edits that change a Build-Id but (typically) no Variant-Id: only the build-id comparison can notice them
SRC_KINDS = ["src-modify", "src-add", "src-delete"]


def edit(r, proj, history, kinds=None):
    """returns (new project, edit description); `history` = earlier project states (for reverts)"""
    p = copy.deepcopy(proj)
    p["serial"] = max(h["serial"] for h in history + [proj]) + 1
    names = list(p["pkgs"])
    for _ in range(40):
        kind = r.choice(kinds or EDIT_KINDS)
        name = r.choice(names)
        pkg = p["pkgs"][name]
        idx = names.index(name)
        ser = p["serial"]
        if kind == "bscript":
            pkg["bid"] = ser
            return p, [kind, name]
        if kind == "pscript":
            pkg["pid"] = ser
            return p, [kind, name]
        if kind == "coscript":
            if pkg["co"] is None:
                pkg["co"] = {"id": ser}
            elif r.random() < 0.3:
                pkg["co"] = None
            else:
                pkg["co"]["id"] = ser
            return p, [kind, name]
        if kind == "var-value":
            v = r.choice(VARS)
            val = r.choice(VALUES) + r.choice(["", str(ser)])
            if r.random() < 0.5:
                pkg["penv"][v] = val
                return p, [kind, name, v, val]
            p["env"][v] = val
            return p, [kind, "*", v, val]
        if kind == "var-list":
            which = r.choice(["bvars", "pvars"])
            v = r.choice(VARS)
            if v in pkg[which]:
                pkg[which].remove(v)
            else:
                pkg[which].append(v)
            return p, [kind, name, which, v]
        if kind == "dep-add":
            cands = [d for d in names[idx + 1:] if d not in pkg["deps"]]
            if cands:
                d = r.choice(cands)
                pkg["deps"].insert(r.randrange(len(pkg["deps"]) + 1), d)
                return p, [kind, name, d]
        if kind == "dep-remove" and len(pkg["deps"]) > (1 if idx == 0 else 0):
            d = r.choice(pkg["deps"])
            pkg["deps"].remove(d)
            for l in ("useTools", "weakTools"):
                if d in pkg[l]:
                    pkg[l].remove(d)
            return p, [kind, name, d]
        if kind == "tool-use" and pkg["deps"]:
            d = r.choice(pkg["deps"])
            if d in pkg["useTools"]:
                pkg["useTools"].remove(d)
                if d in pkg["weakTools"]:
                    pkg["weakTools"].remove(d)
            else:
                if p["pkgs"][d]["tool"] is None:
                    p["pkgs"][d]["tool"] = {"path": "b1"}
                pkg["useTools"].append(d)
            return p, [kind, name, d]
        if kind == "tool-weak" and pkg["useTools"]:
            d = r.choice(pkg["useTools"])
            if d in pkg["weakTools"]:
                pkg["weakTools"].remove(d)
            else:
                pkg["weakTools"].append(d)
            return p, [kind, name, d]
        if kind == "tool-path" and pkg["tool"]:
            pkg["tool"]["path"] = "b%d" % ser
            return p, [kind, name]
        if kind in SRC_KINDS and pkg["src"]:
            files = pkg["src"]["files"]
            if kind == "src-modify":
                cands = [fn for fn in sorted(files) if not fn.endswith(".id")]
                if not cands:
                    files["a.txt"] = "m%d" % ser
                else:
                    files[r.choice(cands)] = "m%d" % ser
            elif kind == "src-add":
                files[r.choice(["n%d.txt" % ser, "sub/n%d.txt" % ser])] = "n%d" % ser
            else:
                cands = [fn for fn in sorted(files) if not fn.endswith(".id")]
                if not cands:
                    continue
                del files[r.choice(cands)]
            return p, [kind, name]
        if kind == "src-dir" and pkg["src"]:
            pkg["src"]["dir"] = "imp" if pkg["src"]["dir"] == "." else "."
            return p, [kind, name]
        if kind == "fingerprint":
            pkg["fingerprint"] = not pkg["fingerprint"]
            return p, [kind, name]
        if kind == "revert" and history:
            i = r.randrange(len(history))
            q = copy.deepcopy(history[i])
            q["serial"] = p["serial"]
            return q, [kind, i]
        if kind == "noop":
            return p, [kind]
    return p, ["noop"]


def state_key(proj):
    """identity of a project state (everything but the edit counter)"""
    q = {k: v for k, v in proj.items() if k != "serial"}
    return hashlib.sha1(json.dumps(q, sort_keys=True).encode()).hexdigest()[:12]


# ----------------------------------------------------------------------------------- rendering

DUMP_FN = r'''shopt -s globstar nullglob dotglob
dump() { local f l; if [ -d "$1" ]; then for f in "$1"/**; do if [ -f "$f" ]; then echo "f ${f#"$1"/}"; while IFS= read -r l || [ -n "$l" ]; do echo " |$l"; done < "$f"; fi; done; else echo "nodir"; fi; }
'''


def _vars(vs):
    return "".join('echo "%s=${%s-<unset>}"\n' % (v, v) for v in sorted(vs))


def render_recipe(name, pkg, proj, is_root):
    rec = {}
    if is_root:
        rec["root"] = True
    deps = []
    for d in pkg["deps"]:
        use = ["result"]
        if d in pkg["useTools"]:
            use.append("tools")
        if d in pkg.get("toolOnly", []):
            use = ["tools"]
        deps.append({"name": d, "use": use})
    if deps:
        rec["depends"] = deps
    if pkg["penv"]:
        rec["privateEnvironment"] = dict(pkg["penv"])
    if pkg["tool"]:
        rec["provideTools"] = {"t_" + name: pkg["tool"]["path"]}
    if pkg["src"]:
        rec["checkoutSCM"] = {"scm": "import", "url": "src/" + name, "dir": pkg["src"]["dir"], "prune": True}
    if pkg["co"]:
        # the generated file lives inside the (pruned) import directory: Bob never cleans a checkout workspace, a
        # file left by a script that is later removed from the recipe would make the sources - and with them every
        # Build-Id above - depend on the history of the workspace instead of on the project state
        gdir = pkg["src"]["dir"] if pkg["src"] else "."
        rec["checkoutDeterministic"] = True
        rec["checkoutScript"] = "mkdir -p %s\necho \"C %s %d\" > %s/gen.txt\n" % (gdir, name, pkg["co"]["id"], gdir)
    strong = ["t_" + d for d in pkg["useTools"] if d not in pkg["weakTools"]]
    weak = ["t_" + d for d in pkg["useTools"] if d in pkg["weakTools"]]
    bvars = sorted(set(pkg["bvars"]))
    if bvars:
        rec["buildVars"] = bvars
    if strong:
        rec["buildTools"] = strong
    if weak:
        rec["buildToolsWeak"] = weak
    # strong tools: location inside the providing package and its content are part of the result;
    # weak tools: only the fact that the tool is there (by name)
    tool_lines = "".join('tp="${BOB_TOOL_PATHS[%s]}"; echo "T %s ${tp##*/}"; dump "${tp%%/*}"\n' % (t, t) for t in strong)
    tool_lines += "".join('[ -n "${BOB_TOOL_PATHS[%s]+x}" ] && echo "W %s"\n' % (t, t) for t in weak)
    fp_line = 'echo "HOST=${FAKE_HOST-<unset>}"\n' if pkg["fingerprint"] else ""
    rec["buildScript"] = (DUMP_FN + "OUT=m\necho \"B %s %d\" > $OUT\n" % (name, pkg["bid"])
                          + "{\n" + _vars(bvars) + fp_line + tool_lines
                          + 'for a in "$@"; do echo "A"; dump "$a"; done\n} >> $OUT\n')
    pvars = sorted(set(pkg["pvars"]))
    if pvars:
        rec["packageVars"] = pvars
    rec["packageScript"] = (DUMP_FN + "OUT=m\necho \"P %s %d\" > $OUT\n" % (name, pkg["pid"])
                            + "{\n" + _vars(pvars) + 'dump "$1"\n} >> $OUT\n')
    if pkg["fingerprint"]:
        rec["fingerprintIf"] = True
        rec["fingerprintScript"] = 'echo "host:${FAKE_HOST-<unset>}"\n'
    if not pkg["relocatable"]:
        rec["relocatable"] = False
    return json.dumps(rec)   # JSON is YAML


def render(proj, root, archive=None, flags=None):
    """(re)write config, recipes and import sources of the project state"""
    os.makedirs(root, exist_ok=True)
    with open(os.path.join(root, "config.yaml"), "w") as f:
        f.write(json.dumps({"bobMinimumVersion": "0.24"}))
    dflt = {"whitelist": ["FAKE_HOST", "PATH"]}
    if proj["env"]:
        dflt["environment"] = dict(proj["env"])
    if archive:
        spec = {"backend": "file", "path": archive}
        if flags:
            spec["flags"] = list(flags)
        dflt["archive"] = spec
    with open(os.path.join(root, "default.yaml"), "w") as f:
        f.write(json.dumps(dflt))
    for sub in ("recipes", "src"):
        shutil.rmtree(os.path.join(root, sub), ignore_errors=True)
        os.makedirs(os.path.join(root, sub))
    names = list(proj["pkgs"])
    for name, pkg in proj["pkgs"].items():
        with open(os.path.join(root, "recipes", name + ".yaml"), "w") as f:
            f.write(render_recipe(name, pkg, proj, name == names[0]))
        if pkg["src"]:
            d = os.path.join(root, "src", name)
            os.makedirs(d, exist_ok=True)
            for fn, text in pkg["src"]["files"].items():
                fp = os.path.join(d, fn)
                os.makedirs(os.path.dirname(fp), exist_ok=True)
                with open(fp, "w") as f:
                    f.write(text + "\n")


# ----------------------------------------------------------------------------------- snapshots

def snapshot(path):
    """canonical content of a directory tree: sorted (relpath, kind, data); None if missing"""
    if not os.path.isdir(path) or os.path.islink(path):
        if os.path.lexists(path):
            return "not-a-dir"
        return None
    items = []
    for dp, dns, fns in os.walk(path):
        dns.sort()
        rel = os.path.relpath(dp, path)
        for dn in list(dns):
            full = os.path.join(dp, dn)
            if os.path.islink(full):
                items.append([os.path.normpath(os.path.join(rel, dn)), "l", os.readlink(full)])
                dns.remove(dn)
            else:
                items.append([os.path.normpath(os.path.join(rel, dn)), "d", ""])
        for fn in sorted(fns):
            full = os.path.join(dp, fn)
            if os.path.islink(full):
                items.append([os.path.normpath(os.path.join(rel, fn)), "l", os.readlink(full)])
            else:
                try:
                    with open(full, "rb") as f:
                        data = f.read()
                except OSError:
                    data = b"<unreadable>"
                x = "x" if os.stat(full).st_mode & 0o100 else "f"
                items.append([os.path.normpath(os.path.join(rel, fn)), x, data.decode("utf8", "replace")])
    items.sort()
    return items


def snap_id(snap):
    if snap is None:
        return None
    return hashlib.sha1(json.dumps(snap).encode()).hexdigest()[:16]


def load_state(root):
    p = os.path.join(root, ".bob-state.pickle")
    try:
        if os.path.exists(p):
            with open(p, "rb") as f:
                return pickle.load(f)
    except Exception:  # noqa
        return None
    return None


# ----------------------------------------------------------------------------------- runner

_SERVERS = {}


def _server(repo):
    key = (os.getpid(), repo)
    s = _SERVERS.get(key)
    if s is not None and s.poll() is None:
        return s
    env = dict(os.environ)
    env["PYTHONPATH"] = os.path.join(repo, "pym")
    env["PYTHONDONTWRITEBYTECODE"] = "1"
    env.pop("MAKEFLAGS", None)
    env.pop("FAKE_HOST", None)
    s = subprocess.Popen([sys.executable, CHILD, "--server"], stdin=subprocess.PIPE, stdout=subprocess.PIPE,
                         stderr=subprocess.DEVNULL, env=env, text=True, start_new_session=True)
    line = _readline(s, 300)
    if line is None or line.strip() != "ready":
        s.kill()
        raise TimeoutError("c07 server did not start: %r" % line)
    _SERVERS[key] = s
    return s


def _readline(s, timeout):
    """one line from the server's stdout, None on timeout"""
    import select
    r, _, _ = select.select([s.stdout], [], [], timeout)
    if not r:
        return None
    return s.stdout.readline()


def shutdown_servers():
    for k, s in list(_SERVERS.items()):
        if k[0] == os.getpid():
            try:
                s.stdin.close()
                s.wait(timeout=5)
            except Exception:  # noqa
                s.kill()
            del _SERVERS[k]


def run_unit(repo, root, cases, timeout=300):
    """`LocalBuilder._downloadPackage` alone on scripted cases (see c07_child.run_unit)"""
    env = dict(os.environ)
    env["PYTHONPATH"] = os.path.join(repo, "pym")
    env["PYTHONDONTWRITEBYTECODE"] = "1"
    os.makedirs(root, exist_ok=True)
    p = subprocess.run([sys.executable, CHILD, "--unit"], input=json.dumps({"root": root, "cases": cases}).encode(),
                       stdout=subprocess.PIPE, stderr=subprocess.PIPE, env=env, timeout=timeout)
    if p.returncode != 0:
        raise RuntimeError("c07 unit child failed: " + p.stderr.decode()[-2000:])
    return json.loads(p.stdout.decode())


def archive_path(archive, bid_hex, suffix=".tgz"):
    n = bid_hex + "-1"
    return os.path.join(archive, n[0:2], n[2:4], n[4:] + suffix)


class Workspace:
    """one project directory (at its own absolute path) with real Bob invocations"""

    def __init__(self, world, root):
        self.world = world
        self.root = root
        self.n = 0
        self.scratch = root + ".run"
        os.makedirs(root, exist_ok=True)
        os.makedirs(self.scratch, exist_ok=True)
        self.proj = None

    def render(self, proj, archive=True, flags=None):
        self.proj = proj
        render(proj, self.root, self.world.archive if archive else None, flags)

    def run(self, develop=True, download="no", upload=False, host="h1", extra=(), timeout=90, target=None):
        """one invocation; returns the observation dict"""
        self.n += 1
        names = list(self.proj["pkgs"])
        argv = [target or names[0], "--download", download]
        if upload:
            argv.append("--upload")
        argv += list(extra)
        base = os.path.join(self.scratch, "inv%d" % self.n)
        env = {"FAKE_HOST": host}
        job = {"cwd": self.root, "develop": develop, "argv": argv, "env": env, "out": base + ".out",
               "res": base + ".json", "timeout": timeout, "bobroot": os.path.join(self.world.repo, "bob")}
        try:
            s = _server(self.world.repo)
            s.stdin.write(json.dumps(job) + "\n")
            s.stdin.flush()
            line = _readline(s, timeout + 60)
        except (TimeoutError, OSError):
            line = None
        if not line:
            # the server hangs or died: give up on it, the caller treats this as a skipped invocation
            for k, v in list(_SERVERS.items()):
                if k[0] == os.getpid():
                    v.kill()
                    del _SERVERS[k]
            st = {"wait": "timeout"}
        else:
            st = json.loads(line)
        out = {"wait": st["wait"], "rc": None, "error": None, "log": [], "dump": None, "stat": None, "argv": argv,
               "host": host, "develop": develop}
        if os.path.exists(job["res"]):
            with open(job["res"]) as f:
                out.update(json.load(f))
        if os.path.exists(job["res"] + ".log"):
            with open(job["res"] + ".log") as f:
                out["log"] = [json.loads(l) for l in f if l.strip()]
        if os.path.exists(job["res"] + ".dump"):
            with open(job["res"] + ".dump") as f:
                out["dump"] = json.load(f)
        try:
            with open(job["out"], errors="replace") as f:
                out["stdout"] = f.read()
        except OSError:
            out["stdout"] = ""
        if out["rc"] is None:
            out["rc"] = "timeout" if st["wait"] == "timeout" else st["wait"]
        return out

    def dist(self, path):
        return snapshot(os.path.join(self.root, path))

    def state(self):
        return load_state(self.root) or {}

    def destroy(self):
        shutil.rmtree(self.root, ignore_errors=True)
        shutil.rmtree(self.scratch, ignore_errors=True)


class World:
    def __init__(self, tmp, repo):
        self.tmp = tmp
        self.repo = repo
        self.archive = os.path.join(tmp, "archive")
        os.makedirs(self.archive, exist_ok=True)
        self.k = 0

    def workspace(self, label):
        """a fresh workspace; the directory depth and name differ per workspace"""
        self.k += 1
        sub = ["w%d-%s" % (self.k, label)] + ["n%d" % i for i in range(self.k % 3)]
        return Workspace(self, os.path.join(self.tmp, *sub, "prj"))

    def artifacts(self):
        out = []
        for dp, dns, fns in os.walk(self.archive):
            for fn in fns:
                out.append(os.path.join(dp, fn))
        return sorted(out)

    def destroy(self):
        shutil.rmtree(self.tmp, ignore_errors=True)


# ----------------------------------------------------------------------------------- reading an observation

def pkg_steps(obs):
    """package steps of the dump: path -> step"""
    return {p: s for p, s in (obs["dump"] or {"steps": {}})["steps"].items() if s["kind"] == "package"}


def final_bids(obs):
    """last Build-Id computed per step path in the invocation (after a restart the later round wins)"""
    out = {}
    for e in obs["log"]:
        if e[0] == "bid":
            out[e[1]] = e[3]
    return out


def ran(obs, script=None):
    return [(e[1], e[2]) for e in obs["log"] if e[0] == "run" and (script is None or e[2] == script)]
