"""Small self-contained generator of Bob projects and recipe edit histories for C16.

A project is a plain dict (`spec`) that is rendered to `recipes/*.yaml`:

  root            root recipe, depends on the apps (order matters for the traversal)
  app1..app6      depend on `lib` (and sometimes `grp::leaf`, `mp-x`, `mp-y`, `foo`, `foo-bar`, twins)
                  and hand a value of V down (`environment`), so `lib` exists in as many variants as
                  there are distinct values; `tool` is used as tools-only dependency
  lib, base       use V in their build script (buildVars) -> many variants per recipe
  grp::leaf       recipe in a sub directory ("::" in the name)
  mp              multiPackage with the siblings x and y (identical or different package steps)
  foo             multiPackage with the keys "" and "bar": packages `foo` and `foo-bar` of ONE recipe
                  with identical steps (the base directory of the shared key depends on the visit order)
  twinA, twinB    different recipes with byte-identical steps (same Variant-Ids)

Every script writes one marker file whose name is determined by the step variant, so the content
of a workspace tells which variant produced it.
"""
import copy

VALUES = ["a", "b", "c", "d"]
TAGS = ["t0", "t1", "t2"]
APPS = ["app1", "app2", "app3", "app4", "app5", "app6"]
OPTIONAL_DEPS = ["grp::leaf", "mp-x", "mp-y", "foo", "foo-bar", "twinA", "twinB", "base"]


def initial(r, git_urls=None, small=False):
    spec = {
        "apps": {},            # name -> {"v": value, "deps": [names], "tool": bool, "tag": tag}
        "order": [],           # order of the apps in root's depends
        "tags": {n: r.choice(TAGS) for n in ["lib", "base", "grp::leaf", "mp", "foo", "twin", "tool", "root"]},
        "src_tags": {n: r.choice(TAGS) for n in ["lib", "grp::leaf", "twin", "foo"]},
        "mp_same": r.random() < 0.5,       # siblings of mp have identical package steps
        "lib_dep_base": r.random() < 0.6,  # lib depends on base (V is inherited)
        "git_urls": list(git_urls or []),
        "git": r.choice(git_urls) if (git_urls and r.random() < 0.7) else None,   # lib's checkout is a git SCM
        "root_extra": [],      # optional deps of root itself
    }
    spec["small"] = small
    for a in r.sample(APPS, r.randrange(1, 3) if small else r.randrange(2, 5)):
        add_app(r, spec, a)
    spec["root_extra"] = r.sample(OPTIONAL_DEPS, r.randrange(0, 2 if small else 3))
    # identical packages from different recipes / identical multiPackage siblings together in one project
    if r.random() < 0.5:
        spec["root_extra"] += [x for x in r.sample(["twinA", "twinB"], 2) if x not in spec["root_extra"]]
    if r.random() < 0.3:
        spec["root_extra"] += [x for x in r.sample(["mp-x", "mp-y"], 2) if x not in spec["root_extra"]]
    return spec


def add_app(r, spec, a):
    spec["apps"][a] = {"v": r.choice(VALUES), "deps": r.sample(OPTIONAL_DEPS, r.randrange(0, 2 if spec.get("small") else 4)),
                       "tool": r.random() < 0.5, "tag": r.choice(TAGS), "lib": r.random() < 0.85}
    spec["order"].insert(r.randrange(len(spec["order"]) + 1), a)


def edit(r, spec):
    """one random edit; returns (new spec, kind)"""
    s = copy.deepcopy(spec)
    for _ in range(20):
        k = r.choice(["value", "value", "add_app", "del_app", "shuffle", "tag", "src_tag", "mp", "dep", "dep",
                      "root_extra", "libbase", "tool", "lib", "git"])
        if k == "value" and s["apps"]:
            a = r.choice(sorted(s["apps"]))
            s["apps"][a]["v"] = r.choice([v for v in VALUES if v != s["apps"][a]["v"]])
        elif k == "add_app" and len(s["apps"]) < (3 if s.get("small") else len(APPS)):
            add_app(r, s, r.choice([a for a in APPS if a not in s["apps"]]))
        elif k == "del_app" and len(s["apps"]) > 1:
            a = r.choice(sorted(s["apps"]))
            del s["apps"][a]
            s["order"].remove(a)
        elif k == "shuffle" and len(s["order"]) > 1:
            o = s["order"][:]
            r.shuffle(s["order"])
            for a in s["apps"].values():
                r.shuffle(a["deps"])
            r.shuffle(s["root_extra"])
            if o == s["order"]:
                continue
        elif k == "tag":
            n = r.choice(sorted(s["tags"]))
            s["tags"][n] = r.choice([t for t in TAGS if t != s["tags"][n]])
        elif k == "src_tag":
            n = r.choice(sorted(s["src_tags"]))
            s["src_tags"][n] = r.choice([t for t in TAGS if t != s["src_tags"][n]])
        elif k == "mp":
            s["mp_same"] = not s["mp_same"]
        elif k == "dep" and s["apps"]:
            a = s["apps"][r.choice(sorted(s["apps"]))]
            d = r.choice(OPTIONAL_DEPS)
            if d in a["deps"]:
                a["deps"].remove(d)
            else:
                a["deps"].insert(r.randrange(len(a["deps"]) + 1), d)
        elif k == "root_extra":
            d = r.choice(OPTIONAL_DEPS)
            if d in s["root_extra"]:
                s["root_extra"].remove(d)
            else:
                s["root_extra"].insert(r.randrange(len(s["root_extra"]) + 1), d)
        elif k == "libbase":
            s["lib_dep_base"] = not s["lib_dep_base"]
        elif k == "tool" and s["apps"]:
            a = s["apps"][r.choice(sorted(s["apps"]))]
            a["tool"] = not a["tool"]
        elif k == "git" and s["git_urls"]:
            s["git"] = r.choice([u for u in [None] + s["git_urls"] if u != s["git"]])
        elif k == "lib" and s["apps"]:
            a = s["apps"][r.choice(sorted(s["apps"]))]
            a["lib"] = not a["lib"]
        else:
            continue
        if s != spec:
            return s, k
    return s, "none"


def _build(tag, var=False):
    if var:
        return 'echo x > "b-%s-V${V:-none}"\n' % tag
    return 'echo x > "b-%s"\n' % tag


def _pkg(tag):
    return 'echo x > "p-%s"\n' % tag


def _src(tag):
    return 'echo x > "s-%s"\n' % tag


def render(spec):
    """-> {relative file name: yaml text}"""
    import yaml
    t, st = spec["tags"], spec["src_tags"]
    rec = {}
    root_deps = list(spec["order"]) + list(spec["root_extra"])
    rec["root"] = {"root": True, "depends": root_deps,
                   "buildScript": _build("root-" + t["root"]), "packageScript": _pkg("root-" + t["root"])}
    for a, d in spec["apps"].items():
        deps = []
        if d["lib"]:
            deps.append({"name": "lib", "environment": {"V": d["v"]}})
        for x in d["deps"]:
            if x == "base":
                deps.append({"name": "base", "environment": {"V": d["v"]}})
            else:
                deps.append(x)
        if d["tool"]:
            deps.append({"name": "tool", "use": ["tools"]})
        r = {"buildScript": _build(a + "-" + d["tag"]), "packageScript": _pkg(a + "-" + d["tag"])}
        if deps:
            r["depends"] = deps
        if d["tool"]:
            r["buildTools"] = ["thetool"]
        rec[a] = r
    lib = {"buildVars": ["V"], "buildScript": _build("lib-" + t["lib"], True), "packageScript": _pkg("lib-" + t["lib"])}
    if spec["git"]:
        lib["checkoutSCM"] = {"scm": "git", "url": spec["git"], "branch": "master", "dir": "g"}
    else:
        lib["checkoutScript"] = _src("lib-" + st["lib"])
    if spec["lib_dep_base"]:
        lib["depends"] = ["base"]
    rec["lib"] = lib
    rec["base"] = {"buildVars": ["V"], "buildScript": _build("base-" + t["base"], True),
                   "packageScript": _pkg("base-" + t["base"])}
    rec["grp/leaf"] = {"checkoutScript": _src("leaf-" + st["grp::leaf"]),
                       "buildScript": _build("leaf-" + t["grp::leaf"]), "packageScript": _pkg("leaf-" + t["grp::leaf"])}
    rec["mp"] = {"buildScript": _build("mp-" + t["mp"]),
                 "multiPackage": {"x": {"packageScript": _pkg("mp-" + t["mp"])},
                                  "y": {"packageScript": _pkg("mp-" + t["mp"] + ("" if spec["mp_same"] else "-y"))}}}
    rec["foo"] = {"checkoutScript": _src("foo-" + st["foo"]), "buildScript": _build("foo-" + t["foo"]),
                  "packageScript": _pkg("foo-" + t["foo"]),
                  "multiPackage": {"": {}, "bar": {}}}
    for n in ("twinA", "twinB"):
        rec[n] = {"checkoutScript": _src("twin-" + st["twin"]), "buildScript": _build("twin-" + t["twin"]),
                  "packageScript": _pkg("twin-" + t["twin"])}
    rec["tool"] = {"buildScript": _build("tool-" + t["tool"]), "packageScript": _pkg("tool-" + t["tool"]),
                   "provideTools": {"thetool": "."}}
    files = {"config.yaml": 'bobMinimumVersion: "1.0"\n'}
    for n, r in rec.items():
        files["recipes/%s.yaml" % n] = yaml.safe_dump(r, default_flow_style=False, sort_keys=True)
    return files
