"""Child-process helper of the C04 check: parse the Bob project in a directory through the public Python API
(RecipeSet.parse / generatePackages, exactly what every `bob` command does) and dump the complete package tree.

usage:  python c04_bobquery.py <request.json> <reply.json>

request: {"dir": project dir, "defines": {k: v}, "config": [names], "sandbox": bool,
          "mode": "normal" | "nomatch" | "nomemo", "queries": [package path queries]}
  mode "nomatch" disables the memo lookup of Recipe.prepare *from the outside* (no source hook): PackageMatcher.matches
  never hits; mode "nomemo" additionally makes Recipe.__corePackagesById never deduplicate.
reply:   {"dump": ..., "key": hex, "inputHash": hex, "files": [names], "rootEnv": {..}, "memo": {...}}
         or {"error": [kind, text]}

Must be a real file with a __main__ guard (Bob's process pool uses forkserver).
"""
import hashlib
import json
import os
import sys
import traceback


class NoDedup(dict):
    """stand-in for Recipe.__corePackagesById that never returns an earlier package"""

    def setdefault(self, key, value=None):
        return value


def disable_memo(I, dedup_too=True):
    if not hasattr(I, "PackageMatcher") or not hasattr(I.PackageMatcher, "matches"):
        raise RuntimeError("PackageMatcher.matches not found")
    I.PackageMatcher.matches = lambda self, *a, **k: False
    if not dedup_too:
        return
    orig_init = I.Recipe.__init__

    def init(self, *a, **k):
        orig_init(self, *a, **k)
        if not hasattr(self, "_Recipe__corePackagesById"):
            raise RuntimeError("Recipe.__corePackagesById not found")
        self._Recipe__corePackagesById = NoDedup()
    I.Recipe.__init__ = init


def hx(b):
    return b.hex() if isinstance(b, (bytes, bytearray)) else b


class Dumper:
    """walks the whole tree through the Package/Step API; every package is keyed by its stack path"""

    def __init__(self, limit=4000):
        self.ids = {}
        self.out = {}
        self.limit = limit

    def pid(self, p):
        i = p._getId()
        return self.ids.setdefault(i, len(self.ids))

    def tool(self, t):
        return {"step": self.stepref(t.getStep()), "path": t.getPath(), "libs": list(t.getLibs()),
                "net": t.getNetAccess(), "env": dict(sorted(t.getEnvironment().items())),
                "dep": sorted(t.getDependTools()), "depWeak": sorted(t.getDependToolsWeak())}

    def stepref(self, s):
        return ["/".join(s.getPackage().getStack()), s.getLabel(), hx(s.getVariantId())]

    def sandbox(self, sb):
        if sb is None:
            return None
        return {"step": self.stepref(sb.getStep()), "paths": list(sb.getPaths()),
                "mounts": [list(map(str, m)) for m in sb.getMounts()],
                "env": dict(sorted(sb.getEnvironment().items())), "enabled": sb.isEnabled(), "user": sb.getUser()}

    def step(self, s):
        d = {"valid": s.isValid(), "vid": hx(s.getVariantId()), "label": s.getLabel(),
             "det": s.isDeterministic(), "shared": s.isShared(), "reloc": s.isRelocatable(),
             "provTools": s.doesProvideTools()}
        d["args"] = [self.stepref(a) for a in s.getArguments()]
        d["tools"] = {n: self.tool(t) for n, t in sorted(s.getTools().items())}
        d["toolDep"] = sorted(s.toolDep)
        d["toolDepWeak"] = sorted(s.toolDepWeak)
        d["sandbox"] = self.sandbox(s.getSandbox())
        if s.isValid():
            d["env"] = dict(sorted(s.getEnv().items()))
            d["script"] = s.getScript()
            d["digestScript"] = s.getDigestScript()
            d["ws"] = s.getWorkspacePath()
            d["fp"] = s._getFingerprintScript()
        d["provDeps"] = [self.stepref(a) for a in s._getProvidedDeps()]
        d["allDeps"] = sorted(self.stepref(a) for a in s.getAllDepSteps())
        return d

    def package(self, p):
        path = "/".join(p.getStack())
        if path in self.out:
            return
        if len(self.out) >= self.limit:
            raise RuntimeError("tree too large")
        direct = p.getDirectDepSteps()
        indirect = p.getIndirectDepSteps()
        raw_sb = p._getSandboxRaw()
        self.out[path] = {
            "name": p.getName(), "recipe": p.getRecipe().getPackageName(), "alias": p.isAlias(),
            "id": self.pid(p), "meta": dict(sorted(p.getMetaEnv().items())),
            "reloc": p.isRelocatable(), "shared": p.isShared(),
            "direct": [self.stepref(s) for s in direct], "indirect": [self.stepref(s) for s in indirect],
            "all": [self.stepref(s) for s in p.getAllDepSteps()],
            "allTools": sorted(p._getAllTools().keys()),
            "rawSandbox": None if raw_sb is None else [hx(raw_sb.getStep().getVariantId()), list(raw_sb.getPaths()),
                                                       dict(sorted(raw_sb.getEnvironment().items()))],
            "states": {n: repr(sorted(getattr(s, "__dict__", {}).items())) for n, s in sorted(p.getPluginStates().items())},
            "checkout": self.step(p.getCheckoutStep()), "build": self.step(p.getBuildStep()),
            "dist": self.step(p.getPackageStep()),
        }
        for s in direct:
            self.package(s.getPackage())
        for s in indirect:
            self.package(s.getPackage())


def name_formatter(step, states):
    return "work/" + "/".join(step.getPackage().getStack()) + "/" + step.getLabel()


def err_kind(e):
    from bob.errors import BobError
    text = str(getattr(e, "slogan", e))
    return [type(e).__name__ if not isinstance(e, BobError) else "BobError:" + type(e).__name__, text[:300]]


def memo_stats(recipes):
    """how often which recipe was computed / how many matchers it holds (diagnostics for the histogram)"""
    out = {}
    try:
        for name in recipes.getRecipes():
            r = recipes.getRecipe(name)
            ms = getattr(r, "_Recipe__corePackagesByMatch", None)
            if ms is not None:
                out[name] = len(ms)
    except Exception:
        pass
    return out


def query(req):
    import bob
    import bob.input as I
    if req.get("mode") == "nomemo":
        disable_memo(I)
    elif req.get("mode") == "nomatch":
        disable_memo(I, dedup_too=False)
    os.chdir(req["dir"])
    loaded = []
    orig_ly, orig_lb = I.YamlCache.loadYaml, I.YamlCache.loadBinary

    def ly(self, name, *a, **k):
        loaded.append(name)
        return orig_ly(self, name, *a, **k)

    def lb(self, name, *a, **k):
        loaded.append(name)
        return orig_lb(self, name, *a, **k)
    I.YamlCache.loadYaml, I.YamlCache.loadBinary = ly, lb
    reply = {"inputHash": hx(bob.BOB_INPUT_HASH)}
    try:
        recipes = I.RecipeSet()
        recipes.setConfigFiles(req.get("config", []))
        recipes.parse(dict(req.get("defines", {})))
        packages = recipes.generatePackages(name_formatter, bool(req.get("sandbox")))
        reply["key"] = hx(packages.getCacheKey())
        reply["rootEnv"] = dict(recipes.getRootEnv().inspect())
        reply["files"] = sorted(set(n for n in loaded if os.path.exists(n)))
        d = Dumper()
        d.package(packages.getRootPackage())
        # graph queries (through .bob-tree.sqlite3)
        q = {}
        for path in req.get("queries", ["//*"]):
            q[path] = sorted("/".join(p.getStack()) for p in packages.queryPackagePath(path))
            q[path + " (tree)"] = sorted("/".join(stack) for stack, node in packages.queryTreePath(path, True))
        packages.close()
        reply["dump"] = {"packages": d.out, "queries": q}
        reply["memo"] = memo_stats(recipes)
    except Exception as e:  # noqa
        reply["error"] = err_kind(e)
        reply["trace"] = traceback.format_exc()[-1500:]
    return reply


def hermetic(req):
    # no user/global configuration, no inherited BOB_ variables
    os.environ["HOME"] = req.get("home", "/nonexistent")
    os.environ["XDG_CONFIG_HOME"] = os.path.join(os.environ["HOME"], ".config")
    for k in list(os.environ):
        if k.startswith("BOB_") and k != "BOB_VERIF_REPO":
            del os.environ[k]


def one(req, reply_path):
    hermetic(req)
    rep = query(req)
    with open(reply_path, "w") as f:
        json.dump(rep, f, sort_keys=True)


def serve():
    """zygote: the Bob modules are imported once; every request is answered by a freshly forked child, i.e. by a
    process in which no RecipeSet was ever created (same state as a new `bob` process after its imports)."""
    import bob.input  # noqa
    import bob.pathspec  # noqa
    for line in sys.stdin:
        line = line.strip()
        if not line:
            continue
        msg = json.loads(line)
        pid = os.fork()
        if pid == 0:
            code = 0
            try:
                devnull = os.open(os.devnull, os.O_WRONLY)
                os.dup2(devnull, 1)
                os.dup2(devnull, 2)
                one(msg["req"], msg["reply"])
            except BaseException:  # noqa
                code = 3
            os._exit(code)
        _, status = os.waitpid(pid, 0)
        sys.stdout.write("%d\n" % status)
        sys.stdout.flush()


if __name__ == "__main__":
    if sys.argv[1] == "--serve":
        serve()
    else:
        one(json.load(open(sys.argv[1])), os.path.abspath(sys.argv[2]))
