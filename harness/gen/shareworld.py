"""C15: a scratch world (shared store + projects) and real processes that run Bob's share / builder code
and can be stopped at the cut points of Model/Share.lean.

A `World` lives under one directory:
    store/                          the shared location (LocalShare path)
    proj<k>/dev/dist/p/1/workspace  workspace of project k  (ws id k < 100): local dir or symlink into the store
    src/<n>/workspace               scratch package results used by share-level installs (ws id 100+n)

`Child` forks a real process that executes ONE operation with the real code.  In controlled mode the
child stops before every OpenLocked open, before every other open() of repo.json in bob.share (the create-if-missing
step of __addPackage, which runs outside the lock), before every flock, after every unlock of a writable file,
before hashDirectoryWithSize (verification), before the publishing / collecting os.rename and before the
workspace os.symlink / os.unlink, reports where it is and waits for a byte on its control pipe.
"""
import errno
import json
import os
import re
import select
import shutil
import signal
import sys

ART_BASE = 1_000_000_000          # artificial mtimes (seconds): anything later than ART_LIMIT is "fresh"
ART_LIMIT = 1_500_000_000


def bid_bytes(n):
    return int(n).to_bytes(2, "big") + b"\x00" * 18


def bid_of_hex(h):
    return int(h[:4], 16)


def content_size(c):
    return 5 + (c * 7) % 23


def preload():
    """import everything the children need before forking (a child then starts in a few ms)"""
    import bob.share, bob.builder, bob.state, bob.tty, bob.utils, bob.errors  # noqa


class World:
    def __init__(self, root):
        preload()
        self.root = root
        self.store = os.path.join(root, "store")
        self.hash_of = {}          # content id -> directory hash (hex)
        self.content_of = {}       # hex -> content id
        self.tick = 0
        self.nsrc = 0
        self._final = {}
        self._hcache = {}
        os.makedirs(root, exist_ok=True)

    # ---------------------------------------------------------------- paths
    def proj(self, ws):
        return os.path.join(self.root, "proj%d" % ws)

    def ws_path(self, ws):
        if ws >= 100:
            return os.path.join(self.root, "src", str(ws - 100), "workspace")
        return os.path.join(self.proj(ws), "dev", "dist", "p", "1", "workspace")

    def ws_of_path(self, path):
        m = re.match(re.escape(self.root) + r"/proj(\d+)/dev/dist/p/1/workspace$", path)
        if m:
            return int(m.group(1))
        m = re.match(re.escape(self.root) + r"/src/(\d+)/workspace$", path)
        if m:
            return 100 + int(m.group(1))
        return path

    def final_path(self, bid):
        if bid not in self._final:
            from bob.share import LocalShare
            self._final[bid] = LocalShare({"path": self.store}).remoteName(bid_bytes(bid))
        return self._final[bid]

    def bid_of_final(self, path):
        """store/aa/bb/rest-3[/workspace] -> bid number or None"""
        from bob.share import SHARED_GENERATION
        rel = os.path.relpath(path, self.store)
        m = re.match(r"^([0-9a-f]{2})/([0-9a-f]{2})/([0-9a-f]{36})" + re.escape(SHARED_GENERATION) + r"(/workspace)?$", rel)
        return bid_of_hex(m.group(1) + m.group(2)) if m else None

    # ---------------------------------------------------------------- materialise inputs
    def fill(self, wsdir, content, audit=True):
        os.makedirs(wsdir, exist_ok=True)
        with open(os.path.join(wsdir, "c%d" % content), "wb") as f:
            f.write(b"x" * content_size(content))
        a = os.path.join(os.path.dirname(wsdir), "audit.json.gz")
        if audit:
            open(a, "wb").close()
        elif os.path.lexists(a):
            os.unlink(a)
        self.hash(content, wsdir)

    def hash(self, content, wsdir=None):
        if content not in self.hash_of:
            from bob.utils import hashDirectory
            if wsdir is None:
                wsdir = os.path.join(self.root, "hash", str(content))
                os.makedirs(wsdir)
                with open(os.path.join(wsdir, "c%d" % content), "wb") as f:
                    f.write(b"x" * content_size(content))
            h = hashDirectory(wsdir).hex()
            self.hash_of[content] = h
            self.content_of[h] = content
        return self.hash_of[content]

    def new_src(self, content, audit=True):
        n = self.nsrc
        self.nsrc += 1
        d = os.path.join(self.root, "src", str(n), "workspace")
        self.fill(d, content, audit)
        return 100 + n

    def make_local(self, ws, content):
        """project workspace as a freshly built local directory"""
        p = self.ws_path(ws)
        if os.path.islink(p):
            os.unlink(p)
        elif os.path.isdir(p):
            shutil.rmtree(p)
        a = os.path.join(os.path.dirname(p), "audit.json.gz")
        if os.path.lexists(a):
            os.unlink(a)
        self.fill(p, content, True)

    # ---------------------------------------------------------------- observation
    def normalise_mtimes(self):
        """map wall-clock mtimes of pkg.json files (final and temporary) to a logical clock"""
        if not os.path.isdir(self.store):
            return
        cands = []
        for a in os.listdir(self.store):
            pa = os.path.join(self.store, a)
            if a.startswith("tmp"):
                f = os.path.join(pa, "pkg", "pkg.json")
                if os.path.isfile(f):
                    cands.append(f)
            elif os.path.isdir(pa):
                for b in os.listdir(pa):
                    pb = os.path.join(pa, b)
                    if os.path.isdir(pb):
                        for c in os.listdir(pb):
                            f = os.path.join(pb, c, "pkg.json")
                            if os.path.isfile(f):
                                cands.append(f)
        fresh = []
        for f in cands:
            try:
                st = os.stat(f)
            except OSError:
                continue
            if st.st_mtime > ART_LIMIT:
                fresh.append((st.st_mtime_ns, f))
        for _, f in sorted(fresh):
            self.tick += 1
            t = (ART_BASE + self.tick) * 10 ** 9
            os.utime(f, ns=(t, t))

    def snapshot(self, bids, wss):
        from bob.utils import hashDirectory
        snap = {"storeExists": os.path.isdir(self.store)}
        rp = os.path.join(self.store, "repo.json")
        if not os.path.exists(rp):
            snap["repo"] = "absent"
        else:
            try:
                with open(rp) as f:
                    meta = json.load(f)
                snap["repo"] = [[bid_of_hex(k), v] for k, v in meta.get("pkgs", {}).items()]
            except ValueError:
                snap["repo"] = "torn"
        fin = []
        for b in bids:
            p = self.final_path(b)
            if not os.path.isdir(p):
                fin.append(None)
                continue
            d = {"audit": os.path.isfile(os.path.join(p, "audit.json.gz"))}
            w = os.path.join(p, "workspace")
            if os.path.isdir(w):
                names = sorted(os.listdir(w))
                d["ws"] = int(names[0][1:]) if len(names) == 1 and re.match(r"c\d+$", names[0]) else "?"
                st = os.stat(w)
                key = (st.st_ino, st.st_mtime_ns, st.st_ctime_ns) + tuple(
                    (e.name, e.stat(follow_symlinks=False).st_size, e.stat(follow_symlinks=False).st_mtime_ns,
                     e.stat(follow_symlinks=False).st_mode) for e in sorted(os.scandir(w), key=lambda e: e.name))
                if self._hcache.get(w, (None,))[0] != key:
                    self._hcache[w] = (key, hashDirectory(w).hex())
                d["ws_hash"] = self._hcache[w][1]
            else:
                d["ws"] = None
            pj = os.path.join(p, "pkg.json")
            if not os.path.isfile(pj):
                d["info"] = None
                d["mtime"] = 0
            else:
                d["mtime"] = os.stat(pj).st_mtime_ns
                try:
                    with open(pj) as f:
                        m = json.load(f)
                    d["info"] = {"hash": self.content_of.get(m.get("hash"), m.get("hash")), "hash_hex": m.get("hash"),
                                 "size": m.get("size"), "users": [self.ws_of_path(u) for u in m.get("users", [])]}
                except ValueError:
                    d["info"] = "torn"
            fin.append(d)
        snap["final"] = fin
        links = []
        for w in wss:
            p = self.ws_path(w)
            if os.path.islink(p):
                b = self.bid_of_final(os.readlink(p))
                links.append(b if b is not None else "?")
            else:
                links.append(None)
        snap["links"] = links
        if os.path.isdir(self.store):
            snap["leftover"] = sorted(a for a in os.listdir(self.store) if a.startswith("tmp"))
        else:
            snap["leftover"] = []
        return snap


# ---------------------------------------------------------------------- the child process

class _Chan:
    def __init__(self, ctrl_r, ev_w, free):
        self.ctrl_r, self.ev_w, self.free = ctrl_r, ev_w, free
        self.held = []

    def send(self, msg):
        os.write(self.ev_w, (json.dumps(msg) + "\n").encode())

    def wait(self):
        b = os.read(self.ctrl_r, 1)
        if not b:
            os._exit(0)

    def stop(self, kind, file=None, mode=None, at=None):
        if self.free:
            return
        self.send({"ev": "stop", "kind": kind, "file": file, "mode": mode, "at": at, "held": list(self.held)})
        self.wait()

    def blocked(self):
        self.send({"ev": "blocked"})
        self.wait()


class _Pkg:
    def getName(self):
        return "p"

    def getStack(self):
        return ["p"]


class _Step:
    def __init__(self, ws):
        self.ws = ws

    def getWorkspacePath(self):
        return self.ws

    def isShared(self):
        return True

    def getVariantId(self):
        return b"v" * 20

    def getPackage(self):
        return _Pkg()


def _classify_error(e):
    from bob.errors import BuildError
    if isinstance(e, BuildError):
        msg = str(e.slogan)
        for pat, kind in (("Corrupt meta info", "corruptMeta"), ("hash changed at destination", "hashChanged"),
                          ("Error installing shared package", "installOSError"),
                          ("Error inspecting workspace", "inspect")):
            if pat in msg:
                return kind, msg
        return "buildError", msg
    if isinstance(e, json.JSONDecodeError):
        return "jsonDecode", str(e)
    if isinstance(e, FileNotFoundError):
        fn = str(getattr(e, "filename", "") or "")
        if fn.endswith("repo.json"):
            return "fileNotFound", str(e)
        if getattr(e, "filename2", None):
            return "renameENOENT", str(e)
        return "unlinkMissing" if fn.endswith("workspace") else "fileNotFoundOther", str(e)
    if isinstance(e, FileExistsError):
        return "linkExists", str(e)
    if isinstance(e, TypeError):
        return "typeError", str(e)
    return type(e).__name__, str(e)


def _child(world, desc, ctrl_r, ev_w, free):
    import fcntl
    import bob.share as S
    chan = _Chan(ctrl_r, ev_w, free)
    store = world.store
    wsabs = world.ws_path(desc["ws"]) if "ws" in desc else None

    def fkind(name):
        base = os.path.basename(name)
        at = world.bid_of_final(os.path.dirname(name)) if base == "pkg.json" else None
        return base, at

    if not free:
        orig_enter, orig_lock, orig_unlock = S.OpenLocked.__enter__, S.lockFile, S.unlockFile
        orig_hash = S.hashDirectoryWithSize
        o_rename, o_symlink, o_unlink = os.rename, os.symlink, os.unlink

        in_enter = [False]

        def enter(self):
            base, at = fkind(self.fileName)
            chan.stop("open", base, self.mode, at)
            in_enter[0] = True
            try:
                return orig_enter(self)
            finally:
                in_enter[0] = False

        import builtins

        def plain_open(file, *a, **kw):
            # an open() in bob.share that is not the one of OpenLocked.__enter__: no lock protects it
            if not in_enter[0] and isinstance(file, str) and os.path.basename(file) == "repo.json":
                chan.stop("create", "repo.json", a[0] if a else kw.get("mode", "r"))
            return builtins.open(file, *a, **kw)

        def lock(fd, exclusive):
            base, at = fkind(fd.name)
            chan.stop("lock", base, "ex" if exclusive else "sh", at)
            while True:
                try:
                    fcntl.flock(fd, (fcntl.LOCK_EX if exclusive else fcntl.LOCK_SH) | fcntl.LOCK_NB)
                    break
                except BlockingIOError:
                    chan.blocked()
            fcntl.flock(fd, fcntl.LOCK_UN)
            orig_lock(fd, exclusive)
            chan.held.append([base, "ex" if exclusive else "sh"])

        def unlock(fd):
            base, at = fkind(fd.name)
            orig_unlock(fd)
            for h in chan.held:
                if h[0] == base:
                    chan.held.remove(h)
                    break
            if fd.mode != "r":
                chan.stop("unlocked", base, fd.mode, at)

        def hashdir(*a, **kw):
            chan.stop("verify")
            return orig_hash(*a, **kw)

        def rename(src, dst, **kw):
            if not kw and isinstance(src, str) and isinstance(dst, str):
                bd, bs = world.bid_of_final(dst), world.bid_of_final(src)
                if bd is not None and not dst.endswith("workspace"):
                    chan.stop("rename", "publish", None, bd)
                elif bs is not None and not src.endswith("workspace") and dst.startswith(store + os.sep):
                    chan.stop("rename", "collect", None, bs)
            return o_rename(src, dst, **kw)

        def symlink(src, dst, **kw):
            if isinstance(dst, str) and not dst.endswith("audit.json.gz") and isinstance(src, str) \
                    and src.startswith(store + os.sep):
                chan.stop("symlink", None, None, world.bid_of_final(src))
            return o_symlink(src, dst, **kw)

        def unlink(path, **kw):
            if not kw and isinstance(path, str) and wsabs is not None and os.path.abspath(path) == wsabs:
                chan.stop("unlink")
            return o_unlink(path, **kw)

        S.OpenLocked.__enter__ = enter
        S.open = plain_open              # module global: shadows the builtin inside bob.share only
        S.lockFile, S.unlockFile, S.hashDirectoryWithSize = lock, unlock, hashdir
        os.rename, os.symlink, os.unlink = rename, symlink, unlink

    removed = []
    res = None
    chan.wait()                                   # the process starts when it is scheduled for the first time
    try:
        spec = {"path": store, "autoClean": desc.get("autoClean", True)}
        if desc.get("quota") is not None:
            spec["quota"] = desc["quota"]
        share = S.LocalShare(spec)
        op = desc["op"]
        if op == "dropws":
            p = world.proj(desc["ws"])
            if os.path.isdir(p):
                shutil.rmtree(p)
            res = {"r": "dropped"}
        elif op == "gc":
            r = share.gc(desc["pruneUsed"], desc["pruneUnused"], desc["dryRun"],
                         lambda x: removed.append(world.bid_of_final(x)))
            res = {"r": "gcNone"} if r is None else {"r": "gcSize", "size": r}
        elif not desc.get("link"):
            if op == "use":
                path, h = share.useSharedPackage(wsabs, bid_bytes(desc["bid"]))
                if path is None:
                    res = {"r": "useNone"}
                else:
                    res = {"r": "useOk", "hash": world.content_of.get(h.hex(), h.hex()),
                           "path_ok": path == world.final_path(desc["bid"])}
            else:
                claimed = bytes.fromhex(world.hash_of[desc["claimed"]]) if desc["claimed"] in world.hash_of \
                    else (b"%020d" % desc["claimed"])
                path, inst = share.installSharedPackage(wsabs, bid_bytes(desc["bid"]), claimed, False)
                res = {"r": "inst", "installed": inst, "path_ok": path == world.final_path(desc["bid"])}
        else:
            import bob.tty
            import bob.state
            from bob.builder import LocalBuilder
            from bob.utils import hashDirectory
            os.makedirs(world.proj(desc["ws"]), exist_ok=True)
            os.chdir(world.proj(desc["ws"]))
            bob.tty.setVerbosity(-2)
            b = LocalBuilder(0, False, False, False, False, [], world.root, False, True)
            b.setShareHandler(share)
            b.setShareMode(True, True)
            rel = os.path.relpath(wsabs, world.proj(desc["ws"]))
            st = _Step(rel)
            try:
                if op == "use":
                    shared, _audit = b._useSharedPackage(st, bid_bytes(desc["bid"]))
                    res = {"r": "shared", "shared": bool(shared)}
                else:
                    bob.state.BobState().setResultHash(rel, hashDirectory(rel))
                    b._installSharedPackage(st, bid_bytes(desc["bid"]))
                    res = {"r": "shared", "shared": os.path.islink(rel)}
            finally:
                bob.state.finalize()
    except BaseException as e:  # noqa
        kind, msg = _classify_error(e)
        res = {"r": "err", "e": kind, "msg": msg[:300]}
    chan.send({"ev": "done", "res": res, "removed": removed})
    os._exit(0)


class Child:
    def __init__(self, world, desc, free=False):
        self.desc = desc
        cr, cw = os.pipe()
        er, ew = os.pipe()
        sys.stdout.flush()
        sys.stderr.flush()
        pid = os.fork()
        if pid == 0:
            try:
                os.close(cw)
                os.close(er)
                dn = os.open(os.devnull, os.O_WRONLY)
                os.dup2(dn, 1)
                os.dup2(dn, 2)
                signal.signal(signal.SIGTERM, signal.SIG_DFL)
                _child(world, desc, cr, ew, free)
            finally:
                os._exit(3)
        os.close(cr)
        os.close(ew)
        self.pid, self.cw, self.er = pid, cw, er
        self.buf = b""
        self.done = False
        self.result = None
        self.removed = []
        self.where = {"ev": "start"}

    def go(self, timeout=90.0):
        """let the process run its next segment; returns the event it reports"""
        os.write(self.cw, b"g")
        return self.collect(timeout)

    def collect(self, timeout=90.0):
        while b"\n" not in self.buf:
            r, _, _ = select.select([self.er], [], [], timeout)
            if not r:
                return {"ev": "hang"}
            d = os.read(self.er, 65536)
            if not d:
                self.done = True
                return {"ev": "died"}
            self.buf += d
        line, self.buf = self.buf.split(b"\n", 1)
        ev = json.loads(line)
        if ev["ev"] == "done":
            self.done = True
            self.result = ev["res"]
            self.removed = ev["removed"]
            self.reap()
        elif ev["ev"] == "stop":
            self.where = ev
        return ev

    def reap(self):
        for fd in (self.cw, self.er):
            try:
                os.close(fd)
            except OSError:
                pass
        try:
            os.waitpid(self.pid, 0)
        except ChildProcessError:
            pass

    def kill(self):
        if not self.done:
            try:
                os.kill(self.pid, signal.SIGKILL)
            except ProcessLookupError:
                pass
            self.done = True
            self.reap()
