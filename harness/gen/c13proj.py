"""Generated Bob projects for C13: a root package with two libraries and a tool provider (optionally a sandbox
image), every step script dumping what it sees.  `expected_steps` computes from the recipe DECLARATION alone what
each script must see (documented rules: variables are cumulative checkout -> build -> package, `environment` is
inherited by dependencies, `privateEnvironment` is not, weak and strong variables are both set, tools are
cumulative, whitelist = platform default + `whitelist` - `whitelistRemove` + `-e`).
"""
import glob
import json
import os
import subprocess
import sys

HERE = os.path.dirname(os.path.abspath(__file__))
CHILD = os.path.join(HERE, "c13_child.py")
POSIX_WL = ["PATH", "TERM", "SHELL", "USER", "HOME"]
LABELS = {"checkout": "src", "build": "build", "package": "dist"}


def bob_escape(v):
    """protect a literal from Bob's string substitution (C17: backslash-escaped meta characters come back unchanged)"""
    return "".join("\\" + c if c in "\\\"'$" else c for c in v)


def gen_project(r, idx, gen_value, sandbox="no"):
    names_g = ["G1", "G2", "G3"]
    names_d = ["D1", "D2"]
    names_e = ["E1", "E2"]
    names_p = ["P1", "P2"]
    pool = names_g + names_d + names_e + names_p + ["U1", "WL1", "DECOY1", "HOME", "TERM", "BOB_RECIPE_NAME", "BOB_PACKAGE_NAME",
                                                    "BOB_HOST_PLATFORM", "PATH"]

    def pick(k):
        return sorted(r.sample(pool, r.randrange(0, k)))

    def vars_():
        return {"checkout": pick(4), "checkoutWeak": pick(3) if r.random() < 0.5 else [],
                "build": pick(4), "buildWeak": pick(3) if r.random() < 0.5 else [],
                "package": pick(4), "packageWeak": pick(3) if r.random() < 0.5 else []}
    wl_add = sorted(r.sample(["WL1", "WL2", "DECOY2", "G1"], r.randrange(0, 3)))
    wl_remove = sorted(r.sample(["TERM", "HOME", "WL2", "USER", "SHELL"], r.randrange(0, 3)))
    cli_wl = sorted(r.sample(["WL2", "CLI1", "TERM"], r.randrange(0, 2)))
    if r.random() < 0.5:
        # the same name added and removed in one file: `whitelistRemove` is applied after `whitelist` (documented priority)
        both = r.choice(["WL1", "WL2"])
        wl_add = sorted(set(wl_add) | {both})
        wl_remove = sorted(set(wl_remove) | {both})
    # LC_ALL: with an empty locale CPython coerces LC_CTYPE=C.UTF-8 into its own (= Bob's) environment at start-up
    host = {"PATH": r.choice(["/usr/bin:/bin", "/usr/local/bin:/usr/bin:/bin"]), "LC_ALL": "C.UTF-8"}
    for n in r.sample(["DECOY1", "DECOY2", "SECRET_TOKEN", "WL1", "WL2", "CLI1", "TERM", "USER", "SHELL", "G1", "E1", "P1", "D1", "U1", "LANG_X"],
                      r.randrange(3, 9)):
        host[n] = gen_value(r)
    for n in ("WL1", "WL2"):
        if r.random() < 0.7:
            host.setdefault(n, gen_value(r))
    case = {
        "idx": idx, "sandbox": sandbox,
        "default_env": {n: gen_value(r) for n in r.sample(names_g, r.randrange(0, 4))},
        "wl_add": wl_add, "wl_remove": wl_remove, "cli_wl": cli_wl,
        "defines": {n: gen_value(r).replace("\r", "") for n in r.sample(names_d, r.randrange(0, 3))},
        "preserve": r.random() < 0.2,
        "host": host,
        "root": {"environment": {n: gen_value(r) for n in r.sample(names_e, r.randrange(0, 3))},
                 "private": {n: gen_value(r) for n in r.sample(names_p, r.randrange(0, 3))},
                 "has_checkout": r.random() < 0.7, "vars": vars_(),
                 "fpVars": pick(4), "fingerprint": sandbox == "no" and r.random() < 0.8,
                 "tool_build": r.random() < 0.6, "tool_package": r.random() < 0.4},
        "lib": {"vars": vars_(), "has_checkout": r.random() < 0.3},
        "tool_libs": r.choice([[], ["lib"], ["lib", "lib/x y"], ["lib/q'q"]]),
    }
    # a variable that is ONLY weak (root package step): a second run with another value must not create a new variant
    case["weak_probe"] = sandbox == "no" and r.random() < 0.6
    if case["weak_probe"]:
        case["root"]["vars"]["packageWeak"] = sorted(set(case["root"]["vars"]["packageWeak"]) | {"DW"})
        case["defines"]["DW"] = gen_value(r).replace("\r", "")
        case["weak_second"] = (gen_value(r).replace("\r", "") or "x") + "2"
    return case


def dump_script(cat, project, probes=False):
    s = ("%s /proc/self/environ > .dump.env\n" % cat +
         "for a in \"$@\"; do printf '%s\\0' \"$a\"; done > .dump.args\n"
         "for n in BOB_ALL_PATHS BOB_DEP_PATHS BOB_TOOL_PATHS; do\n"
         "    declare -n ref=$n\n"
         "    for k in \"${!ref[@]}\"; do printf '%s\\0%s\\0%s\\0' \"$n\" \"$k\" \"${ref[$k]}\"; done\n"
         "done > .dump.arr\n")
    if probes:
        s += ("shopt -s nullglob dotglob\n"
              "for d in %s %s/* %s/dev/*/*/*/workspace /bob /bob/*/workspace; do [[ -e \"$d\" ]] && printf '%%s\\0' \"$d\"; done > .dump.ls\n" % (project, project, project) +
              "tag=${PWD//\\//_}\n"
              "for t in \"$PWD\" %s /tmp /etc \"$@\" %s/dev/*/*/*/workspace /bob/*/workspace; do\n" % (project, project) +
              "    if [[ -d \"$t\" ]] && ( : > \"$t/.wprobe$tag\" ) 2>/dev/null; then printf 'W %s\\0' \"$t\"; else printf 'R %s\\0' \"$t\"; fi\n"
              "done > .dump.w\n"
              "true\n")
    return s


def write_project(case, d, cat):
    import yaml
    os.makedirs(os.path.join(d, "recipes"), exist_ok=True)
    sandboxed = case["sandbox"] != "no"
    script = dump_script(cat, d, probes=sandboxed)
    with open(os.path.join(d, "config.yaml"), "w") as f:
        f.write('bobMinimumVersion: "0.25"\n')
    default = {}
    if case["default_env"]:
        default["environment"] = {k: bob_escape(v) for k, v in case["default_env"].items()}
    if case["wl_add"]:
        default["whitelist"] = case["wl_add"]
    if case["wl_remove"]:
        default["whitelistRemove"] = case["wl_remove"]
    with open(os.path.join(d, "default.yaml"), "w", encoding="utf-8") as f:
        yaml.safe_dump(default, f, allow_unicode=False)

    def step_fields(rec, spec, tools=(False, False)):
        v = spec["vars"]
        if spec.get("has_checkout", True):
            rec["checkoutDeterministic"] = True
            rec["checkoutScript"] = script
        for step in ("checkout", "build", "package"):
            if v[step]:
                rec[step + "Vars"] = v[step]
            if v[step + "Weak"]:
                rec[step + "VarsWeak"] = v[step + "Weak"]
        rec["buildScript"] = script
        rec["packageScript"] = script
        if tools[0]:
            rec["buildTools"] = ["mytool"]
        if tools[1]:
            rec["packageTools"] = ["mytool"]
    root = {"root": True, "depends": ["lib1", {"name": "toolprov", "use": ["tools"]}, "lib2"]}
    if case["sandbox"] in ("yes", "dev", "strict"):
        root["depends"].insert(0, {"name": "sbx", "use": ["sandbox"], "forward": True})
    if case["root"]["environment"]:
        root["environment"] = {k: bob_escape(v) for k, v in case["root"]["environment"].items()}
    if case["root"]["private"]:
        root["privateEnvironment"] = {k: bob_escape(v) for k, v in case["root"]["private"].items()}
    step_fields(root, case["root"], (case["root"]["tool_build"], case["root"]["tool_package"]))
    if case["root"]["fingerprint"]:
        root["fingerprintIf"] = True
        if case["root"]["fpVars"]:
            root["fingerprintVars"] = case["root"]["fpVars"]
        root["fingerprintScript"] = "%s /proc/self/environ > %s\necho fp\n" % (cat, os.path.join(d, "fp.env"))
    lib = {}
    step_fields(lib, case["lib"])
    tool = {"packageScript": "mkdir -p bin lib 'lib/x y' \"lib/q'q\"\n" + script,
            "provideTools": {"mytool": {"path": "bin", "libs": [bob_escape(l) for l in case["tool_libs"]]}}}
    recs = {"root": root, "lib1": lib, "lib2": lib, "toolprov": tool}
    if case["sandbox"] in ("yes", "dev", "strict"):
        # no tmp/ in the image: the helper creates $HOME inside the sandbox and our HOME lives below /tmp
        recs["sbx"] = {"packageScript": "mkdir -p imgdir\necho image > image-canary\n",
                       "provideSandbox": {"paths": ["/usr/bin", "/bin"],
                                          "mount": ["/usr", ["/bin", "/bin", ["nofail"]], ["/lib", "/lib", ["nofail"]],
                                                    ["/lib64", "/lib64", ["nofail"]], ["/lib32", "/lib32", ["nofail"]],
                                                    ["/nonexistent-c13", "/nonexistent-c13", ["nofail"]]]}}
    for n, rec in recs.items():
        with open(os.path.join(d, "recipes", n + ".yaml"), "w", encoding="utf-8") as f:
            yaml.safe_dump(rec, f, allow_unicode=False)


def bob_args(case):
    a = ["dev", "root", "-j", "2"]
    for k, v in sorted(case["defines"].items()):
        a.append("-D%s=%s" % (k, v))
    for n in case["cli_wl"]:
        a += ["-e", n]
    if case["preserve"]:
        a.append("-E")
    a.append({"no": "--no-sandbox", "slim": "--slim-sandbox", "yes": "--sandbox", "dev": "--dev-sandbox", "strict": "--strict-sandbox"}[case["sandbox"]])
    return a


def run_project(arg):
    """(worker) write the project, run `bob dev` in a child process with the generated host environment, collect"""
    case, root, repo, cat, python = arg
    d = os.path.join(root, "p%d" % case["idx"])
    os.makedirs(d, exist_ok=True)
    home = os.path.join(root, "home%d" % case["idx"])
    os.makedirs(home, exist_ok=True)
    res = {"dir": d}
    try:
        write_project(case, d, cat)
        env = dict(case["host"])
        env["HOME"] = home          # Bob reads ~/.config/bob: always an empty directory
        capture = os.path.join(d, "capture.jsonl")
        p = subprocess.run([python, CHILD, repo, d, json.dumps(bob_args(case)), capture], env=env, stdout=subprocess.PIPE,
                           stderr=subprocess.STDOUT, stdin=subprocess.DEVNULL, timeout=case.get("timeout", 600))
        res["rc"] = p.returncode
        res["out"] = p.stdout.decode("utf-8", "replace")[-3000:]
        res["home"] = home
        res["steps"] = collect(d)
        try:
            res["fp_env"] = parse_environ(open(os.path.join(d, "fp.env"), "rb").read())
        except OSError:
            res["fp_env"] = None
        try:
            res["capture"] = [json.loads(l) for l in open(capture, encoding="utf-8", errors="surrogateescape")]
        except OSError:
            res["capture"] = []
        res["probes"] = sorted(glob.glob(os.path.join(d, ".wprobe*")) + glob.glob(os.path.join(d, "*", ".wprobe*")) +
                               glob.glob(os.path.join(d, "dev", "*", "*", "*", "workspace", ".wprobe*")))
        if case.get("weak_probe") and p.returncode == 0:
            second = dict(case, defines=dict(case["defines"], DW=case["weak_second"]))
            p2 = subprocess.run([python, CHILD, repo, d, json.dumps(bob_args(second))], env=env, stdout=subprocess.PIPE,
                                stderr=subprocess.STDOUT, stdin=subprocess.DEVNULL, timeout=case.get("timeout", 600))
            res["weak_rc"] = p2.returncode
            res["weak_new_dirs"] = sorted(os.path.relpath(x, d) for x in glob.glob(os.path.join(d, "dev", "*", "*", "[2-9]")))
            # a weak variable does not enter the variant id: the package step is not run again (its dump keeps the first value)
            try:
                again = parse_environ(open(os.path.join(d, "dev", "dist", "root", "1", "workspace", ".dump.env"), "rb").read())
                res["weak_seen_after"] = again.get("DW")
            except OSError:
                res["weak_seen_after"] = None
    except subprocess.TimeoutExpired:
        res["timeout"] = True
    except Exception as e:  # noqa
        res["exception"] = "%s: %s" % (type(e).__name__, e)
    return res


def _dec(b):
    return b.decode("utf-8", "surrogateescape")


def parse_environ(raw):
    env = {}
    for item in raw.split(b"\0"):
        if item:
            k, _, v = item.partition(b"=")
            env[_dec(k)] = _dec(v)
    return env


def collect(d):
    """{(package, label): {...}} from the workspaces and the step.spec files `bob dev` wrote"""
    steps = {}
    for specf in glob.glob(os.path.join(d, "dev", "*", "*", "*", "step.spec")):
        parts = specf.split(os.sep)
        label, pkg = parts[-4], parts[-3]
        ws = os.path.join(os.path.dirname(specf), "workspace")
        st = {"spec": json.load(open(specf)), "ws": ws}
        try:
            st["env"] = parse_environ(open(os.path.join(ws, ".dump.env"), "rb").read())
            raw = open(os.path.join(ws, ".dump.args"), "rb").read()
            st["args"] = [_dec(x) for x in raw.split(b"\0")[:-1]] if raw else []
            raw = open(os.path.join(ws, ".dump.arr"), "rb").read().split(b"\0")[:-1]
            arrays = {"BOB_ALL_PATHS": {}, "BOB_DEP_PATHS": {}, "BOB_TOOL_PATHS": {}}
            for i in range(0, len(raw) - 2, 3):
                arrays[_dec(raw[i])][_dec(raw[i + 1])] = _dec(raw[i + 2])
            st["arrays"] = arrays
        except OSError:
            pass
        for n in ("ls", "w"):
            try:
                raw = open(os.path.join(ws, ".dump." + n), "rb").read()
                st[n] = [_dec(x) for x in raw.split(b"\0")[:-1]]
            except OSError:
                pass
        steps["%s/%s" % (pkg, label)] = st
    return steps


# ------------------------------------------------------------------ the declaration's meaning

def whitelist_of(case):
    wl = (set(POSIX_WL) | set(case["wl_add"])) - set(case["wl_remove"])
    return wl | set(case["cli_wl"])


def cumulative(v):
    c = set(v["checkout"])
    cw = set(v["checkoutWeak"])
    b = c | set(v["build"])
    bw = cw | set(v["buildWeak"])
    p = b | set(v["package"])
    pw = bw | set(v["packageWeak"])
    return {"src": c | cw, "build": b | bw, "dist": p | pw}, {"src": c, "build": b, "dist": p}


def expected_steps(case, d, default_path, platform):
    """what every executed step script must see; keys 'pkg/label'"""
    wl = whitelist_of(case)
    host = dict(case["host"])
    host["HOME"] = None  # filled by the caller (temporary home)
    base = dict(case["default_env"])
    base.update(case["defines"])
    base["BOB_HOST_PLATFORM"] = platform
    out = {}
    tooldir = os.path.join(d, "dev", "dist", "toolprov", "1", "workspace")

    def ws(pkg, label):
        return os.path.join(d, "dev", label, pkg, "1", "workspace")
    pkgs = {"root": case["root"], "lib1": case["lib"], "lib2": case["lib"]}
    for pkg, spec in pkgs.items():
        full = dict(base)
        full.update(case["root"]["environment"])          # inherited by the dependencies too
        if pkg == "root":
            full.update(case["root"]["private"])
        full["BOB_RECIPE_NAME"] = pkg
        full["BOB_PACKAGE_NAME"] = pkg
        allv, strong = cumulative(spec["vars"])
        for label in ("src", "build", "dist"):
            if label == "src" and not spec.get("has_checkout", True):
                continue
            declared = {k: full[k] for k in allv[label] if k in full}
            digest = {k: full[k] for k in strong[label] if k in full}
            use_tool = pkg == "root" and ((label == "build" and spec["tool_build"]) or
                                          (label == "dist" and (spec["tool_build"] or spec["tool_package"])))
            if label == "src":
                args = []
            elif label == "build":
                src = ws(pkg, "src") if spec.get("has_checkout", True) else "/invalid/exec/path/of/" + pkg
                args = [src] + ([ws("lib1", "dist"), ws("lib2", "dist")] if pkg == "root" else [])
            else:
                args = [ws(pkg, "build")]
            out["%s/%s" % (pkg, label)] = {
                "declared": declared, "digest": digest, "args": args, "cwd": ws(pkg, label),
                "paths": [os.path.join(tooldir, "bin")] if use_tool else [],
                "libs": [os.path.join(tooldir, l) for l in case["tool_libs"]] if use_tool else [],
                "whitelist": sorted(wl),
            }
    if case["root"]["tool_build"] or case["root"]["tool_package"]:
        out["toolprov/dist"] = {"declared": {}, "digest": {}, "args": ["/invalid/exec/path/of/toolprov"], "cwd": ws("toolprov", "dist"),
                                "paths": [], "libs": [], "whitelist": sorted(wl)}
    return out
