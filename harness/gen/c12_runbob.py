"""Child process helper of C12: run one real Bob command in a project directory and dump the
persisted workspace state afterwards.

usage:  python c12_runbob.py <pym> <project-dir> <state-json-out> <bob args...>

Must be a real file with a __main__ guard (Bob's process pool uses forkserver).
Exit code = Bob's exit code.  Output of Bob goes to stdout/stderr unchanged.
"""
import json
import os
import sys


def dump_state(out):
    from bob.state import BobState, finalize
    st = BobState()
    dirs = {}
    for d in st.getDirectories():
        s = st.getDirectoryState(d, False)
        if isinstance(s, dict):
            ent = {}
            for k, v in s.items():
                if not isinstance(k, str):
                    continue
                if isinstance(v, tuple):
                    dig, spec = v[0], v[1]
                else:
                    dig, spec = v, None
                ent[k] = {"digest": dig.hex() if isinstance(dig, (bytes, bytearray)) else (None if dig is None else repr(dig)),
                          "spec": spec}
            dirs[d] = ent
    attic = {}
    for d in st.getAtticDirectories():
        attic[d] = st.getAtticDirectoryState(d)
    finalize()
    with open(out, "w") as f:
        json.dump({"dirs": dirs, "attic": attic}, f, default=repr)


if __name__ == "__main__":
    pym, proj, out = sys.argv[1:4]
    args = sys.argv[4:]
    sys.path.insert(0, pym)
    os.chdir(proj)
    sys.argv = ["bob"] + args
    from bob.scripts import bob
    try:
        rc = bob(os.path.dirname(pym))
    except SystemExit as e:
        rc = e.code if isinstance(e.code, int) else 1
    try:
        dump_state(out)
    except Exception as e:  # state unreadable: report, keep Bob's exit code
        with open(out, "w") as f:
            json.dump({"error": "%s: %s" % (type(e).__name__, e)}, f)
    sys.stdout.flush()
    sys.stderr.flush()
    os._exit(rc if isinstance(rc, int) else 1)
