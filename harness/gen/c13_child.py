"""Child process of the C13 check: runs the real `bob` command line (bob.scripts.bob) inside a generated
project with exactly the environment the parent gave it, and records every process Bob spawns through
asyncio's `subprocess_exec` (argv, environment, cwd) as JSON lines - the seam where the Invoker hands a step to
bash or to the sandbox helper.  Nothing in /repo is modified; the recording wraps the event loop method
from the outside.

usage: c13_child.py <repo> <project-dir> <json list: bob arguments> [<capture-file>]
With C13_STDIN=socket|pipe|null in the environment the child first replaces its own standard input by a connected
socket / an empty pipe / /dev/null (and removes the variable), as a build started by sshd, a CI agent or cron has it.
"""
import json
import os
import sys


def main():
    repo, project, argv = sys.argv[1], sys.argv[2], json.loads(sys.argv[3])
    capture = sys.argv[4] if len(sys.argv) > 4 else None
    sys.path.insert(0, os.path.join(repo, "pym"))
    sys.dont_write_bytecode = True
    os.chdir(project)
    kind = os.environ.pop("C13_STDIN", None)
    if kind == "socket":
        import socket
        a, b = socket.socketpair()
        os.dup2(a.fileno(), 0)
        globals()["_keep"] = (a, b)
    elif kind == "pipe":
        r, w = os.pipe()
        os.dup2(r, 0)
        globals()["_keep"] = (r, w)
    elif kind == "null":
        os.dup2(os.open(os.devnull, os.O_RDONLY), 0)
    if capture:
        import asyncio.base_events as be
        orig = be.BaseEventLoop.subprocess_exec

        async def recording(self, protocol_factory, program, *args, **kwargs):
            try:
                with open(capture, "a", encoding="utf-8", errors="surrogateescape") as f:
                    env = kwargs.get("env")
                    f.write(json.dumps({"argv": [program] + list(args), "env": dict(env) if env is not None else None,
                                        "cwd": kwargs.get("cwd"), "pycwd": os.getcwd()}) + "\n")
            except Exception as e:  # noqa - recording must never change what Bob does
                sys.stderr.write("capture failed: %s\n" % e)
            return await orig(self, protocol_factory, program, *args, **kwargs)
        be.BaseEventLoop.subprocess_exec = recording
    from bob.scripts import bob
    sys.argv = ["bob"] + argv
    return bob(os.path.join(repo, "bob"))


if __name__ == "__main__":
    sys.exit(main())
