"""Child process of the C13 check: runs the real `bob` command line (bob.scripts.bob) inside a generated
project with exactly the environment the parent gave it, and records every process Bob spawns through
asyncio's `subprocess_exec` (argv, environment, cwd) as JSON lines - the seam where the Invoker hands a step to
bash or to the sandbox helper.  Nothing in /repo is modified; the recording wraps the event loop method
from the outside.

usage: c13_child.py <repo> <project-dir> <json list: bob arguments> [<capture-file>]
"""
import json
import os
import sys


def main():
    repo, project, argv = sys.argv[1], sys.argv[2], json.loads(sys.argv[3])
    capture = sys.argv[4] if len(sys.argv) > 4 else None
    sys.path.insert(0, os.path.join(repo, "pym"))
    sys.dont_write_bytecode = True
    os.chdir(project)
    if capture:
        import asyncio.base_events as be
        orig = be.BaseEventLoop.subprocess_exec

        async def recording(self, protocol_factory, program, *args, **kwargs):
            try:
                with open(capture, "a", encoding="utf-8", errors="surrogateescape") as f:
                    env = kwargs.get("env")
                    f.write(json.dumps({"argv": [program] + list(args), "env": dict(env) if env is not None else None,
                                        "cwd": kwargs.get("cwd"), "pycwd": os.getcwd()}) + "\n")
            except Exception as e:  # noqa - recording must never change what Bob does
                sys.stderr.write("capture failed: %s\n" % e)
            return await orig(self, protocol_factory, program, *args, **kwargs)
        be.BaseEventLoop.subprocess_exec = recording
    from bob.scripts import bob
    sys.argv = ["bob"] + argv
    return bob(os.path.join(repo, "bob"))


if __name__ == "__main__":
    sys.exit(main())
