"""Child side of harness/gen/buildsim.py: runs one real `bob dev` / `bob build` invocation in-process
(`bob.cmds.build.build.doDevelop/doBuild`) with the state mutators of `_BobState`,
`LocalBuilder._runShell`, `_constructDir`, `emptyDirectory` wrapped from the outside, so that the
sequence of micro-operations of the invocation is recorded (and can be cut at the k-th one with
`os._exit(9)`, i.e. Bob killed between two updates of its persistent state).

Usage:  python buildsim_child.py --server      (jobs as JSON lines on stdin, one JSON reply line each)
        python buildsim_child.py job.json       (single job)

The server only imports Bob; every job runs in a forked child (own session, so that stray script
processes can be reaped), which is what makes an invocation cost ~0.2 s instead of ~1 s.
This must be a real file with a __main__ guard (Bob's process pool uses forkserver).

job = {"cwd": dir, "develop": bool, "argv": [...], "abort_at": k|None, "out": file for stdout/stderr,
       "res": file for the JSON result, "real_pool": bool, "timeout": seconds}
files:  <res> = {"rc": int|"abort"|"harness-error", "error": str|None}  (missing when Bob was killed)
        <res>.log = one JSON micro-op per line, appended as they happen (survives SIGKILL)
        <res>.dump = the project as the builder sees it (steps reachable from the targets)
"""
import json
import os
import signal
import sys
import time


def canon_inputs(v):
    import datetime
    if v is None:
        return None
    if isinstance(v, list):
        return [canon_rh(x) for x in v]
    if isinstance(v, bytes):
        return {"downloaded": v.hex()}
    if isinstance(v, tuple):
        return {"shared": [canon_rh(v[0]), str(v[1])]}
    return {"other": repr(v)}


def canon_rh(x):
    import datetime
    if x is None:
        return None
    if isinstance(x, bytes):
        return x.hex()
    if x is False:
        return "!invalid"      # SCM directory digest invalidated on purpose
    if isinstance(x, datetime.datetime):
        return {"forged": x.isoformat()}
    return {"other": repr(x)}


def canon_dir(d):
    if d is None:
        return None
    if isinstance(d, dict):
        scms = sorted(((k, v) for k, v in d.items() if k not in (None, 1)),
                      key=lambda i: os.path.normcase(os.path.normpath(i[0])))
        out = {"co": [[k, canon_rh(v[0] if isinstance(v, tuple) else v)] for k, v in scms],
               "vid": None, "bo": None}
        if None in d:
            v = d[None]
            out["vid"] = canon_rh(v[0] if isinstance(v, tuple) else v)
        if 1 in d:
            b = d[1]
            out["bo"] = [b[0], canon_rh(b[1]), canon_inputs(b[2])] if isinstance(b, tuple) and len(b) == 3 else {"other": repr(b)}
        return out
    if isinstance(d, list):
        return {"build": canon_rh(d[0]) if d else None, "paths": [str(x) for x in d[1:]]}
    if isinstance(d, bytes):
        return {"pkg": d.hex()}
    return {"other": repr(d)}


def dump_steps(roots):
    """the project as the builder sees it: every step reachable from the targets"""
    import hashlib
    from bob.builder import checkoutBuildOnlyState
    out = {}
    problems = []

    def sid(s):
        return s.getWorkspacePath()

    def visit(s):
        key = sid(s)
        kind = "checkout" if s.isCheckoutStep() else "build" if s.isBuildStep() else "package"
        vid = s.getVariantId().hex()
        if key in out:
            if out[key]["vid"] != vid or out[key]["kind"] != kind:
                problems.append("path-shared-by-different-steps:" + key)
            return key
        d = out[key] = {"kind": kind, "vid": vid, "path": key}
        deps = [x for x in s.getAllDepSteps() if x.isValid()]
        d["execPath"] = s.getExecPath()
        d["depExecPaths"] = [x.getExecPath(s) for x in deps]
        d["pkg"] = "/".join(s.getPackage().getStack())
        d["name"] = s.getPackage().getName()
        d["recipe"] = s.getPackage().getRecipe().getName()
        d["det"] = bool(s.isDeterministic())
        d["env"] = dict(s.getEnv())
        d["sandbox"] = s.getSandbox() is not None
        d["fingerprinted"] = bool(s._isFingerprinted())
        d["fp"] = bool(s.isPackageStep() and not s.isRelocatable())
        tools = sorted(s.getTools().items())
        data = s._StepIR__data
        own = repr((s.getLabel(), s.getDigestScript(), sorted(data["digestEnv"].items()),
                    [(n, t.getPath(), list(t.getLibs())) for n, t in tools],
                    sorted(data.get("toolKeysWeak", []))))
        d["tag"] = hashlib.sha1(own.encode("utf8", "surrogateescape")).hexdigest()
        d["digestDeps"] = [sid(a) for a in s.getArguments() if a.isValid()] + [sid(t.getStep()) for n, t in tools]
        if kind == "checkout":
            d["hasScript"] = bool(s.getMainScript() or s.getPostRunCmds())
            dirs = s.getScmDirectories()
            d["scms"] = [[k, v[0].hex()] for k, v in sorted(dirs.items(), key=lambda i: os.path.normcase(os.path.normpath(i[0])))]
            bo = checkoutBuildOnlyState(s, [])
            d["boLoc"] = bo[0]
            d["boUpd"] = bo[1].hex()
            d["scmList"] = [{"dir": scm.getDirectory(), "props": {k: v for k, v in scm.getProperties(False).items()
                                                                   if isinstance(v, (str, bool, int, type(None)))}}
                            for scm in s.getScmList()]
        else:
            d["hasScript"] = True
            d["scms"] = []
            d["boLoc"] = ""
            d["boUpd"] = ""
        d["pre"] = []
        if kind == "package":
            c = s.getPackage().getCheckoutStep()
            if c.isValid():
                d["pre"] = [visit(c)]
        d["deps"] = [visit(x) for x in deps]
        return key

    rootKeys = [visit(s) for s in roots if s.isValid()]
    return {"steps": out, "roots": rootKeys, "problems": problems}


def run_job(job):
    """runs in the forked child; never returns"""
    os.setsid()
    outf = os.open(job["out"], os.O_WRONLY | os.O_CREAT | os.O_TRUNC, 0o644)
    os.dup2(outf, 1)
    os.dup2(outf, 2)
    devnull = os.open(os.devnull, os.O_RDONLY)
    os.dup2(devnull, 0)
    sys.stdout = os.fdopen(1, "w", buffering=1, closefd=False)
    sys.stderr = os.fdopen(2, "w", buffering=1, closefd=False)
    res = {"rc": None, "error": None}
    count = [0]
    abort_at = job.get("abort_at")
    # the log is appended entry by entry: it must survive a SIGKILL of this process
    logfd = os.open(job["res"] + ".log", os.O_WRONLY | os.O_CREAT | os.O_TRUNC | os.O_APPEND, 0o644)

    def save():
        tmp = job["res"] + ".tmp"
        with open(tmp, "w") as f:
            json.dump(res, f)
        os.replace(tmp, job["res"])

    def tick(entry):
        if abort_at is not None and count[0] + 1 == abort_at:
            res["rc"] = "abort"
            res["aborted_before"] = entry
            save()
            os.killpg(0, signal.SIGKILL)   # Bob and everything it started die here
            os._exit(9)
        count[0] += 1
        os.write(logfd, (json.dumps(entry) + "\n").encode())

    try:
        import bob.state as S
        import bob.builder as B
        import bob.utils as U
        from bob.cmds.build.build import doDevelop, doBuild
        cls = S._BobState

        def wrap(name, conv):
            orig = getattr(cls, name)

            def f(self, *a, **k):
                tick(conv(*a, **k))
                return orig(self, *a, **k)
            setattr(cls, name, f)

        wrap("resetWorkspaceState", lambda p, d: ["reset", p, canon_dir(d)])
        wrap("setDirectoryState", lambda p, d: ["setDir", p, canon_dir(d)])
        wrap("delInputHashes", lambda p: ["delInputs", p])
        wrap("setResultHash", lambda p, h: ["setResult", p, canon_rh(h)])
        wrap("setInputHashes", lambda p, h: ["setInputs", p, canon_inputs(h)])
        wrap("setVariantId", lambda p, v: ["setVid", p, canon_rh(v)])
        wrap("setAtticDirectoryState", lambda p, s: ["setAttic", os.path.normpath(p)])
        orig_sp = cls.setStoragePath

        def setStoragePath(self, workspace, storage):
            if storage != workspace:
                tick(["setStorage", workspace, storage])
            return orig_sp(self, workspace, storage)
        cls.setStoragePath = setStoragePath

        orig_run = B.LocalBuilder._runShell

        async def runShell(self, step, scriptName, logger, workspaceCreated, cleanWorkspace=None, *a, **k):
            mode = k.get("mode", a[0] if a else None)
            tick(["run", step.getWorkspacePath(), scriptName, None if mode is None else mode.name,
                  bool(cleanWorkspace)])
            return await orig_run(self, step, scriptName, logger, workspaceCreated, cleanWorkspace, *a, **k)
        B.LocalBuilder._runShell = runShell

        orig_cd = B.LocalBuilder._constructDir

        def constructDir(self, step, label):
            p = step.getWorkspacePath()
            if not os.path.isdir(p) and not os.path.islink(p) and not os.path.isfile(p):
                tick(["mkDir", p])
            return orig_cd(self, step, label)
        B.LocalBuilder._constructDir = constructDir

        orig_empty = B.emptyDirectory

        def emptyDirectory(p):
            tick(["emptyDir", p])
            return orig_empty(p)
        B.emptyDirectory = emptyDirectory

        orig_rm = B.removePath

        def removePath(p):
            if not p.endswith("audit.json.gz") and not p.endswith(os.sep + "deps"):
                tick(["removePath", p])
            return orig_rm(p)
        B.removePath = removePath

        orig_cook = B.LocalBuilder.cook
        state = {"dumped": False}

        def cook(self, steps, checkoutOnly, loop, depth=0):
            if not state["dumped"]:
                state["dumped"] = True
                try:
                    with open(job["res"] + ".dump", "w") as f:
                        json.dump(dump_steps(steps), f)
                except Exception as e:  # noqa
                    import traceback
                    res["dump_error"] = traceback.format_exc()
            return orig_cook(self, steps, checkoutOnly, loop, depth)
        B.LocalBuilder.cook = cook

        if not job.get("real_pool"):
            import concurrent.futures
            U.getProcessPoolExecutor = lambda: concurrent.futures.ThreadPoolExecutor(1)

        os.chdir(job["cwd"])
        rc = 0
        try:
            try:
                (doDevelop if job["develop"] else doBuild)(list(job["argv"]), job.get("bobroot", "/nonexistent/bob"))
            finally:
                S.finalize()
        except SystemExit as e:
            rc = e.code if isinstance(e.code, int) else 2
            res["error"] = "SystemExit"
        except Exception as e:  # BobError and everything else: what the `bob` front end turns into exit 1
            from bob.errors import BobError
            rc = 1 if isinstance(e, BobError) else 3
            res["error"] = "%s: %s" % (type(e).__name__, getattr(e, "slogan", e))
            if rc == 3:
                import traceback
                traceback.print_exc()
        res["rc"] = rc
        save()
    except BaseException as e:  # noqa
        import traceback
        res["rc"] = "harness-error"
        res["error"] = traceback.format_exc()
        save()
    sys.stdout.flush()
    os._exit(0)


def do_job(job):
    """fork, wait (with timeout), reap the whole session; returns the status dict"""
    for f in (job["res"], job["res"] + ".tmp", job["res"] + ".log", job["res"] + ".dump"):
        try:
            os.unlink(f)
        except FileNotFoundError:
            pass
    pid = os.fork()
    if pid == 0:
        try:
            run_job(job)
        finally:
            os._exit(70)
    deadline = time.time() + job.get("timeout", 120)
    status = None
    while True:
        p, st = os.waitpid(pid, os.WNOHANG)
        if p == pid:
            status = st
            break
        if time.time() > deadline:
            break
        time.sleep(0.005)
    try:
        os.killpg(pid, signal.SIGKILL)
    except (ProcessLookupError, PermissionError):
        pass
    if status is None:
        try:
            os.waitpid(pid, 0)
        except ChildProcessError:
            pass
        return {"wait": "timeout"}
    if os.WIFSIGNALED(status):
        return {"wait": "signal:%d" % os.WTERMSIG(status)}
    return {"wait": "exit:%d" % os.WEXITSTATUS(status)}


def main():
    if len(sys.argv) > 1 and sys.argv[1] == "--server":
        # import Bob once; jobs run in forked children
        import bob.state  # noqa
        import bob.builder  # noqa
        import bob.cmds.build.build  # noqa
        import bob.input  # noqa
        import bob.scm  # noqa
        import bob.audit  # noqa
        import bob.invoker  # noqa
        sys.stdout.write("ready\n")
        sys.stdout.flush()
        for line in sys.stdin:
            line = line.strip()
            if not line:
                continue
            job = json.loads(line)
            st = do_job(job)
            sys.stdout.write(json.dumps(st) + "\n")
            sys.stdout.flush()
    else:
        job = json.load(open(sys.argv[1]))
        print(json.dumps(do_job(job)))


if __name__ == "__main__":
    main()
