"""Evaluate a project directory with the real Bob code and return plain data about every step.

In-process:   evaluate(root, sandbox, project=None, cap=…)      (changes cwd; for fork-pool workers)
Subprocess:   python evalproj.py <root> <sandbox 0|1> <out.json> [cap]
              (own interpreter: PYTHONHASHSEED, absolute path and environment are chosen by the caller)

Record per step (all JSON-able, bytes as hex):
  key, label, pkg (package name), valid, vid, desc (stepdesc.export_step), and with a `project` (generator spec):
  sem (execution-side meaning, see stepdesc.sem_of_step), strong (declared strong variables), frag_digest_order /
  frag_exec_order (raw fragment texts per the documented class resolution), env_keys, bid (Build-Ids computed with
  harness supplied digests)
"""
import json
import os
import sys


def _hexify(x):
    if isinstance(x, bytes):
        return x.hex()
    if isinstance(x, (tuple, list)):
        return [_hexify(y) for y in x]
    if isinstance(x, dict):
        return {k: _hexify(v) for k, v in x.items()}
    return x


STAGE_OF = {"src": "checkout", "build": "build", "dist": "package"}
BID_CONFIGS = [(b"", b""), (b"w", b"\x01" * 20), (b"ml", None)]   # (platform tag, fingerprint)


def evaluate(root, sandbox, project=None, cap=600, bids=False, memo=True):
    """memo=False: every package is computed from its own inputs (the reuse of already calculated packages in
    Recipe.prepare is switched off from outside by making PackageMatcher.matches answer False)"""
    from gen import projects as G
    from gen import stepdesc as S
    from bob.errors import ParseError, BobError
    import bob.input
    cwd = os.getcwd()
    orig_matches = bob.input.PackageMatcher.matches
    try:
        if not memo:
            bob.input.PackageMatcher.matches = lambda self, *a, **kw: False
            # the persisted package tree of an earlier evaluation in this directory would be loaded instead
            for f in (".bob-packages.pickle", ".bob-packages-sb.pickle"):
                try:
                    os.unlink(os.path.join(root, f))
                except OSError:
                    pass
        try:
            loaded = G.load_project(root, sandbox)
            steps = loaded.steps(cap)
        except (ParseError, BobError) as e:
            return {"error": str(getattr(e, "slogan", e))[:300]}
        out = []
        pkgs = project.packages() if project is not None else {}
        for key, st in steps:
            pkg = st.getPackage().getName()
            rec = {"key": key, "label": st.getLabel(), "pkg": pkg, "valid": bool(st.isValid()),
                   "vid": st.getVariantId().hex(), "desc": S.export_step(st)}
            rec["dep_keys"] = ["/".join(a.getPackage().getStack()) + ":" + a.getLabel() for a in st.getAllDepSteps()]
            rec["env_keys"] = sorted(st.getEnv().keys())
            rec["env"] = dict(st.getEnv())
            rec["tooldep"] = sorted(st.toolDep)
            rec["tooldep_weak"] = sorted(st.toolDepWeak)
            if pkg in pkgs:
                stage = STAGE_OF[st.getLabel()]
                strong = project.spec_vars(pkg, stage)
                rec["strong"] = sorted(strong)
                rec["declared"] = sorted(strong | project.spec_vars(pkg, stage, weak=True))
                rec["sem"] = _hexify(S.sem_of_step(st, strong))
                dig, ex = project.spec_fragments(pkg, stage)
                rec["frag_digest_order"], rec["frag_exec_order"] = dig, ex
            if st.isCheckoutStep() and st.isValid():
                rec["co"] = {"scms": [s.asDigestScript() for s in st.getScmList()],
                             "dig": st.getPackage().getRecipe().checkoutDigestScript,
                             "asserts": ["%s %s %s %s" % (a["file"], a["digestSHA1"], a["start"], a["end"])
                                         for a in st.getPostRunCmds()]}
            if bids:
                rec["bid"] = []
                for plat, fp in BID_CONFIGS:
                    b = S.build_id(st, fp, plat)
                    # which tools are used weakly is taken from the recipe text when the generator spec is at hand
                    weak_names = None
                    if pkg in pkgs:
                        weak_names = project.spec_tools(pkg, STAGE_OF[st.getLabel()])[1]
                        rec["spec_weak_tools"] = sorted(weak_names)
                    rec["bid"].append({"platform": plat.hex(), "fingerprint": None if fp is None else fp.hex(),
                                       "id": b.hex(), "req": S.lean_bid_request(st, rec["desc"], fp, plat),
                                       # the same Build-Id with another installed variant of every weakly used tool
                                       "id_other_weak_tools": S.build_id(st, fp, plat, weak_tag=b"other",
                                                                         weak_names=weak_names).hex()})
            out.append(rec)
        return {"steps": out, "truncated": len(out) >= cap}
    finally:
        bob.input.PackageMatcher.matches = orig_matches
        os.chdir(cwd)


def write_files(root, files, order=None):
    """files: relative path -> bytes"""
    names = list(files) if order is None else order
    for rel in names:
        p = os.path.join(root, rel)
        os.makedirs(os.path.dirname(p), exist_ok=True)
        with open(p, "wb") as f:
            f.write(files[rel])
    for sub in ("classes", "recipes"):
        os.makedirs(os.path.join(root, sub), exist_ok=True)


if __name__ == "__main__":
    # python evalproj.py <jobs.json>: [{"root":…, "sandbox":b, "out":…, "cap":n, "bids":b, "project": json|null}, …]
    here = os.path.dirname(os.path.dirname(os.path.abspath(__file__)))
    sys.path.insert(0, here)
    repo = os.environ.get("BOB_VERIF_REPO", "/repo")
    sys.path.insert(0, os.path.join(repo, "pym"))
    from gen import projects as _G
    with open(sys.argv[1]) as f:
        jobs = json.load(f)
    for job in jobs:
        proj = _G.Project.from_json(job["project"]) if job.get("project") else None
        try:
            res = evaluate(job["root"], job["sandbox"], proj, job.get("cap", 600), bids=job.get("bids", False),
                           memo=job.get("memo", True))
        except Exception as e:  # reported to the caller, which decides what it means
            import traceback
            res = {"crash": "".join(traceback.format_exception_only(type(e), e))[-500:]}
        with open(job["out"], "w") as f:
            json.dump(res, f)
