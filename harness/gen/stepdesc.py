"""Views of a real `bob.input.Step`, shared by the C02 / C03 checks (and usable by C01/C07):

  export_step(step)      the description that the Lean digest model needs, read through public getters and the
                         intermediate representation (`ExecutableStep.fromStep(...).toData()`), *digest side*
  lean_vid_request(d)    the `vid` request of drv_c02 / drv_c03 for an exported description
  sem_of_step(step, ...) what the step executes and consumes, read from the *execution side* getters only
                         (getScript, getEnv, getTools, getArguments, SCM / assert properties); never getDigestScript
  build_id(step, ...)    Build-Id through StepIR.getDigestCoro with harness supplied digests
"""
import hashlib
import re


def _ir(step):
    from bob.cmds.build.build import ExecutableStep, LazyIR
    return ExecutableStep.fromStep(step, LazyIR)


def export_step(step):
    """Tools and sandbox are read from the step's *core* view (`CoreStep.getTools/getSandbox`: what the package was
    computed with, which is what `CoreStep.getDigest` hashes).  The package-level getters `Step.getTools/getSandbox`
    reconstruct them from the path by which the package was reached; below a package that `Recipe.prepare` merged
    into an earlier one with the same result id (known findings F-C04-2..5) the two views can differ.  The difference
    is recorded in `view_mismatch` (counted by the checks), everything else comes from the public getters."""
    ir = _ir(step).toData()
    weak = set(ir["toolKeysWeak"])
    core = step._coreStep
    csb = core.getSandbox()
    sandbox = csb.coreStep.variantId.hex() if csb else None
    tools = [{"name": n, "prov": t.coreStep.variantId.hex(), "path": t.path, "libs": list(t.libs), "weak": n in weak}
             for n, t in core.getTools().items()]
    psb = step.getSandbox()
    pub_tools = sorted((n, t.getStep().getVariantId().hex(), t.getPath(), tuple(t.getLibs())) for n, t in step.getTools().items())
    mismatch = []
    if (psb.getStep().getVariantId().hex() if psb else None) != sandbox:
        mismatch.append("sandbox")
    if pub_tools != sorted((t["name"], t["prov"], t["path"], tuple(t["libs"])) for t in tools):
        mismatch.append("tools")
    return {
        "label": step.getLabel(),
        "valid": step.isValid(),
        "vid": step.getVariantId().hex(),
        "script": step.getDigestScript(),
        "tools": tools,
        "env": [[k, v] for k, v in ir["digestEnv"].items()],
        "args": [{"vid": a.getVariantId().hex(), "valid": bool(a.isValid())} for a in step.getArguments()],
        "fingerprinted": bool(step._isFingerprinted()),
        "sandbox": sandbox,
        "view_mismatch": mismatch,
    }


def lean_vid_request(d, op="vid", **extra):
    r = {"op": op, "script": d["script"], "tools": d["tools"], "env": d["env"],
         "args": [a["vid"] for a in d["args"] if a["valid"]],
         "host": d["sandbox"] if (d["fingerprinted"] and d["sandbox"]) else ""}
    r.update(extra)
    return r


# ---------------------------------------------------------------------- execution side

_SRC = re.compile(r"^_BOB_SOURCES\[\$LINENO\]=.*$", re.M)
_MKTEMP = re.compile(r"^(_[A-Za-z0-9_]+)=\$\(mktemp\)$", re.M)


GLUE = "\ncd \"${BOB_CWD}\"\n"


def normalise_script(text):
    """the executed script without the names of the files the fragments came from: the `_BOB_SOURCES[..]=`
    marker lines keep their position (fragment boundaries) but lose the recipe / class name; the temporary file
    variables of `$<<file>>` includes (named after the recipe / class, numbered per fragment) are renumbered per
    fragment in order of appearance"""
    out = []
    for frag in text.split(GLUE):
        frag = _SRC.sub("_BOB_SOURCES=#", frag)
        names = []
        for m in _MKTEMP.finditer(frag):
            if m.group(1) not in names:
                names.append(m.group(1))
        # longest first so that a name that is a prefix of another one is not replaced inside it
        for n in sorted(names, key=len, reverse=True):
            frag = re.sub(re.escape(n) + r"(?![A-Za-z0-9_])", "_INC%d#" % names.index(n), frag)
        out.append(frag)
    return GLUE.join(out)


def scm_sem(props):
    """the documented symbolic description of one SCM (what is checked out where), from its properties"""
    k = props["scm"]
    if k == "git":
        if props.get("commit"):
            ref = ("commit", props["commit"])
        elif props.get("tag"):
            ref = ("url", props["url"], "refs/tags/" + props["tag"])
        elif props.get("branch"):
            ref = ("url", props["url"], "refs/heads/" + props["branch"])
        else:
            ref = ("url", props["url"], props["rev"])
        sub = props.get("submodules")
        subs = None
        if sub:
            subs = (tuple(sub) if isinstance(sub, list) else True, bool(props.get("recurseSubmodules")))
        return ("git", ref, props["dir"], subs)
    if k == "url":
        what = props.get("digestSHA512") or props.get("digestSHA256") or props.get("digestSHA1") or props["url"]
        import posixpath
        return ("url", what, posixpath.join(props["dir"], props["fileName"]), str(props["extract"]),
                props["stripComponents"] if props["stripComponents"] > 0 else 0, props.get("fileMode"),
                bool(props.get("__separateDownload")))
    if k == "import":
        return ("import", props["url"], props["dir"])
    if k == "svn":
        return ("svn", props["url"], props.get("revision") or None, props["dir"])
    if k == "cvs":
        return ("cvs", props["cvsroot"], props.get("rev"), props["module"], props["dir"])
    return (k, tuple(sorted((a, repr(b)) for a, b in props.items() if not a.startswith("__") and a not in ("recipe", "overridden"))))


def sem_of_step(step, strong_vars, tool_id=lambda vid: vid):
    """(kind, Sem) where Sem is a hashable tuple: executed script, strong variables with values, tools in name order
    (provider variant, path, libs), variants of the valid arguments in order, the sandbox variant if the step is
    fingerprinted inside a sandbox, for checkouts the SCM descriptions and assertions.
    `strong_vars` is the set of variables declared strong for this step (from the recipe text, not from Bob)."""
    env = step.getEnv()
    sb = step._coreStep.getSandbox()     # core view, see export_step
    sem = {
        "script": normalise_script(step.getScript()) if step.isValid() else None,
        "env": tuple(sorted((k, env[k]) for k in strong_vars if k in env)),
        "tools": tuple((tool_id(t.coreStep.variantId), t.path, tuple(t.libs))
                       for _, t in sorted(step._coreStep.getTools().items())),
        "args": tuple(a.getVariantId() for a in step.getArguments() if a.isValid()),
        "sandbox": sb.coreStep.variantId if (sb and step._isFingerprinted()) else None,
    }
    if step.isCheckoutStep() and step.isValid():
        sem["scm"] = tuple(scm_sem(s.getProperties(False)) for s in step.getScmList())
        sem["asserts"] = tuple((a["file"], a["digestSHA1"], a["start"], a["end"]) for a in step.getPostRunCmds())
    return sem


def sem_key(sem):
    return tuple(sorted(sem.items()))


# ---------------------------------------------------------------------- build ids

def fake_digest(tag, step):
    """harness supplied 'source hash' / dependency digest: a function of the step identity only.
    Every third one is 40 bytes long so that host slices occur."""
    v = step.getVariantId()
    d = hashlib.sha1(tag + v).digest()
    if d[0] % 3 == 0:
        d += hashlib.sha1(b"host" + tag + v).digest()
    return d


def build_id(step, fingerprint, platform, relax=True, tag=b"bid", weak_tag=None, weak_names=None):
    """StepIR.getDigestCoro(...) with digests of the dependencies supplied by `fake_digest`.
    With `weak_tag` the providers of weakly used tools get a different digest (another variant is installed)."""
    ir = _ir(step)
    weak_vids = set()
    if weak_tag is not None:
        weak = set(step.toolDepWeak) if weak_names is None else set(weak_names)
        weak_vids = {t.getStep().getVariantId() for n, t in step.getTools().items() if n in weak}
        strong_vids = {t.getStep().getVariantId() for n, t in step.getTools().items() if n not in weak} | \
            {a.getVariantId() for a in step.getArguments()}
        sb = step.getSandbox()
        if sb:
            strong_vids.add(sb.getStep().getVariantId())
        weak_vids -= strong_vids   # the same step also used strongly: its digest stays

    async def calc(steps):
        return [fake_digest(weak_tag if s.getVariantId() in weak_vids else tag, s) for s in steps]

    return run_coro(ir.getDigestCoro(calc, fingerprint=fingerprint, platform=platform, relaxTools=relax))


def run_coro(coro):
    """drive a coroutine that never really suspends (all awaited callables are supplied by the harness)"""
    try:
        coro.send(None)
    except StopIteration as e:
        return e.value
    coro.close()
    raise RuntimeError("coroutine suspended: it awaited something the harness does not control")


def lean_bid_request(step, d, fingerprint, platform, tag=b"bid"):
    """the `bid` request that mirrors `build_id`"""
    # StepIR works on the package-level view of the tools (Step.getTools)
    weak = set(step.toolDepWeak)
    tools = [{"name": n, "prov": fake_digest(tag, tool.getStep()).hex(), "path": tool.getPath(), "libs": list(tool.getLibs()),
              "weak": n in weak} for n, tool in step.getTools().items()]
    args = [fake_digest(tag, a).hex() for a in step.getArguments() if a.isValid()]
    if fingerprint is None:
        # no fingerprint given: getDigestCoro falls back to the Variant-Id rule (sandbox step digest)
        sb = step.getSandbox()
        host = fake_digest(tag, sb.getStep()).hex() if (sb and d["fingerprinted"]) else ""
    else:
        host = fingerprint.hex()
    return {"op": "bid", "script": d["script"], "tools": tools, "env": d["env"], "args": args,
            "host": host, "platform": platform.hex()}
